package trie

// C07 harness: "The Merkle Patricia trie is an authenticated map with a canonical root".
//
// One case = one op sequence (put/del/get/root/commit+reopen/copy/prove) on one Trie or one
// StateTrie over a tiny key universe. Two independent things are produced:
//
//   * M records for the Lean model "trie" (line protocol: case, put, del, get, root, prove,
//     verify, h2c, c2h, kb2h, stackroot). The model is a pure map -> structure -> root
//     function; it does not know about commit / reopen / copy. For StateTrie cases the model
//     key is keccak256(raw key), computed here with go-ethereum's crypto package.
//   * the oracle, written from the property statement and independent of the model: a shadow
//     map, fresh tries built in another order, go-ethereum v1.9.15's trie, StackTrie,
//     DeriveSha, reopen-by-root, NodeIterator, proofs with tampering, range proofs, Copy.
//
// Behaviours of the unchanged code established while writing this harness (never fed / allowed):
//   - StackTrie.Update panics on an empty value ("deletion not supported", stacktrie.go:208),
//     on a key that was already inserted or that has an inserted key as a prefix ("Trying to
//     insert into existing key", stacktrie.go:340) and on out-of-order keys ("trying to insert
//     into hash", stacktrie.go:383). StackTrie is therefore fed only sorted, prefix-free,
//     non-empty-valued content (variable-length keys are fine as long as no key is a prefix of
//     another one: that is what types.DeriveSha relies on).
//   - VerifyProof on the EMPTY trie returns an error ("proof node 0 missing", proof.go:121-124):
//     Prove on an empty trie emits no node at all, so absence in the empty trie is not provable.
//     The oracle accepts exactly `err` there.
//   - Commit(true) collects leaves; hashdb.Database.Update then decodes every leaf of the
//     owner-less trie as a types.StateAccount (triedb/hashdb/database.go:588-597) and returns a
//     decode error for arbitrary values AFTER having inserted all nodes. The harness ignores
//     that error when collectLeaf was true.
//   - "Once the trie is committed, it's not usable anymore" (trie.go:32-35, 573-574): the
//     harness always re-creates the trie with New/NewStateTrie after Commit.
//   - NodeIterator visits the 17th child (value of a key that is a prefix of other keys) AFTER
//     children 0..15 (iterator.go:432), i.e. leaves come in the order of their hex-nibble paths
//     with the terminator 16 greater than every nibble; for prefix-free key sets this is the
//     bytewise order. The oracle checks that order.
//   - StateTrie.Prove does not hash its key argument (proof.go:110-112): it is called with the
//     hashed key.
//   - VerifyRangeProof requires edge keys of equal length (proof.go:543-546); range proofs are
//     only exercised when all keys have the same length.

import (
	"bytes"
	"fmt"
	"sort"
	"strings"
	"testing"

	gethcommon "github.com/ethereum/go-ethereum/common"
	gethtypes "github.com/ethereum/go-ethereum/core/types"
	gethcrypto "github.com/ethereum/go-ethereum/crypto"
	gethmemdb "github.com/ethereum/go-ethereum/ethdb/memorydb"
	gethrlp "github.com/ethereum/go-ethereum/rlp"
	gethtrie "github.com/ethereum/go-ethereum/trie"

	"github.com/kardiachain/go-kardia/kai/kaidb"
	"github.com/kardiachain/go-kardia/kai/kaidb/memorydb"
	"github.com/kardiachain/go-kardia/lib/common"
	"github.com/kardiachain/go-kardia/trie/trienode"
	"github.com/kardiachain/go-kardia/types"
)

const vf7Model = "trie"

// ---------------------------------------------------------------------------------------------
// small helpers

type vf7KV struct{ k, v []byte }

func vf7Copy(b []byte) []byte { return append([]byte{}, b...) }

func vf7CloneMap(m map[string][]byte) map[string][]byte {
	c := make(map[string][]byte, len(m))
	for k, v := range m {
		c[k] = v
	}
	return c
}

// vf7Sorted returns the content sorted bytewise by key.
func vf7Sorted(m map[string][]byte) []vf7KV {
	ks := make([]string, 0, len(m))
	for k := range m {
		ks = append(ks, k)
	}
	sort.Strings(ks)
	out := make([]vf7KV, len(ks))
	for i, k := range ks {
		out[i] = vf7KV{[]byte(k), m[k]}
	}
	return out
}

// vf7Nib is the harness' own key -> hex-nibble path (with terminator 16).
func vf7Nib(k []byte) []byte {
	out := make([]byte, 0, 2*len(k)+1)
	for _, b := range k {
		out = append(out, b>>4, b&15)
	}
	return append(out, 16)
}

// vf7PathSorted returns the content in the order of the hex-nibble paths.
func vf7PathSorted(m map[string][]byte) []vf7KV {
	out := vf7Sorted(m)
	sort.SliceStable(out, func(i, j int) bool { return bytes.Compare(vf7Nib(out[i].k), vf7Nib(out[j].k)) < 0 })
	return out
}

func vf7SameLen(kvs []vf7KV) bool {
	for i := 1; i < len(kvs); i++ {
		if len(kvs[i].k) != len(kvs[0].k) {
			return false
		}
	}
	return true
}

// vf7PrefixFree: no key is a prefix of another one (kvs sorted bytewise).
func vf7PrefixFree(kvs []vf7KV) bool {
	for i := 1; i < len(kvs); i++ {
		if bytes.HasPrefix(kvs[i].k, kvs[i-1].k) {
			return false
		}
	}
	return true
}

func vf7Shuffle(r *vfRand, n int) []int {
	p := make([]int, n)
	for i := range p {
		p[i] = i
	}
	for i := n - 1; i > 0; i-- {
		j := r.Intn(i + 1)
		p[i], p[j] = p[j], p[i]
	}
	return p
}

func vf7SetNibble(k []byte, i int, v int) {
	if i < 0 || i/2 >= len(k) {
		return
	}
	if i%2 == 0 {
		k[i/2] = k[i/2]&0x0f | byte(v)<<4
	} else {
		k[i/2] = k[i/2]&0xf0 | byte(v)&0x0f
	}
}

// big-endian +1 / -1 on a fixed-length key; nil on overflow / underflow.
func vf7Inc(k []byte) []byte {
	c := vf7Copy(k)
	for i := len(c) - 1; i >= 0; i-- {
		c[i]++
		if c[i] != 0 {
			return c
		}
	}
	return nil
}
func vf7Dec(k []byte) []byte {
	c := vf7Copy(k)
	for i := len(c) - 1; i >= 0; i-- {
		c[i]--
		if c[i] != 0xff {
			return c
		}
	}
	return nil
}

func vf7HexList(bs [][]byte) string {
	p := make([]string, len(bs))
	for i, b := range bs {
		p[i] = vfHex(b)
	}
	return strings.Join(p, " ")
}

// vf7Rec is the proof writer: it records the Put order.
type vf7Rec struct{ keys, vals [][]byte }

func (p *vf7Rec) Put(k, v []byte) error {
	p.keys = append(p.keys, vf7Copy(k))
	p.vals = append(p.vals, vf7Copy(v))
	return nil
}
func (p *vf7Rec) Delete(k []byte) error { return nil }

// vf7ProofDb builds the proof database the way a receiver does: keyed by Keccak256(blob).
func vf7ProofDb(blobs [][]byte) *memorydb.Database {
	db := memorydb.New()
	for _, b := range blobs {
		db.Put(gethcrypto.Keccak256(b), b)
	}
	return db
}

// vf7List is a DerivableList for both the repository's and geth's DeriveSha.
type vf7List [][]byte

func (l vf7List) Len() int                           { return len(l) }
func (l vf7List) EncodeIndex(i int, w *bytes.Buffer) { w.Write(l[i]) }
func (l vf7List) GetRlp(i int) []byte                { return l[i] }

// ---------------------------------------------------------------------------------------------
// a handle over Trie / StateTrie driven through the public API

type vf7H struct {
	t *Trie
	s *StateTrie
}

// diskAndGC: the database below the trie. (1) an older, still unflushed root is dereferenced
// (garbage collected): the current root shares nodes with it and must stay complete; (2) the
// current root is written to disk (Commit, or Cap(0) which flushes everything) and opened again
// through a FRESH trie database over the same key-value store - what a restarted node sees.
func (c *vf7Case) diskAndGC(root common.Hash) bool {
	r := c.r
	if len(c.olds) > 0 && r.Chance(50) {
		old := c.olds[0]
		if old.root != root && old.root != types.EmptyRootHash {
			kept := c.olds[:0:0]
			for _, x := range c.olds {
				if x.root != old.root { // the same content may have been committed more than once
					kept = append(kept, x)
				}
			}
			c.olds = kept
			c.note(fmt.Sprintf("dereference(%x)", old.root[:4]))
			var err error
			if !c.guard("db.Dereference", func() { err = c.db.Dereference(old.root) }) {
				return false
			}
			if err != nil {
				c.viol("C07/dereference-error", err.Error())
				return false
			}
			c.o.Stat("db.dereference")
			var vh vf7H
			if !c.guard("reopen after dereference", func() { vh, err = vf7Open(c.secure, root, c.db) }) {
				return false
			}
			if err != nil {
				c.viol("C07/reopen-content-differs", fmt.Sprintf("root %x cannot be opened after an OLDER root was dereferenced: %v", root, err))
				return false
			}
			if !c.checkContent(vh, c.shadow, "C07/reopen-content-differs", "current root after an older root was dereferenced") {
				return false
			}
		}
	}
	how := "Commit"
	var err error
	if r.Chance(30) {
		how = "Cap(0)"
		if !c.guard("db.Cap", func() { err = c.db.Cap(0) }) {
			return false
		}
	} else if !c.guard("db.Commit", func() { err = c.db.Commit(root, false) }) {
		return false
	}
	if err != nil {
		c.viol("C07/db-flush-error", fmt.Sprintf("%s: %v", how, err))
		return false
	}
	c.note("flush:" + how)
	c.o.Stat("db.flush." + how)
	fresh := NewDatabase(c.disk)
	var vh vf7H
	if !c.guard("reopen from disk", func() { vh, err = vf7Open(c.secure, root, fresh) }) {
		return false
	}
	if err != nil {
		c.viol("C07/reopen-from-disk-differs", fmt.Sprintf("root %x written with %s cannot be opened from the key-value store: %v", root, how, err))
		return false
	}
	if !c.checkContent(vh, c.shadow, "C07/reopen-from-disk-differs", "trie reopened from the key-value store after "+how) {
		return false
	}
	var h2 common.Hash
	if !c.guard("hash of the trie reopened from disk", func() { h2 = vh.hash() }) {
		return false
	}
	if h2 != root {
		c.viol("C07/reopen-from-disk-differs", fmt.Sprintf("%s wrote root %x, the trie read back hashes to %x", how, root, h2))
		return false
	}
	// the working database keeps serving the root after the flush (nodes moved from dirty to clean/disk)
	if !c.guard("reopen after flush", func() { vh, err = vf7Open(c.secure, root, c.db) }) {
		return false
	}
	if err != nil || !c.checkContent(vh, c.shadow, "C07/reopen-content-differs", "working database after "+how) {
		if err != nil {
			c.viol("C07/reopen-content-differs", fmt.Sprintf("root %x cannot be opened from the working database after %s: %v", root, how, err))
		}
		return false
	}
	return true
}

func vf7Open(secure bool, root common.Hash, db *Database) (vf7H, error) {
	if secure {
		s, err := NewStateTrie(StateTrieID(root), db)
		return vf7H{s: s}, err
	}
	t, err := New(TrieID(root), db)
	return vf7H{t: t}, err
}

func (h vf7H) get(raw []byte) ([]byte, error) {
	if h.s != nil {
		return h.s.MustGet(raw), nil
	}
	return h.t.Get(raw)
}
func (h vf7H) put(raw, v []byte, alt bool) error {
	if h.s != nil {
		h.s.MustUpdate(raw, v)
		return nil
	}
	if alt {
		h.t.MustUpdate(raw, v)
		return nil
	}
	return h.t.Update(raw, v)
}
func (h vf7H) del(raw []byte, alt bool) error {
	if h.s != nil {
		if alt {
			return h.s.DeleteStorage(common.Address{}, raw)
		}
		h.s.MustDelete(raw)
		return nil
	}
	if alt {
		h.t.MustDelete(raw)
		return nil
	}
	return h.t.Delete(raw)
}
func (h vf7H) hash() common.Hash {
	if h.s != nil {
		return h.s.Hash()
	}
	return h.t.Hash()
}
func (h vf7H) commit(leaf bool) (common.Hash, *trienode.NodeSet) {
	if h.s != nil {
		return h.s.Commit(leaf)
	}
	return h.t.Commit(leaf)
}
func (h vf7H) prove(mk []byte, w kaidb.KeyValueWriter) error {
	if h.s != nil {
		return h.s.Prove(mk, 0, w)
	}
	return h.t.Prove(mk, 0, w)
}
func (h vf7H) iter(start []byte) NodeIterator {
	if h.s != nil {
		return h.s.NodeIterator(start)
	}
	return h.t.NodeIterator(start)
}
func (h vf7H) copy() vf7H {
	if h.s != nil {
		return vf7H{s: h.s.Copy()}
	}
	return vf7H{t: h.t.Copy()}
}

// ---------------------------------------------------------------------------------------------
// key universes and values

var vf7Alpha = []byte{0x00, 0x01, 0x10, 0x11, 0xf0, 0xff}

func vf7AlphaBytes(r *vfRand, n int) []byte {
	b := make([]byte, n)
	for i := range b {
		b[i] = vf7Alpha[r.Intn(len(vf7Alpha))]
	}
	return b
}

func vf7Universe(r *vfRand) (name string, keys [][]byte, secure bool, fixed bool) {
	size := 3 + r.Intn(22)
	seen := map[string]bool{}
	add := func(k []byte) {
		if !seen[string(k)] && len(keys) < size {
			seen[string(k)] = true
			keys = append(keys, vf7Copy(k))
		}
	}
	p := r.Intn(100)
	if r.Chance(14) {
		// U6: collapse shapes. Two keys sharing a long prefix plus a third diverging early (and
		// variations), so that branches with exactly two children are the rule: deleting one key
		// leaves a sole sibling that is a leaf or an extension, which delete must merge upwards.
		name, fixed = "U6", true
		l := r.Pick(2, 3, 4, 8, 20, 32)
		nn := 2 * l
		for g, ng := 0, 1+r.Intn(3); g < ng; g++ {
			base := r.Bytes(l)
			if g > 0 && r.Bool() { // second group shares the first nibble(s) with the first one
				copy(base, keys[0][:1+r.Intn(l-1)])
				vf7SetNibble(base, nn-1-r.Intn(nn/2), r.Intn(16))
			}
			add(base)
			late := vf7Copy(base) // long common prefix with base
			vf7SetNibble(late, nn-1-r.Intn(3), r.Intn(16))
			add(late)
			early := vf7Copy(base) // diverges early
			pe := r.Intn(nn - 2)
			if r.Chance(70) {
				pe = r.Intn(4)
			}
			vf7SetNibble(early, pe, r.Intn(16))
			add(early)
			if r.Bool() {
				e2 := vf7Copy(early)
				vf7SetNibble(e2, nn-1-r.Intn(2), r.Intn(16))
				add(e2)
			}
			if r.Bool() {
				mid := vf7Copy(base)
				vf7SetNibble(mid, pe+1+r.Intn(nn-pe-1), r.Intn(16))
				add(mid)
			}
			if len(keys) >= size {
				break
			}
		}
		return
	}
	switch {
	case p < 25: // U1: 32-byte keys sharing long prefixes
		name, fixed = "U1", true
		base := r.Bytes(32)
		mode := r.Intn(3)
		pos := r.Intn(64)
		for tries := 0; tries < size*6 && len(keys) < size; tries++ {
			k := vf7Copy(base)
			switch mode {
			case 0:
				for j, nn := 0, 1+r.Intn(3); j < nn; j++ {
					vf7SetNibble(k, 63-j, r.Intn(16))
				}
			case 1:
				vf7SetNibble(k, pos, r.Intn(16))
				if r.Chance(30) {
					vf7SetNibble(k, 63, r.Intn(3))
				}
			default:
				vf7SetNibble(k, pos, r.Intn(4))
				vf7SetNibble(k, r.Pick(pos+1, 40, 63), r.Intn(4))
			}
			add(k)
		}
	case p < 50: // U2: short fixed length, few distinct byte values
		name, fixed = "U2", true
		l := r.Pick(1, 2, 3, 4, 20)
		base := vf7AlphaBytes(r, l)
		var vary [3]int
		for i := range vary {
			vary[i] = r.Intn(l)
		}
		for tries := 0; tries < size*6 && len(keys) < size; tries++ {
			var k []byte
			switch {
			case l == 1 && r.Bool():
				k = r.Bytes(1)
			case l == 20:
				k = vf7Copy(base)
				for _, v := range vary[:1+r.Intn(3)] {
					k[v] = vf7Alpha[r.Intn(len(vf7Alpha))]
				}
			default:
				k = vf7AlphaBytes(r, l)
			}
			add(k)
		}
	case p < 65: // U3: keccak-like random 32-byte keys
		name, fixed = "U3", true
		for len(keys) < size {
			add(r.Bytes(32))
		}
	case p < 85: // U4: variable length 0..40, empty key, keys that are prefixes of other keys
		name = "U4"
		if r.Bool() {
			add([]byte{})
		}
		for s, ns := 0, 1+r.Intn(4); s < ns; s++ {
			l := r.Pick(0, 1, 2, 5, 20, 31, 32, 33, 38)
			var stem []byte
			if r.Bool() {
				stem = vf7AlphaBytes(r, l)
			} else {
				stem = r.Bytes(l)
			}
			add(stem)
			e1 := append(vf7Copy(stem), vf7AlphaBytes(r, 1)...)
			add(e1)
			add(append(vf7Copy(e1), vf7AlphaBytes(r, 1)...))
			if l > 0 && r.Bool() {
				add(stem[:l-1])
			}
		}
		for tries := 0; tries < size*6 && len(keys) < size; tries++ {
			switch r.Intn(3) {
			case 0:
				add(vf7AlphaBytes(r, r.Intn(4)))
			case 1:
				k := keys[r.Intn(len(keys))]
				if len(k) < 40 {
					add(append(vf7Copy(k), vf7AlphaBytes(r, 1)...))
				}
			default:
				k := keys[r.Intn(len(keys))]
				if len(k) > 0 {
					c := vf7Copy(k)
					c[len(c)-1] ^= byte(1 << uint(r.Intn(8)))
					add(c)
				}
			}
		}
	default: // U5: secure trie, raw keys of any length
		name, secure, fixed = "U5", true, true
		for tries := 0; tries < size*6 && len(keys) < size; tries++ {
			add(r.Bytes(r.Pick(0, 1, 20, 20, 20, 32, 40, r.Intn(41))))
		}
	}
	return
}

// vf7Value picks a value (empty = delete); cur is what is stored now (for the "same value" path).
func vf7Value(r *vfRand, cur []byte) (v []byte, class string) {
	p := r.Intn(100)
	switch {
	case p < 8:
		return []byte{}, "empty"
	case p < 14 && len(cur) > 0:
		return vf7Copy(cur), "same"
	case p < 28:
		return []byte{byte(r.Pick(0x00, 0x7f, 0x80, 0x01, 0xff, r.Intn(256)))}, "1"
	case p < 44:
		return r.Bytes(2 + r.Intn(7)), "2-8"
	case p < 51:
		return r.Bytes(9 + r.Intn(15)), "9-23"
	case p < 61: // short keys: leaf / branch encodings of exactly 31, 32, 33 bytes
		return r.Bytes(24 + r.Intn(7)), "24-30"
	case p < 71:
		return r.Bytes(r.Pick(31, 32, 33)), "31-33"
	case p < 80:
		return r.Bytes(28 + r.Intn(9)), "28-36"
	case p < 98:
		return r.Bytes(50 + r.Intn(71)), "50-120"
	default:
		return r.Bytes(300), "300"
	}
}

// ---------------------------------------------------------------------------------------------
// one case

type vf7Held struct {
	h      vf7H
	shadow map[string][]byte
	what   string
}

type vf7Old struct {
	root   common.Hash
	shadow map[string][]byte
}

type vf7Case struct {
	o      *vfOut
	r      *vfRand
	seed   uint64
	idx    int
	uni    string
	secure bool
	fixed  bool
	db     *Database
	disk   *memorydb.Database // the key-value store under db: what survives a restart
	h      vf7H
	parent common.Hash // root last handed to db.Update

	keys    [][]byte          // universe (raw keys)
	usedL   [][]byte          // raw keys ever used, first-use order
	used    map[string]bool   // by raw key
	mkCache map[string][]byte // raw -> model key
	rawOf   map[string][]byte // model key -> raw
	shadow  map[string][]byte // model key -> last value written (absent if deleted)

	rootP      int // probability of a `root` op after a mutating op
	lazy       bool // reads for the oracle go to a Copy / a separately reopened instance, so that the
	// working trie keeps its unresolved hash nodes until a mutation resolves them (see reader)
	bigVals    bool // most values >= 32 bytes (children referenced by hash, not embedded)
	sinceOpen  int  // mutations applied to the working instance since it was (re)opened
	log        []string
	maxContent int
	failed     bool
	held       []vf7Held
	olds       []vf7Old
}

func (c *vf7Case) mk(raw []byte) []byte {
	if !c.secure {
		return raw
	}
	if m, ok := c.mkCache[string(raw)]; ok {
		return m
	}
	m := gethcrypto.Keccak256(raw)
	c.mkCache[string(raw)] = m
	c.rawOf[string(m)] = vf7Copy(raw)
	return m
}

func (c *vf7Case) markUsed(raw []byte) {
	if !c.used[string(raw)] {
		c.used[string(raw)] = true
		c.usedL = append(c.usedL, vf7Copy(raw))
	}
	c.mk(raw)
}

func (c *vf7Case) viol(sig, msg string) {
	c.failed = true
	d := fmt.Sprintf("seed=%d case=%d uni=%s secure=%v: %s; ops(raw keys)=[%s]", c.seed, c.idx, c.uni, c.secure, msg, strings.Join(c.log, "; "))
	if len(d) > 3000 {
		d = d[:3000] + "..."
	}
	c.o.Viol(sig, d)
}

// guard runs a piece of real code; a panic becomes a C07/panic violation.
func (c *vf7Case) guard(what string, f func()) (ok bool) {
	defer func() {
		if e := recover(); e != nil {
			ok = false
			c.viol("C07/panic", fmt.Sprintf("%s: panic: %v", what, e))
		}
	}()
	f()
	return true
}

func (c *vf7Case) op(line, real string) {
	c.o.Op(vf7Model, line, real)
}

func (c *vf7Case) note(s string) { c.log = append(c.log, s) }

// ---- key choice

func (c *vf7Case) anyKey() []byte { return c.keys[c.r.Intn(len(c.keys))] }

func (c *vf7Case) usedKey() []byte {
	if len(c.usedL) == 0 {
		return c.anyKey()
	}
	return c.usedL[c.r.Intn(len(c.usedL))]
}

// presentRaw returns the raw key of a random present entry (nil if the trie is empty).
func (c *vf7Case) presentRaw() []byte {
	kvs := vf7Sorted(c.shadow)
	if len(kvs) == 0 {
		return nil
	}
	mk := kvs[c.r.Intn(len(kvs))].k
	if c.secure {
		return c.rawOf[string(mk)]
	}
	return mk
}

// probeKey returns a raw key that is (most likely) never written: used for gets.
func (c *vf7Case) probeKey() []byte {
	r := c.r
	switch r.Intn(4) {
	case 0:
		for _, i := range vf7Shuffle(r, len(c.keys)) {
			if !c.used[string(c.keys[i])] {
				return c.keys[i]
			}
		}
		return r.Bytes(len(c.anyKey()))
	case 1:
		return append(vf7Copy(c.anyKey()), byte(r.Pick(0, 1, 0x10, 0xff, r.Intn(256))))
	case 2:
		k := c.anyKey()
		if len(k) > 0 {
			return vf7Copy(k[:len(k)-1])
		}
		return []byte{byte(r.Intn(256))}
	default:
		k := vf7Copy(c.anyKey())
		if len(k) == 0 {
			return []byte{0}
		}
		vf7SetNibble(k, r.Intn(2*len(k)), r.Intn(16))
		return k
	}
}

// ---- oracle pieces

// reader returns the instance the oracle reads from. In lazy cases this is (mostly) a Copy of the
// working trie: Get resolves hash nodes copy-on-write into the instance it is called on, so reading
// through a copy leaves the working instance exactly as unloaded as the mutations left it. Reading
// every key from the working trie after every op (what eager cases do) loads every node and hides
// the lazy-resolution paths of insert/delete/commit/Prove (e.g. the resolve of the sole remaining
// sibling when delete collapses a branch).
func (c *vf7Case) reader() vf7H {
	if !c.lazy || c.r.Chance(12) {
		return c.h
	}
	var cp vf7H
	if !c.guard("copy for reading", func() { cp = c.h.copy() }) {
		return c.h
	}
	c.o.Stat("lazy.read-on-copy")
	return cp
}

// checkContent: for every key ever used, Get must return the shadow value.
func (c *vf7Case) checkContent(h vf7H, shadow map[string][]byte, sig, what string) bool {
	for _, raw := range c.usedL {
		var v []byte
		var err error
		if !c.guard(what+" get "+vfHex(raw), func() { v, err = h.get(raw) }) {
			return false
		}
		want := shadow[string(c.mk(raw))]
		if err != nil || !bytes.Equal(v, want) {
			c.viol(sig, fmt.Sprintf("%s: Get(%s) = %s err=%v, last written %s", what, vfHex(raw), vfHex(v), err, vfHex(want)))
			return false
		}
	}
	return true
}

// checkIter: the leaf walk yields exactly the content, in path order, without error.
func (c *vf7Case) checkIter(h vf7H, shadow map[string][]byte, what string) bool {
	var got []vf7KV
	var ierr error
	if !c.guard(what+" iterate", func() {
		it := NewIterator(h.iter(nil))
		for it.Next() {
			got = append(got, vf7KV{vf7Copy(it.Key), vf7Copy(it.Value)})
			if len(got) > len(shadow)+4 {
				break
			}
		}
		ierr = it.Err
	}) {
		return false
	}
	c.o.Stat("iter.checks")
	want := vf7PathSorted(shadow)
	bad := ierr != nil || len(got) != len(want)
	for i := 0; !bad && i < len(want); i++ {
		bad = !bytes.Equal(got[i].k, want[i].k) || !bytes.Equal(got[i].v, want[i].v)
	}
	if bad {
		gs := make([]string, len(got))
		for i, e := range got {
			gs[i] = vfHex(e.k) + "=" + vfHex(e.v)
		}
		ws := make([]string, len(want))
		for i, e := range want {
			ws[i] = vfHex(e.k) + "=" + vfHex(e.v)
		}
		c.viol("C07/iterator-content-differs", fmt.Sprintf("%s: err=%v iterator=[%s] content=[%s]", what, ierr, strings.Join(gs, ","), strings.Join(ws, ",")))
		return false
	}
	return true
}

// checkSeek: NodeIterator(start) yields the entries with key >= start (same-length keys only).
func (c *vf7Case) checkSeek(h vf7H, what string) {
	kvs := vf7Sorted(c.shadow)
	if len(kvs) == 0 || !vf7SameLen(kvs) {
		return
	}
	r := c.r
	start := vf7Copy(kvs[r.Intn(len(kvs))].k)
	switch r.Intn(4) {
	case 0:
		if s := vf7Inc(start); s != nil {
			start = s
		}
	case 1:
		if s := vf7Dec(start); s != nil {
			start = s
		}
	case 2:
		start = r.Bytes(len(start))
	}
	var got [][]byte
	var ierr error
	if !c.guard(what+" seek "+vfHex(start), func() {
		it := NewIterator(h.iter(start))
		for it.Next() {
			got = append(got, vf7Copy(it.Key))
			if len(got) > len(kvs)+4 {
				break
			}
		}
		ierr = it.Err
	}) {
		return
	}
	c.o.Stat("iter.seeks")
	var want [][]byte
	for _, e := range kvs {
		if bytes.Compare(e.k, start) >= 0 {
			want = append(want, e.k)
		}
	}
	if ierr != nil || vf7HexList(got) != vf7HexList(want) {
		c.viol("C07/iterator-seek-differs", fmt.Sprintf("%s: start=%s err=%v got=[%s] want=[%s]", what, vfHex(start), ierr, vf7HexList(got), vf7HexList(want)))
	}
}

func vf7GethRoot(r *vfRand, kvs []vf7KV) (*gethtrie.Trie, common.Hash) {
	gt, _ := gethtrie.New(gethcommon.Hash{}, gethtrie.NewDatabase(gethmemdb.New()))
	for _, i := range vf7Shuffle(r, len(kvs)) {
		gt.Update(kvs[i].k, kvs[i].v)
	}
	return gt, common.BytesToHash(gt.Hash().Bytes())
}

func vf7StackRoot(kvs []vf7KV) common.Hash {
	st := NewStackTrie(nil)
	for _, e := range kvs {
		st.Update(e.k, e.v)
	}
	return st.Hash()
}

// checkRoot: the root is a function of the content alone.
func (c *vf7Case) checkRoot(root common.Hash) {
	r := c.r
	kvs := vf7Sorted(c.shadow)
	c.o.Stat("rootcheck")
	// (a) fresh trie, other insertion order, garbage written first, extra keys inserted then deleted
	var fresh common.Hash
	desc := ""
	if !c.guard("fresh trie", func() {
		fdb := NewDatabase(memorydb.New())
		viaSecure := c.secure && r.Bool()
		fh, err := vf7Open(viaSecure, types.EmptyRootHash, fdb)
		if err != nil {
			panic(err)
		}
		keyOf := func(mk []byte) []byte {
			if viaSecure {
				return c.rawOf[string(mk)]
			}
			return mk
		}
		var extras [][]byte
		if r.Chance(50) {
			for n := 1 + r.Intn(3); n > 0; n-- {
				var e []byte
				if c.fixed && !viaSecure && len(kvs) > 0 && r.Chance(70) {
					e = r.Bytes(len(kvs[0].k))
					if r.Bool() { // long shared prefix with an existing key
						e = vf7Copy(kvs[r.Intn(len(kvs))].k)
						if len(e) > 0 {
							vf7SetNibble(e, 2*len(e)-1-r.Intn(2), r.Intn(16))
						}
					}
				} else {
					e = r.Bytes(r.Intn(35))
				}
				mk := e
				if viaSecure {
					mk = gethcrypto.Keccak256(e)
				}
				if _, present := c.shadow[string(mk)]; !present {
					extras = append(extras, e)
				}
			}
		}
		for _, e := range extras {
			fh.put(e, r.Bytes(1+r.Intn(40)), false)
			desc += " +x" + vfHex(e)
		}
		if r.Chance(40) { // garbage first, overwritten below
			for _, e := range kvs {
				if r.Chance(40) {
					fh.put(keyOf(e.k), r.Bytes(1+r.Intn(40)), false)
				}
			}
			desc += " garbage-first"
		}
		if r.Chance(30) {
			fh.hash()
			desc += " mid-hash"
		}
		for _, i := range vf7Shuffle(r, len(kvs)) {
			fh.put(keyOf(kvs[i].k), kvs[i].v, false)
			desc += " " + fmt.Sprint(i)
		}
		if r.Chance(30) {
			fh.hash()
		}
		for _, i := range vf7Shuffle(r, len(extras)) {
			fh.del(extras[i], false)
		}
		fresh = fh.hash()
	}) {
		return
	}
	c.o.Stat("rootcheck.fresh")
	if fresh != root {
		c.viol("C07/root-order-dependent", fmt.Sprintf("root=%x but a fresh trie with the same content built as [%s] has root %x", root, desc, fresh))
		return
	}
	// (b) go-ethereum v1.9.15
	_, groot := vf7GethRoot(r, kvs)
	c.o.Stat("rootcheck.geth")
	if groot != root {
		c.viol("C07/root-differs-from-geth", fmt.Sprintf("root=%x geth=%x entries=%d", root, groot, len(kvs)))
		return
	}
	// (c) StackTrie on the sorted content (prefix-free key sets only, see the header)
	if vf7PrefixFree(kvs) {
		var sroot common.Hash
		if !c.guard("stacktrie", func() { sroot = vf7StackRoot(kvs) }) {
			return
		}
		c.o.Stat("rootcheck.stack")
		if sroot != root {
			c.viol("C07/stacktrie-root-differs", fmt.Sprintf("root=%x stacktrie=%x entries=%d", root, sroot, len(kvs)))
		}
	}
}

// ---- ops

func (c *vf7Case) modelGet(raw []byte) {
	c.markUsed(raw)
	var v []byte
	var err error
	rd := c.reader()
	if !c.guard("get "+vfHex(raw), func() { v, err = rd.get(raw) }) {
		return
	}
	out := vfHex(v)
	if err != nil {
		out = "err"
	}
	c.op("get "+vfHex(c.mk(raw)), out)
	want := c.shadow[string(c.mk(raw))]
	if err != nil || !bytes.Equal(v, want) {
		c.viol("C07/get-not-last-written", fmt.Sprintf("Get(%s) = %s err=%v, last written %s", vfHex(raw), vfHex(v), err, vfHex(want)))
	}
}

func (c *vf7Case) opRoot(force bool) {
	var root common.Hash
	if !c.guard("hash", func() { root = c.h.hash() }) {
		return
	}
	c.op("root", vfHex(root[:]))
	if force || c.r.Chance(35) {
		c.checkRoot(root)
	}
}

// afterMut: oracle over all keys ever used, then the model's share.
func (c *vf7Case) afterMut(touched []byte) {
	if c.failed {
		return
	}
	if len(c.shadow) > c.maxContent {
		c.maxContent = len(c.shadow)
	}
	c.sinceOpen++
	if !c.checkContent(c.reader(), c.shadow, "C07/get-not-last-written", "live trie") {
		return
	}
	r := c.r
	if r.Chance(c.rootP) {
		c.opRoot(false)
	}
	if c.failed {
		return
	}
	c.modelGet(touched)
	if !c.failed && r.Chance(35) {
		c.modelGet(c.usedKey())
	}
	if !c.failed && r.Chance(15) {
		c.modelGet(c.probeKey())
	}
}

func (c *vf7Case) doPut(raw, v []byte) {
	c.markUsed(raw)
	mk := c.mk(raw)
	alt := c.r.Chance(15)
	c.note("put " + vfHex(raw) + " " + vfHex(v))
	out := "ok"
	var err error
	if !c.guard("update", func() { err = c.h.put(raw, v, alt) }) {
		out = "err"
	} else if err != nil {
		out = "err"
		c.viol("C07/update-error", fmt.Sprintf("Update(%s) returned %v", vfHex(raw), err))
	}
	c.op("put "+vfHex(mk)+" "+vfHex(v), out)
	if len(v) == 0 {
		delete(c.shadow, string(mk))
	} else {
		c.shadow[string(mk)] = v
	}
}

func (c *vf7Case) opPut() {
	r := c.r
	var raw []byte
	if r.Chance(50) {
		raw = c.usedKey()
	} else {
		raw = c.anyKey()
	}
	cur := c.shadow[string(c.mk(raw))]
	v, class := vf7Value(r, cur)
	if c.bigVals && len(v) > 0 && len(v) < 32 && class != "same" && r.Chance(80) {
		v, class = r.Bytes(32+r.Intn(60)), "big-forced"
	}
	c.o.Stat("op.put")
	c.o.Stat("val." + class)
	switch {
	case len(v) == 0 && len(cur) > 0:
		c.o.Stat("del.existing")
	case len(v) == 0:
		c.o.Stat("del.absent")
	case len(cur) > 0 && bytes.Equal(cur, v):
		c.o.Stat("put.same-value")
	case len(cur) > 0:
		c.o.Stat("put.overwrite")
	default:
		c.o.Stat("put.new")
	}
	c.doPut(raw, v)
	c.afterMut(raw)
}

func (c *vf7Case) doDel(raw []byte) {
	c.markUsed(raw)
	mk := c.mk(raw)
	alt := c.r.Chance(25)
	c.note("del " + vfHex(raw))
	out := "ok"
	var err error
	if !c.guard("delete", func() { err = c.h.del(raw, alt) }) {
		out = "err"
	} else if err != nil {
		out = "err"
		c.viol("C07/update-error", fmt.Sprintf("Delete(%s) returned %v", vfHex(raw), err))
	}
	c.op("del "+vfHex(mk), out)
	delete(c.shadow, string(mk))
}

func (c *vf7Case) opDel() {
	r := c.r
	var raw []byte
	if p := c.presentRaw(); p != nil && r.Chance(65) {
		raw = p
	} else if r.Chance(80) {
		raw = c.anyKey()
	} else {
		raw = c.probeKey()
	}
	c.o.Stat("op.del")
	if _, ok := c.shadow[string(c.mk(raw))]; ok {
		c.o.Stat("del.existing")
	} else {
		c.o.Stat("del.absent")
	}
	c.doDel(raw)
	c.afterMut(raw)
}

func (c *vf7Case) opGet() {
	r := c.r
	c.o.Stat("op.get")
	var raw []byte
	switch r.Intn(3) {
	case 0:
		raw = c.probeKey()
	case 1:
		raw = c.anyKey()
	default:
		raw = c.usedKey()
	}
	c.modelGet(raw)
}

func (c *vf7Case) opCommit() {
	r := c.r
	leaf := r.Chance(30)
	c.o.Stat("op.commit")
	c.note(fmt.Sprintf("commit(%v)+reopen", leaf))
	var root common.Hash
	var nodes *trienode.NodeSet
	if !c.guard("commit", func() { root, nodes = c.h.commit(leaf) }) {
		return
	}
	if leaf {
		c.o.Stat("commit.collect-leaf")
	}
	if nodes == nil {
		c.o.Stat("commit.clean")
	} else {
		var err error
		if !c.guard("db.Update", func() { err = c.db.Update(root, c.parent, trienode.NewWithNodeSet(nodes)) }) {
			return
		}
		// with collectLeaf the hash database tries to decode every leaf as an account (see header)
		if err != nil && !leaf {
			c.viol("C07/commit-db-update-error", fmt.Sprintf("db.Update(%x) returned %v", root, err))
			return
		}
		c.parent = root
	}
	c.op("root", vfHex(root[:])) // the committed root is the root of the content
	// the committed trie object must not be reused (trie.go:32-35): always reopen by root
	var nh vf7H
	var err error
	if !c.guard("reopen", func() { nh, err = vf7Open(c.secure, root, c.db) }) {
		return
	}
	if err != nil {
		c.viol("C07/reopen-content-differs", fmt.Sprintf("New(TrieID(%x)) failed after commit: %v", root, err))
		return
	}
	c.o.Stat("reopen")
	c.h = nh
	c.sinceOpen = 0
	// read-back: in lazy cases on a SECOND instance opened from the same root, the working
	// instance stays completely unloaded (only its root node is resolved)
	vh := c.h
	if c.lazy {
		if !c.guard("reopen (verification instance)", func() { vh, err = vf7Open(c.secure, root, c.db) }) {
			return
		}
		if err != nil {
			c.viol("C07/reopen-content-differs", fmt.Sprintf("New(TrieID(%x)) failed after commit: %v", root, err))
			return
		}
		c.o.Stat("lazy.reopen-separate-verifier")
	}
	iterFirst := r.Bool() // the iterator over a completely unloaded trie
	if iterFirst && !c.checkIter(vh, c.shadow, "reopened trie (unloaded)") {
		return
	}
	if !c.checkContent(vh, c.shadow, "C07/reopen-content-differs", "reopened trie") {
		return
	}
	if !iterFirst && !c.checkIter(vh, c.shadow, "reopened trie") {
		return
	}
	var h2 common.Hash
	if !c.guard("reopened hash", func() { h2 = vh.hash() }) {
		return
	}
	if h2 != root {
		c.viol("C07/reopen-root-differs", fmt.Sprintf("Commit returned %x, reopened trie hashes to %x", root, h2))
		return
	}
	if r.Chance(50) {
		c.checkRoot(root)
	}
	if nodes != nil && !leaf && r.Chance(35) {
		if !c.diskAndGC(root) {
			return
		}
	}
	if len(c.olds) < 3 {
		c.olds = append(c.olds, vf7Old{root, vf7CloneMap(c.shadow)})
	}
	// mutate the unloaded working instance right away: deletes that collapse branches whose
	// remaining sibling is still a hash reference, overwrites / same-value writes / inserts through
	// unresolved nodes; the root is compared (model, fresh trie, geth, StackTrie) after every step
	if c.lazy && r.Chance(70) {
		c.o.Stat("lazy.burst")
		for n := 1 + r.Intn(3); n > 0 && !c.failed; n-- {
			p := r.Intn(100)
			switch {
			case p < 65:
				raw := c.presentRaw()
				if raw == nil {
					raw = c.anyKey()
				}
				c.o.Stat("op.del")
				if _, ok := c.shadow[string(c.mk(raw))]; ok {
					c.o.Stat("del.existing")
					c.o.Stat("lazy.del-existing-unloaded")
				} else {
					c.o.Stat("del.absent")
				}
				c.doDel(raw)
				c.afterMut(raw)
			case p < 75: // same value through unresolved nodes: must stay clean
				raw := c.presentRaw()
				if raw == nil {
					raw = c.anyKey()
				}
				cur := c.shadow[string(c.mk(raw))]
				if len(cur) == 0 {
					cur = r.Bytes(32 + r.Intn(40))
				} else {
					c.o.Stat("put.same-value")
				}
				c.o.Stat("op.put")
				c.doPut(raw, vf7Copy(cur))
				c.afterMut(raw)
			default:
				c.opPut()
			}
			if !c.failed {
				c.opRoot(true)
			}
		}
		if !c.failed && r.Chance(35) { // proof from a partially loaded trie (Prove's hashNode branch)
			c.opProve()
		}
		if !c.failed && r.Chance(30) { // commit with most of the trie still unloaded, reopen again
			c.opCommit()
		}
	}
}

func (c *vf7Case) opCopy() {
	r := c.r
	c.o.Stat("op.copy")
	if r.Bool() { // sometimes the original has all hashes cached when copied
		if !c.guard("hash before copy", func() { c.h.hash() }) {
			return
		}
	}
	var cp vf7H
	if !c.guard("copy", func() { cp = c.h.copy() }) {
		return
	}
	orig := c.h
	snap := vf7CloneMap(c.shadow)
	if r.Bool() {
		// continue on the copy (ops go to the model), the original must keep the old content
		c.o.Stat("copy.continue-on-copy")
		c.note("copy,continue-on-copy")
		c.h = cp
		for n := 1 + r.Intn(3); n > 0 && !c.failed; n-- {
			if r.Chance(70) {
				c.opPut()
			} else {
				c.opDel()
			}
		}
		if c.failed {
			return
		}
		c.checkHeld(vf7Held{orig, snap, "original after mutating its copy"})
		if len(c.held) < 3 {
			c.held = append(c.held, vf7Held{orig, snap, "original (held) after more ops on its copy"})
		}
	} else {
		// mutate the copy silently, continue on the original
		c.o.Stat("copy.continue-on-original")
		sh2 := vf7CloneMap(c.shadow)
		txt := "copy,continue-on-original,copy-ops:"
		for n := 1 + r.Intn(3); n > 0; n-- {
			raw := c.usedKey()
			if r.Chance(40) {
				raw = c.anyKey()
			}
			c.markUsed(raw)
			v, _ := vf7Value(r, sh2[string(c.mk(raw))])
			txt += " put " + vfHex(raw) + " " + vfHex(v)
			if !c.guard("update on copy", func() { cp.put(raw, v, false) }) {
				return
			}
			if len(v) == 0 {
				delete(sh2, string(c.mk(raw)))
			} else {
				sh2[string(c.mk(raw))] = v
			}
		}
		c.note(txt)
		c.checkHeld(vf7Held{cp, sh2, "copy after its own mutations"})
		if c.failed {
			return
		}
		c.checkHeld(vf7Held{orig, snap, "original after mutating its copy"})
		if len(c.held) < 3 {
			c.held = append(c.held, vf7Held{cp, sh2, "copy (held) after more ops on the original"})
		}
	}
}

// checkHeld: a trie that was not touched must still have its snapshot content and root.
func (c *vf7Case) checkHeld(hd vf7Held) {
	if c.failed {
		return
	}
	c.o.Stat("copy.checks")
	if !c.checkContent(hd.h, hd.shadow, "C07/copy-not-independent", hd.what) {
		return
	}
	var root common.Hash
	if !c.guard(hd.what+" hash", func() { root = hd.h.hash() }) {
		return
	}
	_, want := vf7GethRoot(c.r, vf7Sorted(hd.shadow))
	if root != want {
		c.viol("C07/copy-not-independent", fmt.Sprintf("%s: root %x, root of its content %x", hd.what, root, want))
	}
}

// ---- proofs

// verify runs the real VerifyProof on a receiver-built proof db and canonicalises the outcome.
func (c *vf7Case) verify(root common.Hash, key []byte, blobs [][]byte, what string) (canon string, val []byte, isErr bool) {
	pdb := vf7ProofDb(blobs)
	var v []byte
	var err error
	if !c.guard("VerifyProof "+what, func() { v, err = VerifyProof(root, key, pdb) }) {
		return "err", nil, true
	}
	switch {
	case err != nil:
		return "err", nil, true
	case len(v) > 0:
		return "val " + vfHex(v), v, false
	default:
		return "absent", nil, false
	}
}

func (c *vf7Case) verifyOp(root common.Hash, key []byte, blobs [][]byte, canon string) {
	line := "verify " + vfHex(root[:]) + " " + vfHex(key)
	if len(blobs) > 0 {
		line += " " + vf7HexList(blobs)
	}
	c.op(line, canon)
}

// proveKey chooses a model key to prove: present, or absent in interesting ways.
func (c *vf7Case) proveKey() []byte {
	r := c.r
	kvs := vf7Sorted(c.shadow)
	if len(kvs) > 0 && r.Chance(55) {
		return kvs[r.Intn(len(kvs))].k
	}
	if len(kvs) > 0 && r.Chance(60) {
		k := vf7Copy(kvs[r.Intn(len(kvs))].k)
		switch r.Intn(4) {
		case 0:
			if len(k) > 0 {
				vf7SetNibble(k, 2*len(k)-1, r.Intn(16))
			}
		case 1:
			if len(k) > 0 {
				vf7SetNibble(k, r.Intn(2*len(k)), r.Intn(16))
			}
		case 2:
			k = append(k, byte(r.Pick(0, 0x10, 0xff)))
		default:
			if len(k) > 0 {
				k = k[:len(k)-1]
			}
		}
		return k
	}
	return vf7Copy(c.mk(c.probeKey()))
}

func (c *vf7Case) proofCheck(mk []byte, toModel bool) {
	r := c.r
	rec := &vf7Rec{}
	var err error
	c.note("prove " + vfHex(mk))
	if !c.guard("prove "+vfHex(mk), func() { err = c.h.prove(mk, rec) }) {
		return
	}
	if err != nil {
		c.viol("C07/proof-does-not-verify", fmt.Sprintf("Prove(%s) returned %v", vfHex(mk), err))
		return
	}
	blobs := rec.vals
	real := fmt.Sprint(len(blobs))
	if len(blobs) > 0 {
		real += " " + vf7HexList(blobs)
	}
	c.op("prove "+vfHex(mk), real)
	for i, b := range blobs {
		if !bytes.Equal(rec.keys[i], gethcrypto.Keccak256(b)) {
			c.viol("C07/proof-key-not-hash", fmt.Sprintf("Prove(%s) node %d stored under %x, keccak of the blob is %x", vfHex(mk), i, rec.keys[i], gethcrypto.Keccak256(b)))
			return
		}
	}
	var root common.Hash
	if !c.guard("hash", func() { root = c.h.hash() }) {
		return
	}
	want := c.shadow[string(mk)]
	if len(want) > 0 {
		c.o.Stat("proof.present")
	} else {
		c.o.Stat("proof.absent")
	}
	canon, val, isErr := c.verify(root, mk, blobs, "genuine")
	if c.failed {
		return
	}
	if toModel {
		c.verifyOp(root, mk, blobs, canon)
	}
	if len(c.shadow) == 0 {
		// empty trie: no node at all, VerifyProof cannot prove absence (see header)
		c.o.Stat("proof.emptytrie")
		if !isErr || len(blobs) != 0 {
			c.viol("C07/proof-wrong-value", fmt.Sprintf("empty trie: Prove(%s) gave %d nodes, VerifyProof: %s", vfHex(mk), len(blobs), canon))
		}
		return
	}
	if isErr {
		c.viol("C07/proof-does-not-verify", fmt.Sprintf("root=%x key=%s proof=[%s]: VerifyProof failed, stored value %s", root, vfHex(mk), vf7HexList(blobs), vfHex(want)))
		return
	}
	if !bytes.Equal(val, want) {
		c.viol("C07/proof-wrong-value", fmt.Sprintf("root=%x key=%s proof=[%s]: VerifyProof gave %s, stored value %s", root, vfHex(mk), vf7HexList(blobs), canon, vfHex(want)))
		return
	}
	// geth as a second opinion: same proof nodes, same verdict
	kvs := vf7Sorted(c.shadow)
	gt, _ := vf7GethRoot(r, kvs)
	grec := &vf7Rec{}
	gt.Prove(mk, 0, grec)
	if vf7HexList(grec.vals) != vf7HexList(blobs) {
		c.viol("C07/proof-differs-from-geth", fmt.Sprintf("key=%s proof=[%s] geth=[%s]", vfHex(mk), vf7HexList(blobs), vf7HexList(grec.vals)))
		return
	}
	gdb := gethmemdb.New()
	for _, b := range blobs {
		gdb.Put(gethcrypto.Keccak256(b), b)
	}
	gv, gerr := gethtrie.VerifyProof(gethcommon.BytesToHash(root[:]), mk, gdb)
	if gerr != nil || !bytes.Equal(gv, want) {
		c.viol("C07/proof-differs-from-geth", fmt.Sprintf("key=%s: geth VerifyProof gave %s err=%v, stored %s", vfHex(mk), vfHex(gv), gerr, vfHex(want)))
		return
	}

	// ---- tampering: a tampered proof must fail or still yield the genuine answer
	type trial struct {
		what  string
		blobs [][]byte
	}
	var trials []trial
	nmut := 12
	if vfThorough() {
		nmut = 40
	}
	for i := 0; i < nmut && len(blobs) > 0; i++ {
		m := make([][]byte, len(blobs))
		copy(m, blobs)
		j := r.Intn(len(blobs))
		b := vf7Copy(blobs[j])
		pos := r.Intn(len(b))
		switch r.Intn(8) {
		case 0:
			if len(b) > 1 {
				b = b[:len(b)-1]
			} else {
				b[pos] ^= 0x01
			}
		case 1:
			b = append(b, byte(r.Intn(256)))
		default:
			b[pos] ^= byte(1 + r.Intn(255))
		}
		m[j] = b
		trials = append(trials, trial{fmt.Sprintf("mutate node %d byte %d", j, pos), m})
	}
	for j := range blobs { // every single-node drop
		var m [][]byte
		m = append(m, blobs[:j]...)
		m = append(m, blobs[j+1:]...)
		trials = append(trials, trial{fmt.Sprintf("drop node %d", j), m})
	}
	// nodes of a proof of another key, and of a trie whose content differs in one value
	var foreign [][]byte
	if k2 := kvs[r.Intn(len(kvs))].k; !bytes.Equal(k2, mk) {
		rec2 := &vf7Rec{}
		c.guard("prove other", func() { c.h.prove(k2, rec2) })
		foreign = append(foreign, rec2.vals...)
	}
	{
		alt := make([]vf7KV, len(kvs))
		copy(alt, kvs)
		j := r.Intn(len(alt))
		if len(want) > 0 && r.Chance(60) {
			for i, e := range alt {
				if bytes.Equal(e.k, mk) {
					j = i
				}
			}
		}
		nv := vf7Copy(alt[j].v)
		nv[r.Intn(len(nv))] ^= byte(1 + r.Intn(255))
		alt[j] = vf7KV{alt[j].k, nv}
		agt, _ := vf7GethRoot(r, alt)
		rec3 := &vf7Rec{}
		agt.Prove(mk, 0, rec3)
		foreign = append(foreign, rec3.vals...)
	}
	for n := 0; n < 3 && len(foreign) > 0 && len(blobs) > 0; n++ {
		m := make([][]byte, len(blobs))
		copy(m, blobs)
		j := r.Intn(len(blobs))
		m[j] = foreign[r.Intn(len(foreign))]
		trials = append(trials, trial{fmt.Sprintf("swap node %d for a foreign node", j), m})
	}
	sendA, sendB := -1, -1
	if toModel && len(trials) > 0 {
		sendA = r.Intn(len(trials))
		sendB = r.Intn(len(trials))
	}
	for ti, tr := range trials {
		c.o.Stat("tamper.trials")
		tc, tv, te := c.verify(root, mk, tr.blobs, "tampered")
		if c.failed {
			return
		}
		if ti == sendA || ti == sendB {
			c.verifyOp(root, mk, tr.blobs, tc)
		}
		if te {
			c.o.Stat("tamper.rejected")
			continue
		}
		if !bytes.Equal(tv, want) {
			c.viol("C07/tampered-proof-accepted", fmt.Sprintf("root=%x key=%s stored=%s %s: proof=[%s] verified to %s", root, vfHex(mk), vfHex(want), tr.what, vf7HexList(tr.blobs), tc))
			return
		}
		c.o.Stat("tamper.still-genuine")
	}
	// a bloated proof (all genuine nodes + foreign ones) must give exactly the genuine answer
	if len(foreign) > 0 {
		m := append(append([][]byte{}, foreign...), blobs...)
		bc, _, _ := c.verify(root, mk, m, "bloated")
		if c.failed {
			return
		}
		c.o.Stat("tamper.bloated")
		if bc != canon {
			c.viol("C07/tampered-proof-accepted", fmt.Sprintf("root=%x key=%s: genuine proof gives %s, the same proof plus foreign nodes [%s] gives %s", root, vfHex(mk), canon, vf7HexList(foreign), bc))
			return
		}
	}
	// the genuine proof of mk used for another key: error or that key's true value
	{
		var k2 []byte
		if r.Bool() {
			k2 = kvs[r.Intn(len(kvs))].k
		} else {
			k2 = c.proveKey()
		}
		oc, ov, oe := c.verify(root, k2, blobs, "other key")
		if c.failed {
			return
		}
		c.o.Stat("proof.other-key")
		if toModel && r.Bool() {
			c.verifyOp(root, k2, blobs, oc)
		}
		if !oe && !bytes.Equal(ov, c.shadow[string(k2)]) {
			c.viol("C07/tampered-proof-accepted", fmt.Sprintf("root=%x: proof of key %s [%s] verifies key %s to %s, stored %s", root, vfHex(mk), vf7HexList(blobs), vfHex(k2), oc, vfHex(c.shadow[string(k2)])))
			return
		}
	}
	// wrong root: must be rejected
	{
		var wrong common.Hash
		copy(wrong[:], r.Bytes(32))
		if r.Bool() {
			wrong = root
			wrong[r.Intn(32)] ^= byte(1 + r.Intn(255))
		}
		wc, _, we := c.verify(wrong, mk, blobs, "wrong root")
		if c.failed {
			return
		}
		c.o.Stat("proof.wrong-root")
		if toModel && r.Chance(30) {
			c.verifyOp(wrong, mk, blobs, wc)
		}
		if !we {
			c.viol("C07/tampered-proof-accepted", fmt.Sprintf("proof of key %s for root %x verifies against root %x: %s", vfHex(mk), root, wrong, wc))
		}
	}
}

func (c *vf7Case) opProve() {
	c.o.Stat("op.prove")
	c.proofCheck(c.proveKey(), true)
}

// ---- range proofs (all keys of the same length, >= 2 entries)

func (c *vf7Case) rangeVerify(root common.Hash, first, last []byte, kvs []vf7KV, proof [][]byte, nilProof bool, what string) (more bool, err error, ok bool) {
	keys := make([][]byte, len(kvs))
	vals := make([][]byte, len(kvs))
	for i, e := range kvs {
		keys[i], vals[i] = e.k, e.v
	}
	ok = c.guard("VerifyRangeProof "+what, func() {
		if nilProof {
			more, err = VerifyRangeProof(root, first, last, keys, vals, nil)
		} else {
			more, err = VerifyRangeProof(root, first, last, keys, vals, vf7ProofDb(proof))
		}
	})
	return
}

func (c *vf7Case) edgeProof(ks ...[]byte) ([][]byte, bool) {
	var all [][]byte
	for _, k := range ks {
		rec := &vf7Rec{}
		var err error
		if !c.guard("prove edge "+vfHex(k), func() { err = c.h.prove(k, rec) }) || err != nil {
			return nil, false
		}
		all = append(all, rec.vals...)
	}
	return all, true
}

func vf7KVText(kvs []vf7KV) string {
	p := make([]string, len(kvs))
	for i, e := range kvs {
		p[i] = vfHex(e.k) + "=" + vfHex(e.v)
	}
	return strings.Join(p, ",")
}

func (c *vf7Case) rangeProofs() {
	r := c.r
	all := vf7Sorted(c.shadow)
	if len(all) < 2 || !vf7SameLen(all) || len(all[0].k) == 0 {
		return
	}
	var root common.Hash
	if !c.guard("hash", func() { root = c.h.hash() }) {
		return
	}
	c.note("rangeproofs")
	n := len(all)
	genuine := func(what string, first, last []byte, kvs []vf7KV, proof [][]byte, nilProof bool, wantMore bool) bool {
		more, err, ok := c.rangeVerify(root, first, last, kvs, proof, nilProof, what)
		if !ok {
			return false
		}
		if err != nil {
			c.viol("C07/rangeproof-rejects-genuine", fmt.Sprintf("%s: root=%x first=%s last=%s range=[%s] content=[%s]: %v", what, root, vfHex(first), vfHex(last), vf7KVText(kvs), vf7KVText(all), err))
			return false
		}
		if more != wantMore {
			c.viol("C07/rangeproof-more-flag-wrong", fmt.Sprintf("%s: root=%x first=%s last=%s range=[%s] content=[%s]: more=%v", what, root, vfHex(first), vfHex(last), vf7KVText(kvs), vf7KVText(all), more))
			return false
		}
		c.o.Stat("range.genuine-accepted")
		return true
	}
	forged := func(what string, first, last []byte, kvs []vf7KV, proof [][]byte, nilProof bool) bool {
		_, err, ok := c.rangeVerify(root, first, last, kvs, proof, nilProof, what)
		if !ok {
			return false
		}
		if err == nil {
			c.viol("C07/rangeproof-accepts-forged", fmt.Sprintf("%s: root=%x first=%s last=%s range=[%s] content=[%s]", what, root, vfHex(first), vfHex(last), vf7KVText(kvs), vf7KVText(all)))
			return false
		}
		c.o.Stat("range.forged-rejected")
		return true
	}
	// forgeries of a claimed range
	forge := func(kvs []vf7KV, kind int) ([]vf7KV, string) {
		f := make([]vf7KV, len(kvs))
		copy(f, kvs)
		switch kind {
		case 0: // drop an inner entry
			if len(f) < 3 {
				return nil, ""
			}
			j := 1 + r.Intn(len(f)-2)
			return append(f[:j:j], f[j+1:]...), fmt.Sprintf("forged: inner entry %d dropped", j)
		case 1: // alter one value
			j := r.Intn(len(f))
			nv := vf7Copy(f[j].v)
			if r.Bool() {
				nv[r.Intn(len(nv))] ^= byte(1 + r.Intn(255))
			} else {
				nv = append(nv, byte(r.Intn(256)))
			}
			f[j] = vf7KV{f[j].k, nv}
			return f, fmt.Sprintf("forged: value %d altered", j)
		case 2: // add a key that does not exist, between two entries
			for _, j := range vf7Shuffle(r, len(f)-1) {
				nk := vf7Inc(f[j].k)
				if nk != nil && bytes.Compare(nk, f[j+1].k) < 0 {
					g := append(f[:j+1:j+1], vf7KV{nk, r.Bytes(1 + r.Intn(40))})
					return append(g, kvs[j+1:]...), fmt.Sprintf("forged: key %s added", vfHex(nk))
				}
			}
			return nil, ""
		case 3: // reorder two entries
			if len(f) < 2 {
				return nil, ""
			}
			j := r.Intn(len(f) - 1)
			f[j], f[j+1] = f[j+1], f[j]
			return f, fmt.Sprintf("forged: entries %d,%d swapped", j, j+1)
		case 4: // drop the first entry (its key stays the proven left edge)
			if len(f) < 2 {
				return nil, ""
			}
			return f[1:], "forged: first entry dropped"
		default: // drop the last entry (its key stays the proven right edge)
			if len(f) < 2 {
				return nil, ""
			}
			return f[:len(f)-1], "forged: last entry dropped"
		}
	}

	// 1. whole content, no proof at all
	c.o.Stat("range.nilproof")
	if !genuine("all elements, nil proof", all[0].k, all[n-1].k, all, nil, true, false) {
		return
	}
	for _, kind := range []int{r.Intn(3), 3 + r.Intn(3)} {
		if f, what := forge(all, kind); f != nil {
			if !forged(what+" (nil proof)", all[0].k, all[n-1].k, f, nil, true) {
				return
			}
		}
	}
	// 2. ranges [i..j] with existent edge proofs
	for rep := 0; rep < 2; rep++ {
		i := r.Intn(n)
		j := i + r.Intn(n-i)
		if rep == 0 && n >= 3 { // a wide one, so that inner forgeries are possible
			i = r.Intn(n - 2)
			j = i + 2 + r.Intn(n-i-2)
		}
		proof, ok := c.edgeProof(all[i].k, all[j].k)
		if !ok {
			return
		}
		what := fmt.Sprintf("range [%d..%d] of %d, existent edge proofs", i, j, n)
		if i == j {
			c.o.Stat("range.single")
		} else {
			c.o.Stat("range.inner")
		}
		if !genuine(what, all[i].k, all[j].k, all[i:j+1], proof, false, j < n-1) {
			return
		}
		for _, kind := range []int{r.Intn(3), 3 + r.Intn(3)} {
			if f, fw := forge(all[i:j+1], kind); f != nil {
				if i == j && len(f) == 0 {
					continue
				}
				if !forged(what+" "+fw, all[i].k, all[j].k, f, proof, false) {
					return
				}
			}
		}
	}
	// 2b. a bogus entry OUTSIDE [firstKey,lastKey] must be refused. Before the repair of C07-R1
	// VerifyRangeProof did not check firstKey <= keys[0] and keys[n-1] <= lastKey: an entry
	// outside the edges whose path runs into an unresolved hash node made tr.Update fail with a
	// MissingNodeError that was ignored, so the bogus pair was silently accepted; right of
	// lastKey it could additionally make hasRightElement panic on a hash node.
	if n >= 3 {
		i := 1 + r.Intn(n-2)
		j := i + r.Intn(n-1-i)
		if proof, ok := c.edgeProof(all[i].k, all[j].k); ok {
			var f []vf7KV
			var what string
			if r.Bool() {
				f = append([]vf7KV{{all[i-1].k, r.Bytes(1 + r.Intn(40))}}, all[i:j+1]...)
				what = "bogus value for the entry left of firstKey"
			} else {
				f = append(append([]vf7KV{}, all[i:j+1]...), vf7KV{all[j+1].k, r.Bytes(1 + r.Intn(40))})
				what = "bogus value for the entry right of lastKey"
			}
			keys := make([][]byte, len(f))
			vals := make([][]byte, len(f))
			for x, e := range f {
				keys[x], vals[x] = e.k, e.v
			}
			res := "accepted"
			func() {
				defer func() {
					if e := recover(); e != nil {
						res = fmt.Sprintf("panic: %v", e)
					}
				}()
				if _, err := VerifyRangeProof(root, all[i].k, all[j].k, keys, vals, vf7ProofDb(proof)); err != nil {
					res = ""
				}
			}()
			c.o.Stat("range.out-of-range-trials")
			if res != "" {
				c.viol("C07/rangeproof-accepts-out-of-range-entry", fmt.Sprintf("%s: %s: root=%x first=%s last=%s range=[%s] content=[%s]", what, res, root, vfHex(all[i].k), vfHex(all[j].k), vf7KVText(f), vf7KVText(all)))
				return
			}
		}
	}
	// 3. non-existent edge keys: just below keys[i] / just above keys[j]
	{
		i := r.Intn(n)
		j := i + r.Intn(n-i)
		first, last := vf7Dec(all[i].k), vf7Inc(all[j].k)
		if first != nil && i > 0 && bytes.Compare(first, all[i-1].k) <= 0 {
			first = nil
		}
		if last != nil && j < n-1 && bytes.Compare(last, all[j+1].k) >= 0 {
			last = nil
		}
		if first == nil || r.Chance(25) {
			first = all[i].k
		}
		if last == nil || r.Chance(25) {
			last = all[j].k
		}
		if !bytes.Equal(first, last) {
			proof, ok := c.edgeProof(first, last)
			if !ok {
				return
			}
			c.o.Stat("range.nonexistent-edge")
			what := fmt.Sprintf("range [%d..%d] of %d, edge keys %s..%s", i, j, n, vfHex(first), vfHex(last))
			if !genuine(what, first, last, all[i:j+1], proof, false, j < n-1) {
				return
			}
			if f, fw := forge(all[i:j+1], r.Intn(3)); f != nil && len(f) > 0 {
				if !forged(what+" "+fw, first, last, f, proof, false) {
					return
				}
			}
		}
	}
	// 4. zero-element range: a single absence proof right of every key is fine, left of some key is not
	{
		if beyond := vf7Inc(all[n-1].k); beyond != nil {
			proof, ok := c.edgeProof(beyond)
			if !ok {
				return
			}
			c.o.Stat("range.zero")
			if !genuine("zero elements right of the last key", beyond, beyond, nil, proof, false, false) {
				return
			}
		}
		i := r.Intn(n)
		if before := vf7Dec(all[i].k); before != nil && (i == 0 || bytes.Compare(before, all[i-1].k) > 0) {
			proof, ok := c.edgeProof(before)
			if !ok {
				return
			}
			if !forged(fmt.Sprintf("forged: zero elements claimed from %s although entry %d follows", vfHex(before), i), before, before, nil, proof, false) {
				return
			}
		}
	}
}

// ---- stateless encoding ops

func (c *vf7Case) encOps() {
	r := c.r
	// hexToCompact
	nib := make([]byte, r.Intn(11))
	for i := range nib {
		nib[i] = byte(r.Intn(16))
	}
	if r.Bool() {
		nib = append(nib, 16)
	}
	in := vf7Copy(nib)
	out := "panic"
	var comp []byte
	func() {
		defer func() { recover() }()
		comp = hexToCompact(nib)
		out = vfHex(comp)
	}()
	c.op("h2c "+vfHex(in), out)
	c.o.Stat("enc.h2c")
	if out == "panic" || !bytes.Equal(nib, in) {
		c.viol("C07/compact-roundtrip", fmt.Sprintf("hexToCompact(%s): %s, input afterwards %s", vfHex(in), out, vfHex(nib)))
		return
	}
	// compactToHex: on a compact encoding (round trip) and on arbitrary bytes
	var cin []byte
	rt := r.Bool()
	if rt {
		cin = vf7Copy(comp)
	} else {
		cin = r.Bytes(r.Intn(7))
	}
	out = "panic"
	var back []byte
	func() {
		defer func() { recover() }()
		back = compactToHex(vf7Copy(cin))
		out = vfHex(back)
	}()
	c.op("c2h "+vfHex(cin), out)
	c.o.Stat("enc.c2h")
	if out == "panic" {
		c.viol("C07/panic", fmt.Sprintf("compactToHex(%s) panics", vfHex(cin)))
		return
	}
	if rt && !bytes.Equal(back, in) {
		c.viol("C07/compact-roundtrip", fmt.Sprintf("compactToHex(hexToCompact(%s)=%s) = %s", vfHex(in), vfHex(comp), vfHex(back)))
		return
	}
	// keybytesToHex
	var kb []byte
	if r.Bool() {
		kb = r.Bytes(r.Intn(7))
	} else {
		kb = vf7Copy(c.mk(c.anyKey()))
	}
	out = "panic"
	var hx []byte
	func() {
		defer func() { recover() }()
		hx = keybytesToHex(kb)
		out = vfHex(hx)
	}()
	c.op("kb2h "+vfHex(kb), out)
	c.o.Stat("enc.kb2h")
	if out == "panic" || !bytes.Equal(hx, vf7Nib(kb)) {
		c.viol("C07/compact-roundtrip", fmt.Sprintf("keybytesToHex(%s) = %s", vfHex(kb), out))
	}
}

// ---- DeriveSha: StackTrie vs normal trie vs hand-built trie vs geth

func (c *vf7Case) deriveSha() {
	r := c.r
	n := r.Intn(21)
	switch p := r.Intn(100); {
	case p < 30: // the index encoding changes at 0x7f/0x80 (one byte -> 0x81 xx) and 0xff/0x100
		n = r.Pick(126, 127, 128, 129, 130, 255, 256, 257)
	case p < 42:
		n = r.Intn(301)
	}
	items := make(vf7List, n)
	for i := range items {
		items[i] = r.Bytes(1 + r.Intn(100)) // StackTrie refuses empty values (see header)
		if n > 40 {
			items[i] = r.Bytes(1 + r.Intn(40))
		}
	}
	var hs, ht, hh common.Hash
	if !c.guard("DeriveSha(StackTrie)", func() { hs = types.DeriveSha(items, NewStackTrie(nil)) }) {
		return
	}
	if !c.guard("DeriveSha(Trie)", func() { ht = types.DeriveSha(items, NewEmpty(NewDatabase(memorydb.New()))) }) {
		return
	}
	// independent reference 1: a normal trie filled with rlp(index) -> item in ARBITRARY order
	if !c.guard("hand-built index trie", func() {
		ft := NewEmpty(NewDatabase(memorydb.New()))
		for _, i := range vf7Shuffle(r, len(items)) {
			k, _ := gethrlp.EncodeToBytes(uint(i))
			ft.Update(k, items[i])
		}
		hh = ft.Hash()
	}) {
		return
	}
	// independent reference 2: go-ethereum's DeriveSha (its own trie, its own loop)
	hg := common.BytesToHash(gethtypes.DeriveSha(items).Bytes())
	c.o.Stat("derivesha.lists")
	if n >= 126 {
		c.o.Stat("derivesha.lists-over-127")
	}
	if n == 127 || n == 128 || n == 129 || n == 255 || n == 256 || n == 257 {
		c.o.Stat(fmt.Sprintf("derivesha.len-%d", n))
	}
	if hs != ht || hs != hh || hs != hg {
		c.viol("C07/derivesha-differs", fmt.Sprintf("n=%d items=[%s]: stacktrie=%x trie=%x hand-built=%x geth=%x", n, vf7HexList(items), hs, ht, hh, hg))
		return
	}
	// every item is bound by the root: mutating ANY single item changes it (all indices for the
	// boundary lengths and now and then, else the boundary indices plus a few random ones)
	var idx []int
	if n <= 24 || (n >= 126 && n <= 130) || r.Chance(10) {
		for i := 0; i < n; i++ {
			idx = append(idx, i)
		}
	} else {
		for _, i := range []int{0, 1, 126, 127, 128, 129, 254, 255, 256, 257, n - 1, r.Intn(n), r.Intn(n), r.Intn(n)} {
			if i >= 0 && i < n {
				idx = append(idx, i)
			}
		}
	}
	for _, i := range idx {
		old := items[i]
		m := vf7Copy(old)
		m[r.Intn(len(m))] ^= byte(1 + r.Intn(255))
		items[i] = m
		var hm common.Hash
		ok := c.guard("DeriveSha(mutated item)", func() { hm = types.DeriveSha(items, NewStackTrie(nil)) })
		items[i] = old
		if !ok {
			return
		}
		c.o.Stat("derivesha.item-mutations")
		if hm == hs {
			c.viol("C07/derivesha-item-not-bound", fmt.Sprintf("n=%d: changing item %d (%s -> %s) leaves DeriveSha at %x", n, i, vfHex(old), vfHex(m), hs))
			return
		}
	}
}

// ---- the case driver

func (c *vf7Case) finish() {
	r := c.r
	if c.failed {
		return
	}
	if !c.checkContent(c.reader(), c.shadow, "C07/get-not-last-written", "final trie") {
		return
	}
	for _, raw := range c.usedL {
		c.modelGet(raw)
		if c.failed {
			return
		}
	}
	c.opRoot(true)
	if c.failed {
		return
	}
	if !c.checkIter(c.h, c.shadow, "final trie") {
		return
	}
	kvs := vf7Sorted(c.shadow)
	if vf7SameLen(kvs) {
		var sroot common.Hash
		if !c.guard("stacktrie", func() { sroot = vf7StackRoot(kvs) }) {
			return
		}
		c.op("stackroot", vfHex(sroot[:]))
		c.o.Stat("stackroot")
		c.checkSeek(c.h, "final trie")
		if c.failed {
			return
		}
	}
	// proofs: one present and one absent key
	if len(kvs) > 0 {
		c.proofCheck(kvs[r.Intn(len(kvs))].k, r.Chance(35))
		if c.failed {
			return
		}
	}
	for try := 0; try < 4; try++ {
		k := c.proveKey()
		if _, present := c.shadow[string(k)]; !present {
			c.proofCheck(k, r.Chance(35))
			break
		}
	}
	if c.failed {
		return
	}
	if c.fixed {
		c.rangeProofs()
		if c.failed {
			return
		}
	}
	// copies and old roots must be unaffected by everything that happened since
	for _, hd := range c.held {
		c.checkHeld(hd)
		if c.failed {
			return
		}
	}
	for _, old := range c.olds {
		var oh vf7H
		var err error
		if !c.guard("open old root", func() { oh, err = vf7Open(c.secure, old.root, c.db) }) {
			return
		}
		c.o.Stat("oldroot.checks")
		if err != nil {
			c.viol("C07/reopen-content-differs", fmt.Sprintf("previously committed root %x cannot be opened any more: %v", old.root, err))
			return
		}
		if !c.checkContent(oh, old.shadow, "C07/reopen-content-differs", fmt.Sprintf("old root %x", old.root)) {
			return
		}
		if !c.checkIter(oh, old.shadow, fmt.Sprintf("old root %x", old.root)) {
			return
		}
	}
	c.encOps()
	if !c.failed && r.Chance(60) {
		c.deriveSha()
	}
}

func (c *vf7Case) run() {
	r := c.r
	c.op("case", "ok")
	nops := 5 + r.Intn(30)
	if r.Chance(40) {
		nops = 5 + r.Intn(56)
	}
	if c.uni == "U6" || (c.lazy && r.Chance(35)) {
		// prologue: build (most of) the universe, commit, reopen; the burst of opCommit then
		// deletes from / writes into the completely unloaded trie
		c.o.Stat("lazy.prologue")
		for _, i := range vf7Shuffle(r, len(c.keys)) {
			if c.failed || r.Chance(15) {
				continue
			}
			v, class := vf7Value(r, nil)
			if len(v) == 0 || (c.bigVals && len(v) < 32 && r.Chance(80)) {
				v, class = r.Bytes(32+r.Intn(60)), "big-forced"
			}
			c.o.Stat("op.put")
			c.o.Stat("val." + class)
			c.o.Stat("put.new")
			c.doPut(c.keys[i], v)
			c.afterMut(c.keys[i])
		}
		if !c.failed {
			c.opCommit()
		}
		if nops > 25 {
			nops = 25
		}
	}
	for j := 0; j < nops && !c.failed; j++ {
		p := r.Intn(100)
		switch {
		case p < 55:
			c.opPut()
		case p < 75:
			c.opDel()
		case p < 81:
			c.opGet()
		case p < 85:
			c.o.Stat("op.root")
			c.note("root")
			c.opRoot(true)
			if !c.failed && r.Chance(25) {
				c.checkIter(c.h, c.shadow, "live trie")
			}
		case p < 92:
			c.opCommit()
		case p < 95:
			c.opCopy()
		default:
			c.opProve()
		}
	}
	c.finish()
}

func TestVerifC07(t *testing.T) {
	o := vfOpen()
	defer o.Close()
	seed := vfSeed()
	n := vfN(300)
	for i := 0; i < n; i++ {
		r := vfFork(seed, uint64(i))
		c := &vf7Case{
			o: o, r: r, seed: seed, idx: i,
			used:    map[string]bool{},
			mkCache: map[string][]byte{},
			rawOf:   map[string][]byte{},
			shadow:  map[string][]byte{},
			parent:  types.EmptyRootHash,
		}
		c.uni, c.keys, c.secure, c.fixed = vf7Universe(r)
		if len(c.keys) == 0 {
			c.keys = [][]byte{{0x01}}
		}
		c.rootP = 75
		if r.Chance(20) {
			c.rootP = 25 // long stretches without hashing
		}
		c.lazy = c.uni == "U6" || r.Chance(65)
		c.bigVals = c.uni == "U6" && r.Chance(85) || r.Chance(25)
		if c.lazy {
			o.Stat("case.lazy")
		} else {
			o.Stat("case.eager")
		}
		o.Stat("case.uni." + c.uni)
		c.disk = memorydb.New()
		c.db = NewDatabase(c.disk)
		ok := c.guard("open empty trie", func() {
			h, err := vf7Open(c.secure, types.EmptyRootHash, c.db)
			if err != nil {
				panic(err)
			}
			c.h = h
		})
		if ok {
			c.run()
		}
		key := c.uni + "|" + strings.Join(c.log, ";")
		o.Case(key, c.maxContent >= 2)
		if i < 4 {
			o.Sample(fmt.Sprintf("uni=%s keys=%d ops: %s", c.uni, len(c.keys), strings.Join(c.log, "; ")))
		}
	}
}
