package blockchain

// C01, block-sync clause: "a node that catches up by block sync only ever adopts blocks that
// correct validators committed".  A chain of real blocks with real commits (+2/3 precommits of N
// validators, real signatures) is built with the real BlockOperations / BlockExecutor; a fresh node
// then runs the REAL block-sync processor (pcState with the real processor context: VerifyCommit of
// H+1's LastCommit against the current validator set, SaveBlock, ApplyBlock) while peers feed it
// genuine blocks and forgeries: a different block at a height (signed only by the faulty
// validators, < 1/3), a genuine block followed by a successor whose LastCommit has too little
// power / is for another block id / another height / carries corrupted or foreign signatures.
// Oracle: every block the syncing node stores is the committed block of that height; genuine
// pairs are accepted.  The verdict per offered pair is also compared with the abstract model:
// adopt  <=>  the successor's LastCommit is a commit quorum for exactly that block (kvdrv `agree`).

import (
	"crypto/ecdsa"
	"fmt"
	"math/big"
	"strings"
	"testing"
	"time"

	"github.com/kardiachain/go-kardia/configs"
	"github.com/kardiachain/go-kardia/kai/kaidb/memorydb"
	"github.com/kardiachain/go-kardia/kai/state/cstate"
	"github.com/kardiachain/go-kardia/lib/common"
	"github.com/kardiachain/go-kardia/lib/crypto"
	"github.com/kardiachain/go-kardia/lib/log"
	"github.com/kardiachain/go-kardia/lib/p2p"
	mbc "github.com/kardiachain/go-kardia/mainchain/blockchain"
	"github.com/kardiachain/go-kardia/mainchain/genesis"
	"github.com/kardiachain/go-kardia/mainchain/staking"
	"github.com/kardiachain/go-kardia/mainchain/tx_pool"
	kproto "github.com/kardiachain/go-kardia/proto/kardiachain/types"
	"github.com/kardiachain/go-kardia/trie"
	"github.com/kardiachain/go-kardia/types"
	"github.com/kardiachain/go-kardia/types/evidence"
)

type vfSyncNode struct {
	bo    *mbc.BlockOperations
	exec  *cstate.BlockExecutor
	state cstate.LatestBlockState
}

func vfSyncGenesis(keys []*ecdsa.PrivateKey, stake []int64) *genesis.Genesis {
	initValue, _ := big.NewInt(0).SetString("1000000000000000000000000000", 10)
	accounts := map[string]*big.Int{}
	var vals []*genesis.GenesisValidator
	for i, k := range keys {
		addr := crypto.PubkeyToAddress(k.PublicKey)
		accounts[addr.Hex()] = initValue
		sd := new(big.Int).Mul(big.NewInt(stake[i]), new(big.Int).Exp(big.NewInt(10), big.NewInt(18), nil))
		vals = append(vals, &genesis.GenesisValidator{Name: fmt.Sprintf("val%d-------------------------------------", i), Address: addr.Hex(),
			CommissionRate: "100000000000000000", MaxRate: "250000000000000000", MaxChangeRate: "50000000000000000",
			SelfDelegate: sd.String(), StartWithGenesis: true})
	}
	configs.AddDefaultContract()
	contracts := make(map[string]string)
	for key, contract := range configs.GetContracts() {
		configs.LoadGenesisContract(key, contract.Address, contract.ByteCode, contract.ABI)
		if key != configs.StakingContractKey {
			contracts[contract.Address] = contract.ByteCode
		}
	}
	g := genesis.DefaulTestnetFullGenesisBlock(accounts, contracts)
	g.Validators = vals
	g.Timestamp = time.Unix(1700000000, 0)
	g.ChainID = "syncchain"
	return g
}

func vfSyncMkNode(g *genesis.Genesis) (*vfSyncNode, error) {
	db := memorydb.New()
	bc, err := mbc.NewBlockChain(db, nil, g)
	if err != nil {
		return nil, err
	}
	store := cstate.NewStore(db)
	evPool, err := evidence.NewPool(store, db, bc)
	if err != nil {
		return nil, err
	}
	txPool := tx_pool.NewTxPool(tx_pool.TxPoolConfig{GlobalSlots: 64, GlobalQueue: 64}, g.Config, bc)
	st, _ := staking.NewSmcStakingUtil()
	logger := log.New()
	bo := mbc.NewBlockOperations(logger, bc, txPool, evPool, st)
	exec := cstate.NewBlockExecutor(store, logger, evPool, bo)
	eb := types.NewEventBus()
	eb.Start()
	exec.SetEventBus(eb)
	state, err := store.LoadStateFromDBOrGenesisDoc(g)
	if err != nil {
		return nil, err
	}
	return &vfSyncNode{bo: bo, exec: exec, state: state}, nil
}

func vfSyncVote(key *ecdsa.PrivateKey, chainID string, idx uint32, h uint64, round uint32, id types.BlockID, ts int64) *types.Vote {
	v := &types.Vote{ValidatorAddress: crypto.PubkeyToAddress(key.PublicKey), ValidatorIndex: idx, Height: h, Round: round,
		Timestamp: time.Unix(ts, 0), Type: kproto.PrecommitType, BlockID: id}
	p := v.ToProto()
	if err := types.NewDefaultPrivValidator(key).SignVote(chainID, p); err != nil {
		panic(err)
	}
	v.Signature = p.Signature
	return v
}

// vfSyncCommit makes a commit for (h, id) signed by the validators in signers (positions in the
// validator set); the others are absent.
func vfSyncCommit(vals *types.ValidatorSet, keyOf map[common.Address]*ecdsa.PrivateKey, chainID string, h uint64, round uint32, id types.BlockID, signers map[int]bool) *types.Commit {
	return vfSyncCommitNil(vals, keyOf, chainID, h, round, id, signers, nil)
}

// vfSyncCommitNil: as vfSyncCommit, and the validators in nils (not in signers) precommit nil in
// that round (genuine signatures; the commit carries them with BlockIDFlagNil).
func vfSyncCommitNil(vals *types.ValidatorSet, keyOf map[common.Address]*ecdsa.PrivateKey, chainID string, h uint64, round uint32, id types.BlockID, signers, nils map[int]bool) *types.Commit {
	vs := types.NewVoteSet(chainID, h, round, kproto.PrecommitType, vals)
	for i, val := range vals.Validators {
		if !signers[i] {
			if nils[i] {
				v := vfSyncVote(keyOf[val.Address], chainID, uint32(i), h, round, types.BlockID{}, 1700000000+int64(h)*10)
				if _, err := vs.AddVote(v); err != nil {
					panic(err)
				}
			}
			continue
		}
		v := vfSyncVote(keyOf[val.Address], chainID, uint32(i), h, round, id, 1700000000+int64(h)*10)
		if _, err := vs.AddVote(v); err != nil {
			panic(err)
		}
	}
	if _, ok := vs.TwoThirdsMajority(); ok {
		return vs.MakeCommit()
	}
	// below quorum MakeCommit panics: assemble the commit by hand from the votes
	sigs := make([]types.CommitSig, vals.Size())
	for i := range sigs {
		if v := vs.GetByIndex(uint32(i)); v != nil {
			sigs[i] = v.CommitSig()
		} else {
			sigs[i] = types.NewCommitSigAbsent()
		}
	}
	return types.NewCommit(h, round, id, sigs)
}

func vfSyncKeys(r *vfRand, n int) []*ecdsa.PrivateKey {
	var ks []*ecdsa.PrivateKey
	for len(ks) < n {
		k, err := crypto.ToECDSA(crypto.Keccak256(r.Bytes(32)))
		if err == nil {
			ks = append(ks, k)
		}
	}
	return ks
}

// vfSyncTraceLine renders the successor's LastCommit as the precommit events the abstract model
// counts: one event per signature that INDEPENDENTLY verifies (recomputed sign bytes, recovered
// address) as a precommit of that validator for exactly (height of first, commit round, id of first).
func vfSyncTraceLine(vals *types.ValidatorSet, chainID string, c *types.Commit, first *types.Block, firstID types.BlockID, faulty map[int]bool) string {
	var pw, fs, evs []string
	for i, v := range vals.Validators {
		pw = append(pw, fmt.Sprint(v.VotingPower))
		if faulty[i] {
			fs = append(fs, fmt.Sprint(i))
		}
	}
	if c != nil && len(c.Signatures) == vals.Size() && c.Height == first.Height() && c.BlockID.Equal(firstID) {
		for i, s := range c.Signatures {
			if !s.ForBlock() || !s.ValidatorAddress.Equal(vals.Validators[i].Address) {
				continue
			}
			v := &types.Vote{ValidatorAddress: s.ValidatorAddress, ValidatorIndex: uint32(i), Height: c.Height, Round: c.Round,
				Timestamp: s.Timestamp, Type: kproto.PrecommitType, BlockID: c.BlockID}
			if types.VerifySignature(vals.Validators[i].Address, crypto.Keccak256(types.VoteSignBytes(chainID, v.ToProto())), s.Signature) {
				evs = append(evs, fmt.Sprintf("%d:c:%d:1", i, c.Round))
			}
		}
	}
	j := func(x []string, sep string) string {
		if len(x) == 0 {
			return "-"
		}
		return strings.Join(x, sep)
	}
	return fmt.Sprintf("commitq pw=%s F=%s ev=%s dec=1", j(pw, ","), j(fs, ","), j(evs, ";"))
}

func TestVerifC01Sync(t *testing.T) {
	log.Root().SetHandler(log.DiscardHandler())
	o := vfOpen()
	defer o.Close()
	seed := vfSeed()
	cases := vfN(6)
	for c := 0; c < cases; c++ {
		r := vfFork(seed^0x5c5c, uint64(c))
		n := r.Pick(4, 4, 5, 7)
		stake := make([]int64, n)
		for i := range stake {
			stake[i] = 15000000 + int64(r.Intn(3))*5000000
		}
		keys := vfSyncKeys(r, n)
		g := vfSyncGenesis(keys, stake)
		desc := fmt.Sprintf("seed=%d case=%d n=%d stake=%v", seed, c, n, stake)
		vfGuard(o, "panic-in-blocksync", func() string { return desc }, func() {
			builder, err := vfSyncMkNode(g)
			if err != nil {
				t.Fatal(err)
			}
			chainID := builder.state.ChainID
			keyOf := map[common.Address]*ecdsa.PrivateKey{}
			for _, k := range keys {
				keyOf[crypto.PubkeyToAddress(k.PublicKey)] = k
			}
			vals := builder.state.Validators
			var total int64
			for _, v := range vals.Validators {
				total += v.VotingPower
			}
			// faulty set < 1/3 of the power; quorum signers = a set with > 2/3 containing the faulty ones or not
			faulty := map[int]bool{}
			var fsum int64
			for _, i := range []int{r.Intn(n), r.Intn(n)} {
				if !faulty[i] && 3*(fsum+vals.Validators[i].VotingPower) < total {
					faulty[i] = true
					fsum += vals.Validators[i].VotingPower
				}
			}
			quorum := func() map[int]bool {
				s := map[int]bool{}
				var sum int64
				perm := make([]int, n)
				for i := range perm {
					perm[i] = i
				}
				for i := n - 1; i > 0; i-- {
					j := r.Intn(i + 1)
					perm[i], perm[j] = perm[j], perm[i]
				}
				for _, i := range perm {
					if 3*sum > 2*total && r.Chance(60) {
						break
					}
					s[i] = true
					sum += vals.Validators[i].VotingPower
				}
				return s
			}
			// ---- build the committed chain
			K := 4 + r.Intn(3)
			blocks := map[uint64]*types.Block{}
			ids := map[uint64]types.BlockID{}
			commits := map[uint64]*types.Commit{} // commit FOR block h
			last := types.NewCommit(0, 0, types.BlockID{}, nil)
			for h := uint64(1); h <= uint64(K); h++ {
				prop := vals.Validators[r.Intn(n)].Address
				blk, ps := builder.bo.CreateProposalBlock(h, builder.state, prop, last)
				id := types.BlockID{Hash: blk.Hash(), PartsHeader: ps.Header()}
				q := quorum()
				nils := map[int]bool{}
				for i := 0; i < n; i++ {
					if !q[i] && r.Chance(50) {
						nils[i] = true
					}
				}
				cm := vfSyncCommitNil(vals, keyOf, chainID, h, uint32(1+r.Intn(2)), id, q, nils)
				builder.bo.SaveBlock(blk, ps, cm)
				st, _, err := builder.exec.ApplyBlock(builder.state, id, blk)
				if err != nil {
					t.Fatalf("builder ApplyBlock: %v", err)
				}
				builder.state = st
				blocks[h], ids[h], commits[h] = blk, id, cm
				last = cm
			}
			// ---- the syncing node with the real processor
			sn, err := vfSyncMkNode(g)
			if err != nil {
				t.Fatal(err)
			}
			pc := newPcState(newProcessorContext(sn.bo, sn.exec, sn.state))
			livePc := pc
			offer := func(first, second *types.Block, kind string) {
				pc := livePc
				before := pc.height()
				pc.queue = blockQueue{}
				pc.handle(scBlockReceived{peerID: p2p.ID("P1"), block: first})
				pc.handle(scBlockReceived{peerID: p2p.ID("P2"), block: second})
				ev, _ := pc.handle(rProcessBlock{})
				adopted := pc.height() == before+1
				_, failed := ev.(pcBlockVerificationFailure)
				firstID := types.BlockID{Hash: first.Hash(), PartsHeader: first.MakePartSet(types.BlockPartSizeBytes).Header()}
				// soundness direction only (VerifyCommit also rejects e.g. a single bad signature
				// although the rest would suffice): an adopted block must have, in the abstract
				// model, a commit quorum of independently verified precommits for exactly it
				if adopted {
					o.Op("agree", vfSyncTraceLine(vals, chainID, second.LastCommit(), first, firstID, faulty), "good")
				}
				h := first.Height()
				genuine := first.Hash() == blocks[h].Hash()
				if adopted && !genuine {
					o.Viol("blocksync-adopted-uncommitted-block", fmt.Sprintf("%s kind=%s height=%d adopted=%x committed=%x", desc, kind, h, first.Hash().Bytes()[:6], blocks[h].Hash().Bytes()[:6]))
				}
				if adopted {
					if stored := sn.bo.LoadBlock(h); stored == nil || stored.Hash() != blocks[h].Hash() {
						o.Viol("blocksync-store-differs-from-chain", fmt.Sprintf("%s kind=%s height=%d", desc, kind, h))
					}
				}
				if kind == "genuine" && !adopted {
					o.Viol("blocksync-refused-genuine-pair", fmt.Sprintf("%s height=%d failed=%v", desc, h, failed))
				}
				o.Stat("sync." + kind + map[bool]string{true: ".adopted", false: ".refused"}[adopted])
			}
			withCommit := func(b *types.Block, cm *types.Commit) *types.Block {
				return types.NewBlock(b.Header(), b.Transactions(), cm, b.Evidence().Evidence, trie.NewStackTrie(nil))
			}
			for h := uint64(1); h < uint64(K); h++ {
				first, second := blocks[h], blocks[h+1]
				// forgeries first (none may be adopted), then the genuine pair
				for tries := 0; tries < 3; tries++ {
					switch r.Intn(10) {
					case 9: // the validator set is about to change (NextValidators re-weighted, same members and
						// order): precommits for an uncommitted block by validators holding <= 2/3 of the
						// power that decides THIS height but > 2/3 of the next height's set. The commit for
						// height h must be checked against the set of height h.
						ctx, ok := pc.context.(*pContext)
						if !ok {
							break
						}
						S := map[int]bool{0: true, 1: true}
						var sp int64
						for i := range S {
							sp += vals.Validators[i].VotingPower
						}
						if 3*sp > 2*total {
							break
						}
						var nv []*types.Validator
						for i, v := range vals.Validators {
							pw := int64(400 - i)
							if i == 0 {
								pw = 4000
							} else if i == 1 {
								pw = 1600
							}
							nv = append(nv, types.NewValidator(v.Address, pw))
						}
						st2 := ctx.state.Copy()
						st2.NextValidators = types.NewValidatorSet(nv)
						sameOrder := st2.NextValidators.Size() == vals.Size()
						for i := 0; sameOrder && i < vals.Size(); i++ {
							sameOrder = st2.NextValidators.Validators[i].Address.Equal(vals.Validators[i].Address)
						}
						if !sameOrder {
							o.Stat("sync.next-set-forgery.skipped-order")
							break
						}
						hd := first.Header()
						hd.GasLimit--
						forged := types.NewBlock(hd, first.Transactions(), first.LastCommit(), first.Evidence().Evidence, trie.NewStackTrie(nil))
						fid := types.BlockID{Hash: forged.Hash(), PartsHeader: forged.MakePartSet(types.BlockPartSizeBytes).Header()}
						nils := map[int]bool{}
						for i := 0; i < n; i++ {
							if !S[i] {
								nils[i] = true
							}
						}
						livePc = newPcState(newProcessorContext(sn.bo, sn.exec, st2))
						fcm := vfSyncCommitNil(vals, keyOf, chainID, h, uint32(1+r.Intn(2)), fid, S, nils)
						if err := livePc.context.verifyCommit(chainID, fid, h, fcm); err == nil {
							o.Viol("blocksync-commit-accepted-under-wrong-validator-set", fmt.Sprintf("%s height=%d: precommits of %d/%d of the power deciding this height accepted as a commit (they are +2/3 only of the NEXT height's re-weighted set)", desc, h, sp, total))
						}
						offer(forged, withCommit(second, fcm), "quorum-only-under-next-validator-set")
						livePc = pc
					case 7: // forged block signed by the faulty validators, glued to genuine NIL precommits of
						// correct validators from a failed round: every signature verifies, more than 2/3
						// of the power signed, less than 1/3 signed the block
						hd := first.Header()
						hd.GasLimit--
						forged := types.NewBlock(hd, first.Transactions(), first.LastCommit(), first.Evidence().Evidence, trie.NewStackTrie(nil))
						fid := types.BlockID{Hash: forged.Hash(), PartsHeader: forged.MakePartSet(types.BlockPartSizeBytes).Header()}
						nils := map[int]bool{}
						for i := 0; i < n; i++ {
							if !faulty[i] && !r.Chance(15) {
								nils[i] = true
							}
						}
						rd := uint32(1 + r.Intn(2))
						offer(forged, withCommit(second, vfSyncCommitNil(vals, keyOf, chainID, h, rd, fid, faulty, nils)), "forged-block-faulty-commit-plus-nil-precommits")
					case 8: // genuine block, at most 2/3 signed it, the others precommitted nil in that round
						few := map[int]bool{}
						nils := map[int]bool{}
						var sum int64
						for i, v := range vals.Validators {
							if 3*(sum+v.VotingPower) <= 2*total {
								few[i] = true
								sum += v.VotingPower
							} else {
								nils[i] = true
							}
						}
						offer(first, withCommit(second, vfSyncCommitNil(vals, keyOf, chainID, h, 1, ids[h], few, nils)), "commit-below-quorum-plus-nil-precommits")
					case 0: // another block at this height, "committed" by the faulty validators only
						hd := first.Header()
						hd.GasLimit--
						forged := types.NewBlock(hd, first.Transactions(), first.LastCommit(), first.Evidence().Evidence, trie.NewStackTrie(nil))
						fid := types.BlockID{Hash: forged.Hash(), PartsHeader: forged.MakePartSet(types.BlockPartSizeBytes).Header()}
						cm := vfSyncCommit(vals, keyOf, chainID, h, 1, fid, faulty)
						offer(forged, withCommit(second, cm), "forged-block-faulty-commit")
					case 1: // forged block, genuine successor (its commit is for the genuine block)
						hd := first.Header()
						hd.GasLimit--
						forged := types.NewBlock(hd, first.Transactions(), first.LastCommit(), first.Evidence().Evidence, trie.NewStackTrie(nil))
						offer(forged, second, "forged-block-genuine-successor")
					case 2: // genuine block, successor whose commit holds too little power
						few := map[int]bool{}
						var sum int64
						for i, v := range vals.Validators {
							if 3*(sum+v.VotingPower) <= 2*total {
								few[i] = true
								sum += v.VotingPower
							}
						}
						offer(first, withCommit(second, vfSyncCommit(vals, keyOf, chainID, h, 1, ids[h], few)), "commit-below-quorum")
					case 3: // commit for another height
						cm := *commits[h]
						cm.Height = h + 1
						offer(first, withCommit(second, &cm), "commit-wrong-height")
					case 4: // commit for another round than signed
						cm := *commits[h]
						cm.Round = cm.Round + 1
						offer(first, withCommit(second, &cm), "commit-wrong-round")
					case 5: // one signature corrupted so that the rest is below quorum or not
						cm := *commits[h]
						cm.Signatures = append([]types.CommitSig{}, commits[h].Signatures...)
						for i := range cm.Signatures {
							if cm.Signatures[i].ForBlock() {
								s := append([]byte{}, cm.Signatures[i].Signature...)
								s[5] ^= 0x40
								cm.Signatures[i].Signature = s
								break
							}
						}
						offer(first, withCommit(second, &cm), "commit-corrupted-signature")
					case 6: // signatures moved to other validators
						cm := *commits[h]
						cm.Signatures = append([]types.CommitSig{}, commits[h].Signatures...)
						if len(cm.Signatures) > 1 {
							cm.Signatures[0], cm.Signatures[1] = cm.Signatures[1], cm.Signatures[0]
						}
						offer(first, withCommit(second, &cm), "commit-signatures-swapped")
					}
				}
				offer(first, second, "genuine")
			}
			o.Case(desc, true)
			if c < 2 {
				o.Sample(fmt.Sprintf("%s chain=%d blocks faulty=%v synced-to=%d", desc, K, faulty, pc.height()))
			}
		})
	}
}
