package blockchain

// C18 (robustness of the block-sync reactor): no bytes a peer sends to BlockchainReactor.Receive
// may panic, hang, leak a lock or allocate without bound.  The oracle is independent of any
// model: recover + watchdog + allocation counter around every Receive, a health probe (normal
// traffic still served, the reactor's write lock can still be taken) after every batch, and an
// encode/decode round trip of every well-formed message.  In "sync" mode the events a message
// produces are pumped synchronously through the real scheduler and processor handlers (the demux
// loop of reactor.go is re-played without goroutines) so that a panic there is caught as well.

import (
	"bytes"
	"crypto/sha256"
	"encoding/binary"
	"encoding/hex"
	"fmt"
	"io"
	"math/big"
	"net"
	"regexp"
	"runtime"
	"runtime/debug"
	"runtime/metrics"
	"strings"
	"sync"
	"testing"
	"time"

	"github.com/gogo/protobuf/proto"

	"github.com/kardiachain/go-kardia/configs"
	"github.com/kardiachain/go-kardia/kai/state/cstate"
	"github.com/kardiachain/go-kardia/lib/behaviour"
	"github.com/kardiachain/go-kardia/lib/common"
	"github.com/kardiachain/go-kardia/lib/crypto"
	"github.com/kardiachain/go-kardia/lib/log"
	"github.com/kardiachain/go-kardia/lib/p2p"
	"github.com/kardiachain/go-kardia/lib/p2p/conn"
	"github.com/kardiachain/go-kardia/lib/service"
	bcproto "github.com/kardiachain/go-kardia/proto/kardiachain/blockchain"
	kproto "github.com/kardiachain/go-kardia/proto/kardiachain/types"
	"github.com/kardiachain/go-kardia/trie"
	"github.com/kardiachain/go-kardia/types"
)

// ---------------------------------------------------------------------------------------------
// generic helpers (self-contained; the same block is repeated in every C18 harness file)

const (
	vf18MaxHangs   = 3
	vf18AllocLimit = 64 << 20
	vf18MaxEnc     = 1 << 20 // the mutator never builds more than about this many bytes
)

// vf18Deadline is the watchdog limit of one call (VERIF_C18_DEADLINE_S overrides; default 10 s).
var vf18Deadline = time.Duration(vfEnvInt("VERIF_C18_DEADLINE_S", 10)) * time.Second

// vf18F is one protobuf wire-level field.
type vf18F struct {
	num  uint64
	wt   uint64 // 0 varint, 1 fixed64, 2 bytes, 5 fixed32
	v    uint64
	b    []byte
	sub  []*vf18F // parsed payload when it is itself well-formed wire data
	dlen int64    // added to the declared length of a bytes field
	rep  int      // extra repetitions when encoding
}

func vf18Parse(b []byte, depth int) ([]*vf18F, bool) {
	var out []*vf18F
	for len(b) > 0 {
		key, n := binary.Uvarint(b)
		if n <= 0 {
			return nil, false
		}
		b = b[n:]
		f := &vf18F{num: key >> 3, wt: key & 7}
		if f.num == 0 {
			return nil, false
		}
		switch f.wt {
		case 0:
			v, n := binary.Uvarint(b)
			if n <= 0 {
				return nil, false
			}
			f.v = v
			b = b[n:]
		case 1:
			if len(b) < 8 {
				return nil, false
			}
			f.b, b = b[:8], b[8:]
		case 5:
			if len(b) < 4 {
				return nil, false
			}
			f.b, b = b[:4], b[4:]
		case 2:
			l, n := binary.Uvarint(b)
			if n <= 0 || l > uint64(len(b)-n) {
				return nil, false
			}
			f.b = b[n : n+int(l)]
			b = b[n+int(l):]
			if depth < 6 && len(f.b) > 1 {
				if sub, ok := vf18Parse(f.b, depth+1); ok {
					f.sub = sub
				}
			}
		default:
			return nil, false
		}
		out = append(out, f)
	}
	return out, true
}

func vf18PutUvarint(dst []byte, v uint64) []byte {
	var tmp [10]byte
	n := binary.PutUvarint(tmp[:], v)
	return append(dst, tmp[:n]...)
}

func vf18Enc(fs []*vf18F) []byte {
	var out []byte
	for _, f := range fs {
		for k := 0; k <= f.rep && len(out) <= vf18MaxEnc; k++ {
			out = vf18PutUvarint(out, f.num<<3|f.wt)
			switch f.wt {
			case 0:
				out = vf18PutUvarint(out, f.v)
			case 2:
				p := f.b
				if f.sub != nil {
					p = vf18Enc(f.sub)
				}
				l := int64(len(p)) + f.dlen
				if l < 0 {
					l = 0
				}
				out = vf18PutUvarint(out, uint64(l))
				out = append(out, p...)
			default:
				out = append(out, f.b...)
			}
		}
	}
	return out
}

var vf18Huge = []uint64{0, 1, 1 << 31, 1<<32 - 1, 1 << 32, 1 << 62, 1<<63 - 1, 1 << 63, 1<<64 - 1, 1<<64 - 2}

func vf18RandField(r *vfRand) *vf18F {
	f := &vf18F{num: uint64(1 + r.Intn(20))}
	switch r.Intn(4) {
	case 0:
		f.wt, f.v = 0, vf18Huge[r.Intn(len(vf18Huge))]
	case 1:
		f.wt, f.b = 2, r.Bytes(r.Intn(40))
	case 2:
		f.wt, f.b = 1, r.Bytes(8)
	default:
		f.wt, f.b = 5, r.Bytes(4)
	}
	return f
}

// vf18Mut applies one structural mutation somewhere in the field tree and names it.
func vf18Mut(r *vfRand, fs []*vf18F, depth int) ([]*vf18F, string) {
	if len(fs) == 0 {
		return append(fs, vf18RandField(r)), "insert"
	}
	i := r.Intn(len(fs))
	f := fs[i]
	if f.sub != nil && depth < 6 && r.Chance(70) {
		sub, what := vf18Mut(r, f.sub, depth+1)
		f.sub = sub
		if sub == nil {
			f.sub, f.b = nil, nil
		}
		return fs, what
	}
	flat := func() []byte {
		if f.sub != nil {
			return vf18Enc(f.sub)
		}
		return f.b
	}
	switch r.Intn(14) {
	case 0:
		return append(append([]*vf18F{}, fs[:i]...), fs[i+1:]...), "drop"
	case 1:
		cp := *f
		out := append([]*vf18F{}, fs[:i+1]...)
		out = append(out, &cp)
		return append(out, fs[i+1:]...), "dup"
	case 2:
		f.wt, f.sub, f.b = 0, nil, nil
		f.v = vf18Huge[r.Intn(len(vf18Huge))]
		return fs, "hugevarint"
	case 3:
		if f.wt == 0 {
			f.v = vf18Huge[r.Intn(len(vf18Huge))]
			return fs, "hugevarint"
		}
		f.wt, f.sub, f.b = 2, nil, nil
		return fs, "empty"
	case 4:
		f.wt, f.sub, f.b = 2, nil, r.Bytes(r.Intn(48))
		return fs, "randpayload"
	case 5:
		p := flat()
		if f.wt == 2 && len(p) > 0 {
			f.sub, f.b = nil, append([]byte{}, p[:r.Intn(len(p))]...)
			return fs, "truncfield"
		}
		f.v ^= 1 << uint(r.Intn(64))
		return fs, "bitflip"
	case 6:
		f.num = uint64(r.Pick(1, 2, 3, 4, 5, 6, 7, 8, 15, 16, 99, 536870911))
		return fs, "renumber"
	case 7:
		if f.wt == 0 {
			f.wt, f.b = 2, r.Bytes(r.Intn(12))
		} else {
			f.wt, f.sub, f.b, f.v = 0, nil, nil, uint64(r.Intn(300))
		}
		return fs, "retype"
	case 8:
		j := r.Intn(len(fs))
		fs[i], fs[j] = fs[j], fs[i]
		return fs, "swap"
	case 9:
		out := append([]*vf18F{}, fs[:i]...)
		out = append(out, vf18RandField(r))
		return append(out, fs[i:]...), "insert"
	case 10:
		if f.wt == 2 {
			f.dlen = int64(r.Pick(1, 2, 5, 1000, 1<<31-1, 1<<31, 1<<62, -1, -3))
			return fs, "badlen"
		}
		f.v = uint64(-int64(1 + r.Intn(1000)))
		return fs, "negative"
	case 11:
		p := append([]byte{}, flat()...)
		if f.wt != 0 && len(p) > 0 {
			p[r.Intn(len(p))] ^= byte(1 << uint(r.Intn(8)))
			f.sub, f.b = nil, p
			return fs, "byteflip"
		}
		f.v = uint64(r.Intn(4))
		return fs, "smallvarint"
	case 12:
		f.rep = r.Pick(2, 10, 100, 1000)
		return fs, "repeat"
	default:
		if f.wt == 0 {
			f.v = uint64(-int64(r.Intn(3)) - 1)
			return fs, "negative"
		}
		f.sub, f.b = []*vf18F{}, nil
		return fs, "empty"
	}
}

// vf18Mutate returns a mutation of a valid encoding (1..3 structural steps, sometimes followed
// by a byte-level step) and a label.
func vf18Mutate(r *vfRand, valid []byte) ([]byte, string) {
	fs, ok := vf18Parse(valid, 0)
	var label string
	out := valid
	if ok {
		steps := 1 + r.Intn(3)
		var names []string
		for k := 0; k < steps; k++ {
			var w string
			fs, w = vf18Mut(r, fs, 0)
			names = append(names, w)
		}
		label = strings.Join(names, "+")
		out = vf18Enc(fs)
	} else {
		label = "raw"
	}
	if !ok || r.Chance(25) {
		out = append([]byte{}, out...)
		switch r.Intn(4) {
		case 0:
			if len(out) > 0 {
				out = out[:r.Intn(len(out))]
			}
			label += "+cut"
		case 1:
			if len(out) > 0 {
				out[r.Intn(len(out))] ^= byte(1 << uint(r.Intn(8)))
			}
			label += "+flip"
		case 2:
			out = append(out, r.Bytes(1+r.Intn(8))...)
			label += "+tail"
		default:
			if len(out) > 0 {
				out[r.Intn(len(out))] = byte(r.Pick(0x00, 0x7f, 0x80, 0xff))
			}
			label += "+set"
		}
	}
	if len(out) > 1<<20 {
		out = out[:1<<20]
	}
	return out, label
}

type vf18Res struct {
	pan   interface{}
	stack string
	hung  bool
	alloc uint64
}

var vf18Sample = []metrics.Sample{{Name: "/gc/heap/allocs:bytes"}}

func vf18Alloc() uint64 {
	metrics.Read(vf18Sample)
	if vf18Sample[0].Value.Kind() != metrics.KindUint64 {
		return 0
	}
	return vf18Sample[0].Value.Uint64()
}

// vf18Call runs f in its own goroutine under recover with a deadline and measures the bytes
// allocated while it ran (nothing else runs meanwhile).
func vf18Call(f func()) vf18Res {
	done := make(chan vf18Res, 1)
	a0 := vf18Alloc()
	go func() {
		var res vf18Res
		defer func() {
			if p := recover(); p != nil {
				res.pan = p
				res.stack = string(debug.Stack())
			}
			done <- res
		}()
		f()
	}()
	t := time.NewTimer(vf18Deadline)
	defer t.Stop()
	select {
	case res := <-done:
		res.alloc = vf18Alloc() - a0
		return res
	case <-t.C:
		return vf18Res{hung: true}
	}
}

var (
	vf18ReHex = regexp.MustCompile(`0x[0-9a-fA-F]+|[0-9]+`)
	vf18ReBad = regexp.MustCompile(`[^a-z]+`)
)

// vf18Cause maps a panic value to a short stable tag (no numbers, no addresses).
func vf18Cause(p interface{}) string {
	s := strings.ToLower(fmt.Sprint(p))
	s = vf18ReHex.ReplaceAllString(s, "")
	s = strings.Trim(vf18ReBad.ReplaceAllString(s, "-"), "-")
	if len(s) > 48 {
		s = s[:48]
	}
	return s
}

// vf18Frame returns the innermost repository frame of a panic stack (function name only).
func vf18Frame(stack string) string {
	lines := strings.Split(stack, "\n")
	seenPanic := false
	for i := 0; i+1 < len(lines); i++ {
		l := lines[i]
		if strings.HasPrefix(l, "panic(") {
			seenPanic = true
			continue
		}
		if !seenPanic || !strings.Contains(l, "go-kardia/") || strings.Contains(l, "vf18") {
			continue
		}
		loc := strings.TrimSpace(lines[i+1])
		if k := strings.Index(loc, " +0x"); k >= 0 {
			loc = loc[:k]
		}
		if k := strings.LastIndex(l, "("); k >= 0 {
			l = l[:k]
		}
		return l + " @ " + loc
	}
	return "?"
}

func vf18Short(b []byte) string {
	h := vfHex(b)
	if len(h) > 400 {
		h = h[:400] + fmt.Sprintf("...(%d bytes)", len(b))
	}
	return h
}

// vf18Peer is a stub p2p.Peer that records what the reactor sends to it.
type vf18Peer struct {
	*service.BaseService
	id   p2p.ID
	ip   net.IP
	addr *p2p.NetAddress
	mtx  sync.Mutex
	sent [][]byte // chID byte followed by the message
	kv   map[string]interface{}
}

var vf18PeerCtr uint64

func vf18NewPeer() *vf18Peer {
	vf18PeerCtr++
	h := sha256.Sum256([]byte(fmt.Sprintf("vf18-peer-%d", vf18PeerCtr)))
	id := p2p.ID(hex.EncodeToString(h[:20]))
	ip := net.IPv4(byte(11+h[20]%100), h[21], h[22], byte(1+h[23]%250))
	addr := p2p.NewNetAddressIPPort(ip, 26656)
	addr.ID = id
	p := &vf18Peer{id: id, ip: ip, addr: addr, kv: map[string]interface{}{}}
	p.BaseService = service.NewBaseService(nil, "vf18Peer", p)
	if err := p.Start(); err != nil {
		panic(err)
	}
	return p
}

func (p *vf18Peer) FlushStop() { _ = p.Stop() }
func (p *vf18Peer) ID() p2p.ID { return p.id }
func (p *vf18Peer) RemoteIP() net.IP { return p.ip }
func (p *vf18Peer) RemoteAddr() net.Addr { return &net.TCPAddr{IP: p.ip, Port: 26656} }
func (p *vf18Peer) IsOutbound() bool { return false }
func (p *vf18Peer) IsPersistent() bool { return false }
func (p *vf18Peer) CloseConn() error { return nil }
func (p *vf18Peer) NodeInfo() p2p.NodeInfo {
	return p2p.DefaultNodeInfo{DefaultNodeID: p.id, ListenAddr: p.addr.DialString()}
}
func (p *vf18Peer) Status() conn.ConnectionStatus { return conn.ConnectionStatus{} }
func (p *vf18Peer) SocketAddr() *p2p.NetAddress { return p.addr }
func (p *vf18Peer) String() string { return "vf18Peer{" + string(p.id) + "}" }
func (p *vf18Peer) Send(ch byte, b []byte) bool { return p.TrySend(ch, b) }
func (p *vf18Peer) TrySend(ch byte, b []byte) bool {
	p.mtx.Lock()
	defer p.mtx.Unlock()
	if len(p.sent) < 4096 {
		p.sent = append(p.sent, append([]byte{ch}, b...))
	}
	return true
}
func (p *vf18Peer) Set(k string, v interface{}) {
	p.mtx.Lock()
	defer p.mtx.Unlock()
	p.kv[k] = v
}
func (p *vf18Peer) Get(k string) interface{} {
	p.mtx.Lock()
	defer p.mtx.Unlock()
	return p.kv[k]
}
func (p *vf18Peer) take() [][]byte {
	p.mtx.Lock()
	defer p.mtx.Unlock()
	s := p.sent
	p.sent = nil
	return s
}

// vf18Logger formats every record at Info and above (so that String methods of peer-controlled
// values run as they would in production) and throws the text away.
func vf18Logger() log.Logger {
	l := log.New()
	vf18LogMode(l, true)
	return l
}

// vf18LogMode switches between the formatting handler and a discarding one (used for very large
// inputs, where formatting the raw bytes of the message dominates time and allocation).
func vf18LogMode(l log.Logger, format bool) {
	if format {
		l.SetHandler(log.LvlFilterHandler(log.LvlInfo, log.StreamHandler(io.Discard, log.TerminalFormat(false))))
	} else {
		l.SetHandler(log.DiscardHandler())
	}
}

// vf18Switch makes a real, not started, not listening Switch.
func vf18Switch() *p2p.Switch {
	priv, err := crypto.HexToECDSA("b71c71a67e1177ad4e901695e1b4b9ee17ae16c6668d313eac2f96dbcda3f291")
	if err != nil {
		panic(err)
	}
	nodeKey := p2p.NodeKey{PrivKey: priv}
	cfg := configs.DefaultP2PConfig()
	ni := p2p.DefaultNodeInfo{DefaultNodeID: nodeKey.ID(), ListenAddr: "127.0.0.1:26656", Network: "vf18",
		Version: "1.0.0", Moniker: "vf18"}
	tr := p2p.NewMultiplexTransport(ni, nodeKey, p2p.MConnConfig(cfg))
	sw := p2p.NewSwitch(cfg, tr)
	sw.SetLogger(vf18Logger())
	sw.SetNodeKey(&nodeKey)
	sw.SetNodeInfo(ni)
	return sw
}

// ---------------------------------------------------------------------------------------------
// block-sync specific part

const vf18BcName = "blockchain"

type vf18Store struct {
	mtx    sync.Mutex
	blocks map[uint64]*types.Block
	height uint64
}

func (s *vf18Store) Base() uint64 { return 1 }
func (s *vf18Store) Height() uint64 {
	s.mtx.Lock()
	defer s.mtx.Unlock()
	return s.height
}
func (s *vf18Store) LoadBlock(h uint64) *types.Block {
	s.mtx.Lock()
	defer s.mtx.Unlock()
	return s.blocks[h]
}
func (s *vf18Store) SaveBlock(b *types.Block, _ *types.PartSet, _ *types.Commit) {
	s.mtx.Lock()
	defer s.mtx.Unlock()
	s.blocks[b.Height()] = b
	if b.Height() > s.height {
		s.height = b.Height()
	}
}

type vf18Applier struct{}

func (vf18Applier) ApplyBlock(st cstate.LatestBlockState, id types.BlockID, b *types.Block) (cstate.LatestBlockState, uint64, error) {
	st.LastBlockHeight = b.Height()
	st.LastBlockID = id
	return st, 0, nil
}

// vf18Chain is a fixed chain of real blocks with real commits of a one-validator set.
type vf18Chain struct {
	chainID string
	pv      *types.DefaultPrivValidator
	vals    *types.ValidatorSet
	blocks  []*types.Block // blocks[h-1] has height h
	ids     []types.BlockID
	have    uint64 // heights 1..have are in our store, the rest is what honest peers serve
}

var vf18T0 = time.Date(2024, 1, 2, 3, 4, 5, 0, time.UTC)

func vf18Vote(c *vf18Chain, h uint64, id types.BlockID, ts time.Time) *types.Vote {
	addr := c.pv.GetAddress()
	idx, _ := c.vals.GetByAddress(addr)
	v := &types.Vote{ValidatorAddress: addr, ValidatorIndex: uint32(idx), Height: h, Round: 0, Timestamp: ts,
		Type: kproto.PrecommitType, BlockID: id}
	pb := v.ToProto()
	if err := c.pv.SignVote(c.chainID, pb); err != nil {
		panic(err)
	}
	v.Signature = pb.Signature
	return v
}

func vf18MakeChain(n int, have uint64) *vf18Chain {
	priv, err := crypto.HexToECDSA("8843ebcb1021b00ae9a644db6617f9c6d870e5fd53624cefe374c1d2d710fd06")
	if err != nil {
		panic(err)
	}
	c := &vf18Chain{chainID: "vf18-chain", pv: types.NewDefaultPrivValidator(priv), have: have}
	c.vals = types.NewValidatorSet([]*types.Validator{types.NewValidator(c.pv.GetAddress(), 10)})
	var lastID types.BlockID
	for h := uint64(1); h <= uint64(n); h++ {
		lastCommit := types.NewCommit(h-1, 0, types.BlockID{}, nil)
		if h > 1 {
			v := vf18Vote(c, h-1, lastID, vf18T0.Add(time.Duration(h)*time.Second))
			lastCommit = types.NewCommit(h-1, 0, lastID, []types.CommitSig{v.CommitSig()})
		}
		var txs []*types.Transaction
		for k := 0; k < int(h%4); k++ {
			txs = append(txs, types.NewTransaction(uint64(k)+h, common.Address{byte(h), byte(k)}, big.NewInt(int64(h)*7), 21000,
				big.NewInt(1), []byte(fmt.Sprintf("vf18 tx %d/%d", h, k))))
		}
		var evs []types.Evidence
		if h == 5 || h == 7 {
			idA := types.BlockID{Hash: common.BytesToHash(bytes.Repeat([]byte{0xa1}, 32)),
				PartsHeader: types.PartSetHeader{Total: 1, Hash: common.BytesToHash(bytes.Repeat([]byte{0xa2}, 32))}}
			idB := types.BlockID{Hash: common.BytesToHash(bytes.Repeat([]byte{0xb1}, 32)),
				PartsHeader: types.PartSetHeader{Total: 1, Hash: common.BytesToHash(bytes.Repeat([]byte{0xb2}, 32))}}
			ts := vf18T0.Add(time.Duration(h) * time.Second)
			ev := types.NewDuplicateVoteEvidence(vf18Vote(c, h-2, idA, ts), vf18Vote(c, h-2, idB, ts), ts, c.vals)
			if ev != nil {
				evs = append(evs, ev)
			}
		}
		hdr := &types.Header{Height: h, Time: vf18T0.Add(time.Duration(h) * time.Second), LastBlockID: lastID,
			ValidatorsHash: c.vals.Hash(), NextValidatorsHash: c.vals.Hash(), ProposerAddress: c.pv.GetAddress(), GasLimit: 1000000}
		b := types.NewBlock(hdr, txs, lastCommit, evs, trie.NewStackTrie(nil))
		ps := b.MakePartSet(types.BlockPartSizeBytes)
		lastID = types.BlockID{Hash: b.Hash(), PartsHeader: ps.Header()}
		c.blocks = append(c.blocks, b)
		c.ids = append(c.ids, lastID)
	}
	return c
}

func (c *vf18Chain) state() cstate.LatestBlockState {
	return cstate.LatestBlockState{ChainID: c.chainID, InitialHeight: 1, LastBlockHeight: c.have, LastBlockID: c.ids[c.have-1],
		LastBlockTime: c.blocks[c.have-1].Time(), Validators: c.vals.Copy(), NextValidators: c.vals.Copy(), LastValidators: c.vals.Copy()}
}

// vf18Node is one reactor instance with its switch and store.
type vf18Node struct {
	r     *BlockchainReactor
	sw    *p2p.Switch
	store *vf18Store
	sync  bool // events channel present and pumped by the harness
	dead  bool // a call hung: never touch again
	ended bool // the sync finished (pcFinished)
}

func vf18NewNode(c *vf18Chain, syncMode bool) *vf18Node {
	st := &vf18Store{blocks: map[uint64]*types.Block{}, height: c.have}
	for h := uint64(1); h <= c.have; h++ {
		st.blocks[h] = c.blocks[h-1]
	}
	fs := &configs.FastSyncConfig{ServiceName: "vf18", Enable: false, MaxPeers: 4, TargetPending: 5,
		PeerTimeout: 15 * time.Second, MinRecvRate: 0, SyncTimeout: 10 * time.Minute}
	r := newReactor(c.state(), st, behaviour.NewMockReporter(), vf18Applier{}, fs)
	r.SetLogger(vf18Logger())
	sw := vf18Switch()
	sw.AddReactor("BLOCKCHAIN", r) // calls r.SetSwitch(sw)
	r.reporter = behaviour.NewSwitchReporter(sw) // what Start() installs
	n := &vf18Node{r: r, sw: sw, store: st, sync: syncMode}
	if syncMode {
		// what startSync does, minus the goroutines: the harness plays demux itself.
		r.mtx.Lock()
		r.events = make(chan Event, chBufferSize)
		r.mtx.Unlock()
	}
	return n
}

func (n *vf18Node) addPeer() *vf18Peer {
	p := vf18NewPeer()
	p2p.AddPeerToSwitchPeerSet(n.sw, p)
	return p
}

type vf18Ctx struct {
	hangs int // watchdog timeouts so far; the run stops after vf18MaxHangs (each costs a deadline)
	o     *vfOut
	c     *vf18Chain
	n     *vf18Node
	hit   bool // current case reached a handler with a mutated message
	modeS string
}

func (x *vf18Ctx) fresh(syncMode bool) {
	x.n = vf18NewNode(x.c, syncMode)
	if syncMode {
		x.modeS = "sync"
	} else {
		x.modeS = "idle"
	}
}

// guarded runs f under the watchdog and reports panic / hang / allocation with the given tags.
func (x *vf18Ctx) guarded(what, kind string, input []byte, f func()) (ok bool) {
	res := vf18Call(f)
	switch {
	case res.hung:
		x.o.Viol(fmt.Sprintf("hang-in-%s/%s/%s", what, vf18BcName, kind),
			fmt.Sprintf("no return within %v; mode=%s input=%s", vf18Deadline, x.modeS, vf18Short(input)))
		x.o.w.Flush()
		x.hangs++
		x.n.dead = true
		return false
	case res.pan != nil:
		x.o.Viol(fmt.Sprintf("panic-in-%s/%s/%s/%s", what, vf18BcName, kind, vf18Cause(res.pan)),
			fmt.Sprintf("panic: %v; at %s; mode=%s input=%s", res.pan, vf18Frame(res.stack), x.modeS, vf18Short(input)))
		return false
	}
	if res.alloc > vf18AllocLimit {
		x.o.Viol(fmt.Sprintf("alloc-in-%s/%s/%s", what, vf18BcName, kind),
			fmt.Sprintf("%d bytes allocated by one message of %d bytes; mode=%s input=%s", res.alloc, len(input), x.modeS, vf18Short(input)))
	}
	return true
}

// vf18Kind classifies an input the way the reactor's decoder sees it.
func vf18Kind(bz []byte) (kind string, decoded bool, valid bool) {
	defer func() {
		if p := recover(); p != nil {
			kind = "decode-panic"
		}
	}()
	msg, err := DecodeMsg(bz)
	if err != nil {
		return "undecodable", false, false
	}
	switch msg.(type) {
	case *bcproto.StatusRequest:
		kind = "StatusRequest"
	case *bcproto.StatusResponse:
		kind = "StatusResponse"
	case *bcproto.BlockRequest:
		kind = "BlockRequest"
	case *bcproto.BlockResponse:
		kind = "BlockResponse"
	case *bcproto.NoBlockResponse:
		kind = "NoBlockResponse"
	default:
		kind = "other"
	}
	return kind, true, ValidateMsg(msg) == nil
}

func vf18EvName(e Event) string {
	s := fmt.Sprintf("%T", e)
	if k := strings.LastIndex(s, "."); k >= 0 {
		s = s[k+1:]
	}
	return s
}

// pump replays the body of demux synchronously: drain r.events into the scheduler, route the
// scheduler's and the processor's outputs, and fire the three tickers once.
func (x *vf18Ctx) pump(input []byte) {
	n := x.n
	if !n.sync || n.dead || n.ended {
		return
	}
	r := n.r
	var schedIn, procIn []Event
	handle := func(rt *Routine, name string, ev Event) Event {
		var out Event
		x.o.Stat("sync/" + name + "/" + vf18EvName(ev))
		ok := x.guarded("sync-handler", name+"/"+vf18EvName(ev), input, func() {
			o, err := rt.handle(ev)
			if err == nil {
				out = o
			}
		})
		if !ok {
			return nil
		}
		return out
	}
	for round := 0; round < 64 && !n.dead && !n.ended; round++ {
		// events from peers
	drain:
		for {
			select {
			case ev := <-r.events:
				if sr, ok := ev.(bcStatusResponse); ok {
					r.setMaxPeerHeight(sr.height)
				}
				schedIn = append(schedIn, ev)
			default:
				break drain
			}
		}
		if round == 0 {
			now := time.Now()
			schedIn = append(schedIn, rTrySchedule{time: now}, rTrySchedule{time: now}, rTryPrunePeer{time: now})
			procIn = append(procIn, rProcessBlock{})
		}
		if len(schedIn) == 0 && len(procIn) == 0 {
			return
		}
		si, pi := schedIn, procIn
		schedIn, procIn = nil, nil
		for _, ev := range si {
			switch out := handle(r.scheduler, "scheduler", ev).(type) {
			case scBlockReceived:
				procIn = append(procIn, out)
			case scPeerError:
				procIn = append(procIn, out)
				_ = r.reporter.Report(behaviour.BadMessage(out.peerID, "scPeerError"))
				x.o.Stat("sync/peer-error")
			case scBlockRequest:
				_ = r.io.sendBlockRequest(out.peerID, out.height)
				x.o.Stat("sync/block-request")
			case scFinishedEv:
				procIn = append(procIn, out)
			case scPeersPruned:
				for _, id := range out.peers {
					procIn = append(procIn, scPeerError{peerID: id, reason: fmt.Errorf("peer was pruned")})
				}
			}
			if n.dead {
				return
			}
		}
		for _, ev := range pi {
			switch out := handle(r.processor, "processor", ev).(type) {
			case pcBlockProcessed:
				r.setSyncHeight(out.height)
				schedIn = append(schedIn, out)
				procIn = append(procIn, rProcessBlock{})
				x.o.Stat("sync/block-processed")
			case pcBlockVerificationFailure:
				schedIn = append(schedIn, out)
				x.o.Stat("sync/verification-failure")
			case pcFinished:
				// demux: trySwitchToConsensus, endSync, return
				x.guarded("sync-handler", "endSync", input, func() {
					_ = r.io.trySwitchToConsensus(out.kaiState, out.blocksSynced > 0)
					r.endSync()
				})
				n.ended = true
				n.sync = false
				x.o.Stat("sync/finished")
			}
			if n.dead {
				return
			}
		}
	}
}

// feed delivers one message on the reactor's channel.
func (x *vf18Ctx) feed(p *vf18Peer, stream, label string, bz []byte) {
	kind, decoded, valid := vf18Kind(bz)
	x.o.Stat("recv/" + stream)
	x.o.Stat("kind/" + stream + "/" + kind)
	if decoded {
		x.o.Stat("decoded/" + stream)
	}
	if valid {
		x.o.Stat("validated/" + stream)
		if stream == "mutated" {
			x.hit = true
		}
	}
	tag := kind
	if stream == "random" {
		tag = "random"
	}
	sig := fmt.Sprintf("0x%02x/%s", BlockchainChannel, tag)
	big := len(bz) > 16<<10
	if big {
		vf18LogMode(x.n.r.logger, false)
		x.o.Stat("recv/big")
	}
	x.guarded("receive", sig, bz, func() { x.n.r.Receive(BlockchainChannel, p, bz) })
	if big {
		vf18LogMode(x.n.r.logger, true)
	}
	// Receive has returned and nothing else runs: the reactor's lock must be free again.
	if !x.n.dead {
		if x.n.r.mtx.TryLock() {
			x.n.r.mtx.Unlock()
		} else {
			x.o.Viol(fmt.Sprintf("lock-leak-in-receive/%s/%s", vf18BcName, sig),
				fmt.Sprintf("r.mtx still held after Receive returned; mode=%s input=%s", x.modeS, vf18Short(bz)))
			x.o.w.Flush()
			x.hangs++
			x.n.dead = true
		}
	}
	if !x.n.dead {
		x.pump(bz)
	}
	_ = label
}

// vf18Valid builds well-formed messages of every kind.
func (x *vf18Ctx) valid(r *vfRand) (proto.Message, string) {
	c := x.c
	hs := []uint64{1, 2, c.have, c.have + 1, c.have + 2, uint64(len(c.blocks)), uint64(len(c.blocks)) + 1, 1 << 31, 1<<63 - 1, 1 << 63, 1<<64 - 1}
	switch r.Intn(6) {
	case 0:
		return &bcproto.StatusRequest{}, "StatusRequest"
	case 1:
		h := hs[r.Intn(len(hs))]
		b := uint64(r.Intn(3))
		if r.Chance(20) {
			b = h
		}
		if b > h {
			b = h
		}
		return &bcproto.StatusResponse{Base: b, Height: h}, "StatusResponse"
	case 2:
		return &bcproto.BlockRequest{Height: hs[r.Intn(len(hs))]}, "BlockRequest"
	case 3:
		return &bcproto.NoBlockResponse{Height: hs[r.Intn(len(hs))]}, "NoBlockResponse"
	default:
		b := c.blocks[r.Intn(len(c.blocks))]
		pb, err := b.ToProto()
		if err != nil {
			panic(err)
		}
		return &bcproto.BlockResponse{Block: pb}, "BlockResponse"
	}
}

// vf18Odd builds structurally legal protobuf values that a correct peer never sends.
func (x *vf18Ctx) odd(r *vfRand) []byte {
	c := x.c
	b := c.blocks[r.Intn(len(c.blocks))]
	pb, _ := b.ToProto()
	var m bcproto.Message
	switch r.Intn(16) {
	case 0:
		m.Sum = &bcproto.Message_BlockResponse{BlockResponse: &bcproto.BlockResponse{}}
	case 1:
		m.Sum = &bcproto.Message_BlockResponse{BlockResponse: &bcproto.BlockResponse{Block: &kproto.Block{}}}
	case 2:
		pb.LastCommit = nil
		m.Sum = &bcproto.Message_BlockResponse{BlockResponse: &bcproto.BlockResponse{Block: pb}}
	case 3:
		pb.Header = kproto.Header{}
		m.Sum = &bcproto.Message_BlockResponse{BlockResponse: &bcproto.BlockResponse{Block: pb}}
	case 4:
		pb.Data = kproto.Data{Txs: [][]byte{nil, {}, {0xc0}, r.Bytes(r.Intn(40))}}
		m.Sum = &bcproto.Message_BlockResponse{BlockResponse: &bcproto.BlockResponse{Block: pb}}
	case 5:
		pb.Evidence = kproto.EvidenceData{Evidence: []kproto.Evidence{{}, {Sum: &kproto.Evidence_DuplicateVoteEvidence{}},
			{Sum: &kproto.Evidence_DuplicateVoteEvidence{DuplicateVoteEvidence: &kproto.DuplicateVoteEvidence{}}}}}
		m.Sum = &bcproto.Message_BlockResponse{BlockResponse: &bcproto.BlockResponse{Block: pb}}
	case 6:
		if pb.LastCommit != nil {
			pb.LastCommit.Signatures = append(pb.LastCommit.Signatures, kproto.CommitSig{BlockIdFlag: kproto.BlockIDFlag(r.Intn(6))},
				kproto.CommitSig{BlockIdFlag: 2, ValidatorAddress: r.Bytes(r.Intn(30)), Signature: r.Bytes(r.Intn(100))})
		}
		m.Sum = &bcproto.Message_BlockResponse{BlockResponse: &bcproto.BlockResponse{Block: pb}}
	case 7:
		if pb.LastCommit != nil {
			pb.LastCommit.Signatures = nil
			pb.LastCommit.Height = vf18Huge[r.Intn(len(vf18Huge))]
		}
		m.Sum = &bcproto.Message_BlockResponse{BlockResponse: &bcproto.BlockResponse{Block: pb}}
	case 8:
		pb.Header.Height = vf18Huge[r.Intn(len(vf18Huge))]
		m.Sum = &bcproto.Message_BlockResponse{BlockResponse: &bcproto.BlockResponse{Block: pb}}
	case 9:
		pb.Header.LastBlockId.PartSetHeader.Total = uint32(vf18Huge[r.Intn(len(vf18Huge))])
		pb.Header.ValidatorsHash = r.Bytes(r.Intn(70))
		m.Sum = &bcproto.Message_BlockResponse{BlockResponse: &bcproto.BlockResponse{Block: pb}}
	case 10:
		m.Sum = &bcproto.Message_StatusResponse{StatusResponse: &bcproto.StatusResponse{Base: vf18Huge[r.Intn(len(vf18Huge))], Height: vf18Huge[r.Intn(len(vf18Huge))]}}
	case 11:
		m.Sum = &bcproto.Message_BlockRequest{BlockRequest: &bcproto.BlockRequest{Height: vf18Huge[r.Intn(len(vf18Huge))]}}
	case 12:
		m.Sum = &bcproto.Message_NoBlockResponse{NoBlockResponse: &bcproto.NoBlockResponse{Height: vf18Huge[r.Intn(len(vf18Huge))]}}
	case 13:
		m.Sum = nil // empty Message
	case 14:
		pb.Header.Time = time.Unix(int64(vf18Huge[r.Intn(len(vf18Huge))]>>uint(r.Intn(40))), int64(r.Intn(2000000000)))
		m.Sum = &bcproto.Message_BlockResponse{BlockResponse: &bcproto.BlockResponse{Block: pb}}
	default:
		// a block whose hashes are recomputed after tampering so that it passes ValidateBasic
		hdr := b.Header()
		hdr.Height = uint64(1 + r.Intn(len(c.blocks)+2))
		hdr.LastCommitHash = common.Hash{}
		nb := types.NewBlock(hdr, b.Transactions(), b.LastCommit(), nil, trie.NewStackTrie(nil))
		npb, err := nb.ToProto()
		if err == nil {
			m.Sum = &bcproto.Message_BlockResponse{BlockResponse: &bcproto.BlockResponse{Block: npb}}
		}
	}
	var bz []byte
	func() {
		defer func() { _ = recover() }() // gogo Marshal of an out-of-range time may refuse
		bz, _ = proto.Marshal(&m)
	}()
	return bz
}

func (x *vf18Ctx) roundTrip(m proto.Message, kind string) []byte {
	bz, err := EncodeMsg(m)
	if err != nil {
		x.o.Viol("roundtrip/"+vf18BcName+"/"+kind, "EncodeMsg failed: "+err.Error())
		return nil
	}
	m2, err := DecodeMsg(bz)
	if err != nil {
		x.o.Viol("roundtrip/"+vf18BcName+"/"+kind, "DecodeMsg failed: "+err.Error()+" input="+vf18Short(bz))
		return bz
	}
	bz2, err := EncodeMsg(m2)
	if err != nil || !bytes.Equal(bz, bz2) || fmt.Sprintf("%T", m) != fmt.Sprintf("%T", m2) {
		x.o.Viol("roundtrip/"+vf18BcName+"/"+kind, fmt.Sprintf("re-encoding differs (%T -> %T): %s vs %s", m, m2, vf18Short(bz), vf18Short(bz2)))
		return bz
	}
	if br, ok := m2.(*bcproto.BlockResponse); ok {
		blk, err := types.BlockFromProto(br.Block, trie.NewStackTrie(nil))
		if err != nil {
			x.o.Viol("roundtrip/"+vf18BcName+"/"+kind+"/block", "BlockFromProto of an honest block failed: "+err.Error())
			return bz
		}
		pb2, err := blk.ToProto()
		var a, b []byte
		if err == nil {
			a, _ = proto.Marshal(br.Block)
			b, _ = proto.Marshal(pb2)
		}
		orig := m.(*bcproto.BlockResponse).Block
		if err != nil || !bytes.Equal(a, b) || !bytes.Equal(orig.Header.DataHash, blk.TxHash().Bytes()) {
			x.o.Viol("roundtrip/"+vf18BcName+"/"+kind+"/block", fmt.Sprintf("block changed by proto round trip: err=%v %s vs %s", err, vf18Short(a), vf18Short(b)))
		}
	}
	x.o.Stat("roundtrip/ok/" + kind)
	return bz
}

// probeStep runs one probe action under the watchdog.
func (x *vf18Ctx) probeStep(what string, f func() string) bool {
	var msg string
	res := vf18Call(func() { msg = f() })
	switch {
	case res.hung:
		x.o.Viol("health-probe-hang/"+vf18BcName+"/"+what, fmt.Sprintf("did not finish within %v (mode=%s)", vf18Deadline, x.modeS))
		x.o.w.Flush()
		x.hangs++
		x.n.dead = true
		return false
	case res.pan != nil:
		x.o.Viol("health-probe-failed/"+vf18BcName+"/"+what, fmt.Sprintf("panic: %v at %s (mode=%s)", res.pan, vf18Frame(res.stack), x.modeS))
		return false
	case msg != "":
		x.o.Viol("health-probe-failed/"+vf18BcName+"/"+what, msg+" (mode="+x.modeS+")")
		return false
	}
	return true
}

func vf18DecodeSent(sent [][]byte) (proto.Message, string) {
	if len(sent) != 1 {
		return nil, fmt.Sprintf("expected exactly one message sent to the peer, got %d", len(sent))
	}
	if sent[0][0] != BlockchainChannel {
		return nil, fmt.Sprintf("reply on channel 0x%02x", sent[0][0])
	}
	m, err := DecodeMsg(sent[0][1:])
	if err != nil {
		return nil, "reply does not decode: " + err.Error()
	}
	return m, ""
}

// probe checks that the reactor still serves normal traffic and that its write lock is free.
func (x *vf18Ctx) probe() {
	n := x.n
	if n.dead {
		return
	}
	x.o.Stat("probe/run")
	r := n.r
	c := x.c
	p := n.addPeer()
	enc := func(m proto.Message) []byte {
		bz, err := EncodeMsg(m)
		if err != nil {
			panic(err)
		}
		return bz
	}
	ok := x.probeStep("write-lock", func() string {
		h := r.SyncHeight()
		r.setSyncHeight(h)
		r.setMaxPeerHeight(0)
		return ""
	})
	ok = ok && x.probeStep("status-request", func() string {
		p.take()
		r.Receive(BlockchainChannel, p, enc(&bcproto.StatusRequest{}))
		m, e := vf18DecodeSent(p.take())
		if e != "" {
			return e
		}
		sr, isSR := m.(*bcproto.StatusResponse)
		if !isSR || sr.Height != n.store.Height() || sr.Base != n.store.Base() {
			return fmt.Sprintf("unexpected reply %T %v (store height %d)", m, m, n.store.Height())
		}
		return ""
	})
	ok = ok && x.probeStep("block-request-existing", func() string {
		p.take()
		r.Receive(BlockchainChannel, p, enc(&bcproto.BlockRequest{Height: 2}))
		m, e := vf18DecodeSent(p.take())
		if e != "" {
			return e
		}
		br, isBR := m.(*bcproto.BlockResponse)
		if !isBR {
			return fmt.Sprintf("unexpected reply %T", m)
		}
		blk, err := types.BlockFromProto(br.Block, trie.NewStackTrie(nil))
		if err != nil || blk.Hash() != c.blocks[1].Hash() {
			return fmt.Sprintf("served block 2 is wrong: err=%v", err)
		}
		return ""
	})
	ok = ok && x.probeStep("block-request-missing", func() string {
		p.take()
		want := n.store.Height() + 1000
		r.Receive(BlockchainChannel, p, enc(&bcproto.BlockRequest{Height: want}))
		m, e := vf18DecodeSent(p.take())
		if e != "" {
			return e
		}
		nb, isNB := m.(*bcproto.NoBlockResponse)
		if !isNB || nb.Height != want {
			return fmt.Sprintf("unexpected reply %T %v", m, m)
		}
		return ""
	})
	ok = ok && x.probeStep("responses-consumed", func() string {
		before := len(r.events)
		top := uint64(len(c.blocks))
		r.Receive(BlockchainChannel, p, enc(&bcproto.StatusResponse{Base: 1, Height: top}))
		r.Receive(BlockchainChannel, p, enc(&bcproto.NoBlockResponse{Height: top + 7}))
		pb, _ := c.blocks[len(c.blocks)-1].ToProto()
		r.Receive(BlockchainChannel, p, enc(&bcproto.BlockResponse{Block: pb}))
		if !p.IsRunning() || n.sw.Peers().Get(p.ID()) == nil {
			return "an honest peer was stopped for valid responses"
		}
		if n.sync && len(r.events)-before != 3 {
			return fmt.Sprintf("expected 3 queued events, got %d", len(r.events)-before)
		}
		if !n.sync && len(p.take()) != 0 {
			return "responses produced a reply"
		}
		return ""
	})
	if ok && !n.dead {
		x.pump(nil)
	}
	ok = ok && !n.dead && x.probeStep("write-lock", func() string {
		r.setSyncHeight(r.SyncHeight())
		r.setMaxPeerHeight(0)
		return ""
	})
	if ok {
		x.o.Stat("probe/ok")
	}
	if !n.dead {
		// the probe peer leaves again (takes the read lock in RemovePeer)
		x.probeStep("remove-peer", func() string { n.sw.StopPeerGracefully(p); return "" })
		x.pump(nil)
	}
}

// syncProgress: an honest peer alone must be able to finish the sync of a fresh node in sync
// mode; used once per run as a sanity check of the pump (so that the sync path is known to work).
func (x *vf18Ctx) syncProgress() {
	c := x.c
	x.fresh(true)
	n := x.n
	p := n.addPeer()
	enc := func(m proto.Message) []byte { bz, _ := EncodeMsg(m); return bz }
	top := uint64(len(c.blocks))
	x.feed(p, "valid", "sanity", enc(&bcproto.StatusResponse{Base: 1, Height: top}))
	for step := 0; step < 200 && !n.ended && !n.dead; step++ {
		for _, s := range p.take() {
			m, err := DecodeMsg(s[1:])
			if err != nil {
				continue
			}
			if rq, ok := m.(*bcproto.BlockRequest); ok && rq.Height >= 1 && rq.Height <= top {
				pb, _ := c.blocks[rq.Height-1].ToProto()
				time.Sleep(time.Microsecond)
				x.feed(p, "valid", "sanity", enc(&bcproto.BlockResponse{Block: pb}))
			}
		}
		x.pump(nil)
	}
	// the last block cannot be verified without its successor, so top-1 is the best possible
	if got := n.r.SyncHeight(); got+1 < top {
		x.o.Viol("health-probe-failed/"+vf18BcName+"/sync-progress", fmt.Sprintf("honest sync reached height %d of %d", got, top))
	} else {
		x.o.Stat("probe/sync-progress-ok")
	}
}

func TestVerifC18Blockchain(t *testing.T) {
	o := vfOpen()
	defer o.Close()
	runtime.GC()
	c := vf18MakeChain(9, 3)
	x := &vf18Ctx{o: o, c: c}

	// the fixed chain must itself be acceptable, otherwise nothing below means anything
	for _, b := range c.blocks {
		pb, err := b.ToProto()
		if err == nil {
			_, err = types.BlockFromProto(pb, trie.NewStackTrie(nil))
		}
		if err != nil {
			o.Viol("health-probe-failed/"+vf18BcName+"/fixture", fmt.Sprintf("block %d of the fixture chain is rejected: %v", b.Height(), err))
			return
		}
	}
	x.syncProgress()

	N := vfN(300)
	for i := 0; i < N; i++ {
		r := vfFork(vfSeed(), uint64(i))
		x.hit = false
		x.fresh(r.Chance(50))
		o.Stat("mode/" + x.modeS)
		h := sha256.New()
		p := x.n.addPeer()
		var hp *vf18Peer
		if x.n.sync && r.Chance(70) {
			// give the scheduler something to do: an honest peer announced the full chain
			hp = x.n.addPeer()
			bz, _ := EncodeMsg(&bcproto.StatusResponse{Base: 1, Height: uint64(len(c.blocks))})
			x.feed(hp, "valid", "announce", bz)
		}
		nmsg := 60 + r.Intn(60)
		sinceProbe := 0
		for k := 0; k < nmsg && x.hangs < vf18MaxHangs; k++ {
			if x.n.dead {
				x.fresh(x.modeS == "sync")
				p = x.n.addPeer()
			}
			if !p.IsRunning() {
				o.Stat("peer-stopped")
				p = x.n.addPeer()
			}
			var bz []byte
			stream, label := "", ""
			switch d := r.Intn(100); {
			case d < 25:
				stream = "random"
				l := r.Intn(300)
				if r.Chance(1) {
					l = 100000 + r.Intn(50000)
				}
				bz = r.Bytes(l)
				if r.Chance(30) && l > 2 {
					// make the envelope plausible: a known oneof tag and a length
					bz[0] = byte(r.Pick(0x0a, 0x12, 0x1a, 0x22, 0x2a))
					bz[1] = byte(r.Intn(l))
				}
			case d < 40:
				stream = "valid"
				m, kind := x.valid(r)
				bz = x.roundTrip(m, kind)
				label = kind
			case d < 55:
				stream = "mutated"
				bz = x.odd(r)
				label = "odd"
			default:
				stream = "mutated"
				m, _ := x.valid(r)
				v, _ := EncodeMsg(m)
				bz, label = vf18Mutate(r, v)
			}
			h.Write(bz)
			h.Write([]byte{0xff})
			before := p.IsRunning()
			x.feed(p, stream, label, bz)
			if before && !p.IsRunning() {
				o.Stat("peer-stopped/" + stream)
			}
			// the honest peer answers the scheduler's block requests, so that honest blocks reach
			// the processor in between the adversary's messages
			if hp != nil && hp.IsRunning() && x.n.sync && !x.n.dead && r.Chance(60) {
				for _, s := range hp.take() {
					if mm, err := DecodeMsg(s[1:]); err == nil {
						if rq, ok := mm.(*bcproto.BlockRequest); ok && rq.Height >= 1 && rq.Height <= uint64(len(c.blocks)) {
							pb, _ := c.blocks[rq.Height-1].ToProto()
							ans, _ := EncodeMsg(&bcproto.BlockResponse{Block: pb})
							time.Sleep(time.Microsecond)
							x.feed(hp, "valid", "answer", ans)
							o.Stat("valid/answered-request")
						}
					}
				}
			}
			if i < 3 && k < 4 {
				o.Sample(fmt.Sprintf("%s %s %s", stream, label, vf18Short(bz)))
			}
			sinceProbe++
			if sinceProbe >= 20 && !x.n.dead {
				x.probe()
				sinceProbe = 0
			}
		}
		if !x.n.dead {
			x.probe()
		}
		o.Case(hex.EncodeToString(h.Sum(nil)), x.hit)
		if x.hangs >= vf18MaxHangs {
			o.Stat("aborted-after-hangs")
			break
		}
	}
}
