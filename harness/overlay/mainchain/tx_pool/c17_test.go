package tx_pool

// C17 harness: (a) differential of txList against the Lean model `txpool` (list level) with the
// list-level oracle (caps dominate members, Filter sound, replacement rule, Ready gap-free);
// (b) random op sequences on a real TxPool over a fake chain, driven through its synchronous
// entry points, refinement-checked against the Lean pool model and checked by the oracle written
// from the property statement.

import (
	"crypto/ecdsa"
	"errors"
	"fmt"
	"io"
	"math/big"
	"os"
	"path/filepath"
	"sort"
	"strings"
	"testing"
	"time"

	"github.com/kardiachain/go-kardia/configs"
	"github.com/kardiachain/go-kardia/kai/events"
	"github.com/kardiachain/go-kardia/kai/kaidb/memorydb"
	"github.com/kardiachain/go-kardia/kai/state"
	"github.com/kardiachain/go-kardia/lib/common"
	"github.com/kardiachain/go-kardia/lib/crypto"
	"github.com/kardiachain/go-kardia/lib/event"
	"github.com/kardiachain/go-kardia/lib/rlp"
	"github.com/kardiachain/go-kardia/trie"
	"github.com/kardiachain/go-kardia/types"
)

const vfModel = "txpool"

// ---------------------------------------------------------------------------- transactions

type vfTx struct {
	id     int
	sender int
	nonce  uint64
	price  int64
	gas    uint64
	value  int64
	slots  int
	size   int
	neg    bool
	sigOk  bool
	igas   uint64
	tx     *types.Transaction
}

func (t *vfTx) spec() string {
	b := func(x bool) int {
		if x {
			return 1
		}
		return 0
	}
	v := t.value
	if v < 0 {
		v = -v
	}
	return fmt.Sprintf("t=%d:%d:%d:%d:%d:%d:%d:%d:%d:%d:%d", t.id, t.sender, t.nonce, t.price, t.gas, v, t.slots, t.size, b(t.neg), b(t.sigOk), t.igas)
}

func (t *vfTx) cost() *big.Int {
	c := new(big.Int).Mul(big.NewInt(t.price), new(big.Int).SetUint64(t.gas))
	return c.Add(c, big.NewInt(t.value))
}

func vfIds(txs []*vfTx) string {
	if len(txs) == 0 {
		return "-"
	}
	p := make([]string, len(txs))
	for i, t := range txs {
		p[i] = fmt.Sprint(t.id)
	}
	return strings.Join(p, ",")
}

// ---------------------------------------------------------------------------- list level

func vfListText(l *txList, idOf map[*types.Transaction]*vfTx) string {
	flat := l.Flatten()
	v := make([]*vfTx, len(flat))
	for i, tx := range flat {
		v[i] = idOf[tx]
	}
	return fmt.Sprintf("ids=%s cc=%s gc=%d", vfIds(v), l.costcap.String(), l.gascap)
}

func vfMapTxs(txs types.Transactions, idOf map[*types.Transaction]*vfTx, sortByNonce bool) []*vfTx {
	v := make([]*vfTx, len(txs))
	for i, tx := range txs {
		v[i] = idOf[tx]
	}
	if sortByNonce {
		sort.SliceStable(v, func(i, j int) bool { return v[i].nonce < v[j].nonce })
	}
	return v
}

// list-level oracle: the cached caps dominate every member; the list is a nonce-indexed map.
func vfListOracle(o *vfOut, l *txList, idOf map[*types.Transaction]*vfTx, ctx string) {
	flat := l.Flatten()
	for i, tx := range flat {
		if tx.Cost().Cmp(l.costcap) > 0 {
			o.Viol("txlist-costcap-below-member", fmt.Sprintf("%s: tx %d cost %s costcap %s", ctx, idOf[tx].id, tx.Cost(), l.costcap))
		}
		if tx.Gas() > l.gascap {
			o.Viol("txlist-gascap-below-member", fmt.Sprintf("%s: tx %d gas %d gascap %d", ctx, idOf[tx].id, tx.Gas(), l.gascap))
		}
		if i > 0 && flat[i-1].Nonce() >= tx.Nonce() {
			o.Viol("txlist-not-nonce-sorted", ctx)
		}
	}
	if len(flat) != l.Len() {
		o.Viol("txlist-len-mismatch", ctx)
	}
}

func vfListCase(o *vfOut, r *vfRand, idx int) {
	strict := r.Bool()
	l := newTxList(strict)
	idOf := map[*types.Transaction]*vfTx{}
	nextID := 1
	o.Op(vfModel, fmt.Sprintf("case list %d", idx), "ok")
	o.Op(vfModel, fmt.Sprintf("l.new strict=%d", map[bool]int{false: 0, true: 1}[strict]), "ok")
	nops := 12 + r.Intn(30)
	nonceSpan := uint64(r.Pick(4, 6, 9))
	key := fmt.Sprintf("list:%v:", strict)
	for k := 0; k < nops; k++ {
		ctx := fmt.Sprintf("list case %d op %d", idx, k)
		switch c := r.Intn(100); {
		case c < 50: // Add
			n := uint64(r.Intn(int(nonceSpan)))
			price := int64(r.Pick(1, 2, 3, 9, 10, 11, 12, 19, 20, 21, 22, 23, 100, 109, 110, 111))
			gas := uint64(r.Pick(10, 20, 30, 50, 100))
			value := int64(r.Intn(40))
			bump := uint64(r.Pick(10, 10, 1, 5, 25, 100))
			if old := l.txs.Get(n); old != nil && r.Chance(60) {
				// aim at the threshold of the transaction in place
				op := old.GasPrice().Int64()
				th := op * int64(100+bump) / 100
				price = r.Pick64(op-1, op, op+1, th-1, th, th+1)
				if price < 0 {
					price = 0
				}
			}
			t := &vfTx{id: nextID, nonce: n, price: price, gas: gas, value: value, slots: 1, size: 100, sigOk: true}
			nextID++
			t.tx = types.NewTransaction(n, common.Address{}, big.NewInt(value), gas, big.NewInt(price), nil)
			idOf[t.tx] = t
			old := l.txs.Get(n)
			before := vfListText(l, idOf)
			ins, repl := l.Add(t.tx, bump)
			oldS := "-"
			if repl != nil {
				oldS = fmt.Sprint(idOf[repl].id)
			}
			o.Op(vfModel, fmt.Sprintf("l.add %s bump=%d", t.spec(), bump), fmt.Sprintf("ins=%d old=%s | %s", map[bool]int{false: 0, true: 1}[ins], oldS, vfListText(l, idOf)))
			// oracle: replacement rule, computed independently
			if old != nil {
				oldP := old.GasPrice()
				th := new(big.Int).Mul(oldP, big.NewInt(int64(100+bump)))
				// price >= old*(100+bump)/100 (floor)  and  price > old
				th.Div(th, big.NewInt(100))
				want := big.NewInt(price).Cmp(th) >= 0 && big.NewInt(price).Cmp(oldP) > 0
				if ins != want {
					o.Viol("txlist-replace-rule", fmt.Sprintf("%s: old price %s new %d bump %d inserted=%v", ctx, oldP, price, bump, ins))
				}
				if ins && (repl != old || l.txs.Get(n) != t.tx) {
					o.Viol("txlist-replace-wrong-result", ctx)
				}
				if !ins && (vfListText(l, idOf) != before || repl != nil) {
					o.Viol("txlist-rejected-add-changed-list", ctx)
				}
				o.Stat(fmt.Sprintf("list.add.replace.%v", ins))
				key += fmt.Sprintf("r%v", ins)
			} else {
				if !ins || repl != nil || l.txs.Get(n) != t.tx {
					o.Viol("txlist-fresh-add-failed", ctx)
				}
				o.Stat("list.add.fresh")
				key += "a"
			}
		case c < 60: // Forward
			th := uint64(r.Intn(int(nonceSpan) + 1))
			rm := l.Forward(th)
			o.Op(vfModel, fmt.Sprintf("l.fwd th=%d", th), fmt.Sprintf("rm=%s | %s", vfIds(vfMapTxs(rm, idOf, false)), vfListText(l, idOf)))
			for _, tx := range l.Flatten() {
				if tx.Nonce() < th {
					o.Viol("txlist-forward-left-low-nonce", ctx)
				}
			}
			o.Stat("list.forward")
			key += fmt.Sprintf("f%d", len(rm))
		case c < 75: // Filter
			var costLimit int64
			var gasLimit uint64
			if r.Chance(50) && l.Len() > 0 {
				// aim around a member's cost / gas
				m := l.Flatten()[r.Intn(l.Len())]
				costLimit = m.Cost().Int64() + int64(r.Pick(-1, 0, 1))
				gasLimit = uint64(int64(m.Gas()) + int64(r.Pick(-1, 0, 0, 1, 1000)))
			} else {
				costLimit = int64(r.Pick(0, 50, 200, 1000, 3000, 20000))
				gasLimit = uint64(r.Pick(0, 10, 20, 50, 100, 1000))
			}
			if costLimit < 0 {
				costLimit = 0
			}
			hadGapFree := vfGapFree(l.Flatten())
			rm, inv := l.Filter(big.NewInt(costLimit), gasLimit)
			o.Op(vfModel, fmt.Sprintf("l.filter c=%d g=%d", costLimit, gasLimit),
				fmt.Sprintf("rm=%s inv=%s | %s", vfIds(vfMapTxs(rm, idOf, true)), vfIds(vfMapTxs(inv, idOf, true)), vfListText(l, idOf)))
			// oracle: Filter is sound (this is where a stale cap would show)
			for _, tx := range l.Flatten() {
				if tx.Cost().Cmp(big.NewInt(costLimit)) > 0 || tx.Gas() > gasLimit {
					o.Viol("txlist-filter-left-unpayable", fmt.Sprintf("%s: tx %d cost %s gas %d limits %d/%d", ctx, idOf[tx].id, tx.Cost(), tx.Gas(), costLimit, gasLimit))
				}
				if strict {
					for _, x := range rm {
						if tx.Nonce() > x.Nonce() {
							o.Viol("txlist-strict-filter-left-gap", ctx)
						}
					}
				}
			}
			if strict && hadGapFree && !vfGapFree(l.Flatten()) {
				o.Viol("txlist-strict-filter-broke-run", ctx)
			}
			o.Stat(fmt.Sprintf("list.filter.rm%d", vfMin(len(rm), 3)))
			key += fmt.Sprintf("F%d.%d", len(rm), len(inv))
		case c < 82: // Cap
			k := r.Intn(int(nonceSpan))
			rm := l.Cap(k)
			o.Op(vfModel, fmt.Sprintf("l.cap k=%d", k), fmt.Sprintf("rm=%s | %s", vfIds(vfMapTxs(rm, idOf, false)), vfListText(l, idOf)))
			if l.Len() > k {
				o.Viol("txlist-cap-exceeded", ctx)
			}
			o.Stat("list.cap")
			key += fmt.Sprintf("c%d", len(rm))
		case c < 92: // Remove
			n := uint64(r.Intn(int(nonceSpan)))
			probe := types.NewTransaction(n, common.Address{}, big.NewInt(0), 0, big.NewInt(0), nil)
			found, inv := l.Remove(probe)
			o.Op(vfModel, fmt.Sprintf("l.remove n=%d", n), fmt.Sprintf("found=%d inv=%s | %s", map[bool]int{false: 0, true: 1}[found], vfIds(vfMapTxs(inv, idOf, true)), vfListText(l, idOf)))
			if strict && found {
				for _, tx := range l.Flatten() {
					if tx.Nonce() > n {
						o.Viol("txlist-strict-remove-left-gap", ctx)
					}
				}
			}
			o.Stat(fmt.Sprintf("list.remove.%v", found))
			key += fmt.Sprintf("x%v%d", found, len(inv))
		default: // Ready
			start := uint64(r.Intn(int(nonceSpan)))
			if r.Chance(50) {
				l2 := l.Forward(start)
				o.Op(vfModel, fmt.Sprintf("l.fwd th=%d", start), fmt.Sprintf("rm=%s | %s", vfIds(vfMapTxs(l2, idOf, false)), vfListText(l, idOf)))
			}
			lowest := uint64(1 << 62)
			for _, tx := range l.Flatten() {
				if tx.Nonce() < lowest {
					lowest = tx.Nonce()
				}
			}
			rd := l.Ready(start)
			o.Op(vfModel, fmt.Sprintf("l.ready s=%d", start), fmt.Sprintf("rd=%s | %s", vfIds(vfMapTxs(rd, idOf, false)), vfListText(l, idOf)))
			// oracle: gap-free run from the lowest nonce (<= start); maximal
			for i, tx := range rd {
				if tx.Nonce() != lowest+uint64(i) {
					o.Viol("txlist-ready-not-gapfree", ctx)
				}
			}
			if len(rd) > 0 && lowest > start {
				o.Viol("txlist-ready-above-start", ctx)
			}
			if len(rd) > 0 && l.txs.Get(lowest+uint64(len(rd))) != nil {
				o.Viol("txlist-ready-not-maximal", ctx)
			}
			if len(rd) == 0 && l.Len() > 0 && lowest <= start {
				o.Viol("txlist-ready-missed-run", ctx)
			}
			o.Stat(fmt.Sprintf("list.ready.%d", vfMin(len(rd), 3)))
			key += fmt.Sprintf("R%d", len(rd))
		}
		vfListOracle(o, l, idOf, ctx)
	}
	o.Case(key, true)
}

func vfGapFree(txs types.Transactions) bool {
	for i := 1; i < len(txs); i++ {
		if txs[i].Nonce() != txs[i-1].Nonce()+1 {
			return false
		}
	}
	return true
}

func vfMin(a, b int) int {
	if a < b {
		return a
	}
	return b
}

func (r *vfRand) Pick64(xs ...int64) int64 { return xs[r.Intn(len(xs))] }

// ---------------------------------------------------------------------------- pool level

type vfChain struct {
	statedb  *state.StateDB
	gasLimit uint64
	feed     *event.Feed
	head     *types.Block                 // set by the reorganisation op only
	blocks   map[common.Hash]*types.Block // real blocks known to GetBlock (reorganisation op only)
}

func (bc *vfChain) CurrentBlock() *types.Block {
	if bc.head != nil {
		return bc.head
	}
	return types.NewBlock(&types.Header{GasLimit: bc.gasLimit}, nil, nil, nil, trie.NewStackTrie(nil))
}
func (bc *vfChain) GetBlock(hash common.Hash, number uint64) *types.Block {
	if b, ok := bc.blocks[hash]; ok && b.Height() == number {
		return b
	}
	return bc.CurrentBlock()
}
func (bc *vfChain) StateAt(height uint64) (*state.StateDB, error)        { return bc.statedb, nil }
func (bc *vfChain) SubscribeChainHeadEvent(ch chan<- events.ChainHeadEvent) event.Subscription {
	return bc.feed.Subscribe(ch)
}

var vfKeys []*ecdsa.PrivateKey
var vfAddrs []common.Address

func vfInitKeys() {
	if vfKeys != nil {
		return
	}
	for i := 0; i < 4; i++ {
		b := make([]byte, 32)
		for j := range b {
			b[j] = byte(0x11*(i+1) + j)
		}
		k, err := crypto.ToECDSA(b)
		if err != nil {
			panic(err)
		}
		vfKeys = append(vfKeys, k)
		vfAddrs = append(vfAddrs, crypto.PubkeyToAddress(k.PublicKey))
	}
}

type vfSnap struct {
	pending map[int][]*vfTx
	queued  map[int][]*vfTx
	nonces  []uint64
	np, nq  int
	text    string
}

type vfPoolCase struct {
	o      *vfOut
	r      *vfRand
	idx    int
	nAcc   int
	cfg    TxPoolConfig
	chain  *vfChain
	pool   *TxPool
	nonces []uint64 // chain state the pool currently sees
	bals   []int64
	byHash map[common.Hash]*vfTx
	txs    []*vfTx
	nextID int
	unsettled bool
	lastFloor int64
	gapExempt []bool // set by reorgRun only, see there
	opn    int
	key    strings.Builder
}

func (c *vfPoolCase) newState() {
	db, _ := state.New(common.Hash{}, state.NewDatabase(memorydb.New()), nil)
	for a := 0; a < c.nAcc; a++ {
		db.SetNonce(vfAddrs[a], c.nonces[a])
		db.SetBalance(vfAddrs[a], big.NewInt(c.bals[a]))
	}
	c.chain.statedb = db
}

const vfBaseGas = 29000 // configs.TxGasLegacy: the fake head is far below the Galaxias fork

// mk builds and signs a transaction. kind of signature: 0 chain-id signer of the pool, 1 homestead
// (unprotected, accepted), 2 foreign chain id, 3 unsigned.
func (c *vfPoolCase) mk(sender int, nonce uint64, price int64, gas uint64, extraValue int64, dataLen int, sig int, neg bool) *vfTx {
	id := c.nextID
	c.nextID++
	value := int64(id) + extraValue // unique value => unique hash
	if neg {
		value = -value
	}
	neg = value < 0 // an "unaffordable" extra value may be negative as well
	var data []byte
	if dataLen > 0 {
		data = make([]byte, dataLen) // zero bytes: 4 gas each
	}
	var tx *types.Transaction
	for {
		raw := types.NewTransaction(nonce, common.Address{0xaa}, big.NewInt(value), gas, big.NewInt(price), data)
		var err error
		switch sig {
		case 0:
			tx, err = types.SignTx(types.NewChainIDSigner(configs.TestChainConfig.ChainID), raw, vfKeys[sender])
		case 1:
			tx, err = types.SignTx(types.HomesteadSigner{}, raw, vfKeys[sender])
		case 2:
			tx, err = types.SignTx(types.NewChainIDSigner(big.NewInt(7)), raw, vfKeys[sender])
		default:
			tx = raw
		}
		if err != nil {
			panic(err)
		}
		// (a negative value cannot be RLP-encoded: all such transactions share one hash; they are
		// rejected by validateTx and never enter the pool)
		if _, clash := c.byHash[tx.Hash()]; !clash || value < 0 {
			break
		}
		// same fields as an earlier transaction (id + extra value coincided): move the value
		value += 1 << 20
	}
	size := int(tx.Size())
	t := &vfTx{id: id, sender: sender, nonce: nonce, price: price, gas: gas, value: value, neg: neg,
		size: size, slots: (size + 32*1024 - 1) / (32 * 1024), sigOk: sig <= 1,
		igas: vfBaseGas + 4*uint64(dataLen), tx: tx}
	c.byHash[tx.Hash()] = t
	c.txs = append(c.txs, t)
	return t
}

func vfErrName(err error) string {
	switch {
	case err == nil:
		return "-"
	case errors.Is(err, ErrAlreadyKnown):
		return "known"
	case errors.Is(err, ErrInvalidSender):
		return "sender"
	case errors.Is(err, ErrOversizedData):
		return "oversized"
	case errors.Is(err, ErrNegativeValue):
		return "negative"
	case errors.Is(err, ErrGasLimit):
		return "gaslimit"
	case errors.Is(err, ErrUnderpriced):
		return "underpriced"
	case errors.Is(err, ErrNonceTooLow):
		return "noncelow"
	case errors.Is(err, ErrInsufficientFunds):
		return "funds"
	case errors.Is(err, ErrIntrinsicGas):
		return "intrinsic"
	case errors.Is(err, ErrReplaceUnderpriced):
		return "replace"
	case errors.Is(err, ErrTxPoolOverflow):
		return "overflow"
	}
	return "other"
}

func (c *vfPoolCase) mapContent(m map[common.Address]types.Transactions, what string) map[int][]*vfTx {
	out := map[int][]*vfTx{}
	for addr, txs := range m {
		a := -1
		for i := range vfAddrs {
			if vfAddrs[i] == addr {
				a = i
			}
		}
		if a < 0 || a >= c.nAcc {
			c.o.Viol("pool-unknown-account-in-"+what, addr.Hex())
			continue
		}
		for _, tx := range txs {
			t := c.byHash[tx.Hash()]
			if t == nil {
				c.o.Viol("pool-unknown-tx-in-"+what, tx.Hash().Hex())
				continue
			}
			out[a] = append(out[a], t)
		}
	}
	return out
}

func vfContentText(m map[int][]*vfTx) string {
	if len(m) == 0 {
		return "-"
	}
	keys := make([]int, 0, len(m))
	for a := range m {
		keys = append(keys, a)
	}
	sort.Ints(keys)
	parts := make([]string, len(keys))
	for i, a := range keys {
		parts[i] = fmt.Sprintf("%d:%s", a, vfIds(m[a]))
	}
	return strings.Join(parts, ";")
}

func (c *vfPoolCase) snap() *vfSnap { return c.snapOf(c.pool) }

func (c *vfPoolCase) snapOf(pool *TxPool) *vfSnap {
	p, q := pool.Content()
	s := &vfSnap{pending: c.mapContent(p, "pending"), queued: c.mapContent(q, "queue")}
	s.np, s.nq = pool.Stats()
	ns := make([]string, c.nAcc)
	for a := 0; a < c.nAcc; a++ {
		n := pool.Nonce(vfAddrs[a])
		s.nonces = append(s.nonces, n)
		ns[a] = fmt.Sprint(n)
	}
	s.text = fmt.Sprintf("P=%s Q=%s N=%s S=%d/%d", vfContentText(s.pending), vfContentText(s.queued), strings.Join(ns, ","), s.np, s.nq)
	c.views(pool, p, q)
	return s
}

// views: what the block producer is offered (Pending, GetPendingData, PendingSize) and the
// per-account / per-hash views (ContentFrom, Has, Get) are the same content as Content()
func (c *vfPoolCase) views(pool *TxPool, p, q map[common.Address]types.Transactions) {
	hashes := func(l types.Transactions) string {
		parts := make([]string, len(l))
		for i, tx := range l {
			h := tx.Hash()
			parts[i] = fmt.Sprintf("%d:%x", tx.Nonce(), h[:3])
		}
		return strings.Join(parts, ",")
	}
	pend, err := pool.Pending()
	if err != nil {
		c.o.Viol("pool-pending-error", err.Error())
		return
	}
	total := 0
	for addr, l := range p {
		total += len(l)
		if hashes(pend[addr]) != hashes(l) {
			c.o.Viol("pool-pending-differs-from-content", fmt.Sprintf("account %s: Pending()=[%s] Content()=[%s]", addr.Hex()[:10], hashes(pend[addr]), hashes(l)))
			return
		}
	}
	for addr, l := range pend {
		if len(l) > 0 && len(p[addr]) == 0 {
			c.o.Viol("pool-pending-differs-from-content", fmt.Sprintf("account %s: Pending()=[%s] Content() has none", addr.Hex()[:10], hashes(l)))
			return
		}
	}
	if n := pool.PendingSize(); n != total {
		c.o.Viol("pool-pending-differs-from-content", fmt.Sprintf("PendingSize()=%d, Content() holds %d pending", n, total))
	}
	if d := pool.GetPendingData(); len(d) != total {
		c.o.Viol("pool-pending-differs-from-content", fmt.Sprintf("GetPendingData() returns %d, Content() holds %d pending", len(d), total))
	} else {
		for _, tx := range d {
			from, _ := types.Sender(pool.signer, tx)
			found := false
			for _, x := range p[from] {
				if x.Hash() == tx.Hash() {
					found = true
				}
			}
			if !found {
				c.o.Viol("pool-pending-differs-from-content", fmt.Sprintf("GetPendingData() offers %x which is not pending in Content()", tx.Hash().Bytes()[:4]))
				break
			}
		}
	}
	for a := 0; a < c.nAcc; a++ {
		addr := vfAddrs[a]
		cp, cq := pool.ContentFrom(addr)
		if hashes(cp) != hashes(p[addr]) || hashes(cq) != hashes(q[addr]) {
			c.o.Viol("pool-contentfrom-differs-from-content", fmt.Sprintf("account %d: ContentFrom=[%s]/[%s] Content=[%s]/[%s]", a, hashes(cp), hashes(cq), hashes(p[addr]), hashes(q[addr])))
			return
		}
	}
	for _, m := range []map[common.Address]types.Transactions{p, q} {
		for _, l := range m {
			for _, tx := range l {
				if !pool.Has(tx.Hash()) || pool.Get(tx.Hash()) == nil || pool.Get(tx.Hash()).Hash() != tx.Hash() {
					c.o.Viol("pool-listed-tx-not-indexed", fmt.Sprintf("%x is in Content() but Has/Get do not know it", tx.Hash().Bytes()[:4]))
					return
				}
			}
		}
	}
}

func (s *vfSnap) where(t *vfTx) string {
	for _, x := range s.pending[t.sender] {
		if x == t {
			return "pending"
		}
	}
	for _, x := range s.queued[t.sender] {
		if x == t {
			return "queued"
		}
	}
	return "unknown"
}

func (s *vfSnap) allTxs() []*vfTx {
	var out []*vfTx
	for _, l := range s.pending {
		out = append(out, l...)
	}
	for _, l := range s.queued {
		out = append(out, l...)
	}
	sort.Slice(out, func(i, j int) bool { return out[i].id < out[j].id })
	return out
}

func (s *vfSnap) at(sender int, nonce uint64) *vfTx {
	for _, x := range s.pending[sender] {
		if x.nonce == nonce {
			return x
		}
	}
	for _, x := range s.queued[sender] {
		if x.nonce == nonce {
			return x
		}
	}
	return nil
}

func (c *vfPoolCase) isLocal(a int) bool {
	c.pool.mu.RLock()
	defer c.pool.mu.RUnlock()
	return c.pool.locals.contains(vfAddrs[a])
}

// invariants is the oracle of the state clauses of C17, evaluated on the real pool through its
// public accessors (plus the lookup index and the locals set, which have no public accessor).
// reorged says the operation ended with a reorg run (limits are enforced there).
func (c *vfPoolCase) invariants(before, s *vfSnap, reorged bool, localBefore []bool, ctx string) {
	o := c.o
	gasLimit := c.chain.gasLimit
	// per sender: pending gap-free from the state nonce, affordable, within the block gas limit
	for a, l := range s.pending {
		if len(l) == 0 {
			o.Viol("pool-empty-pending-entry", ctx)
		}
		exempt := c.gapExempt != nil && c.gapExempt[a]
		for i, t := range l {
			if exempt {
				break
			}
			if t.nonce != c.nonces[a]+uint64(i) {
				o.Viol("pool-pending-not-gapfree-from-state-nonce", fmt.Sprintf("%s: account %d state nonce %d position %d holds nonce %d (tx %d)", ctx, a, c.nonces[a], i, t.nonce, t.id))
				break
			}
		}
		for _, t := range l {
			if t.cost().Cmp(big.NewInt(c.bals[a])) > 0 {
				o.Viol("pool-pending-unaffordable", fmt.Sprintf("%s: account %d balance %d tx %d cost %s", ctx, a, c.bals[a], t.id, t.cost()))
			}
			if t.gas > gasLimit {
				o.Viol("pool-pending-above-block-gas-limit", fmt.Sprintf("%s: tx %d gas %d limit %d", ctx, t.id, t.gas, gasLimit))
			}
			if !t.sigOk || t.neg {
				o.Viol("pool-pending-invalid-tx", fmt.Sprintf("%s: tx %d", ctx, t.id))
			}
		}
		if s.nonces[a] != c.nonces[a]+uint64(len(l)) && !exempt {
			o.Viol("pool-nonce-not-after-pending", fmt.Sprintf("%s: account %d Nonce()=%d state %d pending %d", ctx, a, s.nonces[a], c.nonces[a], len(l)))
		}
	}
	for a := 0; a < c.nAcc; a++ {
		if len(s.pending[a]) == 0 && s.nonces[a] != c.nonces[a] {
			o.Viol("pool-nonce-not-state-nonce-without-pending", fmt.Sprintf("%s: account %d Nonce()=%d state %d", ctx, a, s.nonces[a], c.nonces[a]))
		}
	}
	// no transaction both pending and queued; nothing below the state nonce
	seen := map[int]string{}
	for a, l := range s.pending {
		for _, t := range l {
			if _, dup := seen[t.id]; dup {
				o.Viol("pool-tx-listed-twice", fmt.Sprintf("%s: tx %d", ctx, t.id))
			}
			seen[t.id] = "pending"
			if t.sender != a {
				o.Viol("pool-tx-under-wrong-account", ctx)
			}
			if t.nonce < c.nonces[a] {
				o.Viol("pool-stale-nonce-remains", fmt.Sprintf("%s: pending tx %d nonce %d state %d", ctx, t.id, t.nonce, c.nonces[a]))
			}
		}
	}
	for a, l := range s.queued {
		if len(l) == 0 {
			o.Viol("pool-empty-queue-entry", ctx)
		}
		for i, t := range l {
			if w, dup := seen[t.id]; dup {
				o.Viol("pool-tx-both-"+w+"-and-queued", fmt.Sprintf("%s: tx %d", ctx, t.id))
			}
			seen[t.id] = "queued"
			if t.sender != a {
				o.Viol("pool-tx-under-wrong-account", ctx)
			}
			if t.nonce < c.nonces[a] {
				o.Viol("pool-stale-nonce-remains", fmt.Sprintf("%s: queued tx %d nonce %d state %d", ctx, t.id, t.nonce, c.nonces[a]))
			}
			if i > 0 && l[i-1].nonce >= t.nonce {
				o.Viol("pool-queue-not-nonce-sorted", ctx)
			}
			for _, pt := range s.pending[a] {
				if pt.nonce == t.nonce {
					o.Stat("pool.same-nonce-pending-and-queued")
				}
			}
		}
	}
	// `all` = pending ⊎ queue
	indexed := map[int]bool{}
	slots := 0
	remoteSlots := 0
	localOf := map[int]bool{}
	c.pool.all.Range(func(h common.Hash, tx *types.Transaction, local bool) bool {
		t := c.byHash[h]
		if t == nil {
			o.Viol("pool-unknown-tx-in-index", ctx)
			return true
		}
		if indexed[t.id] {
			o.Viol("pool-tx-indexed-twice", fmt.Sprintf("%s: tx %d", ctx, t.id))
		}
		indexed[t.id] = true
		localOf[t.id] = local
		slots += t.slots
		if !local {
			remoteSlots += t.slots
		}
		if _, ok := seen[t.id]; !ok {
			o.Viol("pool-indexed-tx-in-no-list", fmt.Sprintf("%s: tx %d", ctx, t.id))
		}
		return true
	}, true, true)
	for id := range seen {
		if !indexed[id] {
			o.Viol("pool-listed-tx-not-indexed", fmt.Sprintf("%s: tx %d", ctx, id))
		}
	}
	if slots != c.pool.all.Slots() {
		o.Viol("pool-slot-count-wrong", fmt.Sprintf("%s: Slots()=%d sum=%d", ctx, c.pool.all.Slots(), slots))
	}
	if s.np+s.nq != len(seen) {
		o.Viol("pool-stats-mismatch", ctx)
	}
	// Status agrees with Content for every transaction ever created
	hashes := make([]common.Hash, len(c.txs))
	for i, t := range c.txs {
		hashes[i] = t.tx.Hash()
	}
	for i, st := range c.pool.Status(hashes) {
		want := map[string]TxStatus{"pending": TxStatusPending, "queued": TxStatusQueued, "unknown": TxStatusUnknown}[s.where(c.txs[i])]
		if st != want {
			o.Viol("pool-status-disagrees-with-content", fmt.Sprintf("%s: tx %d status %d want %d", ctx, c.txs[i].id, st, want))
		}
	}
	// limits, in the sense the code gives them
	local := make([]bool, c.nAcc)
	for a := range local {
		local[a] = c.isLocal(a)
	}
	limit := int(c.cfg.GlobalSlots + c.cfg.GlobalQueue)
	if remoteSlots > limit {
		o.Viol("pool-remote-slots-above-global-limit", fmt.Sprintf("%s: remote slots %d limit %d", ctx, remoteSlots, limit))
	}
	for id, loc := range localOf {
		t := c.txs[id-1]
		if loc != local[t.sender] {
			// (a local submission that replaces a pending transaction is tracked as local without
			// its account being marked local; the statement is silent about it)
			o.Stat("pool.local-flag-differs-from-account")
		}
	}
	nonLocalQueued := 0
	for a, l := range s.queued {
		if local[a] {
			continue
		}
		nonLocalQueued += len(l)
		// a non-local account's queue grows beyond AccountQueue only by demotion
		demoted := 0
		if before != nil {
			for _, t := range l {
				if before.where(t) == "pending" {
					demoted++
					continue
				}
				// ... or it replaced, in the queue, a transaction of the same nonce that was pending before
				// and had just been demoted in the same operation (the pool was full, Discard evicted a
				// cheaper lower nonce of this account, the higher one fell back to the queue and was then
				// outbid): found by the thorough tier, seed 2
				if before.where(t) == "unknown" {
					for _, x := range before.pending[a] {
						if x.nonce == t.nonce {
							demoted++
							break
						}
					}
				}
			}
		}
		prev := 0
		if before != nil {
			prev = len(before.queued[a])
		}
		bound := int(c.cfg.AccountQueue)
		if prev > bound {
			bound = prev
		}
		if len(l) > bound+demoted {
			o.Viol("pool-account-queue-limit", fmt.Sprintf("%s: account %d queued %d AccountQueue %d before %d demoted %d", ctx, a, len(l), c.cfg.AccountQueue, prev, demoted))
		}
		if len(l) > int(c.cfg.AccountQueue) {
			o.Stat("pool.account-queue-above-limit-by-demotion")
		}
	}
	if reorged {
		if s.nq > int(c.cfg.GlobalQueue) && nonLocalQueued > 0 {
			o.Viol("pool-global-queue-limit", fmt.Sprintf("%s: queued %d (non-local %d) GlobalQueue %d", ctx, s.nq, nonLocalQueued, c.cfg.GlobalQueue))
		}
		if s.np > int(c.cfg.GlobalSlots) {
			for a, l := range s.pending {
				if !local[a] && len(l) > int(c.cfg.AccountSlots) {
					o.Viol("pool-pending-limit", fmt.Sprintf("%s: pending %d GlobalSlots %d account %d holds %d > AccountSlots %d", ctx, s.np, c.cfg.GlobalSlots, a, len(l), c.cfg.AccountSlots))
				}
			}
			o.Stat("pool.pending-above-globalslots(soft)")
		}
	}
	_ = localBefore
}

// vanished returns the transactions of `before` that are not in `after`.
func vfVanished(before, after *vfSnap) []*vfTx {
	var out []*vfTx
	for _, t := range before.allTxs() {
		if after.where(t) == "unknown" {
			out = append(out, t)
		}
	}
	return out
}

func (c *vfPoolCase) bumpOK(old, t *vfTx) bool {
	th := new(big.Int).Mul(big.NewInt(old.price), big.NewInt(int64(100+c.cfg.PriceBump)))
	th.Div(th, big.NewInt(100))
	return big.NewInt(t.price).Cmp(th) >= 0 && t.price > old.price
}

// submit runs AddLocals / AddRemotesSync with the transition oracle.
func (c *vfPoolCase) submit(txs []*vfTx, local bool) {
	o := c.o
	ctx := fmt.Sprintf("pool case %d op %d add local=%v %s", c.idx, c.opn, local, vfIds(txs))
	before := c.snap()
	localBefore := make([]bool, c.nAcc)
	for a := range localBefore {
		localBefore[a] = c.isLocal(a)
	}
	slotsBefore := c.pool.all.Slots()
	raw := make([]*types.Transaction, len(txs))
	specs := make([]string, len(txs))
	for i, t := range txs {
		raw[i] = t.tx
		specs[i] = t.spec()
	}
	var errs []error
	if vfGuard(o, "pool-panic-in-add", func() string { return ctx }, func() {
		if local {
			errs = c.pool.AddLocals(raw)
		} else {
			errs = c.pool.AddRemotesSync(raw)
		}
	}) {
		return
	}
	after := c.snap()
	names := make([]string, len(errs))
	reorged := false
	for i, e := range errs {
		names[i] = vfErrName(e)
		if names[i] == "other" {
			o.Viol("pool-unexpected-error", fmt.Sprintf("%s: %v", ctx, e))
		}
		if names[i] != "known" && names[i] != "sender" {
			reorged = true // reached the locked part, so a reorg run followed
		}
		o.Stat("pool.add." + names[i])
		c.key.WriteString(names[i][:1])
	}
	lf := 0
	if local {
		lf = 1
	}
	o.Op(vfModel, fmt.Sprintf("add loc=%d %s => e=%s %s", lf, strings.Join(specs, " "), strings.Join(names, ","), after.text), "ok")
	c.invariants(before, after, reorged, localBefore, ctx)
	gone := vfVanished(before, after)

	// locals are exempt from eviction: a transaction of an account that was local before the
	// submission disappears only by being replaced by an accepted same-nonce submission
	for _, g := range gone {
		if !localBefore[g.sender] {
			continue
		}
		replaced := false
		for i, t := range txs {
			if errs[i] == nil && t.sigOk && t.sender == g.sender && t.nonce == g.nonce {
				replaced = true
			}
		}
		if !replaced {
			o.Viol("pool-local-tx-evicted", fmt.Sprintf("%s: tx %d of local account %d disappeared", ctx, g.id, g.sender))
		}
	}
	if len(txs) != 1 {
		if c.unsettled && reorged {
			c.unsettled = false
		}
		return
	}
	t, err := txs[0], errs[0]
	full := slotsBefore+t.slots > int(c.cfg.GlobalSlots+c.cfg.GlobalQueue)
	if err != nil {
		// a rejected submission leaves the pool unchanged
		if after.text != before.text {
			switch {
			case c.unsettled:
				o.Stat("pool.reject-changed-pool.unsettled(skipped)")
			case names[0] == "replace" && full && len(gone) > 0 && vfAllRemote(gone, localBefore):
				// the shape of finding F12 (fixed: add tests replacement eligibility before it makes
				// room) - kept as its own signature, a violation like any other change
				o.Viol("pool-reject-changed-pool:replace-underpriced-after-discard", fmt.Sprintf("%s: evicted %s; before %s after %s", ctx, vfIds(gone), before.text, after.text))
			default:
				o.Viol("pool-reject-changed-pool:"+names[0], fmt.Sprintf("%s: before %s after %s", ctx, before.text, after.text))
			}
		}
		if after.where(t) != "unknown" && names[0] != "known" {
			o.Viol("pool-rejected-tx-in-pool", ctx)
		}
	} else {
		// accepted: it is in the pool unless a limit removed it again; a same-nonce predecessor is
		// gone and was beaten by the required bump
		if old := before.at(t.sender, t.nonce); old != nil {
			if after.where(old) != "unknown" {
				o.Viol("pool-replaced-tx-still-present", fmt.Sprintf("%s: old %d", ctx, old.id))
			}
			if !c.bumpOK(old, t) {
				// (before the repair of F12 a remote transaction could follow a same-nonce predecessor
				// without the bump when that predecessor had just been discarded to make room; the
				// eligibility test now comes first)
				o.Viol("pool-replacement-without-bump", fmt.Sprintf("%s: old %d price %d new price %d bump %d", ctx, old.id, old.price, t.price, c.cfg.PriceBump))
			}
			o.Stat("pool.replacement")
		}
		if !full && !c.unsettled && after.where(t) == "unknown" {
			// only the per-account queue cap, the pending cap or the global queue cap can take it out
			o.Stat("pool.accepted-then-capped")
		}
	}
	if reorged {
		c.unsettled = false
	}
}

func vfAllRemote(txs []*vfTx, localBefore []bool) bool {
	for _, t := range txs {
		if localBefore[t.sender] {
			return false
		}
	}
	return true
}

func (c *vfPoolCase) genTx(snap *vfSnap) *vfTx {
	r := c.r
	a := r.Intn(c.nAcc)
	next := snap.nonces[a]
	price := int64(r.Pick(1, 1, 2, 2, 3, 4, 5, 10, 11))
	gas := uint64(vfBaseGas + r.Pick(0, 0, 0, 500))
	switch k := r.Intn(100); {
	case k < 34: // next executable
		return c.mk(a, next, price, gas, 0, 0, r.Pick(0, 0, 0, 1), false)
	case k < 46: // gapped
		return c.mk(a, next+uint64(1+r.Intn(3)), price, gas, 0, 0, 0, false)
	case k < 66: // same nonce as an existing one
		all := snap.allTxs()
		if len(all) == 0 {
			return c.mk(a, next, price, gas, 0, 0, 0, false)
		}
		old := all[r.Intn(len(all))]
		th := old.price * int64(100+c.cfg.PriceBump) / 100
		if r.Chance(45) {
			// an accepted replacement with gas <= the old gas that costs more than anything its list
			// has held so far: the list's cost cap has to follow (a stale cap shows at a later
			// balance-lowering reset through Filter's short cut)
			p := th
			if p <= old.price {
				p = old.price + 1
			}
			if r.Chance(50) {
				for _, x := range all {
					if x.sender == old.sender && x.slots == old.slots && x.price >= p {
						p = x.price + 1
					}
				}
			}
			p += int64(r.Pick(0, 0, 1, 5))
			g := old.gas
			if g > vfBaseGas && r.Chance(30) {
				g = vfBaseGas + uint64(r.Intn(int(g-vfBaseGas)))
			}
			c.o.Stat("pool.gen.replacement-gas-le-old")
			return c.mk(old.sender, old.nonce, p, g, 0, 0, 0, false)
		}
		p := r.Pick64(old.price-1, old.price, old.price+1, th-1, th, th+1, th+5)
		if p < 0 {
			p = 0
		}
		return c.mk(old.sender, old.nonce, p, gas, 0, 0, 0, false)
	case k < 71: // duplicate of something created earlier
		if len(c.txs) > 0 {
			return c.txs[r.Intn(len(c.txs))]
		}
		return c.mk(a, next, price, gas, 0, 0, 0, false)
	case k < 75: // under the pool's price floor
		return c.mk(a, next, 0, gas, 0, 0, 0, false)
	case k < 79: // nonce too low
		n := c.nonces[a]
		if n > 0 {
			n = uint64(r.Intn(int(n)))
		}
		return c.mk(a, n, price, gas, 0, 0, 0, false)
	case k < 83: // unaffordable
		return c.mk(a, next, price, gas, c.bals[a]+int64(r.Pick(-30000, 0, 1, 1000)), 0, 0, false)
	case k < 86: // foreign chain id / unsigned
		return c.mk(a, next, price, gas, 0, 0, r.Pick(2, 3), false)
	case k < 89: // gas above the block limit
		return c.mk(a, next, price, c.chain.gasLimit+uint64(r.Pick(1, 1000)), 0, 0, 0, false)
	case k < 92: // gas below intrinsic
		return c.mk(a, next, price, uint64(vfBaseGas-r.Pick(1, 8000)), 0, 0, 0, false)
	case k < 95: // two slots
		n := 33 * 1024
		return c.mk(a, next, price, vfBaseGas+4*uint64(n), 0, n, 0, false)
	case k < 97: // oversized
		n := 129 * 1024
		return c.mk(a, next, price, vfBaseGas+4*uint64(n), 0, n, 0, false)
	case k < 98: // negative value
		return c.mk(a, next, price, gas, 0, 0, 0, true)
	default: // far future
		return c.mk(a, next+uint64(5+r.Intn(4)), price, gas, 0, 0, 0, false)
	}
}

func (c *vfPoolCase) chainText() string {
	ns := make([]string, c.nAcc)
	bs := make([]string, c.nAcc)
	for a := 0; a < c.nAcc; a++ {
		ns[a] = fmt.Sprint(c.nonces[a])
		bs[a] = fmt.Sprint(c.bals[a])
	}
	return fmt.Sprintf("nonces=%s bals=%s gl=%d", strings.Join(ns, ","), strings.Join(bs, ","), c.chain.gasLimit)
}

func (c *vfPoolCase) reset() {
	r, o := c.r, c.o
	ctx := fmt.Sprintf("pool case %d op %d reset", c.idx, c.opn)
	before := c.snap()
	// boundary motif: one account that holds transactions gets a balance right at the cost of one
	// of them (mostly the most expensive one), its nonce stays
	bAcc, bBal := -1, int64(0)
	if r.Chance(40) {
		var cand []int
		for a := 0; a < c.nAcc; a++ {
			if len(before.pending[a])+len(before.queued[a]) > 0 {
				cand = append(cand, a)
			}
		}
		if len(cand) > 0 {
			a := cand[r.Intn(len(cand))]
			l := append(append([]*vfTx{}, before.pending[a]...), before.queued[a]...)
			x := l[r.Intn(len(l))]
			if r.Chance(70) {
				for _, t := range l {
					if t.cost().Cmp(x.cost()) > 0 {
						x = t
					}
				}
			}
			bAcc, bBal = a, x.cost().Int64()+int64(r.Pick(-1, -1, 0, 1))
			if bBal < 0 {
				bBal = 0
			}
			o.Stat("pool.reset.boundary-balance." + before.where(x))
		}
	}
	// new head: nonces move (mostly forward, sometimes back), balances change, the gas limit may shrink
	for a := 0; a < c.nAcc; a++ {
		if a == bAcc {
			c.bals[a] = bBal
			continue
		}
		switch r.Intn(10) {
		case 0, 1, 2: // a prefix of pending was mined
			c.nonces[a] += uint64(r.Intn(len(before.pending[a]) + 2))
		case 3:
			c.nonces[a] += uint64(r.Intn(5))
		case 4:
			if c.nonces[a] > 0 {
				c.nonces[a] -= uint64(1 + r.Intn(int(c.nonces[a])))
			}
		}
		switch r.Intn(14) {
		case 0:
			c.bals[a] = 0
		case 1:
			c.bals[a] = int64(vfBaseGas * r.Pick(1, 2, 3, 5, 11))
		case 2:
			c.bals[a] = int64(vfBaseGas*r.Pick(1, 2, 3, 5, 11)) + int64(r.Intn(200))
		case 3, 4, 5, 6:
			c.bals[a] = 1000000000
		}
	}
	switch r.Intn(16) {
	case 0:
		c.chain.gasLimit = vfBaseGas + 100
	case 1:
		c.chain.gasLimit = vfBaseGas
	case 2, 3, 4, 5, 6, 7:
		c.chain.gasLimit = 1000000
	case 8:
		// boundary motif: the gas limit right at / below the gas of a pending transaction
		var pend []*vfTx
		for a := 0; a < c.nAcc; a++ {
			pend = append(pend, before.pending[a]...)
		}
		if len(pend) > 0 {
			x := pend[r.Intn(len(pend))]
			c.chain.gasLimit = x.gas - uint64(r.Pick(1, 0))
			o.Stat("pool.reset.boundary-gaslimit")
		}
	}
	c.newState()
	if vfGuard(o, "pool-panic-in-reset", func() string { return ctx }, func() { <-c.pool.requestReset(nil, nil) }) {
		return
	}
	after := c.snap()
	o.Op(vfModel, fmt.Sprintf("reset %s => %s", c.chainText(), after.text), "ok")
	c.invariants(before, after, true, nil, ctx)
	// a head change never evicts a local transaction that is still executable-or-future,
	// affordable and within the gas limit
	for _, g := range vfVanished(before, after) {
		if c.isLocal(g.sender) && g.nonce >= c.nonces[g.sender] && g.cost().Cmp(big.NewInt(c.bals[g.sender])) <= 0 && g.gas <= c.chain.gasLimit {
			o.Viol("pool-local-tx-evicted", fmt.Sprintf("%s: tx %d of local account %d disappeared", ctx, g.id, g.sender))
		}
	}
	// a reset adds nothing
	for _, t := range after.allTxs() {
		if before.where(t) == "unknown" {
			o.Viol("pool-reset-added-tx", ctx)
		}
	}
	c.queuedPayable(after, ctx)
	c.unsettled = false
	o.Stat("pool.reset")
	c.key.WriteString("R")
}

// queuedPayable: a head reset filters every queue as well (promoteExecutables over all queued
// accounts; what demoteUnexecutables moves back was filtered before), so right after it no queued
// transaction is unaffordable or above the block gas limit.
func (c *vfPoolCase) queuedPayable(s *vfSnap, ctx string) {
	for a := 0; a < c.nAcc; a++ {
		for _, t := range s.queued[a] {
			if t.cost().Cmp(big.NewInt(c.bals[a])) > 0 {
				c.o.Viol("pool-queued-unaffordable-after-reset", fmt.Sprintf("%s: account %d balance %d tx %d cost %s", ctx, a, c.bals[a], t.id, t.cost()))
			}
			if t.gas > c.chain.gasLimit {
				c.o.Viol("pool-queued-above-block-gas-limit-after-reset", fmt.Sprintf("%s: tx %d gas %d limit %d", ctx, t.id, t.gas, c.chain.gasLimit))
			}
		}
	}
}

func (c *vfPoolCase) setPrice() {
	o := c.o
	p := int64(c.r.Pick(1, 2, 3, 4, 6, 11))
	ctx := fmt.Sprintf("pool case %d op %d price %d", c.idx, c.opn, p)
	before := c.snap()
	if vfGuard(o, "pool-panic-in-setgasprice", func() string { return ctx }, func() { c.pool.SetGasPrice(big.NewInt(p)) }) {
		return
	}
	after := c.snap()
	o.Op(vfModel, fmt.Sprintf("price p=%d => %s", p, after.text), "ok")
	c.invariants(before, after, false, nil, ctx)
	for _, g := range vfVanished(before, after) {
		if c.isLocal(g.sender) {
			o.Viol("pool-local-tx-evicted", fmt.Sprintf("%s: tx %d", ctx, g.id))
		}
		if g.price >= p {
			o.Viol("pool-setgasprice-dropped-adequate-tx", fmt.Sprintf("%s: tx %d price %d", ctx, g.id, g.price))
		}
	}
	if p > c.lastFloor {
		for _, t := range after.allTxs() {
			if c.pool.all.GetRemote(t.tx.Hash()) != nil && t.price < p {
				o.Viol("pool-setgasprice-kept-cheap-remote", fmt.Sprintf("%s: tx %d price %d", ctx, t.id, t.price))
			}
		}
	}
	c.lastFloor = p
	c.unsettled = true
	o.Stat("pool.setgasprice")
	c.key.WriteString("G")
}

func (c *vfPoolCase) expire() {
	o := c.o
	a := c.r.Intn(c.nAcc)
	ctx := fmt.Sprintf("pool case %d op %d expire %d", c.idx, c.opn, a)
	before := c.snap()
	local := c.isLocal(a)
	c.pool.mu.Lock()
	_, had := c.pool.queue[vfAddrs[a]]
	if had {
		c.pool.beats[vfAddrs[a]] = time.Now().Add(-2 * c.cfg.Lifetime)
	}
	c.pool.mu.Unlock()
	if had && !local {
		// the eviction tick runs every 2 ms in the pool's own goroutine; on a heavily loaded machine
		// it has been seen to take seconds, hence the generous deadline
		deadline := time.Now().Add(90 * time.Second)
		for time.Now().Before(deadline) {
			c.pool.mu.RLock()
			_, still := c.pool.queue[vfAddrs[a]]
			c.pool.mu.RUnlock()
			if !still {
				break
			}
			time.Sleep(500 * time.Microsecond)
		}
	} else {
		time.Sleep(5 * time.Millisecond)
	}
	after := c.snap()
	o.Op(vfModel, fmt.Sprintf("expire a=%d => %s", a, after.text), "ok")
	c.invariants(before, after, false, nil, ctx)
	if had && !local && len(after.queued[a]) > 0 {
		o.Viol("pool-expired-queue-not-evicted", ctx)
	}
	for _, g := range vfVanished(before, after) {
		if c.isLocal(g.sender) {
			o.Viol("pool-local-tx-evicted", fmt.Sprintf("%s: tx %d", ctx, g.id))
		}
		if g.sender != a || before.where(g) != "queued" {
			o.Viol("pool-expiry-removed-other-tx", fmt.Sprintf("%s: tx %d", ctx, g.id))
		}
	}
	if local && had {
		// restore a fresh heartbeat so that later ops are not affected
		c.pool.mu.Lock()
		if _, ok := c.pool.queue[vfAddrs[a]]; ok {
			c.pool.beats[vfAddrs[a]] = time.Now()
		}
		c.pool.mu.Unlock()
	}
	c.unsettled = true
	o.Stat(fmt.Sprintf("pool.expire.had=%v.local=%v", had, local))
	c.key.WriteString("E")
}

func vfNewPoolCase(o *vfOut, r *vfRand, idx int, cfg TxPoolConfig, nAcc int, nonces []uint64) *vfPoolCase {
	vfInitKeys()
	c := &vfPoolCase{o: o, r: r, idx: idx, nAcc: nAcc, byHash: map[common.Hash]*vfTx{}, nextID: 1}
	c.cfg = cfg
	c.lastFloor = int64(c.cfg.PriceLimit)
	c.nonces = nonces
	c.bals = make([]int64, c.nAcc)
	for a := range c.bals {
		c.bals[a] = 1000000000
	}
	c.chain = &vfChain{gasLimit: 1000000, feed: new(event.Feed)}
	c.newState()
	c.pool = NewTxPool(c.cfg, configs.TestChainConfig, c.chain)
	o.Op(vfModel, fmt.Sprintf("case pool %d", idx), "ok")
	o.Op(vfModel, c.cfgText(), "ok")
	return c
}

// cfgText is the op line that (re-)initialises the model: an empty pool with this configuration
// over the current chain state.
func (c *vfPoolCase) cfgText() string {
	nl := 0
	if c.cfg.NoLocals {
		nl = 1
	}
	return fmt.Sprintf("cfg pl=%d pb=%d as=%d gs=%d aq=%d gq=%d nolocals=%d %s", c.cfg.PriceLimit, c.cfg.PriceBump,
		c.cfg.AccountSlots, c.cfg.GlobalSlots, c.cfg.AccountQueue, c.cfg.GlobalQueue, nl, c.chainText())
}

// vfF12Case is the directed scenario of finding F12 (DESIGN.md section 5; fixed), kept as a
// regression case that must show NO pool change: a pool of four slots holding prices 10, 2, 3, 4;
// re-submitting the price-10 sender's nonce at price 10 (an under-priced same-nonce replacement
// arriving at a full pool) must be refused with "replacement transaction underpriced" and leave
// every other account's transaction where it is.
func vfF12Case(o *vfOut, idx int) {
	cfg := DefaultTxPoolConfig
	cfg.Journal = ""
	cfg.AccountSlots, cfg.GlobalSlots, cfg.AccountQueue, cfg.GlobalQueue = 1, 2, 1, 2
	c := vfNewPoolCase(o, vfNewRand(1), idx, cfg, 4, []uint64{0, 0, 0, 0})
	defer c.pool.Stop()
	for a, p := range []int64{10, 2, 3, 4} {
		c.submit([]*vfTx{c.mk(a, 0, p, vfBaseGas, 0, 0, 0, false)}, false)
		c.opn++
	}
	before := c.snap().text
	t5 := c.mk(0, 0, 10, vfBaseGas, 0, 0, 0, false)
	c.submit([]*vfTx{t5}, false)
	if after := c.snap().text; after != before || before != "P=0:1;1:2;2:3;3:4 Q=- N=1,1,1,1 S=4/0" {
		o.Viol("pool-f12-regression", fmt.Sprintf("pool case %d: under-priced replacement (tx %d, price 10 over price 10) at a full pool: before %s after %s", idx, t5.id, before, after))
	}
	o.Stat("pool.directed-f12-scenario")
	o.Case("f12", true)
}

func (c *vfPoolCase) settle() {
	ctx := fmt.Sprintf("pool case %d op %d settle", c.idx, c.opn)
	before := c.snap()
	<-c.pool.requestPromoteExecutables(newAccountSet(c.pool.signer))
	after := c.snap()
	c.o.Op(vfModel, fmt.Sprintf("settle => %s", after.text), "ok")
	c.invariants(before, after, true, nil, ctx)
	for _, g := range vfVanished(before, after) {
		if c.isLocal(g.sender) {
			c.o.Viol("pool-local-tx-evicted", fmt.Sprintf("%s: tx %d", ctx, g.id))
		}
	}
	c.unsettled = false
	c.o.Stat("pool.settle")
}

// reload stops the pool and starts a new one over the same journal file (a node restart). The
// journal is an append-only RLP stream of the transactions accepted from local accounts; loading it
// is AddLocals(file content) on an empty pool, which is what the model is told (cfg = empty pool,
// then one local batch in file order) and what the reference pool B does.
func (c *vfPoolCase) reload() {
	o := c.o
	ctx := fmt.Sprintf("pool case %d op %d journal-reload", c.idx, c.opn)
	old := c.snap()
	localOld := make([]bool, c.nAcc)
	for a := range localOld {
		localOld[a] = c.isLocal(a)
	}
	if vfGuard(o, "pool-panic-in-stop", func() string { return ctx }, func() { c.pool.Stop() }) {
		return
	}
	// the journal file, in file order
	var file []*vfTx
	inFile := map[int]bool{}
	if f, err := os.Open(c.cfg.Journal); err != nil {
		o.Viol("pool-journal-file-missing", ctx)
	} else {
		stream := rlp.NewStream(f, 0)
		for {
			tx := new(types.Transaction)
			if err := stream.Decode(tx); err != nil {
				if err != io.EOF {
					o.Viol("pool-journal-file-corrupt", ctx)
				}
				break
			}
			t := c.byHash[tx.Hash()]
			if t == nil {
				o.Viol("pool-journal-unknown-tx", ctx)
				continue
			}
			if !localOld[t.sender] {
				o.Viol("pool-journal-holds-remote-tx", fmt.Sprintf("%s: tx %d of account %d", ctx, t.id, t.sender))
			}
			if inFile[t.id] {
				o.Stat("pool.journal-reload.tx-journaled-twice")
			}
			inFile[t.id] = true
			file = append(file, t)
		}
		f.Close()
	}
	// reference pool B: no journal, AddLocals(file content)
	cfgB := c.cfg
	cfgB.Journal = ""
	var B, C *TxPool
	var sb *vfSnap
	var errs []error
	if vfGuard(o, "pool-panic-in-journal-reference", func() string { return ctx }, func() {
		B = NewTxPool(cfgB, configs.TestChainConfig, c.chain)
		if len(file) > 0 {
			raw := make([]*types.Transaction, len(file))
			for i, t := range file {
				raw[i] = t.tx
			}
			errs = B.AddLocals(raw)
		}
		sb = c.snapOf(B)
		B.Stop()
	}) {
		sb = nil
	}
	o.Op(vfModel, c.cfgText(), "ok")
	if sb != nil && len(file) > 0 {
		specs := make([]string, len(file))
		names := make([]string, len(file))
		for i, t := range file {
			specs[i] = t.spec()
			names[i] = vfErrName(errs[i])
			o.Stat("pool.journal-reload.add." + names[i])
		}
		o.Op(vfModel, fmt.Sprintf("add loc=1 %s => e=%s %s", strings.Join(specs, " "), strings.Join(names, ","), sb.text), "ok")
	}
	// the reloaded pool C
	if vfGuard(o, "pool-panic-in-journal-load", func() string { return ctx }, func() {
		C = NewTxPool(c.cfg, configs.TestChainConfig, c.chain)
	}) {
		// keep the case alive on a pool without journal
		C = NewTxPool(cfgB, configs.TestChainConfig, c.chain)
	}
	c.pool = C
	sc := c.snap()
	if sb != nil && sc.text != sb.text {
		o.Viol("pool-journal-reload-differs-from-addlocals", fmt.Sprintf("%s: reloaded %s addlocals %s", ctx, sc.text, sb.text))
	}
	for _, t := range sc.allTxs() {
		if !inFile[t.id] {
			o.Viol("pool-journal-reload-unknown-tx", fmt.Sprintf("%s: tx %d", ctx, t.id))
		}
		if !localOld[t.sender] {
			o.Viol("pool-journal-reload-kept-remote", fmt.Sprintf("%s: tx %d of account %d", ctx, t.id, t.sender))
		}
		if !c.isLocal(t.sender) {
			o.Viol("pool-journal-reload-not-local", fmt.Sprintf("%s: tx %d of account %d", ctx, t.id, t.sender))
		}
		if old.where(t) == "unknown" {
			// dropped earlier (replaced, stale or unpayable at the time) and still in the journal
			o.Stat("pool.journal-reload.resurrected")
		}
	}
	survived, droppedRemote, droppedUnjournaled := 0, 0, 0
	for _, t := range old.allTxs() {
		switch {
		case sc.where(t) != "unknown":
			survived++
		case !inFile[t.id] && !localOld[t.sender]:
			droppedRemote++
		case !inFile[t.id]:
			// accepted before its account became local (or a local replacement of a pending
			// transaction of a non-local account, which add() does not journal)
			droppedUnjournaled++
		case sc.at(t.sender, t.nonce) != nil:
			// the journal still holds an earlier, better-priced transaction of that nonce which had
			// left the pool (stale / unpayable at some head) and comes back first: the later one is
			// refused as an under-priced replacement. The statement is silent about it.
			o.Stat("pool.journal-reload.local-superseded-by-resurrected")
		default:
			o.Viol("pool-journal-reload-lost-local", fmt.Sprintf("%s: tx %d of account %d was %s; old %s reloaded %s", ctx, t.id, t.sender, old.where(t), old.text, sc.text))
		}
	}
	c.invariants(nil, sc, true, nil, ctx)
	c.lastFloor = int64(c.cfg.PriceLimit)
	c.unsettled = false
	o.Stat("pool.journal-reload")
	o.StatN("pool.journal-reload.file-txs", len(file))
	o.StatN("pool.journal-reload.survived", survived)
	o.StatN("pool.journal-reload.dropped-remote", droppedRemote)
	o.StatN("pool.journal-reload.dropped-unjournaled-local", droppedUnjournaled)
	if len(file) == 0 {
		o.Stat("pool.journal-reload.empty-file")
	}
	if sc.np+sc.nq > 0 {
		o.Stat("pool.journal-reload.nonempty-after")
	}
	c.key.WriteString("J")
}

// reorg is the final op of a case: the head O (which mined a few transactions) is replaced by a
// sibling N that mined only some of them; reset(O, N) has to put the others back into the pool.
// Both steps go to the Lean model: A -> O is an ordinary head change, O -> N is `reset … t=… t=…`
// (`Pool.resetReinject`: the dropped-branch transactions are re-added before promotion/demotion).
func (c *vfPoolCase) reorg() {
	r := c.r
	before := c.snap()
	// the transactions mined in O: per account a prefix of its pending run, or fresh ones the pool
	// has never seen, with nonces continuing from the state nonce
	mined := make([][]*vfTx, c.nAcc)
	total := 0
	fresh := func(a, k int) {
		for i := 0; i < k; i++ {
			mined[a] = append(mined[a], c.mk(a, c.nonces[a]+uint64(i), int64(r.Pick(1, 2, 3, 5, 10)), uint64(vfBaseGas+r.Pick(0, 0, 500)), 0, 0, 0, false))
		}
	}
	for a := 0; a < c.nAcc; a++ {
		pend := before.pending[a]
		switch {
		case len(pend) > 0 && r.Chance(70):
			k := 1 + r.Intn(len(pend))
			for i := 0; i < k && pend[i].nonce == c.nonces[a]+uint64(i); i++ {
				mined[a] = append(mined[a], pend[i])
			}
		case len(pend) == 0 && r.Chance(50):
			fresh(a, 1+r.Intn(2))
		}
		total += len(mined[a])
	}
	if total == 0 {
		a := r.Intn(c.nAcc)
		if pend := before.pending[a]; len(pend) > 0 && pend[0].nonce == c.nonces[a] {
			mined[a] = append(mined[a], pend[0])
		} else {
			fresh(a, 1)
		}
	}
	// N mined a prefix of each account's transactions of O
	keep := make([]int, c.nAcc)
	var lost []*vfTx
	for a := 0; a < c.nAcc; a++ {
		if len(mined[a]) > 0 && r.Chance(35) {
			keep[a] = r.Intn(len(mined[a]) + 1)
		}
		lost = append(lost, mined[a][keep[a]:]...)
	}
	// N's branch may leave a sender poorer / have a lower gas limit
	balAcc, balVal, gl := -1, int64(0), uint64(0)
	if len(lost) > 0 && r.Chance(20) {
		x := lost[r.Intn(len(lost))]
		balAcc, balVal = x.sender, x.cost().Int64()-int64(r.Pick(1, 0))
		c.o.Stat("pool.reorg-reinject.boundary-balance")
	}
	if r.Chance(10) {
		gl = uint64(vfBaseGas + r.Pick(0, 100))
	}
	c.reorgRun(before, mined, keep, func() {
		if balAcc >= 0 {
			c.bals[balAcc] = balVal
		}
		if gl != 0 {
			c.chain.gasLimit = gl
		}
	})
}

// reorgRun: mined[a] = the transactions of account a in the old head O (nonces from the state
// nonce), keep[a] = how many of them the new head N mined too; newHeadState adjusts balances / the
// gas limit of N's branch.
func (c *vfPoolCase) reorgRun(before *vfSnap, mined [][]*vfTx, keep []int, newHeadState func()) {
	o := c.o
	ctx := fmt.Sprintf("pool case %d op %d reorg", c.idx, c.opn)
	var txsO, txsN []*types.Transaction
	var lost []*vfTx
	for a := 0; a < c.nAcc; a++ {
		for i, t := range mined[a] {
			txsO = append(txsO, t.tx)
			if i < keep[a] {
				txsN = append(txsN, t.tx)
			} else {
				lost = append(lost, t)
			}
		}
	}
	tm := time.Unix(1600000000, 0).UTC()
	A := types.NewBlock(&types.Header{Height: 1, Time: tm, GasLimit: c.chain.gasLimit}, nil, nil, nil, trie.NewStackTrie(nil))
	O := types.NewBlock(&types.Header{Height: 2, Time: tm.Add(5 * time.Second), GasLimit: c.chain.gasLimit,
		LastBlockID: types.BlockID{Hash: A.Hash()}}, txsO, nil, nil, trie.NewStackTrie(nil))
	// step 1 (model-tracked): head A -> O
	for a := 0; a < c.nAcc; a++ {
		c.nonces[a] += uint64(len(mined[a]))
	}
	c.newState()
	c.chain.blocks = map[common.Hash]*types.Block{A.Hash(): A, O.Hash(): O}
	c.chain.head = O
	if vfGuard(o, "pool-panic-in-reset", func() string { return ctx }, func() { <-c.pool.requestReset(A.Header(), O.Header()) }) {
		return
	}
	mid := c.snap()
	o.Op(vfModel, fmt.Sprintf("reset %s => %s", c.chainText(), mid.text), "ok")
	c.invariants(before, mid, true, nil, ctx+" (old head)")
	c.queuedPayable(mid, ctx+" (old head)")
	for _, t := range mid.allTxs() {
		if before.where(t) == "unknown" {
			o.Viol("pool-reset-added-tx", ctx+" (old head)")
		}
	}
	c.unsettled = false
	// step 2: head O -> N, with re-injection
	for a := 0; a < c.nAcc; a++ {
		c.nonces[a] = c.nonces[a] - uint64(len(mined[a])) + uint64(keep[a])
	}
	newHeadState()
	c.newState()
	N := types.NewBlock(&types.Header{Height: 2, Time: tm.Add(7 * time.Second), GasLimit: c.chain.gasLimit,
		LastBlockID: types.BlockID{Hash: A.Hash()}}, txsN, nil, nil, trie.NewStackTrie(nil))
	if N.Hash() == O.Hash() || A.Hash() == O.Hash() {
		o.Viol("harness-block-hash-clash", ctx)
	}
	c.chain.blocks[N.Hash()] = N
	c.chain.head = N
	localB := make([]bool, c.nAcc)
	for a := range localB {
		localB[a] = c.isLocal(a)
	}
	slotsB := c.pool.all.Slots()
	if vfGuard(o, "pool-panic-in-reorg-reset", func() string { return ctx }, func() { <-c.pool.requestReset(O.Header(), N.Header()) }) {
		return
	}
	after := c.snap()
	valid := func(t *vfTx) bool {
		a := t.sender
		return t.nonce >= c.nonces[a] && t.cost().Cmp(big.NewInt(c.bals[a])) <= 0 && t.gas <= c.chain.gasLimit &&
			(t.price >= c.lastFloor || localB[a])
	}
	// The re-injection is part of the model now (`resetReinject`): the transactions of the dropped
	// branch that the new branch does not contain go to the model in block order (the order of
	// types.TxDifference(discarded, included)).
	specs := make([]string, len(lost))
	for i, t := range lost {
		specs[i] = " " + t.spec()
	}
	o.Op(vfModel, fmt.Sprintf("reset %s%s => %s", c.chainText(), strings.Join(specs, ""), after.text), "ok")
	// Regression for finding C17-R1 (fixed in /repo 6d44dc4): a re-injected transaction that does
	// not make it back must not leave a nonce gap in pending any more - the generic clauses of
	// `invariants` apply without exemption.
	c.gapExempt = nil
	c.invariants(mid, after, true, nil, ctx)
	c.gapExempt = nil
	c.queuedPayable(after, ctx)
	// what has to come back
	lostSlots := 0
	perAcc := make([]int, c.nAcc)
	for _, t := range lost {
		lostSlots += t.slots
		perAcc[t.sender]++
	}
	back := 0
	for _, t := range lost {
		a := t.sender
		in := after.where(t) != "unknown"
		if in {
			back++
		}
		switch {
		case !valid(t):
			switch {
			case t.cost().Cmp(big.NewInt(c.bals[a])) > 0:
				o.Stat("pool.reorg-reinject.not-valid-under-new-head.funds")
			case t.gas > c.chain.gasLimit:
				o.Stat("pool.reorg-reinject.not-valid-under-new-head.gaslimit")
			default:
				o.Stat("pool.reorg-reinject.not-valid-under-new-head.price-floor")
			}
			if in {
				o.Viol("pool-reorg-reinjected-invalid-tx", fmt.Sprintf("%s: tx %d (price %d floor %d cost %s balance %d gas %d limit %d)", ctx, t.id, t.price, c.lastFloor, t.cost(), c.bals[a], t.gas, c.chain.gasLimit))
			}
		case in:
			o.Stat("pool.reorg-reinject.back." + after.where(t))
		case mid.at(a, t.nonce) != nil:
			o.Stat("pool.reorg-reinject.same-nonce-in-pool")
		case slotsB+lostSlots > int(c.cfg.GlobalQueue) || slotsB+lostSlots > int(c.cfg.GlobalSlots) ||
			(!localB[a] && len(mid.pending[a])+len(mid.queued[a])+perAcc[a] > vfMin(int(c.cfg.AccountQueue), int(c.cfg.AccountSlots))):
			// a limit may explain its absence (pool-full branch of add, queue cap, truncation)
			o.Stat("pool.reorg-reinject.absent-near-limit(not-judged)")
		default:
			o.Viol("pool-reorg-reinject-lost", fmt.Sprintf("%s: tx %d of account %d (nonce %d, state nonce %d) is not back; before %s after %s", ctx, t.id, a, t.nonce, c.nonces[a], mid.text, after.text))
		}
	}
	for _, t := range after.allTxs() {
		if mid.where(t) != "unknown" {
			continue
		}
		isLost := false
		for _, x := range lost {
			if x == t {
				isLost = true
			}
		}
		if !isLost {
			o.Viol("pool-reorg-added-foreign-tx", fmt.Sprintf("%s: tx %d", ctx, t.id))
		}
	}
	// a reorganisation never evicts a local transaction that is still valid under the new head
	for _, g := range vfVanished(mid, after) {
		if localB[g.sender] && valid(g) {
			o.Viol("pool-local-tx-evicted", fmt.Sprintf("%s: tx %d of local account %d disappeared", ctx, g.id, g.sender))
		}
	}
	o.Stat("pool.reorg-reinject")
	o.StatN("pool.reorg-reinject.mined-in-old-head", len(txsO))
	o.StatN("pool.reorg-reinject.also-in-new-head", len(txsN))
	o.StatN("pool.reorg-reinject.to-reinject", len(lost))
	o.StatN("pool.reorg-reinject.came-back", back)
	if back > 0 {
		o.Stat("pool.reorg-reinject.runs-with-some-back")
	}
	c.key.WriteString("O")
}

// vfReorgGapCase is the directed scenario of the re-injection finding C17-R1 (fixed in /repo
// 6d44dc4), kept as a regression case that must show NO gap: one sender with pending
// nonces 0, 1, 2; the old head mined 0 and 1; the new head mined neither and leaves the sender
// a balance that pays for nonce 0 and 2 but not for nonce 1. No pool limit is involved.
func vfReorgGapCase(o *vfOut, idx int) {
	cfg := DefaultTxPoolConfig
	cfg.Journal = ""
	cfg.AccountSlots, cfg.GlobalSlots, cfg.AccountQueue, cfg.GlobalQueue = 4, 8, 4, 8
	c := vfNewPoolCase(o, vfNewRand(1), idx, cfg, 3, []uint64{0, 0, 0})
	defer func() { c.pool.Stop() }()
	var ts []*vfTx
	for n, p := range []int64{1, 5, 1} {
		t := c.mk(0, uint64(n), p, vfBaseGas, 0, 0, 0, false)
		ts = append(ts, t)
		c.submit([]*vfTx{t}, false)
		c.opn++
	}
	c.reorgRun(c.snap(), [][]*vfTx{{ts[0], ts[1]}, nil, nil}, []int{0, 0, 0}, func() { c.bals[0] = ts[1].cost().Int64() - 1 })
	// nonce 0 came back and is executable, nonce 1 is unaffordable and gone, nonce 2 waits in the queue
	if got, want := c.snap().text, "P=0:1 Q=0:3 N=1,0,0 S=1/1"; got != want {
		o.Viol("pool-reorg-reinject-regression-c17r1", fmt.Sprintf("pool case %d: after the reorganisation the pool is %s, want %s", idx, got, want))
	}
	o.Stat("pool.directed-reorg-gap-scenario")
	o.Case("reorg-gap", true)
}

func vfPoolCaseRun(o *vfOut, r *vfRand, idx int) {
	cfg := DefaultTxPoolConfig
	cfg.Journal = ""
	cfg.NoLocals = r.Chance(10)
	cfg.PriceLimit = uint64(r.Pick(1, 1, 2))
	cfg.PriceBump = uint64(r.Pick(10, 10, 1, 50))
	cfg.AccountSlots = uint64(r.Pick(2, 3, 4))
	cfg.GlobalSlots = uint64(r.Pick(4, 5, 6, 8))
	cfg.AccountQueue = uint64(r.Pick(2, 3, 4))
	cfg.GlobalQueue = uint64(r.Pick(4, 5, 6, 8))
	cfg.Lifetime = time.Hour
	nAcc := r.Pick(3, 3, 4)
	nonces := make([]uint64, nAcc)
	for a := range nonces {
		nonces[a] = uint64(r.Pick(0, 0, 1, 3))
	}
	nops := 25 + r.Intn(45)
	// a quarter of the cases that track locals run over a journal file and restart the pool once,
	// somewhere in the second half (reloadAt == nops: after the last op); a fifth of the cases end
	// with a chain reorganisation
	reloadAt := -1
	if r.Chance(25) && !cfg.NoLocals {
		reloadAt = nops/2 + r.Intn(nops-nops/2+1)
		dir, err := os.MkdirTemp(os.TempDir(), "vfc17-journal-")
		if err != nil {
			panic(err)
		}
		defer os.RemoveAll(dir)
		cfg.Journal = filepath.Join(dir, "transactions.rlp")
	}
	withReorg := r.Chance(20)
	c := vfNewPoolCase(o, r, idx, cfg, nAcc, nonces)
	defer func() { c.pool.Stop() }()
	for c.opn = 0; c.opn < nops; c.opn++ {
		if c.opn == reloadAt {
			c.reload()
		}
		snap := c.snap()
		switch k := r.Intn(100); {
		case k < 52:
			c.submit([]*vfTx{c.genTx(snap)}, false)
		case k < 64:
			c.submit([]*vfTx{c.genTx(snap)}, true)
		case k < 73:
			n := 2 + r.Intn(3)
			var batch []*vfTx
			for i := 0; i < n; i++ {
				t := c.genTx(snap)
				dup := false
				for _, b := range batch {
					if b == t {
						dup = true
					}
				}
				if !dup {
					batch = append(batch, t)
				}
			}
			c.submit(batch, r.Chance(20))
			c.key.WriteString("B")
		case k < 87:
			c.reset()
		case k < 94:
			c.setPrice()
			if r.Chance(50) {
				c.settle()
			}
		default:
			c.expire()
			if r.Chance(50) {
				c.settle()
			}
		}
		// status of one random transaction against the model
		if len(c.txs) > 0 && r.Chance(30) {
			t := c.txs[r.Intn(len(c.txs))]
			st := c.pool.Status([]common.Hash{t.tx.Hash()})[0]
			o.Op(vfModel, fmt.Sprintf("status id=%d", t.id), map[TxStatus]string{TxStatusUnknown: "unknown", TxStatusQueued: "queued", TxStatusPending: "pending", TxStatusIncluded: "included"}[st])
		}
	}
	fin := c.snap()
	held := fin.np+fin.nq > 0 // (a restart drops every remote transaction, so look before it too)
	if reloadAt == nops {
		c.reload()
	}
	if withReorg {
		c.reorg() // the last op
	}
	if reloadAt == nops || withReorg {
		fin = c.snap()
	}
	o.Case(fmt.Sprintf("pool:%d:%d:%d:%d:%s", c.cfg.AccountSlots, c.cfg.GlobalSlots, c.cfg.AccountQueue, c.cfg.GlobalQueue, c.key.String()), held || fin.np+fin.nq > 0)
	if idx%50 == 1 {
		o.Sample(fmt.Sprintf("pool case %d: %d ops, final %s", idx, nops, fin.text))
	}
}

func TestVerifC17(t *testing.T) {
	o := vfOpen()
	defer o.Close()
	old := evictionInterval
	evictionInterval = 2 * time.Millisecond
	defer func() { evictionInterval = old }()
	n := vfN(40)
	for i := 0; i < n; i++ {
		r := vfFork(vfSeed(), uint64(i))
		if i == 1 {
			vfF12Case(o, i)
		} else if i == 2 {
			vfReorgGapCase(o, i)
		} else if i%5 == 0 {
			vfListCase(o, r, i)
		} else {
			vfPoolCaseRun(o, r, i)
		}
	}
}
