package common

// Property C18, part (a): differential of every BitArray operation against the Lean model
// KV/Model/BitArray.lean (kvdrv model "bitarray") plus an independent bit-level oracle.
//
// Operands: nil, well-formed arrays of boundary sizes (0/1/63/64/65/127/128/129/130 bits) and random sizes,
// all-ones / zero / random contents, arrays with straggler bits beyond Bits in the last word, arrays
// decoded by FromProto from consistent and inconsistent wire values, and (differential only) ill-formed
// literals on which the model predicts the exact panic behaviour of the Go code.
// Thorough tier additionally enumerates all pairs of sizes <= 130 bits for every binary operation.

import (
	"fmt"
	"strings"
	"testing"

	kprotobits "github.com/kardiachain/go-kardia/proto/kardiachain/libs/bits"
)

func vf18Words(ws []uint64) string {
	if len(ws) == 0 {
		return "-"
	}
	ss := make([]string, len(ws))
	for i, w := range ws {
		ss[i] = fmt.Sprintf("%d", w)
	}
	return strings.Join(ss, ",")
}

func vf18Arr(b *BitArray) string {
	if b == nil {
		return "nil"
	}
	return fmt.Sprintf("%d:%s", b.Bits, vf18Words(b.Elems))
}

func vf18Clone(b *BitArray) *BitArray {
	if b == nil {
		return nil
	}
	var e []uint64
	if b.Elems != nil {
		e = make([]uint64, len(b.Elems))
		copy(e, b.Elems)
	}
	return &BitArray{Bits: b.Bits, Elems: e}
}

func vf18WF(b *BitArray) bool {
	return b == nil || uint64(len(b.Elems)) == (uint64(b.Bits)+63)/64
}

// raw reference bit (independent of the code under test)
func vf18Bit(b *BitArray, i int) bool {
	if b == nil || i < 0 || i >= int(b.Bits) || i/64 >= len(b.Elems) {
		return false
	}
	return (b.Elems[i/64]>>(uint(i)%64))&1 == 1
}

func vf18Clean(b *BitArray) bool {
	if b == nil {
		return true
	}
	for i := int(b.Bits); i < 64*len(b.Elems); i++ {
		if (b.Elems[i/64]>>(uint(i)%64))&1 == 1 {
			return false
		}
	}
	return true
}

func vf18B(v bool) string {
	if v {
		return "1"
	}
	return "0"
}

// vf18Try runs f; a panic becomes the output "panic" (what the model calls `none`).
func vf18Try(f func() string) (out string, panicked bool, pv interface{}) {
	defer func() {
		if r := recover(); r != nil {
			out, panicked, pv = "panic", true, r
		}
	}()
	return f(), false, nil
}

var vf18Sizes = []int{0, 1, 2, 63, 64, 65, 127, 128, 129, 130}

type vf18Operand struct {
	a    *BitArray
	kind string
	wf   bool // the oracle applies (well-formed by construction or decoded by FromProto)
}

func vf18GenWords(r *vfRand, n int, style int) []uint64 {
	ws := make([]uint64, n)
	for i := range ws {
		switch style {
		case 0:
			ws[i] = r.U64()
		case 1:
			ws[i] = ^uint64(0)
		case 2:
			ws[i] = 0
		case 3:
			ws[i] = uint64(1) << uint(r.Intn(64))
		default:
			ws[i] = r.U64() & r.U64() & r.U64()
		}
	}
	return ws
}

func vf18Trim(b *BitArray) {
	if b == nil || len(b.Elems) == 0 {
		return
	}
	if rem := b.Bits % 64; rem != 0 && uint64(len(b.Elems)) == (uint64(b.Bits)+63)/64 {
		b.Elems[len(b.Elems)-1] &= (uint64(1) << rem) - 1
	}
}

func vf18GenSize(r *vfRand) int {
	switch r.Intn(4) {
	case 0, 1:
		return vf18Sizes[r.Intn(len(vf18Sizes))]
	case 2:
		return r.Intn(200)
	default:
		return r.Intn(20)
	}
}

func vf18GenOfSize(r *vfRand, bits int, allowIll bool) vf18Operand {
	k := r.Intn(100)
	nw := (bits + 63) / 64
	switch {
	case k < 4:
		return vf18Operand{nil, "nil", true}
	case k < 50: // clean well-formed
		if bits == 0 {
			// NewBitArray(0) is nil; the only non-nil 0-bit array comes from FromProto
			b := new(BitArray)
			b.FromProto(&kprotobits.BitArray{Bits: 0})
			return vf18Operand{b, "fromproto-empty", true}
		}
		b := &BitArray{Bits: uint(bits), Elems: vf18GenWords(r, nw, r.Intn(5))}
		vf18Trim(b)
		return vf18Operand{b, "clean", true}
	case k < 65: // well-formed with straggler bits (what Not() produces, or a peer sends)
		b := &BitArray{Bits: uint(bits), Elems: vf18GenWords(r, nw, r.Intn(2))}
		if nw == 0 {
			b.Elems = nil
		}
		return vf18Operand{b, "stragglers", true}
	case k < 80: // decoded from a consistent wire value
		pb := &kprotobits.BitArray{Bits: int64(bits), Elems: vf18GenWords(r, nw, r.Intn(5))}
		b := new(BitArray)
		b.FromProto(pb)
		return vf18Operand{b, "fromproto-consistent", true}
	case k < 90 || !allowIll: // decoded from an inconsistent wire value
		var wbits int64
		switch r.Intn(5) {
		case 0:
			wbits = -int64(r.Intn(1000)) - 1
		case 1:
			wbits = int64(bits) + 64 + int64(r.Intn(1000))
		case 2:
			wbits = int64(1) << uint(31+r.Intn(32))
		case 3:
			wbits = int64(^uint64(0) >> 1)
		default:
			wbits = int64(bits) - 64 - int64(r.Intn(64))
		}
		pb := &kprotobits.BitArray{Bits: wbits, Elems: vf18GenWords(r, nw, 0)}
		b := new(BitArray)
		b.FromProto(pb)
		return vf18Operand{b, "fromproto-inconsistent", true}
	default: // ill-formed literal: differential only (the model must predict the panic)
		d := r.Pick(-2, -1, 1, 2)
		n := nw + d
		if n < 0 {
			n = 0
		}
		b := &BitArray{Bits: uint(bits), Elems: vf18GenWords(r, n, r.Intn(3))}
		return vf18Operand{b, "illformed", n == nw}
	}
}

func vf18Gen(r *vfRand, allowIll bool) vf18Operand {
	return vf18GenOfSize(r, vf18GenSize(r), allowIll)
}

type vf18Ctx struct {
	o *vfOut
}

// run records the op for the model and applies the panic oracle: on well-formed operands with a
// non-negative index no operation may panic.
func (c *vf18Ctx) run(op string, line string, oracleApplies bool, f func() string) (string, bool) {
	out, panicked, pv := vf18Try(f)
	c.o.Op("bitarray", line, out)
	c.o.Stat("op/" + op)
	if panicked {
		c.o.Stat("panic/" + op)
		if oracleApplies {
			c.o.Viol("bitarray-panic/"+op, fmt.Sprintf("%v; %s", pv, line))
		}
	}
	return out, panicked
}

func (c *vf18Ctx) checkWF(op string, line string, res *BitArray) {
	if !vf18WF(res) {
		c.o.Viol("bitarray-illformed/"+op, fmt.Sprintf("%s -> %s", line, vf18Arr(res)))
	}
}

func vf18Max(a, b int) int {
	if a > b {
		return a
	}
	return b
}
func vf18Min(a, b int) int {
	if a < b {
		return a
	}
	return b
}

func (c *vf18Ctx) binary(x, y vf18Operand) {
	o := c.o
	ok := x.wf && y.wf
	A, B := vf18Arr(x.a), vf18Arr(y.a)
	o.Stat("pair/" + x.kind + "+" + y.kind)
	if x.a != nil && y.a != nil {
		switch {
		case x.a.Bits == y.a.Bits:
			o.Stat("sizes/equal")
		case len(x.a.Elems) == len(y.a.Elems):
			o.Stat("sizes/differ-same-words")
		case x.a.Bits < y.a.Bits:
			o.Stat("sizes/receiver-shorter")
		default:
			o.Stat("sizes/receiver-longer")
		}
	}
	clean := vf18Clean(x.a) && vf18Clean(y.a)

	// Or
	{
		a, b := vf18Clone(x.a), vf18Clone(y.a)
		var res *BitArray
		line := "or " + A + " " + B
		_, p := c.run("or", line, ok, func() string { res = a.Or(b); return vf18Arr(res) })
		if !p && ok {
			c.checkWF("or", line, res)
			if res.Size() != vf18Max(x.a.Size(), y.a.Size()) {
				o.Viol("bitarray-spec/or-size", line+" -> "+vf18Arr(res))
			} else if clean {
				for i := 0; i < res.Size(); i++ {
					if res.GetIndex(i) != (vf18Bit(x.a, i) || vf18Bit(y.a, i)) {
						o.Viol("bitarray-spec/or", fmt.Sprintf("%s -> %s bit %d", line, vf18Arr(res), i))
						break
					}
				}
			}
		}
	}
	// And
	{
		a, b := vf18Clone(x.a), vf18Clone(y.a)
		var res *BitArray
		line := "and " + A + " " + B
		_, p := c.run("and", line, ok, func() string { res = a.And(b); return vf18Arr(res) })
		if !p && ok {
			c.checkWF("and", line, res)
			if x.a != nil && y.a != nil {
				if res.Size() != vf18Min(x.a.Size(), y.a.Size()) {
					o.Viol("bitarray-spec/and-size", line+" -> "+vf18Arr(res))
				}
				for i := 0; i < res.Size(); i++ {
					if res.GetIndex(i) != (vf18Bit(x.a, i) && vf18Bit(y.a, i)) {
						o.Viol("bitarray-spec/and", fmt.Sprintf("%s -> %s bit %d", line, vf18Arr(res), i))
						break
					}
				}
			} else if res != nil {
				o.Viol("bitarray-spec/and-nil", line+" -> "+vf18Arr(res))
			}
		}
	}
	// Sub
	{
		a, b := vf18Clone(x.a), vf18Clone(y.a)
		var res *BitArray
		line := "sub " + A + " " + B
		_, p := c.run("sub", line, ok, func() string { res = a.Sub(b); return vf18Arr(res) })
		if !p && ok {
			c.checkWF("sub", line, res)
			if x.a != nil && y.a != nil {
				if res.Size() != x.a.Size() {
					o.Viol("bitarray-spec/sub-size", line+" -> "+vf18Arr(res))
				}
				for i := 0; i < res.Size(); i++ {
					if res.GetIndex(i) != (vf18Bit(x.a, i) && !vf18Bit(y.a, i)) {
						o.Viol("bitarray-spec/sub", fmt.Sprintf("%s -> %s bit %d", line, vf18Arr(res), i))
						break
					}
				}
				// the index the gossip routines pick from a difference is inside the receiver
				if idx, okp := res.PickRandom(); okp && (idx >= x.a.Size() || !vf18Bit(x.a, idx) || vf18Bit(y.a, idx)) {
					o.Viol("bitarray-spec/sub-pick", fmt.Sprintf("%s -> %s picked %d", line, vf18Arr(res), idx))
				}
			}
		}
	}
	// Update
	{
		a, b := vf18Clone(x.a), vf18Clone(y.a)
		line := "update " + A + " " + B
		_, p := c.run("update", line, ok, func() string { a.Update(b); return vf18Arr(a) })
		if !p && ok && x.a != nil {
			c.checkWF("update", line, a)
			if a.Size() != x.a.Size() {
				o.Viol("bitarray-spec/update-size", line+" -> "+vf18Arr(a))
			}
			if y.a != nil && y.a.Bits == x.a.Bits {
				for i := 0; i < a.Size(); i++ {
					if a.GetIndex(i) != vf18Bit(y.a, i) {
						o.Viol("bitarray-spec/update", fmt.Sprintf("%s -> %s bit %d", line, vf18Arr(a), i))
						break
					}
				}
			}
		}
	}
	// the composition used by ApplyVoteSetBitsMessage: votes.Update(votes.Sub(ours).Or(msg))
	if ok {
		v, ours, msg := vf18Clone(x.a), vf18Clone(y.a), vf18Clone(y.a)
		_, p, pv := vf18Try(func() string { v.Update(v.Sub(ours).Or(msg)); return "" })
		o.Stat("op/votesetbits-composition")
		if p {
			o.Viol("bitarray-panic/votesetbits-composition", fmt.Sprintf("%v; %s %s", pv, A, B))
		} else {
			c.checkWF("votesetbits-composition", A+" "+B, v)
		}
	}
}

func (c *vf18Ctx) unary(r *vfRand, x vf18Operand) {
	o := c.o
	A := vf18Arr(x.a)
	o.Stat("operand/" + x.kind)
	if x.a != nil {
		o.Stat(fmt.Sprintf("bits%%64/%v", x.a.Bits%64 == 0))
	}
	c.run("size", "size "+A, x.wf, func() string { return fmt.Sprintf("%d", x.a.Size()) })
	c.run("copy", "copy "+A, x.wf, func() string { return vf18Arr(x.a.Copy()) })
	c.run("isempty", "isempty "+A, x.wf, func() string { return vf18B(x.a.IsEmpty()) })
	{
		var res *BitArray
		line := "not " + A
		_, p := c.run("not", line, x.wf, func() string { res = x.a.Not(); return vf18Arr(res) })
		if !p && x.wf && x.a != nil {
			c.checkWF("not", line, res)
			for i := 0; i < x.a.Size(); i++ {
				if res.GetIndex(i) == vf18Bit(x.a, i) {
					o.Viol("bitarray-spec/not", fmt.Sprintf("%s -> %s bit %d", line, vf18Arr(res), i))
					break
				}
			}
			// gossipDataForCatchup: prs.ProposalBlockParts.Not().PickRandom()
			if idx, okp := res.PickRandom(); okp && (idx >= x.a.Size() || vf18Bit(x.a, idx)) {
				o.Viol("bitarray-spec/not-pick", fmt.Sprintf("%s picked %d", line, idx))
			}
		}
	}
	// IsFull: a non-nil array without words panics (slice bound -1). Nothing in the node calls IsFull
	// (checked by grep), so this is recorded as a latent defect, not as a C18 violation; the model has it
	// (theorem isFull_empty_oob).
	{
		emptyNonNil := x.a != nil && len(x.a.Elems) == 0
		if emptyNonNil {
			o.Stat("isfull/0-words-latent-panic")
		}
		line := "isfull " + A
		out, p := c.run("isfull", line, x.wf && !emptyNonNil, func() string { return vf18B(x.a.IsFull()) })
		if !p && x.wf && x.a != nil {
			full := true
			for i := 0; i < x.a.Size(); i++ {
				full = full && vf18Bit(x.a, i)
			}
			if out != vf18B(full) {
				o.Viol("bitarray-spec/isfull", line+" -> "+out)
			}
		}
	}
	// GetIndex / SetIndex: in range, boundary, beyond, and negative indices (negative: differential only)
	idxs := []int{0, int(x.a.Size()) - 1, int(x.a.Size()), int(x.a.Size()) + 1, r.Intn(x.a.Size() + 1), 63, 64, r.Intn(300),
		-1, -63, -64, -65, -r.Intn(200)}
	for _, i := range idxs {
		oracle := x.wf && i >= 0
		line := fmt.Sprintf("get %s %d", A, i)
		out, p := c.run("get", line, oracle, func() string { return vf18B(x.a.GetIndex(i)) })
		if i < 0 {
			o.Stat("index/negative")
			if p {
				o.Stat("index/negative-panics")
			}
		}
		if !p && oracle && out != vf18B(vf18Bit(x.a, i)) {
			o.Viol("bitarray-spec/get", line+" -> "+out)
		}
		v := r.Bool()
		a := vf18Clone(x.a)
		line = fmt.Sprintf("set %s %d %s", A, i, vf18B(v))
		var ret bool
		_, p = c.run("set", line, oracle, func() string { ret = a.SetIndex(i, v); return vf18Arr(a) + " " + vf18B(ret) })
		if !p && oracle {
			c.checkWF("set", line, a)
			if ret != (x.a != nil && i < x.a.Size()) {
				o.Viol("bitarray-spec/set-ret", line)
			}
			if ret && a.GetIndex(i) != v {
				o.Viol("bitarray-spec/set-get", line)
			}
			for j := 0; j < x.a.Size(); j++ {
				if j != i && a.GetIndex(j) != vf18Bit(x.a, j) {
					o.Viol("bitarray-spec/set-other", fmt.Sprintf("%s changed bit %d", line, j))
					break
				}
			}
		}
	}
	if x.a != nil {
		n := r.Pick(0, 1, 63, 64, 65, 128, 129, r.Intn(260))
		line := fmt.Sprintf("copybits %s %d", A, n)
		var res *BitArray
		_, p := c.run("copybits", line, x.wf, func() string { res = x.a.copyBits(n); return vf18Arr(res) })
		if !p && x.wf {
			c.checkWF("copybits", line, res)
		}
		c.run("bytes", "bytes "+A, x.wf, func() string { x.a.Bytes(); return "ok" })
	}
	c.run("str", "str "+A, x.wf, func() string { _ = x.a.String(); return "ok" })
	// PickRandom: the result must be a possible one (model: relation over all random choices)
	for k := 0; k < 3; k++ {
		var idx int
		var okp bool
		_, p, pv := vf18Try(func() string { idx, okp = x.a.PickRandom(); return "" })
		if p {
			if x.wf {
				o.Viol("bitarray-panic/pickrandom", fmt.Sprintf("%v; %s", pv, A))
			}
			break
		}
		if idx >= 0 && len(A) < 200 {
			o.Op("bitarray", fmt.Sprintf("pickchk %s %d %s", A, idx, vf18B(okp)), "1")
			o.Stat("op/pickchk")
		}
		if x.wf {
			any := false
			for i := 0; i < x.a.Size(); i++ {
				any = any || vf18Bit(x.a, i)
			}
			if okp && !vf18Bit(x.a, idx) {
				o.Viol("bitarray-spec/pickrandom-unset", fmt.Sprintf("%s picked %d", A, idx))
			}
			if !okp && (any || idx != 0) {
				o.Viol("bitarray-spec/pickrandom-missed", fmt.Sprintf("%s returned (%d,false)", A, idx))
			}
			if okp {
				o.Stat("pick/hit")
			} else {
				o.Stat("pick/none")
			}
		}
	}
	// ToProto / FromProto round trip
	{
		var pb *kprotobits.BitArray
		c.run("toproto", "toproto "+A, x.wf, func() string {
			pb = x.a.ToProto()
			if pb == nil {
				return "nil"
			}
			return fmt.Sprintf("%d:%s", pb.Bits, vf18Words(pb.Elems))
		})
		if x.wf && pb != nil {
			bz, err := pb.Marshal()
			pb2 := new(kprotobits.BitArray)
			if err != nil || pb2.Unmarshal(bz) != nil {
				o.Viol("bitarray-roundtrip/marshal", A)
			} else {
				b := new(BitArray)
				b.FromProto(pb2)
				if vf18Arr(b) != A {
					o.Viol("bitarray-roundtrip/fromproto", A+" -> "+vf18Arr(b))
				}
				o.Stat("roundtrip/ok")
			}
		}
	}
}

func (c *vf18Ctx) wire(r *vfRand) {
	// arbitrary wire values: the decoded array must be well-formed whatever arrives
	var bits int64
	switch r.Intn(8) {
	case 0:
		bits = -int64(r.U64() >> uint(r.Intn(64)))
	case 1:
		bits = int64(r.U64() >> 1)
	case 2:
		bits = int64(^uint64(0) >> 1)
	case 3:
		bits = int64(^uint64(0)>>1) - 63 + int64(r.Intn(64))
	case 4:
		bits = -int64(^uint64(0)>>1) - 1
	default:
		bits = int64(r.Intn(300))
	}
	n := r.Pick(0, 0, 1, 2, 3, r.Intn(5))
	if r.Chance(40) && bits >= 0 && bits < 400 {
		n = int((bits + 63) / 64)
	}
	var pb *kprotobits.BitArray
	W := "nil"
	if !r.Chance(3) {
		pb = &kprotobits.BitArray{Bits: bits, Elems: vf18GenWords(r, n, r.Intn(5))}
		if n == 0 && r.Bool() {
			pb.Elems = nil
		}
		W = fmt.Sprintf("%d:%s", pb.Bits, vf18Words(pb.Elems))
	}
	b := new(BitArray)
	line := "fromproto " + W
	_, p := c.run("fromproto", line, true, func() string { b.FromProto(pb); return vf18Arr(b) })
	if p {
		return
	}
	if !vf18WF(b) {
		c.o.Viol("bitarray-illformed/fromproto", line+" -> "+vf18Arr(b))
	}
	if b.Bits == 0 {
		c.o.Stat("fromproto/empty")
	} else {
		c.o.Stat("fromproto/accepted")
	}
	// whatever was decoded is safe to use
	c.unary(r, vf18Operand{b, "fromproto-wire", true})
}

func TestVerifC18(t *testing.T) {
	o := vfOpen()
	defer o.Close()
	c := &vf18Ctx{o: o}
	n := vfN(400)
	seed := vfSeed()
	for i := 0; i < n; i++ {
		r := vfFork(seed, uint64(i))
		x := vf18Gen(r, true)
		y := vf18Gen(r, true)
		switch i % 4 {
		case 0:
			c.wire(r)
			o.Case(fmt.Sprintf("w%d/%d", seed, i), true)
			continue
		case 1: // same size pair
			y = vf18GenOfSize(r, x.a.Size(), true)
		}
		c.unary(r, x)
		c.binary(x, y)
		o.Case("p/"+vf18Arr(x.a)+"/"+vf18Arr(y.a), x.a != nil && y.a != nil)
		if i < 3 {
			o.Sample("or/and/sub/update " + vf18Arr(x.a) + " " + vf18Arr(y.a))
		}
		c.new(r)
	}
	// boundary pairs: every run; all pairs of sizes <= 130: thorough tier (split over the shards by seed)
	r := vfFork(seed, 1<<40)
	for _, p := range vf18Sizes {
		for _, q := range vf18Sizes {
			c.binary(vf18GenOfSize(r, p, false), vf18GenOfSize(r, q, false))
			o.Case(fmt.Sprintf("b/%d/%d/%d", seed, p, q), true)
		}
	}
	if vfThorough() {
		shards := vfEnvInt("VERIF_C18_SHARDS", 12)
		me := int(seed % 1000)
		k := 0
		for p := 0; p <= 130; p++ {
			for q := 0; q <= 130; q++ {
				k++
				if k%shards != me%shards {
					continue
				}
				for rep := 0; rep < 2; rep++ {
					c.binary(vf18GenOfSize(r, p, false), vf18GenOfSize(r, q, false))
				}
				o.Case(fmt.Sprintf("a/%d/%d", p, q), true)
				o.Stat("allpairs")
			}
		}
	}
}

func (c *vf18Ctx) new(r *vfRand) {
	n := r.Pick(-5, -1, 0, 1, 63, 64, 65, 128, 129, r.Intn(300))
	var res *BitArray
	line := fmt.Sprintf("new %d", n)
	_, p := c.run("new", line, true, func() string { res = NewBitArray(n); return vf18Arr(res) })
	if !p {
		c.checkWF("new", line, res)
		if (res == nil) != (n <= 0) {
			c.o.Viol("bitarray-spec/new", line)
		}
	}
}
