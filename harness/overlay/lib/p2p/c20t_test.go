package p2p

// C20 harness, transport part: "each side learns the other's true public key (a party without the
// private key cannot complete the handshake as that identity)" at the level where the node uses
// it - MultiplexTransport.Dial / Accept (transport.go `upgrade`). Real transports over loopback
// TCP; identities are drawn from a small table of keys so that the dialled ID, the key the
// listener actually holds, the ID it reports in its NodeInfo and our own ID can coincide or differ
// in every combination. Each outcome is compared with the Lean model `KV.Transport.upgrade`
// (model "transport") and checked against the statement directly: a Peer is only ever returned
// under the ID of the key that authenticated the encrypted connection.

import (
	"crypto/ecdsa"
	"fmt"
	"testing"
	"time"

	"github.com/kardiachain/go-kardia/lib/crypto"
	"github.com/kardiachain/go-kardia/lib/p2p/conn"
)

const c20tModel = "transport"

func c20tInfo(id ID, network string) NodeInfo {
	return DefaultNodeInfo{
		ProtocolVersion: defaultProtocolVersion,
		DefaultNodeID:   id,
		ListenAddr:      "127.0.0.1:26656",
		Network:         network,
		Version:         "1.2.3-rc0-deadbeef",
		Channels:        []byte{testCh},
		Moniker:         "c20t",
		Other:           DefaultNodeInfoOther{TxIndex: "on", RPCAddress: "127.0.0.1:26657"},
	}
}

func c20tClass(err error) string {
	if err == nil {
		return "ok"
	}
	if r, ok := err.(ErrRejected); ok {
		switch {
		case r.IsAuthFailure():
			return "auth"
		case r.IsSelf():
			return "self"
		case r.IsIncompatible():
			return "incompat"
		case r.IsNodeInfoInvalid():
			return "invalid"
		}
		return "rejected-other"
	}
	return "error"
}

func TestVerifC20Transport(t *testing.T) {
	o := vfOpen()
	defer o.Close()
	seed := vfSeed()
	n := vfN(60)
	keys := make([]*ecdsa.PrivateKey, 4)
	ids := make([]ID, 4)
	for i := range keys {
		k, err := crypto.GenerateKey()
		if err != nil {
			t.Fatal(err)
		}
		keys[i], ids[i] = k, PubKeyToID(k.PublicKey)
	}
	idx := func(id ID) int {
		for i, x := range ids {
			if x == id {
				return i
			}
		}
		return -1
	}
	for i := 0; i < n; i++ {
		r := vfFork(seed, uint64(i))
		// l: key of the listener, c: ID it reports; d: key of the dialer, dc: ID it reports; tg: dialled ID
		l := r.Intn(4)
		c, d, dc, tg := l, (l+1+r.Intn(3))%4, 0, l
		dc = d
		kind := "honest"
		switch r.Intn(10) {
		case 0, 1: // the listener reports another ID than its key's
			c, kind = (l+1+r.Intn(3))%4, "listener-claims-other"
		case 2, 3: // we dial an ID the listener has no key for; it reports its own
			tg, kind = (l+1+r.Intn(3))%4, "dial-wrong-id"
		case 4, 5: // ... and it reports exactly the ID we dialled
			tg = (l + 1 + r.Intn(3)) % 4
			c, kind = tg, "listener-claims-dialled"
		case 6: // the dialer reports another ID than its key's
			dc, kind = (d+1+r.Intn(3))%4, "dialer-claims-other"
		case 7: // arbitrary
			c, d, dc, tg, kind = r.Intn(4), r.Intn(4), r.Intn(4), r.Intn(4), "arbitrary"
		}
		netL, netD := "c20t", "c20t"
		if r.Chance(12) {
			netD = "c20t-other"
		}
		compat := 1
		if netL != netD {
			compat = 0
		}
		o.Op(c20tModel, "case", "ok")

		lt := NewMultiplexTransport(c20tInfo(ids[c], netL), NodeKey{PrivKey: keys[l]}, conn.DefaulKAIConnConfig())
		// generous limits: on a loaded machine a timeout must not masquerade as an authentication failure
		lt.handshakeTimeout, lt.dialTimeout, lt.filterTimeout = 30*time.Second, 30*time.Second, 30*time.Second
		la, err := NewNetAddressString(IDAddressString(ids[l], "127.0.0.1:0"))
		if err != nil {
			t.Fatal(err)
		}
		if err := lt.Listen(*la); err != nil {
			t.Fatal(err)
		}
		type acc struct {
			p   Peer
			err error
		}
		accc := make(chan acc, 1)
		go func() {
			p, err := lt.Accept(peerConfig{})
			accc <- acc{p, err}
		}()
		dt := NewMultiplexTransport(c20tInfo(ids[dc], netD), NodeKey{PrivKey: keys[d]}, conn.DefaulKAIConnConfig())
		dt.handshakeTimeout, dt.dialTimeout, dt.filterTimeout = 30*time.Second, 30*time.Second, 30*time.Second
		target := NewNetAddress(ids[tg], lt.listener.Addr())
		ctx := fmt.Sprintf("seed=%d case=%d %s: dialled id #%d at a listener holding key #%d reporting id #%d; dialer holds key #%d reports id #%d; networks %s/%s",
			seed, i, kind, tg, l, c, d, dc, netL, netD)

		var dp Peer
		var derr error
		done := make(chan struct{})
		go func() {
			defer close(done)
			dp, derr = dt.Dial(*target, peerConfig{})
		}()
		select {
		case <-done:
		case <-time.After(90 * time.Second):
			o.Viol("transport-dial-hangs", ctx)
			_ = lt.Close()
			continue
		}
		// ---- dialer side
		real := c20tClass(derr)
		if derr == nil {
			pid := dp.ID()
			real = fmt.Sprintf("ok id=%d", idx(pid))
			connKey := dp.(*peer).peerConn.ID()
			if pid != connKey {
				o.Viol("transport-peer-id-not-connection-key", fmt.Sprintf("Dial returned a Peer with ID #%d although the encrypted connection was authenticated with key #%d; %s", idx(pid), idx(connKey), ctx))
			}
			if pid != ids[tg] {
				o.Viol("transport-peer-id-not-dialled-id", fmt.Sprintf("Dial returned a Peer with ID #%d, dialled #%d; %s", idx(pid), tg, ctx))
			}
			if connKey != ids[l] {
				o.Viol("transport-connection-key-not-listener-key", ctx)
			}
		}
		o.Op(c20tModel, fmt.Sprintf("upg dialed=%d key=%d claim=%d self=%d aborted=0 compat=%d", tg, l, c, dc, compat), real)
		o.Stat("dial." + kind + "." + c20tClass(derr))

		// ---- listener side
		aborted := 0
		if tg != l {
			aborted = 1 // the dialer hangs up after the encrypted handshake, before sending its NodeInfo
		}
		select {
		case a := <-accc:
			realA := c20tClass(a.err)
			if a.err == nil {
				pid := a.p.ID()
				realA = fmt.Sprintf("ok id=%d", idx(pid))
				if ck := a.p.(*peer).peerConn.ID(); pid != ck || ck != ids[d] {
					o.Viol("transport-peer-id-not-connection-key", fmt.Sprintf("Accept returned a Peer with ID #%d, connection key #%d, the dialer's key is #%d; %s", idx(pid), idx(ck), d, ctx))
				}
			}
			o.Op(c20tModel, fmt.Sprintf("upg dialed=- key=%d claim=%d self=%d aborted=%d compat=%d", d, dc, c, aborted, compat), realA)
			o.Stat("accept." + kind + "." + c20tClass(a.err))
			if a.p != nil {
				_ = a.p.Stop()
				a.p.CloseConn()
			}
		case <-time.After(90 * time.Second):
			o.Viol("transport-accept-hangs", ctx)
		}
		if dp != nil {
			dp.CloseConn()
		}
		_ = lt.Close()
		_ = dt.Close()
		o.Case(fmt.Sprintf("%s/%d/%d/%d/%d/%d/%d", kind, l, c, d, dc, tg, compat), kind != "honest")
	}
}
