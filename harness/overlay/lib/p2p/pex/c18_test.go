package pex

// C18 (robustness of the PEX reactor): no bytes a peer sends to Reactor.Receive may panic, hang
// or allocate without bound (dropping the sending peer is allowed); afterwards a PexRequest from a
// fresh peer is still answered with PexAddrs and a solicited PexAddrs message is still consumed.
// Real address book (never started, nothing is written), real Switch (not listening), stub peers.

import (
	"bytes"
	"crypto/sha256"
	"encoding/binary"
	"encoding/hex"
	"fmt"
	"io"
	"net"
	"regexp"
	"runtime/debug"
	"runtime/metrics"
	"strings"
	"sync"
	"testing"
	"time"

	"github.com/gogo/protobuf/proto"

	"github.com/kardiachain/go-kardia/configs"
	"github.com/kardiachain/go-kardia/lib/crypto"
	"github.com/kardiachain/go-kardia/lib/log"
	"github.com/kardiachain/go-kardia/lib/p2p"
	"github.com/kardiachain/go-kardia/lib/p2p/conn"
	"github.com/kardiachain/go-kardia/lib/service"
	kp2p "github.com/kardiachain/go-kardia/proto/kardiachain/p2p"
)

// ---------------------------------------------------------------------------------------------
// generic helpers (self-contained; the same block is repeated in every C18 harness file)

const (
	vf18MaxHangs   = 3
	vf18AllocLimit = 64 << 20
	vf18MaxEnc     = 1 << 20 // the mutator never builds more than about this many bytes
)

// vf18Deadline is the watchdog limit of one call (VERIF_C18_DEADLINE_S overrides; default 10 s).
var vf18Deadline = time.Duration(vfEnvInt("VERIF_C18_DEADLINE_S", 10)) * time.Second

// vf18F is one protobuf wire-level field.
type vf18F struct {
	num  uint64
	wt   uint64 // 0 varint, 1 fixed64, 2 bytes, 5 fixed32
	v    uint64
	b    []byte
	sub  []*vf18F // parsed payload when it is itself well-formed wire data
	dlen int64    // added to the declared length of a bytes field
	rep  int      // extra repetitions when encoding
}

func vf18Parse(b []byte, depth int) ([]*vf18F, bool) {
	var out []*vf18F
	for len(b) > 0 {
		key, n := binary.Uvarint(b)
		if n <= 0 {
			return nil, false
		}
		b = b[n:]
		f := &vf18F{num: key >> 3, wt: key & 7}
		if f.num == 0 {
			return nil, false
		}
		switch f.wt {
		case 0:
			v, n := binary.Uvarint(b)
			if n <= 0 {
				return nil, false
			}
			f.v = v
			b = b[n:]
		case 1:
			if len(b) < 8 {
				return nil, false
			}
			f.b, b = b[:8], b[8:]
		case 5:
			if len(b) < 4 {
				return nil, false
			}
			f.b, b = b[:4], b[4:]
		case 2:
			l, n := binary.Uvarint(b)
			if n <= 0 || l > uint64(len(b)-n) {
				return nil, false
			}
			f.b = b[n : n+int(l)]
			b = b[n+int(l):]
			if depth < 6 && len(f.b) > 1 {
				if sub, ok := vf18Parse(f.b, depth+1); ok {
					f.sub = sub
				}
			}
		default:
			return nil, false
		}
		out = append(out, f)
	}
	return out, true
}

func vf18PutUvarint(dst []byte, v uint64) []byte {
	var tmp [10]byte
	n := binary.PutUvarint(tmp[:], v)
	return append(dst, tmp[:n]...)
}

func vf18Enc(fs []*vf18F) []byte {
	var out []byte
	for _, f := range fs {
		for k := 0; k <= f.rep && len(out) <= vf18MaxEnc; k++ {
			out = vf18PutUvarint(out, f.num<<3|f.wt)
			switch f.wt {
			case 0:
				out = vf18PutUvarint(out, f.v)
			case 2:
				p := f.b
				if f.sub != nil {
					p = vf18Enc(f.sub)
				}
				l := int64(len(p)) + f.dlen
				if l < 0 {
					l = 0
				}
				out = vf18PutUvarint(out, uint64(l))
				out = append(out, p...)
			default:
				out = append(out, f.b...)
			}
		}
	}
	return out
}

var vf18Huge = []uint64{0, 1, 1 << 31, 1<<32 - 1, 1 << 32, 1 << 62, 1<<63 - 1, 1 << 63, 1<<64 - 1, 1<<64 - 2}

func vf18RandField(r *vfRand) *vf18F {
	f := &vf18F{num: uint64(1 + r.Intn(20))}
	switch r.Intn(4) {
	case 0:
		f.wt, f.v = 0, vf18Huge[r.Intn(len(vf18Huge))]
	case 1:
		f.wt, f.b = 2, r.Bytes(r.Intn(40))
	case 2:
		f.wt, f.b = 1, r.Bytes(8)
	default:
		f.wt, f.b = 5, r.Bytes(4)
	}
	return f
}

// vf18Mut applies one structural mutation somewhere in the field tree and names it.
func vf18Mut(r *vfRand, fs []*vf18F, depth int) ([]*vf18F, string) {
	if len(fs) == 0 {
		return append(fs, vf18RandField(r)), "insert"
	}
	i := r.Intn(len(fs))
	f := fs[i]
	if f.sub != nil && depth < 6 && r.Chance(70) {
		sub, what := vf18Mut(r, f.sub, depth+1)
		f.sub = sub
		if sub == nil {
			f.sub, f.b = nil, nil
		}
		return fs, what
	}
	flat := func() []byte {
		if f.sub != nil {
			return vf18Enc(f.sub)
		}
		return f.b
	}
	switch r.Intn(14) {
	case 0:
		return append(append([]*vf18F{}, fs[:i]...), fs[i+1:]...), "drop"
	case 1:
		cp := *f
		out := append([]*vf18F{}, fs[:i+1]...)
		out = append(out, &cp)
		return append(out, fs[i+1:]...), "dup"
	case 2:
		f.wt, f.sub, f.b = 0, nil, nil
		f.v = vf18Huge[r.Intn(len(vf18Huge))]
		return fs, "hugevarint"
	case 3:
		if f.wt == 0 {
			f.v = vf18Huge[r.Intn(len(vf18Huge))]
			return fs, "hugevarint"
		}
		f.wt, f.sub, f.b = 2, nil, nil
		return fs, "empty"
	case 4:
		f.wt, f.sub, f.b = 2, nil, r.Bytes(r.Intn(48))
		return fs, "randpayload"
	case 5:
		p := flat()
		if f.wt == 2 && len(p) > 0 {
			f.sub, f.b = nil, append([]byte{}, p[:r.Intn(len(p))]...)
			return fs, "truncfield"
		}
		f.v ^= 1 << uint(r.Intn(64))
		return fs, "bitflip"
	case 6:
		f.num = uint64(r.Pick(1, 2, 3, 4, 5, 6, 7, 8, 15, 16, 99, 536870911))
		return fs, "renumber"
	case 7:
		if f.wt == 0 {
			f.wt, f.b = 2, r.Bytes(r.Intn(12))
		} else {
			f.wt, f.sub, f.b, f.v = 0, nil, nil, uint64(r.Intn(300))
		}
		return fs, "retype"
	case 8:
		j := r.Intn(len(fs))
		fs[i], fs[j] = fs[j], fs[i]
		return fs, "swap"
	case 9:
		out := append([]*vf18F{}, fs[:i]...)
		out = append(out, vf18RandField(r))
		return append(out, fs[i:]...), "insert"
	case 10:
		if f.wt == 2 {
			f.dlen = int64(r.Pick(1, 2, 5, 1000, 1<<31-1, 1<<31, 1<<62, -1, -3))
			return fs, "badlen"
		}
		f.v = uint64(-int64(1 + r.Intn(1000)))
		return fs, "negative"
	case 11:
		p := append([]byte{}, flat()...)
		if f.wt != 0 && len(p) > 0 {
			p[r.Intn(len(p))] ^= byte(1 << uint(r.Intn(8)))
			f.sub, f.b = nil, p
			return fs, "byteflip"
		}
		f.v = uint64(r.Intn(4))
		return fs, "smallvarint"
	case 12:
		f.rep = r.Pick(2, 10, 100, 1000)
		return fs, "repeat"
	default:
		if f.wt == 0 {
			f.v = uint64(-int64(r.Intn(3)) - 1)
			return fs, "negative"
		}
		f.sub, f.b = []*vf18F{}, nil
		return fs, "empty"
	}
}

// vf18Mutate returns a mutation of a valid encoding (1..3 structural steps, sometimes followed
// by a byte-level step) and a label.
func vf18Mutate(r *vfRand, valid []byte) ([]byte, string) {
	fs, ok := vf18Parse(valid, 0)
	var label string
	out := valid
	if ok {
		steps := 1 + r.Intn(3)
		var names []string
		for k := 0; k < steps; k++ {
			var w string
			fs, w = vf18Mut(r, fs, 0)
			names = append(names, w)
		}
		label = strings.Join(names, "+")
		out = vf18Enc(fs)
	} else {
		label = "raw"
	}
	if !ok || r.Chance(25) {
		out = append([]byte{}, out...)
		switch r.Intn(4) {
		case 0:
			if len(out) > 0 {
				out = out[:r.Intn(len(out))]
			}
			label += "+cut"
		case 1:
			if len(out) > 0 {
				out[r.Intn(len(out))] ^= byte(1 << uint(r.Intn(8)))
			}
			label += "+flip"
		case 2:
			out = append(out, r.Bytes(1+r.Intn(8))...)
			label += "+tail"
		default:
			if len(out) > 0 {
				out[r.Intn(len(out))] = byte(r.Pick(0x00, 0x7f, 0x80, 0xff))
			}
			label += "+set"
		}
	}
	if len(out) > 1<<20 {
		out = out[:1<<20]
	}
	return out, label
}

type vf18Res struct {
	pan   interface{}
	stack string
	hung  bool
	alloc uint64
}

var vf18Sample = []metrics.Sample{{Name: "/gc/heap/allocs:bytes"}}

func vf18Alloc() uint64 {
	metrics.Read(vf18Sample)
	if vf18Sample[0].Value.Kind() != metrics.KindUint64 {
		return 0
	}
	return vf18Sample[0].Value.Uint64()
}

// vf18Call runs f in its own goroutine under recover with a deadline and measures the bytes
// allocated while it ran (nothing else runs meanwhile).
func vf18Call(f func()) vf18Res {
	done := make(chan vf18Res, 1)
	a0 := vf18Alloc()
	go func() {
		var res vf18Res
		defer func() {
			if p := recover(); p != nil {
				res.pan = p
				res.stack = string(debug.Stack())
			}
			done <- res
		}()
		f()
	}()
	t := time.NewTimer(vf18Deadline)
	defer t.Stop()
	select {
	case res := <-done:
		res.alloc = vf18Alloc() - a0
		return res
	case <-t.C:
		return vf18Res{hung: true}
	}
}

var (
	vf18ReHex = regexp.MustCompile(`0x[0-9a-fA-F]+|[0-9]+`)
	vf18ReBad = regexp.MustCompile(`[^a-z]+`)
)

// vf18Cause maps a panic value to a short stable tag (no numbers, no addresses).
func vf18Cause(p interface{}) string {
	s := strings.ToLower(fmt.Sprint(p))
	s = vf18ReHex.ReplaceAllString(s, "")
	s = strings.Trim(vf18ReBad.ReplaceAllString(s, "-"), "-")
	if len(s) > 48 {
		s = s[:48]
	}
	return s
}

// vf18Frame returns the innermost repository frame of a panic stack (function name only).
func vf18Frame(stack string) string {
	lines := strings.Split(stack, "\n")
	seenPanic := false
	for i := 0; i+1 < len(lines); i++ {
		l := lines[i]
		if strings.HasPrefix(l, "panic(") {
			seenPanic = true
			continue
		}
		if !seenPanic || !strings.Contains(l, "go-kardia/") || strings.Contains(l, "vf18") {
			continue
		}
		loc := strings.TrimSpace(lines[i+1])
		if k := strings.Index(loc, " +0x"); k >= 0 {
			loc = loc[:k]
		}
		if k := strings.LastIndex(l, "("); k >= 0 {
			l = l[:k]
		}
		return l + " @ " + loc
	}
	return "?"
}

func vf18Short(b []byte) string {
	h := vfHex(b)
	if len(h) > 400 {
		h = h[:400] + fmt.Sprintf("...(%d bytes)", len(b))
	}
	return h
}

// vf18Peer is a stub p2p.Peer that records what the reactor sends to it.
type vf18Peer struct {
	*service.BaseService
	id   p2p.ID
	ip   net.IP
	addr *p2p.NetAddress
	mtx  sync.Mutex
	sent [][]byte // chID byte followed by the message
	kv   map[string]interface{}
}

var vf18PeerCtr uint64

func vf18NewPeer() *vf18Peer {
	vf18PeerCtr++
	h := sha256.Sum256([]byte(fmt.Sprintf("vf18-peer-%d", vf18PeerCtr)))
	id := p2p.ID(hex.EncodeToString(h[:20]))
	ip := net.IPv4(byte(11+h[20]%100), h[21], h[22], byte(1+h[23]%250))
	addr := p2p.NewNetAddressIPPort(ip, 26656)
	addr.ID = id
	p := &vf18Peer{id: id, ip: ip, addr: addr, kv: map[string]interface{}{}}
	p.BaseService = service.NewBaseService(nil, "vf18Peer", p)
	if err := p.Start(); err != nil {
		panic(err)
	}
	return p
}

func (p *vf18Peer) FlushStop() { _ = p.Stop() }
func (p *vf18Peer) ID() p2p.ID { return p.id }
func (p *vf18Peer) RemoteIP() net.IP { return p.ip }
func (p *vf18Peer) RemoteAddr() net.Addr { return &net.TCPAddr{IP: p.ip, Port: 26656} }
func (p *vf18Peer) IsOutbound() bool { return false }
func (p *vf18Peer) IsPersistent() bool { return false }
func (p *vf18Peer) CloseConn() error { return nil }
func (p *vf18Peer) NodeInfo() p2p.NodeInfo {
	return p2p.DefaultNodeInfo{DefaultNodeID: p.id, ListenAddr: p.addr.DialString()}
}
func (p *vf18Peer) Status() conn.ConnectionStatus { return conn.ConnectionStatus{} }
func (p *vf18Peer) SocketAddr() *p2p.NetAddress { return p.addr }
func (p *vf18Peer) String() string { return "vf18Peer{" + string(p.id) + "}" }
func (p *vf18Peer) Send(ch byte, b []byte) bool { return p.TrySend(ch, b) }
func (p *vf18Peer) TrySend(ch byte, b []byte) bool {
	p.mtx.Lock()
	defer p.mtx.Unlock()
	if len(p.sent) < 4096 {
		p.sent = append(p.sent, append([]byte{ch}, b...))
	}
	return true
}
func (p *vf18Peer) Set(k string, v interface{}) {
	p.mtx.Lock()
	defer p.mtx.Unlock()
	p.kv[k] = v
}
func (p *vf18Peer) Get(k string) interface{} {
	p.mtx.Lock()
	defer p.mtx.Unlock()
	return p.kv[k]
}
func (p *vf18Peer) take() [][]byte {
	p.mtx.Lock()
	defer p.mtx.Unlock()
	s := p.sent
	p.sent = nil
	return s
}

// vf18Logger formats every record at Info and above (so that String methods of peer-controlled
// values run as they would in production) and throws the text away.
func vf18Logger() log.Logger {
	l := log.New()
	vf18LogMode(l, true)
	return l
}

// vf18LogMode switches between the formatting handler and a discarding one (used for very large
// inputs, where formatting the raw bytes of the message dominates time and allocation).
func vf18LogMode(l log.Logger, format bool) {
	if format {
		l.SetHandler(log.LvlFilterHandler(log.LvlInfo, log.StreamHandler(io.Discard, log.TerminalFormat(false))))
	} else {
		l.SetHandler(log.DiscardHandler())
	}
}

// vf18Switch makes a real, not started, not listening Switch.
func vf18Switch() *p2p.Switch {
	priv, err := crypto.HexToECDSA("b71c71a67e1177ad4e901695e1b4b9ee17ae16c6668d313eac2f96dbcda3f291")
	if err != nil {
		panic(err)
	}
	nodeKey := p2p.NodeKey{PrivKey: priv}
	cfg := configs.DefaultP2PConfig()
	ni := p2p.DefaultNodeInfo{DefaultNodeID: nodeKey.ID(), ListenAddr: "127.0.0.1:26656", Network: "vf18",
		Version: "1.0.0", Moniker: "vf18"}
	tr := p2p.NewMultiplexTransport(ni, nodeKey, p2p.MConnConfig(cfg))
	sw := p2p.NewSwitch(cfg, tr)
	sw.SetLogger(vf18Logger())
	sw.SetNodeKey(&nodeKey)
	sw.SetNodeInfo(ni)
	return sw
}

// ---------------------------------------------------------------------------------------------
// PEX specific part

const vf18Name = "pex"

type vf18Env struct {
	o     *vfOut
	r     *Reactor
	book  AddrBook
	sw    *p2p.Switch
	seed  bool
	actr  uint64
	dead  bool
	hangs int
	hit   bool
}

func (x *vf18Env) fresh(seedMode bool) {
	x.book = NewAddrBook("/nonexistent/vf18/never-written-addrbook.json", true)
	x.book.SetLogger(vf18Logger())
	x.r = NewReactor(x.book, &ReactorConfig{SeedMode: seedMode})
	x.r.SetLogger(vf18Logger())
	x.sw = vf18Switch()
	x.sw.SetAddrBook(x.book)
	x.sw.AddReactor("PEX", x.r)
	x.seed = seedMode
	x.dead = false
	// some content for GetSelection
	for i := 0; i < 30; i++ {
		a := x.addr()
		_ = x.book.AddAddress(a, a)
	}
}

// addr makes a new valid routable address.
func (x *vf18Env) addr() *p2p.NetAddress {
	x.actr++
	h := sha256.Sum256([]byte(fmt.Sprintf("vf18-addr-%d", x.actr)))
	ip := net.IPv4(byte(130+h[20]%30), h[21], h[22], byte(1+h[23]%250)) // 130..159: routable
	a := p2p.NewNetAddressIPPort(ip, uint16(1024+int(h[24])*16))
	a.ID = p2p.ID(hex.EncodeToString(h[:20]))
	return a
}

func (x *vf18Env) addPeer() *vf18Peer {
	p := vf18NewPeer()
	p2p.AddPeerToSwitchPeerSet(x.sw, p)
	x.r.AddPeer(p)
	return p
}

// vf18Kind classifies an input the way the reactor's decoder sees it.
func vf18Kind(bz []byte) (kind string, decoded bool) {
	defer func() {
		if p := recover(); p != nil {
			kind, decoded = "decode-panic", false
		}
	}()
	m, err := decodeMsg(bz)
	if err != nil {
		return "undecodable", false
	}
	switch m.(type) {
	case *kp2p.PexRequest:
		return "PexRequest", true
	case *kp2p.PexAddrs:
		return "PexAddrs", true
	}
	return "other", true
}

func (x *vf18Env) guarded(what, kind string, input []byte, f func()) bool {
	res := vf18Call(f)
	switch {
	case res.hung:
		x.o.Viol(fmt.Sprintf("hang-in-%s/%s/%s", what, vf18Name, kind),
			fmt.Sprintf("no return within %v; seedmode=%v input=%s", vf18Deadline, x.seed, vf18Short(input)))
		x.o.w.Flush()
		x.hangs++
		x.dead = true
		return false
	case res.pan != nil:
		x.o.Viol(fmt.Sprintf("panic-in-%s/%s/%s/%s", what, vf18Name, kind, vf18Cause(res.pan)),
			fmt.Sprintf("panic: %v; at %s; seedmode=%v input=%s", res.pan, vf18Frame(res.stack), x.seed, vf18Short(input)))
		return false
	}
	if res.alloc > vf18AllocLimit {
		x.o.Viol(fmt.Sprintf("alloc-in-%s/%s/%s", what, vf18Name, kind),
			fmt.Sprintf("%d bytes allocated by one message of %d bytes; input=%s", res.alloc, len(input), vf18Short(input)))
	}
	return true
}

func (x *vf18Env) feed(p *vf18Peer, stream string, bz []byte, solicit bool) {
	kind, decoded := vf18Kind(bz)
	x.o.Stat("recv/" + stream)
	x.o.Stat("kind/" + stream + "/" + kind)
	if decoded {
		x.o.Stat("decoded/" + stream)
		if stream == "mutated" {
			x.hit = true
		}
	}
	if solicit {
		// we asked this peer for addresses, so that a PexAddrs answer reaches the address book
		x.r.RequestAddrs(p)
		x.o.Stat("solicited/" + stream)
	}
	tag := kind
	if stream == "random" {
		tag = "random"
	}
	big := len(bz) > 16<<10
	if big {
		vf18LogMode(x.r.Logger, false)
		x.o.Stat("recv/big")
	}
	before := x.book.Size()
	x.guarded("receive", fmt.Sprintf("0x%02x/%s", PexChannel, tag), bz, func() { x.r.Receive(PexChannel, p, bz) })
	if big {
		vf18LogMode(x.r.Logger, true)
	}
	if !x.dead {
		if d := x.book.Size() - before; d > 0 {
			x.o.StatN("book-grew/"+stream, d)
		}
	}
}

func (x *vf18Env) valid(r *vfRand) (proto.Message, string) {
	if r.Chance(35) {
		return &kp2p.PexRequest{}, "PexRequest"
	}
	var as []*p2p.NetAddress
	for n := r.Pick(0, 1, 2, 3, 10, 250); n > 0; n-- {
		as = append(as, x.addr())
	}
	return &kp2p.PexAddrs{Addrs: p2p.NetAddressesToProto(as)}, "PexAddrs"
}

// odd: structurally legal PexAddrs with contents no honest peer sends.
func (x *vf18Env) odd(r *vfRand) []byte {
	ips := []string{"", "0.0.0.0", "127.0.0.1", "10.1.2.3", "255.255.255.255", "::", "::1", "fe80::1", "2001:db8::1", "1.2.3", "1.2.3.4.5",
		"999.1.1.1", "1.2.3.4:80", "[::1]", "::ffff:1.2.3.4", strings.Repeat("1", 300), "1.2.3.4\x00", "٣.٣.٣.٣"}
	ids := []string{"", "zz", strings.Repeat("a", 40), strings.Repeat("A", 40), strings.Repeat("0", 39), strings.Repeat("f", 41), strings.Repeat("g", 40),
		string(x.addr().ID), strings.Repeat("ab", 2000), "\x00\xff"}
	m := &kp2p.PexAddrs{}
	for n := r.Pick(1, 2, 5, 300, 2000); n > 0; n-- {
		a := kp2p.NetAddress{ID: ids[r.Intn(len(ids))], IP: ips[r.Intn(len(ips))], Port: uint32(vf18Huge[r.Intn(len(vf18Huge))])}
		if r.Chance(50) {
			g := x.addr().ToProto()
			switch r.Intn(3) {
			case 0:
				g.IP = a.IP
			case 1:
				g.ID = a.ID
			default:
				g.Port = uint32(r.Pick(0, 1, 65535, 65536, 1<<31))
			}
			a = g
		}
		m.Addrs = append(m.Addrs, a)
	}
	return mustEncode(m)
}

func (x *vf18Env) roundTrip(m proto.Message, kind string) []byte {
	bz := mustEncode(m)
	d, err := decodeMsg(bz)
	if err != nil || fmt.Sprintf("%T", d) != fmt.Sprintf("%T", m) || !bytes.Equal(mustEncode(d), bz) {
		x.o.Viol("roundtrip/"+vf18Name+"/"+kind, fmt.Sprintf("err=%v %T -> %T input=%s", err, m, d, vf18Short(bz)))
		return bz
	}
	if pa, ok := d.(*kp2p.PexAddrs); ok {
		nas, err := p2p.NetAddressesFromProto(pa.Addrs)
		orig := m.(*kp2p.PexAddrs)
		same := err == nil && len(nas) == len(orig.Addrs)
		for i := 0; same && i < len(nas); i++ {
			same = nas[i].ToProto() == orig.Addrs[i]
		}
		if !same {
			x.o.Viol("roundtrip/"+vf18Name+"/"+kind+"/netaddress", fmt.Sprintf("addresses changed by the round trip: err=%v input=%s", err, vf18Short(bz)))
			return bz
		}
	}
	x.o.Stat("roundtrip/ok/" + kind)
	return bz
}

func (x *vf18Env) probeStep(what string, f func() string) bool {
	var msg string
	res := vf18Call(func() { msg = f() })
	switch {
	case res.hung:
		x.o.Viol("health-probe-hang/"+vf18Name+"/"+what, fmt.Sprintf("did not finish within %v (seedmode=%v)", vf18Deadline, x.seed))
		x.o.w.Flush()
		x.hangs++
		x.dead = true
		return false
	case res.pan != nil:
		x.o.Viol("health-probe-failed/"+vf18Name+"/"+what, fmt.Sprintf("panic: %v at %s (seedmode=%v)", res.pan, vf18Frame(res.stack), x.seed))
		return false
	case msg != "":
		x.o.Viol("health-probe-failed/"+vf18Name+"/"+what, fmt.Sprintf("%s (seedmode=%v)", msg, x.seed))
		return false
	}
	return true
}

// probe: a fresh peer's PexRequest is answered with PexAddrs; a solicited PexAddrs is consumed
// and its address lands in the book; the book's lock is free.
func (x *vf18Env) probe() {
	if x.dead {
		return
	}
	x.o.Stat("probe/run")
	p := x.addPeer()
	ok := x.probeStep("request-answered", func() string {
		p.take()
		x.r.Receive(PexChannel, p, mustEncode(&kp2p.PexRequest{}))
		var got *kp2p.PexAddrs
		for _, s := range p.take() {
			if s[0] != PexChannel {
				continue
			}
			if m, err := decodeMsg(s[1:]); err == nil {
				if pa, isPA := m.(*kp2p.PexAddrs); isPA {
					got = pa
				}
			}
		}
		if got == nil {
			return "a PexRequest from a fresh peer was not answered with PexAddrs"
		}
		if len(got.Addrs) == 0 || len(got.Addrs) > maxGetSelection {
			return fmt.Sprintf("the PexAddrs answer carries %d addresses (book size %d)", len(got.Addrs), x.book.Size())
		}
		if _, err := p2p.NetAddressesFromProto(got.Addrs); err != nil {
			return "the PexAddrs answer does not convert back: " + err.Error()
		}
		return ""
	})
	if x.seed {
		// a seed answers once and hangs up (in a goroutine); use another peer for the second half
		p = x.addPeer()
	}
	ok = ok && x.probeStep("addrs-consumed", func() string {
		a := x.addr()
		x.r.RequestAddrs(p)
		x.r.Receive(PexChannel, p, mustEncode(&kp2p.PexAddrs{Addrs: []kp2p.NetAddress{a.ToProto()}}))
		if !p.IsRunning() {
			return "the honest peer was stopped for a solicited PexAddrs"
		}
		if !x.book.HasAddress(a) {
			return fmt.Sprintf("the solicited address %v is not in the book", a)
		}
		return ""
	})
	ok = ok && x.probeStep("book-usable", func() string {
		_ = x.book.Size()
		_ = x.book.GetSelection()
		_ = x.book.PickAddress(50)
		return ""
	})
	if ok {
		x.o.Stat("probe/ok")
	}
	if !x.dead {
		x.probeStep("remove-peer", func() string {
			if p.IsRunning() {
				x.sw.StopPeerGracefully(p)
			}
			return ""
		})
	}
}

// flood: well-formed solicited PexAddrs with a content no honest peer sends - one node id announced
// under many networks (it is filed in several buckets of the book), then more distinct node ids of
// its first network than a bucket holds (the bucket overflows and expires its oldest entries),
// optionally the same for a second id. Afterwards the book must still answer requests (probe).
func (x *vf18Env) flood(r *vfRand, p *vf18Peer) {
	x.o.Stat("flood/run")
	mkID := func() string { return string(x.addr().ID) }
	send := func(as []kp2p.NetAddress) {
		if x.dead {
			return
		}
		if !p.IsRunning() {
			p = x.addPeer()
		}
		x.feed(p, "flood", mustEncode(&kp2p.PexAddrs{Addrs: as}), true)
	}
	for rep := 1 + r.Intn(2); rep > 0; rep-- {
		a, b := byte(130+r.Intn(30)), byte(r.Intn(256))
		xid := mkID()
		send([]kp2p.NetAddress{{ID: xid, IP: fmt.Sprintf("%d.%d.1.1", a, b), Port: 26656}})
		time.Sleep(2 * time.Millisecond) // strictly the oldest entry of its bucket
		for i, n := 0, 4+r.Intn(28); i < n; i++ {
			send([]kp2p.NetAddress{{ID: xid, IP: fmt.Sprintf("%d.%d.1.1", 130+(int(a)-130+1+i%29)%30, r.Intn(256)), Port: 26656}})
		}
		var fill []kp2p.NetAddress
		for i, n := 0, 60+r.Intn(50); i < n; i++ {
			fill = append(fill, kp2p.NetAddress{ID: mkID(), IP: fmt.Sprintf("%d.%d.%d.%d", a, b, 2+i/200, 1+i%200), Port: 26656})
		}
		for len(fill) > 0 {
			k := r.Pick(1, 10, 100, 250)
			if k > len(fill) {
				k = len(fill)
			}
			send(fill[:k])
			fill = fill[k:]
		}
	}
	if !x.dead {
		x.probe()
	}
}

func TestVerifC18Pex(t *testing.T) {
	o := vfOpen()
	defer o.Close()
	x := &vf18Env{o: o}
	N := vfN(300)
	for i := 0; i < N && x.hangs < vf18MaxHangs; i++ {
		r := vfFork(vfSeed(), uint64(i))
		x.hit = false
		x.fresh(r.Chance(20))
		if x.seed {
			o.Stat("mode/seed")
		} else {
			o.Stat("mode/normal")
		}
		h := sha256.New()
		p := x.addPeer()
		nmsg := 40 + r.Intn(40)
		since := 0
		for k := 0; k < nmsg && x.hangs < vf18MaxHangs; k++ {
			if x.dead {
				x.fresh(x.seed)
				p = x.addPeer()
			}
			if !p.IsRunning() {
				o.Stat("peer-stopped")
				p = x.addPeer()
			}
			var bz []byte
			stream, label := "", ""
			switch d := r.Intn(100); {
			case d < 20:
				stream = "random"
				l := r.Intn(300)
				if r.Chance(1) {
					l = 100000 + r.Intn(50000)
				}
				bz = r.Bytes(l)
				if r.Chance(30) && l > 2 {
					bz[0] = byte(r.Pick(0x0a, 0x12))
					bz[1] = byte(r.Intn(l))
				}
			case d < 40:
				stream = "valid"
				m, kind := x.valid(r)
				bz, label = x.roundTrip(m, kind), kind
			case d < 55:
				stream, label = "mutated", "odd"
				bz = x.odd(r)
			default:
				stream = "mutated"
				m, _ := x.valid(r)
				if r.Chance(70) {
					m = &kp2p.PexAddrs{Addrs: p2p.NetAddressesToProto([]*p2p.NetAddress{x.addr(), x.addr(), x.addr()})}
				}
				bz, label = vf18Mutate(r, mustEncode(m))
			}
			h.Write(bz)
			h.Write([]byte{0xff})
			before := p.IsRunning()
			x.feed(p, stream, bz, r.Chance(70))
			if x.seed {
				time.Sleep(50 * time.Microsecond) // let the seed's hang-up goroutine run
			}
			if before && !p.IsRunning() {
				o.Stat("peer-stopped/" + stream)
			}
			if i < 3 && k < 4 {
				o.Sample(fmt.Sprintf("%s %s %s", stream, label, vf18Short(bz)))
			}
			since++
			if since >= 20 && !x.dead {
				x.probe()
				since = 0
			}
		}
		if !x.dead {
			x.probe()
		}
		if !x.dead && !x.seed && i%4 == 1 {
			x.flood(r, p)
		}
		o.Case(hex.EncodeToString(h.Sum(nil)), x.hit)
	}
	if x.hangs >= vf18MaxHangs {
		o.Stat("aborted-after-hangs")
	}
}

var _ = binary.Size
var _ = configs.DefaultP2PConfig
var _ = crypto.Keccak256
