package conn

// C20 harness: peer connections are authenticated, tamper-evident, ordered and exactly-once.
//
//  (A1) differential of SecretConnection.Write/Read against the Lean model `secretconn`
//       (frame layout seen by a tap that decrypts with the test's keys, recvBuffer, nonces,
//       man-in-the-middle operations on whole frames) + stream oracle;
//  (A2) differential of Channel.isSendPending/nextPacketMsg (through the real
//       MConnection.sendPacketMsg scheduler) and Channel.recvPacketMsg against the model `mconn`
//       + per-channel exactly-once oracle;
//  (B1) end to end over a real handshake: concurrent writers, random read sizes;
//  (B2) every frame manipulation at every position of a short conversation;
//  (B3) two started MConnections over SecretConnections over net.Pipe: message mixes up to and
//       beyond capacity;
//  (B4) handshake attackers that do not hold the impersonated private key.
//
// The oracle clauses are written from the property statement and do not use the model.

import (
	"bytes"
	"crypto/ecdsa"
	"encoding/binary"
	"encoding/hex"
	"fmt"
	"io"
	"net"
	"strings"
	"sync"
	"sync/atomic"
	"testing"
	"time"

	"github.com/gtank/merlin"
	"golang.org/x/crypto/chacha20poly1305"

	"github.com/kardiachain/go-kardia/lib/crypto"
	"github.com/kardiachain/go-kardia/lib/log"
	"github.com/kardiachain/go-kardia/lib/protoio"
	"github.com/kardiachain/go-kardia/lib/timer"
	kp2p "github.com/kardiachain/go-kardia/proto/kardiachain/p2p"
)

const vfSealed = 1024 + 4 + 16 // written from the protocol description, not from the constants

// vfWire is an in-memory, non-blocking byte pipe (Read on empty returns io.EOF).
type vfWire struct{ b []byte }

func (w *vfWire) Write(p []byte) (int, error) { w.b = append(w.b, p...); return len(p), nil }
func (w *vfWire) Read(p []byte) (int, error) {
	if len(w.b) == 0 {
		return 0, io.EOF
	}
	n := copy(p, w.b)
	w.b = w.b[n:]
	return n, nil
}
func (w *vfWire) Close() error { return nil }

// vfNetConn: vfWire with the net.Conn method set (only Read/Write/Close are ever called).
type vfNetConn struct {
	net.Conn
	w vfWire
}

func (c *vfNetConn) Write(p []byte) (int, error) { return c.w.Write(p) }
func (c *vfNetConn) Read(p []byte) (int, error)  { return c.w.Read(p) }
func (c *vfNetConn) Close() error                { return nil }

func vfNonce(i uint64) []byte {
	n := make([]byte, 12)
	binary.LittleEndian.PutUint64(n[4:], i)
	return n
}
func vfCounter(n *[aeadNonceSize]byte) uint64 { return binary.LittleEndian.Uint64(n[4:]) }

func vfSum(b []byte) int {
	acc := 0
	for i, x := range b {
		acc = (acc + int(x)*(i%251+1)) % 1000003
	}
	return acc
}

func vfErrKind(err error) string {
	switch {
	case err == io.EOF || err == io.ErrUnexpectedEOF:
		return "eof"
	case strings.Contains(err.Error(), "failed to decrypt"):
		return "decrypt"
	case strings.Contains(err.Error(), "chunkLength is greater"):
		return "toolong"
	}
	return "other"
}

func vfPickSize(r *vfRand) int {
	switch r.Intn(8) {
	case 0:
		return r.Pick(0, 1, 2)
	case 1:
		return r.Pick(1023, 1024, 1025)
	case 2:
		return r.Pick(2047, 2048, 2049, 3072, 3073)
	case 3:
		return r.Intn(5000)
	default:
		return 1 + r.Intn(300)
	}
}

func vfPickBuf(r *vfRand) int {
	switch r.Intn(8) {
	case 0:
		return r.Pick(0, 1, 1, 2)
	case 1:
		return r.Pick(1023, 1024, 1025)
	case 2:
		return r.Pick(2048, 4096, 65536)
	default:
		return 1 + r.Intn(1500)
	}
}

func vfCloneSC(sc *SecretConnection, conn io.ReadWriteCloser) *SecretConnection {
	c := &SecretConnection{
		conn: conn, recvAead: sc.recvAead, sendAead: sc.sendAead,
		recvNonce: new([aeadNonceSize]byte), sendNonce: new([aeadNonceSize]byte),
	}
	*c.recvNonce = *sc.recvNonce
	*c.sendNonce = *sc.sendNonce
	return c
}

// ---------------------------------------------------------------- (A1) frame layer

func vfSecretCase(o *vfOut, r *vfRand) {
	const model = "secretconn"
	aead, _ := chacha20poly1305.New(r.Bytes(32))
	other, _ := chacha20poly1305.New(r.Bytes(32))
	wire := &vfWire{}
	snd := &SecretConnection{conn: wire, sendAead: aead, recvAead: other,
		sendNonce: new([aeadNonceSize]byte), recvNonce: new([aeadNonceSize]byte)}
	rcv := &SecretConnection{conn: wire, sendAead: other, recvAead: aead,
		sendNonce: new([aeadNonceSize]byte), recvNonce: new([aeadNonceSize]byte)}
	o.Op(model, "case", "ok")

	var W, D []byte   // bytes written / delivered so far
	var carried []int // bytes carried by every frame sealed by the sender, in order (observed by the tap)
	var hist [][]byte // every sealed frame
	consumed := 0     // frames taken off the wire by the reader
	clean := -1       // bytes deliverable before the first affected frame; -1: wire untouched
	errored, cut := false, false
	mode := r.Intn(10) // 0..5 clean, 6..8 one manipulation, 9 crafted frames
	mitmAt := -1
	nops := 3 + r.Intn(14)
	if mode >= 6 && mode <= 8 {
		mitmAt = 1 + r.Intn(nops-1)
	}
	key := fmt.Sprintf("s:%d", mode)

	sumTo := func(p int) int {
		s := 0
		for j := 0; j < p && j < len(carried); j++ {
			s += carried[j]
		}
		return s
	}
	tapFrame := func(fr []byte) string {
		idx := len(hist)
		hist = append(hist, append([]byte{}, fr...))
		plain, err := aead.Open(nil, vfNonce(uint64(idx)), fr, nil)
		if err != nil {
			o.Viol("frame-nonce-not-counter", fmt.Sprintf("frame %d does not open under nonce %d", idx, idx))
			carried = append(carried, 0)
			return "garbage"
		}
		l := int(binary.LittleEndian.Uint32(plain))
		ll := l
		if ll > len(plain)-4 {
			ll = len(plain) - 4
		}
		carried = append(carried, l)
		return fmt.Sprintf("%d:%s:%d:%d", idx, hex.EncodeToString(plain[:4]), len(plain), vfSum(plain[4:4+ll]))
	}
	doRead := func(bs int) (int, error) {
		buf := make([]byte, bs)
		wb := len(wire.b)
		var n int
		var err error
		if vfGuard(o, "panic-read", func() string { return key }, func() { n, err = rcv.Read(buf) }) {
			return 0, io.ErrClosedPipe
		}
		consumed += (wb - len(wire.b) + vfSealed - 1) / vfSealed
		var real string
		if err == nil {
			D = append(D, buf[:n]...)
			real = "ok " + vfHex(buf[:n])
		} else {
			real = "err " + vfErrKind(err)
		}
		real += fmt.Sprintf(" buf=%d nonce=%d", len(rcv.recvBuffer), vfCounter(rcv.recvNonce))
		o.Op(model, fmt.Sprintf("read %d", bs), real)
		// ---- oracle
		if !bytes.HasPrefix(W, D) {
			o.Viol("stream-not-prefix", fmt.Sprintf("%s delivered %d bytes that are not a prefix of the %d written", key, len(D), len(W)))
		}
		if clean >= 0 && !errored && len(D) > clean {
			o.Viol("delivered-beyond-tamper", fmt.Sprintf("%s delivered=%d clean=%d", key, len(D), clean))
		}
		if err != nil && !errored {
			errored = true
			if clean < 0 {
				if vfErrKind(err) != "eof" || len(D) != len(W) {
					o.Viol("spurious-read-error", fmt.Sprintf("%s err=%v delivered=%d written=%d", key, err, len(D), len(W)))
				}
			} else if len(D) != clean {
				o.Viol("tamper-error-before-clean-prefix", fmt.Sprintf("%s delivered=%d clean=%d err=%v", key, len(D), clean, err))
			}
		}
		return n, err
	}

	for op := 0; op < nops; op++ {
		nfw := len(wire.b) / vfSealed
		switch {
		case op == mitmAt && !cut:
			kind := []string{"drop", "dup", "swap", "flip", "cut", "replay"}[r.Intn(6)]
			i := r.Intn(nfw + 1)
			if r.Chance(70) && nfw > 0 {
				i = r.Intn(nfw)
			}
			fr := func(j int) []byte { return wire.b[j*vfSealed : (j+1)*vfSealed] }
			real, affected := "noop", -1
			switch kind {
			case "drop":
				if i < nfw {
					wire.b = append(append([]byte{}, wire.b[:i*vfSealed]...), wire.b[(i+1)*vfSealed:]...)
					real, affected = "ok", i
				}
			case "dup":
				if i < nfw {
					nb := append([]byte{}, wire.b[:(i+1)*vfSealed]...)
					nb = append(nb, fr(i)...)
					wire.b = append(nb, wire.b[(i+1)*vfSealed:]...)
					real, affected = "ok", i+1
				}
			case "swap":
				if i+1 < nfw {
					nb := append([]byte{}, wire.b...)
					copy(nb[i*vfSealed:], fr(i+1))
					copy(nb[(i+1)*vfSealed:], fr(i))
					wire.b = nb
					real, affected = "ok", i
				}
			case "flip":
				if i < nfw {
					nb := append([]byte{}, wire.b...)
					nb[i*vfSealed+r.Intn(vfSealed)] ^= byte(1 << uint(r.Intn(8)))
					wire.b = nb
					real, affected = "ok", i
				}
			case "cut":
				if i < nfw {
					wire.b = append([]byte{}, wire.b[:i*vfSealed+r.Intn(vfSealed)]...)
					real, affected, cut = "ok", i, true
				}
			case "replay":
				i = r.Intn(len(hist) + 1)
				if i < len(hist) {
					wire.b = append(append([]byte{}, hist[i]...), wire.b...)
					real, affected = "ok", 0
					if i == consumed { // the very frame that is next anyway: a duplicate of it
						affected = 1
					}
				}
			}
			if affected >= 0 {
				clean = sumTo(consumed + affected)
				o.Stat("mitm." + kind)
			}
			o.Op(model, fmt.Sprintf("mitm %s %d", kind, i), real)
		case mode == 9 && r.Chance(25) && !cut:
			l := r.Pick(0, 1, 5, 1024, 1025, 2000, 70000, 1<<31, 1<<32-1)
			d := r.Bytes(r.Pick(0, 1, 5, 1024))
			frame := make([]byte, 1028)
			binary.LittleEndian.PutUint32(frame, uint32(l))
			copy(frame[4:], d)
			sealed := snd.sendAead.Seal(nil, snd.sendNonce[:], frame, nil)
			incrNonce(snd.sendNonce)
			wire.b = append(wire.b, sealed...)
			lay := tapFrame(sealed)
			if l <= 1024 {
				W = append(W, frame[4:4+l]...)
			} else if clean < 0 {
				clean = sumTo(len(hist) - 1)
			}
			o.Op(model, fmt.Sprintf("craft %d %s", l, vfHex(d)), fmt.Sprintf("nonce=%d %s", vfCounter(snd.sendNonce), lay))
			o.Stat("craft")
		case r.Chance(50) && !cut:
			data := r.Bytes(vfPickSize(r))
			before := len(wire.b)
			var n int
			var err error
			if vfGuard(o, "panic-write", func() string { return key }, func() { n, err = snd.Write(data) }) {
				return
			}
			added := wire.b[before:]
			if err != nil || n != len(data) {
				o.Viol("write-short", fmt.Sprintf("n=%d len=%d err=%v", n, len(data), err))
			}
			if len(added)%vfSealed != 0 {
				o.Viol("frame-size", fmt.Sprintf("write of %d bytes put %d bytes on the wire", len(data), len(added)))
			}
			nf := len(added) / vfSealed
			lay := make([]string, 0, nf)
			off := 0
			for f := 0; f < nf; f++ {
				lay = append(lay, tapFrame(added[f*vfSealed:(f+1)*vfSealed]))
				// oracle: every frame carries the next 1..1024 bytes of the data, little-endian length first
				plain, e2 := aead.Open(nil, vfNonce(uint64(len(hist)-1)), added[f*vfSealed:(f+1)*vfSealed], nil)
				if e2 != nil || len(plain) != 1028 {
					continue
				}
				l := int(binary.LittleEndian.Uint32(plain))
				if l < 1 || l > 1024 || off+l > len(data) || !bytes.Equal(plain[4:4+l], data[off:off+l]) {
					o.Viol("frame-chunk-mismatch", fmt.Sprintf("write of %d bytes, frame %d claims %d bytes at offset %d", len(data), f, l, off))
					break
				}
				off += l
			}
			if off != len(data) {
				o.Viol("frames-do-not-cover-write", fmt.Sprintf("write of %d bytes, frames carry %d", len(data), off))
			}
			W = append(W, data...)
			ls := "-"
			if nf > 0 {
				ls = strings.Join(lay, ",")
			}
			o.Op(model, "write "+vfHex(data), fmt.Sprintf("n=%d nonce=%d %s", nf, vfCounter(snd.sendNonce), ls))
			o.StatN("frames", nf)
		default:
			doRead(vfPickBuf(r))
		}
	}
	// drain: the reader keeps reading until the first error
	for k := 0; !errored && k < 400; k++ {
		doRead(1 + r.Intn(1500))
	}
	if !errored {
		o.Viol("no-error-at-end-of-stream", fmt.Sprintf("%s delivered=%d written=%d clean=%d", key, len(D), len(W), clean))
	}
	// a few more reads after the error keep the model's and the code's state comparable
	for k := 0; k < 3; k++ {
		doRead(1 + r.Intn(1500))
	}
	if clean >= 0 {
		o.Stat("secret.tampered")
	} else {
		o.Stat("secret.clean")
	}
	o.Case(fmt.Sprintf("%s:%d:%d:%d", key, len(W), len(hist), clean), len(hist) > 0)
}

// ---------------------------------------------------------------- (A2) packetisation

type vfChanSpec struct {
	id  byte
	cap int
}

func vfMkMConn(descs []*ChannelDescriptor, maxP int) (*MConnection, *vfNetConn) {
	cfg := DefaulKAIConnConfig()
	cfg.MaxPacketMsgPayloadSize = maxP
	nc := &vfNetConn{}
	m := NewMConnectionWithConfig(nc, descs, func(byte, []byte) {}, func(interface{}) {}, cfg)
	m.SetLogger(log.NewNopLogger())
	m.flushTimer = timer.NewThrottleTimer("flush", time.Hour)
	return m, nc
}

func vfMsgSize(r *vfRand, maxP, cap int, allowOver bool) int {
	switch r.Intn(12) {
	case 0:
		return 0
	case 1:
		return r.Pick(1, maxP-1, maxP, maxP+1, 2*maxP, 2*maxP+1)
	case 2:
		return r.Pick(cap-1, cap, cap)
	case 3:
		if allowOver {
			return cap + 1 + r.Intn(maxP+2)
		}
		return cap
	default:
		lim := cap
		if lim > 3000 {
			lim = 3000
		}
		return 1 + r.Intn(lim)
	}
}

// vfMsgTxt is the short form of a message used in the failing-input trace of the oracle
func vfMsgTxt(m []byte) string {
	switch {
	case m == nil:
		return "nil"
	case len(m) == 0:
		return "[]"
	case len(m) <= 4:
		return vfHex(m)
	}
	return fmt.Sprintf("#%d", len(m))
}

func vfMConnCase(o *vfOut, r *vfRand) {
	const model = "mconn"
	maxP := r.Pick(1, 2, 3, 7, 16, 100, 1024)
	nch := 1 + r.Intn(4)
	// 1 case in 3 is about empty messages: at least two channels, half of the messages empty
	// (nil or []byte{}), bursts of several empty messages in a row, short other messages
	emptyHeavy := r.Chance(33)
	if emptyHeavy && nch < 2 {
		nch = 2 + r.Intn(3)
	}
	idPool := []byte{0, 1, 2, 0x20, 0x30, 0x40, 0xff}
	for i := range idPool {
		j := i + r.Intn(len(idPool)-i)
		idPool[i], idPool[j] = idPool[j], idPool[i]
	}
	var specs []vfChanSpec
	var descs []*ChannelDescriptor
	capsTxt := []string{}
	for c := 0; c < nch; c++ {
		cp := r.Pick(1, 2, 5, 16, 17, 100, 1024, 1025, 3000)
		if maxP <= 7 { // keep the number of packets per case moderate
			cp = r.Pick(1, 2, 5, 16, 17, 100, 150)
		}
		specs = append(specs, vfChanSpec{idPool[c], cp})
		descs = append(descs, &ChannelDescriptor{ID: idPool[c], Priority: 1 + r.Intn(10), SendQueueCapacity: 64,
			RecvMessageCapacity: cp, RecvBufferCapacity: r.Pick(0, 1, 16)})
		capsTxt = append(capsTxt, fmt.Sprintf("%d:%d", idPool[c], cp))
	}
	snd, sw := vfMkMConn(descs, maxP)
	rcv, _ := vfMkMConn(descs, maxP)
	defer snd.flushTimer.Stop()
	defer rcv.flushTimer.Stop()
	o.Op(model, fmt.Sprintf("case max=%d caps=%s", maxP, strings.Join(capsTxt, ",")), "ok")
	key := fmt.Sprintf("m:%d:%s", maxP, strings.Join(capsTxt, ","))

	enq := map[byte][][]byte{}
	next := map[byte]int{} // index of the next message expected on the channel
	dcount := map[byte]int{}
	delivered, stopped, oversize := 0, false, false
	allowOver := r.Chance(30)
	// the failing input of a violation: every enqueue (channel:message) and every pick, in order
	var trace []string
	input := func() string {
		t := trace
		if len(t) > 120 {
			t = append(append([]string{}, t[:60]...), append([]string{"…"}, t[len(t)-59:]...)...)
		}
		return key + " ops=[" + strings.Join(t, " ") + "]"
	}

	sendOne := func() bool { // false when the sender has nothing to send
		var exhausted bool
		if vfGuard(o, "panic-sendPacketMsg", func() string { return input() }, func() { exhausted = snd.sendPacketMsg() }) {
			stopped = true
			return false
		}
		snd.bufConnWriter.Flush()
		if len(sw.w.b) == 0 {
			if !exhausted {
				o.Viol("mconn-no-packet-but-not-exhausted", input())
			}
			o.Op(model, "idle", "idle")
			return false
		}
		var pkt kp2p.Packet
		if err := protoio.NewDelimitedReader(&sw.w, 1<<20).ReadMsg(&pkt); err != nil || len(sw.w.b) != 0 {
			o.Viol("mconn-bad-wire", fmt.Sprintf("%s err=%v rest=%d", key, err, len(sw.w.b)))
			stopped = true
			return false
		}
		pm := pkt.GetPacketMsg()
		if pm == nil {
			o.Viol("mconn-not-a-packetmsg", key)
			stopped = true
			return false
		}
		id := byte(pm.ChannelID)
		trace = append(trace, fmt.Sprintf("pick%d", id))
		if len(pm.Data) > maxP {
			o.Viol("mconn-payload-above-maximum", fmt.Sprintf("%s payload=%d max=%d", key, len(pm.Data), maxP))
		}
		var msg []byte
		var err error
		rch := rcv.channelsIdx[id]
		if vfGuard(o, "panic-recvPacketMsg", func() string { return input() }, func() { msg, err = rch.recvPacketMsg(*pm) }) {
			stopped = true
			return false
		}
		eof := 0
		if pm.EOF {
			eof = 1
		}
		res := "none"
		if err != nil {
			res = "err"
		} else if msg != nil {
			res = "msg " + vfHex(msg)
		}
		o.Op(model, fmt.Sprintf("send %d", id), fmt.Sprintf("pkt ch=%d eof=%d len=%d sum=%d -> %s", id, eof, len(pm.Data), vfSum(pm.Data), res))
		o.Stat("packets")
		// ---- oracle: per channel, exactly the sent messages (the empty ones included), in
		// order, each once.  The message in flight on a channel is the oldest undelivered one.
		cp := rch.desc.RecvMessageCapacity
		if err != nil {
			stopped = true
			p := next[id]
			q := p
			for q < len(enq[id]) && len(enq[id][q]) == 0 {
				q++
			}
			if q > p && q < len(enq[id]) && len(enq[id][q]) > cp {
				// the refused message is a later, oversized one: the empty messages before it vanished
				o.Viol("mconn-empty-message-lost", fmt.Sprintf("%s: ch=%d message #%d (%d bytes, cap %d) reached the receiver while the %d zero-length message(s) #%d..#%d accepted before it on that channel were never transmitted",
					input(), id, q, len(enq[id][q]), cp, q-p, p, q-1))
				oversize = true
			} else if p >= len(enq[id]) || len(enq[id][p]) <= cp {
				o.Viol("mconn-spurious-capacity-error", fmt.Sprintf("%s ch=%d next message fits (cap %d): %v", input(), id, cp, err))
			} else {
				oversize = true
				o.Stat("mconn.oversize-refused")
			}
			return false
		}
		if msg != nil {
			delivered++
			dcount[id]++
			if len(msg) > cp {
				o.Viol("mconn-oversize-delivered", fmt.Sprintf("%s ch=%d len=%d cap=%d", key, id, len(msg), cp))
			}
			p := next[id]
			if p < len(enq[id]) && bytes.Equal(enq[id][p], msg) {
				if len(msg) == 0 {
					o.Stat("mconn.empty-delivered")
				}
			} else {
				// which message is it? if it is a later one and everything skipped is empty, the
				// empty messages in between were lost (the signature of finding C20-E1)
				q := p
				for q < len(enq[id]) && len(enq[id][q]) == 0 {
					q++
				}
				if q > p && q < len(enq[id]) && bytes.Equal(enq[id][q], msg) {
					o.Viol("mconn-empty-message-lost", fmt.Sprintf("%s: ch=%d delivered message #%d (%d bytes) while the %d zero-length message(s) #%d..#%d accepted before it on that channel were never transmitted",
						input(), id, q, len(msg), q-p, p, q-1))
					p = q
				} else {
					o.Viol("mconn-delivery-mismatch", fmt.Sprintf("%s ch=%d delivered %d bytes, not the next message sent (#%d)", input(), id, len(msg), p))
					stopped = true // the bookkeeping of this case is void from here on
				}
			}
			next[id] = p + 1
		}
		return true
	}

	enqueue := func(s vfChanSpec, m []byte) bool {
		ch := snd.channelsIdx[s.id]
		if !ch.trySendBytes(m) {
			return false
		}
		enq[s.id] = append(enq[s.id], m)
		trace = append(trace, fmt.Sprintf("enq%d:%s", s.id, vfMsgTxt(m)))
		o.Op(model, fmt.Sprintf("enq %d %s", s.id, vfHex(m)), fmt.Sprintf("ok q=%d", len(ch.sendQueue)))
		if len(m) == 0 {
			if m == nil {
				o.Stat("mconn.empty-sent.nil")
			} else {
				o.Stat("mconn.empty-sent.slice")
			}
			if nch > 1 {
				o.Stat("mconn.empty-sent.multichannel")
			}
		}
		return true
	}
	emptyMsg := func() []byte { // Send(nil) and Send([]byte{}) are both the empty message
		if r.Bool() {
			return nil
		}
		return []byte{}
	}
	mkMsg := func(s vfChanSpec) []byte {
		if emptyHeavy {
			switch r.Intn(4) {
			case 0, 1:
				return emptyMsg()
			case 2:
				return r.Bytes(1 + r.Intn(kmathMin(s.cap, 3)))
			}
		}
		n := vfMsgSize(r, maxP, s.cap, allowOver)
		if n == 0 {
			return emptyMsg()
		}
		return r.Bytes(n)
	}

	nops := 4 + r.Intn(40)
	for op := 0; op < nops && !stopped; op++ {
		switch k := r.Intn(12); {
		case k < 4:
			s := specs[r.Intn(len(specs))]
			enqueue(s, mkMsg(s))
		case k == 4 && (emptyHeavy || r.Chance(25)):
			// a burst: 2..4 empty messages in a row on one channel, or one on each of several channels
			if r.Bool() {
				s := specs[r.Intn(len(specs))]
				for n := 2 + r.Intn(3); n > 0; n-- {
					enqueue(s, emptyMsg())
				}
				o.Stat("mconn.empty-burst.one-channel")
			} else {
				for _, s := range specs {
					if r.Chance(70) {
						enqueue(s, emptyMsg())
					}
				}
				o.Stat("mconn.empty-burst.across-channels")
			}
		case k == 4 || k == 5:
			s := specs[r.Intn(len(specs))]
			sc, rc := snd.channelsIdx[s.id], rcv.channelsIdx[s.id]
			sending := "nil"
			if sc.sending != nil {
				sending = fmt.Sprint(len(sc.sending))
			}
			o.Op(model, fmt.Sprintf("status %d", s.id), fmt.Sprintf("sending=%s queue=%d recving=%d delivered=%d",
				sending, len(sc.sendQueue), len(rc.recving), dcount[s.id]))
		case k == 6:
			snd.channels[r.Intn(len(snd.channels))].updateStats()
		case k == 7:
			// steer the real scheduler: recentlySent is only its fairness statistic, any value is
			// legitimate; this makes every pick order among the pending channels reachable
			for _, ch := range snd.channels {
				if r.Bool() {
					atomic.StoreInt64(&ch.recentlySent, int64(r.Pick(0, 0, 1, 50, 1000, 100000)))
				}
			}
			o.Stat("mconn.scheduler-steered")
		case k == 8:
			// isSendPending called directly (with its dequeue side effect) on one channel
			s := specs[r.Intn(len(specs))]
			pend := "0"
			if snd.channelsIdx[s.id].isSendPending() {
				pend = "1"
			}
			trace = append(trace, fmt.Sprintf("pend%d", s.id))
			o.Op(model, fmt.Sprintf("pending %d", s.id), pend)
		default:
			sendOne()
		}
	}
	for k := 0; !stopped && k < 1000000; k++ {
		if !sendOne() {
			break
		}
	}
	if !stopped {
		// the sender reported "nothing to send": everything accepted must have been delivered
		for _, s := range specs {
			p := next[s.id]
			if p == len(enq[s.id]) {
				continue
			}
			onlyEmpty := true
			for _, m := range enq[s.id][p:] {
				if len(m) != 0 {
					onlyEmpty = false
				}
			}
			if onlyEmpty {
				o.Viol("mconn-empty-message-lost", fmt.Sprintf("%s: ch=%d the %d zero-length message(s) #%d..#%d accepted by the send queue were never transmitted although the sender is idle",
					input(), s.id, len(enq[s.id])-p, p, len(enq[s.id])-1))
			} else {
				o.Viol("mconn-message-not-delivered", fmt.Sprintf("%s ch=%d delivered %d of %d although the sender is idle", input(), s.id, p, len(enq[s.id])))
			}
		}
		for _, s := range specs {
			sc := snd.channelsIdx[s.id]
			if sc.sending != nil || len(sc.sendQueue) != 0 || sc.loadSendQueueSize() != 0 {
				o.Viol("mconn-idle-sender-not-drained", fmt.Sprintf("%s ch=%d idle sender: sending nil=%v queue=%d sendQueueSize=%d", input(), s.id, sc.sending == nil, len(sc.sendQueue), sc.loadSendQueueSize()))
			}
		}
	}
	_ = oversize
	if emptyHeavy {
		o.Stat("mconn.case.empty-heavy")
	}
	o.Case(key+fmt.Sprint(delivered, nops), delivered > 0)
}

func kmathMin(a, b int) int {
	if a < b {
		return a
	}
	return b
}

// receiver only: arbitrary packet streams around the capacity boundary
func vfRecvCase(o *vfOut, r *vfRand) {
	const model = "mconn"
	cp := r.Pick(1, 2, 5, 16, 100, 1024)
	descs := []*ChannelDescriptor{{ID: 7, Priority: 1, RecvMessageCapacity: cp, RecvBufferCapacity: r.Pick(0, 1, 16)}}
	rcv, _ := vfMkMConn(descs, 1024)
	defer rcv.flushTimer.Stop()
	o.Op(model, fmt.Sprintf("case max=1024 caps=7:%d", cp), "ok")
	ch := rcv.channelsIdx[7]
	var acc []byte
	for k := 0; k < 2+r.Intn(12); k++ {
		d := r.Bytes(r.Pick(0, 0, 1, 2, cp-1, cp, cp+1, r.Intn(cp+2)))
		eof := r.Chance(40)
		var msg []byte
		var err error
		if vfGuard(o, "panic-recvPacketMsg", func() string { return "recv" }, func() {
			msg, err = ch.recvPacketMsg(kp2p.PacketMsg{ChannelID: 7, EOF: eof, Data: d})
		}) {
			return
		}
		res, e := "none", 0
		if eof {
			e = 1
		}
		if err != nil {
			res = "err"
		} else if msg != nil {
			res = "msg " + vfHex(msg)
		}
		o.Op(model, fmt.Sprintf("recv 7 %d %s", e, vfHex(d)), res)
		// oracle
		over := len(acc)+len(d) > cp
		if over != (err != nil) {
			o.Viol("mconn-capacity-check", fmt.Sprintf("cap=%d have=%d packet=%d err=%v", cp, len(acc), len(d), err))
		}
		if err != nil {
			o.Stat("recv.refused")
			break
		}
		acc = append(acc, d...)
		if eof {
			if msg == nil || !bytes.Equal(msg, acc) {
				o.Viol("mconn-reassembly", fmt.Sprintf("cap=%d expected %d bytes got %d (nil=%v)", cp, len(acc), len(msg), msg == nil))
			}
			acc = nil
			o.Stat("recv.delivered")
		} else if msg != nil {
			o.Viol("mconn-delivered-without-eof", fmt.Sprintf("cap=%d", cp))
		}
	}
	o.Case(fmt.Sprintf("r:%d:%d", cp, r.Intn(1<<30)), true)
}

// ---------------------------------------------------------------- handshake helpers

func vfPubEq(a, b ecdsa.PublicKey) bool {
	if a.X == nil || b.X == nil {
		return false
	}
	return bytes.Equal(crypto.FromECDSAPub(&a), crypto.FromECDSAPub(&b))
}

type vfHS struct {
	sc  *SecretConnection
	err error
}

func vfDeadline(c net.Conn) { c.SetDeadline(time.Now().Add(30 * time.Second)) }

// vfBroken counts end-to-end failures of the honest path; after a few of them the remaining
// end-to-end cases of the shard are skipped (they would each wait for a deadline).
var vfBroken int

// honest handshake of two parties over a synchronous pipe
func vfHandshakePair(kA, kB *ecdsa.PrivateKey) (a, b *SecretConnection, ca, cb net.Conn, err error) {
	ca, cb = net.Pipe()
	vfDeadline(ca)
	vfDeadline(cb)
	ch := make(chan vfHS, 1)
	go func() {
		sc, e := MakeSecretConnection(cb, kB)
		if e != nil {
			cb.Close()
		}
		ch <- vfHS{sc, e}
	}()
	a, err = MakeSecretConnection(ca, kA)
	if err != nil {
		ca.Close() // unblock the other side
	}
	hb := <-ch
	if err == nil {
		err = hb.err
	}
	return a, hb.sc, ca, cb, err
}

// attacker's side of the handshake with full control over the ephemeral key and the AuthSigMessage
func vfAttackerHandshake(conn io.ReadWriteCloser, ephPub, ephPriv *[32]byte,
	mk func(challenge *[32]byte) (ecdsa.PublicKey, []byte)) (peer authSigMessage, sc *SecretConnection, err error) {
	remEphPub, err := shareEphPubKey(conn, ephPub)
	if err != nil {
		return
	}
	lo, hi := sort32(ephPub, remEphPub)
	tr := merlin.NewTranscript("TENDERMINT_SECRET_CONNECTION_TRANSCRIPT_HASH")
	tr.AppendMessage(labelEphemeralLowerPublicKey, lo[:])
	tr.AppendMessage(labelEphemeralUpperPublicKey, hi[:])
	locIsLeast := bytes.Equal(ephPub[:], lo[:])
	dh, err := computeDHSecret(remEphPub, ephPriv)
	if err != nil {
		return
	}
	tr.AppendMessage(labelDHSecret, dh[:])
	recvSecret, sendSecret := deriveSecrets(dh, locIsLeast)
	var challenge [32]byte
	copy(challenge[:], tr.ExtractBytes(labelSecretConnectionMac, 32))
	sendAead, _ := chacha20poly1305.New(sendSecret[:])
	recvAead, _ := chacha20poly1305.New(recvSecret[:])
	sc = &SecretConnection{conn: conn, recvNonce: new([aeadNonceSize]byte), sendNonce: new([aeadNonceSize]byte),
		recvAead: recvAead, sendAead: sendAead}
	pub, sig := mk(&challenge)
	peer, err = shareAuthSignature(sc, pub, sig)
	return
}

// ---------------------------------------------------------------- (B1)+(B2) stream end to end

func vfRecord(w, seq, size int) []byte {
	if size < 7 {
		size = 7
	}
	b := make([]byte, size)
	b[0] = byte(w)
	binary.BigEndian.PutUint16(b[1:], uint16(seq))
	binary.BigEndian.PutUint32(b[3:], uint32(size))
	g := vfNewRand(uint64(w)<<32 | uint64(seq))
	for i := 7; i < size; i++ {
		b[i] = byte(g.U64())
	}
	return b
}

func vfStreamE2E(o *vfOut, r *vfRand) {
	kA, _ := crypto.GenerateKey()
	kB, _ := crypto.GenerateKey()
	a, b, ca, cb, err := vfHandshakePair(kA, kB)
	if err != nil {
		vfBroken++
		o.Viol("handshake-honest-failed", err.Error())
		return
	}
	defer ca.Close()
	defer cb.Close()
	if !vfPubEq(a.RemotePubKey(), kB.PublicKey) || !vfPubEq(b.RemotePubKey(), kA.PublicKey) {
		o.Viol("handshake-wrong-remote-key", "honest handshake: RemotePubKey() is not the peer's key")
	}
	o.Stat("handshake.honest")

	// (B2) first, on clones (no goroutines): every manipulation at every position
	vfMitmEvery(o, r, a, b)

	// (B1) concurrent writers on a, one reader on b (both directions use the same code; a->b only
	// keeps the harness simple, the reverse direction is exercised by the handshake itself)
	nW := 1 + r.Intn(4)
	perW := 2 + r.Intn(6)
	sizes := make([][]int, nW)
	total := 0
	for w := range sizes {
		for s := 0; s < perW; s++ {
			sz := vfPickSize(r)
			if sz < 7 {
				sz = 7
			}
			sizes[w] = append(sizes[w], sz)
			total += sz
		}
	}
	var wg sync.WaitGroup
	werr := make(chan error, nW)
	for w := 0; w < nW; w++ {
		wg.Add(1)
		go func(w int) {
			defer wg.Done()
			for s, sz := range sizes[w] {
				rec := vfRecord(w, s, sz)
				n, err := a.Write(rec)
				if err != nil || n != len(rec) {
					werr <- fmt.Errorf("writer %d seq %d: n=%d err=%v", w, s, n, err)
					return
				}
			}
		}(w)
	}
	got := make([]byte, 0, total)
	var rerr error
	for len(got) < total {
		buf := make([]byte, vfPickBuf(r)+1)
		n, err := b.Read(buf)
		if err != nil {
			rerr = err
			break
		}
		got = append(got, buf[:n]...)
	}
	if rerr != nil {
		ca.Close()
		cb.Close()
	}
	wg.Wait()
	select {
	case e := <-werr:
		o.Viol("e2e-write-failed", e.Error())
		return
	default:
	}
	if rerr != nil || len(got) != total {
		vfBroken++
		o.Viol("e2e-read-failed", fmt.Sprintf("read %d of %d bytes: %v", len(got), total, rerr))
		return
	}
	// every Write is atomic under sendMtx: the stream is a sequence of whole records, each
	// writer's records in its own order
	seq := make([]int, nW)
	for off := 0; off < len(got); {
		if len(got)-off < 7 {
			o.Viol("e2e-record-corrupt", fmt.Sprintf("trailing %d bytes", len(got)-off))
			break
		}
		w := int(got[off])
		s := int(binary.BigEndian.Uint16(got[off+1:]))
		sz := int(binary.BigEndian.Uint32(got[off+3:]))
		if w >= nW || s != seq[w] || s >= len(sizes[w]) || sz != sizes[w][s] || off+sz > len(got) {
			o.Viol("e2e-writer-order", fmt.Sprintf("offset %d: writer %d seq %d size %d (expected seq %d)", off, w, s, sz, seq[w%nW]))
			break
		}
		if !bytes.Equal(got[off:off+sz], vfRecord(w, s, sz)) {
			o.Viol("e2e-record-corrupt", fmt.Sprintf("writer %d seq %d: bytes differ (interleaved or altered)", w, s))
			break
		}
		seq[w]++
		off += sz
	}
	o.Stat("e2e.stream")
	o.StatN("e2e.stream.bytes", total)
	o.Case(fmt.Sprintf("e:%d:%d:%d", nW, perW, total), true)
}

// vfMitmEvery: short conversation a -> b; each manipulation at each frame position.
func vfMitmEvery(o *vfOut, r *vfRand, a, b *SecretConnection) {
	tapw := &vfWire{}
	w := vfCloneSC(a, tapw)
	var W []byte
	for k := 0; k < 1+r.Intn(3); k++ {
		d := r.Bytes(r.Pick(1, 5, 300, 1024, 1025, 2048, 2500))
		W = append(W, d...)
		if n, err := w.Write(d); err != nil || n != len(d) {
			o.Viol("write-short", fmt.Sprintf("n=%d err=%v", n, err))
			return
		}
	}
	if len(tapw.b)%vfSealed != 0 {
		o.Viol("frame-size", fmt.Sprintf("%d bytes on the wire", len(tapw.b)))
		return
	}
	nf := len(tapw.b) / vfSealed
	frames := make([][]byte, nf)
	carried := make([]int, nf+1) // carried[i] = bytes carried by frames < i
	base := vfCounter(b.recvNonce)
	for i := range frames {
		frames[i] = tapw.b[i*vfSealed : (i+1)*vfSealed]
		plain, err := b.recvAead.Open(nil, vfNonce(base+uint64(i)), frames[i], nil)
		if err != nil {
			o.Viol("frame-nonce-not-counter", fmt.Sprintf("frame %d after handshake", i))
			return
		}
		carried[i+1] = carried[i] + int(binary.LittleEndian.Uint32(plain))
	}
	if carried[nf] != len(W) {
		o.Viol("frames-do-not-cover-write", fmt.Sprintf("%d bytes written, the length prefixes of the %d frames add up to %d", len(W), nf, carried[nf]))
		return
	}
	join := func(fs ...[]byte) []byte { return bytes.Join(fs, nil) }
	run := func(kind string, pos int, stream []byte, clean int, wantKind string) {
		rd := vfCloneSC(b, &vfWire{b: append([]byte{}, stream...)})
		var D []byte
		var err error
		for k := 0; k < 100000; k++ {
			buf := make([]byte, 1+r.Intn(1400))
			var n int
			n, err = rd.Read(buf)
			if err != nil {
				break
			}
			D = append(D, buf[:n]...)
			if len(D) > clean {
				break
			}
		}
		o.Stat("mitm-every." + kind)
		switch {
		case err == nil:
			o.Viol("tamper-not-detected", fmt.Sprintf("%s at frame %d of %d: delivered %d bytes, clean prefix is %d", kind, pos, nf, len(D), clean))
		case !bytes.Equal(D, W[:clean]):
			o.Viol("tamper-wrong-prefix", fmt.Sprintf("%s at frame %d of %d: delivered %d bytes, clean prefix is %d (err %v)", kind, pos, nf, len(D), clean, err))
		case wantKind != "" && vfErrKind(err) != wantKind:
			o.Viol("tamper-error-kind", fmt.Sprintf("%s at frame %d of %d: %v, expected %s", kind, pos, nf, err, wantKind))
		}
	}
	all := func(fs [][]byte) []byte { return join(fs...) }
	run("none", 0, tapw.b, len(W), "eof")
	for i := 0; i < nf; i++ {
		pre, post := all(frames[:i]), all(frames[i+1:])
		// flip one bit: somewhere, in the length prefix area, in the tag
		offs := []int{r.Intn(vfSealed), r.Intn(4), vfSealed - 1 - r.Intn(16)}
		if !vfThorough() {
			offs = offs[:1+r.Intn(2)]
		}
		for _, off := range offs {
			f := append([]byte{}, frames[i]...)
			f[off] ^= byte(1 << uint(r.Intn(8)))
			run("flip", i, join(pre, f, post), carried[i], "decrypt")
		}
		wk := "decrypt"
		if i == nf-1 {
			wk = "eof"
		}
		run("drop", i, join(pre, post), carried[i], wk)
		run("dup", i, join(pre, frames[i], frames[i], post), carried[i+1], "decrypt")
		if i+1 < nf {
			run("swap", i, join(pre, frames[i+1], frames[i], all(frames[i+2:])), carried[i], "decrypt")
		}
		run("cut", i, join(pre, frames[i][:r.Intn(vfSealed)]), carried[i], "eof")
		run("replay-at-end", i, join(tapw.b, frames[i]), len(W), "decrypt")
		// a frame of the other direction / of another session does not open either
		foreign := make([]byte, vfSealed)
		b.sendAead.Seal(foreign[:0], vfNonce(base+uint64(i)), make([]byte, 1028), nil)
		run("reflect", i, join(pre, foreign, post), carried[i], "decrypt")
	}
}

// ---------------------------------------------------------------- (B3) MConnection end to end

func vfMConnE2E(o *vfOut, r *vfRand) {
	kA, _ := crypto.GenerateKey()
	kB, _ := crypto.GenerateKey()
	scA, scB, ca, cb, err := vfHandshakePair(kA, kB)
	if err != nil {
		vfBroken++
		o.Viol("handshake-honest-failed", err.Error())
		return
	}
	ca.SetDeadline(time.Time{})
	cb.SetDeadline(time.Time{})
	maxP := r.Pick(16, 100, 1024)
	nch := 1 + r.Intn(3)
	withOver := r.Chance(35)
	nmsg := 1 + r.Intn(6)
	var descs []*ChannelDescriptor
	caps := map[byte]int{}
	for c := 0; c < nch; c++ {
		cp := r.Pick(64, 1024, 2100, 5000)
		q := 1 + r.Intn(3)
		if withOver {
			q = nmsg + 1
		}
		descs = append(descs, &ChannelDescriptor{ID: byte(c + 1), Priority: 1 + r.Intn(5), SendQueueCapacity: q, RecvMessageCapacity: cp})
		caps[byte(c+1)] = cp
	}
	cfg := DefaulKAIConnConfig()
	cfg.SendRate, cfg.RecvRate = 1<<40, 1<<40
	cfg.FlushThrottle = time.Millisecond
	cfg.MaxPacketMsgPayloadSize = maxP

	var mu sync.Mutex
	got := map[byte][][]byte{}
	errB := make(chan interface{}, 8)
	mB := NewMConnectionWithConfig(scB, descs, func(ch byte, m []byte) {
		mu.Lock()
		got[ch] = append(got[ch], append([]byte{}, m...))
		mu.Unlock()
	}, func(e interface{}) { errB <- e }, cfg)
	mA := NewMConnectionWithConfig(scA, descs, func(byte, []byte) {}, func(interface{}) {}, cfg)
	mA.SetLogger(log.NewNopLogger())
	mB.SetLogger(log.NewNopLogger())
	if err := mA.Start(); err != nil {
		return
	}
	if err := mB.Start(); err != nil {
		return
	}
	defer func() {
		mA.Stop()
		mB.Stop()
		ca.Close()
		cb.Close()
	}()

	sent := map[byte][][]byte{}
	withEmpty, nEmpty := r.Chance(35), 0
	overCh, overIdx := byte(0), -1
	if withOver {
		overCh, overIdx = byte(1+r.Intn(nch)), r.Intn(nmsg)
	}
	for c := 1; c <= nch; c++ {
		id := byte(c)
		for k := 0; k < nmsg; k++ {
			sz := 1 + vfMsgSize(r, maxP, caps[id]-1, false)
			if sz > caps[id] {
				sz = caps[id]
			}
			if id == overCh && k == overIdx {
				sz = caps[id] + 1 + r.Intn(2*maxP)
			} else if withEmpty && r.Chance(40) {
				// a zero-length message (Send(nil) or Send([]byte{})): must arrive as an empty message
				var m []byte
				if r.Bool() {
					m = []byte{}
				}
				sent[id] = append(sent[id], m)
				nEmpty++
				continue
			}
			m := r.Bytes(sz)
			m[0] = byte(k)
			sent[id] = append(sent[id], m)
		}
	}
	var wg sync.WaitGroup
	for c := 1; c <= nch; c++ {
		wg.Add(1)
		go func(id byte) {
			defer wg.Done()
			for _, m := range sent[id] {
				if !mA.Send(id, m) {
					return
				}
			}
		}(byte(c))
	}
	key := fmt.Sprintf("M:%d:%d:%d:%v", maxP, nch, nmsg, withOver)
	deadline := time.Now().Add(60 * time.Second)
	count := func() int {
		mu.Lock()
		defer mu.Unlock()
		n := 0
		for _, l := range got {
			n += len(l)
		}
		return n
	}
	if !withOver {
		for count() < nch*nmsg && time.Now().Before(deadline) {
			select {
			case e := <-errB:
				vfBroken++
				o.Viol("mconn-e2e-unexpected-error", fmt.Sprintf("%s: %v", key, e))
				return
			case <-time.After(200 * time.Microsecond):
			}
		}
		wg.Wait()
		time.Sleep(2 * time.Millisecond) // anything delivered twice would show up now
		mu.Lock()
		defer mu.Unlock()
		for id, msgs := range sent {
			if len(got[id]) != len(msgs) {
				vfBroken++
				lens := []string{}
				for _, m := range msgs {
					lens = append(lens, fmt.Sprint(len(m)))
				}
				o.Viol("mconn-e2e-count", fmt.Sprintf("%s ch=%d delivered %d of %d (sizes sent on it: %s; %d zero-length message(s) in the case)", key, id, len(got[id]), len(msgs), strings.Join(lens, ","), nEmpty))
				continue
			}
			for k := range msgs {
				if !bytes.Equal(msgs[k], got[id][k]) {
					o.Viol("mconn-e2e-mismatch", fmt.Sprintf("%s ch=%d message %d differs (len %d vs %d)", key, id, k, len(msgs[k]), len(got[id][k])))
					break
				}
			}
		}
		o.Stat("mconn-e2e.clean")
		if nEmpty > 0 {
			o.Stat("mconn-e2e.with-empty-messages")
		}
	} else {
		select {
		case <-errB:
		case <-time.After(60 * time.Second):
			vfBroken++
			o.Viol("mconn-e2e-oversize-no-error", fmt.Sprintf("%s: a %d-byte message on a channel of capacity %d raised no error", key, len(sent[overCh][overIdx]), caps[overCh]))
			return
		}
		ca.Close() // unblock any sender
		cb.Close()
		wg.Wait()
		time.Sleep(2 * time.Millisecond)
		mu.Lock()
		defer mu.Unlock()
		for id, msgs := range sent {
			g := got[id]
			if len(g) > len(msgs) {
				o.Viol("mconn-e2e-count", fmt.Sprintf("%s ch=%d delivered %d of %d", key, id, len(g), len(msgs)))
				continue
			}
			for k := range g {
				if !bytes.Equal(msgs[k], g[k]) {
					o.Viol("mconn-e2e-mismatch", fmt.Sprintf("%s ch=%d message %d differs", key, id, k))
					break
				}
			}
			if id == overCh && len(g) != overIdx {
				o.Viol("mconn-e2e-oversize", fmt.Sprintf("%s ch=%d: %d messages delivered, the oversized one is #%d", key, id, len(g), overIdx))
			}
		}
		o.Stat("mconn-e2e.oversize")
	}
	o.Case(key+fmt.Sprint(r.Intn(1<<30)), true)
}

// ---------------------------------------------------------------- (B4) handshake attackers

func vfHandshakeAttacks(o *vfOut, r *vfRand) {
	kH, _ := crypto.GenerateKey() // honest party under attack
	kV, _ := crypto.GenerateKey() // identity the attacker claims; the attacker never uses kV itself
	kX, _ := crypto.GenerateKey() // attacker's own key

	// what V would send in *another* session (with the attacker as its peer): recorded for replay
	var recorded authSigMessage
	{
		c1, c2 := net.Pipe()
		vfDeadline(c1)
		vfDeadline(c2)
		done := make(chan error, 1)
		go func() { _, e := MakeSecretConnection(c2, kV); done <- e }()
		ep, es := genEphKeys()
		peer, _, err := vfAttackerHandshake(c1, ep, es, func(ch *[32]byte) (ecdsa.PublicKey, []byte) {
			s, _ := signChallenge(ch, kX)
			return kX.PublicKey, s
		})
		<-done
		c1.Close()
		c2.Close()
		if err != nil || !vfPubEq(peer.Key, kV.PublicKey) {
			vfBroken++
			o.Viol("handshake-honest-failed", fmt.Sprintf("recording session: %v", err))
			return
		}
		recorded = peer
	}

	attack := func(name string, eph func() (*[32]byte, *[32]byte), mk func(ch *[32]byte) (ecdsa.PublicKey, []byte)) {
		c1, c2 := net.Pipe()
		vfDeadline(c1)
		vfDeadline(c2)
		res := make(chan vfHS, 1)
		go func() {
			sc, e := MakeSecretConnection(c2, kH)
			if e != nil {
				c2.Close()
			}
			res <- vfHS{sc, e}
		}()
		ep, es := eph()
		vfAttackerHandshake(c1, ep, es, mk)
		c1.Close()
		h := <-res
		c2.Close()
		o.Stat("attack." + name)
		if h.err == nil && h.sc != nil && vfPubEq(h.sc.RemotePubKey(), kV.PublicKey) {
			o.Viol("handshake-impersonation", name+": MakeSecretConnection returned a connection authenticated as a key whose private key the peer does not hold")
		}
		if name == "low-order-eph" && h.err == nil {
			o.Viol("handshake-low-order-accepted", "an all-zero / low-order ephemeral key was accepted")
		}
	}
	// 1. signature by another key under the victim's public key
	attack("wrong-key-signature", genEphKeys, func(ch *[32]byte) (ecdsa.PublicKey, []byte) {
		s, _ := signChallenge(ch, kX)
		return kV.PublicKey, s
	})
	// 2. the victim's genuine AuthSigMessage from another session
	attack("replayed-authsig", genEphKeys, func(ch *[32]byte) (ecdsa.PublicKey, []byte) {
		return recorded.Key, recorded.Sig
	})
	// 3. random / empty / truncated signature
	attack("garbage-signature", genEphKeys, func(ch *[32]byte) (ecdsa.PublicKey, []byte) {
		return kV.PublicKey, r.Bytes(r.Pick(0, 1, 64, 65, 66))
	})
	// 4. signature over a different challenge (bit flipped) by the attacker, and by the victim's
	//    recorded signature with the recovery id altered
	attack("mangled-recorded-signature", genEphKeys, func(ch *[32]byte) (ecdsa.PublicKey, []byte) {
		s := append([]byte{}, recorded.Sig...)
		if len(s) > 0 {
			s[r.Intn(len(s))] ^= byte(1 << uint(r.Intn(8)))
		}
		return kV.PublicKey, s
	})
	// 5. low-order ephemeral key: the DH secret would be known to everybody
	attack("low-order-eph", func() (*[32]byte, *[32]byte) {
		var z [32]byte
		if r.Bool() {
			z[0] = 1
		}
		_, es := genEphKeys()
		return &z, es
	}, func(ch *[32]byte) (ecdsa.PublicKey, []byte) {
		s, _ := signChallenge(ch, kX)
		return kV.PublicKey, s
	})

	// 6. reflection: whatever H sends comes back to H (claimed identity: H itself)
	{
		c1, c2 := net.Pipe()
		vfDeadline(c1)
		vfDeadline(c2)
		res := make(chan vfHS, 1)
		go func() { sc, e := MakeSecretConnection(c2, kH); res <- vfHS{sc, e} }()
		go func() {
			buf := make([]byte, 4096)
			for {
				n, err := c1.Read(buf)
				if err != nil {
					return
				}
				if _, err := c1.Write(buf[:n]); err != nil {
					return
				}
			}
		}()
		var h vfHS
		select {
		case h = <-res:
		case <-time.After(40 * time.Second):
			h = vfHS{nil, io.ErrNoProgress}
		}
		c1.Close()
		c2.Close()
		o.Stat("attack.reflection")
		if h.err == nil && h.sc != nil && vfPubEq(h.sc.RemotePubKey(), kH.PublicKey) {
			o.Viol("handshake-impersonation", "reflection: the party authenticated its own reflected messages as a peer holding its key")
		}
	}

	// 7. full man in the middle: separate DH with H and with V, V's AuthSigMessage forwarded to H
	{
		h1, h2 := net.Pipe()
		v1, v2 := net.Pipe()
		for _, c := range []net.Conn{h1, h2, v1, v2} {
			vfDeadline(c)
		}
		resH := make(chan vfHS, 1)
		resV := make(chan vfHS, 1)
		go func() {
			sc, e := MakeSecretConnection(h2, kH)
			if e != nil {
				h2.Close()
			}
			resH <- vfHS{sc, e}
		}()
		go func() {
			sc, e := MakeSecretConnection(v2, kV)
			if e != nil {
				v2.Close()
			}
			resV <- vfHS{sc, e}
		}()
		fromV := make(chan authSigMessage, 1)
		go func() {
			ep, es := genEphKeys()
			peer, _, _ := vfAttackerHandshake(v1, ep, es, func(ch *[32]byte) (ecdsa.PublicKey, []byte) {
				s, _ := signChallenge(ch, kX)
				return kX.PublicKey, s
			})
			fromV <- peer
		}()
		ep, es := genEphKeys()
		vfAttackerHandshake(h1, ep, es, func(ch *[32]byte) (ecdsa.PublicKey, []byte) {
			p := <-fromV
			return p.Key, p.Sig
		})
		h1.Close()
		v1.Close()
		h := <-resH
		<-resV
		h2.Close()
		v2.Close()
		o.Stat("attack.mitm")
		if h.err == nil && h.sc != nil && vfPubEq(h.sc.RemotePubKey(), kV.PublicKey) {
			o.Viol("handshake-impersonation", "man in the middle: forwarded AuthSigMessage of another DH session accepted")
		}
	}
	o.Case(fmt.Sprintf("h:%d", r.Intn(1<<30)), true)
}

// ---------------------------------------------------------------- deterministic probes

// the zero-length message that loses the scheduling round (finding C20-E1, fixed; see
// notes/C20.md): deterministic regression probes.  Each probe is a concrete input: messages per
// channel (nil / []byte{} / one byte), all enqueued before the first sendPacketMsg; the sender is
// run until it reports "nothing to send" and the packets are fed to a receiver.  Every accepted
// message – the empty ones too – must be delivered, once, in order.
func vfEmptyProbe(o *vfOut) {
	type pm struct {
		ch byte
		m  []byte
	}
	probes := [][]pm{
		{{1, []byte{}}, {0, []byte{7}}},                               // the witness of C20-E1
		{{1, nil}, {0, []byte{7}}},                                    // same with Send(nil)
		{{0, []byte{}}, {1, []byte{7}}},                               // other channel order
		{{1, []byte{}}, {1, nil}, {1, []byte{}}, {0, []byte{7}}},      // several in a row
		{{1, nil}, {1, []byte{9}}, {1, []byte{}}, {0, []byte{7}}, {0, nil}, {0, []byte{8}}}, // mixed on both
		{{0, nil}, {1, []byte{}}, {2, nil}},                           // only empty messages, three channels
		{{2, []byte{}}, {0, []byte{1, 2, 3}}, {1, []byte{4}}, {2, []byte{5}}, {2, nil}},
	}
	for pi, probe := range probes {
		descs := []*ChannelDescriptor{{ID: 0, Priority: 1, SendQueueCapacity: 8, RecvMessageCapacity: 100},
			{ID: 1, Priority: 1, SendQueueCapacity: 8, RecvMessageCapacity: 100},
			{ID: 2, Priority: 5, SendQueueCapacity: 8, RecvMessageCapacity: 100}}
		snd, sw := vfMkMConn(descs, 2)
		rcv, _ := vfMkMConn(descs, 2)
		sent := map[byte][][]byte{}
		var in []string
		accepted := true
		for _, x := range probe {
			accepted = accepted && snd.channelsIdx[x.ch].trySendBytes(x.m)
			sent[x.ch] = append(sent[x.ch], x.m)
			in = append(in, fmt.Sprintf("enq%d:%s", x.ch, vfMsgTxt(x.m)))
		}
		exhausted := false
		for k := 0; k < 100 && !exhausted; k++ {
			exhausted = snd.sendPacketMsg()
		}
		snd.bufConnWriter.Flush()
		got := map[byte][][]byte{}
		npk, bad := 0, ""
		for len(sw.w.b) > 0 && bad == "" {
			var pkt kp2p.Packet
			if err := protoio.NewDelimitedReader(&sw.w, 1<<20).ReadMsg(&pkt); err != nil || pkt.GetPacketMsg() == nil {
				bad = fmt.Sprintf("unreadable packet: %v", err)
				break
			}
			npk++
			p := pkt.GetPacketMsg()
			msg, err := rcv.channelsIdx[byte(p.ChannelID)].recvPacketMsg(*p)
			if err != nil {
				bad = "receive error: " + err.Error()
			} else if msg != nil {
				got[byte(p.ChannelID)] = append(got[byte(p.ChannelID)], append([]byte{}, msg...))
			}
		}
		snd.flushTimer.Stop()
		rcv.flushTimer.Stop()
		input := fmt.Sprintf("probe %d: max=2, channels 0,1 (priority 1), 2 (priority 5), input [%s] then sendPacketMsg until exhausted", pi, strings.Join(in, " "))
		if !accepted || !exhausted || bad != "" {
			o.Viol("mconn-probe-failed", fmt.Sprintf("%s: accepted=%v exhausted=%v %s", input, accepted, exhausted, bad))
			continue
		}
		for ch := byte(0); ch < 3; ch++ {
			msgs := sent[ch]
			ok := len(got[ch]) == len(msgs)
			for k := 0; ok && k < len(msgs); k++ {
				ok = bytes.Equal(msgs[k], got[ch][k])
			}
			if ok {
				continue
			}
			// classify: do the delivered messages equal the sent ones with empty messages removed?
			var nonEmpty [][]byte
			for _, m := range msgs {
				if len(m) != 0 {
					nonEmpty = append(nonEmpty, m)
				}
			}
			sub := len(got[ch]) < len(msgs) && len(got[ch]) >= len(nonEmpty)
			if sub { // got = sent minus some empty messages, in order
				i := 0
				for _, m := range msgs {
					if i < len(got[ch]) && bytes.Equal(m, got[ch][i]) {
						i++
					} else if len(m) != 0 {
						sub = false
					}
				}
				sub = sub && i == len(got[ch])
			}
			if sub {
				o.Viol("mconn-empty-message-lost", fmt.Sprintf("%s: ch=%d %d of %d accepted messages delivered (%d packet(s) on the wire in total): %d zero-length message(s) were never transmitted; sender idle, sendQueueSize(ch%d)=%d",
					input, ch, len(got[ch]), len(msgs), npk, len(msgs)-len(got[ch]), ch, snd.channelsIdx[ch].loadSendQueueSize()))
			} else {
				o.Viol("mconn-delivery-mismatch", fmt.Sprintf("%s: ch=%d delivered %d message(s), sent %d, not the same sequence", input, ch, len(got[ch]), len(msgs)))
			}
		}
		o.Stat("probe.empty")
	}
}

func TestVerifC20(t *testing.T) {
	o := vfOpen()
	defer o.Close()
	seed := vfSeed()
	n := vfN(400)
	vfEmptyProbe(o)
	for i := 0; i < n; i++ {
		r := vfFork(seed, uint64(i))
		switch k := i % 40; {
		case k < 17:
			vfSecretCase(o, r)
		case k < 33:
			vfMConnCase(o, r)
		case k < 35:
			vfRecvCase(o, r)
		case vfBroken >= 2:
			o.Stat("e2e.skipped-after-failures")
		case k < 37:
			vfStreamE2E(o, r)
		case k < 39:
			vfMConnE2E(o, r)
		default:
			vfHandshakeAttacks(o, r)
		}
	}
}
