package conn

// C18 harness, connection framing: "whatever bytes a peer sends ... in the connection framing" -
// the receive side of a real MConnection (recvRoutine: length-delimited protobuf Packets, ping /
// pong, channel lookup, reassembly) is fed adversarial plaintext streams over a pipe: valid packet
// sequences, wire-level mutations of them, unknown channels, oversized payloads, giant or
// truncated length prefixes, garbage. Oracle: no panic escapes (the process survives; the
// connection may report an error - dropping the sending peer is allowed), no hang (the routine
// ends or keeps serving within the deadline), no allocation beyond what the packet size limit
// justifies, and whatever IS delivered is the reassembly of the well-formed prefix.

import (
	"bytes"
	"encoding/binary"
	"fmt"
	"net"
	"runtime"
	"sync"
	"testing"
	"time"

	"github.com/gogo/protobuf/proto"

	"github.com/kardiachain/go-kardia/lib/log"
	kp2p "github.com/kardiachain/go-kardia/proto/kardiachain/p2p"
)

func c18fDelim(m proto.Message) []byte {
	b, err := proto.Marshal(m)
	if err != nil {
		panic(err)
	}
	var l [10]byte
	n := binary.PutUvarint(l[:], uint64(len(b)))
	return append(l[:n:n], b...)
}

func c18fPacket(ch int32, eof bool, data []byte) []byte {
	return c18fDelim(&kp2p.Packet{Sum: &kp2p.Packet_PacketMsg{PacketMsg: &kp2p.PacketMsg{ChannelID: ch, EOF: eof, Data: data}}})
}

func TestVerifC18Framing(t *testing.T) {
	o := vfOpen()
	defer o.Close()
	seed := vfSeed()
	n := vfN(120)
	for i := 0; i < n; i++ {
		r := vfFork(seed, uint64(i))
		// ---- the stream and what its well-formed prefix must deliver
		var stream []byte
		var want []string // "<ch>:<hex>" of complete messages, in order, as long as the stream is well-formed
		wellFormed := true
		mayParse := false // the ill-formed step may still decode as some other valid packet (mutations, garbage)
		cur := map[int32][]byte{}
		caps := map[int32]int{1: 4096, 2: 300}
		kind := ""
		add := func(b []byte) { stream = append(stream, b...) }
		steps := 1 + r.Intn(8)
		for k := 0; k < steps; k++ {
			switch x := r.Intn(20); {
			case x < 9: // a valid packet (message possibly split over several packets)
				ch := int32(1 + r.Intn(2))
				data := r.Bytes(r.Pick(0, 1, 10, 200, 1024))
				eof := r.Chance(60)
				add(c18fPacket(ch, eof, data))
				if wellFormed {
					cur[ch] = append(cur[ch], data...)
					if len(cur[ch]) > caps[ch] {
						wellFormed = false // over the channel's receive capacity: the connection must refuse
						kind += "over-capacity,"
					} else if eof {
						want = append(want, fmt.Sprintf("%d:%x", ch, cur[ch]))
						cur[ch] = nil
					}
				}
			case x < 11:
				add(c18fDelim(&kp2p.Packet{Sum: &kp2p.Packet_PacketPing{PacketPing: &kp2p.PacketPing{}}}))
			case x < 12:
				add(c18fDelim(&kp2p.Packet{Sum: &kp2p.Packet_PacketPong{PacketPong: &kp2p.PacketPong{}}}))
			case x < 13: // unknown channel (also ids that alias a known one modulo 256 are NOT known)
				add(c18fPacket(int32(r.Pick(0, 3, 0x7f, 0xff, 1<<20, -1)), true, r.Bytes(r.Intn(20))))
				wellFormed = false
				kind += "unknown-channel,"
			case x < 14: // payload above the packet size limit
				add(c18fPacket(1, true, r.Bytes(r.Pick(1025, 2000, 5000))))
				wellFormed = false
				kind += "oversize-packet,"
			case x < 15: // giant length prefix, nothing or little behind it
				var l [10]byte
				m := binary.PutUvarint(l[:], []uint64{1 << 20, 1 << 31, 1 << 40, 1<<63 - 1, 1<<64 - 1}[r.Intn(5)])
				add(l[:m])
				add(r.Bytes(r.Intn(30)))
				wellFormed = false
				kind += "giant-length,"
			case x < 16: // empty packet (no oneof set)
				add(c18fDelim(&kp2p.Packet{}))
				wellFormed = false
				kind += "empty-packet,"
			case x < 18: // a valid packet with one byte flipped / cut
				b := c18fPacket(int32(1+r.Intn(2)), r.Bool(), r.Bytes(r.Intn(60)))
				if r.Bool() && len(b) > 1 {
					b = b[:1+r.Intn(len(b)-1)]
				} else {
					b[r.Intn(len(b))] ^= byte(1 << uint(r.Intn(8)))
				}
				add(b)
				wellFormed = false
				kind += "mutated,"
				mayParse = true
			default:
				add(r.Bytes(1 + r.Intn(40)))
				wellFormed = false
				kind += "garbage,"
				mayParse = true
			}
			if !wellFormed {
				break
			}
		}
		if kind == "" {
			kind = "valid"
		}
		// ---- a real MConnection on one end of a pipe
		server, client := net.Pipe()
		var mu sync.Mutex
		var got []string
		errc := make(chan interface{}, 8)
		cfg := DefaulKAIConnConfig()
		cfg.PingInterval, cfg.PongTimeout = time.Hour, 30*time.Minute
		descs := []*ChannelDescriptor{{ID: 1, Priority: 1, SendQueueCapacity: 1, RecvMessageCapacity: caps[1]},
			{ID: 2, Priority: 1, SendQueueCapacity: 1, RecvMessageCapacity: caps[2]}}
		mc := NewMConnectionWithConfig(server, descs, func(ch byte, b []byte) {
			mu.Lock()
			got = append(got, fmt.Sprintf("%d:%x", ch, b))
			mu.Unlock()
		}, func(e interface{}) {
			select {
			case errc <- e:
			default:
			}
		}, cfg)
		mc.SetLogger(log.NewNopLogger())
		var m0, m1 runtime.MemStats
		runtime.ReadMemStats(&m0)
		if err := mc.Start(); err != nil {
			t.Fatal(err)
		}
		go func() { // the pipe is synchronous: drain what the connection itself sends (pongs)
			buf := make([]byte, 4096)
			for {
				if _, err := client.Read(buf); err != nil {
					return
				}
			}
		}()
		wdone := make(chan struct{})
		go func() {
			defer close(wdone)
			_ = client.SetWriteDeadline(time.Now().Add(20 * time.Second))
			_, _ = client.Write(stream)
		}()
		desc := fmt.Sprintf("seed=%d case=%d kind=%s stream=%x", seed, i, kind, stream)
		if len(desc) > 700 {
			desc = desc[:700] + "…"
		}
		// the stream is consumed (or refused) within the deadline
		var reported interface{}
		select {
		case <-wdone:
		case reported = <-errc:
		case <-time.After(30 * time.Second):
			o.Viol("framing-hang", desc)
		}
		if reported == nil {
			// everything was read: give the routine a moment to deliver, then see whether it reported
			deadline := time.Now().Add(3 * time.Second)
			for time.Now().Before(deadline) {
				mu.Lock()
				k := len(got)
				mu.Unlock()
				if !wellFormed || k >= len(want) {
					break
				}
				time.Sleep(2 * time.Millisecond)
			}
			select {
			case reported = <-errc:
			case <-time.After(20 * time.Millisecond):
			}
		}
		_ = client.Close()
		stopped := make(chan struct{})
		go func() { defer close(stopped); _ = mc.Stop() }()
		select {
		case <-stopped:
		case <-time.After(20 * time.Second):
			o.Viol("framing-stop-hangs", desc)
		}
		runtime.ReadMemStats(&m1)
		if d := m1.TotalAlloc - m0.TotalAlloc; d > 24<<20 {
			o.Viol("framing-alloc", fmt.Sprintf("%d bytes allocated for a stream of %d bytes; %s", d, len(stream), desc))
		}
		mu.Lock()
		g := append([]string{}, got...)
		mu.Unlock()
		// delivered = the reassembly of the well-formed prefix (nothing else, nothing reordered)
		for j := range g {
			if j >= len(want) && mayParse {
				break
			}
			if j >= len(want) || g[j] != want[j] {
				o.Viol("framing-delivers-other-message", fmt.Sprintf("delivered #%d = %s, expected %v; %s", j, g[j], want, desc))
				break
			}
		}
		if wellFormed {
			if len(g) != len(want) {
				o.Viol("framing-valid-stream-not-delivered", fmt.Sprintf("%d of %d messages delivered (error: %v); %s", len(g), len(want), reported, desc))
			}
			if reported != nil && !bytes.Contains([]byte(fmt.Sprint(reported)), []byte("EOF")) && !bytes.Contains([]byte(fmt.Sprint(reported)), []byte("closed")) {
				o.Viol("framing-valid-stream-refused", fmt.Sprintf("error %v; %s", reported, desc))
			}
		} else if len(g) < len(want) {
			o.Viol("framing-valid-prefix-not-delivered", fmt.Sprintf("%d of %d messages of the well-formed prefix delivered; %s", len(g), len(want), desc))
		}
		if reported != nil {
			if s := fmt.Sprint(reported); bytes.Contains([]byte(s), []byte("runtime error")) {
				// _recover turns a panic of the routine into an error: the peer is dropped, the node lives -
				// allowed by the statement, but counted
				o.Stat("framing.recovered-panic")
			}
			o.Stat("framing.error-reported")
		}
		o.Stat("framing." + kind)
		o.Case(fmt.Sprintf("%s:%x", kind, stream), kind != "valid")
	}
}
