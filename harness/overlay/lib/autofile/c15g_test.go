package autofile

// C15 (second harness): the file group under the consensus WAL — Group.Write / checkHeadSizeLimit /
// RotateFile and GroupReader.Read — against the writer/reader part of the Lean model `wal`
// (ops gappend/gcheck/grotate/gfiles/gopen/gread), plus the oracle: the files, in index order,
// are exactly the bytes written (nothing lost, duplicated or reordered by rotation); a reader
// opened at file i delivers exactly the bytes of files i.. in order, a short read only together
// with io.EOF, never a panic.

import (
	"bytes"
	"fmt"
	"io"
	"os"
	"path/filepath"
	"strings"
	"testing"
)

func c15gPath(head string, i, max int) string {
	if i == max {
		return head
	}
	return fmt.Sprintf("%s.%03d", head, i)
}

func TestVerifC15Group(t *testing.T) {
	o := vfOpen()
	defer o.Close()
	seed := vfSeed()
	n := vfN(100)
	base := ""
	if st, err := os.Stat("/dev/shm"); err == nil && st.IsDir() {
		base, _ = os.MkdirTemp("/dev/shm", "vfc15g-")
	}
	if base == "" {
		base = t.TempDir()
	}
	defer os.RemoveAll(base)
	for i := 0; i < n; i++ {
		r := vfFork(seed, uint64(i))
		c15gCase(o, r, i, base)
	}
}

func c15gCase(o *vfOut, r *vfRand, idx int, base string) {
	id := fmt.Sprintf("group#%d", idx)
	dir := filepath.Join(base, fmt.Sprintf("g%d", idx))
	if err := os.MkdirAll(dir, 0700); err != nil {
		panic(err)
	}
	defer os.RemoveAll(dir)
	head := filepath.Join(dir, "wal")
	limit := int64(r.Pick(0, 1, 10, 50, 200, 1000, 45000))
	g, err := OpenGroup(head, GroupHeadSizeLimit(limit))
	if err != nil {
		panic(err)
	}
	defer func() {
		g.Close()
		g.Head.Close()
	}()
	o.Op("wal", "case max=0", "ok")
	o.Op("wal", "gcase", "ok")
	var all []byte
	nops := 1 + r.Intn(30)
	rotations := 0
	for k := 0; k < nops; k++ {
		switch c := r.Intn(10); {
		case c < 6:
			sz := r.Pick(0, 1, 7, 8, 9, 40, 300, 300, 1000)
			if r.Chance(3) {
				sz = r.Pick(4095, 4096, 40959, 40960, 40961, 41000) // around the bufio buffer of the head
			}
			bs := r.Bytes(sz)
			var werr error
			var wn int
			if vfGuard(o, "C15/panic-in-group-write", func() string { return id }, func() { wn, werr = g.Write(bs) }) {
				return
			}
			if werr != nil || wn != len(bs) {
				o.Viol("C15/group-write-failed", fmt.Sprintf("%s n=%d of %d err=%v", id, wn, len(bs), werr))
				return
			}
			all = append(all, bs...)
			o.Op("wal", "gappend "+vfHex(bs), "ok")
		case c < 9:
			if err := g.FlushAndSync(); err != nil {
				panic(err)
			}
			if vfGuard(o, "C15/panic-in-rotation", func() string { return id }, func() { g.checkHeadSizeLimit() }) {
				return
			}
			if g.MaxIndex() > rotations {
				rotations = g.MaxIndex()
				o.Stat("rotation-by-size")
			}
			o.Op("wal", fmt.Sprintf("gcheck %d", limit), fmt.Sprint(g.MaxIndex()))
		default:
			if vfGuard(o, "C15/panic-in-rotation", func() string { return id }, func() { g.RotateFile() }) {
				return
			}
			rotations = g.MaxIndex()
			o.Op("wal", "grotate", fmt.Sprint(g.MaxIndex()))
		}
	}
	if err := g.FlushAndSync(); err != nil {
		panic(err)
	}
	max := g.MaxIndex()
	files := make([][]byte, max+1)
	parts := make([]string, max+1)
	var flat []byte
	for k := 0; k <= max; k++ {
		bz, err := os.ReadFile(c15gPath(head, k, max))
		if err != nil && !(k == max && os.IsNotExist(err)) {
			o.Viol("C15/group-file-missing", fmt.Sprintf("%s file %d of %d: %v", id, k, max+1, err))
			return
		}
		files[k] = bz
		parts[k] = vfHex(bz)
		flat = append(flat, bz...)
	}
	o.Op("wal", "gfiles", strings.Join(parts, "/"))
	if !bytes.Equal(flat, all) {
		o.Viol("C15/group-files-are-not-the-bytes-written", fmt.Sprintf("%s: %d bytes in %d files, %d written", id, len(flat), max+1, len(all)))
	}
	if gi := g.ReadGroupInfo(); gi.MaxIndex != max || gi.MinIndex != 0 {
		o.Viol("C15/group-index", fmt.Sprintf("%s: info %+v, maxIndex %d", id, gi, max))
	}
	o.Case(fmt.Sprintf("%d/%d/%x", len(all), max, r.U64()), len(all) > 0)
	o.Stat(fmt.Sprintf("group-files-%d", c15gMin(max+1, 9)))

	// reader
	start := r.Intn(max + 1)
	gr, err := g.NewReader(start)
	if err != nil {
		o.Viol("C15/group-reader-open", fmt.Sprintf("%s index %d: %v", id, start, err))
		return
	}
	defer gr.Close()
	o.Op("wal", fmt.Sprintf("gopen %d", start), "ok")
	var want []byte
	for k := start; k <= max; k++ {
		want = append(want, files[k]...)
	}
	pos := 0
	for step := 0; step < 30; step++ {
		sz := r.Pick(0, 1, 2, 3, 4, 4, 4, 8, 13, 100, 100, 1000, 5000, 50000)
		buf := make([]byte, sz)
		var m int
		var rerr error
		if vfGuard(o, "C15/panic-in-group-read", func() string { return id }, func() { m, rerr = gr.Read(buf) }) {
			return
		}
		e := "ok"
		if rerr == io.EOF {
			e = "eof"
		} else if rerr != nil {
			e = "err"
		}
		o.Op("wal", fmt.Sprintf("gread %d", sz), vfHex(buf[:m])+" "+e)
		o.Stat("gread-" + e)
		if pos+m > len(want) || !bytes.Equal(buf[:m], want[pos:pos+m]) {
			o.Viol("C15/group-reader-wrong-bytes", fmt.Sprintf("%s read %d at %d", id, sz, pos))
			return
		}
		pos += m
		if sz > 0 && rerr == nil && m != sz {
			o.Viol("C15/group-short-read-without-eof", fmt.Sprintf("%s read %d of %d at %d", id, m, sz, pos))
		}
		if rerr == io.EOF && pos != len(want) {
			o.Viol("C15/group-reader-early-eof", fmt.Sprintf("%s EOF at %d of %d", id, pos, len(want)))
		}
	}
}

func c15gMin(a, b int) int {
	if a < b {
		return a
	}
	return b
}
