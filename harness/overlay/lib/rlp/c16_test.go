package rlp

// C16 harness: differential of lib/rlp against the Lean model `rlp` plus the property oracle
// (round trip, canonicity, no panic, bounded allocation), with go-ethereum's rlp as a second
// reference for encodings.

import (
	"bytes"
	"fmt"
	"io"
	"math/big"
	"reflect"
	"runtime"
	"strings"
	"testing"

	gethrlp "github.com/ethereum/go-ethereum/rlp"
)

type vfS struct {
	A uint64
	B []byte
	C *big.Int
	D []uint64 `rlp:"tail"`
}
type vfO struct {
	A uint64
	B uint64 `rlp:"optional"`
	C []byte `rlp:"optional"`
}

// generated Go types with nested structs and lists; each is handed to the codec struct-first, so
// the type cache builds the slice/array element information while the struct is still in progress
type vfTree struct {
	V    uint64
	Kids []vfTree
}
type vfTailTree struct {
	V    uint64
	Kids []vfTailTree `rlp:"tail"`
}
type vfPtrTree struct {
	V    uint64
	Kids []*vfPtrTree
}
type vfChain struct {
	V    []byte
	Next *vfChain `rlp:"nil"`
}
type vfPair struct {
	X uint16
	Y []byte
}
type vfArr struct {
	P [2]vfPair
	Q [][]uint64
	R [3]byte
	T []vfPair
}

// struct tags x element kinds: the tag of a field must not leak into the element type
type vfTagT1 struct {
	A uint64
	T [][]uint64 `rlp:"tail"`
}
type vfTagT2 struct {
	A []byte
	T [][2]uint16 `rlp:"tail"`
}
type vfTagT3 struct {
	A uint64
	T []*vfPair `rlp:"tail"`
}
type vfTagT4 struct {
	A uint64
	T [][]byte `rlp:"tail"`
}
type vfTagT5 struct {
	A uint64
	T [][][]byte `rlp:"tail"`
}
type vfTagO1 struct {
	A uint64
	B [][]uint64 `rlp:"optional"`
	C []vfPair   `rlp:"optional"`
	D *vfPair    `rlp:"optional"`
	E [][]byte   `rlp:"optional"`
}
type vfTagN1 struct {
	A *vfPair     `rlp:"nil"`
	B *[]uint64   `rlp:"nilList"`
	C *[]byte     `rlp:"nilString"`
	D *uint64     `rlp:"nil"`
	E *[][]uint64 `rlp:"nil"`
	F *[2]vfPair  `rlp:"nil"`
}

func vfGenU64s(r *vfRand) []uint64 {
	q := []uint64{}
	for j := r.Intn(4); j > 0; j-- {
		q = append(q, r.U64()>>uint(r.Intn(64)))
	}
	return q
}
func vfGenU64ss(r *vfRand) [][]uint64 {
	q := [][]uint64{}
	for j := r.Intn(4); j > 0; j-- {
		q = append(q, vfGenU64s(r))
	}
	return q
}
func vfGenBss(r *vfRand) [][]byte {
	q := [][]byte{}
	for j := r.Intn(4); j > 0; j-- {
		q = append(q, r.Bytes(r.Pick(0, 1, 1, 2, 5, 60)))
	}
	return q
}
func vfGenPairP(r *vfRand) *vfPair {
	return &vfPair{X: uint16(r.Intn(65536)), Y: r.Bytes(r.Intn(4))}
}

func vfGenTree(r *vfRand, d int) vfTree {
	t := vfTree{V: r.U64() >> uint(r.Intn(64)), Kids: []vfTree{}}
	if d > 0 {
		for k := r.Pick(0, 1, 2, 3); k > 0; k-- {
			t.Kids = append(t.Kids, vfGenTree(r, d-1))
		}
	}
	return t
}
func vfGenTailTree(r *vfRand, d int) vfTailTree {
	t := vfTailTree{V: r.U64() >> uint(r.Intn(64))}
	if d > 0 {
		for k := r.Pick(0, 1, 2, 3); k > 0; k-- {
			t.Kids = append(t.Kids, vfGenTailTree(r, d-1))
		}
	}
	return t
}
func vfGenPtrTree(r *vfRand, d int) *vfPtrTree {
	t := &vfPtrTree{V: r.U64() >> uint(r.Intn(64)), Kids: []*vfPtrTree{}}
	if d > 0 {
		for k := r.Pick(0, 1, 2, 3); k > 0; k-- {
			t.Kids = append(t.Kids, vfGenPtrTree(r, d-1))
		}
	}
	return t
}
func vfGenChain(r *vfRand, d int) *vfChain {
	c := &vfChain{V: vfGenBytes(r)}
	if len(c.V) > 64 {
		c.V = c.V[:64]
	}
	if d > 0 && r.Chance(75) {
		c.Next = vfGenChain(r, d-1)
	}
	return c
}
func vfGenArr(r *vfRand) vfArr {
	a := vfArr{Q: [][]uint64{}, T: []vfPair{}}
	for i := range a.P {
		a.P[i] = vfPair{X: uint16(r.Intn(65536)), Y: r.Bytes(r.Intn(4))}
	}
	for k := r.Intn(3); k > 0; k-- {
		q := []uint64{}
		for j := r.Intn(3); j > 0; j-- {
			q = append(q, r.U64()>>uint(r.Intn(64)))
		}
		a.Q = append(a.Q, q)
	}
	copy(a.R[:], r.Bytes(3))
	for k := r.Intn(3); k > 0; k-- {
		a.T = append(a.T, vfPair{X: uint16(r.Intn(300)), Y: r.Bytes(r.Intn(3))})
	}
	return a
}

// vfSame: structural equality that does not distinguish a nil slice from an empty one
func vfSame(a, b reflect.Value) bool {
	if a.Kind() != b.Kind() {
		return false
	}
	switch a.Kind() {
	case reflect.Ptr:
		if a.IsNil() || b.IsNil() {
			return a.IsNil() == b.IsNil()
		}
		return vfSame(a.Elem(), b.Elem())
	case reflect.Struct:
		if a.Type() == reflect.TypeOf(big.Int{}) {
			x, y := a.Interface().(big.Int), b.Interface().(big.Int)
			return x.Cmp(&y) == 0
		}
		for i := 0; i < a.NumField(); i++ {
			if !vfSame(a.Field(i), b.Field(i)) {
				return false
			}
		}
		return true
	case reflect.Slice, reflect.Array:
		if a.Len() != b.Len() {
			return false
		}
		for i := 0; i < a.Len(); i++ {
			if !vfSame(a.Index(i), b.Index(i)) {
				return false
			}
		}
		return true
	default:
		return reflect.DeepEqual(a.Interface(), b.Interface())
	}
}

// vfTypedRoundTrip: encode `in` (a pointer), compare with the reference encoder, decode into a
// fresh value of the same type, compare; then decode a mutated encoding (must not panic; when it
// is accepted it must be the canonical encoding of what it decodes to)
func vfTypedRoundTrip(o *vfOut, r *vfRand, name string, in interface{}) {
	var enc []byte
	if vfGuard(o, "panic-encode", func() string { return name }, func() {
		var err error
		enc, err = EncodeToBytes(in)
		if err != nil {
			o.Viol("encode-error", name+" "+err.Error())
		}
	}) {
		return
	}
	// (the reference does not know this package's RawValue type: "kinds" is not compared)
	if genc, gerr := gethrlp.EncodeToBytes(in); name != "kinds" && gerr == nil && !bytes.Equal(genc, enc) {
		o.Viol("encode-differs-from-reference", fmt.Sprintf("%s kardia=%x geth=%x", name, enc, genc))
	}
	h := vfHex(enc)
	vfGuard(o, "panic-decode", func() string { return name + " " + h }, func() {
		out := reflect.New(reflect.TypeOf(in).Elem())
		if err := DecodeBytes(enc, out.Interface()); err != nil {
			o.Viol("roundtrip-typed", fmt.Sprintf("%s: decoding its own encoding %x fails: %v", name, enc, err))
			return
		}
		if !vfSame(reflect.ValueOf(in), out) {
			o.Viol("roundtrip-typed", fmt.Sprintf("%s: %x decodes to a different value: %+v", name, enc, out.Elem().Interface()))
		}
	})
	mb := vfMutate(r, enc)
	mh := vfHex(mb)
	vfGuard(o, "panic-decode", func() string { return name + " " + mh }, func() {
		out := reflect.New(reflect.TypeOf(in).Elem())
		if err := DecodeBytes(mb, out.Interface()); err == nil {
			o.Stat("typed." + name + ".mutated-accepted")
			if re, _ := EncodeToBytes(out.Interface()); !bytes.Equal(re, mb) {
				o.Viol("noncanonical-accepted", fmt.Sprintf("%s: input=%x reencoded=%x", name, mb, re))
			}
		}
	})
	o.Stat("typed." + name)
	o.Case("t:"+name+":"+h, len(enc) > 2)
}

// every basic kind the codec has a dedicated reader/writer for
type vfKinds struct {
	S   string
	B   bool
	Z   [0]byte
	O   [1]byte
	F   [5]byte
	N   big.Int
	P   *big.Int
	R   RawValue
	U8  uint8
	U32 uint32
	L   []string
	BB  []bool
}

func vfGenKinds(r *vfRand) *vfKinds {
	k := &vfKinds{S: string(vfGenBytes(r)), B: r.Bool(), U8: uint8(r.Intn(256)), U32: uint32(r.U64() >> uint(32+r.Intn(32))), L: []string{}, BB: []bool{}}
	if len(k.S) > 300 {
		k.S = k.S[:300]
	}
	k.O[0] = byte(r.Pick(0, 1, 0x7f, 0x80, 0xff))
	copy(k.F[:], r.Bytes(5))
	if r.Chance(30) {
		k.F = [5]byte{}
	}
	k.N.SetBytes(r.Bytes(r.Pick(0, 1, 8, 9, 33)))
	k.P = new(big.Int).SetBytes(r.Bytes(r.Pick(0, 1, 8, 32)))
	raw, _ := EncodeToBytes(vfGenItem(r, 2))
	k.R = raw
	for j := r.Intn(3); j > 0; j-- {
		k.L = append(k.L, string(r.Bytes(r.Pick(0, 1, 3, 60))))
		k.BB = append(k.BB, r.Bool())
	}
	return k
}

// vfStreamWalk reads one value with the Stream API (Kind, List/ListEnd, Bytes, Raw) and renders it
// like vfItemText; used against DecodeBytes on the same input
func vfStreamWalk(s *Stream, depth int) (string, error) {
	k, _, err := s.Kind()
	if err != nil {
		return "", err
	}
	if k != List {
		b, err := s.Bytes()
		if err != nil {
			return "", err
		}
		return "s" + vfHex(b), nil
	}
	if _, err := s.List(); err != nil {
		return "", err
	}
	var parts []string
	for {
		if depth > 64 {
			return "", fmt.Errorf("too deep")
		}
		t, err := vfStreamWalk(s, depth+1)
		if err == EOL {
			break
		}
		if err != nil {
			return "", err
		}
		parts = append(parts, t)
	}
	if err := s.ListEnd(); err != nil {
		return "", err
	}
	return "[" + strings.Join(parts, ",") + "]", nil
}

// vfApis: the other entry points on one byte string - all must agree with DecodeBytes / Split
func vfApis(o *vfOut, bs []byte) {
	h := vfHex(bs)
	want, ok := vfDecAny(bs)
	// Stream API over a plain reader with the input length as limit
	st := NewStream(bytes.NewReader(bs), uint64(len(bs)))
	got, err := vfStreamWalk(st, 0)
	if ok {
		if err != nil || "ok "+got != want {
			o.Viol("stream-api-differs-from-decodebytes", fmt.Sprintf("input=%s stream=%s/%v decodebytes=%s", h, got, err, want))
		}
	} else if err == nil {
		// DecodeBytes also refuses trailing bytes; the stream walk reads one value only
		if _, _, rest, e2 := Split(bs); e2 != nil || len(rest) == 0 {
			o.Viol("stream-api-accepts-what-decodebytes-rejects", fmt.Sprintf("input=%s stream=%s", h, got))
		}
	}
	// Decode from a reader = DecodeBytes on inputs holding exactly one value
	var v1 interface{}
	e1 := Decode(bytes.NewReader(bs), &v1)
	if ok && (e1 != nil || "ok "+vfItemText(v1) != want) {
		o.Viol("decode-reader-differs-from-decodebytes", fmt.Sprintf("input=%s reader=%v/%v decodebytes=%s", h, vfItemText(v1), e1, want))
	}
	// Stream.Uint64 / ReadBytes against the typed decoders
	var u64 uint64
	eu := DecodeBytes(bs, &u64)
	su, es := NewStream(bytes.NewReader(bs), uint64(len(bs))).Uint64()
	if (eu == nil) != (es == nil) && !(eu != nil && es == nil && len(bs) > 0) || (eu == nil && es == nil && su != u64) {
		o.Viol("stream-uint-differs", fmt.Sprintf("input=%s stream=%d/%v typed=%d/%v", h, su, es, u64, eu))
	}
	su2, rest2, es2 := SplitUint64(bs)
	if es == nil && (es2 != nil || su2 != su) {
		o.Viol("splituint64-differs", fmt.Sprintf("input=%s split=%d/%v stream=%d", h, su2, es2, su))
	}
	if es2 == nil && es != nil {
		o.Viol("splituint64-accepts-what-stream-rejects", fmt.Sprintf("input=%s split=%d rest=%x stream err=%v", h, su2, rest2, es))
	}
	var arr [4]byte
	ea := DecodeBytes(bs, &arr)
	var arr2 [4]byte
	er := NewStream(bytes.NewReader(bs), uint64(len(bs))).ReadBytes(arr2[:])
	if ea == nil && (er != nil || arr != arr2) {
		o.Viol("stream-readbytes-differs", fmt.Sprintf("input=%s readbytes=%x/%v typed=%x", h, arr2, er, arr))
	}
	// raw.go: SplitString / SplitList are Split with a kind test
	k, c, rest, e0 := Split(bs)
	cs, rs, e3 := SplitString(bs)
	cl, rl, e4 := SplitList(bs)
	if e0 == nil {
		if k == List {
			if e4 != nil || !bytes.Equal(cl, c) || !bytes.Equal(rl, rest) || e3 == nil {
				o.Viol("splitlist-differs", fmt.Sprintf("input=%s", h))
			}
		} else if e3 != nil || !bytes.Equal(cs, c) || !bytes.Equal(rs, rest) || e4 == nil {
			o.Viol("splitstring-differs", fmt.Sprintf("input=%s", h))
		}
	} else if e3 == nil || e4 == nil {
		o.Viol("split-variants-accept-what-split-rejects", fmt.Sprintf("input=%s", h))
	}
	// list iterator: the values of a list, in order, are its content; their number is CountValues
	if e0 == nil && k == List {
		if it, err := NewListIterator(RawValue(bs[:len(bs)-len(rest)])); err != nil {
			o.Viol("iterator-refuses-a-list", fmt.Sprintf("input=%s err=%v", h, err))
		} else {
			var cat []byte
			n := 0
			bad := false
			for it.Next() {
				if it.Err() != nil {
					bad = true
					break
				}
				cat = append(cat, it.Value()...)
				n++
			}
			cnt, ec := CountValues(c)
			if !bad && (!bytes.Equal(cat, c) || ec != nil || cnt != n) {
				o.Viol("iterator-differs", fmt.Sprintf("input=%s values=%x content=%x n=%d count=%d/%v", h, cat, c, n, cnt, ec))
			}
			if bad && ec == nil {
				o.Viol("iterator-error-on-countable-list", fmt.Sprintf("input=%s", h))
			}
		}
	}
	o.Stat("apis")
}

func vfItemText(v interface{}) string {
	switch x := v.(type) {
	case []byte:
		return "s" + vfHex(x)
	case []interface{}:
		parts := make([]string, len(x))
		for i, e := range x {
			parts[i] = vfItemText(e)
		}
		return "[" + strings.Join(parts, ",") + "]"
	}
	return "?"
}

func vfGenBytes(r *vfRand) []byte {
	switch r.Intn(10) {
	case 0:
		return []byte{}
	case 1:
		return []byte{byte(r.Intn(256))}
	case 2:
		return []byte{byte(r.Pick(0, 1, 0x7f, 0x80, 0x81, 0xff))}
	case 3:
		return r.Bytes(r.Pick(54, 55, 56, 57))
	case 4:
		return r.Bytes(r.Pick(255, 256, 257, 1024))
	case 5:
		b := r.Bytes(1 + r.Intn(8))
		b[0] = 0
		return b
	default:
		return r.Bytes(r.Intn(40))
	}
}

func vfGenItem(r *vfRand, depth int) interface{} {
	if depth <= 0 || r.Chance(55) {
		return vfGenBytes(r)
	}
	n := r.Pick(0, 0, 1, 2, 3, 5, 12)
	l := make([]interface{}, n)
	for i := range l {
		l[i] = vfGenItem(r, depth-1)
	}
	return l
}

// toGeth converts to the same tree for the reference encoder.
func vfMutate(r *vfRand, b []byte) []byte {
	c := append([]byte{}, b...)
	switch r.Intn(9) {
	case 0: // truncate
		if len(c) > 0 {
			c = c[:r.Intn(len(c))]
		}
	case 1: // trailing bytes
		c = append(c, r.Bytes(1+r.Intn(3))...)
	case 2: // flip a byte
		if len(c) > 0 {
			c[r.Intn(len(c))] ^= byte(1 << uint(r.Intn(8)))
		}
	case 3: // wrap a single byte as string
		c = []byte{0x81, byte(r.Intn(256))}
	case 4: // long form for short payload
		p := r.Bytes(r.Intn(56))
		c = append([]byte{byte(r.Pick(0xb8, 0xf8)), byte(len(p))}, p...)
	case 5: // leading zero in size
		p := r.Bytes(56 + r.Intn(10))
		c = append([]byte{byte(r.Pick(0xb9, 0xf9)), 0, byte(len(p))}, p...)
	case 6: // header claiming a huge size
		k := 1 + r.Intn(8)
		hdr := []byte{byte(r.Pick(0xb7, 0xf7) + k)}
		sz := r.Bytes(k)
		if sz[0] == 0 {
			sz[0] = 0xff
		}
		c = append(append(hdr, sz...), r.Bytes(r.Intn(8))...)
	case 7: // replace first byte
		if len(c) > 0 {
			c[0] = byte(r.Intn(256))
		}
	case 8: // list header with wrong payload size
		if len(c) > 0 && c[0] >= 0xc1 && c[0] < 0xf7 {
			if r.Bool() {
				c[0]++
			} else {
				c[0]--
			}
		}
	}
	return c
}

func vfDecAny(b []byte) (string, bool) {
	var v interface{}
	if err := DecodeBytes(b, &v); err != nil {
		return "err", false
	}
	return "ok " + vfItemText(v), true
}

func TestVerifC16(t *testing.T) {
	o := vfOpen()
	defer o.Close()
	seed := vfSeed()
	n := vfN(3000)
	const model = "rlp"
	for i := 0; i < n; i++ {
		r := vfFork(seed, uint64(i))
		// ---- (a) values: encode, compare with model and geth, decode back
		item := vfGenItem(r, 4)
		txt := vfItemText(item)
		var enc []byte
		if vfGuard(o, "panic-encode", func() string { return txt }, func() {
			var err error
			enc, err = EncodeToBytes(item)
			if err != nil {
				o.Viol("encode-error", txt+" "+err.Error())
			}
		}) {
			continue
		}
		o.Op(model, "enc "+txt, vfHex(enc))
		genc, _ := gethrlp.EncodeToBytes(item)
		if !bytes.Equal(genc, enc) {
			o.Viol("encode-differs-from-reference", fmt.Sprintf("%s kardia=%x geth=%x", txt, enc, genc))
		}
		back, ok := vfDecAny(enc)
		o.Op(model, "dec "+vfHex(enc), back)
		if !ok || back != "ok "+txt {
			o.Viol("roundtrip", fmt.Sprintf("item=%s enc=%x decoded=%s", txt, enc, back))
		}
		_, isList := item.([]interface{})
		o.Case("v:"+txt, len(enc) > 1)
		if isList {
			o.Stat("value.list")
		} else {
			o.Stat("value.string")
		}
		if len(enc) > 56 {
			o.Stat("value.longform")
		}
		if i < 3 {
			o.Sample("enc " + txt + " => " + vfHex(enc))
		}

		// ---- (b) byte strings: mutated encodings and random bytes, all decoders
		var bs []byte
		switch r.Intn(8) {
		case 0:
			bs = r.Bytes(r.Intn(12))
		case 1, 2: // typed encodings, exact or mutated
			var tv interface{}
			switch r.Intn(4) {
			case 0:
				tv = &vfS{A: r.U64() >> uint(r.Intn(64)), B: vfGenBytes(r), C: new(big.Int).SetBytes(r.Bytes(r.Intn(10))), D: []uint64{r.U64() >> uint(r.Intn(64))}[:r.Intn(2)]}
			case 1:
				tv = &vfO{A: uint64(r.Intn(300)), B: uint64(r.Intn(3)), C: r.Bytes(r.Intn(3))}
			case 2:
				tv = []interface{}{uint64(r.Intn(300))}
			default:
				tv = r.Bytes(r.Pick(0, 1, 2, 4, 8, 9))
			}
			bs, _ = EncodeToBytes(tv)
			if r.Chance(50) {
				bs = vfMutate(r, bs)
			}
		default:
			bs = vfMutate(r, enc)
			if r.Chance(30) {
				bs = vfMutate(r, bs)
			}
		}
		h := vfHex(bs)
		var m0, m1 runtime.MemStats
		runtime.ReadMemStats(&m0)
		vfGuard(o, "panic-decode", func() string { return h }, func() {
			res, ok := vfDecAny(bs)
			o.Op(model, "dec "+h, res)
			if ok {
				o.Stat("bytes.accepted")
				// canonicity oracle, straight from the statement: accepted => re-encoding gives the input
				var v interface{}
				_ = DecodeBytes(bs, &v)
				re, _ := EncodeToBytes(v)
				if !bytes.Equal(re, bs) {
					o.Viol("noncanonical-accepted", fmt.Sprintf("input=%x reencoded=%x", bs, re))
				}
			} else {
				o.Stat("bytes.rejected")
			}
			// geth as a second opinion on accept/reject
			var gv interface{}
			gerr := gethrlp.DecodeBytes(bs, &gv)
			if (gerr == nil) != ok {
				o.Viol("accept-differs-from-reference", fmt.Sprintf("input=%x kardia_ok=%v geth_err=%v", bs, ok, gerr))
			}
			// raw.go
			k, c, rest, err := Split(bs)
			if err != nil {
				o.Op(model, "split "+h, "err")
			} else {
				o.Op(model, "split "+h, fmt.Sprintf("ok %d %s %s", int(k), vfHex(c), vfHex(rest)))
			}
			cnt, err := CountValues(bs)
			if err != nil {
				o.Op(model, "count "+h, "err")
			} else {
				o.Op(model, "count "+h, fmt.Sprintf("ok %d", cnt))
			}
			// typed targets
			var u64 uint64
			if err := DecodeBytes(bs, &u64); err != nil {
				o.Op(model, "decu 8 "+h, "err")
			} else {
				o.Op(model, "decu 8 "+h, fmt.Sprintf("ok %d", u64))
				o.Stat("typed.uint64.ok")
			}
			var u16 uint16
			if err := DecodeBytes(bs, &u16); err != nil {
				o.Op(model, "decu 2 "+h, "err")
			} else {
				o.Op(model, "decu 2 "+h, fmt.Sprintf("ok %d", u16))
			}
			bi := new(big.Int)
			if err := DecodeBytes(bs, bi); err != nil {
				o.Op(model, "decbig "+h, "err")
			} else {
				o.Op(model, "decbig "+h, "ok "+bi.String())
			}
			var bl bool
			if err := DecodeBytes(bs, &bl); err != nil {
				o.Op(model, "decbool "+h, "err")
			} else if bl {
				o.Op(model, "decbool "+h, "ok 1")
			} else {
				o.Op(model, "decbool "+h, "ok 0")
			}
			var by []byte
			if err := DecodeBytes(bs, &by); err != nil {
				o.Op(model, "decbytes "+h, "err")
			} else {
				o.Op(model, "decbytes "+h, "ok "+vfHex(by))
			}
			var arr [4]byte
			if err := DecodeBytes(bs, &arr); err != nil {
				o.Op(model, "decarr 4 "+h, "err")
			} else {
				o.Op(model, "decarr 4 "+h, "ok "+vfHex(arr[:]))
			}
			var s vfS
			if err := DecodeBytes(bs, &s); err != nil {
				o.Op(model, "decS "+h, "err")
			} else {
				ds := make([]string, len(s.D))
				for i, d := range s.D {
					ds[i] = fmt.Sprint(d)
				}
				dtxt := "-"
				if len(ds) > 0 {
					dtxt = strings.Join(ds, ",")
				}
				o.Op(model, "decS "+h, fmt.Sprintf("ok %d %s %s %s", s.A, vfHex(s.B), s.C.String(), dtxt))
				o.Stat("typed.structS.ok")
			}
			var so vfO
			if err := DecodeBytes(bs, &so); err != nil {
				o.Op(model, "decO "+h, "err")
			} else {
				o.Op(model, "decO "+h, fmt.Sprintf("ok %d %d %s", so.A, so.B, vfHex(so.C)))
				o.Stat("typed.structO.ok")
			}
		})
		runtime.ReadMemStats(&m1)
		if alloc := m1.TotalAlloc - m0.TotalAlloc; alloc > uint64(64*1024+200*len(bs)) {
			o.Viol("alloc-unbounded", fmt.Sprintf("input=%x (%d bytes) allocated %d bytes", bs, len(bs), alloc))
		}
		o.Case("b:"+h, len(bs) > 0)

		// ---- (b2) integer payloads around every internal size boundary of the decoder (1 byte,
		// 8 bytes = uint64, 32 bytes = the big.Int fast path, 55/56 = short/long header), canonical
		// and with leading zero bytes, decoded as *big.Int, big.Int in a struct, uint64
		{
			sz := r.Pick(1, 2, 7, 8, 9, 31, 32, 33, 34, 55, 56, 57, 64, 300)
			payload := r.Bytes(sz)
			zeros := 0
			if r.Chance(50) {
				zeros = 1 + r.Intn(2)
				for z := 0; z < zeros && z < sz; z++ {
					payload[z] = 0
				}
			} else if payload[0] == 0 {
				payload[0] = 1
			}
			ib, _ := EncodeToBytes(payload) // the string encoding of exactly these bytes
			ih := vfHex(ib)
			vfGuard(o, "panic-decode", func() string { return ih }, func() {
				bi := new(big.Int)
				if err := DecodeBytes(ib, bi); err != nil {
					o.Op(model, "decbig "+ih, "err")
				} else {
					o.Op(model, "decbig "+ih, "ok "+bi.String())
					if re, _ := EncodeToBytes(bi); !bytes.Equal(re, ib) {
						o.Viol("noncanonical-integer-accepted", fmt.Sprintf("input=%x (payload %d bytes, %d leading zeros) decoded to %s which encodes as %x", ib, sz, zeros, bi.String(), re))
					}
				}
				var u64 uint64
				if err := DecodeBytes(ib, &u64); err != nil {
					o.Op(model, "decu 8 "+ih, "err")
				} else {
					o.Op(model, "decu 8 "+ih, fmt.Sprintf("ok %d", u64))
					if re, _ := EncodeToBytes(u64); !bytes.Equal(re, ib) {
						o.Viol("noncanonical-integer-accepted", fmt.Sprintf("input=%x decoded to uint64 %d which encodes as %x", ib, u64, re))
					}
				}
				// the same integer as a struct field: list [A=1, B=-, C=<payload>]
				body := append([]byte{0x01, 0x80}, ib...)
				lst, _ := EncodeToBytes(RawValue(nil))
				_ = lst
				var hdr []byte
				if len(body) < 56 {
					hdr = []byte{0xc0 + byte(len(body))}
				} else if len(body) < 256 {
					hdr = []byte{0xf8, byte(len(body))}
				} else {
					hdr = []byte{0xf9, byte(len(body) >> 8), byte(len(body))}
				}
				sb := append(hdr, body...)
				var sv2 vfS
				if err := DecodeBytes(sb, &sv2); err != nil {
					o.Op(model, "decS "+vfHex(sb), "err")
				} else {
					o.Op(model, "decS "+vfHex(sb), fmt.Sprintf("ok %d %s %s -", sv2.A, vfHex(sv2.B), sv2.C.String()))
					if zeros > 0 {
						o.Viol("noncanonical-integer-accepted", fmt.Sprintf("struct field big.Int with %d leading zeros accepted: %x", zeros, sb))
					}
				}
			})
			o.Stat(fmt.Sprintf("intpayload.%dB.zeros%d", sz, zeros))
		}

		// ---- (d) generated struct/list types (recursive through slices, tail slices, pointers; arrays)
		{
			t1 := vfGenTree(r, 3)
			vfTypedRoundTrip(o, r, "tree", &t1)
			t2 := vfGenTailTree(r, 3)
			vfTypedRoundTrip(o, r, "tailtree", &t2)
			vfTypedRoundTrip(o, r, "ptrtree", vfGenPtrTree(r, 3))
			vfTypedRoundTrip(o, r, "chain", vfGenChain(r, 4))
			t5 := vfGenArr(r)
			vfTypedRoundTrip(o, r, "arr", &t5)
			// tags x element kinds
			vfTypedRoundTrip(o, r, "tail-of-slices", &vfTagT1{A: r.U64() >> uint(r.Intn(64)), T: vfGenU64ss(r)})
			t7 := &vfTagT2{A: r.Bytes(r.Intn(3)), T: [][2]uint16{}}
			for j := r.Intn(4); j > 0; j-- {
				t7.T = append(t7.T, [2]uint16{uint16(r.Intn(65536)), uint16(r.Intn(300))})
			}
			vfTypedRoundTrip(o, r, "tail-of-arrays", t7)
			t8 := &vfTagT3{A: uint64(r.Intn(1000)), T: []*vfPair{}}
			for j := r.Intn(4); j > 0; j-- {
				t8.T = append(t8.T, vfGenPairP(r))
			}
			vfTypedRoundTrip(o, r, "tail-of-pointers", t8)
			vfTypedRoundTrip(o, r, "tail-of-bytes", &vfTagT4{A: uint64(r.Intn(1000)), T: vfGenBss(r)})
			t10 := &vfTagT5{A: uint64(r.Intn(1000)), T: [][][]byte{}}
			for j := r.Intn(3); j > 0; j-- {
				t10.T = append(t10.T, vfGenBss(r))
			}
			vfTypedRoundTrip(o, r, "tail-of-nested", t10)
			t11 := &vfTagO1{A: uint64(r.Intn(1000))}
			switch r.Intn(5) {
			case 0:
			case 1:
				t11.B = vfGenU64ss(r)
			case 2:
				t11.B, t11.C = vfGenU64ss(r), []vfPair{*vfGenPairP(r)}
			case 3:
				t11.B, t11.D = vfGenU64ss(r), vfGenPairP(r)
			default:
				t11.B, t11.C, t11.D, t11.E = vfGenU64ss(r), []vfPair{*vfGenPairP(r), *vfGenPairP(r)}, vfGenPairP(r), vfGenBss(r)
			}
			vfTypedRoundTrip(o, r, "optional", t11)
			t12 := &vfTagN1{}
			if r.Bool() {
				t12.A = vfGenPairP(r)
			}
			if r.Bool() {
				q := append(vfGenU64s(r), 7)
				t12.B = &q
			}
			if r.Bool() {
				q := append(r.Bytes(r.Intn(4)), 9)
				t12.C = &q
			}
			if r.Bool() {
				q := 1 + r.U64()>>uint(1+r.Intn(63))
				t12.D = &q
			}
			if r.Bool() {
				q := append(vfGenU64ss(r), []uint64{})
				t12.E = &q
			}
			if r.Bool() {
				t12.F = &[2]vfPair{*vfGenPairP(r), *vfGenPairP(r)}
			}
			vfTypedRoundTrip(o, r, "nil-tags", t12)
			vfTypedRoundTrip(o, r, "kinds", vfGenKinds(r))
		}

		// ---- (e) the other entry points: Stream API, Decode(reader), EncodeToReader, list iterator,
		// SplitString/SplitList/SplitUint64, AppendUint64/IntSize - on the value's encoding, on the
		// mutated byte string of (b) and on a typed encoding
		{
			vfGuard(o, "panic-api", func() string { return vfHex(enc) }, func() { vfApis(o, enc) })
			vfGuard(o, "panic-api", func() string { return vfHex(bs) }, func() { vfApis(o, bs) })
			kb, _ := EncodeToBytes(vfGenKinds(r))
			vfGuard(o, "panic-api", func() string { return vfHex(kb) }, func() { vfApis(o, kb) })
			vfGuard(o, "panic-api", func() string { return txt }, func() {
				size, rd, err := EncodeToReader(item)
				if err != nil {
					o.Viol("encode-error", "EncodeToReader "+txt+" "+err.Error())
					return
				}
				all, _ := io.ReadAll(rd)
				// small reads as well: a second reader drained byte by byte
				_, rd2, _ := EncodeToReader(item)
				var slow []byte
				one := make([]byte, 1+r.Intn(3))
				for {
					n, e := rd2.Read(one)
					slow = append(slow, one[:n]...)
					if e != nil {
						break
					}
				}
				if size != len(enc) || !bytes.Equal(all, enc) || !bytes.Equal(slow, enc) {
					o.Viol("encodetoreader-differs", fmt.Sprintf("%s: size=%d reader=%x chunked=%x bytes=%x", txt, size, all, slow, enc))
				}
			})
			nn := []uint64{0, 1, 127, 128, 255, 256, 65535, 65536, 1<<32 - 1, 1 << 32, 1<<56 - 1, 1 << 56, ^uint64(0), r.U64() >> uint(r.Intn(64))}[r.Intn(14)]
			en, _ := EncodeToBytes(nn)
			if a := AppendUint64([]byte{0xaa}, nn); !bytes.Equal(a[1:], en) || a[0] != 0xaa {
				o.Viol("appenduint64-differs", fmt.Sprintf("n=%d append=%x encode=%x", nn, a, en))
			}
			if IntSize(nn) != len(en) {
				o.Viol("intsize-differs", fmt.Sprintf("n=%d IntSize=%d len(enc)=%d", nn, IntSize(nn), len(en)))
			}
		}

		// ---- (c) integers and typed values: encode and decode back
		var n64 uint64
		switch r.Intn(5) {
		case 0:
			n64 = uint64(r.Pick(0, 1, 127, 128, 255, 256, 65535, 65536))
		case 1:
			n64 = ^uint64(0) >> uint(r.Intn(64))
		default:
			n64 = r.U64() >> uint(r.Intn(64))
		}
		e64, _ := EncodeToBytes(n64)
		o.Op(model, fmt.Sprintf("encu %d", n64), vfHex(e64))
		big1 := new(big.Int).SetBytes(r.Bytes(r.Pick(0, 1, 8, 9, 32, 33)))
		eb, _ := EncodeToBytes(big1)
		o.Op(model, "encu "+big1.String(), vfHex(eb))
		sv := vfS{A: n64, B: vfGenBytes(r), C: big1}
		for j := r.Intn(4); j > 0; j-- {
			sv.D = append(sv.D, r.U64()>>uint(r.Intn(64)))
		}
		es, err := EncodeToBytes(&sv)
		if err != nil {
			o.Viol("encode-error", "struct S: "+err.Error())
		} else {
			var s2 vfS
			if err := DecodeBytes(es, &s2); err != nil || s2.A != sv.A || !bytes.Equal(s2.B, sv.B) || s2.C.Cmp(sv.C) != 0 || fmt.Sprint(s2.D) != fmt.Sprint(sv.D) {
				o.Viol("roundtrip-struct", fmt.Sprintf("%+v -> %x -> %+v (%v)", sv, es, s2, err))
			}
			ds := "-"
			if len(sv.D) > 0 {
				p := make([]string, len(sv.D))
				for i, d := range sv.D {
					p[i] = fmt.Sprint(d)
				}
				ds = strings.Join(p, ",")
			}
			o.Op(model, "decS "+vfHex(es), fmt.Sprintf("ok %d %s %s %s", sv.A, vfHex(sv.B), sv.C.String(), ds))
		}
	}
}
