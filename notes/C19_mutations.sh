#!/bin/bash
# self-test: one mutation at a time in a scratch worktree of /repo; usage: notes/C19_mutations.sh
export GOFLAGS=-mod=mod GOPROXY=off GOSUMDB=off GOTOOLCHAIN=local
W=/root/scratch/mut_C19
cd /root/scratch/w_C19
git -C /repo worktree remove --force $W 2>/dev/null
git -C /repo worktree add --detach $W HEAD >/dev/null 2>&1
mut() { # name file python-substitution
  name=$1; file=$2; old=$3; new=$4
  git -C $W checkout -q -- . 
  python3 - "$W/$file" "$old" "$new" <<'P'
import sys
p,old,new=sys.argv[1:4]
s=open(p).read()
assert old in s, "pattern not found: "+old
open(p,'w').write(s.replace(old,new,1))
P
  out=$(VERIF_REPO=$W ./check C19 2>&1)
  rc=$?
  sigs=$(echo "$out" | grep -o "^\[C19\] [a-zA-Z0-9:()/ -]*[:(]" | sort | uniq -c | head -5 | tr '\n' ';')
  echo "MUT $name rc=$rc $(echo "$out" | grep -c '^VIOLATION') violations; $sigs"
}
mut drop-hrs-check types/evidence/verify.go 'if e.VoteA.Height != e.VoteB.Height ||' 'if false && e.VoteA.Height != e.VoteB.Height ||'
mut drop-address-equality types/evidence/verify.go 'if !bytes.Equal(e.VoteA.ValidatorAddress.Bytes(), e.VoteB.ValidatorAddress.Bytes()) {' 'if false {'
mut drop-different-blockids types/evidence/verify.go 'if e.VoteA.BlockID.Equal(e.VoteB.BlockID) {' 'if false {'
mut drop-power-check types/evidence/verify.go 'if val.VotingPower != e.ValidatorPower {' 'if false {'
mut drop-total-check types/evidence/verify.go 'if valSet.TotalVotingPower() != e.TotalVotingPower {' 'if false {'
mut drop-sigB-check types/evidence/verify.go 'if !types.VerifySignature(val.Address, crypto.Keccak256(types.VoteSignBytes(chainID, vb)), e.VoteB.Signature) {' 'if false {'
mut committed-check-removed types/evidence/pool.go 'if evpool.isCommitted(ev) {
				return types.NewErrInvalidEvidence(ev, errors.New("evidence was already committed"))' 'if false {
				return types.NewErrInvalidEvidence(ev, errors.New("evidence was already committed"))'
mut expiry-and-to-or-verify types/evidence/verify.go 'ageDuration > evidenceParams.MaxAgeDuration && ageNumBlocks > evidenceParams.MaxAgeNumBlocks' 'ageDuration > evidenceParams.MaxAgeDuration || ageNumBlocks > evidenceParams.MaxAgeNumBlocks'
mut expiry-and-to-or-pool types/evidence/pool.go 'return ageNumBlocks > uint64(params.MaxAgeNumBlocks) &&' 'return ageNumBlocks > uint64(params.MaxAgeNumBlocks) ||'
mut pending-not-cleared-on-commit types/evidence/pool.go '			evpool.removePendingEvidence(ev)
			blockEvidenceMap[evMapKey(ev)] = struct{}{}
		}

		// Add evidence to the committed list' '			blockEvidenceMap[evMapKey(ev)] = struct{}{}
		}

		// Add evidence to the committed list'
mut inblock-duplicate-check-removed types/evidence/pool.go 'if hashes[i].Equal(hashes[idx]) {' 'if false && hashes[i].Equal(hashes[idx]) {'
mut validators-wrong-height types/evidence/verify.go 'valSet, err := evpool.stateDB.LoadValidators(evidence.Height())' 'valSet, err := evpool.stateDB.LoadValidators(state.LastBlockHeight)'
mut revert-F2-type-unsigned types/canonical_types.go 'Type:      vote.Type,' 'Type:      kproto.PrevoteType,'
mut time-check-removed types/evidence/verify.go 'if evidence.Time() != evTime {' 'if false {'
git -C /repo worktree remove --force $W
