#!/usr/bin/env python3
"""apply one named mutation to the scratch worktree, run ./check C13, print verdict, revert"""
import subprocess, sys, os, re
W="/root/scratch/mut_C13"
MUTS={
 "M1-leaf-prefix-dropped": ("lib/merkle/hash.go","return Sum(append(leafPrefix, leaf...))","return Sum(leaf)"),
 "M2-prefixes-swapped": ("lib/merkle/hash.go","leafPrefix  = []byte{0}\n\tinnerPrefix = []byte{1}","leafPrefix  = []byte{1}\n\tinnerPrefix = []byte{0}"),
 "M3-split-point": ("lib/merkle/simple_tree.go","\tif k == length {\n\t\tk >>= 1\n\t}\n\treturn k","\tif k == length {\n\t\tk >>= 1\n\t}\n\tif k > 1 && length-k == 1 {\n\t\tk--\n\t}\n\treturn k"),
 "M4-F3-reverted": ("types/part_set.go","\tif part.Proof.Index != uint64(part.Index) || part.Proof.Total != uint64(ps.total) {\n\t\treturn false, ErrPartSetInvalidProof\n\t}\n",""),
 "M4b-F3-half(total only)": ("types/part_set.go","part.Proof.Index != uint64(part.Index) || part.Proof.Total != uint64(ps.total)","part.Proof.Index != uint64(part.Index)"),
 "M5-filled-slot-overwritten": ("types/part_set.go","\tif ps.parts[part.Index] != nil {\n\t\treturn false, nil\n\t}\n",""),
 "M6-count-miscounted": ("types/part_set.go","\tps.count++\n\treturn true, nil","\tps.count += 1 + part.Index/7\n\treturn true, nil"),
 "M7-iscomplete-ge": ("types/part_set.go","return ps.count == ps.total","return ps.count+1 >= ps.total"),
 "M8-reader-order": ("types/part_set.go","\tpsr.i++\n\tif psr.i >= len(psr.parts) {","\tif psr.i == 0 && len(psr.parts) > 2 {\n\t\tpsr.i = 1\n\t}\n\tpsr.i++\n\tif psr.i >= len(psr.parts) {"),
 "M9-verify-skips-root": ("lib/merkle/simple_proof.go","\tif !bytes.Equal(computedHash, rootHash) {","\tif len(sp.Aunts) < 3 && !bytes.Equal(computedHash, rootHash) {"),
 "M10-last-part-cut": ("types/part_set.go","Bytes: data[i*partSize : common.MinInt(len(data), int((i+1)*partSize))],","Bytes: data[i*partSize : common.MinInt(len(data)-int(i/5), int((i+1)*partSize))],"),
 "M11-index-check-off-by-one": ("types/part_set.go","if part.Index >= ps.total {","if part.Index > ps.total {"),
 "B1-header-field-missing(GasLimit)": ("types/block.go","\t\tGasLimit:           h.GasLimit,\n",""),
 "B2-validatebasic-skips-evidencehash": ("types/block.go","\tif w, g := b.evidence.Hash(), b.header.EvidenceHash; !w.Equal(g) {","\tif w, g := b.evidence.Hash(), b.header.EvidenceHash; false && !w.Equal(g) {"),
 "B3-validatebasic-skips-lastcommithash": ("types/block.go","} else if b.lastCommit != nil && !b.header.LastCommitHash.Equal(b.lastCommit.Hash()) {","} else if false && b.lastCommit != nil && !b.header.LastCommitHash.Equal(b.lastCommit.Hash()) {"),
 "B4-commitfromproto-drops-round": ("types/commit.go","\tcommit.Round = cp.Round\n",""),
 "B5-validateblock-skips-verifycommit": ("kai/state/cstate/validation.go","\t\tif err := state.LastValidators.VerifyCommit(\n\t\t\tstate.ChainID, state.LastBlockID, block.Height()-1, block.LastCommit()); err != nil {","\t\tif err := error(nil); err != nil {"),
 "B6-validatebasic-skips-txroot": ("types/block.go","\t\tif w, g := b.transactions.Hash(hasher), b.header.TxHash; !w.Equal(g) {","\t\tif w, g := b.transactions.Hash(hasher), b.header.TxHash; false && !w.Equal(g) {"),
 "B7-rawdb-drops-part": ("kai/rawdb/accessors.go","\tfor i := 0; i < int(blockParts.Total()); i++ {\n\t\tpart := blockParts.GetPart(i)\n\t\twriteBlockPart(batch, height, i, part)","\tfor i := 0; i < int(blockParts.Total()); i++ {\n\t\tpart := blockParts.GetPart(int(blockParts.Total()) - 1 - i)\n\t\twriteBlockPart(batch, height, i, part)"),
 "M12-aunt-order": ("lib/merkle/simple_proof.go","\t\t\treturn innerHash(leftHash, innerHashes[len(innerHashes)-1])","\t\t\treturn innerHash(innerHashes[len(innerHashes)-1], leftHash)"),
}
def sh(cmd, **kw): return subprocess.run(cmd, shell=True, text=True, capture_output=True, **kw)
names=sys.argv[1:] or list(MUTS)
for n in names:
    f,a,b=MUTS[n]
    p=os.path.join(W,f); s=open(p).read()
    if a not in s: print(n,"PATTERN NOT FOUND"); continue
    open(p,"w").write(s.replace(a,b,1))
    env=dict(os.environ, VERIF_REPO=W, GOFLAGS="-mod=mod", GOPROXY="off", GOSUMDB="off", GOTOOLCHAIN="local")
    r=subprocess.run(["./check","C13"],cwd="/root/scratch/w_C13",env=env,text=True,capture_output=True)
    out=r.stdout+r.stderr
    sigs=set(re.findall(r"^\[C13\] ([a-z][^\s]*?): ",out,flags=re.M))
    dis=len(re.findall(r"model/implementation disagree",out))
    viol=[l for l in out.split("\n") if l.startswith("VIOLATION")]
    print(f"{n}: exit={r.returncode} oracle_sigs={sorted(sigs)} disagreements_logged={dis} {'NOINPUT' if any('no-failing' in v for v in viol) else ''}")
    sh(f"git -C {W} checkout -- .")
