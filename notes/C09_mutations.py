#!/usr/bin/env python3
"""C09 self-test: apply one mutation at a time to a scratch worktree of /repo and run ./check C09.
usage: python3 notes/C09_mutations.py [name ...]   (run from the framework root)"""
import subprocess, sys, os, re
MUT = "/root/scratch/mut_C09"
SP = "mainchain/blockchain/state_processor.go"
BO = "mainchain/blockchain/block_operations.go"
KVM = "kvm/kvm.go"
INS = "kvm/instructions.go"
MUTS = {
 "refund-cap-removed": (SP, "refund := st.gasUsed() / 2", "refund := st.gasUsed()"),
 "refund-cap-three-quarters": (SP, "refund := st.gasUsed() / 2", "refund := st.gasUsed() / 4 * 3"),
 "fee-from-gas-limit": (SP, "st.state.AddBalance(st.vm.Coinbase, new(big.Int).Mul(new(big.Int).SetUint64(st.gasUsed()), st.gasPrice))",
                        "st.state.AddBalance(st.vm.Coinbase, new(big.Int).Mul(new(big.Int).SetUint64(st.initialGas), st.gasPrice))"),
 "pool-credited-with-limit": (SP, "st.gp.AddGas(st.gas)", "st.gp.AddGas(st.initialGas)"),
 "pool-not-credited": (SP, "st.gp.AddGas(st.gas)", "_ = st.gp"),
 "create-nonce-never": (KVM, "\tkvm.StateDB.SetNonce(caller.Address(), nonce+1)\n\n\t// Ensure there's no existing contract already at the designated address",
                        "\t_ = nonce\n\n\t// Ensure there's no existing contract already at the designated address"),
 "create-nonce-never-toplevel": (KVM, "\tkvm.StateDB.SetNonce(caller.Address(), nonce+1)\n\n\t// Ensure there's no existing contract already at the designated address",
                        "\tif kvm.depth > 0 {\n\t\tkvm.StateDB.SetNonce(caller.Address(), nonce+1)\n\t}\n\n\t// Ensure there's no existing contract already at the designated address"),
 "create-nonce-twice": (SP, "ret, _, st.gas, vmerr = st.vm.Create(sender, st.data, st.gas, st.value)",
                        "ret, _, st.gas, vmerr = st.vm.Create(sender, st.data, st.gas, st.value)\n\t\tst.state.SetNonce(msg.From(), st.state.GetNonce(sender.Address())+1)"),
 "buygas-balance-check-dropped": (SP, "if st.state.GetBalance(st.msg.From()).Cmp(mgval) < 0 {\n\t\treturn tx_pool.ErrInsufficientFunds\n\t}", "_ = tx_pool.ErrInsufficientFunds"),
 "commitblock-no-revert": (BO, "\t\t\tstate.RevertToSnapshot(snap)\n", "\t\t\t_ = snap\n"),
 "failed-frame-value-not-restored": (KVM, "\tif err != nil {\n\t\tkvm.StateDB.RevertToSnapshot(snapshot)\n\t\tif err != ErrExecutionReverted {\n\t\t\tgas = 0\n\t\t}\n\t\t// TODO: consider clearing up unused snapshots:\n\t\t//} else {\n\t\t//\tkvm.StateDB.DiscardSnapshot(snapshot)\n\t}\n\treturn ret, gas, err\n}\n\n// CallCode",
                                     "\tif err != nil {\n\t\t_ = snapshot\n\t\tif err != ErrExecutionReverted {\n\t\t\tgas = 0\n\t\t}\n\t}\n\treturn ret, gas, err\n}\n\n// CallCode"),
 "selfdestruct-double-credit": (INS, "\tkvm.StateDB.AddBalance(common.Address(beneficiary.Bytes20()), balance)\n\tkvm.StateDB.Suicide(callContext.Contract.Address())",
                                "\tkvm.StateDB.AddBalance(common.Address(beneficiary.Bytes20()), balance)\n\tkvm.StateDB.AddBalance(common.Address(beneficiary.Bytes20()), balance)\n\tkvm.StateDB.Suicide(callContext.Contract.Address())"),
 "remaining-gas-not-returned": (SP, "\tst.state.AddBalance(st.msg.From(), remaining)", "\t_ = remaining"),
 "intrinsic-gas-not-charged": (SP, "\tst.gas -= gas\n", "\t_ = gas\n"),
 "nonce-check-too-high-dropped": (SP, "if nonce < st.msg.Nonce() {\n\t\t\treturn tx_pool.ErrNonceTooHigh\n\t\t} else if nonce > st.msg.Nonce() {", "if nonce > st.msg.Nonce() {"),
}
def sh(*a, **k): return subprocess.run(a, capture_output=True, text=True, **k)
def main():
    names = sys.argv[1:] or list(MUTS)
    sh("git", "-C", "/repo", "worktree", "remove", "--force", MUT)
    r = sh("git", "-C", "/repo", "worktree", "add", "--detach", MUT, "HEAD")
    assert r.returncode == 0, r.stderr
    env = dict(os.environ, VERIF_REPO=MUT, GOFLAGS="-mod=mod", GOPROXY="off", GOSUMDB="off", GOTOOLCHAIN="local")
    try:
        for n in names:
            f, old, new = MUTS[n]
            p = os.path.join(MUT, f)
            src = open(p).read()
            assert src.count(old) == 1, (n, src.count(old))
            open(p, "w").write(src.replace(old, new))
            r = sh("./check", "C09", env=env)
            out = r.stdout + r.stderr
            sigs = sorted(set(re.findall(r"^\[C09\] ([\w/.-]+): ", out, flags=re.M)))
            broken = sorted(set(m[:60] for m in re.findall(r"obligation broken: (.*)", out)))
            dis = len(re.findall(r"model/implementation disagree", out))
            known = "KNOWN-FINDING" in out
            viol = "VIOLATION" in out
            print(f"{n}: exit={r.returncode} VIOLATION={viol} oracle={sigs} model-disagreements-shown={dis} obligations-broken={len(broken)} known-line={known}", flush=True)
            open(p, "w").write(src)
    finally:
        sh("git", "-C", "/repo", "worktree", "remove", "--force", MUT)
main()
