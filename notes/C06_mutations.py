#!/usr/bin/env python3
"""Self-test of ./check C06: applies one mutation at a time to a scratch worktree of /repo and
records whether the quick check reports it.  Usage: python3 notes/C06_mutations.py [ids...]
(creates /root/scratch/mut_C06 with `git -C /repo worktree add --detach` if missing)."""
import subprocess, sys, os, re
ROOT = os.path.dirname(os.path.dirname(os.path.abspath(__file__)))
WT = "/root/scratch/mut_C06"
MUTS = {
 "M1-no-sort": ("types/validator_set.go",
    "\tsort.Sort(ValidatorsByAddress(changes))\n", "\t_ = sort.Sort\n"),
 "M2-unstable-compare": ("types/validator_set.go",
    "return bytes.Compare(vals[i].Address.Bytes(), vals[j].Address.Bytes()) == -1",
    "return vals[i].Address[19]&1 < vals[j].Address[19]&1"),
 "M3-first-two-of-map-order": ("kai/state/cstate/execution.go",
    "\treturn updates\n}\n\n// Fire NewBlock",
    "\tif len(updates) > 2 {\n\t\tupdates = updates[len(updates)-2:]\n\t}\n\treturn updates\n}\n\n// Fire NewBlock"),
 "M4-proposer-apphash-field": ("mainchain/blockchain/block_operations.go",
    "lastState.NextValidators.Hash(), lastState.AppHash)",
    "lastState.NextValidators.Hash(), bo.blockchain.CurrentBlock().AppHash())"),
 "M5-proposer-nextvals-field": ("mainchain/blockchain/block_operations.go",
    "\t\tlastState.NextValidators.Hash(), lastState.AppHash)",
    "\t\tlastState.Validators.Hash(), lastState.AppHash)"),
 "M6-snapshot-keeps-deleted-slot": ("kai/state/state_object.go",
    "\t\t\tstorage[crypto.HashData(hasher, key[:])] = snapshotVal // will be nil if it's deleted\n",
    "\t\t\tif snapshotVal != nil {\n\t\t\t\tstorage[crypto.HashData(hasher, key[:])] = snapshotVal\n\t\t\t}\n"),
 "M7-receipts-from-map": ("mainchain/blockchain/block_operations.go",
    "\tvals, err := bo.staking.ApplyAndReturnValidatorSets(state, header, bo.blockchain, kvmConfig)\n",
    "\tbyTx := map[common.Hash]*types.Receipt{}\n\tfor _, rc := range receipts {\n\t\tbyTx[rc.TxHash] = rc\n\t}\n\treceipts = receipts[:0]\n\tfor _, rc := range byTx {\n\t\treceipts = append(receipts, rc)\n\t}\n\tvals, err := bo.staking.ApplyAndReturnValidatorSets(state, header, bo.blockchain, kvmConfig)\n"),
 "M8-intermediateroot-skips-deleted-with-snapshot": ("kai/state/statedb.go",
    "\t\tif obj := s.stateObjects[addr]; obj.deleted {\n\t\t\ts.deleteStateObject(obj)\n\t\t\ts.AccountDeleted += 1",
    "\t\tif obj := s.stateObjects[addr]; obj.deleted {\n\t\t\tif s.snap != nil {\n\t\t\t\tcontinue\n\t\t\t}\n\t\t\ts.deleteStateObject(obj)\n\t\t\ts.AccountDeleted += 1"),
 "M9-unchanged-power-not-skipped": ("kai/state/cstate/execution.go",
    "if !found || oldPower != val.VotingPower {", "if !found || oldPower != val.VotingPower || len(last)%2 == 0 {"),
 "M10-gas-limit-depends-on-dirty-cache": ("mainchain/blockchain/block_operations.go",
    "\tgasPool := new(types.GasPool).AddGas(header.GasLimit)\n",
    "\tgasPool := new(types.GasPool).AddGas(header.GasLimit)\n\tif bo.blockchain.cacheConfig.TrieDirtyDisabled {\n\t\tgasPool = new(types.GasPool).AddGas(header.GasLimit / 2000)\n\t}\n"),
}
def sh(cmd, **kw):
    return subprocess.run(cmd, shell=True, stdout=subprocess.PIPE, stderr=subprocess.STDOUT, text=True, **kw).stdout
if not os.path.isdir(WT):
    print(sh(f"git -C /repo worktree add --detach {WT} HEAD"))
ids = sys.argv[1:] or list(MUTS)
rows = []
for mid in ids:
    f, old, new = MUTS[mid]
    sh(f"git -C {WT} checkout -q .")
    p = os.path.join(WT, f)
    src = open(p).read()
    if src.count(old) != 1:
        rows.append((mid, "ANCHOR-NOT-FOUND", "")); continue
    open(p, "w").write(src.replace(old, new))
    env = dict(os.environ, VERIF_REPO=WT, GOFLAGS="-mod=mod", GOPROXY="off", GOSUMDB="off", GOTOOLCHAIN="local")
    out = subprocess.run(["./check", "C06"], cwd=ROOT, env=env, stdout=subprocess.PIPE, stderr=subprocess.STDOUT, text=True).stdout
    sigs = sorted(set(re.findall(r"^\[C06\] ([a-z0-9-]+): ", out, flags=re.M)))
    dis = "model-disagrees" if "model/implementation disagree" in out else ""
    verdict = "DETECTED" if "VIOLATION" in out else "SURVIVED"
    rows.append((mid, verdict, ", ".join(sigs + ([dis] if dis else []))))
    print(mid, verdict, sigs, dis, flush=True)
    open(os.path.join(ROOT, "build", "C06", f"mut_{mid}.log"), "w").write(out)
    sh(f"git -C {WT} checkout -q .")
print()
for r in rows:
    print("| %s | %s | %s |" % r)
