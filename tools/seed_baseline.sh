#!/bin/bash
# usage: baseline.sh <go-kardia worktree dir>   -- runs the repository's own test suite there and
# compares with the list of tests that must keep passing. Tests that are missing after the full
# run get a second chance alone (timing-sensitive tests flake on a loaded machine).
# Exit 0 iff none of them is missing.
export GOFLAGS=-mod=mod GOPROXY=off GOSUMDB=off GOTOOLCHAIN=local
W=${1:?worktree}
OUT=$(mktemp /root/scratch/seed_tools/run.XXXXXX.json)
(cd "$W" && go test -mod=mod -json -vet=off -count=1 -timeout 25m ./... > "$OUT" 2>/dev/null)
python3 - "$OUT" "$W" <<'PY'
import json,sys,subprocess,os
base=json.load(open('/root/.vp/BASELINE.json'))
want=set(base['stable_pass'])
passed=set()
for l in open(sys.argv[1]):
    try: e=json.loads(l)
    except Exception: continue
    if e.get('Action')=='pass' and e.get('Test'):
        passed.add(e['Package']+'::'+e['Test'])
missing=sorted(want-passed)
retried=[]
if 0 < len(missing) <= 12:
    env=dict(os.environ)
    for m in list(missing):
        pkg,test=m.split('::',1)
        top=test.split('/')[0]
        rel='./'+pkg.replace('github.com/kardiachain/go-kardia/','')
        ok=False
        for attempt in range(3):
            r=subprocess.run(['go','test','-mod=mod','-json','-vet=off','-count=1','-run','^'+top+'$',rel],cwd=sys.argv[2],capture_output=True,text=True,env=env)
            for l in r.stdout.split('\n'):
                try: e=json.loads(l)
                except Exception: continue
                if e.get('Action')=='pass' and e.get('Test')==test: ok=True
            if ok: break
        if ok:
            missing.remove(m); retried.append(m)
for m in retried: print("PASSED-ON-RETRY-ALONE",m)
for m in missing[:50]: print("MISSING",m)
print(f"stable_pass={len(want)} " + f"must_pass={len(want)} passed_now={len(want)-len(missing)} missing={len(missing)}")
sys.exit(1 if missing else 0)
PY
rc=$?
rm -f "$OUT"
exit $rc
