#!/bin/bash
# tools/try_seed_on.sh <seed> <ID> [tier]: run ./check <ID> against seeded change <seed>
S=$1; ID=$2; TIER=${3:-quick}
W=/root/scratch/tryon_${S}_$ID
git -C /repo worktree remove --force $W 2>/dev/null
git -C /repo worktree add --detach $W HEAD -q || exit 2
git -C $W apply /root/scratch/seed_out/$S/patch.diff || { echo "PATCH DOES NOT APPLY"; git -C /repo worktree remove --force $W; exit 2; }
cd /verif && VERIF_REPO=$W timeout 3000 ./check $ID --tier $TIER 2>&1 | cut -c1-400 | grep -v "^KNOWN" | tail -${4:-4}
git -C /repo worktree remove --force $W
