#!/usr/bin/env python3
"""tools/integrate.py <agent copy dir>: copy the files an agent changed/created (relative to the
commit its copy was taken from) into /verif; refuses to overwrite files that changed in /verif since."""
import os, sys, subprocess, shutil, json
src = sys.argv[1].rstrip("/")
dst = "/verif"
skip_prefix = ("evidence/", "build/", "replays/", "lean/.lake/", "lean/Driver.lean", "MANIFEST.json", "lean/lake-manifest.json")
out = subprocess.run(["git", "-C", src, "status", "--porcelain", "-uall"], capture_output=True, text=True).stdout
base = subprocess.run(["git", "-C", src, "rev-parse", "HEAD"], capture_output=True, text=True).stdout.strip()
copied, conflicts = [], []
for line in out.split("\n"):
    if not line.strip():
        continue
    st, path = line[:2], line[3:]
    if " -> " in path:
        path = path.split(" -> ")[1]
    if path.startswith(skip_prefix) or path.endswith("__pycache__") or "__pycache__/" in path:
        continue
    s = os.path.join(src, path)
    d = os.path.join(dst, path)
    if not os.path.isfile(s):
        continue
    if path == "KNOWN_FINDINGS.json":
        # merge entries by (property,id)
        cur = json.load(open(d)); new = json.load(open(s))
        keys = {(e["property"], e["id"]) for e in cur}
        added = [e for e in new if (e["property"], e["id"]) not in keys]
        if added:
            json.dump(cur + added, open(d, "w"), indent=1)
            print("KNOWN_FINDINGS: added", [(e["property"], e["id"]) for e in added])
        continue
    if os.path.exists(d):
        basev = subprocess.run(["git", "-C", src, "show", f"{base}:{path}"], capture_output=True).stdout
        if open(d, "rb").read() != basev and open(d, "rb").read() != open(s, "rb").read():
            conflicts.append(path)
            continue
    os.makedirs(os.path.dirname(d), exist_ok=True)
    shutil.copyfile(s, d)
    if os.access(s, os.X_OK):
        os.chmod(d, 0o755)
    copied.append(path)
print("copied:", *copied, sep="\n  ")
if conflicts:
    print("CONFLICTS (changed in /verif since the copy; merge by hand):", *conflicts, sep="\n  ")
