#!/bin/bash
# Runs the repository's own test suite with the verif guard OFF (no overlay, no tags) and compares
# with /root/.vp/BASELINE.json stable_pass (timing-sensitive tests that are missing after the full
# run get a second chance alone). Exit 0 iff every stable test passes.
exec "$(dirname "$0")/seed_baseline.sh" "${VERIF_REPO:-/repo}"
