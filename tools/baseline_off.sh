#!/bin/bash
# Runs the repository's own test suite with the verif guard OFF (no overlay, no tags)
# and compares with /root/.vp/BASELINE.json stable_pass. Exit 0 iff every stable test passes.
export GOFLAGS=-mod=mod GOPROXY=off GOSUMDB=off GOTOOLCHAIN=local
OUT=${1:-/root/scratch/baseline.gotest.json}
mkdir -p "$(dirname "$OUT")"
(cd /repo && go test -mod=mod -json -vet=off -count=1 -timeout 25m ./... > "$OUT" 2>/dev/null)
python3 - "$OUT" <<'PY'
import json,sys
base=json.load(open('/root/.vp/BASELINE.json'))
want=set(base['stable_pass'])
passed=set()
for l in open(sys.argv[1]):
    try: e=json.loads(l)
    except Exception: continue
    if e.get('Action')=='pass' and e.get('Test'):
        passed.add(e['Package']+'::'+e['Test'])
missing=sorted(want-passed)
print(f"stable_pass={len(want)} passed_now={len(want&passed)} missing={len(missing)}")
for m in missing[:50]: print("MISSING",m)
sys.exit(1 if missing else 0)
PY
