#!/bin/bash
# tools/try_seed.sh <ID>_<k> [tier] : applies /root/scratch/seed_out/<ID>_<k>/patch.diff to a scratch
# worktree of /repo and runs ./check <ID> against it (VERIF_REPO); the worktree is removed afterwards.
S=$1; ID=${S%%_*}; TIER=${2:-quick}
W=/root/scratch/try_$S
git -C /repo worktree remove --force $W 2>/dev/null
git -C /repo worktree add --detach $W HEAD -q || exit 2
if ! git -C $W apply /root/scratch/seed_out/$S/patch.diff; then echo "PATCH DOES NOT APPLY"; git -C /repo worktree remove --force $W; exit 2; fi
cd /verif && VERIF_REPO=$W timeout 3000 ./check $ID --tier $TIER 2>&1 | cut -c1-400 | grep -v "^KNOWN" | tail -${3:-6}
git -C /repo worktree remove --force $W
