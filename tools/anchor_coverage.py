#!/usr/bin/env python3
"""tools/anchor_coverage.py [Cxx ...]: statement coverage of each property's ANCHOR files by the
property's own harness entries (one small shard each, `go test -cover -coverpkg`). Prints the
functions of the anchor files that no harness case executed. A development aid (lesson xv of
DESIGN 8.5: every anchor needs a harness that reaches it), not part of any check."""
import json, os, subprocess, sys, tempfile
sys.path.insert(0, os.path.join(os.path.dirname(__file__), ".."))
from checklib import pipeline as P

root = os.path.abspath(os.path.join(os.path.dirname(__file__), ".."))
props = {json.loads(l)["id"]: json.loads(l) for l in open(os.path.join(root, "properties.jsonl"))}
ids = sys.argv[1:] or sorted(props)
MOD = "github.com/kardiachain/go-kardia/"
for pid in ids:
    reg = json.load(open(os.path.join(root, "checks.d", pid + ".json")))
    files = props[pid]["anchors"]["files"]
    pkgs = sorted({MOD + os.path.dirname(f) for f in files})
    bdir = os.path.join(root, "build", pid + "cov")
    os.makedirs(bdir, exist_ok=True)
    profiles = []
    for entry in reg["harness"]:
        ov = P.build_overlay(root, pid, [entry])
        binp = os.path.join(bdir, entry["test"] + ".cov.test")
        rc, out = P.run(["go", "test", "-overlay", ov, "-vet=off", "-cover", "-coverpkg=" + ",".join(pkgs), "-c", "-o", binp,
                         "./" + entry["pkg"]], cwd=P.REPO, env=P.GOENV, timeout=1800)
        if rc != 0:
            print(pid, entry["test"], "BUILD FAILED", out[-300:]); continue
        n = max(20, entry.get("n", {}).get("quick", 400) // max(1, entry.get("shards", {}).get("quick", 4)) // 2)
        prof = os.path.join(bdir, entry["test"] + ".prof")
        env = dict(os.environ); env.update(P.GOENV)
        env.update({"VERIF_SEED": "1000", "VERIF_N": str(n), "VERIF_TIER": "quick", "VERIF_OUT": os.path.join(bdir, "out"),
                    "VERIF_ROOT": root, "GOMAXPROCS": "4"})
        env.update(entry.get("env", {}))
        subprocess.run([binp, "-test.run", "^" + entry["test"] + "$", "-test.timeout", "900s", "-test.coverprofile", prof],
                       cwd=os.path.join(P.REPO, entry["pkg"]), env=env, stdout=subprocess.DEVNULL, stderr=subprocess.DEVNULL)
        if os.path.exists(prof):
            profiles.append(prof)
    # merge: a block is covered if any profile covers it
    cov = {}
    for prof in profiles:
        for l in open(prof):
            if l.startswith("mode:"): continue
            k, cnt = l.rsplit(" ", 1)
            cov[k] = cov.get(k, 0) + int(cnt)
    merged = os.path.join(bdir, "merged.prof")
    with open(merged, "w") as f:
        f.write("mode: set\n")
        for k, c in cov.items():
            f.write(f"{k} {1 if c > 0 else 0}\n")
    rc, out = P.run(["go", "tool", "cover", "-func", merged], cwd=P.REPO, env=P.GOENV, timeout=600)
    dead = []
    for l in out.splitlines():
        parts = l.split()
        if len(parts) >= 3 and parts[-1] == "0.0%":
            fn = parts[0].replace(MOD, "")
            path = fn.split(":")[0]
            if path in files:
                dead.append(f"{path}:{fn.split(':')[1]} {parts[1]}")
    print(f"== {pid}: {len(dead)} anchor functions never executed")
    for d in dead:
        print("   ", d)
