#!/bin/bash
# tools/reseed_all.sh [seed...]: re-runs the quick check of each kept seeded change's property against
# a scratch worktree with the change applied (patch from /verif/seeded/<seed>/patch.diff) and prints
# caught / MISSED per seed. Evidence files written meanwhile come from mutated trees: re-run the
# checks on the unchanged tree afterwards.
cd /verif
SEEDS="$@"; [ -z "$SEEDS" ] && SEEDS=$(ls seeded)
for S in $SEEDS; do
  ID=${S%%_*}; W=/root/scratch/reseed_$S
  git -C /repo worktree remove --force $W 2>/dev/null
  git -C /repo worktree add --detach $W HEAD -q || { echo "$S worktree-failed"; continue; }
  if ! git -C $W apply /verif/seeded/$S/patch.diff 2>/dev/null; then echo "$S PATCH-DOES-NOT-APPLY"; git -C /repo worktree remove --force $W; continue; fi
  OUT=$(VERIF_REPO=$W timeout 3000 ./check $ID --tier quick 2>&1); RC=$?
  if [ $RC -ne 0 ] && echo "$OUT" | grep -q "^VIOLATION property=$ID"; then
    echo "$S caught: $(echo "$OUT" | grep -v '^KNOWN' | grep -v '^VIOLATION' | grep "^\[$ID\]" | head -1 | cut -c1-160)"
  else echo "$S MISSED (rc=$RC)"; fi
  git -C /repo worktree remove --force $W
done
