#!/usr/bin/env python3
"""Regenerates /verif/MANIFEST.json from checks.json (+ not-yet-claimed reasons) and validates it."""
import json, os, sys, subprocess
ROOT = os.path.dirname(os.path.dirname(os.path.abspath(__file__)))
reg = {f[:-5]: json.load(open(os.path.join(ROOT, "checks.d", f))) for f in sorted(os.listdir(os.path.join(ROOT, "checks.d"))) if f.endswith(".json")}
props = [json.loads(l) for l in open(os.path.join(ROOT, "properties.jsonl"))]
pending = json.load(open(os.path.join(ROOT, "tools", "pending.json")))
hooks_commits = []
checks = []
for p in props:
    pid = p["id"]
    if pid not in reg:
        continue
    c = reg[pid]
    checks.append({
        "property_id": pid,
        "quick_cmd": f"./check {pid} --tier quick",
        "thorough_cmd": f"./check {pid} --tier thorough",
        "evidence_file": f"/verif/evidence/{pid}.json",
        "replay_cmd_template": f"./check {pid} --replay {{path}}",
        "engine": "lean4-proof+correspondence",
        "level_claimed": {"category": c.get("level", "proof"), "text": c["level_text"], "design_ref": c.get("design_ref", f"DESIGN.md section 4, {pid}")},
        "level_note": c["level_note"],
        "technique": c.get("technique", "Lean 4 theorems about an executable model + differential correspondence with the Go code"),
    })
na = [{"property_id": p["id"], "reason": pending.get(p["id"], "check not built yet")} for p in props if p["id"] not in reg]
m = {
    "version": 1,
    "setup_cmd": "cd /verif && ./setup.sh",
    "hooks": {
        "guard": "verif",
        "enable": "no source hooks: harness files are compiled into the repository's packages with `go test -overlay build/<ID>/overlay.json` (in-package access, /repo untouched); the build tag `verif` is reserved and unused",
        "baseline_off_cmd": "/verif/tools/baseline_off.sh",
        "source_commits": hooks_commits,
        "add_only": True,
    },
    "engines": [
        {"name": "lean4-proof+correspondence", "path": "/verif/lean, /verif/harness, /verif/checklib",
         "serves_properties": [c["property_id"] for c in checks],
         "kind_free_text": "Lean 4.33 theorems over executable models (lake project KV, core only) + Go in-package differential harness piped to the compiled model driver kvdrv + property oracle; translator harness/facts regenerates KV/Gen/*.lean from the Go source"},
    ],
    "checks": checks,
    "not_applicable": na,
    "notes": "See DESIGN.md. KNOWN_FINDINGS.json lists genuine defects (fixed: with the /repo commit; known: matched by signature). Evidence is rewritten by every run.",
}
json.dump(m, open(os.path.join(ROOT, "MANIFEST.json"), "w"), indent=1)
try:
    import jsonschema
    jsonschema.validate(m, json.load(open("/root/.vp/MANIFEST.schema.json")))
    print("MANIFEST.json valid;", len(checks), "checks,", len(na), "not_applicable")
except ImportError:
    print("jsonschema not available; written without validation")
