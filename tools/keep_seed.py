#!/usr/bin/env python3
"""tools/keep_seed.py <seed> [--caught-by "<text>"] : copies a CONFIRMED seeded change from
/root/scratch/seed_out/<seed>/ into /verif/seeded/<seed>/ (patch.diff, demo_test.go, meta.json).
meta.json = the author's description + what was run here to confirm it (confirm.json) + which of
our checks catch it."""
import json, os, sys, shutil
seed = sys.argv[1]
extra = {}
if "--caught-by" in sys.argv:
    extra["caught_by"] = sys.argv[sys.argv.index("--caught-by") + 1]
if "--history" in sys.argv:
    extra["detection_history"] = sys.argv[sys.argv.index("--history") + 1]
src = f"/root/scratch/seed_out/{seed}"
dst = f"/verif/seeded/{seed}"
conf = json.load(open(os.path.join(src, "confirm.json")))
ok = conf["patch_applies"] and conf["demo_rc_without_change"] == 0 and conf["demo_rc_with_change"] != 0 and conf["compile_failures"] <= 2
if not ok:
    print("NOT CONFIRMED:", conf); sys.exit(1)
if conf["baseline_rc"] != 0 and "--baseline-ok" not in sys.argv:
    print("baseline not clean:", conf["baseline_last"], "(re-run, or pass --baseline-ok with an explanation in --history)"); sys.exit(1)
os.makedirs(dst, exist_ok=True)
shutil.copyfile(os.path.join(src, "patch.diff"), os.path.join(dst, "patch.diff"))
shutil.copyfile(os.path.join(src, "demo_test.go"), os.path.join(dst, "demo_test.go"))
meta = json.load(open(os.path.join(src, "meta.json")))
meta["breaks_property"] = meta.get("property")
meta["confirmed_here"] = {
    "how": "tools/confirm_seed.sh: scratch worktree of /repo; demo run without the change (must pass) and with it (must fail); `go test -run '^$' ./...` compiles every package (the 2 'failures' are the dualnode/eth/eth_client link error that the unmodified tree has too); the repository's suite compared with BASELINE stable_pass; then ./check <ID> --tier quick with VERIF_REPO pointing at the changed tree",
    "demo_rc_without_change": conf["demo_rc_without_change"], "demo_rc_with_change": conf["demo_rc_with_change"],
    "compile_failures": conf["compile_failures"], "baseline": conf["baseline_last"],
    "check_quick_exit_code_at_confirmation_time": conf["check_quick_rc"], "check_quick_tail": conf["check_quick_tail"],
}
meta.update(extra)
json.dump(meta, open(os.path.join(dst, "meta.json"), "w"), indent=1)
print("kept", dst)
