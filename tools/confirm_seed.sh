#!/bin/bash
# tools/confirm_seed.sh <ID>_<k> : independently confirms a seeded change delivered under
# /root/scratch/seed_out/<ID>_<k>/ in a scratch worktree of /repo: patch applies and every package
# compiles, the demo FAILS with the change and PASSES without it, the repository's own suite still
# passes (baseline), and what ./check <ID> (quick) says about it. Result -> confirm.json there.
export GOFLAGS=-mod=mod GOPROXY=off GOSUMDB=off GOTOOLCHAIN=local
S=$1; ID=${S%%_*}; D=/root/scratch/seed_out/$S; W=/root/scratch/confirm_$S
git -C /repo worktree remove --force $W 2>/dev/null
git -C /repo worktree add --detach $W HEAD -q || exit 2
PKG=$(python3 -c "import json;print(json.load(open('$D/meta.json'))['demo_package_dir'])")
CMD=$(python3 -c "import json;print(json.load(open('$D/meta.json'))['demo_command'])")
cp $D/demo_test.go $W/$PKG/zz_seed_demo_test.go
cd $W
# demo without the change
( eval "$CMD" ) > $D/demo_without.log 2>&1; RC_WITHOUT=$?
git apply $D/patch.diff; RC_APPLY=$?
( eval "$CMD" ) > $D/demo_with.log 2>&1; RC_WITH=$?
rm -f $W/$PKG/zz_seed_demo_test.go
go test -vet=off -count=1 -run '^$' ./... > $D/compile.log 2>&1
COMPILE_FAIL=$(grep -c "^FAIL\|build failed" $D/compile.log)
/root/scratch/seed_tools/baseline.sh $W > $D/baseline.log 2>&1; RC_BASE=$?
cd /verif
VERIF_REPO=$W timeout 3000 ./check $ID --tier quick > $D/check_quick.log 2>&1; RC_CHECK=$?
git -C /repo worktree remove --force $W
python3 - <<PY
import json
json.dump({"seed":"$S","patch_applies":$RC_APPLY==0,"demo_rc_without_change":$RC_WITHOUT,"demo_rc_with_change":$RC_WITH,
 "compile_failures":$COMPILE_FAIL,"baseline_rc":$RC_BASE,"baseline_last":open("$D/baseline.log").read().strip().split("\n")[-1] if open("$D/baseline.log").read().strip() else "",
 "check_quick_rc":$RC_CHECK,"check_quick_tail":[l[:300] for l in open("$D/check_quick.log").read().strip().split("\n") if not l.startswith("KNOWN")][-6:]},
 open("$D/confirm.json","w"),indent=1)
print(open("$D/confirm.json").read())
PY
