#!/usr/bin/env python3
"""Regenerates the seeded-changes table of DESIGN.md section 8.5 from /verif/seeded/*/meta.json."""
import json, os, glob, re
rows = ["| seeded change | breaks | what it needs to manifest | caught by | history |", "|---|---|---|---|---|"]
for d in sorted(glob.glob("/verif/seeded/*")):
    m = json.load(open(os.path.join(d, "meta.json")))
    def cell(t, n=420):
        t = re.sub(r"\s+", " ", str(t)).replace("|", "/")
        return t if len(t) <= n else t[:n] + "…"
    rows.append(f"| `{os.path.basename(d)}`: {cell(m.get('summary',''), 300)} | {m.get('breaks_property')} | {cell(m.get('what_it_needs_to_manifest',''), 380)} | {cell(m.get('caught_by','?'), 260)} | {cell(m.get('detection_history','caught by the check as first built'), 300)} |")
table = "\n".join(rows)
p = "/verif/DESIGN.md"
s = open(p).read()
if "SEEDED_TABLE_PLACEHOLDER" in s:
    s = s.replace("SEEDED_TABLE_PLACEHOLDER", "<!-- SEEDED_TABLE_BEGIN -->\n" + table + "\n<!-- SEEDED_TABLE_END -->")
else:
    s = re.sub(r"<!-- SEEDED_TABLE_BEGIN -->.*?<!-- SEEDED_TABLE_END -->", lambda _: "<!-- SEEDED_TABLE_BEGIN -->\n" + table + "\n<!-- SEEDED_TABLE_END -->", s, flags=re.S)
open(p, "w").write(s)
print(len(rows) - 2, "seeded changes in the table")
