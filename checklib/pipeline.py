"""Generic check pipeline (DESIGN.md 1.1): obligations -> correspondence -> oracle -> verdict."""
import sys, os, json, re, subprocess, time, fcntl, shutil, argparse, hashlib

REPO = os.environ.get("VERIF_REPO", "/repo")
GOENV = {"GOFLAGS": "-mod=mod", "GOPROXY": "off", "GOSUMDB": "off", "GOTOOLCHAIN": "local",
         "CGO_ENABLED": "1"}
ALLOWED_AXIOMS = {"propext", "Classical.choice", "Quot.sound"}
FORBIDDEN = re.compile(r"\b(sorry|admit|native_decide|bv_decide|implemented_by|unsafe)\b|^\s*axiom\s|maxHeartbeats\s+0\b")


def log(*a):
    print(*a, flush=True)


def run(cmd, cwd=None, env=None, timeout=None, stdin=None):
    e = dict(os.environ)
    if env:
        e.update(env)
    try:
        p = subprocess.run(cmd, cwd=cwd, env=e, timeout=timeout, input=stdin,
                           stdout=subprocess.PIPE, stderr=subprocess.STDOUT, text=True, errors="replace")
        return p.returncode, p.stdout
    except subprocess.TimeoutExpired as ex:
        out = ex.stdout if isinstance(ex.stdout, str) else (ex.stdout or b"").decode(errors="replace")
        return 124, (out or "") + "\n[timeout]"


class Lock:
    """serialise lake / go builds between concurrently running checks"""
    def __init__(self, path):
        self.path = path
    def __enter__(self):
        self.f = open(self.path, "w")
        fcntl.flock(self.f, fcntl.LOCK_EX)
    def __exit__(self, *a):
        fcntl.flock(self.f, fcntl.LOCK_UN)
        self.f.close()


# ----------------------------------------------------------------------------- Lean side

def strip_comments(src):
    src = re.sub(r"/-.*?-/", lambda m: "\n" * m.group(0).count("\n"), src, flags=re.S)
    src = re.sub(r"--.*", "", src)
    return src


def lean_imports_closure(lean_dir, module, seen=None):
    """project-local modules transitively imported by `module`"""
    if seen is None:
        seen = set()
    if module in seen:
        return seen
    path = os.path.join(lean_dir, module.replace(".", "/") + ".lean")
    if not os.path.exists(path):
        return seen
    seen.add(module)
    for line in open(path):
        m = re.match(r"\s*(?:public\s+)?import\s+(KV\.[A-Za-z0-9_.]+)", line)
        if m:
            lean_imports_closure(lean_dir, m.group(1), seen)
    return seen


def theorem_names(path):
    """(fully qualified name, line) of every theorem in a Props file; tracks namespaces"""
    names = []
    ns = []
    src = strip_comments(open(path).read())
    for i, line in enumerate(src.split("\n"), 1):
        m = re.match(r"\s*namespace\s+(\S+)", line)
        if m:
            ns.append(m.group(1)); continue
        m = re.match(r"\s*end\s+(\S+)\s*$", line)
        if m and ns and ns[-1] == m.group(1):
            ns.pop(); continue
        m = re.match(r"\s*(?:@\[[^\]]*\]\s*)?(?:private\s+|protected\s+)?theorem\s+([^\s:({\[]+)", line)
        if m:
            n = m.group(1)
            full = n if n.startswith("_root_.") else ".".join(ns + [n])
            names.append((full.replace("_root_.", ""), i))
    return names


def lean_obligations(root, cfg, pid, tier, state):
    """build + audit. Fills state['lean'] and returns list of broken obligations (strings)."""
    lean_dir = os.path.join(root, "lean")
    broken = []
    info = {"modules": cfg.get("lean_modules", []), "theorems": [], "obligations": 0, "discharged": 0}
    state["lean"] = info
    mods = cfg.get("lean_modules", [])
    if not mods:
        return broken
    with Lock(os.path.join(root, "build", ".lake.lock")):
        t0 = time.time()
        rc, out = run(["lake", "build"] + mods + ["kvdrv"], cwd=lean_dir, timeout=3600)
        info["build_s"] = round(time.time() - t0, 1)
    info["build_ok"] = (rc == 0)
    errs = [l for l in out.split("\n") if l.startswith("error:")]
    props_files = [os.path.join(lean_dir, m.replace(".", "/") + ".lean") for m in mods]
    thms = []
    for pf in props_files:
        if os.path.exists(pf):
            thms += [(n, ln, pf) for n, ln in theorem_names(pf)]
    info["obligations"] = len(thms)
    if rc != 0:
        info["build_errors"] = errs[:20]
        # name the theorems that no longer check
        bad = set()
        for e in errs:
            m = re.match(r"error: (\S+?\.lean):(\d+):", e)
            if not m:
                continue
            f = os.path.join(lean_dir, m.group(1)); ln = int(m.group(2))
            cands = [(n, l) for n, l, pf in thms if os.path.abspath(pf) == os.path.abspath(f) and l <= ln]
            if cands:
                bad.add(max(cands, key=lambda c: c[1])[0])
            else:
                bad.add(m.group(1) + ":" + m.group(2))
        broken.append("lake build failed: " + (", ".join(sorted(bad)) or "see build log") + " :: " + " | ".join(errs[:3]))
        info["theorems"] = [{"name": n, "status": "unknown (build failed)"} for n, _, _ in thms]
        return broken
    # forbidden constructs in every project module the property depends on
    closure = set()
    for m in mods:
        lean_imports_closure(lean_dir, m, closure)
    hits = []
    for m in sorted(closure):
        p = os.path.join(lean_dir, m.replace(".", "/") + ".lean")
        src = strip_comments(open(p).read())
        for i, line in enumerate(src.split("\n"), 1):
            if FORBIDDEN.search(line):
                hits.append(f"{m}:{i}: {line.strip()[:80]}")
    info["forbidden_hits"] = hits
    info["modules_in_closure"] = sorted(closure)
    if hits:
        broken.append("forbidden construct: " + "; ".join(hits[:5]))
    # axiom audit
    if thms:
        audit = os.path.join(root, "build", pid, "Audit.lean")
        os.makedirs(os.path.dirname(audit), exist_ok=True)
        with open(audit, "w") as f:
            for m in mods:
                f.write(f"import {m}\n")
            for n, _, _ in thms:
                f.write(f"#print axioms {n}\n")
        rc, out = run(["lake", "env", "lean", audit], cwd=lean_dir, timeout=1800)
        axioms = {}
        for m in re.finditer(r"'([^']+)' depends on axioms: \[([^\]]*)\]", out, flags=re.S):
            axioms[m.group(1)] = [a.strip() for a in m.group(2).replace("\n", " ").split(",") if a.strip()]
        for m in re.finditer(r"'([^']+)' does not depend on any axioms", out):
            axioms[m.group(1)] = []
        for n, _, _ in thms:
            if n not in axioms:
                info["theorems"].append({"name": n, "status": "audit-missing"})
                broken.append(f"axiom audit could not find theorem {n}")
                continue
            extra = [a for a in axioms[n] if a not in ALLOWED_AXIOMS]
            if extra:
                info["theorems"].append({"name": n, "status": "bad-axioms", "axioms": axioms[n]})
                broken.append(f"theorem {n} depends on axioms {extra}")
            else:
                info["theorems"].append({"name": n, "status": "ok", "axioms": axioms[n]})
                info["discharged"] += 1
    if tier == "thorough" and cfg.get("leanchecker", True):
        for m in mods:
            rc, out = run(["lake", "env", "leanchecker", m], cwd=lean_dir, timeout=3600)
            info.setdefault("leanchecker", {})[m] = (rc == 0)
            if rc != 0:
                broken.append(f"leanchecker rejected {m}: {out[-300:]}")
    return broken


# ----------------------------------------------------------------------------- T1 facts

def regen_facts(root, cfg, pid, state):
    """Regenerate lean/KV/Gen/<pid>.lean from /repo sources (tie T1). Never a violation by
    itself: if an anchor cannot be found the committed GenDefault copy is used (fallback T2)."""
    facts = cfg.get("facts")
    gen = os.path.join(root, "lean", "KV", "Gen", pid + ".lean")
    default = os.path.join(root, "lean", "KV", "GenDefault", pid + ".lean")
    if not facts:
        return
    info = {"spec": facts, "status": "ok"}
    state["facts"] = info
    binp = os.path.join(root, "build", "facts")
    with Lock(os.path.join(root, "build", ".go.lock")):
        rc, out = run(["go", "build", "-o", binp, "."], cwd=os.path.join(root, "harness", "facts"), env=GOENV, timeout=600)
    if rc != 0:
        info["status"] = "translator failed to build: " + out[-300:]
    else:
        tmp = gen + ".tmp"
        rc, out = run([binp, "-repo", REPO, "-spec", os.path.join(root, facts), "-ns", "KV.Gen." + pid, "-o", tmp], timeout=300)
        if rc == 0:
            new = open(tmp).read()
            old = open(gen).read() if os.path.exists(gen) else None
            if new != old:
                os.replace(tmp, gen)
            else:
                os.remove(tmp)
            info["notes"] = out.strip().split("\n")[-5:]
        else:
            info["status"] = "anchor not found, using committed GenDefault (fallback to T2): " + out.strip()[-400:]
            if os.path.exists(tmp):
                os.remove(tmp)
            shutil.copyfile(default, gen)
    if os.path.exists(default) and os.path.exists(gen):
        info["differs_from_default"] = open(default).read() != open(gen).read()


# ----------------------------------------------------------------------------- Go side

def build_overlay(root, pid, entries):
    """overlay.json mapping /repo/<pkg>/zz_verif_*_test.go to files under /verif/harness."""
    bdir = os.path.join(root, "build", pid)
    os.makedirs(bdir, exist_ok=True)
    repl = {}
    tmpl = open(os.path.join(root, "harness", "tmpl", "util_test.go.tmpl")).read()
    pkgs = {}
    for e in entries:
        pkgs.setdefault(e["pkg"], []).extend(e.get("files", []))
        for extra in e.get("extra", []):  # helper files in other packages
            pkgs.setdefault(extra["pkg"], []).extend(extra["files"])
    for pkg, files in pkgs.items():
        pkgname = None
        for f in sorted(set(files)):
            src = os.path.join(root, "harness", "overlay", pkg, f)
            if pkgname is None:
                m = re.search(r"^package\s+(\w+)", open(src).read(), flags=re.M)
                pkgname = m.group(1)
            repl[os.path.join(REPO, pkg, "zz_verif_" + f)] = src
        util = os.path.join(bdir, "util_" + pkg.replace("/", "_") + "_test.go")
        with open(util, "w") as f:
            f.write(f"package {pkgname}\n\n" + tmpl)
        repl[os.path.join(REPO, pkg, "zz_verif_util_test.go")] = util
    ov = os.path.join(bdir, "overlay.json")
    json.dump({"Replace": repl}, open(ov, "w"), indent=1)
    return ov


def parse_out(path):
    rec = {"M": [], "V": [], "S": {}, "X": [], "C": 0, "N": 0}
    if not os.path.exists(path):
        return rec
    with open(path, errors="replace") as f:
        for line in f:
            line = line.rstrip("\n")
            p = line.split("\t")
            if p[0] == "M" and len(p) >= 4:
                rec["M"].append((p[1], p[2], p[3]))
            elif p[0] == "V" and len(p) >= 3:
                rec["V"].append((p[1], p[2]))
            elif p[0] == "S" and len(p) >= 3:
                rec["S"][p[1]] = rec["S"].get(p[1], 0) + int(p[2])
            elif p[0] == "X" and len(p) >= 2:
                rec["X"].append(p[1])
            elif p[0] == "C":
                rec["C"] += int(p[1])
            elif p[0] == "N":
                rec["N"] += int(p[1])
    return rec


def run_harness(root, pid, entry, tier, seed, state, n_override=None):
    """build the in-package test binary from /repo's current tree and run it (sharded)."""
    bdir = os.path.join(root, "build", pid)
    ov = build_overlay(root, pid, [entry])
    binp = os.path.join(bdir, entry["test"] + ".test")
    hinfo = {"pkg": entry["pkg"], "test": entry["test"]}
    state.setdefault("harness", []).append(hinfo)
    if os.path.exists(binp):
        os.remove(binp)
    t0 = time.time()
    with Lock(os.path.join(root, "build", ".go.lock")):
        rc, out = run(["go", "test", "-overlay", ov, "-vet=off", "-c", "-o", binp, "./" + entry["pkg"]],
                      cwd=REPO, env=GOENV, timeout=1800)
    hinfo["build_s"] = round(time.time() - t0, 1)
    if rc != 0 or not os.path.exists(binp):
        hinfo["build_error"] = out[-1500:]
        return None, "harness does not compile against the current tree: " + out.strip()[-600:]
    sizes = entry.get("n", {"quick": 1000, "thorough": 20000})
    n = n_override or sizes[tier]
    shards = entry.get("shards", {"quick": 4, "thorough": 12})[tier]
    shards = max(1, min(shards, n))
    per = (n + shards - 1) // shards
    procs = []
    outs = []
    tmo = entry.get("timeout", {"quick": 600, "thorough": 3000})[tier]
    for s in range(shards):
        outp = os.path.join(bdir, f"{entry['test']}.{s}.out")
        if os.path.exists(outp):
            os.remove(outp)
        env = dict(os.environ)
        env.update(GOENV)
        env.update({"VERIF_SEED": str(seed * 1000 + s), "VERIF_N": str(per), "VERIF_TIER": tier,
                    "VERIF_OUT": outp, "VERIF_ROOT": root, "GOMAXPROCS": str(entry.get("gomaxprocs", 2))})
        env.update(entry.get("env", {}))
        lg = open(outp + ".log", "w")
        p = subprocess.Popen([binp, "-test.run", "^" + entry["test"] + "$", "-test.timeout", f"{tmo}s", "-test.count=1"],
                             cwd=os.path.join(REPO, entry["pkg"]), env=env, stdout=lg, stderr=subprocess.STDOUT)
        procs.append((p, lg, outp, seed * 1000 + s))
        outs.append(outp)
    failed = []
    deadline = time.time() + tmo + 60
    for p, lg, outp, sd in procs:
        try:
            p.wait(timeout=max(1, deadline - time.time()))
        except subprocess.TimeoutExpired:
            p.kill(); p.wait()
        lg.close()
        if p.returncode != 0:
            tail = open(outp + ".log", errors="replace").read()[-1500:]
            failed.append((sd, p.returncode, tail))
    hinfo["run_s"] = round(time.time() - t0 - hinfo["build_s"], 1)
    hinfo["shards"] = shards
    hinfo["cases_requested"] = per * shards
    recs = [(parse_out(o), o) for o in outs]
    err = None
    if failed:
        sd, rc, tail = failed[0]
        err = f"harness run failed (seed {sd}, exit {rc}): {tail[-700:]}"
        hinfo["run_error"] = err
    return recs, err


def model_diff(root, recs, state):
    """pipe the op lines to kvdrv and compare. Returns list of disagreements."""
    drv = os.path.join(root, "lean", ".lake", "build", "bin", "kvdrv")
    disagreements = []
    total = 0
    # the shards are independent: run their driver processes concurrently
    jobs = []
    for rec, path in recs:
        by_model = {}
        for idx, (model, op, real) in enumerate(rec["M"]):
            by_model.setdefault(model, []).append((idx, op, real))
        for model, ops in by_model.items():
            jobs.append((path, model, ops))
    from concurrent.futures import ThreadPoolExecutor

    def _drive(job):
        _, model, ops = job
        return run([drv, model], stdin="\n".join(op for _, op, _ in ops) + "\n", timeout=3000)
    if not jobs:
        return disagreements
    with ThreadPoolExecutor(max_workers=max(1, min(len(jobs), int(os.environ.get("VERIF_DRV_JOBS", "8"))))) as ex:
        results = list(ex.map(_drive, jobs))
    for (path, model, ops), (rc, out) in zip(jobs, results):
        if True:
            total += len(ops)
            lines = out.split("\n")
            if lines and lines[-1] == "":
                lines.pop()
            if rc != 0 or len(lines) != len(ops):
                disagreements.append({"model": model, "kind": "driver-failure", "rc": rc,
                                      "detail": f"{len(lines)} answers for {len(ops)} ops; tail: {out[-300:]}", "file": path})
                continue
            last_case = 0
            for j, ((idx, op, real), got) in enumerate(zip(ops, lines)):
                if op.startswith("case"):
                    last_case = j
                if got != real:
                    ctx = [o for _, o, _ in ops[last_case:j + 1]] if ops[last_case][1].startswith("case") else [op]
                    disagreements.append({"model": model, "kind": "mismatch", "op": op, "real": real, "model_out": got,
                                          "context": ctx[-400:], "file": path})
                    if len(disagreements) > 50:
                        break
    state["ops_compared"] = state.get("ops_compared", 0) + total
    return disagreements


# ----------------------------------------------------------------------------- verdict

def load_known(root, pid):
    p = os.path.join(root, "KNOWN_FINDINGS.json")
    if not os.path.exists(p):
        return []
    return [k for k in json.load(open(p)) if k.get("property") == pid and k.get("status") == "known"]


def match_known(known, sig, detail):
    for k in known:
        m = k.get("match", {})
        if "sig" in m and not re.fullmatch(m["sig"], sig):
            continue
        if "detail" in m and not re.search(m["detail"], detail):
            continue
        return k
    return None


def write_replay(root, pid, kind, body):
    d = os.path.join(root, "replays")
    os.makedirs(d, exist_ok=True)
    h = hashlib.sha1(json.dumps(body, sort_keys=True, default=str).encode()).hexdigest()[:10]
    p = os.path.join(d, f"{pid}_{kind}_{h}.json")
    body = dict(body)
    body["property"] = pid
    body["kind"] = kind
    json.dump(body, open(p, "w"), indent=1, default=str)
    return p


def load_registry(root):
    reg = {}
    d = os.path.join(root, "checks.d")
    for f in sorted(os.listdir(d)):
        if f.endswith(".json"):
            reg[f[:-5]] = json.load(open(os.path.join(d, f)))
    return reg


def ensure_gen(root):
    """lean/KV/Gen/*.lean are build products (regenerated from /repo by T1); make sure each one
    exists (copy of the committed GenDefault) so that the project always builds."""
    lean_dir = os.path.join(root, "lean")
    gd = os.path.join(lean_dir, "KV", "GenDefault")
    g = os.path.join(lean_dir, "KV", "Gen")
    os.makedirs(g, exist_ok=True)
    if os.path.isdir(gd):
        for f in os.listdir(gd):
            if f.endswith(".lean") and not os.path.exists(os.path.join(g, f)):
                shutil.copyfile(os.path.join(gd, f), os.path.join(g, f))


def setup(root):
    """MANIFEST.setup_cmd: build every Lean module and the driver, the translator, and warm the
    Go build cache by compiling every harness once against the current tree."""
    os.makedirs(os.path.join(root, "build"), exist_ok=True)
    registry = load_registry(root)
    lean_dir = os.path.join(root, "lean")
    ensure_gen(root)
    rc, out = run(["lake", "build"], cwd=lean_dir, timeout=7200)
    log(out[-2000:])
    if rc != 0:
        log("setup: lake build failed")
        return 1
    if os.path.isdir(os.path.join(root, "harness", "facts")):
        rc, out = run(["go", "build", "-o", os.path.join(root, "build", "facts"), "."],
                      cwd=os.path.join(root, "harness", "facts"), env=GOENV, timeout=1200)
        if rc != 0:
            log("setup: translator build failed\n" + out[-1500:])
            return 1
    bad = 0
    for pid, cfg in registry.items():
        for entry in cfg.get("harness", []):
            ov = build_overlay(root, pid, [entry])
            binp = os.path.join(root, "build", pid, entry["test"] + ".test")
            rc, out = run(["go", "test", "-overlay", ov, "-vet=off", "-c", "-o", binp, "./" + entry["pkg"]],
                          cwd=REPO, env=GOENV, timeout=3600)
            log(f"setup: {pid} {entry['pkg']} {'ok' if rc == 0 else 'FAILED'}")
            if rc != 0:
                log(out[-1500:]); bad += 1
    return 1 if bad else 0


def main(root, argv):
    ap = argparse.ArgumentParser()
    ap.add_argument("pid")
    ap.add_argument("--tier", default=os.environ.get("VERIF_TIER", "quick"), choices=["quick", "thorough"])
    ap.add_argument("--seed", type=int, default=int(os.environ.get("VERIF_SEED", "1") or 1))
    ap.add_argument("--replay")
    ap.add_argument("--n", type=int)
    ap.add_argument("--setup", action="store_true")
    a = ap.parse_args(argv)
    pid = a.pid
    if a.setup:
        return setup(root)
    os.makedirs(os.path.join(root, "build", pid), exist_ok=True)
    os.makedirs(os.path.join(root, "evidence"), exist_ok=True)
    registry = load_registry(root)
    if pid not in registry:
        log(f"unknown property {pid}")
        return 2
    cfg = registry[pid]
    tier = a.tier
    seed = a.seed
    replay_src = None
    if a.replay:
        replay_src = json.load(open(a.replay))
        seed = replay_src.get("seed", seed)
        tier = replay_src.get("tier", tier)
    t0 = time.time()
    state = {}
    known = load_known(root, pid)
    violations = []      # (replay path, text, no_input)
    known_hits = {}

    # (1) obligations
    ensure_gen(root)
    regen_facts(root, cfg, pid, state)
    broken = lean_obligations(root, cfg, pid, tier, state)
    for b in broken:
        log(f"[{pid}] obligation broken: {b}")

    # (2)+(3) correspondence and oracle
    all_recs = []
    corr_broken = []
    seeds = [seed]
    if tier == "thorough":
        seeds = [seed, seed + 7919, seed + 104729]
    for entry in cfg.get("harness", []):
        for sd in (seeds if entry.get("multi_seed", True) else [seed]):
            recs, err = run_harness(root, pid, entry, tier, sd, state, a.n)
            if err:
                corr_broken.append({"kind": "harness", "detail": err, "seed": sd, "entry": entry["test"]})
                log(f"[{pid}] correspondence broken: {err[:400]}")
            if recs:
                all_recs += [(r, p, sd, entry) for r, p in recs]
                dis = model_diff(root, recs, state)
                for d in dis:
                    d["seed"] = sd
                    d["entry"] = entry["test"]
                    corr_broken.append(d)
                for d in dis[:5]:
                    log(f"[{pid}] model/implementation disagree ({d.get('model')}): op={str(d.get('op'))[:200]} real={str(d.get('real'))[:200]} model={str(d.get('model_out'))[:200]} {d.get('detail','')}")

    # oracle violations
    oracle = []
    for rec, path, sd, entry in all_recs:
        for sig, detail in rec["V"]:
            oracle.append((sig, detail, sd, entry["test"]))

    # if an obligation or the correspondence broke, enlarge the search before concluding
    if (broken or corr_broken) and not oracle and not a.replay:
        log(f"[{pid}] searching for a failing input (enlarged oracle run)")
        for entry in cfg.get("harness", []):
            for extra in range(1, 4):
                recs, err = run_harness(root, pid, entry, tier, seed + 31 * extra, state, None)
                if recs:
                    for rec, path in recs:
                        for sig, detail in rec["V"]:
                            oracle.append((sig, detail, seed + 31 * extra, entry["test"]))
                if oracle:
                    break

    seen_sigs = set()
    for sig, detail, sd, test in oracle:
        k = match_known(known, sig, detail)
        if k is not None:
            known_hits.setdefault(k["id"], k)
            continue
        if sig in seen_sigs:
            continue
        seen_sigs.add(sig)
        p = write_replay(root, pid, "oracle", {"signature": sig, "detail": detail, "seed": sd, "tier": tier,
                                                "test": test, "how": f"./check {pid} --replay <this file>"})
        violations.append((p, f"{sig}: {detail[:300]}", False))

    if not violations and (broken or corr_broken):
        body = {"seed": seed, "tier": tier, "broken_obligations": broken,
                "broken_correspondence": corr_broken[:10],
                "note": "a proof obligation or the model/implementation correspondence no longer checks; "
                        "the enlarged oracle search found no input on which the property itself fails"}
        p = write_replay(root, pid, "unproved", body)
        violations.append((p, "no-failing-input-found", True))

    # ---- evidence
    stats = {}
    samples = []
    cases = 0
    distinct = 0
    for rec, path, sd, entry in all_recs:
        for k, v in rec["S"].items():
            stats[k] = stats.get(k, 0) + v
        for x in rec["X"]:
            if len(samples) < 8:
                samples.append(x)
        cases += rec["C"]
        distinct += rec["N"]
    lean = state.get("lean", {})
    level = cfg.get("level", "proof")
    cov = {
        "obligations": lean.get("obligations", 0),
        "discharged": lean.get("discharged", 0),
        "checker_cmd": f"cd /verif/lean && lake build {' '.join(cfg.get('lean_modules', []))} && lake env lean build/{pid}/Audit.lean  (#print axioms per theorem)" + (" && lake env leanchecker" if tier == "thorough" else ""),
        "trusted_base": cfg.get("trusted_base", []) + [
            "Lean 4.33 kernel; axioms allowed: propext, Classical.choice, Quot.sound (per-theorem list under 'theorems')",
            "correspondence harness (go test -overlay, /verif/harness) and kvdrv (compiled Lean model) for the tie",
        ],
        "theorems": lean.get("theorems", []),
        "lean_modules_in_closure": lean.get("modules_in_closure", []),
        "evaluations": max(cases, 1) if all_recs else 0,
        "distinct_nontrivial": distinct,
        "rule": cfg.get("rule", ""),
        "samples": samples or cfg.get("static_samples", []),
        "ops_compared_with_model": state.get("ops_compared", 0),
        "distribution": stats,
        "oracle_violations_seen": len(oracle),
        "known_findings_hit": sorted(known_hits.keys()),
        "facts": state.get("facts"),
        "harness": state.get("harness", []),
        "explanation": cfg.get("explanation", ""),
    }
    ev = {"property_id": pid, "tier": tier, "seed": seed, "level": level, "coverage": cov,
          "assumptions": cfg.get("assumptions", []), "wall_s": round(time.time() - t0, 1),
          "violations": len(violations)}
    json.dump(ev, open(os.path.join(root, "evidence", pid + ".json"), "w"), indent=1)

    for k in known_hits.values():
        log(f"KNOWN-FINDING: property={pid} {k['id']}: {k['what']}")
    if violations:
        for p, text, noinput in violations:
            if noinput:
                log(f"VIOLATION property={pid} replay={p} no-failing-input-found")
            else:
                log(f"[{pid}] {text}")
                log(f"VIOLATION property={pid} replay={p}")
        return 1
    log(f"[{pid}] ok: {lean.get('discharged',0)}/{lean.get('obligations',0)} theorems, {state.get('ops_compared',0)} ops agree with the model, "
        f"{cases} cases ({distinct} distinct non-trivial), {len(oracle)} oracle hits (all known), {ev['wall_s']}s")
    return 0
