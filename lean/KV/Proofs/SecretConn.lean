import KV.Model.SecretConn
/-! Lemmas for C20 (frame layer of SecretConnection). Core only. -/
namespace KV.SecretConn
open KV

/-! ### length prefix -/

theorem le32dec_le32 (n : Nat) (h : n < 2 ^ 32) (rest : Bytes) : le32dec (le32 n ++ rest) = n := by
  simp [le32dec, le32]
  omega

theorem le32_length (n : Nat) : (le32 n).length = 4 := rfl

theorem framePlain_len (pad c : Bytes) (h : c.length ≤ dataMaxSize) :
    le32dec (framePlain pad c) = c.length := by
  unfold framePlain
  rw [List.append_assoc]
  apply le32dec_le32
  simp [dataMaxSize] at h
  omega

theorem framePlain_chunk (pad c : Bytes) :
    ((framePlain pad c).drop dataLenSize).take c.length = c := by
  unfold framePlain dataLenSize
  rw [List.append_assoc, List.drop_left' (le32_length _)]
  simp

/-- the plaintext frame has exactly `totalFrameSize` bytes when the pool buffer had (at least)
that many -/
theorem framePlain_length (pad c : Bytes) (h : c.length ≤ dataMaxSize) (hp : dataMaxSize ≤ pad.length) :
    (framePlain pad c).length = totalFrameSize := by
  simp [framePlain, le32_length, totalFrameSize, dataLenSize, List.length_take] at *
  omega

/-! ### chunking -/

theorem chunksFuel_flatten : ∀ (fuel : Nat) (d : Bytes), d.length < fuel → (chunksFuel fuel d).flatten = d := by
  intro fuel
  induction fuel with
  | zero => intro d h; omega
  | succ f ih =>
    intro d h
    unfold chunksFuel
    by_cases h0 : 0 < d.length
    · simp only [h0, if_true]
      by_cases h1 : dataMaxSize < d.length
      · simp only [h1, if_true, List.flatten_cons]
        rw [ih]
        · simp
        · simp [dataMaxSize] at *; omega
      · simp [h1]
    · have : d = [] := by
        cases d with
        | nil => rfl
        | cons a t => simp at h0
      simp [this]

theorem chunks_flatten (d : Bytes) : (chunks d).flatten = d :=
  chunksFuel_flatten _ _ (by omega)

theorem chunksFuel_ok : ∀ (fuel : Nat) (d : Bytes), ∀ c ∈ chunksFuel fuel d, 0 < c.length ∧ c.length ≤ dataMaxSize := by
  intro fuel
  induction fuel with
  | zero => intro d c h; simp [chunksFuel] at h
  | succ f ih =>
    intro d c h
    unfold chunksFuel at h
    by_cases h0 : 0 < d.length
    · simp only [h0, if_true] at h
      by_cases h1 : dataMaxSize < d.length
      · simp only [h1, if_true, List.mem_cons] at h
        rcases h with h | h
        · subst h
          simp [List.length_take, dataMaxSize] at *
          omega
        · exact ih _ _ h
      · simp only [h1, if_false, List.mem_singleton] at h
        subst h
        exact ⟨h0, by omega⟩
    · simp [h0] at h

theorem chunks_ok (d : Bytes) : ∀ c ∈ chunks d, 0 < c.length ∧ c.length ≤ dataMaxSize :=
  chunksFuel_ok _ _

/-- nothing is written for empty data; data of at most `dataMaxSize` bytes goes into one frame
("data smaller than dataMaxSize is written atomically") -/
theorem chunks_nil : chunks [] = [] := by simp [chunks, chunksFuel]

theorem chunks_small (d : Bytes) (h0 : 0 < d.length) (h : d.length ≤ dataMaxSize) : chunks d = [d] := by
  unfold chunks chunksFuel
  have : ¬ dataMaxSize < d.length := by omega
  simp [h0, this]

section
variable {Key Cipher : Type} (sealF : Key → Nat → Bytes → Cipher) (openF : Key → Nat → Cipher → Option Bytes)
variable (k : Key) (pad : Nat → Bytes)

theorem sealChunks_append (n : Nat) (a b : List Bytes) :
    sealChunks sealF k pad n (a ++ b) = sealChunks sealF k pad n a ++ sealChunks sealF k pad (n + a.length) b := by
  induction a generalizing n with
  | nil => simp [sealChunks]
  | cons c a ih =>
    simp only [List.cons_append, sealChunks, ih, List.length_cons]
    congr 3
    omega

theorem sealChunks_length (n : Nat) (cs : List Bytes) : (sealChunks sealF k pad n cs).length = cs.length := by
  induction cs generalizing n with
  | nil => rfl
  | cons c cs ih => simp [sealChunks, ih]

/-- every frame of the honest stream is the sealing of some chunk under its index -/
theorem mem_sealChunks (n : Nat) (cs : List Bytes) (g : Cipher) (h : g ∈ sealChunks sealF k pad n cs) :
    ∃ m c, n ≤ m ∧ m < n + cs.length ∧ g = sealF k m (framePlain (pad m) c) := by
  induction cs generalizing n with
  | nil => simp [sealChunks] at h
  | cons c cs ih =>
    simp only [sealChunks, List.mem_cons] at h
    rcases h with h | h
    · exact ⟨n, c, Nat.le_refl _, by simp, h⟩
    · obtain ⟨m, c', h1, h2, h3⟩ := ih _ h
      exact ⟨m, c', by omega, by simp; omega, h3⟩

/-- the `i`-th frame of the honest stream -/
theorem getElem?_sealChunks (n : Nat) (cs : List Bytes) (i : Nat) :
    (sealChunks sealF k pad n cs)[i]? = cs[i]?.map (fun c => sealF k (n + i) (framePlain (pad (n + i)) c)) := by
  induction cs generalizing n i with
  | nil => simp [sealChunks]
  | cons c cs ih =>
    cases i with
    | zero => simp [sealChunks]
    | succ i =>
      simp only [sealChunks, List.getElem?_cons_succ, ih]
      have : n + 1 + i = n + (i + 1) := by omega
      rw [this]

/-- splitting the honest stream splits the chunk list -/
theorem sealChunks_split (n : Nat) (cs : List Bytes) (pre rest : List Cipher)
    (h : sealChunks sealF k pad n cs = pre ++ rest) :
    pre = sealChunks sealF k pad n (cs.take pre.length) ∧ pre.length ≤ cs.length := by
  have hlen : pre.length ≤ cs.length := by
    have := congrArg List.length h
    rw [sealChunks_length] at this
    simp at this; omega
  have h2 : sealChunks sealF k pad n cs =
      sealChunks sealF k pad n (cs.take pre.length) ++
        sealChunks sealF k pad (n + (cs.take pre.length).length) (cs.drop pre.length) := by
    rw [← sealChunks_append, List.take_append_drop]
  rw [h2] at h
  have hl : (sealChunks sealF k pad n (cs.take pre.length)).length = pre.length := by
    rw [sealChunks_length, List.length_take]; omega
  exact ⟨(List.append_inj h hl).1.symm, hlen⟩

theorem writeAll_eq (n : Nat) (ws : List Bytes) :
    writeAll sealF k pad n ws =
      (sealChunks sealF k pad n (ws.flatMap chunks), n + (ws.flatMap chunks).length) := by
  induction ws generalizing n with
  | nil => simp [writeAll, sealChunks]
  | cons d ds ih =>
    simp only [writeAll, write, ih, List.flatMap_cons, sealChunks_append, List.length_append]
    simp [Nat.add_assoc]

theorem flatMap_chunks_flatten (ws : List Bytes) : (ws.flatMap chunks).flatten = ws.flatten := by
  induction ws with
  | nil => rfl
  | cons d ds ih => simp [List.flatMap_cons, chunks_flatten, ih]

theorem flatMap_chunks_ok (ws : List Bytes) : ∀ c ∈ ws.flatMap chunks, 0 < c.length ∧ c.length ≤ dataMaxSize := by
  intro c h
  simp only [List.mem_flatMap] at h
  obtain ⟨d, _, hc⟩ := h
  exact chunks_ok d c hc

/-! ### the reader on an honest prefix followed by anything that does not open -/

/-- Main invariant.  The wire is the honest frames of chunks `cs` (nonces `n …`) followed by
`tail`, whose first frame – if there is one – does not open under the nonce the reader will have
by then.  Then, for every sequence of buffer sizes, what the reads return is a prefix of
`recvBuffer ‖ cs`, and a read fails only when *all* of it has been returned; the error is `eof`
when the wire simply ends and `decrypt` when the offending frame is reached. -/
theorem readAll_main (hcorr : ∀ n p, openF k n (sealF k n p) = some p) (sizes : List Nat) :
    ∀ (n : Nat) (b : Bytes) (cs : List Bytes) (tail : List Cipher),
      (∀ c ∈ cs, c.length ≤ dataMaxSize) →
      (∀ g, tail.head? = some g → openF k (n + cs.length) g = none) →
      ∃ rest, (readAll openF k ⟨n, b⟩ (sealChunks sealF k pad n cs ++ tail) sizes).outs.flatten ++ rest
                = b ++ cs.flatten ∧
        (∀ e, (readAll openF k ⟨n, b⟩ (sealChunks sealF k pad n cs ++ tail) sizes).err = some e →
            rest = [] ∧ e = (if tail = [] then RErr.eof else RErr.decrypt)) := by
  induction sizes with
  | nil =>
    intro n b cs tail _ _
    exact ⟨b ++ cs.flatten, by simp [readAll], by simp [readAll]⟩
  | cons s sizes ih =>
    intro n b cs tail hcs htail
    by_cases hb : 0 < b.length
    · -- served from recvBuffer
      obtain ⟨rest, h1, h2⟩ := ih n (b.drop s) cs tail hcs htail
      refine ⟨rest, ?_, ?_⟩
      · simp only [readAll, readOne, hb, if_true, List.flatten_cons, List.append_assoc]
        rw [h1, ← List.append_assoc, List.take_append_drop]
      · simpa only [readAll, readOne, hb, if_true] using h2
    · have hbn : b = [] := by
        cases b with
        | nil => rfl
        | cons a t => simp at hb
      subst hbn
      cases cs with
      | nil =>
        cases tail with
        | nil =>
          refine ⟨[], ?_, ?_⟩
          · simp [readAll, readOne, sealChunks]
          · simp [readAll, readOne, sealChunks]
        | cons g t =>
          have hg : openF k n g = none := by simpa using htail g (by simp)
          refine ⟨[], ?_, ?_⟩
          · simp [readAll, readOne, sealChunks, hg]
          · simp [readAll, readOne, sealChunks, hg]
      | cons c cs' =>
        have hc : c.length ≤ dataMaxSize := hcs c (by simp)
        have hcs' : ∀ c ∈ cs', c.length ≤ dataMaxSize := fun c h => hcs c (by simp [h])
        have htail' : ∀ g, tail.head? = some g → openF k (n + 1 + cs'.length) g = none := by
          intro g hg
          have := htail g hg
          simpa [Nat.add_assoc, Nat.add_comm 1] using this
        obtain ⟨rest, h1, h2⟩ := ih (n + 1) (c.drop s) cs' tail hcs' htail'
        have hnot : ¬ dataMaxSize < c.length := by omega
        refine ⟨rest, ?_, ?_⟩
        · simp only [readAll, readOne, sealChunks, List.cons_append, hcorr, framePlain_len _ _ hc,
            framePlain_chunk, hnot, if_false, List.length_nil, Nat.lt_irrefl, List.flatten_cons,
            List.append_assoc, List.nil_append]
          rw [h1, ← List.append_assoc, List.take_append_drop]
        · simpa only [readAll, readOne, sealChunks, List.cons_append, hcorr, framePlain_len _ _ hc,
            framePlain_chunk, hnot, if_false, List.length_nil, Nat.lt_irrefl] using h2

/-- every successful read with a non-empty buffer returns at least one byte (honest chunks are
never empty), and without an error there is one output per read -/
theorem readAll_progress (hcorr : ∀ n p, openF k n (sealF k n p) = some p) (sizes : List Nat)
    (hpos : ∀ s ∈ sizes, 0 < s) :
    ∀ (n : Nat) (b : Bytes) (cs : List Bytes) (tail : List Cipher),
      (∀ c ∈ cs, 0 < c.length ∧ c.length ≤ dataMaxSize) →
      (∀ g, tail.head? = some g → openF k (n + cs.length) g = none) →
      (readAll openF k ⟨n, b⟩ (sealChunks sealF k pad n cs ++ tail) sizes).err = none →
      sizes.length ≤ (readAll openF k ⟨n, b⟩ (sealChunks sealF k pad n cs ++ tail) sizes).outs.flatten.length := by
  induction sizes with
  | nil => intro n b cs tail _ _ _; simp
  | cons s sizes ih =>
    intro n b cs tail hcs htail
    have hs : 0 < s := hpos s (by simp)
    have hpos' : ∀ s ∈ sizes, 0 < s := fun x hx => hpos x (by simp [hx])
    by_cases hb : 0 < b.length
    · simp only [readAll, readOne, hb, if_true, List.flatten_cons, List.length_append, List.length_cons]
      intro herr
      have := ih hpos' n (b.drop s) cs tail hcs htail herr
      have : 0 < (b.take s).length := by simp [List.length_take]; omega
      omega
    · have hbn : b = [] := by
        cases b with
        | nil => rfl
        | cons a t => simp at hb
      subst hbn
      cases cs with
      | nil =>
        cases tail with
        | nil => simp [readAll, readOne, sealChunks]
        | cons g t =>
          have hg : openF k n g = none := by simpa using htail g (by simp)
          simp [readAll, readOne, sealChunks, hg]
      | cons c cs' =>
        have hc := hcs c (by simp)
        have hcs' : ∀ c ∈ cs', 0 < c.length ∧ c.length ≤ dataMaxSize := fun c h => hcs c (by simp [h])
        have htail' : ∀ g, tail.head? = some g → openF k (n + 1 + cs'.length) g = none := by
          intro g hg
          have := htail g hg
          simpa [Nat.add_assoc, Nat.add_comm 1] using this
        have hnot : ¬ dataMaxSize < c.length := by omega
        simp only [readAll, readOne, sealChunks, List.cons_append, hcorr, framePlain_len _ _ hc.2,
            framePlain_chunk, hnot, if_false, List.length_nil, Nat.lt_irrefl, List.flatten_cons,
            List.length_append, List.length_cons]
        intro herr
        have := ih hpos' (n + 1) (c.drop s) cs' tail hcs' htail' herr
        have : 0 < (c.take s).length := by simp [List.length_take]; omega
        omega

end

/-- any two lists split at their first difference -/
theorem exists_common_prefix {α : Type} (a b : List α) :
    ∃ pre ra rb, a = pre ++ ra ∧ b = pre ++ rb ∧
      (∀ x y, ra.head? = some x → rb.head? = some y → x ≠ y) := by
  induction a generalizing b with
  | nil => exact ⟨[], [], b, rfl, rfl, by simp⟩
  | cons x a ih =>
    cases b with
    | nil => exact ⟨[], x :: a, [], rfl, rfl, by simp⟩
    | cons y b =>
      by_cases hxy : x = y
      · subst hxy
        obtain ⟨pre, ra, rb, h1, h2, h3⟩ := ih b
        exact ⟨x :: pre, ra, rb, by simp [h1], by simp [h2], h3⟩
      · exact ⟨[], x :: a, y :: b, rfl, rfl, by
          intro x' y' hx hy
          simp at hx hy
          subst hx; subst hy
          exact hxy⟩

end KV.SecretConn
