import KV.Model.Recovery
/-! Model 1 of C05: the write-ahead discipline of `receiveRoutine` and the replay -/
namespace KV.Recovery

variable {σ ι : Type}

theorem replay_append (step : σ → ι → σ × List ι) (s0 : σ) (w : List (Rec ι)) (r : Rec ι) :
    replay step s0 (w ++ [r]) =
      ((step (replay step s0 w).1 r.input).1, (replay step s0 w).2 ++ (step (replay step s0 w).1 r.input).2) := by
  simp [replay, List.foldl_append]

theorem ownRecs_append (w v : List (Rec ι)) : ownRecs (w ++ v) = ownRecs w ++ ownRecs v := by
  simp [ownRecs, List.filter_append]

@[simp] theorem ownRecs_ext (i : ι) : ownRecs [Rec.ext i] = [] := rfl
@[simp] theorem ownRecs_own (i : ι) : ownRecs [Rec.own i] = [i] := rfl

/-- the outputs of a replay only grow when the log is extended -/
theorem replay_out_append (step : σ → ι → σ × List ι) (s0 : σ) : ∀ (t w : List (Rec ι)),
    ∃ more, (replay step s0 (w ++ t)).2 = (replay step s0 w).2 ++ more
  | [], w => ⟨[], by simp⟩
  | r :: t, w => by
    obtain ⟨more, hm⟩ := replay_out_append step s0 t (w ++ [r])
    refine ⟨(step (replay step s0 w).1 r.input).2 ++ more, ?_⟩
    have : w ++ r :: t = (w ++ [r]) ++ t := by simp
    rw [this, hm, replay_append, List.append_assoc]

/-- the invariant of `receiveRoutine` -/
structure Inv (step : σ → ι → σ × List ι) (s0 : σ) (n : Node σ ι) : Prop where
  state : n.s = (replay step s0 n.wal).1
  fifo : ownRecs n.wal ++ n.queue = (replay step s0 n.wal).2
  outbox : n.outbox = ownRecs n.wal
  synced_le : n.synced ≤ n.wal.length
  own_synced : ownRecs (n.wal.take n.synced) = ownRecs n.wal

theorem inv_start (step : σ → ι → σ × List ι) (s0 : σ) : Inv step s0 (Node.start s0 : Node σ ι) := by
  constructor <;> simp [Node.start, replay, ownRecs]

theorem inv_act {step : σ → ι → σ × List ι} {s0 : σ} {n : Node σ ι} (I : Inv step s0 n) (a : Act ι) :
    Inv step s0 (n.act step a) := by
  cases a with
  | ext i =>
    constructor
    · simp [Node.act, replay_append, Rec.input, I.state]
    · simp [Node.act, replay_append, Rec.input, ownRecs_append, ← I.fifo, ← I.state, List.append_assoc]
    · simp [Node.act, ownRecs_append, I.outbox]
    · simp [Node.act]; have := I.synced_le; omega
    · simp only [Node.act]
      rw [List.take_append_of_le_length I.synced_le, ownRecs_append, I.own_synced]; simp
  | own =>
    cases hq : n.queue with
    | nil => simpa [Node.act, hq] using I
    | cons m q =>
      have hf := I.fifo
      rw [hq] at hf
      constructor
      · simp [Node.act, hq, replay_append, Rec.input, I.state]
      · simp [Node.act, hq, replay_append, Rec.input, ownRecs_append, ← hf, ← I.state, List.append_assoc]
      · simp [Node.act, hq, ownRecs_append, I.outbox]
      · simp [Node.act, hq]
      · simp only [Node.act, hq]
        rw [List.take_of_length_le (by simp)]

theorem inv_run {step : σ → ι → σ × List ι} {s0 : σ} : ∀ (acts : List (Act ι)) {n : Node σ ι}, Inv step s0 n →
    Inv step s0 (n.run step acts)
  | [], _, I => I
  | a :: rest, _, I => by
    simp only [Node.run, List.foldl_cons]
    exact inv_run rest (inv_act I a)

/-- an action appends at most one record -/
theorem act_wal (step : σ → ι → σ × List ι) (n : Node σ ι) (a : Act ι) :
    (n.act step a).wal = n.wal ∨ ∃ r, (n.act step a).wal = n.wal ++ [r] := by
  cases a with
  | ext i => exact Or.inr ⟨_, rfl⟩
  | own =>
    cases hq : n.queue with
    | nil => left; simp [Node.act, hq]
    | cons m q => right; exact ⟨Rec.own m, by simp [Node.act, hq]⟩

theorem run_wal_prefix (step : σ → ι → σ × List ι) : ∀ (acts : List (Act ι)) (n : Node σ ι),
    ∃ t, (n.run step acts).wal = n.wal ++ t
  | [], n => ⟨[], by simp [Node.run]⟩
  | a :: rest, n => by
    obtain ⟨t, ht⟩ := run_wal_prefix step rest (n.act step a)
    simp only [Node.run, List.foldl_cons] at ht ⊢
    rcases act_wal step n a with h | ⟨r, h⟩
    · exact ⟨t, by rw [ht, h]⟩
    · exact ⟨r :: t, by rw [ht, h]; simp⟩

/-- every prefix of the final log that extends the initial one was THE log at some earlier moment -/
theorem wal_prefix_reached (step : σ → ι → σ × List ι) : ∀ (acts : List (Act ι)) (n : Node σ ι) (k : Nat),
    n.wal.length ≤ k → k ≤ (n.run step acts).wal.length →
    ∃ j, j ≤ acts.length ∧ (n.run step (acts.take j)).wal = (n.run step acts).wal.take k
  | [], n, k, h1, h2 => by
    refine ⟨0, Nat.le_refl _, ?_⟩
    simp only [Node.run, List.foldl_nil, List.take_nil] at h2 ⊢
    rw [List.take_of_length_le h1]
  | a :: rest, n, k, h1, h2 => by
    by_cases hk : k = n.wal.length
    · refine ⟨0, Nat.zero_le _, ?_⟩
      obtain ⟨t, ht⟩ := run_wal_prefix step (a :: rest) n
      rw [ht, hk]; simp [Node.run]
    · have hstep : (n.act step a).wal.length ≤ k := by
        rcases act_wal step n a with h | ⟨r, h⟩ <;> rw [h] <;> first | omega | (simp; omega)
      have h2' : k ≤ ((n.act step a).run step rest).wal.length := by
        simpa [Node.run] using h2
      obtain ⟨j, hj, he⟩ := wal_prefix_reached step rest (n.act step a) k hstep h2'
      refine ⟨j+1, by simp; omega, ?_⟩
      simpa [Node.run] using he

/-! ### height markers -/

theorem afterEnd_append {ρ} (h : Nat) (post : MWal ρ) : ∀ pre : MWal ρ, hasEnd pre h = false →
    afterEnd (pre ++ Sum.inr h :: post) h = some post
  | [], _ => by simp [afterEnd]
  | .inl _ :: rest, hp => by
    simp only [List.cons_append, afterEnd]
    exact afterEnd_append h post rest (by simpa [hasEnd] using hp)
  | .inr k :: rest, hp => by
    simp only [hasEnd, List.any_cons, Bool.or_eq_false_iff] at hp
    simp only [List.cons_append, afterEnd, hp.1]
    exact afterEnd_append h post rest (by simpa [hasEnd] using hp.2)

/-! ### search across rotated files -/

theorem hasEnd_append {ρ} (a b : MWal ρ) (h : Nat) : hasEnd (a ++ b) h = (hasEnd a h || hasEnd b h) := by
  simp [hasEnd, List.any_append]

/-- the last marker a reader has seen at end of log -/
def lastEnd {ρ} : MWal ρ → Int → Int
  | [], l => l
  | .inr k :: r, _ => lastEnd r (k : Int)
  | .inl _ :: r, l => lastEnd r l

theorem lastEnd_snoc_marker {ρ} (k : Nat) : ∀ (w : MWal ρ) (l : Int), lastEnd (w ++ [Sum.inr k]) l = (k : Int)
  | [], _ => rfl
  | .inr _ :: r, _ => by simpa [lastEnd] using lastEnd_snoc_marker k r _
  | .inl _ :: r, l => by simpa [lastEnd] using lastEnd_snoc_marker k r l

theorem scanFor_found {ρ} (h : Nat) : ∀ (w : MWal ρ) (l : Int), hasEnd w h = true →
    ∃ rest l', scanFor h w l = (some rest, l')
  | [], _, hw => by simp [hasEnd] at hw
  | .inl _ :: r, l, hw => by
    simp only [scanFor]
    exact scanFor_found h r l (by simpa [hasEnd] using hw)
  | .inr k :: r, l, hw => by
    simp only [scanFor]
    by_cases hk : (k == h) = true
    · exact ⟨r, k, by simp [hk]⟩
    · simp only [hk]
      have : hasEnd r h = true := by
        simp only [hasEnd, List.any_cons, Bool.or_eq_true] at hw
        rcases hw with hw | hw
        · exact absurd hw hk
        · simpa [hasEnd] using hw
      simpa using scanFor_found h r k this

theorem scanFor_none {ρ} (h : Nat) : ∀ (w : MWal ρ) (l : Int), hasEnd w h = false →
    scanFor h w l = (none, lastEnd w l)
  | [], _, _ => rfl
  | .inl _ :: r, l, hw => by
    simp only [scanFor, lastEnd]
    exact scanFor_none h r l (by simpa [hasEnd] using hw)
  | .inr k :: r, l, hw => by
    simp only [hasEnd, List.any_cons, Bool.or_eq_false_iff] at hw
    simp only [scanFor, lastEnd, hw.1]
    exact scanFor_none h r k (by simpa [hasEnd] using hw.2)

theorem hasEnd_suffix {ρ} (files : List (MWal ρ)) (h j : Nat) (hs : hasEnd (files.drop j).flatten h = true) :
    hasEnd files.flatten h = true := by
  have : files.flatten = (files.take j).flatten ++ (files.drop j).flatten := by
    rw [← List.flatten_append, List.take_append_drop]
  rw [this, hasEnd_append, hs, Bool.or_true]

/-- the loop, when every reader ends on the `#ENDHEIGHT 0` of a fresh head: the early exit
(`0 < last`) never fires, so the search finds the marker iff some reader meets it -/
theorem gsearchLoop_fresh_head {ρ} (files : List (MWal ρ)) (h : Nat) :
    ∀ (i : Nat) (last : Int), i ≤ files.length + 1 →
      ((gsearchLoop exitGt0 (files ++ [[Sum.inr 0]]) h i last).isSome = true ↔
        ∃ j, j < i ∧ hasEnd ((files ++ [[Sum.inr 0]]).drop j).flatten h = true)
  | 0, _, _ => by simp [gsearchLoop]
  | i+1, last, hi => by
    have ih := gsearchLoop_fresh_head files h i
    by_cases hs : hasEnd ((files ++ [[Sum.inr 0]]).drop i).flatten h = true
    · obtain ⟨rest, l', e⟩ := scanFor_found h _ last hs
      simp only [gsearchLoop, e, Option.isSome_some, true_iff]
      exact ⟨i, Nat.lt_succ_self _, hs⟩
    · have hs' : hasEnd ((files ++ [[Sum.inr 0]]).drop i).flatten h = false := by
        simpa using hs
      have hdrop : ((files ++ [[Sum.inr 0]]).drop i).flatten = (files.drop i).flatten ++ [Sum.inr 0] := by
        rw [List.drop_append_of_le_length (by omega)]; simp
      have hl : lastEnd ((files ++ [[Sum.inr 0]]).drop i).flatten last = 0 := by
        rw [hdrop]; exact lastEnd_snoc_marker 0 _ _
      simp only [gsearchLoop, scanFor_none h _ last hs', hl]
      have hx : exitGt0 0 (h : Int) = false := by simp [exitGt0]
      simp only [hx, Bool.false_eq_true, if_false]
      rw [ih 0 (by omega)]
      constructor
      · rintro ⟨j, hj, e⟩; exact ⟨j, by omega, e⟩
      · rintro ⟨j, hj, e⟩
        refine ⟨j, ?_, e⟩
        by_cases hji : j = i
        · subst hji; exact absurd e hs
        · omega

end KV.Recovery
