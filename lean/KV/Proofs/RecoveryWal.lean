import KV.Model.Recovery
/-! Model 1 of C05: the write-ahead discipline of `receiveRoutine` and the replay -/
namespace KV.Recovery

variable {σ ι : Type}

theorem replay_append (step : σ → ι → σ × List ι) (s0 : σ) (w : List (Rec ι)) (r : Rec ι) :
    replay step s0 (w ++ [r]) =
      ((step (replay step s0 w).1 r.input).1, (replay step s0 w).2 ++ (step (replay step s0 w).1 r.input).2) := by
  simp [replay, List.foldl_append]

theorem ownRecs_append (w v : List (Rec ι)) : ownRecs (w ++ v) = ownRecs w ++ ownRecs v := by
  simp [ownRecs, List.filter_append]

@[simp] theorem ownRecs_ext (i : ι) : ownRecs [Rec.ext i] = [] := rfl
@[simp] theorem ownRecs_own (i : ι) : ownRecs [Rec.own i] = [i] := rfl

/-- the outputs of a replay only grow when the log is extended -/
theorem replay_out_append (step : σ → ι → σ × List ι) (s0 : σ) : ∀ (t w : List (Rec ι)),
    ∃ more, (replay step s0 (w ++ t)).2 = (replay step s0 w).2 ++ more
  | [], w => ⟨[], by simp⟩
  | r :: t, w => by
    obtain ⟨more, hm⟩ := replay_out_append step s0 t (w ++ [r])
    refine ⟨(step (replay step s0 w).1 r.input).2 ++ more, ?_⟩
    have : w ++ r :: t = (w ++ [r]) ++ t := by simp
    rw [this, hm, replay_append, List.append_assoc]

/-- the invariant of `receiveRoutine` -/
structure Inv (step : σ → ι → σ × List ι) (s0 : σ) (n : Node σ ι) : Prop where
  state : n.s = (replay step s0 n.wal).1
  fifo : ownRecs n.wal ++ n.queue = (replay step s0 n.wal).2
  outbox : n.outbox = ownRecs n.wal
  synced_le : n.synced ≤ n.wal.length
  own_synced : ownRecs (n.wal.take n.synced) = ownRecs n.wal

theorem inv_start (step : σ → ι → σ × List ι) (s0 : σ) : Inv step s0 (Node.start s0 : Node σ ι) := by
  constructor <;> simp [Node.start, replay, ownRecs]

theorem inv_act {step : σ → ι → σ × List ι} {s0 : σ} {n : Node σ ι} (I : Inv step s0 n) (a : Act ι) :
    Inv step s0 (n.act step a) := by
  cases a with
  | ext i =>
    constructor
    · simp [Node.act, replay_append, Rec.input, I.state]
    · simp [Node.act, replay_append, Rec.input, ownRecs_append, ← I.fifo, ← I.state, List.append_assoc]
    · simp [Node.act, ownRecs_append, I.outbox]
    · simp [Node.act]; have := I.synced_le; omega
    · simp only [Node.act]
      rw [List.take_append_of_le_length I.synced_le, ownRecs_append, I.own_synced]; simp
  | own =>
    cases hq : n.queue with
    | nil => simpa [Node.act, hq] using I
    | cons m q =>
      have hf := I.fifo
      rw [hq] at hf
      constructor
      · simp [Node.act, hq, replay_append, Rec.input, I.state]
      · simp [Node.act, hq, replay_append, Rec.input, ownRecs_append, ← hf, ← I.state, List.append_assoc]
      · simp [Node.act, hq, ownRecs_append, I.outbox]
      · simp [Node.act, hq]
      · simp only [Node.act, hq]
        rw [List.take_of_length_le (by simp)]

theorem inv_run {step : σ → ι → σ × List ι} {s0 : σ} : ∀ (acts : List (Act ι)) {n : Node σ ι}, Inv step s0 n →
    Inv step s0 (n.run step acts)
  | [], _, I => I
  | a :: rest, _, I => by
    simp only [Node.run, List.foldl_cons]
    exact inv_run rest (inv_act I a)

/-- an action appends at most one record -/
theorem act_wal (step : σ → ι → σ × List ι) (n : Node σ ι) (a : Act ι) :
    (n.act step a).wal = n.wal ∨ ∃ r, (n.act step a).wal = n.wal ++ [r] := by
  cases a with
  | ext i => exact Or.inr ⟨_, rfl⟩
  | own =>
    cases hq : n.queue with
    | nil => left; simp [Node.act, hq]
    | cons m q => right; exact ⟨Rec.own m, by simp [Node.act, hq]⟩

theorem run_wal_prefix (step : σ → ι → σ × List ι) : ∀ (acts : List (Act ι)) (n : Node σ ι),
    ∃ t, (n.run step acts).wal = n.wal ++ t
  | [], n => ⟨[], by simp [Node.run]⟩
  | a :: rest, n => by
    obtain ⟨t, ht⟩ := run_wal_prefix step rest (n.act step a)
    simp only [Node.run, List.foldl_cons] at ht ⊢
    rcases act_wal step n a with h | ⟨r, h⟩
    · exact ⟨t, by rw [ht, h]⟩
    · exact ⟨r :: t, by rw [ht, h]; simp⟩

/-- every prefix of the final log that extends the initial one was THE log at some earlier moment -/
theorem wal_prefix_reached (step : σ → ι → σ × List ι) : ∀ (acts : List (Act ι)) (n : Node σ ι) (k : Nat),
    n.wal.length ≤ k → k ≤ (n.run step acts).wal.length →
    ∃ j, j ≤ acts.length ∧ (n.run step (acts.take j)).wal = (n.run step acts).wal.take k
  | [], n, k, h1, h2 => by
    refine ⟨0, Nat.le_refl _, ?_⟩
    simp only [Node.run, List.foldl_nil, List.take_nil] at h2 ⊢
    rw [List.take_of_length_le h1]
  | a :: rest, n, k, h1, h2 => by
    by_cases hk : k = n.wal.length
    · refine ⟨0, Nat.zero_le _, ?_⟩
      obtain ⟨t, ht⟩ := run_wal_prefix step (a :: rest) n
      rw [ht, hk]; simp [Node.run]
    · have hstep : (n.act step a).wal.length ≤ k := by
        rcases act_wal step n a with h | ⟨r, h⟩ <;> rw [h] <;> first | omega | (simp; omega)
      have h2' : k ≤ ((n.act step a).run step rest).wal.length := by
        simpa [Node.run] using h2
      obtain ⟨j, hj, he⟩ := wal_prefix_reached step rest (n.act step a) k hstep h2'
      refine ⟨j+1, by simp; omega, ?_⟩
      simpa [Node.run] using he

/-! ### height markers -/

theorem afterEnd_append {ρ} (h : Nat) (post : MWal ρ) : ∀ pre : MWal ρ, hasEnd pre h = false →
    afterEnd (pre ++ Sum.inr h :: post) h = some post
  | [], _ => by simp [afterEnd]
  | .inl _ :: rest, hp => by
    simp only [List.cons_append, afterEnd]
    exact afterEnd_append h post rest (by simpa [hasEnd] using hp)
  | .inr k :: rest, hp => by
    simp only [hasEnd, List.any_cons, Bool.or_eq_false_iff] at hp
    simp only [List.cons_append, afterEnd, hp.1]
    exact afterEnd_append h post rest (by simpa [hasEnd] using hp.2)

end KV.Recovery
