import KV.Proofs.CsBase
import KV.Proofs.Agreement
/-! Bridge between the vote-set tallies of the node model `Cs` (`tally` over a power list and a
slot list, index = validator) and the weighted `power` of `KV/Proofs/Agreement.lean`
(validators `List.range n`, power `powers.getD i 0`).  Core Lean only. -/
namespace KV.Cs
open KV.Agree

/-- the validators of a power list, as the abstract agreement proof wants them -/
def valsOf (powers : List Nat) : List Nat := List.range powers.length
/-- voting power of validator `i` -/
def pwOf (powers : List Nat) (i : Nat) : Nat := powers.getD i 0

/-- `power` written by recursion on the power list -/
def powerL : List Nat → (Nat → Bool) → Nat
  | [], _ => 0
  | p :: ps, q => (if q 0 then p else 0) + powerL ps (fun i => q (i + 1))

theorem tally_le_powerL (P : Option Target → Bool) :
    ∀ (pw : List Nat) (vs : Slots) (q : Nat → Bool),
      (∀ i v, i < pw.length → vs[i]? = some v → P v = true → q i = true) → tally P pw vs ≤ powerL pw q
  | [], vs, q, _ => by cases vs <;> simp [tally, powerL]
  | p :: ps, [], q, _ => by simp [tally]
  | p :: ps, v :: vs, q, h => by
    have ih := tally_le_powerL P ps vs (fun i => q (i + 1))
      (fun i v' hi hv hp => h (i + 1) v' (by simp only [List.length_cons]; omega) (by simpa using hv) hp)
    simp only [tally, powerL]
    by_cases hp : P v = true
    · have hq := h 0 v (by simp) (by simp) hp
      rw [if_pos hp, if_pos hq]
      omega
    · rw [if_neg hp]
      split <;> omega

theorem power_cons (a : Nat) (l : List Nat) (f : Nat → Nat) (q : Nat → Bool) :
    power (a :: l) f q = (if q a then f a else 0) + power l f q := by
  unfold power
  by_cases hq : q a = true
  · simp [hq]
  · simp [hq]

theorem power_map_succ (l : List Nat) (f : Nat → Nat) (q : Nat → Bool) :
    power (l.map Nat.succ) f q = power l (fun i => f (i + 1)) (fun i => q (i + 1)) := by
  induction l with
  | nil => simp [power]
  | cons a l ih =>
    rw [List.map_cons, power_cons, power_cons, ih]

theorem powerL_eq_power : ∀ (pw : List Nat) (q : Nat → Bool),
    powerL pw q = power (List.range pw.length) (fun i => pw.getD i 0) q
  | [], q => by simp [powerL, power]
  | p :: ps, q => by
    rw [List.length_cons, List.range_succ_eq_map, power_cons, power_map_succ]
    simp only [powerL, List.getD_cons_zero, List.getD_cons_succ]
    rw [powerL_eq_power ps]

theorem powerL_true : ∀ (pw : List Nat), powerL pw (fun _ => true) = pw.sum
  | [] => rfl
  | p :: ps => by simp [powerL, powerL_true ps]

theorem total_eq_power (powers : List Nat) :
    total powers = power (valsOf powers) (pwOf powers) (fun _ => true) := by
  unfold total valsOf pwOf
  rw [← powerL_eq_power, powerL_true]

/-- the power that voted `x` in a slot list is at most the power of any validator set that
contains every validator whose slot holds `x` -/
theorem sumFor_le_power (powers : List Nat) (vs : Slots) (x : Target) (q : Nat → Bool)
    (h : ∀ i, i < powers.length → vs[i]? = some (some x) → q i = true) :
    sumFor powers vs x ≤ power (valsOf powers) (pwOf powers) q := by
  unfold sumFor valsOf pwOf
  rw [← powerL_eq_power]
  apply tally_le_powerL
  intro i v hi hv hp
  have : v = some x := by simpa using hp
  subst this
  exact h i hi hv

end KV.Cs
