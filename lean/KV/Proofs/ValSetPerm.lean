import KV.Model.ValSet
/-!
# `updateWithChangeSet` depends on the change list only up to permutation (C06 / C12 `update_perm`)

`processChanges` sorts a copy of the changes by address and then scans the sorted copy.
* insertion sort by a total preorder is permutation-invariant on lists whose elements are pairwise
  distinguishable by the order (`isort_perm_eq`): both results are sorted permutations of the same
  list, and a sorted list with antisymmetric keys is unique (`List.Perm.eq_of_pairwise`);
* if two changes carry the same address, the address-sorted copy has them next to each other, and
  the scan rejects the list (with *some* error: which of `dup`/`neg`/`cap` is met first may depend on
  the order of the equal keys), whatever the order of the input (`scanChanges_dup_error`).
-/
namespace KV.ValSet

/-! ## insertion sort -/

theorem insertBy_perm {α} (le : α → α → Bool) (x : α) (l : List α) :
    (insertBy le x l).Perm (x :: l) := by
  induction l with
  | nil => exact List.Perm.refl _
  | cons y ys ih =>
    unfold insertBy
    split
    · exact List.Perm.refl _
    · exact ((List.Perm.cons y ih).trans (List.Perm.swap x y ys))

theorem isort_perm {α} (le : α → α → Bool) (l : List α) : (isort le l).Perm l := by
  induction l with
  | nil => exact List.Perm.refl _
  | cons x xs ih =>
    unfold isort
    exact (insertBy_perm le x _).trans (List.Perm.cons x ih)

theorem mem_insertBy {α} (le : α → α → Bool) (x a : α) (l : List α) :
    a ∈ insertBy le x l ↔ a = x ∨ a ∈ l := by
  rw [(insertBy_perm le x l).mem_iff]; simp

theorem insertBy_sorted {α} (le : α → α → Bool)
    (htot : ∀ a b, le a b = true ∨ le b a = true)
    (htr : ∀ a b c, le a b = true → le b c = true → le a c = true)
    (x : α) (l : List α) (h : l.Pairwise (fun a b => le a b = true)) :
    (insertBy le x l).Pairwise (fun a b => le a b = true) := by
  induction l with
  | nil => simp [insertBy]
  | cons y ys ih =>
    unfold insertBy
    rw [List.pairwise_cons] at h
    split
    · rename_i hxy
      rw [List.pairwise_cons]
      refine ⟨?_, List.pairwise_cons.mpr h⟩
      intro a ha
      rcases List.mem_cons.mp ha with rfl | ha
      · exact hxy
      · exact htr _ _ _ hxy (h.1 a ha)
    · rename_i hxy
      have hyx : le y x = true := by
        rcases htot x y with h1 | h1
        · exact absurd h1 hxy
        · exact h1
      rw [List.pairwise_cons]
      refine ⟨?_, ih h.2⟩
      intro a ha
      rcases (mem_insertBy le x a ys).mp ha with rfl | ha
      · exact hyx
      · exact h.1 a ha

theorem isort_sorted {α} (le : α → α → Bool)
    (htot : ∀ a b, le a b = true ∨ le b a = true)
    (htr : ∀ a b c, le a b = true → le b c = true → le a c = true)
    (l : List α) : (isort le l).Pairwise (fun a b => le a b = true) := by
  induction l with
  | nil => simp [isort]
  | cons x xs ih => unfold isort; exact insertBy_sorted le htot htr x _ ih

/-- **the sort lemma**: insertion sort by a total preorder gives the same list for every
permutation of the input, provided the order is antisymmetric *on the elements of the list*
(distinct keys). -/
theorem isort_perm_eq {α} (le : α → α → Bool)
    (htot : ∀ a b, le a b = true ∨ le b a = true)
    (htr : ∀ a b c, le a b = true → le b c = true → le a c = true)
    (l l' : List α) (hp : l.Perm l')
    (anti : ∀ a b, a ∈ l → b ∈ l → le a b = true → le b a = true → a = b) :
    isort le l = isort le l' := by
  apply List.Perm.eq_of_pairwise (le := fun a b => le a b = true)
  · intro a b ha hb
    exact anti a b ((isort_perm le l).mem_iff.mp ha)
      (hp.mem_iff.mpr ((isort_perm le l').mem_iff.mp hb))
  · exact isort_sorted le htot htr l
  · exact isort_sorted le htot htr l'
  · exact (isort_perm le l).trans (hp.trans (isort_perm le l').symm)

/-! ## the address order -/

theorem leAddr_total (a b : Validator) : leAddr a b = true ∨ leAddr b a = true := by
  simp only [leAddr, decide_eq_true_eq]; omega

theorem leAddr_trans (a b c : Validator) : leAddr a b = true → leAddr b c = true → leAddr a c = true := by
  simp only [leAddr, decide_eq_true_eq]; omega

theorem eq_of_nodup_map {α β} (f : α → β) (l : List α) (h : (l.map f).Nodup) (a b : α)
    (ha : a ∈ l) (hb : b ∈ l) (e : f a = f b) : a = b := by
  induction l with
  | nil => cases ha
  | cons x xs ih =>
    rw [List.map_cons, List.nodup_cons] at h
    rcases List.mem_cons.mp ha with ha1 | ha1 <;> rcases List.mem_cons.mp hb with hb1 | hb1
    · rw [ha1, hb1]
    · subst ha1; exact absurd (e ▸ List.mem_map_of_mem (f := f) hb1) h.1
    · subst hb1; exact absurd (e ▸ List.mem_map_of_mem (f := f) ha1) h.1
    · exact ih h.2 ha1 hb1

/-- sorting by address is permutation-invariant when the addresses are distinct -/
theorem isort_leAddr_perm (l l' : List Validator) (hp : l.Perm l') (hn : (l.map (·.addr)).Nodup) :
    isort leAddr l = isort leAddr l' := by
  apply isort_perm_eq leAddr leAddr_total leAddr_trans l l' hp
  intro a b ha hb h1 h2
  apply eq_of_nodup_map (·.addr) l hn a b ha hb
  simp only [leAddr, decide_eq_true_eq] at h1 h2
  omega

/-! ## duplicates are rejected whatever the order -/

theorem scanChanges_tail_error (prev : Nat) (c : Validator) (cs : List Validator)
    (h : ∃ e, scanChanges c.addr cs = .error e) : ∃ e, scanChanges prev (c :: cs) = .error e := by
  obtain ⟨e, he⟩ := h
  unfold scanChanges
  split
  · exact ⟨_, rfl⟩
  · split
    · exact ⟨_, rfl⟩
    · split
      · exact ⟨_, rfl⟩
      · rw [he]; exact ⟨_, rfl⟩

/-- an address-sorted change list with a repeated address is rejected by the scan of
`processChanges` -/
theorem scanChanges_dup_error (l : List Validator)
    (hs : l.Pairwise (fun a b => leAddr a b = true)) (hd : ¬ (l.map (·.addr)).Nodup) (prev : Nat) :
    ∃ e, scanChanges prev l = .error e := by
  induction l generalizing prev with
  | nil => exact absurd List.nodup_nil hd
  | cons c cs ih =>
    rw [List.pairwise_cons] at hs
    rw [List.map_cons, List.nodup_cons] at hd
    by_cases hm : c.addr ∈ cs.map (·.addr)
    · -- the head of `cs` has the same address
      apply scanChanges_tail_error
      cases cs with
      | nil => simp at hm
      | cons d ds =>
        have hd1 : c.addr ≤ d.addr := by
          have := hs.1 d List.mem_cons_self
          simpa [leAddr] using this
        obtain ⟨x, hx, hxa⟩ := List.mem_map.mp hm
        have hd2 : d.addr ≤ c.addr := by
          rcases List.mem_cons.mp hx with rfl | hx
          · omega
          · have h2 := hs.2
            rw [List.pairwise_cons] at h2
            have := h2.1 x hx
            simp only [leAddr, decide_eq_true_eq] at this
            omega
        have : d.addr = c.addr := by omega
        unfold scanChanges
        simp [this]
    · have : ¬ (cs.map (·.addr)).Nodup := fun h => hd ⟨hm, h⟩
      exact scanChanges_tail_error prev c cs (ih hs.2 this c.addr)

theorem processChanges_dup_error (l : List Validator) (hd : ¬ (l.map (·.addr)).Nodup) :
    ∃ e, processChanges l = .error e := by
  unfold processChanges
  apply scanChanges_dup_error _ (isort_sorted leAddr leAddr_total leAddr_trans l)
  intro h
  exact hd (((isort_perm leAddr l).map (·.addr)).nodup_iff.mp h)

/-- `processChanges` is a function of the change list up to permutation when the addresses are
distinct -/
theorem processChanges_perm (l l' : List Validator) (hp : l.Perm l') (hn : (l.map (·.addr)).Nodup) :
    processChanges l = processChanges l' := by
  unfold processChanges; rw [isort_leAddr_perm l l' hp hn]

/-! ## the update -/

theorem update_of_processChanges_eq (vs : ValSet) (cs cs' : List Validator) (d : Bool)
    (he : cs.isEmpty = cs'.isEmpty) (hp : processChanges cs = processChanges cs') :
    updateWithChangeSet vs cs d = updateWithChangeSet vs cs' d := by
  unfold updateWithChangeSet
  rw [he, hp]

theorem update_error_of_processChanges_error (vs : ValSet) (cs : List Validator) (d : Bool)
    (hne : cs.isEmpty = false) (h : ∃ e, processChanges cs = .error e) :
    ∃ e, updateWithChangeSet vs cs d = .error e := by
  obtain ⟨e, he⟩ := h
  unfold updateWithChangeSet
  rw [hne, he]
  exact ⟨e, by simp⟩

/-- with distinct addresses the result (value **and** error class) is the same for every order -/
theorem update_perm_nodup (vs : ValSet) (cs cs' : List Validator) (d : Bool) (hp : cs.Perm cs')
    (hn : (cs.map (·.addr)).Nodup) : updateWithChangeSet vs cs d = updateWithChangeSet vs cs' d :=
  update_of_processChanges_eq vs cs cs' d hp.isEmpty_eq (processChanges_perm cs cs' hp hn)

/-- with a repeated address both orders are rejected -/
theorem update_perm_dup (vs : ValSet) (cs cs' : List Validator) (d : Bool) (hp : cs.Perm cs')
    (hn : ¬ (cs.map (·.addr)).Nodup) :
    (∃ e, updateWithChangeSet vs cs d = .error e) ∧ (∃ e, updateWithChangeSet vs cs' d = .error e) := by
  have hne : cs.isEmpty = false := by
    cases cs with
    | nil => exact absurd List.nodup_nil hn
    | cons _ _ => rfl
  have hn' : ¬ (cs'.map (·.addr)).Nodup := fun h => hn ((hp.map (·.addr)).nodup_iff.mpr h)
  exact ⟨update_error_of_processChanges_error vs cs d hne (processChanges_dup_error cs hn),
         update_error_of_processChanges_error vs cs' d (hp.isEmpty_eq ▸ hne) (processChanges_dup_error cs' hn')⟩

end KV.ValSet
