import KV.Proofs.WalFlip
/-! Torn tails (F38). `WALDecoder.Decode` used to report a log that ends 1-3 bytes into a record
(inside the checksum field) as a CLEAN end of log when read through the group reader, which returns
the bytes it got together with `io.EOF`. The model follows the repaired code (`nc > 0` ⇒
DataCorruptionError); this file has the consequences and, for regression, the old rule. Core only. -/
namespace KV.Wal

/-! ## a proper, non-empty prefix of a record -/

/-- through the group reader a torn record — ANY number of bytes ≥ 1 of it, in particular 1, 2 or
3 — is reported corrupt: never a message, never a clean end of log -/
theorem decode_torn_group (c : Cfg) (d p q : Bytes) (hd : d.length < 4294967296)
    (hpq : p ++ q = frame c d) (hp : p ≠ []) (hq : q ≠ []) :
    ∃ r, decode c .group p = .corrupt r := by
  cases hdec : decode c .group p with
  | eof => exact absurd (decode_eof_nil c .group p hdec) hp
  | corrupt r => exact ⟨r, rfl⟩
  | msg x rest =>
    exfalso
    have h := decodeAll_torn_group c d p q hd hpq hq
    rw [decodeAll_msg c .group p x rest hdec] at h
    cases h

theorem decodeAll_torn_group_corrupt (c : Cfg) (d p q : Bytes) (hd : d.length < 4294967296)
    (hpq : p ++ q = frame c d) (hp : p ≠ []) (hq : q ≠ []) :
    decodeAll c .group p = ([], .corrupt) := by
  obtain ⟨r, h⟩ := decode_torn_group c d p q hd hpq hp hq
  exact decodeAll_corrupt c .group p r h

/-- through any reader: corrupt, or — plain readers only, whose zero-filled buffer happens to
restore a lost all-zero tail — the record itself and then end of log; anything else is a checksum
collision. Never `([], eof)`. -/
theorem decodeAll_torn_verdict (c : Cfg) (k : RKind) (d p q : Bytes) (hpq : p ++ q = frame c d)
    (hp : p ≠ []) (hq : q ≠ []) :
    decodeAll c k p = ([], .corrupt) ∨ decodeAll c k p = ([d], .eof) ∨ Collision c := by
  cases hdec : decode c k p with
  | eof => exact absurd (decode_eof_nil c k p hdec) hp
  | corrupt r => left; exact decodeAll_corrupt c k p r hdec
  | msg x rest =>
    rcases decodeAll_torn c k d p q hpq hq with h | h | h
    · rw [decodeAll_msg c k p x rest hdec] at h; cases h
    · exact Or.inr (Or.inl h)
    · exact Or.inr (Or.inr h)

/-- a record torn inside its HEADER (at most 8 bytes left, e.g. 1-3) is reported corrupt by every
reader, provided the parser rejects the empty payload: the plain readers zero-fill the checksum or
length field, but the next read then meets the end of the input -/
theorem decode_torn_header (c : Cfg) (k : RKind) (p : Bytes) (hempty : c.parse [] = none)
    (hp : p ≠ []) (h8 : p.length ≤ 8) : ∃ r, decode c k p = .corrupt r := by
  cases hdec : decode c k p with
  | eof => exact absurd (decode_eof_nil c k p hdec) hp
  | corrupt r => exact ⟨r, rfl⟩
  | msg x rest =>
    exfalso
    have h' : decodeWith c (read k) p = ((decodeA c k p).1, .msg x rest) := by rw [← hdec]; rfl
    obtain ⟨b1, s1, b2, s2, b3, h1, h2, _, h3, hx, _, hpx, _⟩ := decodeWith_msg_inv c (read k) p h'
    obtain ⟨_, e1⟩ := read_ok k 4 p b1 s1 h1
    obtain ⟨_, e2⟩ := read_ok k 4 s1 b2 s2 h2
    obtain ⟨e3, _⟩ := read_ok k _ s2 b3 rest h3
    have hs2 : s2 = [] := by
      rw [e2, e1, List.drop_drop]; exact List.drop_of_length_le (by omega)
    by_cases hL : be32Val (pad 4 b2) = 0
    · have hb3 : b3 = [] := by rw [e3, hs2]; simp
      rw [hb3, hL] at hx
      simp [pad] at hx
      rw [hx] at hpx
      exact hpx hempty
    · have := read_ok_pos k _ s2 b3 rest (by omega) h3
      rw [hs2] at this
      simp at this

/-! ## the old rule (before F38), for regression -/

/-- `Decode` as it was: `errors.Is(err, io.EOF)` after the first read = end of log, whatever was read -/
def decodeWithOld {σ : Type} (c : Cfg) (rd : Nat → σ → Bytes × RErr × σ) (s : σ) : Nat × Res σ :=
  match rd 4 s with
  | (_, .eof, _) => (0, .eof)
  | _ => decodeWith c rd s

def decodeOld (c : Cfg) (k : RKind) (s : Bytes) : Res Bytes := (decodeWithOld c (read k) s).2

/-- "call Decode until it fails" with the old rule (fuel = more than the number of records) -/
def decodeAllOldF (c : Cfg) (k : RKind) : Nat → Bytes → List Bytes × Verdict
  | 0, _ => ([], .corrupt)
  | f + 1, s =>
    match decodeOld c k s with
    | .eof => ([], .eof)
    | .corrupt _ => ([], .corrupt)
    | .msg d rest =>
      let r := decodeAllOldF c k f rest
      (d :: r.1, r.2)

def decodeAllOld (c : Cfg) (k : RKind) (s : Bytes) : List Bytes × Verdict :=
  decodeAllOldF c k (s.length + 1) s

/-- the two rules differ only where the first read returns bytes together with end-of-input -/
theorem decodeOld_eq (c : Cfg) (k : RKind) (s : Bytes)
    (h : (read k 4 s).2.1 ≠ .eof ∨ (read k 4 s).1 = []) : decodeOld c k s = decode c k s := by
  unfold decodeOld decode decodeA decodeWithOld
  rcases hr : read k 4 s with ⟨b1, e1, s1⟩
  rw [hr] at h
  cases e1 with
  | ok => rfl
  | other => rfl
  | eof =>
    rcases h with h | h
    · exact absurd rfl h
    · simp only at h
      simp only [decodeWith, hr, h, if_true]

/-- … which the plain readers never do: the defect was confined to the group reader -/
theorem decodeOld_eq_plain (c : Cfg) (k : RKind) (s : Bytes) (hk : k ≠ .group) :
    decodeOld c k s = decode c k s := by
  apply decodeOld_eq
  cases k with
  | group => exact absurd rfl hk
  | file =>
    simp only [read]
    split
    · left; simp
    · split
      · right; rfl
      · left; simp
  | bytes =>
    simp only [read]
    split
    · right; rfl
    · left; simp

end KV.Wal
