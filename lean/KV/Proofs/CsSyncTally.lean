import KV.Proofs.CsPower
/-! Vote-set facts for the synchronous-round argument (C04, `KV/Props/C04Net.lean`): a vote set
all of whose votes are for one block `b` (`AllFor`): `+2/3 any` and `+2/3 for b` coincide, `maj23`
is determined by `isMaj`; filling slots (`fill`); the tally of a set in which every validator of a
set `q` voted `x` is at least the power of `q`.  Core Lean only. -/
namespace KV.Cs.Sync
open KV.Agree

/-- every slot is empty or holds a vote for block `b` -/
def AllFor (b : Nat) (s : Slots) : Prop := ∀ v ∈ s, v = none ∨ v = some (some b)

theorem AllFor.replicate (b n : Nat) : AllFor b (List.replicate n none) := by
  intro v hv
  exact Or.inl (List.eq_of_mem_replicate hv)

theorem AllFor.set {b : Nat} {s : Slots} (h : AllFor b s) (j : Nat) : AllFor b (s.set j (some (some b))) := by
  intro v hv
  rcases List.mem_or_eq_of_mem_set hv with h1 | h1
  · exact h v h1
  · exact Or.inr h1

theorem AllFor.tail {b : Nat} {v : Option Target} {s : Slots} (h : AllFor b (v :: s)) : AllFor b s :=
  fun x hx => h x (List.mem_cons_of_mem _ hx)

theorem tally_allFor (b : Nat) : ∀ (pw : List Nat) (s : Slots), AllFor b s →
    tally (fun v => v.isSome) pw s = tally (fun v => v == some (some b)) pw s
  | [], s, _ => by cases s <;> rfl
  | p :: ps, [], _ => rfl
  | p :: ps, v :: vs, h => by
    have ih := tally_allFor b ps vs h.tail
    rcases h v (List.mem_cons_self ..) with hv | hv <;> subst hv <;> simp [tally, ih]

/-- in a set of votes for `b` only, `+2/3 any` is `+2/3 for b` -/
theorem hasAny_allFor {b : Nat} {pw : List Nat} {s : Slots} (h : AllFor b s) :
    hasAny pw s = isMaj pw s (some b) := by
  unfold hasAny isMaj sumAny sumFor
  rw [tally_allFor b pw s h]

theorem tally_pos_mem (x : Target) : ∀ (pw : List Nat) (s : Slots),
    0 < tally (fun v => v == some x) pw s → some x ∈ s
  | [], s, h => by cases s <;> simp [tally] at h
  | p :: ps, [], h => by simp [tally] at h
  | p :: ps, v :: vs, h => by
    by_cases hv : v = some x
    · subst hv; exact List.mem_cons_self ..
    · have : (v == some x) = false := by simpa using hv
      simp only [tally, this] at h
      exact List.mem_cons_of_mem _ (tally_pos_mem x ps vs (by simpa using h))

theorem find?_all_eq {α : Type} (p : α → Bool) (a : α) : ∀ (l : List α), (∀ x ∈ l, x = a) →
    l.find? p = if p a = true ∧ l ≠ [] then some a else none
  | [], _ => by simp
  | x :: l, h => by
    have hx : x = a := h x (List.mem_cons_self ..)
    subst hx
    by_cases hp : p x = true
    · simp [List.find?, hp]
    · have hp' : p x = false := by simpa using hp
      have := find?_all_eq p x l (fun y hy => h y (List.mem_cons_of_mem _ hy))
      simp [List.find?, hp', this]

/-- `maj23` of a set of votes for `b` only -/
theorem maj23_allFor {b : Nat} {pw : List Nat} {s : Slots} (h : AllFor b s) :
    maj23 pw s = if isMaj pw s (some b) = true then some (some b) else none := by
  unfold maj23
  have hall : ∀ x ∈ s.filterMap id, x = some b := by
    intro x hx
    obtain ⟨v, hv, he⟩ := List.mem_filterMap.mp hx
    rcases h v hv with h1 | h1
    · subst h1; cases he
    · subst h1; simp at he; exact he.symm
  rw [find?_all_eq _ (some b) _ hall]
  by_cases hm : isMaj pw s (some b) = true
  · have hne : s.filterMap id ≠ [] := by
      have hpos : 0 < sumFor pw s (some b) := by
        unfold isMaj at hm
        have := of_decide_eq_true hm
        omega
      have hmem := tally_pos_mem (some b) pw s hpos
      intro hnil
      have : some b ∈ s.filterMap id := List.mem_filterMap.mpr ⟨_, hmem, rfl⟩
      rw [hnil] at this
      cases this
    simp [hm, hne]
  · simp [hm]

theorem maj23_allFor_true {b : Nat} {pw : List Nat} {s : Slots} (h : AllFor b s)
    (hm : isMaj pw s (some b) = true) : maj23 pw s = some (some b) := by
  rw [maj23_allFor h, if_pos hm]

theorem maj23_allFor_false {b : Nat} {pw : List Nat} {s : Slots} (h : AllFor b s)
    (hm : isMaj pw s (some b) = false) : maj23 pw s = none := by
  rw [maj23_allFor h, if_neg (by simp [hm])]

theorem sumFor_replicate_none (pw : List Nat) (n : Nat) (x : Target) :
    sumFor pw (List.replicate n none) x = 0 := by
  unfold sumFor
  induction n generalizing pw with
  | zero => simp [tally_nil_right]
  | succ k ih =>
    cases pw with
    | nil => rfl
    | cons p ps => simp [List.replicate_succ, tally, ih]

theorem isMaj_replicate_none (pw : List Nat) (n : Nat) (x : Target) :
    isMaj pw (List.replicate n none) x = false := by
  unfold isMaj
  rw [sumFor_replicate_none]
  simp

theorem maj23_replicate_none (pw : List Nat) (n : Nat) : maj23 pw (List.replicate n none) = none := by
  unfold maj23
  have : (List.replicate n (none : Option Target)).filterMap id = [] := by
    rw [List.filterMap_eq_nil_iff]
    intro a ha
    rw [List.eq_of_mem_replicate ha]
    rfl
  rw [this]
  rfl

/-! ### filling slots -/

/-- the slots after the votes for `b` of the validators `js` were stored, in order -/
def fill (b : Nat) (s : Slots) (js : List Nat) : Slots :=
  js.foldl (fun s j => s.set j (some (some b))) s

@[simp] theorem fill_nil (b : Nat) (s : Slots) : fill b s [] = s := rfl
@[simp] theorem fill_cons (b : Nat) (s : Slots) (j : Nat) (js : List Nat) :
    fill b s (j :: js) = fill b (s.set j (some (some b))) js := rfl

theorem fill_length (b : Nat) : ∀ (js : List Nat) (s : Slots), (fill b s js).length = s.length
  | [], _ => rfl
  | j :: js, s => by rw [fill_cons, fill_length b js]; simp

theorem fill_allFor (b : Nat) : ∀ (js : List Nat) (s : Slots), AllFor b s → AllFor b (fill b s js)
  | [], _, h => h
  | j :: js, s, h => by rw [fill_cons]; exact fill_allFor b js _ (h.set j)

/-- a slot outside `js` is untouched -/
theorem fill_get_not_mem (b : Nat) : ∀ (js : List Nat) (s : Slots) (i : Nat), i ∉ js →
    (fill b s js)[i]? = s[i]?
  | [], _, _, _ => rfl
  | j :: js, s, i, h => by
    rw [fill_cons, fill_get_not_mem b js _ i (fun hm => h (List.mem_cons_of_mem _ hm))]
    have : j ≠ i := fun e => h (by rw [e]; exact List.mem_cons_self ..)
    exact List.getElem?_set_ne this

/-- a slot in `js` holds the vote for `b` -/
theorem fill_get_mem (b : Nat) : ∀ (js : List Nat) (s : Slots) (i : Nat), i ∈ js → i < s.length →
    (fill b s js)[i]? = some (some (some b))
  | j :: js, s, i, h, hl => by
    rw [fill_cons]
    by_cases hm : i ∈ js
    · exact fill_get_mem b js _ i hm (by simpa using hl)
    · rw [fill_get_not_mem b js _ i hm]
      have : i = j := by
        rcases List.mem_cons.mp h with h1 | h1
        · exact h1
        · exact absurd h1 hm
      subst this
      simp [hl]

/-! ### lower bound of a tally -/

theorem powerL_le_tally (P : Option Target → Bool) :
    ∀ (pw : List Nat) (vs : Slots) (q : Nat → Bool),
      (∀ i, i < pw.length → q i = true → ∃ v, vs[i]? = some v ∧ P v = true) → powerL pw q ≤ tally P pw vs
  | [], vs, q, _ => by simp [powerL]
  | p :: ps, [], q, h => by
    have h0 : q 0 = false := by
      cases hq : q 0 with
      | false => rfl
      | true =>
        obtain ⟨v, hv, _⟩ := h 0 (by simp) hq
        simp at hv
    have ih := powerL_le_tally P ps [] (fun i => q (i + 1)) (fun i hi hq => by
      obtain ⟨v, hv, _⟩ := h (i + 1) (by simp only [List.length_cons]; omega) hq
      simp at hv)
    rw [tally_nil_right] at ih
    rw [tally_nil_right]
    simp only [powerL, h0]
    simpa using ih
  | p :: ps, v :: vs, q, h => by
    have ih := powerL_le_tally P ps vs (fun i => q (i + 1)) (fun i hi hq => by
      obtain ⟨v', hv, hp⟩ := h (i + 1) (by simp only [List.length_cons]; omega) hq
      exact ⟨v', by simpa using hv, hp⟩)
    simp only [tally, powerL]
    by_cases hq : q 0 = true
    · obtain ⟨v', hv, hp⟩ := h 0 (by simp) hq
      simp at hv
      subst hv
      rw [if_pos hq, if_pos hp]
      omega
    · rw [if_neg hq]
      omega

/-- if every validator of the set `q` has a vote for `x` in the slots, the tally for `x` is at
least the power of `q` -/
theorem power_le_sumFor (powers : List Nat) (vs : Slots) (x : Target) (q : Nat → Bool)
    (h : ∀ i, i < powers.length → q i = true → vs[i]? = some (some x)) :
    power (valsOf powers) (pwOf powers) q ≤ sumFor powers vs x := by
  unfold sumFor valsOf pwOf
  rw [← powerL_eq_power]
  apply powerL_le_tally
  intro i hi hq
  exact ⟨some x, h i hi hq, by simp⟩

/-- filling an empty slot keeps a majority -/
theorem isMaj_set_mono {pw : List Nat} {s : Slots} {x tgt : Target} {j : Nat} (he : s[j]? = some none)
    (hm : isMaj pw s x = true) : isMaj pw (s.set j (some tgt)) x = true := by
  unfold isMaj sumFor at *
  have := tally_set_mono x tgt pw s j he
  have h1 := of_decide_eq_true hm
  exact decide_eq_true (by omega)

end KV.Cs.Sync
