import KV.Proofs.CStore
/-! What `PruneState` keeps (property C14). -/
namespace KV.CStore

theorem mem_pruneHeights {db : DB} {a b h : Nat} :
    h ∈ pruneHeights db a b ↔
      ((if a = 0 then 1 else a) ≤ h ∧ h < b) ∧ (get h db.states).isSome = true := by
  unfold pruneHeights
  simp only [List.mem_filter, List.mem_range'_1]
  constructor
  · rintro ⟨⟨h1, h2⟩, h3⟩
    exact ⟨⟨h1, by omega⟩, h3⟩
  · rintro ⟨⟨h1, h2⟩, h3⟩
    exact ⟨⟨h1, by omega⟩, h3⟩

/-- a height outside `[max 1 a, b)` -/
def keptHeight (a b h : Nat) : Prop := h < (if a = 0 then 1 else a) ∨ b ≤ h

theorem kept_not_pruned {db : DB} {a b h : Nat} (hk : keptHeight a b h) : h ∉ pruneHeights db a b := by
  intro hm
  rw [mem_pruneHeights] at hm
  unfold keptHeight at hk
  omega

theorem keptHeight_zero (a b : Nat) : keptHeight a b 0 := by
  unfold keptHeight; left; split <;> omega

theorem keptHeight_to (a b : Nat) : keptHeight a b b := by
  unfold keptHeight; right; exact Nat.le_refl _

/-- state records outside the range survive, those inside are gone -/
theorem prune_states_kept {db : DB} {a b h : Nat} (hk : keptHeight a b h) :
    get h (prune db a b).1.states = get h db.states := by
  simp only [prune]
  exact get_delAll_of_not_mem _ _ (kept_not_pruned hk)

theorem prune_states_gone {db : DB} {a b h : Nat} (hk : ¬ keptHeight a b h) :
    get h (prune db a b).1.states = none := by
  simp only [prune]
  cases hg : get h db.states with
  | none => exact get_delAll_none _ _ hg
  | some r =>
    apply get_delAll_of_mem
    rw [mem_pruneHeights]
    unfold keptHeight at hk
    refine ⟨by omega, by simp [hg]⟩

theorem prune_params (db : DB) (a b : Nat) : (prune db a b).1.params = db.params := rfl
theorem prune_metas (db : DB) (a b : Nat) : (prune db a b).1.metas = db.metas := rfl
theorem prune_apps (db : DB) (a b : Nat) : (prune db a b).1.apps = db.apps := rfl

/-- validator-info records that are not victims survive -/
theorem prune_vals_kept {db : DB} {a b : Nat} {k : VKey} (hk : k ∉ pruneVictims db a b) :
    get k (prune db a b).1.vals = get k db.vals := by
  simp only [prune]
  exact get_delAll_of_not_mem _ _ hk

theorem prune_vals_gone {db : DB} {a b : Nat} {k : VKey} (hk : k ∈ pruneVictims db a b) :
    get k (prune db a b).1.vals = none := by
  simp only [prune]
  exact get_delAll_of_mem _ _ hk

theorem refs_delAll_kept {db : DB} {a b h : Nat} (hk : keptHeight a b h) :
    refs { db with states := delAll (pruneHeights db a b) db.states } h = refs db h := by
  unfold refs
  simp only
  rw [get_delAll_of_not_mem _ _ (kept_not_pruned hk)]

/-- a victim was the LastValidators key of a deleted state and is referenced neither by the
genesis state nor by state `b` -/
theorem victim_spec {db : DB} {a b : Nat} {k : VKey} (hk : k ∈ pruneVictims db a b) :
    (∃ i r, i ∈ pruneHeights db a b ∧ get i db.states = some r ∧ r.lastKey = k) ∧
      k ∉ refs db 0 ∧ k ∉ refs db b := by
  unfold pruneVictims at hk
  simp only [List.mem_filter] at hk
  obtain ⟨hk1, _⟩ := hk
  have hk2 := List.mem_eraseDups.mp hk1
  simp only [List.mem_filter, List.mem_filterMap, Bool.not_eq_true', List.contains_eq_mem,
    decide_eq_false_iff_not, List.mem_append, not_or] at hk2
  obtain ⟨⟨i, hi, hr⟩, hp0, hpb⟩ := hk2
  rw [refs_delAll_kept (keptHeight_zero a b)] at hp0
  rw [refs_delAll_kept (keptHeight_to a b)] at hpb
  refine ⟨?_, hp0, hpb⟩
  cases hg : get i db.states with
  | none => simp [hg] at hr
  | some r =>
    simp only [hg, Option.map_some, Option.some.injEq] at hr
    exact ⟨i, r, hi, hg, hr⟩

/-- `loadAt`, `loadValidators`, `loadParams` only look at the records of height `h` and at the three
validator-info records and the params record its state record points to -/
theorem loadAt_congr {db db' : DB} {h : Nat}
    (hs : get h db'.states = get h db.states) (hm : get h db'.metas = get h db.metas)
    (ha : get h db'.apps = get h db.apps) (hp : db'.params = db.params)
    (hv : ∀ k ∈ refs db h, get k db'.vals = get k db.vals) :
    loadAt db' h = loadAt db h ∧ loadValidators db' h = loadValidators db h ∧
      loadParams db' h = loadParams db h := by
  unfold loadAt loadValidators loadParams
  rw [hs, hm, ha, hp]
  cases hg : get h db.states with
  | none => simp
  | some r =>
    have hr : refs db h = [r.lastKey, r.valsKey, r.nextKey] := by simp [refs, hg]
    rw [hr] at hv
    have h1 := hv r.lastKey (by simp)
    have h2 := hv r.valsKey (by simp)
    have h3 := hv r.nextKey (by simp)
    simp only [h1, h2, h3]
    exact ⟨trivial, trivial, trivial⟩

end KV.CStore
