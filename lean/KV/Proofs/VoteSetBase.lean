import KV.Model.VoteSet
/-! Helper lemmas for C02: threshold arithmetic, weighted sums over validator indices, slots,
association lists. Core only. -/
namespace KV.VoteSet
open KV

/-! ## block ids: `Key` is injective, `Equal` is equality -/

theorem BlockId.key_inj {a b : BlockId} : a.key = b.key ↔ a = b := by
  cases a; cases b; simp [BlockId.key]; omega

theorem BlockId.equal_iff {a b : BlockId} : a.equal b = true ↔ a = b := by
  cases a; cases b; simp [BlockId.equal]

theorem BlockId.isZero_iff {b : BlockId} : b.isZero = true ↔ b = .zero := by
  cases b; simp [BlockId.isZero, BlockId.partsZero, BlockId.zero]

/-! ## threshold arithmetic -/

theorem maxTotal_val : maxTotalVotingPower = 1152921504606846975 := by decide

/-- no int64 overflow in `total*2/3 + 1` below the cap -/
theorem twoThirds_exact (t : Int) (h0 : 0 ≤ t) (h1 : t ≤ maxTotalVotingPower) :
    twoThirds t = t * 2 / 3 := by
  rw [maxTotal_val] at h1
  unfold twoThirds I64.div I64.mul
  rw [I64.wrap_of_inRange (t * 2) (by unfold I64.InRange I64.minI64 I64.maxI64; omega)]
  rw [Int.tdiv_eq_ediv_of_nonneg (by omega)]
  exact I64.wrap_of_inRange _ (by unfold I64.InRange I64.minI64 I64.maxI64; omega)

theorem quorum_exact (t : Int) (h0 : 0 ≤ t) (h1 : t ≤ maxTotalVotingPower) :
    quorum t = t * 2 / 3 + 1 := by
  unfold quorum I64.add
  rw [twoThirds_exact t h0 h1]
  rw [maxTotal_val] at h1
  exact I64.wrap_of_inRange _ (by unfold I64.InRange I64.minI64 I64.maxI64; omega)

theorem quorum_le_iff (t s : Int) (h0 : 0 ≤ t) (h1 : t ≤ maxTotalVotingPower) :
    quorum t ≤ s ↔ 3 * s > 2 * t := by
  rw [quorum_exact t h0 h1]; omega

theorem gt_twoThirds_iff (t s : Int) (h0 : 0 ≤ t) (h1 : t ≤ maxTotalVotingPower) :
    s > twoThirds t ↔ 3 * s > 2 * t := by
  rw [twoThirds_exact t h0 h1]; omega

theorem quorum_pos (t : Int) (h0 : 0 ≤ t) (h1 : t ≤ maxTotalVotingPower) : 1 ≤ quorum t := by
  rw [quorum_exact t h0 h1]; omega

/-! ## weighted sums over validator indices -/

/-- `Σ { vals[i].power | i < vals.length, P i }` -/
def psum : Vals → (Nat → Bool) → Int
  | [], _ => 0
  | v :: vs, P => (if P 0 then v.power else 0) + psum vs (fun i => P (i + 1))

def powerAt (vals : Vals) (i : Nat) : Int := (vals[i]?.map (·.power)).getD 0

def NonNeg (vals : Vals) : Prop := ∀ v ∈ vals, 0 ≤ v.power

theorem psum_congr (vals : Vals) (P Q : Nat → Bool) (h : ∀ i, i < vals.length → P i = Q i) :
    psum vals P = psum vals Q := by
  induction vals generalizing P Q with
  | nil => rfl
  | cons v vs ih =>
    simp only [psum]
    rw [h 0 (by simp), ih (fun i => P (i + 1)) (fun i => Q (i + 1)) (fun i hi => h (i + 1) (by simp; omega))]

theorem psum_false (vals : Vals) (P : Nat → Bool) (h : ∀ i, i < vals.length → P i = false) :
    psum vals P = 0 := by
  induction vals generalizing P with
  | nil => rfl
  | cons v vs ih =>
    simp only [psum]
    rw [h 0 (by simp), ih (fun i => P (i + 1)) (fun i hi => h (i + 1) (by simp; omega))]; simp

theorem psum_mono (vals : Vals) (hn : NonNeg vals) (P Q : Nat → Bool)
    (h : ∀ i, i < vals.length → P i = true → Q i = true) : psum vals P ≤ psum vals Q := by
  induction vals generalizing P Q with
  | nil => simp [psum]
  | cons v vs ih =>
    simp only [psum]
    have h0 := h 0 (by simp)
    have hv : 0 ≤ v.power := hn v (by simp)
    have := ih (fun w hw => hn w (by simp [hw])) (fun i => P (i + 1)) (fun i => Q (i + 1))
      (fun i hi => h (i + 1) (by simp; omega))
    cases hp : P 0 <;> cases hq : Q 0 <;> simp_all <;> omega

theorem psum_nonneg (vals : Vals) (hn : NonNeg vals) (P : Nat → Bool) : 0 ≤ psum vals P := by
  have := psum_mono vals hn (fun _ => false) P (by simp)
  rwa [psum_false vals (fun _ => false) (fun _ _ => rfl)] at this

theorem psum_true (vals : Vals) (P : Nat → Bool) (h : ∀ i, i < vals.length → P i = true) :
    psum vals P = totalPower vals := by
  induction vals generalizing P with
  | nil => rfl
  | cons v vs ih =>
    simp only [psum, totalPower, List.map_cons, List.sum_cons]
    rw [h 0 (by simp), ih (fun i => P (i + 1)) (fun i hi => h (i + 1) (by simp; omega))]; simp [totalPower]

theorem psum_le_total (vals : Vals) (hn : NonNeg vals) (P : Nat → Bool) :
    psum vals P ≤ totalPower vals := by
  have := psum_mono vals hn P (fun _ => true) (fun _ _ _ => rfl)
  rwa [psum_true vals (fun _ => true) (fun _ _ => rfl)] at this

theorem totalPower_nonneg (vals : Vals) (hn : NonNeg vals) : 0 ≤ totalPower vals := by
  rw [← psum_true vals (fun _ => true) (fun _ _ => rfl)]; exact psum_nonneg vals hn _

/-- switching one index on adds that validator's power -/
theorem psum_update (vals : Vals) (P : Nat → Bool) (i : Nat) (val : Val)
    (hv : vals[i]? = some val) (hP : P i = false) :
    psum vals (fun j => if j = i then true else P j) = psum vals P + val.power := by
  induction vals generalizing P i with
  | nil => simp at hv
  | cons v vs ih =>
    simp only [psum]
    cases i with
    | zero =>
      simp at hv; subst hv
      simp [hP]
      rw [psum_congr vs _ (fun i => P (i + 1)) (by intro j _; simp)]
      omega
    | succ i =>
      simp at hv
      have := ih (fun j => P (j + 1)) i hv hP
      simp only [Nat.add_right_cancel_iff] at *
      rw [this]
      simp; omega

/-- the sum over a predicate is the sum over an explicit duplicate-free list of indices -/
theorem psum_eq_sum (vals : Vals) (P : Nat → Bool) :
    psum vals P = (((List.range vals.length).filter P).map (powerAt vals)).sum := by
  induction vals generalizing P with
  | nil => rfl
  | cons v vs ih =>
    simp only [psum, List.length_cons, List.range_succ_eq_map, List.filter_cons]
    rw [ih (fun i => P (i + 1))]
    have : ((List.map Nat.succ (List.range vs.length)).filter P).map (powerAt (v :: vs))
         = ((List.range vs.length).filter (fun i => P (i + 1))).map (powerAt vs) := by
      rw [List.filter_map, List.map_map]
      apply List.map_congr_left
      intro a _
      simp [powerAt]
    cases h0 : P 0 <;> simp [this, powerAt]

theorem idx_nodup (n : Nat) (P : Nat → Bool) : ((List.range n).filter P).Nodup :=
  List.Nodup.sublist List.filter_sublist List.nodup_range

/-! ## slots -/

def voted (l : Slots) (i : Nat) : Bool := (slot l i).isSome

def tally (vals : Vals) (l : Slots) : Int := psum vals (voted l)

theorem slot_set (l : Slots) (i j : Nat) (x : Option Vote) :
    slot (l.set i x) j = if j = i ∧ i < l.length then x else slot l j := by
  unfold slot
  simp only [List.getD_eq_getElem?_getD, List.getElem?_set]
  by_cases h : i = j
  · subst h; by_cases h2 : i < l.length <;> simp [h2]
  · have : ¬ j = i := fun e => h e.symm
    simp [h, this]

theorem slot_replicate (n i : Nat) : slot (List.replicate n none) i = none := by
  unfold slot; simp [List.getD_eq_getElem?_getD, List.getElem?_replicate]
  split <;> rfl

theorem slot_of_ge (l : Slots) (i : Nat) (h : l.length ≤ i) : slot l i = none := by
  unfold slot; simp [List.getD_eq_getElem?_getD, List.getElem?_eq_none h]

theorem slot_cons_succ (a : Option Vote) (l : Slots) (i : Nat) : slot (a :: l) (i + 1) = slot l i := by
  simp [slot]

theorem slot_cons_zero (a : Option Vote) (l : Slots) : slot (a :: l) 0 = a := by
  simp [slot]

theorem copyOver_length (a b : Slots) : (copyOver a b).length = a.length := by
  induction a generalizing b with
  | nil => cases b <;> simp [copyOver]
  | cons x xs ih => cases b <;> simp [copyOver, ih]

theorem slot_copyOver (a b : Slots) (h : a.length = b.length) (i : Nat) :
    slot (copyOver a b) i = (slot b i).or (slot a i) := by
  induction a generalizing b i with
  | nil => cases b <;> simp_all [copyOver, slot]
  | cons x xs ih =>
    cases b with
    | nil => simp at h
    | cons y ys =>
      simp at h
      cases i with
      | zero => simp only [copyOver, slot_cons_zero]; cases y <;> simp
      | succ i => simp only [copyOver, slot_cons_succ]; exact ih ys h i

theorem map_isSome_eq (a b : Slots) (hl : a.length = b.length) (h : ∀ i, voted a i = voted b i) :
    a.map Option.isSome = b.map Option.isSome := by
  induction a generalizing b with
  | nil => cases b <;> simp_all
  | cons x xs ih =>
    cases b with
    | nil => simp at hl
    | cons y ys =>
      simp at hl
      have h0 := h 0
      simp [voted, slot_cons_zero] at h0
      simp [h0]
      exact ih ys hl (fun i => by simpa [voted, slot_cons_succ] using h (i + 1))

theorem map_isSome_set (l : Slots) (i : Nat) (v : Vote) :
    (l.set i (some v)).map Option.isSome = (l.map Option.isSome).set i true := by
  simp [List.map_set]

/-! ## association lists -/

theorem lookup_insert_self (k : Key) (bv : BlockVotes) (l : List (Key × BlockVotes)) :
    lookup k (insert k bv l) = some bv := by
  induction l with
  | nil => simp [insert, lookup]
  | cons x xs ih =>
    obtain ⟨k', bv'⟩ := x
    by_cases h : k' = k <;> simp [insert, lookup, h, ih]

theorem lookup_insert_ne (k k' : Key) (bv : BlockVotes) (l : List (Key × BlockVotes)) (hne : k' ≠ k) :
    lookup k' (insert k bv l) = lookup k' l := by
  induction l with
  | nil => simp [insert, lookup]; intro h; exact absurd h.symm hne
  | cons x xs ih =>
    obtain ⟨k'', bv''⟩ := x
    by_cases h : k'' = k
    · subst h; simp [insert, lookup]
      have : ¬ k'' = k' := fun e => hne e.symm
      simp [this]
    · simp only [insert, h, if_false, lookup]
      by_cases h2 : k'' = k' <;> simp [h2, ih]

end KV.VoteSet
