import KV.Proofs.CsSyncRun
/-! The first inputs of a freshly started node (C04, `KV/Props/C04Net.lean`): the NewHeight
timeout (and, with an empty-block interval, the NewRound timeout) takes `NewConsensusState` +
`scheduleRound0` to the stage `Ready` of round 1.  Core Lean only. -/
namespace KV.Cs.Sync

/-- `NewConsensusState` + `scheduleRound0` -/
def started (cfg : Config) (h : Nat) : State := schedule h 1 .newHeight (init cfg h)

/-- the state of a freshly started node after `enterNewRound(h, 1)` up to `enterPropose` -/
def round1 (cfg : Config) (h : Nat) : State :=
  { started cfg h with added := false, step := .newRound, ttp := false, hvsRound := 2,
                       votes := [fresh (n cfg) h 1, fresh (n cfg) h 0, fresh (n cfg) h 2] }

theorem newRoundPrep_started (cfg : Config) (h : Nat) :
    newRoundPrep cfg 1 { started cfg h with added := false } = round1 cfg h := by
  simp [newRoundPrep, setRound, addRounds, hasRound, findRV, addRound, fresh, started, init, schedule, round1]


/-- `enterPropose`'s body only schedules the Propose timeout and (the proposer) signs a proposal -/
theorem proposeBody_eq (cfg : Config) (nb : Option Nat) (h r : Nat) (σ : State) :
    proposeBody cfg nb h r σ =
      { σ with log := (proposeBody cfg nb h r σ).log, sched := (h, r, .propose) :: σ.sched } := by
  unfold proposeBody decideProposal
  simp only
  (repeat' split) <;> rfl

theorem proposeBody_log_proposer (cfg : Config) (b h r : Nat) (σ : State) (hv : isVal cfg = true)
    (hp : cfg.proposer σ.height σ.round = cfg.me) (hvb : σ.validB = none) :
    Action.signProposal h r σ.validRound b ∈ (proposeBody cfg (some b) h r σ).log := by
  unfold proposeBody decideProposal
  simp [hv, schedule, hp, hvb, emit]

theorem step_kick (cfg : Config) (h : Nat) (nb : Option Nat) (hw : cfg.waitTxs = false) :
    step cfg (started cfg h) nb (.timeout h 1 .newHeight) =
      { round1 cfg h with round := 1, step := .propose, log := (proposeBody cfg nb h 1 (round1 cfg h)).log,
                          sched := (h, 1, .propose) :: (round1 cfg h).sched } := by
  rw [step_live _ _ _ _ rfl]
  simp only
  unfold handleTimeout
  rw [if_neg (by simp [started, init, schedule])]
  simp only
  unfold enterNewRound
  rw [if_neg (by simp [started, init, schedule]), if_neg (by simp [started, init, schedule])]
  simp only [hw, Bool.false_and]
  rw [newRoundPrep_started, releaseStale_unlocked _ _ rfl]
  unfold enterPropose
  rw [if_neg (by simp)]
  rw [if_neg (by simp [round1, started, init, schedule, Step.toNat])]
  rw [proposeBody_eq]
  unfold proposeDone
  rw [if_neg (by simp [isProposalComplete, round1, started, init, schedule])]

/-- **the NewHeight timeout of a freshly started node** (`waitTxs = false`, the configuration of
the harness): the node enters round 1, step Propose, with empty vote sets -/
theorem kick_node (cfg : Config) (h b : Nat) (nb : Option Nat) (hw : cfg.waitTxs = false) :
    Ready cfg h 1 0 b (step cfg (started cfg h) nb (.timeout h 1 .newHeight)) := by
  rw [step_kick cfg h nb hw]
  refine ⟨rfl, rfl, rfl, rfl, rfl, rfl, rfl, Or.inl rfl, Or.inl rfl, ?_, ?_⟩ <;>
    simp [slotsV, findRV, round1, fresh, slotsOf]

/-- … and the proposer of (h, 1) signs the proposal for the block `createProposalBlock` returns -/
theorem kick_node_proposal (cfg : Config) (h b : Nat) (hw : cfg.waitTxs = false) (hv : isVal cfg = true)
    (hp : cfg.proposer h 1 = cfg.me) :
    Action.signProposal h 1 0 b ∈ (step cfg (started cfg h) (some b) (.timeout h 1 .newHeight)).log := by
  rw [step_kick cfg h (some b) hw]
  exact proposeBody_log_proposer cfg b h 1 (round1 cfg h) hv hp rfl

/-! ### the same with `waitTxs ∧ emptyInterval` (`CreateEmptyBlocksInterval > 0`, the production
default): the NewHeight timeout leads to NewRound with the NewRound timeout armed, that timeout
to Propose -/

def round1w (cfg : Config) (h : Nat) : State := schedule h 1 .newRound (round1 cfg h)

theorem step_kick_wait1 (cfg : Config) (h : Nat) (nb : Option Nat) (hw : cfg.waitTxs = true)
    (he : cfg.emptyInterval = true) :
    step cfg (started cfg h) nb (.timeout h 1 .newHeight) = round1w cfg h := by
  rw [step_live _ _ _ _ rfl]
  simp only
  unfold handleTimeout
  rw [if_neg (by simp [started, init, schedule])]
  simp only
  unfold enterNewRound
  rw [if_neg (by simp [started, init, schedule]), if_neg (by simp [started, init, schedule])]
  simp only [hw, he, Bool.true_and]
  rw [newRoundPrep_started, releaseStale_unlocked _ _ rfl]
  rfl

theorem step_kick_wait2 (cfg : Config) (h : Nat) (nb : Option Nat) :
    step cfg (round1w cfg h) nb (.timeout h 1 .newRound) =
      { round1w cfg h with round := 1, step := .propose, log := (proposeBody cfg nb h 1 (round1w cfg h)).log,
                           sched := (h, 1, .propose) :: (round1w cfg h).sched } := by
  rw [step_live _ _ _ _ rfl]
  simp only
  unfold handleTimeout
  rw [if_neg (by simp [round1w, round1, started, init, schedule, Step.toNat])]
  simp only
  unfold enterPropose
  rw [if_neg (by simp [round1w, round1, started, init, schedule, Step.toNat])]
  rw [proposeBody_eq]
  unfold proposeDone
  rw [if_neg (by simp [isProposalComplete, round1w, round1, started, init, schedule])]
  rfl

theorem kick_node_wait (cfg : Config) (h b : Nat) (nb : Option Nat) :
    Ready cfg h 1 0 b (step cfg (round1w cfg h) nb (.timeout h 1 .newRound)) := by
  rw [step_kick_wait2 cfg h nb]
  refine ⟨rfl, rfl, rfl, rfl, rfl, rfl, rfl, Or.inl rfl, Or.inl rfl, ?_, ?_⟩ <;>
    simp [slotsV, findRV, round1w, schedule, round1, fresh, slotsOf]

theorem kick_node_wait_proposal (cfg : Config) (h b : Nat) (hv : isVal cfg = true)
    (hp : cfg.proposer h 1 = cfg.me) :
    Action.signProposal h 1 0 b ∈ (step cfg (round1w cfg h) (some b) (.timeout h 1 .newRound)).log := by
  rw [step_kick_wait2 cfg h (some b)]
  exact proposeBody_log_proposer cfg b h 1 (round1w cfg h) hv hp rfl

end KV.Cs.Sync
