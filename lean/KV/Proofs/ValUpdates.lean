import KV.Model.ValUpdates
/-!
# `calculateValidatorSetUpdates`: closed form and permutation lemmas (C06)

With pairwise distinct reported addresses
* the appended updates are `reported.filter (changed last)` (a lookup is never affected by the
  deletion of *another* address), and
* the leftover map is `last` without the reported addresses (whatever the report order),
so both parts are functions of the reported list up to permutation.
-/
namespace KV.ValUpdates
open KV.ValSet

/-! ## the map -/

theorem get_del_ne (m : PMap) (a b : Nat) (h : a ≠ b) : PMap.get (PMap.del m a) b = PMap.get m b := by
  induction m with
  | nil => rfl
  | cons e m ih =>
    obtain ⟨k, p⟩ := e
    unfold PMap.del at ih ⊢
    by_cases hk : k = a
    · subst hk
      simp only [List.filter, ne_eq, not_true_eq_false, decide_false]
      rw [ih]; simp [PMap.get, h]
    · simp only [List.filter, ne_eq, hk, not_false_eq_true, decide_true]
      simp only [PMap.get]; rw [ih]

theorem keys_del (m : PMap) (a : Nat) : PMap.keys (PMap.del m a) = (PMap.keys m).filter (fun k => decide (k ≠ a)) := by
  unfold PMap.keys PMap.del
  rw [List.filter_map]
  rfl

theorem keys_del_nodup (m : PMap) (a : Nat) (h : (PMap.keys m).Nodup) : (PMap.keys (PMap.del m a)).Nodup := by
  rw [keys_del]; exact List.Nodup.sublist List.filter_sublist h

theorem not_mem_keys_del (m : PMap) (a : Nat) : a ∉ PMap.keys (PMap.del m a) := by
  rw [keys_del]; simp

theorem keys_set_nodup (m : PMap) (a : Nat) (p : Int) (h : (PMap.keys m).Nodup) :
    (PMap.keys (PMap.set m a p)).Nodup := by
  unfold PMap.set
  have : PMap.keys (PMap.del m a ++ [(a, p)]) = PMap.keys (PMap.del m a) ++ [a] := by
    simp [PMap.keys]
  rw [this, List.nodup_append]
  refine ⟨keys_del_nodup m a h, by simp, ?_⟩
  intro x hx b hb
  have : b = a := by simpa using hb
  subst this
  intro e; subst e
  exact not_mem_keys_del m x hx

theorem keys_foldl_set_nodup (l : List Validator) (m : PMap) (h : (PMap.keys m).Nodup) :
    (PMap.keys (l.foldl (fun m v => PMap.set m v.addr v.power) m)).Nodup := by
  induction l generalizing m with
  | nil => exact h
  | cons v vs ih => exact ih _ (keys_set_nodup m v.addr v.power h)

/-- a Go map has every key once -/
theorem keys_buildLast_nodup (l : List Validator) : (PMap.keys (buildLast l)).Nodup :=
  keys_foldl_set_nodup l [] List.nodup_nil

/-! ## the scan -/

/-- the leftover map: every reported address deleted, nothing else (any order, duplicates or not) -/
theorem scanReported_fst (m : PMap) (vs : List Validator) :
    (scanReported m vs).1 = m.filter (fun e => decide (e.1 ∉ vs.map (·.addr))) := by
  induction vs generalizing m with
  | nil =>
    simp only [scanReported, List.map_nil, List.not_mem_nil, not_false_eq_true, decide_true]
    exact (List.filter_eq_self.mpr (fun _ _ => rfl)).symm
  | cons v vs ih =>
    simp only [scanReported, ih, PMap.del, List.filter_filter]
    apply List.filter_congr
    intro e _
    simp only [List.map_cons, List.mem_cons, not_or, ne_eq, Bool.decide_and, Bool.and_comm]

theorem changed_del_ne (m : PMap) (a : Nat) (w : Validator) (h : a ≠ w.addr) :
    changed (PMap.del m a) w = changed m w := by
  unfold changed; rw [get_del_ne m a w.addr h]

/-- the appended updates: with distinct reported addresses every lookup sees the original map -/
theorem scanReported_snd (m : PMap) (vs : List Validator) (hn : (vs.map (·.addr)).Nodup) :
    (scanReported m vs).2 = vs.filter (changed m) := by
  induction vs generalizing m with
  | nil => simp [scanReported]
  | cons v vs ih =>
    rw [List.map_cons, List.nodup_cons] at hn
    have hc : vs.filter (changed (PMap.del m v.addr)) = vs.filter (changed m) := by
      apply List.filter_congr
      intro w hw
      apply changed_del_ne
      intro e
      exact hn.1 (e ▸ List.mem_map_of_mem (f := (·.addr)) hw)
    simp only [scanReported, ih _ hn.2, hc, List.filter_cons]

/-! ## permutations -/

theorem leftover_perm (last reported reported' : List Validator) (hp : reported.Perm reported') :
    leftover last reported = leftover last reported' := by
  unfold leftover
  rw [scanReported_fst, scanReported_fst]
  apply List.filter_congr
  intro e _
  have := (hp.map (·.addr)).mem_iff (a := e.1)
  simp only [this]

theorem updates_perm (m : PMap) (reported reported' : List Validator) (hp : reported.Perm reported')
    (hn : (reported.map (·.addr)).Nodup) :
    ((scanReported m reported).2).Perm (scanReported m reported').2 := by
  have hn' : (reported'.map (·.addr)).Nodup := (hp.map (·.addr)).nodup_iff.mp hn
  rw [scanReported_snd m reported hn, scanReported_snd m reported' hn']
  exact hp.filter _

theorem calcValUpdates_perm (last reported reported' : List Validator) (σ σ' : List Nat)
    (hn : (reported.map (·.addr)).Nodup) (hp : reported.Perm reported')
    (hσ : Enumerates σ (leftover last reported)) (hσ' : Enumerates σ' (leftover last reported')) :
    (calcValUpdates last reported σ).Perm (calcValUpdates last reported' σ') := by
  unfold calcValUpdates
  rw [← hp.isEmpty_eq]
  split
  · exact List.Perm.refl _
  · apply List.Perm.append (updates_perm _ _ _ hp hn)
    apply List.Perm.map
    unfold Enumerates at hσ hσ'
    rw [← leftover_perm last reported reported' hp] at hσ'
    exact hσ.trans hσ'.symm

/-! ## the produced change list has distinct addresses -/

theorem map_addr_removal (σ : List Nat) : (σ.map removal).map (·.addr) = σ := by
  induction σ with
  | nil => rfl
  | cons a σ ih => simp [removal, ih]

theorem calcValUpdates_nodup (last reported : List Validator) (σ : List Nat)
    (hn : (reported.map (·.addr)).Nodup) (hσ : Enumerates σ (leftover last reported)) :
    ((calcValUpdates last reported σ).map (·.addr)).Nodup := by
  unfold calcValUpdates
  split
  · exact List.nodup_nil
  · rw [List.map_append, map_addr_removal, scanReported_snd _ _ hn, List.nodup_append]
    have hk : (PMap.keys (leftover last reported)).Nodup := by
      unfold leftover; rw [scanReported_fst]
      exact List.Nodup.sublist (List.Sublist.map _ List.filter_sublist) (keys_buildLast_nodup last)
    refine ⟨List.Nodup.sublist (List.Sublist.map _ List.filter_sublist) hn, hσ.nodup_iff.mpr hk, ?_⟩
    intro a ha b hb e
    subst e
    have ha' : a ∈ reported.map (·.addr) :=
      (List.Sublist.map (·.addr) (List.filter_sublist (p := changed (buildLast last)))).subset ha
    have hb' : a ∈ PMap.keys (leftover last reported) := hσ.mem_iff.mp hb
    unfold leftover at hb'
    rw [scanReported_fst] at hb'
    obtain ⟨x, hx, rfl⟩ := List.mem_map.mp hb'
    have := (List.mem_filter.mp hx).2
    simp only [decide_eq_true_eq] at this
    exact this ha'

end KV.ValUpdates
