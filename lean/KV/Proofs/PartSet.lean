import KV.Model.PartSet
import KV.Proofs.Merkle
/-! Lemmas about splitting/joining and the `PartSet` state machine. Core only. -/
namespace KV.PartSet
open KV.Merkle

/-! ### split / join -/

theorem numParts_mul_ge (len size : Nat) (h : 0 < size) : len ≤ numParts len size * size := by
  unfold numParts
  have h1 := Nat.div_add_mod (len + size - 1) size
  have h2 := Nat.mod_lt (len + size - 1) h
  rw [Nat.mul_comm] at h1
  omega

theorem lt_of_lt_numParts (len size n : Nat) (h : 0 < size) (hn : n < numParts len size) :
    n * size < len := by
  unfold numParts at hn
  have h1 : (n + 1) * size ≤ len + size - 1 := (Nat.le_div_iff_mul_le h).mp hn
  rw [Nat.succ_mul] at h1
  omega

theorem numParts_eq_zero (len size : Nat) (h : 0 < size) : numParts len size = 0 ↔ len = 0 := by
  constructor
  · intro h0
    have := numParts_mul_ge len size h
    rw [h0] at this; omega
  · intro h0; subst h0; unfold numParts
    exact Nat.div_eq_of_lt (by omega)

theorem partBytes_length (data : Bytes) (size i : Nat) :
    (partBytes data size i).length = min data.length ((i + 1) * size) - i * size := by
  simp [partBytes, List.length_drop, List.length_take]

theorem flatten_prefix (data : Bytes) (size : Nat) : ∀ n,
    ((List.range n).map (partBytes data size)).flatten = data.take (n * size) := by
  intro n
  induction n with
  | zero => simp
  | succ n ih =>
    rw [List.range_succ, List.map_append, List.flatten_append, ih]
    simp only [List.map_cons, List.map_nil, List.flatten_cons, List.flatten_nil, List.append_nil]
    have hb : data.take (min data.length ((n + 1) * size)) = data.take ((n + 1) * size) := by
      by_cases hle : data.length ≤ (n + 1) * size
      · rw [Nat.min_eq_left hle, List.take_of_length_le (Nat.le_refl _), List.take_of_length_le hle]
      · rw [Nat.min_eq_right (by omega)]
    have ha : data.take (n * size) = (data.take ((n + 1) * size)).take (n * size) := by
      rw [List.take_take, Nat.min_eq_left]
      rw [Nat.succ_mul]; omega
    unfold partBytes
    rw [hb, ha, List.take_append_drop]

theorem split_length (data : Bytes) (size : Nat) :
    (split data size).length = numParts data.length size := by
  simp [split]

theorem split_getElem? (data : Bytes) (size i : Nat) (h : i < numParts data.length size) :
    (split data size)[i]? = some (partBytes data size i) := by
  simp [split, h]

theorem join_split' (data : Bytes) (size : Nat) (h : 0 < size) : join (split data size) = data := by
  unfold join split
  rw [flatten_prefix]
  exact List.take_of_length_le (numParts_mul_ge _ _ h)

/-! ### generated proofs -/

theorem mkProofs_getElem? (total : Nat) : ∀ (xs : List Bytes) (as : List (List Bytes)) (k i : Nat) (x : Bytes)
    (a : List Bytes), xs[i]? = some x → as[i]? = some a →
    (mkProofs total k xs as)[i]? = some ⟨total, k + i, x, a⟩ := by
  intro xs
  induction xs with
  | nil => intro as k i x a hx; simp at hx
  | cons y ys ih =>
    intro as k i x a hx ha
    cases as with
    | nil => simp at ha
    | cons b bs =>
      cases i with
      | zero => simp at hx ha; subst hx; subst ha; simp [mkProofs]
      | succ j =>
        simp only [List.getElem?_cons_succ] at hx ha
        simp only [mkProofs, List.getElem?_cons_succ]
        rw [ih bs (k + 1) j x a hx ha]
        congr 2; omega

theorem mkProofs_length (total : Nat) : ∀ (xs : List Bytes) (as : List (List Bytes)) (k : Nat),
    xs.length = as.length → (mkProofs total k xs as).length = xs.length := by
  intro xs
  induction xs with
  | nil => intro as k _; simp [mkProofs]
  | cons y ys ih =>
    intro as k h
    cases as with
    | nil => simp at h
    | cons b bs => simp at h; simp [mkProofs, ih bs (k + 1) h]

variable (H : Bytes → Bytes)

theorem proofs_length (items : List Bytes) : (proofs H items).length = items.length := by
  unfold proofs aunts
  rw [mkProofs_length]
  · simp
  · simp [auntsAux_length H items.length items (Nat.le_refl _)]

theorem proofs_getElem? (items : List Bytes) (i : Nat) (x : Bytes) (hx : items[i]? = some x) :
    ∃ as, (aunts H items)[i]? = some as ∧
      (proofs H items)[i]? = some ⟨items.length, i, leafHash H x, as⟩ := by
  have hi : i < items.length := (List.getElem?_eq_some_iff.mp hx).1
  have hl : (aunts H items).length = items.length := auntsAux_length H items.length items (Nat.le_refl _)
  have : i < (aunts H items).length := by omega
  refine ⟨(aunts H items)[i], by simp, ?_⟩
  unfold proofs
  have := mkProofs_getElem? items.length (items.map (leafHash H)) (aunts H items) 0 i (leafHash H x)
    ((aunts H items)[i]) (by simp [hx]) (by simp)
  simpa using this

/-- completeness of generated proofs, at the level of `verify` -/
theorem verify_generated (items : List Bytes) (i : Nat) (x : Bytes) (p : Proof)
    (hx : items[i]? = some x) (hp : (proofs H items)[i]? = some p) :
    p.total = items.length ∧ p.index = i ∧ verify H (root H items) p x = .ok := by
  obtain ⟨as, has, hp'⟩ := proofs_getElem? H items i x hx
  rw [hp'] at hp
  simp only [Option.some.injEq] at hp
  subst hp
  refine ⟨rfl, rfl, ?_⟩
  have hc := computeRev_aunts H items.length items (Nat.le_refl _) i x as hx has
  simp [verify, Proof.computeRootHash, computeHashFromAunts, hc, root]

/-- soundness of `verify` for the tree size it was made for, collision-extraction form -/
theorem verify_sound (hs : Nat) (hfix : ∀ x, (H x).length = hs) (items : List Bytes) (hne : items ≠ [])
    (p : Proof) (leaf : Bytes) (htot : p.total = items.length)
    (hv : verify H (root H items) p leaf = .ok) :
    items[p.index]? = some leaf ∨ Collision H := by
  unfold verify at hv
  split at hv
  · simp at hv
  · rename_i hlh
    split at hv
    · simp at hv
    · rename_i hroot
      have hlh : p.leafHash = leafHash H leaf := by simpa using hlh
      have hroot : (p.computeRootHash H).getD [] = root H items := by simpa using hroot
      obtain ⟨z, hz⟩ := rootAux_isHash H items.length items hne (Nat.le_refl _)
      by_cases h0 : hs = 0
      · right
        refine ⟨[], [0], by simp, ?_⟩
        have h1 := hfix []
        have h2 := hfix [0]
        rw [h0] at h1 h2
        rw [List.length_eq_zero_iff.mp h1, List.length_eq_zero_iff.mp h2]
      · cases hc : p.computeRootHash H with
        | none =>
          rw [hc] at hroot
          simp only [Option.getD_none] at hroot
          have : (root H items).length = hs := by unfold root; rw [hz]; exact hfix _
          rw [← hroot] at this
          simp at this; omega
        | some h =>
          rw [hc] at hroot
          simp only [Option.getD_some] at hroot
          subst hroot
          unfold Proof.computeRootHash computeHashFromAunts at hc
          rw [htot] at hc
          have hlen : p.leafHash.length = hs := by rw [hlh]; exact hfix _
          rcases computeRev_sound H hs hfix p.leafHash hlen _ items.length items p.index (Nat.le_refl _) hc with
            ⟨x, hx, hx2⟩ | hcol
          · rw [hlh] at hx2
            rcases leaf_inj H _ _ hx2 with h3 | hcol
            · left; rw [h3]; exact hx
            · exact Or.inr hcol
          · exact Or.inr hcol

/-! ### the part-set state machine -/

theorem countP_set_none {α} (l : List (Option α)) (i : Nat) (a : α) (h : l[i]? = some none) :
    (l.set i (some a)).countP (·.isSome) = l.countP (·.isSome) + 1 := by
  induction l generalizing i with
  | nil => simp at h
  | cons x xs ih =>
    cases i with
    | zero =>
      simp at h; subst h
      simp
    | succ j =>
      simp only [List.getElem?_cons_succ] at h
      simp only [List.set_cons_succ, List.countP_cons, ih j h]
      omega

/-- the invariant of a receiving part set for the item list `items` under root `hash` -/
structure Inv (items : List Bytes) (hash : Bytes) (ps : PartSet) : Prop where
  total : ps.total = items.length
  hash : ps.hash = hash
  len : ps.parts.length = items.length
  count : ps.count = ps.parts.countP (·.isSome)
  good : ∀ (i : Nat) (p : Part), ps.parts[i]? = some (some p) → p.index = i ∧ items[i]? = some p.bytes

theorem inv_newFromHeader (items : List Bytes) (hash : Bytes) :
    Inv items hash (newFromHeader items.length hash) := by
  refine ⟨rfl, rfl, by simp [newFromHeader], ?_, ?_⟩
  · simp [newFromHeader, List.countP_replicate]
  · intro i p h
    simp [newFromHeader, List.getElem?_replicate] at h

/-- `addPart` either leaves the set alone or stores `p` in the empty slot `p.index` -/
theorem addPart_cases (ps : PartSet) (p : Part) :
    ((addPart H ps p).1 = ps ∧ (addPart H ps p).2 ≠ .added) ∨
    ((addPart H ps p).2 = .added ∧ p.index < ps.total ∧ ¬ (∃ q, ps.parts[p.index]? = some (some q)) ∧
      p.proof.index = p.index ∧ p.proof.total = ps.total ∧ verify H ps.hash p.proof p.bytes = .ok ∧
      (addPart H ps p).1 = { ps with parts := ps.parts.set p.index (some p), count := ps.count + 1 }) := by
  unfold addPart
  split
  · left; simp
  · rename_i hidx
    split
    · left; simp
    · rename_i hslot
      split
      · left; simp
      · rename_i hpi
        split
        · left; simp
        · rename_i hv
          right
          refine ⟨rfl, by omega, ?_, ?_, ?_, ?_, rfl⟩
          · rintro ⟨q, hq⟩; exact hslot q hq
          · omega
          · omega
          · simpa using hv

theorem addPart_inv_core (items : List Bytes) (hash : Bytes) (ps : PartSet) (p : Part)
    (hinv : Inv items hash ps)
    (hb : (addPart H ps p).2 = .added → items[p.index]? = some p.bytes) :
    Inv items hash (addPart H ps p).1 := by
  rcases addPart_cases H ps p with ⟨h1, _⟩ | ⟨hadd, hidx, hslot, _, _, _, hnew⟩
  · rw [h1]; exact hinv
  · rw [hnew]
    have hlt : p.index < ps.parts.length := by rw [hinv.len, ← hinv.total]; exact hidx
    have hnone : ps.parts[p.index]? = some none := by
      cases hq : ps.parts[p.index]? with
      | none => rw [List.getElem?_eq_none_iff] at hq; omega
      | some s =>
        cases s with
        | none => rfl
        | some q => exact absurd ⟨q, hq⟩ hslot
    refine ⟨hinv.total, hinv.hash, by simp [hinv.len], ?_, ?_⟩
    · simp only
      rw [countP_set_none _ _ _ hnone, hinv.count]
    · intro i q hq
      simp only at hq
      by_cases hi : p.index = i
      · subst hi
        rw [List.getElem?_set_self hlt] at hq
        simp only [Option.some.injEq] at hq
        subst hq
        exact ⟨rfl, hb hadd⟩
      · rw [List.getElem?_set_ne hi] at hq
        exact hinv.good i q hq

theorem addPart_inv (hs : Nat) (hfix : ∀ x, (H x).length = hs) (items : List Bytes) (hne : items ≠ [])
    (ps : PartSet) (p : Part) (hinv : Inv items (root H items) ps) :
    Collision H ∨ Inv items (root H items) (addPart H ps p).1 := by
  rcases addPart_cases H ps p with ⟨h1, _⟩ | ⟨hadd, _, _, hpi, hpt, hv, _⟩
  · right; rw [h1]; exact hinv
  · rw [hinv.hash] at hv
    rw [hinv.total] at hpt
    rcases verify_sound H hs hfix items hne p.proof p.bytes hpt hv with hb | hcol
    · right
      rw [hpi] at hb
      exact addPart_inv_core H items _ ps p hinv (fun _ => hb)
    · exact Or.inl hcol

theorem run_inv (hs : Nat) (hfix : ∀ x, (H x).length = hs) (items : List Bytes) (hne : items ≠ []) :
    ∀ (seq : List Part) (ps : PartSet), Inv items (root H items) ps →
      Collision H ∨ Inv items (root H items) (run H ps seq) := by
  intro seq
  induction seq with
  | nil => intro ps h; exact Or.inr h
  | cons p rest ih =>
    intro ps h
    simp only [run, List.foldl_cons]
    rcases addPart_inv H hs hfix items hne ps p h with hc | h'
    · exact Or.inl hc
    · exact ih _ h'

theorem allBytes_of_good : ∀ (parts : List (Option Part)) (items : List Bytes),
    parts.length = items.length →
    (∀ i, i < parts.length → ∃ p, parts[i]? = some (some p) ∧ items[i]? = some p.bytes) →
    allBytes parts = some items := by
  intro parts
  induction parts with
  | nil => intro items hl _; cases items <;> simp_all [allBytes]
  | cons s rest ih =>
    intro items hl h
    cases items with
    | nil => simp at hl
    | cons x xs =>
      obtain ⟨p, hp, hx⟩ := h 0 (by simp)
      simp at hp hx
      subst hp; subst hx
      simp only [allBytes]
      rw [ih xs (by simpa using hl) (fun i hi => by
        obtain ⟨q, hq, hx⟩ := h (i + 1) (by simp; omega)
        exact ⟨q, by simpa using hq, by simpa using hx⟩)]
      rfl

/-- a complete set satisfying the invariant reads back exactly the items -/
theorem reader_of_inv (items : List Bytes) (hne : items ≠ []) (hash : Bytes) (ps : PartSet)
    (hinv : Inv items hash ps) (hc : isComplete ps = true) : reader ps = .ok (join items) := by
  have hcnt : ps.parts.countP (·.isSome) = ps.parts.length := by
    rw [← hinv.count, hinv.len, ← hinv.total]
    simpa [isComplete] using hc
  have hall := List.countP_eq_length.mp hcnt
  have hb : allBytes ps.parts = some items := by
    apply allBytes_of_good _ _ hinv.len
    intro i hi
    have hmem : ps.parts[i] ∈ ps.parts := List.getElem_mem hi
    have hsome := hall _ hmem
    cases hq : ps.parts[i] with
    | none => rw [hq] at hsome; simp at hsome
    | some q =>
      have hq' : ps.parts[i]? = some (some q) := by rw [List.getElem?_eq_getElem hi, hq]
      exact ⟨q, hq', (hinv.good i q hq').2⟩
  have hpne : ps.parts ≠ [] := by
    intro h
    have := hinv.len
    rw [h] at this
    cases items with
    | nil => exact hne rfl
    | cons _ _ => simp at this
  unfold reader
  simp [hc, hpne, hb]

/-! ### genuine parts are always addable; filled slots stay filled -/

def filled (ps : PartSet) (i : Nat) : Prop := ∃ q, ps.parts[i]? = some (some q)

theorem addPart_filled_mono (ps : PartSet) (p : Part) (i : Nat) (h : filled ps i) :
    filled (addPart H ps p).1 i := by
  rcases addPart_cases H ps p with ⟨h1, _⟩ | ⟨_, _, hslot, _, _, _, hnew⟩
  · rw [h1]; exact h
  · rw [hnew]
    obtain ⟨q, hq⟩ := h
    by_cases hi : p.index = i
    · subst hi; exact absurd ⟨q, hq⟩ hslot
    · exact ⟨q, by simp only; rw [List.getElem?_set_ne hi]; exact hq⟩

/-- the constant part of the state -/
def Shape (items : List Bytes) (hash : Bytes) (ps : PartSet) : Prop :=
  ps.total = items.length ∧ ps.hash = hash ∧ ps.parts.length = items.length

theorem addPart_shape (items : List Bytes) (hash : Bytes) (ps : PartSet) (p : Part)
    (h : Shape items hash ps) : Shape items hash (addPart H ps p).1 := by
  rcases addPart_cases H ps p with ⟨h1, _⟩ | ⟨_, _, _, _, _, _, hnew⟩
  · rw [h1]; exact h
  · rw [hnew]; exact ⟨h.1, h.2.1, by simp [h.2.2]⟩

/-- part `i` as made by the sender -/
def IsGenuine (items : List Bytes) (i : Nat) (g : Part) : Prop :=
  g.index = i ∧ items[i]? = some g.bytes ∧ (proofs H items)[i]? = some g.proof

/-- offering the genuine part `i`: it is added, or the slot is already taken -/
theorem addPart_genuine (items : List Bytes) (ps : PartSet) (i : Nat) (g : Part)
    (hsh : Shape items (root H items) ps) (hg : IsGenuine H items i g) :
    (addPart H ps g).2 = .added ∨ ((addPart H ps g).2 = .alreadyPresent ∧ filled ps i) := by
  obtain ⟨hgi, hgb, hgp⟩ := hg
  obtain ⟨htot, hpi, hv⟩ := verify_generated H items i g.bytes g.proof hgb hgp
  have hi : i < items.length := (List.getElem?_eq_some_iff.mp hgb).1
  unfold addPart
  rw [hgi, hsh.1]
  simp only [show ¬ (i ≥ items.length) by omega, if_false]
  cases hq : ps.parts[i]? with
  | none => rw [List.getElem?_eq_none_iff, hsh.2.2] at hq; omega
  | some s =>
    cases s with
    | some q => right; exact ⟨rfl, q, hq⟩
    | none =>
      left
      simp [hpi, htot, hsh.2.1, hv]

theorem addPart_genuine_filled (items : List Bytes) (ps : PartSet) (i : Nat) (g : Part)
    (hsh : Shape items (root H items) ps) (hg : IsGenuine H items i g) :
    filled (addPart H ps g).1 i := by
  have hi : i < items.length := (List.getElem?_eq_some_iff.mp hg.2.1).1
  rcases addPart_genuine H items ps i g hsh hg with hadd | ⟨_, hf⟩
  · rcases addPart_cases H ps g with ⟨_, h2⟩ | ⟨_, _, _, _, _, _, hnew⟩
    · exact absurd hadd h2
    · rw [hnew, hg.1]
      exact ⟨g, by simp only; rw [List.getElem?_set_self (by rw [hsh.2.2]; exact hi)]⟩
  · exact addPart_filled_mono H ps g i hf

theorem run_shape (items : List Bytes) (hash : Bytes) : ∀ (seq : List Part) (ps : PartSet),
    Shape items hash ps → Shape items hash (run H ps seq) := by
  intro seq
  induction seq with
  | nil => intro ps h; exact h
  | cons p rest ih => intro ps h; exact ih _ (addPart_shape H items hash ps p h)

theorem run_filled_mono : ∀ (seq : List Part) (ps : PartSet) (i : Nat), filled ps i →
    filled (run H ps seq) i := by
  intro seq
  induction seq with
  | nil => intro ps i h; exact h
  | cons p rest ih => intro ps i h; exact ih _ i (addPart_filled_mono H ps p i h)

/-- if the genuine part `i` occurs anywhere in the sequence, slot `i` is filled at the end -/
theorem run_filled_of_mem (items : List Bytes) : ∀ (seq : List Part) (ps : PartSet) (i : Nat) (g : Part),
    Shape items (root H items) ps → g ∈ seq → IsGenuine H items i g → filled (run H ps seq) i := by
  intro seq
  induction seq with
  | nil => intro ps i g _ hm; simp at hm
  | cons p rest ih =>
    intro ps i g hsh hm hg
    simp only [run, List.foldl_cons]
    rcases List.mem_cons.mp hm with heq | hm'
    · subst heq
      exact run_filled_mono H rest _ i (addPart_genuine_filled H items ps i g hsh hg)
    · exact ih _ i g (addPart_shape H items _ ps p hsh) hm' hg

/-- all slots filled + invariant ⇒ complete -/
theorem complete_of_all_filled (items : List Bytes) (hash : Bytes) (ps : PartSet)
    (hinv : Inv items hash ps) (hall : ∀ i, i < items.length → filled ps i) :
    isComplete ps = true := by
  have : ps.parts.countP (·.isSome) = ps.parts.length := by
    apply List.countP_eq_length.mpr
    intro s hs
    obtain ⟨i, hi, rfl⟩ := List.getElem_of_mem hs
    obtain ⟨q, hq⟩ := hall i (by rw [← hinv.len]; exact hi)
    rw [List.getElem?_eq_getElem hi] at hq
    simp only [Option.some.injEq] at hq
    rw [hq]; rfl
  simp [isComplete, hinv.count, this, hinv.len, hinv.total]

end KV.PartSet
