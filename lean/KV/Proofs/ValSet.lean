import KV.Proofs.ValSetArith
/-! list-level lemmas for C12: max/min folds, rescale window, centring, arg-max -/
namespace KV.ValSet
open KV.I64

/-- all priorities of the list lie in `[-B, B]` -/
def PrioBound (B : Int) (l : List Validator) : Prop := ∀ v ∈ l, -B ≤ v.prio ∧ v.prio ≤ B

theorem foldl_max_spec (l : List Validator) (init : Int) :
    init ≤ l.foldl (fun m v => if v.prio > m then v.prio else m) init ∧
    (∀ v ∈ l, v.prio ≤ l.foldl (fun m v => if v.prio > m then v.prio else m) init) ∧
    (l.foldl (fun m v => if v.prio > m then v.prio else m) init = init ∨
      ∃ v ∈ l, v.prio = l.foldl (fun m v => if v.prio > m then v.prio else m) init) := by
  induction l generalizing init with
  | nil => simp
  | cons x xs ih =>
    simp only [List.foldl_cons]
    by_cases hx : x.prio > init
    · simp only [if_pos hx]
      obtain ⟨h1, h2, h3⟩ := ih x.prio
      refine ⟨by omega, ?_, ?_⟩
      · intro v hv
        rcases List.mem_cons.mp hv with rfl | hv
        · exact h1
        · exact h2 v hv
      · rcases h3 with h3 | ⟨v, hv, h3⟩
        · right; exact ⟨x, List.mem_cons_self, h3.symm⟩
        · right; exact ⟨v, List.mem_cons_of_mem _ hv, h3⟩
    · simp only [if_neg hx]
      obtain ⟨h1, h2, h3⟩ := ih init
      refine ⟨h1, ?_, ?_⟩
      · intro v hv
        rcases List.mem_cons.mp hv with rfl | hv
        · omega
        · exact h2 v hv
      · rcases h3 with h3 | ⟨v, hv, h3⟩
        · left; exact h3
        · right; exact ⟨v, List.mem_cons_of_mem _ hv, h3⟩

theorem foldl_min_spec (l : List Validator) (init : Int) :
    l.foldl (fun m v => if v.prio < m then v.prio else m) init ≤ init ∧
    (∀ v ∈ l, l.foldl (fun m v => if v.prio < m then v.prio else m) init ≤ v.prio) ∧
    (l.foldl (fun m v => if v.prio < m then v.prio else m) init = init ∨
      ∃ v ∈ l, v.prio = l.foldl (fun m v => if v.prio < m then v.prio else m) init) := by
  induction l generalizing init with
  | nil => simp
  | cons x xs ih =>
    simp only [List.foldl_cons]
    by_cases hx : x.prio < init
    · simp only [if_pos hx]
      obtain ⟨h1, h2, h3⟩ := ih x.prio
      refine ⟨by omega, ?_, ?_⟩
      · intro v hv
        rcases List.mem_cons.mp hv with rfl | hv
        · exact h1
        · exact h2 v hv
      · rcases h3 with h3 | ⟨v, hv, h3⟩
        · right; exact ⟨x, List.mem_cons_self, h3.symm⟩
        · right; exact ⟨v, List.mem_cons_of_mem _ hv, h3⟩
    · simp only [if_neg hx]
      obtain ⟨h1, h2, h3⟩ := ih init
      refine ⟨h1, ?_, ?_⟩
      · intro v hv
        rcases List.mem_cons.mp hv with rfl | hv
        · omega
        · exact h2 v hv
      · rcases h3 with h3 | ⟨v, hv, h3⟩
        · left; exact h3
        · right; exact ⟨v, List.mem_cons_of_mem _ hv, h3⟩

theorem maxPrio_ge (l : List Validator) : ∀ v ∈ l, v.prio ≤ maxPrio l := (foldl_max_spec l minI64).2.1
theorem minPrio_le (l : List Validator) : ∀ v ∈ l, minPrio l ≤ v.prio := (foldl_min_spec l maxI64).2.1

/-- on a non-empty list of int64 values the maximum is attained -/
theorem maxPrio_mem (l : List Validator) (hne : l ≠ []) (hr : ∀ v ∈ l, InRange v.prio) :
    ∃ v ∈ l, v.prio = maxPrio l := by
  rcases (foldl_max_spec l minI64).2.2 with h | h
  · cases l with
    | nil => exact absurd rfl hne
    | cons x xs =>
      refine ⟨x, List.mem_cons_self, ?_⟩
      have h1 := maxPrio_ge (x :: xs) x List.mem_cons_self
      have h2 := (hr x List.mem_cons_self).1
      unfold maxPrio at *; omega
  · exact h

theorem minPrio_mem (l : List Validator) (hne : l ≠ []) (hr : ∀ v ∈ l, InRange v.prio) :
    ∃ v ∈ l, v.prio = minPrio l := by
  rcases (foldl_min_spec l maxI64).2.2 with h | h
  · cases l with
    | nil => exact absurd rfl hne
    | cons x xs =>
      refine ⟨x, List.mem_cons_self, ?_⟩
      have h1 := minPrio_le (x :: xs) x List.mem_cons_self
      have h2 := (hr x List.mem_cons_self).2
      unfold minPrio at *; omega
  · exact h

theorem minPrio_le_maxPrio (l : List Validator) (hne : l ≠ []) (hr : ∀ v ∈ l, InRange v.prio) :
    minPrio l ≤ maxPrio l := by
  obtain ⟨v, hv, _⟩ := maxPrio_mem l hne hr
  have := maxPrio_ge l v hv; have := minPrio_le l v hv; omega

/-- `computeMaxMinPriorityDiff` is `max − min` whenever that difference is an `int64` -/
theorem maxMinDiff_eq (l : List Validator) (hne : l ≠ []) (hr : ∀ v ∈ l, InRange v.prio)
    (hfit : maxPrio l - minPrio l ≤ maxI64) :
    maxMinDiff l = maxPrio l - minPrio l ∧ 0 ≤ maxMinDiff l := by
  have h := minPrio_le_maxPrio l hne hr
  have e : I64.sub (maxPrio l) (minPrio l) = maxPrio l - minPrio l :=
    I64.sub_exact _ _ (by unfold InRange minI64; unfold maxI64 at hfit; unfold maxI64; omega)
  unfold maxMinDiff
  simp only [e]
  split <;> omega

/-! ### rescale -/

/-- side conditions under which `RescalePriorities(D)` does not wrap -/
structure RescaleOK (D : Int) (l : List Validator) : Prop where
  ne : l ≠ []
  inRange : ∀ v ∈ l, InRange v.prio
  pos : 0 < D
  dfit : D ≤ maxI64
  fit : maxPrio l - minPrio l + D ≤ maxI64

theorem rescaleRatio_eq (D : Int) (l : List Validator) (h : RescaleOK D l) :
    rescaleRatio D l = (maxPrio l - minPrio l + D - 1) / D ∧ 0 ≤ maxPrio l - minPrio l := by
  obtain ⟨hne, hr, hD, hD2, hfit⟩ := h
  have hmm := minPrio_le_maxPrio l hne hr
  obtain ⟨e, h0⟩ := maxMinDiff_eq l hne hr (by omega)
  unfold rescaleRatio
  rw [e]
  have e1 : I64.add (maxPrio l - minPrio l) D = maxPrio l - minPrio l + D :=
    I64.add_exact _ _ (by unfold InRange minI64; unfold maxI64 at hfit hD2; unfold maxI64; omega)
  have e2 : I64.sub (maxPrio l - minPrio l + D) 1 = maxPrio l - minPrio l + D - 1 :=
    I64.sub_exact _ _ (by unfold InRange minI64; unfold maxI64 at hfit hD2; unfold maxI64; omega)
  rw [e1, e2]
  have hnn : 0 ≤ maxPrio l - minPrio l + D - 1 := by omega
  unfold I64.div
  rw [Int.tdiv_eq_ediv_of_nonneg hnn]
  refine ⟨wrap_of_inRange _ ?_, by omega⟩
  have h1 : 0 ≤ (maxPrio l - minPrio l + D - 1) / D := Int.ediv_nonneg hnn (by omega)
  have h2 : (maxPrio l - minPrio l + D - 1) / D ≤ maxPrio l - minPrio l + D - 1 :=
    Int.ediv_le_self _ hnn
  unfold InRange minI64; unfold maxI64 at hfit; unfold maxI64; omega

/-- **window** (list form): after `RescalePriorities(D)` any two priorities differ by at most `D` -/
theorem rescaleList_window (D : Int) (l : List Validator) (h : RescaleOK D l) :
    ∀ v ∈ rescaleList D l, ∀ w ∈ rescaleList D l, v.prio - w.prio ≤ D := by
  obtain ⟨er, hnn⟩ := rescaleRatio_eq D l h
  obtain ⟨hne, hr, hD, hD2, hfit⟩ := h
  obtain ⟨e, h0⟩ := maxMinDiff_eq l hne hr (by omega)
  intro v hv w hw
  unfold rescaleList at hv hw
  rw [if_neg (by omega)] at hv hw
  by_cases hd : maxMinDiff l > D
  · rw [if_pos hd] at hv hw
    obtain ⟨v0, hv0, rfl⟩ := List.mem_map.mp hv
    obtain ⟨w0, hw0, rfl⟩ := List.mem_map.mp hw
    simp only
    rw [e] at hd
    obtain ⟨c1, c2, c3⟩ := ceil_ratio (maxPrio l - minPrio l) D hD hd
    rw [er]
    have hrv := hr v0 hv0
    have hrw := hr w0 hw0
    have rpos : 0 < (maxPrio l - minPrio l + D - 1) / D := by omega
    have bv := tdiv_abs_le v0.prio _ 9223372036854775808 rpos
      (by unfold InRange minI64 at hrv; omega) (by unfold InRange maxI64 at hrv; omega)
    have bw := tdiv_abs_le w0.prio _ 9223372036854775808 rpos
      (by unfold InRange minI64 at hrw; omega) (by unfold InRange maxI64 at hrw; omega)
    have hvmax := maxPrio_ge l v0 hv0
    have hwmin := minPrio_le l w0 hw0
    have key := tdiv_window v0.prio w0.prio _ D rpos (by omega) (by omega)
    -- the wrapping division is exact: |p / r| ≤ |p| and r ≥ 2 excludes MinInt64 / -1
    have hv2 := tdiv_abs_le v0.prio _ 9223372036854775807 rpos
    have hw2 := tdiv_abs_le w0.prio _ 9223372036854775807 rpos
    have exv : I64.div v0.prio ((maxPrio l - minPrio l + D - 1) / D) =
        Int.tdiv v0.prio ((maxPrio l - minPrio l + D - 1) / D) := by
      unfold I64.div; apply wrap_of_inRange
      rcases tdiv_bounds v0.prio _ rpos with ⟨a0, a1, a2, a3⟩ | ⟨a0, a1, a2, a3⟩
      · have := @Int.tdiv_le_self v0.prio ((maxPrio l - minPrio l + D - 1) / D) a0
        unfold InRange minI64 maxI64 at *; omega
      · unfold InRange minI64 maxI64 at *; omega
    have exw : I64.div w0.prio ((maxPrio l - minPrio l + D - 1) / D) =
        Int.tdiv w0.prio ((maxPrio l - minPrio l + D - 1) / D) := by
      unfold I64.div; apply wrap_of_inRange
      rcases tdiv_bounds w0.prio _ rpos with ⟨a0, a1, a2, a3⟩ | ⟨a0, a1, a2, a3⟩
      · have := @Int.tdiv_le_self w0.prio ((maxPrio l - minPrio l + D - 1) / D) a0
        unfold InRange minI64 maxI64 at *; omega
      · unfold InRange minI64 maxI64 at *; omega
    rw [exv, exw]; exact key
  · rw [if_neg hd] at hv hw
    have := maxPrio_ge l v hv; have := minPrio_le l w hw; omega

/-! ### centring -/

theorem sumPrio_map_sub (l : List Validator) (a : Int) :
    sumPrio (l.map fun v => { v with prio := v.prio - a }) = sumPrio l - (l.length : Int) * a := by
  induction l with
  | nil => simp [sumPrio]
  | cons x xs ih =>
    unfold sumPrio at *
    simp only [List.map_cons, List.sum_cons, List.length_cons, ih]
    rw [Int.natCast_succ, Int.add_mul]; omega

/-- **centred** (specification form): after centring the priority sum is in `[0, n)` -/
theorem Spec.centre_sum (l : List Validator) (hne : l ≠ []) :
    0 ≤ sumPrio (Spec.centre l) ∧ sumPrio (Spec.centre l) < l.length := by
  unfold Spec.centre
  simp only [sumPrio_map_sub]
  have hn : (0 : Int) < l.length := by
    cases l with
    | nil => exact absurd rfl hne
    | cons x xs => simp only [List.length_cons]; omega
  have h1 := @Int.mul_ediv_self_le (sumPrio l) l.length (by omega)
  have h2 := @Int.lt_mul_ediv_self_add (sumPrio l) l.length hn
  omega

theorem sumPrio_bound (B : Int) (l : List Validator) (h : PrioBound B l) :
    -((l.length : Int) * B) ≤ sumPrio l ∧ sumPrio l ≤ (l.length : Int) * B := by
  induction l with
  | nil => simp [sumPrio]
  | cons x xs ih =>
    have hx := h x List.mem_cons_self
    have := ih (fun v hv => h v (List.mem_cons_of_mem _ hv))
    unfold sumPrio at *
    simp only [List.map_cons, List.sum_cons, List.length_cons]
    rw [Int.natCast_succ, Int.add_mul]; omega

theorem avgPrio_bound (B : Int) (l : List Validator) (hne : l ≠ []) (h : PrioBound B l) :
    -B ≤ avgPrio l ∧ avgPrio l ≤ B := by
  have hn : (0 : Int) < l.length := by
    cases l with
    | nil => exact absurd rfl hne
    | cons x xs => simp only [List.length_cons]; omega
  obtain ⟨s1, s2⟩ := sumPrio_bound B l h
  unfold avgPrio
  have h1 := @Int.mul_ediv_self_le (sumPrio l) l.length (by omega)
  have h2 := @Int.lt_mul_ediv_self_add (sumPrio l) l.length hn
  constructor
  · rcases Classical.em (sumPrio l / (l.length : Int) < -B) with hc | hc
    · exfalso
      have := Int.mul_le_mul_of_nonneg_left (a := sumPrio l / (l.length : Int) + 1) (b := -B)
        (c := (l.length : Int)) (by omega) (by omega)
      rw [Int.mul_add, Int.mul_one, Int.mul_neg] at this; omega
    · omega
  · rcases Classical.em (B < sumPrio l / (l.length : Int)) with hc | hc
    · exfalso
      have := Int.mul_le_mul_of_nonneg_left (a := B + 1) (b := sumPrio l / (l.length : Int))
        (c := (l.length : Int)) (by omega) (by omega)
      rw [Int.mul_add, Int.mul_one] at this; omega
    · omega

/-- with priorities in `[-B, B]`, `2B < 2^63`, the clipping subtraction of the average is exact -/
theorem shiftList_eq_spec (B : Int) (l : List Validator) (hne : l ≠ []) (h : PrioBound B l)
    (hB : 2 * B ≤ maxI64) : shiftList l = Spec.centre l := by
  obtain ⟨a1, a2⟩ := avgPrio_bound B l hne h
  unfold shiftList Spec.centre
  apply List.map_congr_left
  intro v hv
  obtain ⟨v1, v2⟩ := h v hv
  have e : safeSubClip v.prio (avgPrio l) = v.prio - avgPrio l := by
    apply safeSubClip_exact <;> (unfold InRange minI64 maxI64; unfold maxI64 at hB; omega)
  simp only [e]; rfl

end KV.ValSet
