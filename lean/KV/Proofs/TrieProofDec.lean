import KV.Proofs.TrieProofRlp
import KV.Proofs.TrieCanon
/-! Round trip of the node codec (property C07, part 4): decoding the encoding of a collapsed
normal-form node (`hasher.go` + `node_enc.go`) with `decodeNode` (`node.go`) gives back the node
with every large child replaced by its hash reference (`coll`). -/
namespace KV.Trie
open KV KV.Rlp

/-- how a child is referenced inside its parent's encoding -/
def refItem (H : Bytes → Bytes) (c : Node) : Item :=
  match c with
  | .short _ _ => ref H (item H c)
  | .full _ => ref H (item H c)
  | _ => item H c

theorem item_short (H : Bytes → Bytes) (k : Key) (c : Node) :
    item H (.short k c) = .list (.cons (.str (hexToCompact k)) (.cons (refItem H c) .nil)) := by
  cases c <;> rfl

theorem item_full (H : Bytes → Bytes) (cs : Nat → Node) :
    item H (.full cs) = .list (Items.ofList (((List.range 16).map fun i => refItem H (cs i)) ++
      [rawItem (cs 16)])) := by
  simp only [item]
  refine congrArg _ (congrArg _ (congrArg (· ++ _) ?_))
  apply List.map_congr_left
  intro i _
  unfold refItem
  cases cs i <;> rfl

/-- what `decodeRef` yields for the reference to child `c`, given the decoded form `cc` of `c` -/
def embed (H : Bytes → Bytes) (c cc : Node) : Node :=
  match c with
  | .short _ _ => if (enc (item H c)).length < 32 then cc else .hash (H (enc (item H c)))
  | .full _ => if (enc (item H c)).length < 32 then cc else .hash (H (enc (item H c)))
  | _ => cc

/-- slot 16 of a decoded full node: an empty value reads as "no value" -/
def slot16 : Node → Node
  | .value v => if v.length > 0 then .value v else .nil
  | _ => .nil

/-- the decoded image of a node's own encoding: same node, large children replaced by hash
references, small children embedded (recursively in decoded form) -/
def coll (H : Bytes → Bytes) : Node → Node
  | .nil => .nil
  | .value v => .value v
  | .hash h => .hash h
  | .short k c => .short k (embed H c (coll H c))
  | .full cs => .full (fun i =>
      if i < 16 then embed H (cs i) (coll H (cs i)) else if i = 16 then slot16 (cs 16) else .nil)

/-- every node payload fits the 64-bit lengths `lib/rlp` can represent -/
def EncOK (H : Bytes → Bytes) : Node → Prop
  | .short k c => Item.ok (item H (.short k c)) ∧ EncOK H c
  | .full cs => Item.ok (item H (.full cs)) ∧ ∀ i, EncOK H (cs i)
  | _ => True

theorem vkey_split : ∀ k : Key, VKey k → ∃ p, k = p ++ [16] ∧ Nibbles p := by
  intro k
  induction k with
  | nil => intro h; exact absurd h (by simp [VKey])
  | cons x k ih =>
    intro h
    by_cases hk : k = []
    · subst hk
      rw [vkey_single] at h; subst h
      exact ⟨[], rfl, fun _ hx => by cases hx⟩
    · rw [vkey_cons hk] at h
      obtain ⟨p, hp, hn⟩ := ih h.2
      refine ⟨x :: p, by simp [hp], ?_⟩
      intro y hy
      rcases List.mem_cons.1 hy with e | e
      · subst e; exact h.1
      · exact hn y e

theorem enc_list_length (xs : Items) : (encs xs).length + 1 ≤ (enc (.list xs)).length := by
  simp only [enc, List.length_append]
  have := header_length_pos 192 (encs xs).length
  omega

theorem encs_ofList_append (a b : List Item) :
    encs (Items.ofList (a ++ b)) = encs (Items.ofList a) ++ encs (Items.ofList b) := by
  induction a with
  | nil => simp [Items.ofList, encs]
  | cons x a ih => simp [Items.ofList, encs, ih]

theorem count_ofList (l : List Item) : Items.count (Items.ofList l) = l.length := by
  induction l with
  | nil => rfl
  | cons x l ih => simp [Items.ofList, Items.count, ih]

theorem ok_ofList {l : List Item} (h : Items.ok (Items.ofList l)) : ∀ x ∈ l, Item.ok x := by
  induction l with
  | nil => intro x hx; cases hx
  | cons y l ih =>
    simp only [Items.ofList, Items.ok] at h
    intro x hx
    rcases List.mem_cons.1 hx with e | e
    · subst e; exact h.1
    · exact ih h.2 x e

/-- `decodeRef` on the reference to a child, given the round trip of the child itself -/
theorem decodeRef_child (H : Bytes → Bytes) (hlen : ∀ x, (H x).length = 32) (c : Node)
    (hc : c = .nil ∨ Canon c) (hok : Item.ok (refItem H c))
    (hP : Canon c → ∀ fuel rest, 2 * (enc (item H c)).length ≤ fuel →
      decodeNode fuel (enc (item H c) ++ rest) = some (coll H c)) :
    ∀ fuel rest, 2 * (enc (refItem H c)).length + 1 ≤ fuel →
      decodeRef fuel (enc (refItem H c) ++ rest) = some (embed H c (coll H c), rest) := by
  intro fuel rest hf
  cases fuel with
  | zero => omega
  | succ f =>
    -- the two possible shapes of a non-nil child share the argument
    have big_or_small : ∀ (hcan : Canon c) (hshape : refItem H c = ref H (item H c))
        (hemb : embed H c (coll H c) =
          if (enc (item H c)).length < 32 then coll H c else .hash (H (enc (item H c))))
        (hlist : ∃ xs, item H c = .list xs),
        decodeRef (f + 1) (enc (refItem H c) ++ rest) = some (embed H c (coll H c), rest) := by
      intro hcan hshape hemb hlist
      obtain ⟨xs, hxs⟩ := hlist
      rw [hemb]
      by_cases hsm : (enc (item H c)).length < 32
      · have hsm' := hsm
        rw [hxs] at hsm'
        have hri : refItem H c = .list xs := by rw [hshape]; unfold ref; simp [hxs, hsm']
        have hokl : (encs xs).length < 2 ^ 64 := by
          rw [hri] at hok; simp only [Item.ok] at hok; exact hok.2
        have hs := rawSplit_list xs rest hokl
        rw [hri] at hf ⊢
        have hdn := hP hcan f rest (by rw [hxs]; omega)
        rw [hxs] at hdn
        have hsz : ¬ (enc (Item.list xs) ++ rest).length - rest.length > 32 := by
          simp only [List.length_append]; omega
        simp only [decodeRef, hs, if_true, hsz, if_false, hdn, hsm]
      · have hri : refItem H c = .str (H (enc (item H c))) := by rw [hshape]; simp [ref, hsm]
        have h32 := hlen (enc (item H c))
        obtain ⟨k, _, hk1, hs⟩ := rawSplit_str (H (enc (item H c))) rest (by rw [h32]; decide)
        have hk : k = 1 := hk1 (by omega)
        subst hk
        rw [hri]
        simp [decodeRef, hs, h32, hsm]
    rcases hc with rfl | hcan
    · -- nil child: the empty string
      obtain ⟨k, _, hk1, hs⟩ := rawSplit_str [] rest (by simp)
      have hk : k = 1 := hk1 (by simp)
      subst hk
      have : refItem H .nil = .str [] := rfl
      rw [this]
      simp [decodeRef, hs, embed, coll]
    · cases c with
      | nil => exact absurd hcan (by simp [Canon])
      | value v => exact absurd hcan (by simp [Canon])
      | hash h => exact absurd hcan (by simp [Canon])
      | short k c' => exact big_or_small hcan rfl rfl ⟨_, item_short H k c'⟩
      | full cs => exact big_or_small hcan rfl rfl ⟨_, item_full H cs⟩

/-- the loop over the first 16 children in `decodeFull` -/
theorem decodeRefs_list (H : Bytes → Bytes) (hlen : ∀ x, (H x).length = 32) : ∀ (l : List Node),
    (∀ c ∈ l, (c = .nil ∨ Canon c) ∧ Item.ok (refItem H c) ∧
      (Canon c → ∀ fuel rest, 2 * (enc (item H c)).length ≤ fuel →
        decodeNode fuel (enc (item H c) ++ rest) = some (coll H c))) →
    ∀ fuel rest, 2 * (encs (Items.ofList (l.map (refItem H)))).length + 2 ≤ fuel →
      decodeRefs fuel l.length (encs (Items.ofList (l.map (refItem H))) ++ rest) =
        some (l.map (fun c => embed H c (coll H c)), rest) := by
  intro l
  induction l with
  | nil =>
    intro _ fuel rest hf
    cases fuel with
    | zero => omega
    | succ f => simp [decodeRefs, Items.ofList, encs]
  | cons c l ih =>
    intro hall fuel rest hf
    cases fuel with
    | zero => omega
    | succ g =>
      obtain ⟨hc, hok, hP⟩ := hall c (by simp)
      have hpos := enc_length_pos (refItem H c)
      simp only [List.map_cons, Items.ofList, encs, List.length_append] at hf ⊢
      have h1 := decodeRef_child H hlen c hc hok hP g
        (encs (Items.ofList (l.map (refItem H))) ++ rest) (by omega)
      have h2 := ih (fun c' hc' => hall c' (by simp [hc'])) g rest (by omega)
      simp only [List.length_cons, decodeRefs, List.append_assoc, h1, h2]

theorem csOfList_spec (g : Node → Node) (cs : Nat → Node) (s : Node) :
    csOfList (((List.range 16).map cs).map g ++ [s]) =
      fun i => if i < 16 then g (cs i) else if i = 16 then s else .nil := by
  funext i
  unfold csOfList
  by_cases h : i < 16
  · simp [h, List.getD_eq_getElem?_getD, List.getElem?_append_left, List.getElem?_map,
      List.getElem?_range]
  · by_cases h2 : i = 16
    · subst h2
      simp [List.getD_eq_getElem?_getD, List.getElem?_append_right]
    · have h3 : 17 ≤ i := by omega
      simp [h, h2, List.getD_eq_getElem?_getD, List.getElem?_append_right, List.getElem?_eq_none,
        h3]

/-- NODE CODEC ROUND TRIP: `decodeNode` applied to the encoding of a normal-form node (followed by
arbitrary bytes) returns the node with its large children replaced by hash references -/
theorem decodeNode_enc (H : Bytes → Bytes) (hlen : ∀ x, (H x).length = 32) : ∀ m, Canon m →
    EncOK H m → ∀ fuel rest, 2 * (enc (item H m)).length ≤ fuel →
      decodeNode fuel (enc (item H m) ++ rest) = some (coll H m) := by
  intro m
  induction m with
  | nil => intro h; exact absurd h (by simp [Canon])
  | value v => intro h; exact absurd h (by simp [Canon])
  | hash h => intro h; exact absurd h (by simp [Canon])
  | short sk c ih =>
    intro hcan hok fuel rest hf
    obtain ⟨hokm, hokc⟩ := hok
    have hitem := item_short H sk c
    rw [hitem] at hf hokm ⊢
    simp only [Item.ok, Items.ok] at hokm
    obtain ⟨⟨hok1, hok2, _⟩, hoklen⟩ := hokm
    have hlenl := enc_list_length (.cons (.str (hexToCompact sk)) (.cons (refItem H c) .nil))
    have hne : enc (Item.list (.cons (.str (hexToCompact sk)) (.cons (refItem H c) .nil))) ++ rest ≠ [] := by
      intro h; simp at h; exact enc_ne_nil _ h.1
    have hp1 := enc_length_pos (Item.str (hexToCompact sk))
    have hp2 := enc_length_pos (refItem H c)
    cases fuel with
    | zero => omega
    | succ f =>
      have hsl := rawSplit_list _ rest hoklen
      have hcv := countValues_encs (.cons (.str (hexToCompact sk)) (.cons (refItem H c) .nil))
        ((encs (.cons (.str (hexToCompact sk)) (.cons (refItem H c) .nil))).length + 1)
        ⟨hok1, hok2, trivial⟩ (by omega)
      obtain ⟨k1, hk1, _, hs1⟩ := rawSplit_str (hexToCompact sk) (enc (refItem H c) ++ [])
        (by simpa [Item.ok] using hok1)
      simp only [encs] at hlenl hf hcv hs1
      simp only [List.length_append] at hlenl hf
      simp only [decodeNode, hne, if_false, splitList, hsl, if_true, hcv, Items.count, encs,
        splitString, hs1, hk1]
      rcases hcan with ⟨hv, v, rfl⟩ | ⟨_, hn, ⟨cs, rfl⟩, hcc⟩
      · obtain ⟨p, rfl, hp⟩ := vkey_split sk hv
        obtain ⟨k2, hk2, _, hs2⟩ := rawSplit_str v [] (by
          have : refItem H (.value v) = .str v := rfl
          rw [this] at hok2; simpa [Item.ok] using hok2)
        have : refItem H (.value v) = .str v := rfl
        rw [this]
        rw [List.append_nil] at hs2
        simp [compact_roundtrip_term p hp, hasTerm_concat, hs2, hk2, coll, embed]
      · have hdr := decodeRef_child H hlen (.full cs) (Or.inr hcc) hok2
          (fun _ fuel rest h => ih hcc hokc fuel rest h) f [] (by omega)
        rw [List.append_nil] at hdr
        simp [compact_roundtrip_noterm sk hn, hasTerm_nibbles sk hn, hdr, coll]
  | full cs ih =>
    intro hcan hok fuel rest hf
    obtain ⟨hokm, hokc⟩ := hok
    have hitem := item_full H cs
    rw [hitem] at hf hokm ⊢
    simp only [Item.ok] at hokm
    obtain ⟨hoks, hoklen⟩ := hokm
    have hmem := ok_ofList hoks
    have hlenl := enc_list_length (Items.ofList (((List.range 16).map fun i => refItem H (cs i)) ++
      [rawItem (cs 16)]))
    have hne : enc (Item.list (Items.ofList (((List.range 16).map fun i => refItem H (cs i)) ++
      [rawItem (cs 16)]))) ++ rest ≠ [] := by
      intro h; simp at h; exact enc_ne_nil _ h.1
    have hp2 := enc_length_pos (rawItem (cs 16))
    -- the 16 children as a list
    have hmap : ((List.range 16).map fun i => refItem H (cs i)) =
        ((List.range 16).map cs).map (refItem H) := by simp [List.map_map]
    have hall : ∀ c ∈ (List.range 16).map cs, (c = .nil ∨ Canon c) ∧ Item.ok (refItem H c) ∧
        (Canon c → ∀ fuel rest, 2 * (enc (item H c)).length ≤ fuel →
          decodeNode fuel (enc (item H c) ++ rest) = some (coll H c)) := by
      intro c hc
      obtain ⟨i, hi, rfl⟩ := List.mem_map.1 hc
      have hi16 : i < 16 := List.mem_range.1 hi
      refine ⟨hcan.1 i hi16, hmem _ (by simp; exact Or.inl ⟨i, hi16, rfl⟩), ?_⟩
      intro hc' fuel rest h
      exact ih i hc' (hokc i) fuel rest h
    obtain ⟨val, hraw, hslot⟩ : ∃ val, rawItem (cs 16) = .str val ∧
        slot16 (cs 16) = (if val.length > 0 then Node.value val else Node.nil) := by
      rcases hcan.2.1 with e | ⟨v, e⟩
      · exact ⟨[], by rw [e]; rfl, by rw [e]; rfl⟩
      · exact ⟨v, by rw [e]; rfl, by rw [e]; rfl⟩
    have hE : encs (Items.ofList (((List.range 16).map fun i => refItem H (cs i)) ++
        [rawItem (cs 16)])) =
        encs (Items.ofList (((List.range 16).map cs).map (refItem H))) ++ enc (Item.str val) := by
      rw [encs_ofList_append, hmap, hraw]; simp [Items.ofList, encs]
    have hokraw : val.length < 2 ^ 64 := by
      have := hmem (rawItem (cs 16)) (by simp)
      rw [hraw] at this; simpa [Item.ok] using this
    have hpv := enc_length_pos (Item.str val)
    cases fuel with
    | zero => omega
    | succ f =>
      have hsl := rawSplit_list _ rest hoklen
      have hcv := countValues_encs _ ((encs (Items.ofList (((List.range 16).map fun i =>
        refItem H (cs i)) ++ [rawItem (cs 16)]))).length + 1) hoks (by omega)
      rw [count_ofList] at hcv
      have h17 : (((List.range 16).map fun i => refItem H (cs i)) ++ [rawItem (cs 16)]).length = 17 := by
        simp
      rw [h17] at hcv
      have hdrs := decodeRefs_list H hlen ((List.range 16).map cs) hall f (enc (Item.str val)) (by
        rw [hE] at hlenl; simp only [List.length_append] at hlenl; omega)
      have h16 : ((List.range 16).map cs).length = 16 := by simp
      rw [h16, ← hE] at hdrs
      obtain ⟨k2, hk2, _, hs2⟩ := rawSplit_str val [] hokraw
      rw [List.append_nil] at hs2
      simp only [decodeNode, hne, if_false, splitList, hsl, if_true, hcv, hdrs, splitString, hs2, hk2]
      rw [csOfList_spec (fun c => embed H c (coll H c)) cs]
      simp only [coll, hslot]

end KV.Trie
