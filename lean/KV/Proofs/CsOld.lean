import KV.Props.C01Cs
/-!
# `CsOld` — the node model under the EARLIER rules (regression only)

`Rule` selects which of the three repairs of `consensus/state.go` are in force:

* `release` — F36: `enterNewRound` releases a lock that a polka of a round in `(lockedRound, round]`
  has overtaken (`Cs.releaseStale`);
* `nrGuard` — F37: `enterNewRound` returns in the commit step;
* `pcGuard` — F37 (second guard): `enterPrecommit` returns in the commit step.

`enterNewRoundR`, `enterPrecommitR` are the two functions under a rule; `afterBlockR`, `addBlockR`,
`prevoteSwitchR`, `afterPrevoteR`, `afterPrecommitR`, `addVoteR`, `handleTimeoutR`, `stepR`, `runR`
their callers, `gstepR` / `grunR` / `GOkSR` the network.  `Rule.now` is the node model `Cs.step`
(`stepR_now`); `Rule.old` (nothing), `Rule.f36only`, `Rule.f37a` (F36 + the `enterNewRound` guard
only) are used by the regression theorems of `KV/Props/C04Net.lean` and `KV/Props/C04Cs.lean`:
the old rules livelock / forget the commit / sign twice on inputs on which `Cs.step` is fine.
Definitions only.  Core Lean only.
-/
namespace KV.Cs

structure Rule where
  release : Bool
  nrGuard : Bool
  pcGuard : Bool
  deriving DecidableEq, Repr

/-- the code before F36 / F37 -/
def Rule.old : Rule := ⟨false, false, false⟩
/-- F36 only -/
def Rule.f36only : Rule := ⟨true, false, false⟩
/-- F36 and the `enterNewRound` guard of F37, without the `enterPrecommit` guard -/
def Rule.f37a : Rule := ⟨true, true, false⟩
/-- the repaired code: `Cs.step` -/
def Rule.now : Rule := ⟨true, true, true⟩

def enterNewRoundR (R : Rule) (cfg : Config) (nb : Option Nat) (h r : Nat) (σ : State) : State :=
  if σ.height ≠ h ∨ r < σ.round ∨ (σ.round = r ∧ σ.step ≠ .newHeight) then σ
  else if R.nrGuard && σ.step == .commit then σ
  else
    let σ3 := if R.release then releaseStale cfg (newRoundPrep cfg r σ) else newRoundPrep cfg r σ
    if cfg.waitTxs && r == 1 then
      if cfg.emptyInterval then schedule h r .newRound σ3 else σ3
    else enterPropose cfg nb h r σ3

def enterPrecommitR (R : Rule) (cfg : Config) (h r : Nat) (σ : State) : State :=
  if σ.height ≠ h ∨ r < σ.round ∨ (σ.round = r ∧ Step.precommit.toNat ≤ σ.step.toNat) then σ
  else if R.pcGuard && σ.step == .commit then σ
  else { doPrecommit cfg r σ with round := r, step := .precommit }

def afterBlockR (R : Rule) (cfg : Config) (h : Nat) (σ : State) : State :=
  if σ.step.toNat ≤ Step.propose.toNat && isProposalComplete cfg σ then
    let σ3 := enterPrevote cfg h σ.round σ
    if (maj23 cfg.powers (σ.slots .prevote σ.height σ.round)).isSome then enterPrecommitR R cfg h σ3.round σ3 else σ3
  else if σ.step == .commit then tryFinalizeCommit cfg h σ
  else σ

def addBlockR (R : Rule) (cfg : Config) (h id : Nat) (ok dec : Bool) (σ : State) : State :=
  if σ.height ≠ h then σ
  else
    match σ.parts with
    | none => σ
    | some (pid, done) =>
      if pid != id || done then σ
      else if !dec then { σ with parts := some (id, true) }
      else afterBlockR R cfg h (storeBlock cfg ⟨id, ok⟩ σ)

def prevoteSwitchR (R : Rule) (cfg : Config) (nb : Option Nat) (h vr : Nat) (m : Option Target) (any : Bool)
    (σ : State) : State :=
  if σ.round < vr && any then enterNewRoundR R cfg nb h vr σ
  else if σ.round == vr && Step.prevote.toNat ≤ σ.step.toNat then
    match m with
    | some bid =>
      if isProposalComplete cfg σ || bid == none then enterPrecommitR R cfg h vr σ
      else if any then enterPrevoteWait h vr σ
      else σ
    | none => if any then enterPrevoteWait h vr σ else σ
  else
    match σ.proposal with
    | some p =>
      if 1 ≤ p.pol && p.pol == vr then
        if isProposalComplete cfg σ then enterPrevote cfg h σ.round σ else σ
      else σ
    | none => σ

def afterPrevoteR (R : Rule) (cfg : Config) (nb : Option Nat) (vr : Nat) (σ : State) : State :=
  let pv := σ.slots .prevote σ.height vr
  let m := maj23 cfg.powers pv
  prevoteSwitchR R cfg nb σ.height vr m (hasAny cfg.powers pv) (polkaUpdate vr m σ)

def afterPrecommitR (R : Rule) (cfg : Config) (nb : Option Nat) (vr : Nat) (σ : State) : State :=
  let h := σ.height
  let pc := σ.slots .precommit h vr
  match maj23 cfg.powers pc with
  | some bid =>
    let σ1 := enterNewRoundR R cfg nb h vr σ
    let σ2 := enterPrecommitR R cfg h vr σ1
    match bid with
    | some _ => enterCommit cfg h vr σ2
    | none => enterPrecommitWait h vr σ2
  | none =>
    if σ.round ≤ vr && hasAny cfg.powers pc then
      enterPrecommitWait h vr (enterNewRoundR R cfg nb h vr σ)
    else σ

def addVoteR (R : Rule) (cfg : Config) (nb : Option Nat) (peer idx : Nat) (t : VType) (h r : Nat) (tgt : Target)
    (sigok : Bool) (σ : State) : State :=
  if h + 1 == σ.height && t == .precommit then σ
  else if h ≠ σ.height then σ
  else
    match ensureRound cfg peer r σ with
    | none => σ
    | some σ1 =>
      if !sigok || !(decide (idx < n cfg)) then σ1
      else
        match (σ1.slots t h r)[idx]? with
        | some none =>
          let σ2 := { σ1 with votes := σ1.votes.map (setSlot t idx tgt h r), added := true }
          match t with
          | .prevote => afterPrevoteR R cfg nb r σ2
          | .precommit => afterPrecommitR R cfg nb r σ2
        | _ => σ1

def handleTimeoutR (R : Rule) (cfg : Config) (nb : Option Nat) (h r : Nat) (s : Step) (σ : State) : State :=
  if h ≠ σ.height ∨ r < σ.round ∨ (r = σ.round ∧ s.toNat < σ.step.toNat) then σ
  else
    match s with
    | .newHeight => enterNewRoundR R cfg nb h 1 σ
    | .newRound => enterPropose cfg nb h 1 σ
    | .propose => enterPrevote cfg h r σ
    | .prevoteWait => enterPrecommitR R cfg h r σ
    | .precommitWait => enterNewRoundR R cfg nb h (r + 1) (enterPrecommitR R cfg h r σ)
    | _ => panic σ

/-- `Cs.step` under the rule `R` -/
def stepR (R : Rule) (cfg : Config) (σ : State) (nb : Option Nat) (i : Input) : State :=
  if σ.halted then σ
  else
    let σ := { σ with added := false }
    match i with
    | .proposal src sigok h r pol id => setProposal cfg src sigok h r pol id σ
    | .block h id ok dec => addBlockR R cfg h id ok dec σ
    | .vote peer idx t h r tgt sigok => addVoteR R cfg nb peer idx t h r tgt sigok σ
    | .timeout h r s => handleTimeoutR R cfg nb h r s σ

def runR (R : Rule) (cfg : Config) (σ : State) : List (Option Nat × Input) → State
  | [] => σ
  | (nb, i) :: rest => runR R cfg (stepR R cfg σ nb i) rest

/-- the code before the F36 / F37 fixes -/
abbrev stepOld := stepR Rule.old
abbrev runOld := runR Rule.old

/-! ### `Rule.now` is the node model -/

theorem enterNewRoundR_now (cfg : Config) (nb : Option Nat) (h r : Nat) (σ : State) :
    enterNewRoundR Rule.now cfg nb h r σ = enterNewRound cfg nb h r σ := by
  unfold enterNewRoundR enterNewRound Rule.now
  simp

theorem enterPrecommitR_now (cfg : Config) (h r : Nat) (σ : State) :
    enterPrecommitR Rule.now cfg h r σ = enterPrecommit cfg h r σ := by
  unfold enterPrecommitR enterPrecommit Rule.now
  simp

theorem afterBlockR_now (cfg : Config) (h : Nat) (σ : State) : afterBlockR Rule.now cfg h σ = afterBlock cfg h σ := by
  unfold afterBlockR afterBlock
  simp only [enterPrecommitR_now]
  all_goals rfl

theorem addBlockR_now (cfg : Config) (h id : Nat) (ok dec : Bool) (σ : State) :
    addBlockR Rule.now cfg h id ok dec σ = addBlock cfg h id ok dec σ := by
  unfold addBlockR addBlock
  simp only [afterBlockR_now]
  all_goals rfl

theorem prevoteSwitchR_now (cfg : Config) (nb : Option Nat) (h vr : Nat) (m : Option Target) (any : Bool)
    (σ : State) : prevoteSwitchR Rule.now cfg nb h vr m any σ = prevoteSwitch cfg nb h vr m any σ := by
  unfold prevoteSwitchR prevoteSwitch
  simp only [enterNewRoundR_now, enterPrecommitR_now]
  all_goals rfl

theorem afterPrevoteR_now (cfg : Config) (nb : Option Nat) (vr : Nat) (σ : State) :
    afterPrevoteR Rule.now cfg nb vr σ = afterPrevote cfg nb vr σ := by
  unfold afterPrevoteR afterPrevote
  simp only [prevoteSwitchR_now]
  all_goals rfl

theorem afterPrecommitR_now (cfg : Config) (nb : Option Nat) (vr : Nat) (σ : State) :
    afterPrecommitR Rule.now cfg nb vr σ = afterPrecommit cfg nb vr σ := by
  unfold afterPrecommitR afterPrecommit
  simp only [enterNewRoundR_now, enterPrecommitR_now]
  all_goals rfl

theorem addVoteR_now (cfg : Config) (nb : Option Nat) (peer idx : Nat) (t : VType) (h r : Nat) (tgt : Target)
    (sigok : Bool) (σ : State) :
    addVoteR Rule.now cfg nb peer idx t h r tgt sigok σ = addVote cfg nb peer idx t h r tgt sigok σ := by
  unfold addVoteR addVote
  simp only [afterPrevoteR_now, afterPrecommitR_now]
  all_goals rfl

theorem handleTimeoutR_now (cfg : Config) (nb : Option Nat) (h r : Nat) (s : Step) (σ : State) :
    handleTimeoutR Rule.now cfg nb h r s σ = handleTimeout cfg nb h r s σ := by
  unfold handleTimeoutR handleTimeout
  simp only [enterNewRoundR_now, enterPrecommitR_now]
  all_goals rfl

/-- the rule `Rule.now` is the node model `Cs.step` -/
theorem stepR_now (cfg : Config) (σ : State) (nb : Option Nat) (i : Input) :
    stepR Rule.now cfg σ nb i = step cfg σ nb i := by
  unfold stepR step
  simp only [addBlockR_now, addVoteR_now, handleTimeoutR_now]
  all_goals rfl

end KV.Cs

namespace KV.Props.C01Cs
open KV.Cs KV.Agree KV.Props.C03

def gstepR (R : Rule) (N : Net) (g : GState) (s : GStep) : GState :=
  let σ := g.st s.1
  let σ' := stepR R (N.cfg s.1) σ s.2.1 s.2.2
  { st := fun j => if j = s.1 then σ' else g.st j,
    tr := g.tr ++ delivered N.F s.2.2 ++ (emitted σ σ').filterMap (evOf s.1) }

def grunR (R : Rule) (N : Net) (g : GState) : List GStep → GState
  | [] => g
  | s :: rest => grunR R N (gstepR R N g s) rest

/-- as `GOkS`, over the step of rule `R` -/
def GOkSR (R : Rule) (N : Net) : GState → List GStep → Prop
  | _, [] => True
  | g, s :: rest =>
    (N.F s.1 = false ∧ SchedOk (g.st s.1) s.2.2 ∧ Auth N g.tr s.2.2) ∧ GOkSR R N (gstepR R N g s) rest

instance decGOkSR (R : Rule) (N : Net) : (g : GState) → (steps : List GStep) → Decidable (GOkSR R N g steps)
  | _, [] => isTrue trivial
  | g, s :: rest =>
    have := decGOkSR R N (gstepR R N g s) rest
    by unfold GOkSR; exact inferInstance

abbrev grunOld := grunR Rule.old
abbrev GOkSOld := GOkSR Rule.old

end KV.Props.C01Cs
