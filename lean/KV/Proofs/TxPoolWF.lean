import KV.Proofs.TxPoolList
/-! Well-formedness of `TxList` (nonce-sorted, caps dominate members) is preserved by every list
operation; sub-list facts about `Filter`/`Forward`.  Used by `KV/Props/C17.lean` (theorems 1–4)
and by the pool invariants in `KV/Proofs/TxPoolInv*.lean`. -/
namespace KV.TxPool
open TxList

/-- what every reachable list satisfies -/
def TxList.WF (l : TxList) : Prop := Sorted l.txs ∧ Bounded l

theorem wf_new (strict : Bool) : (TxList.new strict).WF := by
  simp [TxList.WF, TxList.new, Sorted, Bounded]

theorem bounded_sub {l l' : TxList} (hb : Bounded l) (hs : ∀ t ∈ l'.txs, t ∈ l.txs)
    (hc : l.costcap ≤ l'.costcap) (hg : l.gascap ≤ l'.gascap) : Bounded l' := by
  intro t ht
  have := hb t (hs t ht)
  omega

theorem bounded_put {l : TxList} (t : Tx) (hb : Bounded l) :
    Bounded { l with txs := put t l.txs, costcap := max l.costcap t.cost, gascap := max l.gascap t.gas } := by
  intro x hx
  simp only at hx ⊢
  rcases mem_put hx with hx | hx
  · subst hx; omega
  · have := hb x hx; omega

theorem wf_add (l : TxList) (t : Tx) (bump : Nat) (h : l.WF) : (l.add t bump).1.WF := by
  obtain ⟨hs, hb⟩ := h
  unfold TxList.add
  simp only
  split
  · split
    · exact ⟨put_sorted hs, bounded_put t hb⟩
    · exact ⟨hs, hb⟩
  · exact ⟨put_sorted hs, bounded_put t hb⟩

theorem wf_forward (l : TxList) (th : Nat) (h : l.WF) : (l.forward th).1.WF := by
  obtain ⟨hs, hb⟩ := h
  refine ⟨sorted_filter _ hs, bounded_sub hb ?_ (Nat.le_refl _) (Nat.le_refl _)⟩
  intro t ht
  exact List.filter_sublist.subset ht

theorem wf_cap (l : TxList) (k : Nat) (h : l.WF) : (l.cap k).1.WF := by
  obtain ⟨hs, hb⟩ := h
  unfold TxList.cap
  split
  · exact ⟨hs, hb⟩
  · refine ⟨sorted_sublist (List.take_sublist _ _) hs, bounded_sub hb ?_ (Nat.le_refl _) (Nat.le_refl _)⟩
    intro t ht
    exact List.mem_of_mem_take ht

theorem wf_remove (l : TxList) (n : Nat) (h : l.WF) : (l.remove n).1.WF := by
  obtain ⟨hs, hb⟩ := h
  unfold TxList.remove
  split
  · exact ⟨hs, hb⟩
  · split
    · refine ⟨sorted_filter _ (sorted_filter _ hs), bounded_sub hb ?_ (Nat.le_refl _) (Nat.le_refl _)⟩
      intro t ht
      exact List.filter_sublist.subset (List.filter_sublist.subset ht)
    · refine ⟨sorted_filter _ hs, bounded_sub hb ?_ (Nat.le_refl _) (Nat.le_refl _)⟩
      intro t ht
      exact List.filter_sublist.subset ht

theorem wf_ready (l : TxList) (start : Nat) (h : l.WF) : (l.ready start).1.WF := by
  obtain ⟨hs, hb⟩ := h
  unfold TxList.ready
  split
  · exact ⟨hs, hb⟩
  · split
    · exact ⟨hs, hb⟩
    · rename_i t ts heq _
      have happ := run_append t.nonce l.txs
      refine ⟨sorted_sublist ?_ hs, bounded_sub hb ?_ (Nat.le_refl _) (Nat.le_refl _)⟩
      · simp only
        have : ((run t.nonce l.txs).2).Sublist ((run t.nonce l.txs).1 ++ (run t.nonce l.txs).2) :=
          List.sublist_append_right _ _
        rwa [happ] at this
      · intro x hx
        simp only at hx
        rw [← happ]
        exact List.mem_append_right _ hx

theorem not_unpayable {c g : Nat} {t : Tx} (h : (!unpayable c g t) = true) :
    t.cost ≤ c ∧ t.gas ≤ g := by
  simp [unpayable] at h
  omega

theorem wf_filter (l : TxList) (c g : Nat) (h : l.WF) : (l.filter c g).1.WF := by
  obtain ⟨hs, hb⟩ := h
  unfold TxList.filter
  split
  · exact ⟨hs, hb⟩
  · simp only
    split
    · refine ⟨sorted_filter _ hs, ?_⟩
      intro t ht
      simp only [List.mem_filter] at ht
      exact not_unpayable ht.2
    · split
      · refine ⟨sorted_filter _ (sorted_filter _ hs), ?_⟩
        intro t ht
        simp only [List.mem_filter] at ht
        exact not_unpayable ht.1.2
      · refine ⟨sorted_filter _ hs, ?_⟩
        intro t ht
        simp only [List.mem_filter] at ht
        exact not_unpayable ht.2

theorem filter_sublist_txs (l : TxList) (c g : Nat) : (l.filter c g).1.txs.Sublist l.txs := by
  unfold TxList.filter
  split
  · exact List.Sublist.refl _
  · simp only
    split
    · exact List.filter_sublist
    · split
      · exact List.Sublist.trans List.filter_sublist List.filter_sublist
      · exact List.filter_sublist

/-- `Forward th` leaves no nonce below `th` and removes nothing else -/
theorem forward_spec (l : TxList) (th : Nat) :
    (∀ t ∈ (l.forward th).1.txs, th ≤ t.nonce ∧ t ∈ l.txs) ∧
    (∀ t ∈ (l.forward th).2, t.nonce < th ∧ t ∈ l.txs) ∧
    (∀ t ∈ l.txs, th ≤ t.nonce → t ∈ (l.forward th).1.txs) := by
  unfold TxList.forward
  refine ⟨?_, ?_, ?_⟩
  · intro t ht; simp at ht; exact ⟨by omega, ht.1⟩
  · intro t ht; simp at ht; exact ⟨ht.2, ht.1⟩
  · intro t ht h; simp; exact ⟨ht, by omega⟩

/-- keeping, of a gap-free list, everything below a bound (and dropping everything at or above
the first dropped nonce) leaves a gap-free list -/
theorem gapfree_of_downclosed (s : Nat) (l l' : List Tx) (hg : GapFree s l)
    (hsub : l'.Sublist l)
    (hdown : ∀ t ∈ l', ∀ u ∈ l, u.nonce < t.nonce → u ∈ l') : GapFree s l' := by
  induction l generalizing s l' with
  | nil =>
    have : l' = [] := by simpa using hsub
    subst this; simp [GapFree]
  | cons x xs ih =>
    unfold GapFree at hg ih ⊢
    simp only [List.map_cons, List.length_cons, List.range'_succ, List.cons.injEq] at hg
    obtain ⟨hx, hxs⟩ := hg
    have hnon : ∀ u ∈ xs, s + 1 ≤ u.nonce := by
      intro u hu
      have : u.nonce ∈ xs.map (·.nonce) := List.mem_map_of_mem hu
      rw [hxs] at this
      simp [List.mem_range'] at this
      omega
    cases hsub with
    | cons _ hs' =>
      -- x dropped: then nothing of xs may be kept
      cases l' with
      | nil => simp
      | cons y ys =>
        exfalso
        have hy : y ∈ xs := hs'.subset (by simp)
        have hxl' := hdown y (by simp) x (by simp) (by have := hnon y hy; omega)
        have hxin : x ∈ xs := hs'.subset hxl'
        have := hnon x hxin
        omega
    | cons_cons _ hs' =>
      rename_i ys
      simp only [List.map_cons, List.length_cons, List.range'_succ, List.cons.injEq]
      refine ⟨hx, ih (s + 1) ys hxs hs' ?_⟩
      intro t ht u hu hlt
      have := hdown t (List.mem_cons_of_mem _ ht) u (List.mem_cons_of_mem _ hu) hlt
      rcases List.mem_cons.mp this with h | h
      · subst h
        have := hnon t (hs'.subset ht)
        have h2 := hnon u hu
        omega
      · exact h


theorem sorted_nonce_inj {l : List Tx} (hs : Sorted l) {x y : Tx} (hx : x ∈ l) (hy : y ∈ l)
    (hn : x.nonce = y.nonce) : x = y := by
  induction l with
  | nil => simp at hx
  | cons z zs ih =>
    unfold Sorted at hs ih
    rw [List.pairwise_cons] at hs
    rcases List.mem_cons.mp hx with hx1 | hx1 <;> rcases List.mem_cons.mp hy with hy1 | hy1
    · rw [hx1, hy1]
    · subst hx1; have := hs.1 y hy1; omega
    · subst hy1; have := hs.1 x hx1; omega
    · exact ih hs.2 hx1 hy1


end KV.TxPool
