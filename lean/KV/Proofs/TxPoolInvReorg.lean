import KV.Proofs.TxPoolInvOps
/-! `Good Φ` through truncation, the reorg run, batches, price changes and expiry; the head reset
re-establishes the strong invariant for the new chain view (property C17). -/
namespace KV.TxPool
open TxList
namespace Pool
variable {c : Chain} {Φ : Phi c}

theorem good_dropLastPending {p : Pool} (h : Good Φ p) (a : Nat) : Good Φ (p.dropLastPending a) := by
  unfold dropLastPending
  split
  · exact h
  · rename_i list hlist
    have hl := h.pend a list hlist
    simp only
    refine foldl_inv (Good Φ) _ _ _ ?_ ?_
    · exact h.setPending a _ (hl.sub (wf_cap _ _ hl.1) (cap_sub _ _))
    · intro s x _ hs
      exact good_pnSetIfLower (good_allRemove hs x) a x.nonce

theorem good_dropRound {p : Pool} (h : Good Φ p) (cnt : Nat) (accts : List Nat) :
    Good Φ (accts.foldl (fun (q : Pool × Nat) a => (q.1.dropLastPending a, q.2 - 1)) (p, cnt)).1 :=
  foldl_inv (fun q : Pool × Nat => Good Φ q.1) _ accts (p, cnt) h
    (fun s x _ hs => good_dropLastPending hs x)

theorem good_equalise (fuel : Nat) {p : Pool} (h : Good Φ p) (cnt : Nat) (prev : List Nat) (th : Nat) :
    Good Φ (equalise fuel p cnt prev th).1 := by
  induction fuel generalizing p cnt with
  | zero => exact h
  | succ f ih =>
    unfold equalise
    split
    · exact ih (good_dropRound h cnt prev) _
    · exact h

theorem good_spamLoop (order : List Nat) {p : Pool} (h : Good Φ p) (cnt : Nat) (off : List Nat) :
    Good Φ (spamLoop order p cnt off).1 := by
  induction order generalizing p cnt off with
  | nil => exact h
  | cons next rest ih =>
    unfold spamLoop
    split
    · simp only
      split
      · exact ih (good_equalise _ h _ _ _) _ _
      · exact ih h _ _
    · exact h

theorem good_finalLoop (fuel : Nat) {p : Pool} (h : Good Φ p) (cnt : Nat) (off : List Nat) :
    Good Φ (finalLoop fuel p cnt off) := by
  induction fuel generalizing p cnt with
  | zero => exact h
  | succ f ih =>
    unfold finalLoop
    split
    · exact ih (good_dropRound h cnt off) _
    · exact h

theorem good_truncatePending {p : Pool} (h : Good Φ p) : Good Φ p.truncatePending := by
  unfold truncatePending
  simp only
  split
  · exact h
  · split
    · exact good_finalLoop _ (good_spamLoop _ h _ _) _ _
    · exact good_spamLoop _ h _ _

theorem good_removeL {p : Pool} (h : Good Φ p) (hpq : Φ.PQ) (ts : List Tx) :
    Good Φ (ts.foldl removeTx p) :=
  foldl_inv (Good Φ) removeTx ts p h (fun _ x _ hs => good_removeTx hs hpq x)

theorem good_truncQueueLoop (order : List Nat) {p : Pool} (h : Good Φ p) (hpq : Φ.PQ) (drop : Nat) :
    Good Φ (truncQueueLoop order p drop) := by
  induction order generalizing p drop with
  | nil => exact h
  | cons a rest ih =>
    unfold truncQueueLoop
    split
    · exact h
    · split
      · exact ih h _
      · split
        · exact ih (good_removeL h hpq _) _
        · exact good_removeL h hpq _

theorem good_truncateQueue {p : Pool} (h : Good Φ p) (hpq : Φ.PQ) :
    ∀ q ∈ p.truncateQueue, Good Φ q := by
  intro q hq
  unfold truncateQueue at hq
  simp only at hq
  split at hq
  · simp at hq; subst hq; exact h
  · simp only [List.mem_map] at hq
    obtain ⟨order, _, ho⟩ := hq
    subst ho
    exact good_truncQueueLoop order h hpq _

/-- the reorg run without a reset -/
theorem good_runReorg_none {p : Pool} (h : Good Φ p) (hpq : Φ.PQ) (dirty : List Nat) :
    ∀ q ∈ p.runReorg none dirty, Good Φ q := by
  intro q hq
  unfold runReorg at hq
  simp only [List.mem_map] at hq
  obtain ⟨q0, hq0, he⟩ := hq
  subst he
  have := good_truncateQueue (good_truncatePending (promoteExecutables_spec h dirty).1) hpq q0 hq0
  exact this.frame rfl rfl rfl

theorem good_addBatch (txs : List Tx) {p : Pool} (h : Good Φ p) (hpq : Φ.PQ) (loc : Bool) :
    ∀ r ∈ p.addBatch loc txs, Good Φ r.1 := by
  induction txs generalizing p with
  | nil => intro r hr; simp [addBatch] at hr; subst hr; exact h
  | cons t ts ih =>
    intro r hr
    simp only [addBatch, List.mem_flatMap, List.mem_map] at hr
    obtain ⟨r1, hr1, s, hs, he⟩ := hr
    subst he
    exact ih (good_add h hpq t loc r1 hr1) s hs

theorem good_addTxs {p : Pool} (h : Good Φ p) (hpq : Φ.PQ) (txs : List Tx) (loc : Bool) :
    ∀ r ∈ p.addTxs txs loc, Good Φ r.1 := by
  intro r hr
  unfold addTxs at hr
  simp only at hr
  split at hr
  · simp at hr; subst hr; exact h
  · simp only [List.mem_flatMap, List.mem_map] at hr
    obtain ⟨r1, hr1, q, hq, he⟩ := hr
    subst he
    exact good_runReorg_none (good_addBatch _ h hpq loc r1 hr1) hpq _ q hq

theorem good_setGasPrice {p : Pool} (h : Good Φ p) (hpq : Φ.PQ) (price : Nat) :
    Good Φ (p.setGasPrice price) := by
  unfold setGasPrice
  simp only
  split
  · exact good_removeL (h.frame (p' := { p with gasPrice := price }) rfl rfl rfl) hpq _
  · exact h.frame rfl rfl rfl

theorem good_expire {p : Pool} (h : Good Φ p) (hpq : Φ.PQ) (a : Nat) : Good Φ (p.expire a) := by
  unfold expire
  split
  · exact h
  · split
    · exact h
    · exact good_removeL h hpq _

/-! ## the head reset -/

theorem LAll.mono {φ ψ : Nat → Tx → Prop} {a : Nat} {l : TxList} (h : LAll φ a l)
    (hm : ∀ t, φ a t → ψ a t) : LAll ψ a l := ⟨h.1, fun t ht => hm t (h.2 t ht)⟩

/-- after the head moved only the chain-independent part of the invariant is left -/
theorem good_resetHead {p : Pool} (h : Good (strongPhi c) p) (c' : Chain) :
    Good (weakPhi c') (p.resetHead c') :=
  ⟨rfl, h.pkeys, h.qkeys,
   fun a l hl => LAll.mono (h.pend a l hl) (fun _ ht => ht.1),
   fun a l hl => LAll.mono (h.que a l hl) (fun _ ht => ht.1)⟩

/-- the part of the reorg run after promotion/demotion -/
theorem good_reorgTail {p3 : Pool} (h : Good Φ p3) (hpq : Φ.PQ) (pn : AMap Nat) :
    ∀ q ∈ ({ p3 with pnonce := pn } : Pool).truncatePending.truncateQueue.map
        (fun (q : Pool) => { q with changes := 0 }), Good Φ q := by
  intro q hq
  simp only [List.mem_map] at hq
  obtain ⟨q0, hq0, he⟩ := hq
  subst he
  have h' : Good Φ ({ p3 with pnonce := pn } : Pool) := h.frame rfl rfl rfl
  exact (good_truncateQueue (good_truncatePending h') hpq q0 hq0).frame rfl rfl rfl

theorem runReorg_some (p : Pool) (c' : Chain) (dirty : List Nat) :
    p.runReorg (some c') dirty = reorgAfterReset (p.resetHead c') := rfl

theorem resetReinject_nil (p : Pool) (c' : Chain) : p.resetReinject c' [] = p.reset c' := by
  simp [resetReinject, addBatch, reset, runReorg_some]

/-- the pool after promotion for every queued account and demotion, as it appears in
`reorgAfterReset` -/
def afterDemote (p1 : Pool) : Pool :=
  (p1.promoteExecutables (p1.queue.map (·.1))).demoteUnexecutables

theorem reorgAfterReset_eq (p1 : Pool) :
    reorgAfterReset p1 =
      ({ (afterDemote p1) with pnonce := (afterDemote p1).pending.map (fun (e : Nat × TxList) => (e.1, ((e.2.txs.getLast?).map (fun (t : Tx) => t.nonce + 1)).getD 0)) }
        : Pool).truncatePending.truncateQueue.map (fun (q : Pool) => { q with changes := 0 }) := rfl

/-- promotion + demotion after a head change re-establish the strong invariant for the new view -/
theorem good_afterDemote {c' : Chain} {p1 : Pool} (h1 : Good (weakPhi c') p1) :
    Good (strongPhi c') (afterDemote p1) := by
  unfold afterDemote
  -- promotion over every queued account: queued nonces are fresh for the new head
  obtain ⟨h2, h2a, h2b⟩ := promoteExecutables_spec h1 (p1.queue.map (·.1))
  have h2mid : Good (midPhi c') (p1.promoteExecutables (p1.queue.map (·.1))) := by
    refine ⟨h2.chain, h2.pkeys, h2.qkeys, h2.pend, ?_⟩
    intro a l hl
    have hw := h2.que a l hl
    refine ⟨hw.1, fun t ht => ⟨hw.2 t ht, ?_⟩⟩
    by_cases ha : a ∈ p1.queue.map (·.1)
    · exact h2b a ha l hl t ht
    · have hl' := hl
      rw [h2a a ha] at hl'
      exact absurd (amGet_some_key _ _ _ hl') ha
  -- demotion: pending lists are fresh and payable for the new head
  obtain ⟨h3, h3a⟩ := demoteUnexecutables_spec h2mid
  refine ⟨h3.chain, h3.pkeys, h3.qkeys, ?_, h3.que⟩
  intro a l hl
  have hw := h3.pend a l hl
  exact ⟨hw.1, fun t ht => ⟨hw.2 t ht, h3a a l hl t ht⟩⟩

theorem good_reorgAfterReset {c' : Chain} {p1 : Pool} (h1 : Good (weakPhi c') p1) :
    ∀ q ∈ reorgAfterReset p1, Good (strongPhi c') q := by
  rw [reorgAfterReset_eq]
  exact good_reorgTail (good_afterDemote h1) (strongPhi_PQ c') _

/-- **the reorg run with a reset re-establishes the strong invariant for the new head** -/
theorem good_runReorg_reset {p : Pool} (h : Good (strongPhi c) p) (c' : Chain) (dirty : List Nat) :
    ∀ q ∈ p.runReorg (some c') dirty, Good (strongPhi c') q := by
  rw [runReorg_some]
  exact good_reorgAfterReset (good_resetHead h c')

/-- the same with re-injection of a dropped branch -/
theorem good_resetReinject {p : Pool} (h : Good (strongPhi c) p) (c' : Chain) (reinject : List Tx) :
    ∀ q ∈ p.resetReinject c' reinject, Good (strongPhi c') q := by
  intro q hq
  simp only [resetReinject, List.mem_flatMap] at hq
  obtain ⟨r, hr, hq⟩ := hq
  exact good_reorgAfterReset (good_addBatch reinject (good_resetHead h c') (weakPhi_PQ c') false r hr) q hq

end Pool
end KV.TxPool
