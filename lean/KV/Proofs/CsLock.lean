import KV.Proofs.CsStep
/-! The lock invariant of `Cs.step` behind C03 (3) `lock_rule` (obligation O3 of the agreement
proof).  For every precommit for a block `b` the node signed at round `r` of the *current* height:
either the node is still locked on `b` with `r ≤ lockedRound`, or its own prevote sets contain a
polka for a value `≠ b` at a round in `(r, round]` (`Lock.cur`); and the lock rule itself for all
pairs (precommit, later prevote) already in the log (`Lock.hist`).  `cur` is established by the
three unlock sites and by locking on another block, and consumed by `doPrevote`. -/
namespace KV.Cs

/-- the node's own prevote sets hold +2/3 for a value other than `b` at a round in `(r, R]` of
height `h` -/
def Unlocked (powers : List Nat) (votes : List RoundVotes) (h r R b : Nat) : Prop :=
  ∃ r'' x'', r < r'' ∧ r'' ≤ R ∧ x'' ≠ some b ∧ quorum powers votes .prevote h r'' x''

theorem Unlocked.mono {powers : List Nat} {v v' : List RoundVotes} {h r R R' b : Nat}
    (hv : VLe powers v v') (hR : R ≤ R') (u : Unlocked powers v h r R b) : Unlocked powers v' h r R' b := by
  obtain ⟨r'', x'', h1, h2, h3, h4⟩ := u
  exact ⟨r'', x'', h1, Nat.le_trans h2 hR, h3, hv _ _ _ _ h4⟩

structure Lock (cfg : Config) (σ : State) : Prop where
  /-- precommits of the current height: still locked, or unlocked by a later polka -/
  cur : ∀ r b, Action.signVote .precommit σ.height r (some b) ∈ σ.log →
    (∃ blk, σ.locked = some blk ∧ blk.id = b ∧ r ≤ σ.lockedRound) ∨
    Unlocked cfg.powers σ.votes σ.height r σ.round b
  /-- the lock rule for everything signed so far -/
  hist : ∀ h r r' b x, Action.signVote .precommit h r (some b) ∈ σ.log →
    Action.signVote .prevote h r' x ∈ σ.log → r < r' → x ≠ some b →
    Unlocked cfg.powers σ.votes h r r' b

/-- transfer: same height, round not smaller, no new block precommit or prevote signed, vote sets
grow, lock kept -/
theorem Lock.of_sub {cfg : Config} {σ σ' : State} (L : Lock cfg σ) (hh : σ'.height = σ.height)
    (hr : σ.round ≤ σ'.round)
    (hl1 : ∀ h r b, Action.signVote .precommit h r (some b) ∈ σ'.log → Action.signVote .precommit h r (some b) ∈ σ.log)
    (hl2 : ∀ h r x, Action.signVote .prevote h r x ∈ σ'.log → Action.signVote .prevote h r x ∈ σ.log)
    (hv : VLe cfg.powers σ.votes σ'.votes) (hlk : σ'.locked = σ.locked)
    (hlr : σ'.lockedRound = σ.lockedRound) : Lock cfg σ' := by
  refine ⟨?_, ?_⟩
  · intro r b hm
    rw [hh] at hm ⊢
    rcases L.cur r b (hl1 _ _ _ hm) with ⟨blk, h1, h2, h3⟩ | u
    · exact Or.inl ⟨blk, by rw [hlk]; exact h1, h2, by rw [hlr]; exact h3⟩
    · exact Or.inr (u.mono hv hr)
  · intro h r r' b x h1 h2 h3 h4
    exact (L.hist h r r' b x (hl1 _ _ _ h1) (hl2 _ _ _ h2) h3 h4).mono hv (Nat.le_refl _)

theorem Lock.of_le {cfg : Config} {σ σ' : State} (L : Lock cfg σ) (hh : σ'.height = σ.height)
    (hr : σ.round ≤ σ'.round) (hl : σ'.log = σ.log)
    (hv : VLe cfg.powers σ.votes σ'.votes) (hlk : σ'.locked = σ.locked)
    (hlr : σ'.lockedRound = σ.lockedRound) : Lock cfg σ' :=
  L.of_sub hh hr (by rw [hl]; exact fun _ _ _ h => h) (by rw [hl]; exact fun _ _ _ h => h) hv hlk hlr

/-- same height, round, log, votes, lock -/
theorem Lock.of_eq {cfg : Config} {σ σ' : State} (L : Lock cfg σ) (hh : σ'.height = σ.height)
    (hr : σ'.round = σ.round) (hl : σ'.log = σ.log)
    (hv : σ'.votes = σ.votes) (hlk : σ'.locked = σ.locked)
    (hlr : σ'.lockedRound = σ.lockedRound) : Lock cfg σ' :=
  L.of_le hh (by rw [hr]; exact Nat.le_refl _) hl (by rw [hv]; exact VLe.refl _ _) hlk hlr

theorem mem_cons_ne {a x : Action} {l : List Action} (ha : a ≠ x) (hm : x ∈ a :: l) : x ∈ l := by
  rcases List.mem_cons.mp hm with h1 | h1
  · exact absurd h1.symm ha
  · exact h1

/-- an action that is neither a precommit for a block nor a prevote is logged -/
theorem Lock.emit_other {cfg : Config} {σ : State} (L : Lock cfg σ) (a : Action)
    (h1 : ∀ h r b, a ≠ Action.signVote .precommit h r (some b))
    (h2 : ∀ h r x, a ≠ Action.signVote .prevote h r x) : Lock cfg (emit a σ) :=
  L.of_sub rfl (Nat.le_refl _) (fun h r b => mem_cons_ne (h1 h r b)) (fun h r x => mem_cons_ne (h2 h r x))
    (VLe.refl _ _) rfl rfl

theorem Lock.schedule {cfg : Config} {σ : State} (L : Lock cfg σ) (h r : Nat) (st : Step) :
    Lock cfg (schedule h r st σ) :=
  L.of_sub rfl (Nat.le_refl _) (fun _ _ _ => mem_cons_ne (by intro hc; cases hc))
    (fun _ _ _ => mem_cons_ne (by intro hc; cases hc)) (VLe.refl _ _) rfl rfl

theorem Lock.panic {cfg : Config} {σ : State} (L : Lock cfg σ) : Lock cfg (panic σ) :=
  L.of_sub rfl (Nat.le_refl _) (fun _ _ _ => mem_cons_ne (by intro hc; cases hc))
    (fun _ _ _ => mem_cons_ne (by intro hc; cases hc)) (VLe.refl _ _) rfl rfl

/-- a prevote for the locked block (anything when not locked) keeps the invariant: this is
where `cur` is consumed -/
theorem Lock.sign_prevote {cfg : Config} {σ : State} (L : Lock cfg σ) (tgt : Target)
    (hl : ∀ blk, σ.locked = some blk → tgt = some blk.id) : Lock cfg (signAddVote cfg .prevote tgt σ) := by
  unfold signAddVote
  split
  · refine ⟨?_, ?_⟩
    · intro r b hm
      have hm' : Action.signVote .precommit σ.height r (some b) ∈ σ.log := by
        rcases List.mem_cons.mp hm with h1 | h1
        · cases h1
        · exact h1
      exact L.cur r b hm'
    · intro h r r' b x h1 h2 h3 h4
      have h1' : Action.signVote .precommit h r (some b) ∈ σ.log := by
        rcases List.mem_cons.mp h1 with h1 | h1
        · cases h1
        · exact h1
      rcases List.mem_cons.mp h2 with h2 | h2
      · -- the new prevote
        cases h2
        rcases L.cur r b h1' with ⟨blk, e1, e2, _⟩ | u
        · exact absurd (by rw [hl blk e1, e2]) h4
        · exact u
      · exact L.hist h r r' b x h1' h2 h3 h4
  · exact L

theorem Lock.sign_precommit_nil {cfg : Config} {σ : State} (L : Lock cfg σ) :
    Lock cfg (signAddVote cfg .precommit none σ) := by
  unfold signAddVote
  split
  · exact L.emit_other _ (by intro _ _ _ hc; cases hc) (by intro _ _ _ hc; cases hc)
  · exact L

/-- rounds of the precommits already signed at this height are before the current round while
the step is before `Precommit` -/
theorem InvP.precommit_lt {cfg : Config} {σ : State} {s : Nat} (I : InvP cfg σ s) (hs : s < 6)
    {r : Nat} {tgt : Target} (hm : Action.signVote .precommit σ.height r tgt ∈ σ.log) : r < σ.round := by
  have := I.si.2 _ hm σ.height r 6 rfl
  unfold le3 at this
  omega

/-- a precommit for the block the node has just locked at the current round -/
theorem Lock.sign_precommit {cfg : Config} {σ : State} {s : Nat} (I : InvP cfg σ s) (L : Lock cfg σ)
    (b : Nat) (blk : Blk) (hlk : σ.locked = some blk) (hid : blk.id = b) (hlr : σ.lockedRound = σ.round) :
    Lock cfg (signAddVote cfg .precommit (some b) σ) := by
  unfold signAddVote
  split
  · refine ⟨?_, ?_⟩
    · intro r b' hm
      rcases List.mem_cons.mp hm with h1 | h1
      · cases h1
        exact Or.inl ⟨blk, hlk, hid, by show σ.round ≤ σ.lockedRound; omega⟩
      · exact L.cur r b' h1
    · intro h r r' b' x h1 h2 h3 h4
      have h2' : Action.signVote .prevote h r' x ∈ σ.log := by
        rcases List.mem_cons.mp h2 with h2 | h2
        · cases h2
        · exact h2
      rcases List.mem_cons.mp h1 with h1 | h1
      · -- the new precommit is later than every prevote in the log
        cases h1
        have := I.si.2 _ h2' σ.height r' 4 rfl
        unfold le3 at this
        omega
      · exact L.hist h r r' b' x h1 h2' h3 h4
  · exact L

/-- locking `blk` at the current round on a polka for it (also: re-locking) -/
theorem Lock.lock {cfg : Config} {σ σ' : State} {s : Nat} (I : InvP cfg σ s) (hs : s < 6) (L : Lock cfg σ)
    (blk : Blk) (hq : quorum cfg.powers σ.votes .prevote σ.height σ.round (some blk.id))
    (hh : σ'.height = σ.height) (hr : σ'.round = σ.round) (hl : σ'.log = σ.log) (hv : σ'.votes = σ.votes)
    (hlk : σ'.locked = some blk) (hlr : σ'.lockedRound = σ.round) : Lock cfg σ' := by
  refine ⟨?_, ?_⟩
  · intro r b hm
    rw [hh, hl] at hm
    rw [hh, hr, hv, hlk, hlr]
    have hlt := I.precommit_lt hs hm
    by_cases hb : blk.id = b
    · exact Or.inl ⟨blk, rfl, hb, by omega⟩
    · refine Or.inr ⟨σ.round, some blk.id, hlt, Nat.le_refl _, ?_, hq⟩
      intro hc; cases hc; exact hb rfl
  · intro h r r' b x h1 h2 h3 h4
    rw [hl] at h1 h2
    rw [hv]
    exact L.hist h r r' b x h1 h2 h3 h4

/-- unlocking on a polka for something else than the locked block at a round `r'' ≤ round`
that is later than every precommit the lock covers -/
theorem Lock.unlock {cfg : Config} {σ : State} (L : Lock cfg σ) (r'' : Nat) (x'' : Target)
    (hq : quorum cfg.powers σ.votes .prevote σ.height r'' x'') (hle : r'' ≤ σ.round)
    (hne : ∀ blk, σ.locked = some blk → x'' ≠ some blk.id)
    (hlt : ∀ r b, Action.signVote .precommit σ.height r (some b) ∈ σ.log → r ≤ σ.lockedRound → r < r'') :
    Lock cfg (unlock σ) := by
  refine ⟨?_, ?_⟩
  · intro r b hm
    have hm' : Action.signVote .precommit σ.height r (some b) ∈ σ.log := hm
    rcases L.cur r b hm' with ⟨blk, e1, e2, e3⟩ | u
    · refine Or.inr ⟨r'', x'', hlt r b hm' e3, hle, ?_, hq⟩
      rw [← e2]; exact hne blk e1
    · exact Or.inr u
  · exact L.hist

/-- `updateToState`: nothing of the new height is signed yet -/
theorem Lock.newHeight {cfg : Config} {σ : State} (L : Lock cfg σ)
    (hb : ∀ t h r tgt, Action.signVote t h r tgt ∈ σ.log → h ≤ σ.height) : Lock cfg (newHeight cfg σ) := by
  refine ⟨?_, ?_⟩
  · intro r b hm
    have hm' : Action.signVote .precommit (σ.height + 1) r (some b) ∈ σ.log :=
      mem_cons_ne (by intro hc; cases hc) hm
    have := hb _ _ _ _ hm'
    omega
  · intro h r r' b x h1 h2 h3 h4
    have h1' := mem_cons_ne (by intro hc; cases hc) h1
    have h2' := mem_cons_ne (by intro hc; cases hc) h2
    exact (L.hist h r r' b x h1' h2' h3 h4).mono (VLe_append _ _ _) (Nat.le_refl _)

theorem InvP.sign_height_le {cfg : Config} {σ : State} {s : Nat} (I : InvP cfg σ s) (t : VType) (h r : Nat)
    (tgt : Target) (hm : Action.signVote t h r tgt ∈ σ.log) : h ≤ σ.height := by
  cases t
  · have := I.si.2 _ hm h r 4 rfl
    unfold le3 at this; omega
  · have := I.si.2 _ hm h r 6 rfl
    unfold le3 at this; omega

/-! ### prevote -/

theorem doPrevote_lock {cfg : Config} {σ : State} (L : Lock cfg σ) : Lock cfg (doPrevote cfg σ) := by
  unfold doPrevote
  split
  · rename_i blk hl
    exact L.sign_prevote _ (by intro b' hb'; rw [hl] at hb'; cases hb'; rfl)
  · rename_i hl
    have hno : ∀ (tgt : Target) (blk : Blk), σ.locked = some blk → tgt = some blk.id := by
      intro tgt blk hb; rw [hl] at hb; cases hb
    split
    · exact L.sign_prevote _ (hno _)
    · split
      · exact L.sign_prevote _ (hno _)
      · exact L.sign_prevote _ (hno _)

theorem enterPrevote_lock {cfg : Config} {σ : State} (L : Lock cfg σ) (h r : Nat) :
    Lock cfg (enterPrevote cfg h r σ) := by
  unfold enterPrevote
  split
  · exact L
  · rename_i hg
    have J := doPrevote_lock (cfg := cfg) L
    exact J.of_le rfl (by simp only [doPrevote_round]; show σ.round ≤ r; omega) rfl (VLe.refl _ _) rfl rfl

theorem enterPrevoteWait_lock {cfg : Config} {σ : State} (L : Lock cfg σ) (h r : Nat) :
    Lock cfg (enterPrevoteWait h r σ) := by
  unfold enterPrevoteWait
  split
  · exact L
  · rename_i hg
    exact (L.schedule h r .prevoteWait).of_le rfl (by show σ.round ≤ r; omega) rfl (VLe.refl _ _) rfl rfl

theorem enterPrecommitWait_lock {cfg : Config} {σ : State} (L : Lock cfg σ) (h r : Nat) :
    Lock cfg (enterPrecommitWait h r σ) := by
  unfold enterPrecommitWait
  split
  · exact L
  · exact (L.schedule h r .precommitWait).of_eq rfl rfl rfl rfl rfl rfl

/-! ### precommit -/

theorem precommitUnknown_lock {cfg : Config} {σ : State} {s : Nat} (I : InvP cfg σ s) (hs : s < 6)
    (L : Lock cfg σ) (b : Nat) (hq : quorum cfg.powers σ.votes .prevote σ.height σ.round (some b))
    (hne : idIs σ.locked b = false) : Lock cfg (precommitUnknown cfg b σ) := by
  have U : Lock cfg (unlock σ) := by
    refine L.unlock σ.round (some b) hq (Nat.le_refl _) ?_ (fun r b' hm _ => I.precommit_lt hs hm)
    intro blk hl hc
    cases hc
    simp [idIs, hl] at hne
  unfold precommitUnknown
  simp only
  split
  · exact U.sign_precommit_nil
  · have K : Lock cfg { unlock σ with pblock := none, parts := some (b, false) } :=
      U.of_eq rfl rfl rfl rfl rfl rfl
    exact K.sign_precommit_nil

theorem doPrecommit_lock {cfg : Config} {σ : State} {s : Nat} (I : InvP cfg σ s) (hs : s < 6)
    (L : Lock cfg σ) : Lock cfg (doPrecommit cfg σ.round σ) := by
  unfold doPrecommit
  split
  · exact L.sign_precommit_nil
  · rename_i hm
    have hq : quorum cfg.powers σ.votes .prevote σ.height σ.round none := maj23_sound hm
    split
    · exact L.sign_precommit_nil
    · have U : Lock cfg (unlock σ) :=
        L.unlock σ.round none hq (Nat.le_refl _) (by intro _ _ hc; cases hc)
          (fun r b' hm _ => I.precommit_lt hs hm)
      exact U.sign_precommit_nil
  · rename_i b hm
    have hq : quorum cfg.powers σ.votes .prevote σ.height σ.round (some b) := maj23_sound hm
    split
    · -- relock
      rename_i hid
      unfold idIs at hid
      split at hid
      · rename_i blk hl
        have hb : blk.id = b := by simpa using hid
        have K : InvP cfg { σ with lockedRound := σ.round } s :=
          I.of_eq rfl rfl (Nat.le_refl _) rfl rfl rfl rfl I.lk I.pb
        have KL : Lock cfg { σ with lockedRound := σ.round } :=
          Lock.lock I hs L blk (by rw [hb]; exact hq) rfl rfl rfl rfl hl rfl
        exact Lock.sign_precommit K KL b blk hl hb rfl
      · cases hid
    · rename_i hnid
      have hnid : idIs σ.locked b = false := by simpa using hnid
      split
      · rename_i blk hp
        split
        · rename_i hb
          have hb : blk.id = b := by simpa using hb
          split
          · rename_i hok
            have hseen := I.pb blk hp
            have K : InvP cfg { σ with lockedRound := σ.round, locked := some blk } s :=
              I.of_eq rfl rfl (Nat.le_refl _) rfl rfl rfl rfl
                (by intro b' h'; cases h'; exact ⟨hok, hseen⟩) I.pb
            have KL : Lock cfg { σ with lockedRound := σ.round, locked := some blk } :=
              Lock.lock I hs L blk (by rw [hb]; exact hq) rfl rfl rfl rfl rfl rfl
            exact Lock.sign_precommit K KL b blk rfl hb rfl
          · exact L.sign_precommit_nil
        · exact precommitUnknown_lock I hs L b hq hnid
      · exact precommitUnknown_lock I hs L b hq hnid

theorem enterPrecommit_lock' {cfg : Config} {σ : State} (I : Inv cfg σ) (L : Lock cfg σ) (h r : Nat)
    (hr : σ.step ≠ .commit → r ≤ σ.round) : Lock cfg (enterPrecommit cfg h r σ) := by
  unfold enterPrecommit
  split
  · exact L
  · split
    · exact L
    · rename_i hg hc
      have hrr : r = σ.round := by have := hr hc; omega
      have hst : σ.step.toNat < 6 := by
        simp only [Step.toNat] at hg ⊢; omega
      subst hrr
      have J := doPrecommit_lock I hst L
      exact J.of_eq rfl (by simp) rfl rfl rfl rfl

theorem enterPrecommit_lock {cfg : Config} {σ : State} (I : Inv cfg σ) (L : Lock cfg σ) (h r : Nat)
    (hr : r ≤ σ.round) : Lock cfg (enterPrecommit cfg h r σ) := enterPrecommit_lock' I L h r (fun _ => hr)

/-! ### commit -/

theorem finalizeCommit_lock {cfg : Config} {σ : State} (I : Inv cfg σ) (L : Lock cfg σ) (h : Nat) :
    Lock cfg (finalizeCommit cfg h σ) := by
  unfold finalizeCommit
  split
  · exact L
  · split
    · split
      · exact L.panic
      · split
        · exact L.panic
        · refine (L.emit_other (.commit h _) (by intro _ _ _ hc; cases hc) (by intro _ _ _ hc; cases hc)).newHeight ?_
          intro t h' r tgt hm
          exact I.sign_height_le t h' r tgt (mem_cons_ne (by intro hc; cases hc) hm)
    · exact L.panic

theorem tryFinalizeCommit_lock {cfg : Config} {σ : State} (I : Inv cfg σ) (L : Lock cfg σ) (h : Nat) :
    Lock cfg (tryFinalizeCommit cfg h σ) := by
  unfold tryFinalizeCommit
  split
  · split
    · exact finalizeCommit_lock I L h
    · exact L
  · exact L

theorem takeLocked_lock {cfg : Config} {σ : State} (L : Lock cfg σ) (b : Nat) : Lock cfg (takeLocked b σ) := by
  unfold takeLocked
  split
  · split
    · exact L.of_eq rfl rfl rfl rfl rfl rfl
    · exact L
  · exact L

theorem expectBlock_lock {cfg : Config} {σ : State} (L : Lock cfg σ) (b : Nat) : Lock cfg (expectBlock b σ) := by
  unfold expectBlock
  split
  · exact L
  · split
    · exact L
    · exact L.of_eq rfl rfl rfl rfl rfl rfl

theorem commitPrep_lock {cfg : Config} {σ : State} (L : Lock cfg σ) (cr : Nat) : Lock cfg (commitPrep cfg cr σ) := by
  unfold commitPrep
  split
  · exact expectBlock_lock (takeLocked_lock L _) _
  · exact L

theorem enterCommit_lock {cfg : Config} {σ : State} (I : Inv cfg σ) (L : Lock cfg σ) (h cr : Nat) :
    Lock cfg (enterCommit cfg h cr σ) := by
  unfold enterCommit
  split
  · exact L
  · rename_i hg
    have hst : σ.step.toNat ≤ 8 := by
      simp only [Step.toNat] at hg ⊢; omega
    have J := commitPrep_inv I cr
    have J' : Inv cfg { commitPrep cfg cr σ with step := .commit, commitRound := cr } :=
      J.of_eq rfl rfl (by show σ.step.toNat ≤ 8; exact hst) rfl rfl rfl rfl J.lk J.pb
    exact tryFinalizeCommit_lock J' ((commitPrep_lock L cr).of_eq rfl rfl rfl rfl rfl rfl) h

/-! ### propose / new round -/

theorem decideProposal_lock {cfg : Config} {σ : State} (L : Lock cfg σ) (nb : Option Nat) (h r : Nat) :
    Lock cfg (decideProposal nb h r σ) := by
  unfold decideProposal
  split
  · exact L.emit_other _ (by intro _ _ _ hc; cases hc) (by intro _ _ _ hc; cases hc)
  · split
    · exact L.emit_other _ (by intro _ _ _ hc; cases hc) (by intro _ _ _ hc; cases hc)
    · exact L

theorem proposeBody_lock {cfg : Config} {σ : State} (L : Lock cfg σ) (nb : Option Nat) (h r : Nat) :
    Lock cfg (proposeBody cfg nb h r σ) := by
  unfold proposeBody
  simp only
  split
  · exact decideProposal_lock (L.schedule h r .propose) nb h r
  · exact L.schedule h r .propose

theorem proposeDone_lock {cfg : Config} {σ : State} (L : Lock cfg σ) (h : Nat) : Lock cfg (proposeDone cfg h σ) := by
  unfold proposeDone
  split
  · exact enterPrevote_lock L _ _
  · exact L

theorem enterPropose_lock {cfg : Config} {σ : State} (L : Lock cfg σ) (nb : Option Nat) (h r : Nat) :
    Lock cfg (enterPropose cfg nb h r σ) := by
  unfold enterPropose
  split
  · exact L
  · rename_i hg
    apply proposeDone_lock
    exact (proposeBody_lock L nb h r).of_le rfl (by simp only [proposeBody_round]; show σ.round ≤ r; omega)
      rfl (VLe.refl _ _) rfl rfl

theorem newRoundPrep_lockedRound (cfg : Config) (r : Nat) (σ : State) :
    (newRoundPrep cfg r σ).lockedRound = σ.lockedRound := by
  unfold newRoundPrep setRound
  simp only
  split
  · obtain ⟨extra, he⟩ := addRounds_eq (n cfg) (r + 1 + 1 - (σ.hvsRound - 1)) (σ.hvsRound - 1) { σ with round := r, step := Step.newRound }
    rw [he]
  · obtain ⟨extra, he⟩ := addRounds_eq (n cfg) (r + 1 + 1 - (σ.hvsRound - 1)) (σ.hvsRound - 1)
      { σ with round := r, step := Step.newRound, proposal := none, pblock := none, parts := none }
    rw [he]

theorem newRoundPrep_lock {cfg : Config} {σ : State} (L : Lock cfg σ) (r : Nat) (hr : σ.round ≤ r) :
    Lock cfg (newRoundPrep cfg r σ) := by
  obtain ⟨extra, hh, hr', hs, hl, hsc, hse, hlk, hv, hpb⟩ := newRoundPrep_spec cfg r σ
  exact L.of_le hh (by rw [hr']; exact hr) hl (by rw [hv]; exact VLe_append_list _ _ _) hlk
    (newRoundPrep_lockedRound cfg r σ)

/-- the new unlock site keeps the lock invariant: the polka it found is the witness -/
theorem releaseStale_lock {cfg : Config} {σ : State} (L : Lock cfg σ) : Lock cfg (releaseStale cfg σ) := by
  rcases releaseStale_cases cfg σ with e | ⟨e, lb, hl, hs⟩
  · rw [e]; exact L
  · rw [e]
    obtain ⟨r', x, h1, h2, h3, h4⟩ := stalePolka_spec hs
    refine L.unlock r' x (maj23_sound h4) h2 ?_ (fun r b _ hle => by omega)
    intro blk hb
    rw [hl] at hb
    cases hb
    exact h3

theorem enterNewRound_lock {cfg : Config} {σ : State} (L : Lock cfg σ) (nb : Option Nat) (h r : Nat) :
    Lock cfg (enterNewRound cfg nb h r σ) := by
  unfold enterNewRound
  split
  · exact L
  · split
    · exact L
    · rename_i hg _
      have J := releaseStale_lock (newRoundPrep_lock L r (by omega))
      simp only
      split
      · split
        · exact J.schedule h r .newRound
        · exact J
      · exact enterPropose_lock J nb h r

/-! ### inputs -/

theorem setProposal_lock {cfg : Config} {σ : State} (L : Lock cfg σ) (src : Nat) (sigok : Bool) (h r pol id : Nat) :
    Lock cfg (setProposal cfg src sigok h r pol id σ) := by
  unfold setProposal
  (repeat' split) <;> first | exact L | exact L.of_eq rfl rfl rfl rfl rfl rfl

theorem storeBlock_lock {cfg : Config} {σ : State} (L : Lock cfg σ) (blk : Blk) : Lock cfg (storeBlock cfg blk σ) := by
  unfold storeBlock
  simp only
  (repeat' split) <;> exact L.of_eq rfl rfl rfl rfl rfl rfl

theorem afterBlock_lock {cfg : Config} {σ : State} (I : Inv cfg σ) (L : Lock cfg σ) (h : Nat) :
    Lock cfg (afterBlock cfg h σ) := by
  unfold afterBlock
  split
  · simp only
    have J := enterPrevote_inv I h σ.round (Nat.le_refl _)
    have JL := enterPrevote_lock L h σ.round
    split
    · exact enterPrecommit_lock J JL h _ (Nat.le_refl _)
    · exact JL
  · split
    · exact tryFinalizeCommit_lock I L h
    · exact L

theorem addBlock_lock {cfg : Config} {σ : State} (I : Inv cfg σ) (L : Lock cfg σ) (h id : Nat) (ok dec : Bool) :
    Lock cfg (addBlock cfg h id ok dec σ) := by
  unfold addBlock
  split
  · exact L
  · split
    · exact L
    · split
      · exact L
      · split
        · exact L.of_eq rfl rfl rfl rfl rfl rfl
        · exact afterBlock_lock (storeBlock_inv I _) (storeBlock_lock L _) h

theorem ensureRound_lock {cfg : Config} {σ σ1 : State} (L : Lock cfg σ) (peer r : Nat)
    (h : ensureRound cfg peer r σ = some σ1) : Lock cfg σ1 := by
  unfold ensureRound at h
  split at h
  · cases h; exact L
  · split at h
    · cases h
      exact L.of_le rfl (Nat.le_refl _) rfl (VLe_append _ _ _) rfl rfl
    · cases h

theorem polkaUnlock_lock {cfg : Config} {σ : State} (L : Lock cfg σ) (vr : Nat) (bid : Target)
    (hq : quorum cfg.powers σ.votes .prevote σ.height vr bid) : Lock cfg (polkaUnlock vr bid σ) := by
  unfold polkaUnlock
  split
  · rename_i lb hl
    split
    · rename_i hc
      simp only [Bool.and_eq_true, decide_eq_true_eq, Bool.not_eq_true', beq_eq_false_iff_ne, ne_eq] at hc
      obtain ⟨⟨h1, h2⟩, h3⟩ := hc
      refine L.unlock vr bid hq h2 ?_ (fun r b _ hle => by omega)
      intro blk hb
      rw [hl] at hb
      cases hb
      exact h3
    · exact L
  · exact L

theorem polkaValid_lock {cfg : Config} {σ : State} (L : Lock cfg σ) (vr b : Nat) : Lock cfg (polkaValid vr b σ) := by
  unfold polkaValid
  split
  · simp only
    (repeat' split) <;> exact L.of_eq rfl rfl rfl rfl rfl rfl
  · exact L

theorem polkaUpdate_lock {cfg : Config} {σ : State} (L : Lock cfg σ) (vr : Nat) (m : Option Target)
    (hm : ∀ bid, m = some bid → quorum cfg.powers σ.votes .prevote σ.height vr bid) :
    Lock cfg (polkaUpdate vr m σ) := by
  unfold polkaUpdate
  split
  · rename_i bid
    simp only
    have U := polkaUnlock_lock L vr bid (hm bid rfl)
    split
    · exact polkaValid_lock U vr _
    · exact U
  · exact L

theorem prevoteSwitch_lock {cfg : Config} {σ : State} (I : Inv cfg σ) (L : Lock cfg σ) (nb : Option Nat) (h vr : Nat)
    (m : Option Target) (any : Bool) : Lock cfg (prevoteSwitch cfg nb h vr m any σ) := by
  unfold prevoteSwitch
  split
  · exact enterNewRound_lock L nb h vr
  · split
    · rename_i hc
      have hle : vr ≤ σ.round := by
        simp only [Bool.and_eq_true, beq_iff_eq] at hc; omega
      split
      · split
        · exact enterPrecommit_lock I L h vr hle
        · split
          · exact enterPrevoteWait_lock L h vr
          · exact L
      · split
        · exact enterPrevoteWait_lock L h vr
        · exact L
    · split
      · split
        · split
          · exact enterPrevote_lock L h _
          · exact L
        · exact L
      · exact L

theorem afterPrevote_lock {cfg : Config} {σ : State} (I : Inv cfg σ) (L : Lock cfg σ) (nb : Option Nat) (vr : Nat) :
    Lock cfg (afterPrevote cfg nb vr σ) := by
  unfold afterPrevote
  exact prevoteSwitch_lock (polkaUpdate_inv I vr _).1
    (polkaUpdate_lock L vr _ (fun bid hb => maj23_sound hb)) nb _ vr _ _

theorem afterPrecommit_lock {cfg : Config} {σ : State} (I : Inv cfg σ) (L : Lock cfg σ) (nb : Option Nat) (vr : Nat) :
    Lock cfg (afterPrecommit cfg nb vr σ) := by
  unfold afterPrecommit
  simp only
  split
  · have J1 := enterNewRound_inv I nb σ.height vr
    have L1 := enterNewRound_lock L nb σ.height vr
    have J2 := enterPrecommit_inv' J1 σ.height vr (enterNewRound_round_ge' cfg nb vr σ)
    have L2 := enterPrecommit_lock' J1 L1 σ.height vr (enterNewRound_round_ge' cfg nb vr σ)
    split
    · exact enterCommit_lock J2 L2 _ _
    · exact enterPrecommitWait_lock L2 _ _
  · split
    · exact enterPrecommitWait_lock (enterNewRound_lock L nb _ _) _ _
    · exact L

theorem addVote_lock {cfg : Config} {σ : State} (I : Inv cfg σ) (L : Lock cfg σ) (nb : Option Nat) (peer idx : Nat)
    (t : VType) (h r : Nat) (tgt : Target) (sigok : Bool) :
    Lock cfg (addVote cfg nb peer idx t h r tgt sigok σ) := by
  unfold addVote
  split
  · exact L
  · split
    · exact L
    · rename_i hh
      split
      · exact L
      · rename_i σ1 he
        obtain ⟨J, hh1⟩ := ensureRound_inv I peer r he
        have JL := ensureRound_lock L peer r he
        split
        · exact JL
        · split
          · rename_i hslot
            have hvle : VLe cfg.powers σ1.votes (σ1.votes.map (setSlot t idx tgt h r)) :=
              VLe_setSlot _ _ _ _ _ _ _ (by rw [← State.slots_eq]; exact hslot)
            have K : Inv cfg { σ1 with votes := σ1.votes.map (setSlot t idx tgt h r), added := true } :=
              J.of_le rfl (Or.inr ⟨rfl, Nat.le_refl _⟩) rfl rfl hvle (fun _ h => h) J.lk J.pb
            have KL : Lock cfg { σ1 with votes := σ1.votes.map (setSlot t idx tgt h r), added := true } :=
              JL.of_le rfl (Nat.le_refl _) rfl hvle rfl rfl
            split
            · exact afterPrevote_lock K KL nb r
            · exact afterPrecommit_lock K KL nb r
          · exact JL

theorem handleTimeout_lock {cfg : Config} {σ : State} (I : Inv cfg σ) (L : Lock cfg σ) (nb : Option Nat) (h r : Nat)
    (s : Step) (hok : h = σ.height → r ≤ σ.round) : Lock cfg (handleTimeout cfg nb h r s σ) := by
  unfold handleTimeout
  split
  · exact L
  · rename_i hg
    have hr : r ≤ σ.round := hok (by omega)
    split
    · exact enterNewRound_lock L nb h 1
    · exact enterPropose_lock L nb h 1
    · exact enterPrevote_lock L h r
    · exact enterPrecommit_lock I L h r hr
    · exact enterNewRound_lock (enterPrecommit_lock I L h r hr) nb h (r + 1)
    · exact L.panic

theorem init_lock (cfg : Config) (h : Nat) : Lock cfg (init cfg h) :=
  ⟨fun r b hm => by simp [init] at hm, fun h r r' b x hm => by simp [init] at hm⟩

theorem step_lock {cfg : Config} {σ : State} (I : Inv cfg σ) (L : Lock cfg σ) (nb : Option Nat) (i : Input)
    (hok : TimeoutOk σ i) : Lock cfg (step cfg σ nb i) := by
  unfold step
  split
  · exact L
  · have J : Inv cfg { σ with added := false } := I.of_eq rfl rfl (Nat.le_refl _) rfl rfl rfl rfl I.lk I.pb
    have JL : Lock cfg { σ with added := false } := L.of_eq rfl rfl rfl rfl rfl rfl
    cases i with
    | proposal src sigok h r pol id => exact setProposal_lock JL ..
    | block h id ok dec => exact addBlock_lock J JL ..
    | vote peer idx t h r tgt sigok => exact addVote_lock J JL ..
    | timeout h r s => exact handleTimeout_lock J JL nb h r s hok

end KV.Cs
