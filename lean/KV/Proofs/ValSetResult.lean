import KV.Proofs.ValSetMerge
import KV.Proofs.ValSetRefine
/-!
# The result of a successful `updateWithChangeSet` (C12 `update_result`, `update_never_panics`,
`newcomer_priority`)
-/
namespace KV.ValSet
open KV.I64

/-- the total handed to `computeNewPriorities`: after the updates, **before** the removals -/
def totalBeforeRemovals (vals cs : List Validator) : Int :=
  newTotal vals cs + sumBy (fun c => oldPow vals c.addr) (deletesOf (isort leAddr cs))

/-- the updates with their priorities (`computeNewPriorities`) -/
def newUps (vals cs : List Validator) : List Validator :=
  computeNewPriorities (updatesOf (isort leAddr cs)) vals (totalBeforeRemovals vals cs)

/-- the validator list after `applyUpdates` and `applyRemovals`, before the final rescale / centre /
sort by power -/
def preNorm (vals cs : List Validator) : List Validator :=
  applyRemovals (applyUpdates vals (newUps vals cs)) (deletesOf (isort leAddr cs))

/-- hypotheses on (old list, change list) in the application phase -/
structure UpdCtx (vals cs : List Validator) : Prop where
  nodup : (vals.map (·.addr)).Nodup
  pos : ∀ v ∈ vals, 0 < v.power
  valid : ValidChanges cs
  known : ∀ c ∈ cs, c.power = 0 → findVal vals c.addr ≠ none

/-! ## `computeNewPriorities` -/

/-- priority given to the change `c` -/
def prioFor (vals : List Validator) (U : Int) (c : Validator) : Int :=
  match findVal vals c.addr with
  | some v => v.prio
  | none => newcomerPrio U

theorem computeNewPriorities_eq (u vals : List Validator) (U : Int) :
    computeNewPriorities u vals U = u.map fun c => { c with prio := prioFor vals U c } := by
  unfold computeNewPriorities
  apply List.map_congr_left
  intro c _
  unfold prioFor
  cases findVal vals c.addr <;> rfl

theorem newUps_eq (vals cs : List Validator) :
    newUps vals cs = (updatesOf (isort leAddr cs)).map
      fun c => { c with prio := prioFor vals (totalBeforeRemovals vals cs) c } :=
  computeNewPriorities_eq _ _ _

theorem newUps_addr (vals cs : List Validator) :
    (newUps vals cs).map (·.addr) = (updatesOf (isort leAddr cs)).map (·.addr) := by
  rw [newUps_eq]; exact map_setPrio_addr _ _

theorem newUps_power (vals cs : List Validator) :
    (newUps vals cs).map (·.power) = (updatesOf (isort leAddr cs)).map (·.power) := by
  rw [newUps_eq]; exact map_setPrio_power _ _

theorem inAddrs_congr (l l' : List Validator) (h : l.map (·.addr) = l'.map (·.addr)) (a : Nat) :
    inAddrs l a = inAddrs l' a := by unfold inAddrs; rw [h]

theorem sortedA_updatesOf (cs : List Validator) (hn : (cs.map (·.addr)).Nodup) :
    SortedA (updatesOf (isort leAddr cs)) := (sortedA_isort cs hn).filter _

theorem sortedA_deletesOf (cs : List Validator) (hn : (cs.map (·.addr)).Nodup) :
    SortedA (deletesOf (isort leAddr cs)) := (sortedA_isort cs hn).filter _

theorem sortedA_newUps (vals cs : List Validator) (hn : (cs.map (·.addr)).Nodup) :
    SortedA (newUps vals cs) := by
  rw [newUps_eq]
  unfold SortedA
  rw [List.pairwise_map]
  exact sortedA_updatesOf cs hn

/-- an address is untouched by the change list iff it is neither updated nor removed -/
theorem notIn_split (cs : List Validator) (a : Nat) :
    (!inAddrs (updatesOf (isort leAddr cs)) a && !inAddrs (deletesOf (isort leAddr cs)) a) =
      (findVal cs a).isNone := by
  have hperm := isort_perm leAddr cs
  have hmem : a ∈ cs.map (·.addr) ↔
      (a ∈ (updatesOf (isort leAddr cs)).map (·.addr) ∨ a ∈ (deletesOf (isort leAddr cs)).map (·.addr)) := by
    constructor
    · intro h
      obtain ⟨c, hc, e⟩ := List.mem_map.mp h
      have hc' := hperm.mem_iff.mpr hc
      by_cases h0 : c.power = 0
      · exact Or.inr (List.mem_map.mpr ⟨c, (mem_deletesOf _ c).mpr ⟨hc', h0⟩, e⟩)
      · exact Or.inl (List.mem_map.mpr ⟨c, (mem_updatesOf _ c).mpr ⟨hc', h0⟩, e⟩)
    · rintro (h | h)
      · obtain ⟨c, hc, e⟩ := List.mem_map.mp h
        exact List.mem_map.mpr ⟨c, hperm.mem_iff.mp ((mem_updatesOf _ c).mp hc).1, e⟩
      · obtain ⟨c, hc, e⟩ := List.mem_map.mp h
        exact List.mem_map.mpr ⟨c, hperm.mem_iff.mp ((mem_deletesOf _ c).mp hc).1, e⟩
  have hnone := findVal_none_iff cs a
  rw [Bool.eq_iff_iff]
  simp only [Bool.and_eq_true, Bool.not_eq_true', inAddrs, decide_eq_false_iff_not,
    Option.isNone_iff_eq_none, hnone, hmem]
  constructor
  · rintro ⟨h1, h2⟩ (h | h)
    · exact h1 h
    · exact h2 h
  · intro h; exact ⟨fun h1 => h (Or.inl h1), fun h2 => h (Or.inr h2)⟩

/-- an updated address is not a removed address (distinct addresses in the change list) -/
theorem updates_not_deleted (cs : List Validator) (hn : (cs.map (·.addr)).Nodup) (u : Validator)
    (hu : u ∈ updatesOf (isort leAddr cs)) : inAddrs (deletesOf (isort leAddr cs)) u.addr = false := by
  have hperm := isort_perm leAddr cs
  have hsn : ((isort leAddr cs).map (·.addr)).Nodup := (hperm.map (·.addr)).nodup_iff.mpr hn
  unfold inAddrs
  simp only [decide_eq_false_iff_not]
  intro hm
  obtain ⟨d, hd, e⟩ := List.mem_map.mp hm
  obtain ⟨hu1, hu2⟩ := (mem_updatesOf _ u).mp hu
  obtain ⟨hd1, hd2⟩ := (mem_deletesOf _ d).mp hd
  have : d = u := eq_of_nodup_map (·.addr) _ hsn d u hd1 hu1 e
  rw [this] at hd2; exact hu2 hd2

/-! ## the list after `applyUpdates` / `applyRemovals` -/

/-- **the application phase**: up to order, the new list is the updates (with their computed
priorities) followed by the old validators that the change list does not mention -/
theorem preNorm_perm (vals cs : List Validator) (h : UpdCtx vals cs) :
    (preNorm vals cs).Perm
      (newUps vals cs ++ vals.filter fun v => (findVal cs v.addr).isNone) ∧
    SortedA (preNorm vals cs) := by
  obtain ⟨hn, hpos, ⟨hcn, hcz, hcp⟩, hknown⟩ := h
  have hperm := isort_perm leAddr cs
  have hes := sortedA_isort vals hn
  have hus := sortedA_newUps vals cs hcn
  have hds := sortedA_deletesOf cs hcn
  have hM := mergeUpd_perm (isort leAddr vals) (newUps vals cs) hes hus
  have hMs := mergeUpd_sorted (isort leAddr vals) (newUps vals cs) hes hus
  have hupsin : ∀ a, inAddrs (newUps vals cs) a = inAddrs (updatesOf (isort leAddr cs)) a :=
    inAddrs_congr _ _ (newUps_addr vals cs)
  -- removed addresses are present in the merged list
  have hsub : ∀ d ∈ deletesOf (isort leAddr cs),
      d.addr ∈ (mergeUpd (isort leAddr vals) (newUps vals cs)).map (·.addr) := by
    intro d hd
    obtain ⟨hd1, hd2⟩ := (mem_deletesOf _ d).mp hd
    have hk := hknown d (hperm.mem_iff.mp hd1) hd2
    cases hf : findVal vals d.addr with
    | none => exact absurd hf hk
    | some v =>
      obtain ⟨hv, hva⟩ := findVal_some_mem vals _ v hf
      have hv' : v ∈ isort leAddr vals := (isort_perm leAddr vals).mem_iff.mpr hv
      have hnot : inAddrs (newUps vals cs) v.addr = false := by
        rw [hupsin, hva]
        unfold inAddrs
        simp only [decide_eq_false_iff_not]
        intro hm
        obtain ⟨u, hu, e⟩ := List.mem_map.mp hm
        have := updates_not_deleted cs hcn u hu
        unfold inAddrs at this
        simp only [decide_eq_false_iff_not] at this
        exact this (e ▸ List.mem_map_of_mem (f := (·.addr)) hd)
      have : v ∈ newUps vals cs ++ (isort leAddr vals).filter (fun e => !inAddrs (newUps vals cs) e.addr) :=
        List.mem_append_right _ (List.mem_filter.mpr ⟨hv', by simp [hnot]⟩)
      exact List.mem_map.mpr ⟨v, hM.mem_iff.mpr this, hva⟩
  have hrem := applyRemovals_eq_filter _ _ hMs hds hsub
  have hdef : preNorm vals cs = (mergeUpd (isort leAddr vals) (newUps vals cs)).filter
      (fun e => !inAddrs (deletesOf (isort leAddr cs)) e.addr) := hrem
  refine ⟨?_, by rw [hdef]; exact hMs.filter _⟩
  rw [hdef]
  refine (hM.filter _).trans ?_
  rw [List.filter_append]
  have h1 : (newUps vals cs).filter (fun e => !inAddrs (deletesOf (isort leAddr cs)) e.addr) =
      newUps vals cs := by
    apply List.filter_eq_self.mpr
    intro x hx
    have hxa : x.addr ∈ (updatesOf (isort leAddr cs)).map (·.addr) := by
      rw [← newUps_addr]; exact List.mem_map_of_mem (f := (·.addr)) hx
    obtain ⟨u, hu, e⟩ := List.mem_map.mp hxa
    have := updates_not_deleted cs hcn u hu
    rw [e] at this
    simp [this]
  rw [h1, List.filter_filter]
  apply List.Perm.append_left
  have h2 : (isort leAddr vals).filter (fun a =>
      (!inAddrs (deletesOf (isort leAddr cs)) a.addr && !inAddrs (newUps vals cs) a.addr)) =
      (isort leAddr vals).filter (fun v => (findVal cs v.addr).isNone) := by
    apply List.filter_congr
    intro v _
    rw [hupsin, Bool.and_comm]
    exact notIn_split cs v.addr
  rw [h2]
  exact (isort_perm leAddr vals).filter _

theorem mem_preNorm (vals cs : List Validator) (h : UpdCtx vals cs) (x : Validator) :
    x ∈ preNorm vals cs ↔ (x ∈ newUps vals cs ∨ (x ∈ vals ∧ findVal cs x.addr = none)) := by
  rw [(preNorm_perm vals cs h).1.mem_iff, List.mem_append, List.mem_filter]
  simp only [Option.isNone_iff_eq_none]

theorem mem_newUps (vals cs : List Validator) (x : Validator) :
    x ∈ newUps vals cs ↔ ∃ c ∈ cs, c.power ≠ 0 ∧
      x = { c with prio := prioFor vals (totalBeforeRemovals vals cs) c } := by
  rw [newUps_eq, List.mem_map]
  have hperm := isort_perm leAddr cs
  constructor
  · rintro ⟨c, hc, rfl⟩
    obtain ⟨h1, h2⟩ := (mem_updatesOf _ c).mp hc
    exact ⟨c, hperm.mem_iff.mp h1, h2, rfl⟩
  · rintro ⟨c, hc, h0, rfl⟩
    exact ⟨c, (mem_updatesOf _ c).mpr ⟨hperm.mem_iff.mpr hc, h0⟩, rfl⟩

/-- the power sum of the new list is the statement-level `newTotal` -/
theorem preNorm_total (vals cs : List Validator) (h : UpdCtx vals cs) :
    sumBy (·.power) (preNorm vals cs) = newTotal vals cs := by
  rw [sumBy_perm _ (preNorm_perm vals cs h).1]
  unfold sumBy
  rw [List.map_append, List.sum_append, newUps_power]
  have hsplit := sumBy_filter_split (·.power) (fun c => decide (c.power = 0)) (isort leAddr cs)
  have hdz : sumBy (·.power) (deletesOf (isort leAddr cs)) = 0 :=
    sumBy_zero _ _ (fun c hc => ((mem_deletesOf _ c).mp hc).2)
  change sumBy (·.power) (isort leAddr cs) = sumBy (·.power) (deletesOf (isort leAddr cs)) +
    sumBy (·.power) (updatesOf (isort leAddr cs)) at hsplit
  have hcs : sumBy (·.power) (isort leAddr cs) = sumBy (·.power) cs := sumBy_perm _ (isort_perm leAddr cs)
  unfold newTotal
  unfold sumBy at *
  omega

theorem preNorm_pos (vals cs : List Validator) (h : UpdCtx vals cs) :
    ∀ x ∈ preNorm vals cs, 0 < x.power := by
  intro x hx
  rcases (mem_preNorm vals cs h x).mp hx with hx | ⟨hx, _⟩
  · obtain ⟨c, hc, h0, rfl⟩ := (mem_newUps vals cs x).mp hx
    have := (h.valid.2.2 c hc).1
    simp only; omega
  · exact h.pos x hx

/-- unless the change list removes every validator and adds nobody, the new list is not empty -/
theorem preNorm_ne_nil (vals cs : List Validator) (h : UpdCtx vals cs) (he : ¬ EmptiesSet vals cs) :
    preNorm vals cs ≠ [] := by
  intro hnil
  apply he
  have hall : ∀ x, x ∉ preNorm vals cs := by rw [hnil]; intro x hx; cases hx
  have hz : ∀ c ∈ cs, c.power = 0 := by
    intro c hc
    apply Classical.byContradiction
    intro h0
    exact hall _ ((mem_preNorm vals cs h _).mpr (Or.inl ((mem_newUps vals cs _).mpr ⟨c, hc, h0, rfl⟩)))
  refine ⟨?_, hz⟩
  intro v hv
  cases hf : findVal cs v.addr with
  | none => exact absurd ((mem_preNorm vals cs h v).mpr (Or.inr ⟨hv, hf⟩)) (hall v)
  | some c =>
    obtain ⟨hc, hca⟩ := findVal_some_mem cs _ c hf
    exact ⟨c, hc, hca, hz c hc⟩

/-! ## `updateTotalVotingPower` -/

theorem sumPowersAux_ok (l : List Validator) (s : Int) (hs : 0 ≤ s) (hp : ∀ v ∈ l, 0 ≤ v.power)
    (hfit : s + sumBy (·.power) l ≤ cap) : sumPowersAux s l = some (s + sumBy (·.power) l) := by
  induction l generalizing s with
  | nil => simp [sumPowersAux]
  | cons x xs ih =>
    have hx := hp x List.mem_cons_self
    have hrest := sumBy_nonneg (·.power) xs (fun y hy => hp y (List.mem_cons_of_mem _ hy))
    rw [sumBy_cons] at hfit
    have ex : safeAddClip s x.power = s + x.power := by
      apply safeAddClip_exact <;> (unfold InRange minI64 maxI64; unfold cap at hfit; omega)
    unfold sumPowersAux
    simp only [ex]
    rw [if_neg (by omega), ih (s + x.power) (by omega) (fun y hy => hp y (List.mem_cons_of_mem _ hy)) (by omega),
      sumBy_cons]
    congr 1; omega

theorem sumPowers_ok (l : List Validator) (hp : ∀ v ∈ l, 0 ≤ v.power) (hfit : sumBy (·.power) l ≤ cap) :
    sumPowers l = some (sumBy (·.power) l) := by
  unfold sumPowers
  rw [sumPowersAux_ok l 0 (by omega) hp (by omega)]; simp

/-! ## the application phase never panics and yields the normalised new list -/

theorem updateTail_ok (vs : ValSet) (cs : List Validator) (h : UpdCtx vs.vals cs)
    (he : ¬ EmptiesSet vs.vals cs) (hcap : newTotal vs.vals cs ≤ cap) :
    updateTail vs (updatesOf (isort leAddr cs)) (deletesOf (isort leAddr cs))
        (totalBeforeRemovals vs.vals cs) =
      .ok { vals := isort lePower (shiftList (rescaleList (2 * newTotal vs.vals cs) (preNorm vs.vals cs))),
            proposer := vs.proposer, total := newTotal vs.vals cs } ∧ 0 < newTotal vs.vals cs := by
  have hpos := preNorm_pos vs.vals cs h
  have htot := preNorm_total vs.vals cs h
  have hne := preNorm_ne_nil vs.vals cs h he
  have hT : 0 < newTotal vs.vals cs := by
    rw [← htot, ← total_eq_sumBy]; exact total_pos _ hne hpos
  have hsum : sumPowers (preNorm vs.vals cs) = some (newTotal vs.vals cs) := by
    rw [sumPowers_ok _ (fun v hv => Int.le_of_lt (hpos v hv)) (by rw [htot]; exact hcap), htot]
  have hemp : (preNorm vs.vals cs).isEmpty = false := by
    cases hl : preNorm vs.vals cs with
    | nil => exact absurd hl hne
    | cons _ _ => rfl
  have eD : I64.mul windowFactor (newTotal vs.vals cs) = 2 * newTotal vs.vals cs := by
    unfold windowFactor
    exact I64.mul_exact _ _ (by unfold InRange minI64 maxI64; unfold cap at hcap; omega)
  have hpanic : rescalePanics (2 * newTotal vs.vals cs) (preNorm vs.vals cs) = false :=
    rescalePanics_false _ _ (by unfold cap at hcap; omega)
  refine ⟨?_, hT⟩
  have hfold : applyRemovals (applyUpdates vs.vals (computeNewPriorities (updatesOf (isort leAddr cs))
      vs.vals (totalBeforeRemovals vs.vals cs))) (deletesOf (isort leAddr cs)) = preNorm vs.vals cs := rfl
  simp only [updateTail, hfold, hsum, hemp, eD, hpanic, Bool.false_eq_true, if_false]

/-- **an acceptable change list is applied**: explicit result, no panic branch -/
theorem update_accepts (vs : ValSet) (cs : List Validator) (hne : cs ≠ [])
    (hn : (vs.vals.map (·.addr)).Nodup) (hpos : ∀ v ∈ vs.vals, 0 < v.power)
    (htot : vs.total = Spec.total vs.vals) (hcap : vs.total ≤ cap)
    (hv : ValidChanges cs) (hk : ∀ c ∈ cs, c.power = 0 → findVal vs.vals c.addr ≠ none)
    (he : ¬ EmptiesSet vs.vals cs) (ho : ¬ cap < newTotal vs.vals cs) :
    updateWithChangeSet vs cs true =
      .ok { vals := isort lePower (shiftList (rescaleList (2 * newTotal vs.vals cs) (preNorm vs.vals cs))),
            proposer := vs.proposer, total := newTotal vs.vals cs } ∧ 0 < newTotal vs.vals cs := by
  have heq := update_verified vs cs hne hn hpos htot hcap hv hk
  have hemp := empty_check_iff vs.vals cs hn hv.1 hk
  have hc : ¬ (numNew (updatesOf (isort leAddr cs)) vs.vals = 0 ∧
      vs.vals.length = (deletesOf (isort leAddr cs)).length) := fun h => he (hemp.mp h)
  rw [if_neg ho, if_neg (by simp only [Bool.and_eq_true, decide_eq_true_eq]; exact hc)] at heq
  rw [heq]
  exact updateTail_ok vs cs ⟨hn, hpos, hv, hk⟩ he (by omega)

/-- **`update_never_panics`**: on a well-formed set `updateWithChangeSet` never takes one of its
panic branches -/
theorem update_never_panics_core (vs : ValSet) (cs : List Validator)
    (hn : (vs.vals.map (·.addr)).Nodup) (hpos : ∀ v ∈ vs.vals, 0 < v.power)
    (htot : vs.total = Spec.total vs.vals) (hcap : vs.total ≤ cap) :
    updateWithChangeSet vs cs true ≠ .error .panic := by
  by_cases hne : cs = []
  · subst hne; simp [updateWithChangeSet]
  · by_cases hR : (¬ ValidChanges cs ∨ (∃ c ∈ cs, c.power = 0 ∧ findVal vs.vals c.addr = none) ∨
        EmptiesSet vs.vals cs ∨ cap < newTotal vs.vals cs)
    · obtain ⟨e, hep, hee⟩ := (update_rejects_iff_core vs cs hne hn hpos htot hcap).mpr hR
      rw [hee]; intro h; injection h with h; exact hep h
    · have hv : ValidChanges cs := Classical.byContradiction fun h => hR (Or.inl h)
      have hk : ∀ c ∈ cs, c.power = 0 → findVal vs.vals c.addr ≠ none :=
        fun c hc h0 hf => hR (Or.inr (Or.inl ⟨c, hc, h0, hf⟩))
      have he : ¬ EmptiesSet vs.vals cs := fun h => hR (Or.inr (Or.inr (Or.inl h)))
      have ho : ¬ cap < newTotal vs.vals cs := fun h => hR (Or.inr (Or.inr (Or.inr h)))
      rw [(update_accepts vs cs hne hn hpos htot hcap hv hk he ho).1]
      intro h; cases h

/-- a successful update of a well-formed set: the change list was acceptable and the result is the
normalised `preNorm` -/
theorem update_ok_form (vs vs' : ValSet) (cs : List Validator) (hne : cs ≠ [])
    (hn : (vs.vals.map (·.addr)).Nodup) (hpos : ∀ v ∈ vs.vals, 0 < v.power)
    (htot : vs.total = Spec.total vs.vals) (hcap : vs.total ≤ cap)
    (hok : updateWithChangeSet vs cs true = .ok vs') :
    UpdCtx vs.vals cs ∧ ¬ EmptiesSet vs.vals cs ∧ newTotal vs.vals cs ≤ cap ∧ 0 < newTotal vs.vals cs ∧
    vs' = { vals := isort lePower (shiftList (rescaleList (2 * newTotal vs.vals cs) (preNorm vs.vals cs))),
            proposer := vs.proposer, total := newTotal vs.vals cs } := by
  have hR : ¬ (¬ ValidChanges cs ∨ (∃ c ∈ cs, c.power = 0 ∧ findVal vs.vals c.addr = none) ∨
      EmptiesSet vs.vals cs ∨ cap < newTotal vs.vals cs) := by
    intro hR
    obtain ⟨e, _, hee⟩ := (update_rejects_iff_core vs cs hne hn hpos htot hcap).mpr hR
    rw [hee] at hok; cases hok
  have hv : ValidChanges cs := Classical.byContradiction fun h => hR (Or.inl h)
  have hk : ∀ c ∈ cs, c.power = 0 → findVal vs.vals c.addr ≠ none :=
    fun c hc h0 hf => hR (Or.inr (Or.inl ⟨c, hc, h0, hf⟩))
  have he : ¬ EmptiesSet vs.vals cs := fun h => hR (Or.inr (Or.inr (Or.inl h)))
  have ho : ¬ cap < newTotal vs.vals cs := fun h => hR (Or.inr (Or.inr (Or.inr h)))
  obtain ⟨h1, h2⟩ := update_accepts vs cs hne hn hpos htot hcap hv hk he ho
  rw [h1] at hok
  injection hok with hok
  exact ⟨⟨hn, hpos, hv, hk⟩, he, by omega, h2, hok.symm⟩

/-! ## what normalisation and the final sort keep -/

theorem exists_ap_setPrio (g : Validator → Int) (l : List Validator) (a : Nat) (p : Int) :
    (∃ v ∈ l.map (fun v => ({ v with prio := g v } : Validator)), v.addr = a ∧ v.power = p) ↔
      ∃ v ∈ l, v.addr = a ∧ v.power = p := by
  constructor
  · rintro ⟨v, hv, h1, h2⟩
    obtain ⟨v0, hv0, rfl⟩ := List.mem_map.mp hv
    exact ⟨v0, hv0, h1, h2⟩
  · rintro ⟨v, hv, h1, h2⟩
    exact ⟨_, List.mem_map.mpr ⟨v, hv, rfl⟩, h1, h2⟩

theorem exists_ap_rescale (D : Int) (l : List Validator) (a : Nat) (p : Int) :
    (∃ v ∈ rescaleList D l, v.addr = a ∧ v.power = p) ↔ ∃ v ∈ l, v.addr = a ∧ v.power = p := by
  unfold rescaleList
  split
  · exact Iff.rfl
  · split
    · exact exists_ap_setPrio _ l a p
    · exact Iff.rfl

theorem exists_ap_shift (l : List Validator) (a : Nat) (p : Int) :
    (∃ v ∈ shiftList l, v.addr = a ∧ v.power = p) ↔ ∃ v ∈ l, v.addr = a ∧ v.power = p :=
  exists_ap_setPrio _ l a p

/-- the final list of an update (rescale, centre, sort by power) has the addresses and powers of
the list before the normalisation -/
theorem final_ap (D : Int) (l : List Validator) (a : Nat) (p : Int) :
    (∃ v ∈ isort lePower (shiftList (rescaleList D l)), v.addr = a ∧ v.power = p) ↔
      ∃ v ∈ l, v.addr = a ∧ v.power = p := by
  rw [← exists_ap_rescale D l a p, ← exists_ap_shift (rescaleList D l) a p]
  have hperm := isort_perm lePower (shiftList (rescaleList D l))
  constructor
  · rintro ⟨v, hv, h⟩; exact ⟨v, hperm.mem_iff.mp hv, h⟩
  · rintro ⟨v, hv, h⟩; exact ⟨v, hperm.mem_iff.mpr hv, h⟩

theorem final_addr (D : Int) (l : List Validator) :
    ((isort lePower (shiftList (rescaleList D l))).map (·.addr)).Perm (l.map (·.addr)) := by
  have := (isort_perm lePower (shiftList (rescaleList D l))).map (·.addr)
  rw [shiftList_addr, rescaleList_addr] at this; exact this

theorem final_power (D : Int) (l : List Validator) :
    ((isort lePower (shiftList (rescaleList D l))).map (·.power)).Perm (l.map (·.power)) := by
  have := (isort_perm lePower (shiftList (rescaleList D l))).map (·.power)
  rw [shiftList_power, rescaleList_power] at this; exact this

/-- membership and powers of the list before the normalisation: old ⊕ changes -/
theorem preNorm_ap (vals cs : List Validator) (h : UpdCtx vals cs) (a : Nat) (p : Int) :
    (∃ v ∈ preNorm vals cs, v.addr = a ∧ v.power = p) ↔
      ((∃ c ∈ cs, c.addr = a ∧ c.power = p ∧ 0 < p) ∨
       ((∃ v ∈ vals, v.addr = a ∧ v.power = p) ∧ findVal cs a = none)) := by
  constructor
  · rintro ⟨v, hv, rfl, rfl⟩
    rcases (mem_preNorm vals cs h v).mp hv with hv | ⟨hv, hf⟩
    · obtain ⟨c, hc, h0, rfl⟩ := (mem_newUps vals cs v).mp hv
      have := (h.valid.2.2 c hc).1
      exact Or.inl ⟨c, hc, rfl, rfl, by simp only; omega⟩
    · exact Or.inr ⟨⟨v, hv, rfl, rfl⟩, hf⟩
  · rintro (⟨c, hc, rfl, rfl, hp⟩ | ⟨⟨v, hv, rfl, rfl⟩, hf⟩)
    · exact ⟨_, (mem_preNorm vals cs h _).mpr (Or.inl ((mem_newUps vals cs _).mpr ⟨c, hc, by omega, rfl⟩)),
        rfl, rfl⟩
    · exact ⟨v, (mem_preNorm vals cs h v).mpr (Or.inr ⟨hv, hf⟩), rfl, rfl⟩

/-! ## newcomers -/

/-- `-(U + U>>3)` without wrap for every total the code can hand in -/
theorem newcomerPrio_exact (U : Int) (h0 : 0 ≤ U) (h1 : U ≤ 2 * cap) : newcomerPrio U = -(U + U / 8) := by
  unfold newcomerPrio I64.neg I64.add I64.shr
  have h8 : ((2 : Int) ^ 3) = 8 := by decide
  rw [h8]
  have hq : 0 ≤ U / 8 := Int.ediv_nonneg h0 (by omega)
  have hq2 : U / 8 ≤ U := Int.ediv_le_self _ h0
  unfold cap at h1
  rw [wrap_of_inRange (U + U / 8) (by unfold InRange minI64 maxI64; omega)]
  exact wrap_of_inRange _ (by unfold InRange minI64 maxI64; omega)

/-- the power removed by the change list -/
def removedPower (vals cs : List Validator) : Int :=
  sumBy (fun c => oldPow vals c.addr) (deletesOf cs)

theorem totalBeforeRemovals_eq (vals cs : List Validator) :
    totalBeforeRemovals vals cs = newTotal vals cs + removedPower vals cs := by
  unfold totalBeforeRemovals removedPower deletesOf
  rw [sumBy_perm _ ((isort_perm leAddr cs).filter _)]

theorem removedPower_bounds (vals cs : List Validator) (h : UpdCtx vals cs) :
    0 ≤ removedPower vals cs ∧ removedPower vals cs ≤ Spec.total vals := by
  have hnn : ∀ v ∈ vals, 0 ≤ v.power := fun v hv => Int.le_of_lt (h.pos v hv)
  constructor
  · exact sumBy_nonneg _ _ (fun c _ => oldPow_nonneg vals hnn c.addr)
  · unfold removedPower
    rw [sumBy_oldPow vals (deletesOf cs) h.nodup (nodup_map_filter _ _ h.valid.1), total_eq_sumBy]
    have h1 := sumBy_filter_split (·.power) (fun v => decide (v.addr ∈ (deletesOf cs).map (·.addr))) vals
    have h2 := sumBy_nonneg (·.power)
      (vals.filter fun x => !(fun v => decide (v.addr ∈ (deletesOf cs).map (·.addr))) x)
      (fun v hv => hnn v (List.mem_filter.mp hv).1)
    simp only at h1 h2
    omega

theorem removedPower_zero (vals cs : List Validator) (h : ∀ c ∈ cs, c.power ≠ 0) :
    removedPower vals cs = 0 := by
  unfold removedPower
  have : deletesOf cs = [] := by
    apply List.filter_eq_nil_iff.mpr
    intro c hc; simp [h c hc]
  rw [this]; rfl

/-- **a newcomer enters with priority `-(U + U/8)`**, `U` = total after the updates and before
the removals; a validator whose power is changed keeps its priority -/
theorem preNorm_priorities (vals cs : List Validator) (h : UpdCtx vals cs) (c : Validator) (hc : c ∈ cs)
    (hp : c.power ≠ 0) :
    (findVal vals c.addr = none →
      ({ c with prio := newcomerPrio (totalBeforeRemovals vals cs) } : Validator) ∈ preNorm vals cs) ∧
    (∀ v, findVal vals c.addr = some v → ({ c with prio := v.prio } : Validator) ∈ preNorm vals cs) := by
  have hm := (mem_preNorm vals cs h { c with prio := prioFor vals (totalBeforeRemovals vals cs) c }).mpr
    (Or.inl ((mem_newUps vals cs _).mpr ⟨c, hc, hp, rfl⟩))
  constructor
  · intro hf
    have : prioFor vals (totalBeforeRemovals vals cs) c = newcomerPrio (totalBeforeRemovals vals cs) := by
      unfold prioFor; rw [hf]
    rw [this] at hm; exact hm
  · intro v hf
    have : prioFor vals (totalBeforeRemovals vals cs) c = v.prio := by unfold prioFor; rw [hf]
    rw [this] at hm; exact hm

/-! ## the normalisation inside an update does not overflow -/

theorem newcomerPrio_bound (U : Int) (h0 : 0 ≤ U) (h1 : U ≤ 2 * cap) :
    -(9 * cap) ≤ 4 * newcomerPrio U ∧ newcomerPrio U ≤ 0 := by
  rw [newcomerPrio_exact U h0 h1]
  have hq : 0 ≤ U / 8 := Int.ediv_nonneg h0 (by omega)
  have d1 := @Int.mul_ediv_self_le U 8 (by omega)
  omega

/-- old priorities in `[−B, B]` with `B ≥ 2.25·cap`: the list before the normalisation is in `[−B, B]` -/
theorem preNorm_bound (vals cs : List Validator) (h : UpdCtx vals cs) (B : Int) (hb : PrioBound B vals)
    (htot : Spec.total vals ≤ cap) (hnt : newTotal vals cs ≤ cap) (h0 : 0 ≤ newTotal vals cs)
    (hB : 9 * cap ≤ 4 * B) : PrioBound B (preNorm vals cs) := by
  obtain ⟨r0, r1⟩ := removedPower_bounds vals cs h
  intro x hx
  rcases (mem_preNorm vals cs h x).mp hx with hx | ⟨hx, _⟩
  · obtain ⟨c, _, _, rfl⟩ := (mem_newUps vals cs x).mp hx
    simp only
    unfold prioFor
    cases hf : findVal vals c.addr with
    | some o => exact hb o (findVal_some_mem vals _ o hf).1
    | none =>
      simp only
      have := newcomerPrio_bound (totalBeforeRemovals vals cs)
        (by rw [totalBeforeRemovals_eq]; omega) (by rw [totalBeforeRemovals_eq]; omega)
      unfold cap at *; omega
  · exact hb x hx

/-- **`update_no_overflow`**: with the old priorities in `[−B, B]`, `2.25·cap ≤ B`,
`2B + 2·cap < 2^63`, the rescale and the centring at the end of an update are the specification's
(no wrap, no clip), and the result is centred with every priority in `[−2T', 2T']` -/
theorem update_normal_form (vals cs : List Validator) (h : UpdCtx vals cs) (he : ¬ EmptiesSet vals cs)
    (B : Int) (hb : PrioBound B vals) (htot : Spec.total vals ≤ cap) (hnt : newTotal vals cs ≤ cap)
    (hB : 9 * cap ≤ 4 * B) (hB2 : 2 * B + 2 * cap ≤ maxI64) :
    let T' := newTotal vals cs
    let out := isort lePower (shiftList (rescaleList (2 * T') (preNorm vals cs)))
    out = isort lePower (Spec.centre (Spec.rescale (2 * T') (preNorm vals cs))) ∧
    (0 ≤ sumPrio out ∧ sumPrio out < out.length) ∧
    (∀ a ∈ out, ∀ b ∈ out, a.prio - b.prio ≤ 2 * T') ∧
    (∀ a ∈ out, -(2 * T') ≤ a.prio ∧ a.prio ≤ 2 * T') := by
  intro T' out
  have hne := preNorm_ne_nil vals cs h he
  have hpos := preNorm_pos vals cs h
  have hT : 0 < T' := by
    show 0 < newTotal vals cs
    rw [← preNorm_total vals cs h, ← total_eq_sumBy]; exact total_pos _ hne hpos
  have hb2 := preNorm_bound vals cs h B hb htot hnt (by omega) hB
  have hr : ∀ v ∈ preNorm vals cs, InRange v.prio := fun v hv => by
    have := hb2 v hv; unfold InRange minI64; unfold maxI64 at hB2 ⊢; unfold cap at hB2; omega
  have hok : RescaleOK (2 * T') (preNorm vals cs) := by
    refine ⟨hne, hr, by omega, by unfold maxI64 at hB2 ⊢; unfold cap at hB hB2 hnt; omega, ?_⟩
    obtain ⟨u, hu, e1⟩ := maxPrio_mem _ hne hr
    obtain ⟨w, hw, e2⟩ := minPrio_mem _ hne hr
    have := hb2 u hu; have := hb2 w hw
    omega
  have hb3 := rescaleList_bound (2 * T') B _ hok hb2
  have hlen1 : (rescaleList (2 * T') (preNorm vals cs)).length = (preNorm vals cs).length :=
    length_of_map_eq (·.addr) _ _ (rescaleList_addr _ _)
  have hne1 : rescaleList (2 * T') (preNorm vals cs) ≠ [] := by
    intro e; rw [e] at hlen1
    cases hl : preNorm vals cs with
    | nil => exact hne hl
    | cons _ _ => rw [hl] at hlen1; simp at hlen1
  have eshift : shiftList (rescaleList (2 * T') (preNorm vals cs)) =
      Spec.centre (rescaleList (2 * T') (preNorm vals cs)) :=
    shiftList_eq_spec B _ hne1 hb3 (by unfold cap at hB2; omega)
  have hperm := isort_perm lePower (shiftList (rescaleList (2 * T') (preNorm vals cs)))
  have hc := Spec.centre_sum _ hne1
  have hlen2 : (Spec.centre (rescaleList (2 * T') (preNorm vals cs))).length =
      (rescaleList (2 * T') (preNorm vals cs)).length :=
    length_of_map_eq (·.addr) _ _ (Spec.centre_addr _)
  have hw := Spec.centre_window _ (2 * T') (rescaleList_window (2 * T') _ hok)
  have hcentred : 0 ≤ sumPrio out ∧ sumPrio out < out.length := by
    show 0 ≤ sumPrio (isort lePower _) ∧ sumPrio (isort lePower _) < (isort lePower _).length
    rw [sumPrio_eq_sumBy, sumBy_perm _ hperm, hperm.length_eq, eshift, ← sumPrio_eq_sumBy, hlen2]
    exact hc
  have hwin : ∀ a ∈ out, ∀ b ∈ out, a.prio - b.prio ≤ 2 * T' := by
    intro a ha b hb'
    have ha' := hperm.mem_iff.mp ha
    have hb'' := hperm.mem_iff.mp hb'
    rw [eshift] at ha' hb''
    exact hw a ha' b hb''
  refine ⟨?_, hcentred, hwin, centred_window_bound out (2 * T') hcentred hwin⟩
  show isort lePower _ = _
  rw [eshift, rescaleList_eq_spec _ _ hok]

end KV.ValSet
