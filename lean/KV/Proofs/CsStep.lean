import KV.Proofs.CsInv
/-! `Inv` is preserved by every input of `Cs.step` (timeouts not from the future of the
current round). -/
namespace KV.Cs

/-! ### commit -/

theorem VLe_append_list (powers : List Nat) (v l : List RoundVotes) : VLe powers v (v ++ l) := by
  induction l generalizing v with
  | nil => simpa using VLe.refl powers v
  | cons a l ih =>
    have h1 := VLe_append powers v a
    have h2 := ih (v ++ [a])
    simpa using h1.trans h2

theorem newHeight_inv {cfg : Config} {σ : State} {s : Nat} (I : InvP cfg σ s) : Inv cfg (newHeight cfg σ) := by
  unfold newHeight
  refine ⟨?_, ?_, ?_, ?_, ?_, Nat.le_refl 1⟩
  · show SI (σ.height + 1) 1 1 (_ :: σ.log)
    exact (I.si.mono (by unfold le3; omega)).cons_none rfl
  · intro a ha
    rcases List.mem_cons.mp ha with rfl | ha
    · trivial
    · exact (I.ag a ha).mono (VLe_append _ _ _) (fun _ h => h)
  · intro blk h; cases h
  · intro blk h; cases h
  · intro x hx
    rcases List.mem_cons.mp hx with rfl | hx
    · show le3 (σ.height + 1) 1 0 (σ.height + 1) 1 0
      unfold le3; omega
    · have := I.sc x hx
      show le3 x.1 x.2.1 0 (σ.height + 1) 1 0
      unfold le3 at *; omega

theorem panic_inv {cfg : Config} {σ : State} {s : Nat} (I : InvP cfg σ s) : InvP cfg (panic σ) s :=
  ⟨I.si.cons_none rfl, by
    intro b hb
    rcases List.mem_cons.mp hb with rfl | hb
    · trivial
    · exact I.ag b hb, I.lk, I.pb, I.sc, I.r1⟩

theorem finalizeCommit_inv {cfg : Config} {σ : State} (I : Inv cfg σ) (h : Nat) :
    Inv cfg (finalizeCommit cfg h σ) := by
  unfold finalizeCommit
  split
  · exact I
  · rename_i hg
    split
    · rename_i b blk hm hp
      split
      · exact panic_inv I
      · rename_i hc1
        split
        · exact panic_inv I
        · rename_i hok
          have hid : blk.id = b := by
            simp at hc1; exact hc1.2
          have hok : blk.ok = true := by simpa using hok
          have hh : h = σ.height := by omega
          have hq : quorum cfg.powers σ.votes .precommit σ.height σ.commitRound (some b) := maj23_sound hm
          have J : InvP cfg (emit (.commit h b) σ) σ.step.toNat :=
            I.emit_none _ rfl (by
              subst hh
              exact ⟨⟨σ.commitRound, hq⟩, blk, I.pb blk hp, hid, hok⟩)
          exact newHeight_inv J
    · exact panic_inv I

theorem tryFinalizeCommit_inv {cfg : Config} {σ : State} (I : Inv cfg σ) (h : Nat) :
    Inv cfg (tryFinalizeCommit cfg h σ) := by
  unfold tryFinalizeCommit
  split
  · split
    · exact finalizeCommit_inv I h
    · exact I
  · exact I

theorem takeLocked_inv {cfg : Config} {σ : State} {s : Nat} (I : InvP cfg σ s) (b : Nat) :
    InvP cfg (takeLocked b σ) s := by
  unfold takeLocked
  split
  · rename_i blk hl
    split
    · exact I.of_eq rfl rfl (Nat.le_refl _) rfl rfl rfl rfl I.lk
        (by intro b' hb'; cases hb'; exact (I.lk blk hl).2)
    · exact I
  · exact I

theorem expectBlock_inv {cfg : Config} {σ : State} {s : Nat} (I : InvP cfg σ s) (b : Nat) :
    InvP cfg (expectBlock b σ) s := by
  unfold expectBlock
  split
  · exact I
  · split
    · exact I
    · exact I.of_eq rfl rfl (Nat.le_refl _) rfl rfl rfl rfl I.lk (by intro b' hb'; cases hb')

theorem commitPrep_inv {cfg : Config} {σ : State} {s : Nat} (I : InvP cfg σ s) (cr : Nat) :
    InvP cfg (commitPrep cfg cr σ) s := by
  unfold commitPrep
  split
  · exact expectBlock_inv (takeLocked_inv I _) _
  · exact I

theorem enterCommit_inv {cfg : Config} {σ : State} (I : Inv cfg σ) (h cr : Nat) :
    Inv cfg (enterCommit cfg h cr σ) := by
  unfold enterCommit
  split
  · exact I
  · rename_i hg
    have hst : σ.step.toNat ≤ 8 := by
      simp only [Step.toNat] at hg ⊢; omega
    apply tryFinalizeCommit_inv
    have J := commitPrep_inv I cr
    exact J.of_eq rfl rfl (by show σ.step.toNat ≤ 8; exact hst) rfl rfl rfl rfl J.lk J.pb

/-! ### propose / new round -/

theorem decideProposal_inv {cfg : Config} {σ : State} {s : Nat} (I : InvP cfg σ s) (nb : Option Nat) (hs : s < 3) :
    InvP cfg (decideProposal nb σ.height σ.round σ) 3 := by
  have key : ∀ pol b, InvP cfg (emit (.signProposal σ.height σ.round pol b) σ) 3 := by
    intro pol b
    refine ⟨?_, ?_, I.lk, I.pb, I.sc, I.r1⟩
    · show SI σ.height σ.round 3 (_ :: σ.log)
      exact I.si.cons_sign rfl (by unfold lt3; omega)
    · intro a ha
      rcases List.mem_cons.mp ha with rfl | ha
      · trivial
      · exact I.ag a ha
  unfold decideProposal
  split
  · exact key _ _
  · split
    · exact key _ _
    · exact I.of_eq rfl rfl (by omega) rfl rfl rfl rfl I.lk I.pb

@[simp] theorem decideProposal_height (nb : Option Nat) (h r : Nat) (σ : State) :
    (decideProposal nb h r σ).height = σ.height := by
  unfold decideProposal; (repeat' split) <;> rfl
@[simp] theorem decideProposal_round (nb : Option Nat) (h r : Nat) (σ : State) :
    (decideProposal nb h r σ).round = σ.round := by
  unfold decideProposal; (repeat' split) <;> rfl

@[simp] theorem proposeBody_height (cfg : Config) (nb : Option Nat) (h r : Nat) (σ : State) :
    (proposeBody cfg nb h r σ).height = σ.height := by
  unfold proposeBody; simp only; split <;> simp
@[simp] theorem proposeBody_round (cfg : Config) (nb : Option Nat) (h r : Nat) (σ : State) :
    (proposeBody cfg nb h r σ).round = σ.round := by
  unfold proposeBody; simp only; split <;> simp

theorem proposeBody_inv {cfg : Config} {σ : State} {s : Nat} (I : InvP cfg σ s) (nb : Option Nat) (hs : s < 3) :
    InvP cfg (proposeBody cfg nb σ.height σ.round σ) 3 := by
  unfold proposeBody
  have J1 := I.schedule σ.height σ.round .propose (by unfold le3; omega)
  simp only
  split
  · exact decideProposal_inv J1 nb hs
  · exact J1.of_eq rfl rfl (by omega) rfl rfl rfl rfl J1.lk J1.pb

theorem proposeDone_inv {cfg : Config} {σ : State} (I : Inv cfg σ) (h : Nat) : Inv cfg (proposeDone cfg h σ) := by
  unfold proposeDone
  split
  · exact enterPrevote_inv I _ _ (Nat.le_refl _)
  · exact I

theorem enterPropose_inv {cfg : Config} {σ : State} (I : Inv cfg σ) (nb : Option Nat) (h r : Nat)
    (hr : r ≤ σ.round) : Inv cfg (enterPropose cfg nb h r σ) := by
  unfold enterPropose
  split
  · exact I
  · rename_i hg
    have hrr : r = σ.round := by omega
    have hh : h = σ.height := by omega
    have hst : σ.step.toNat < 3 := by
      simp only [Step.toNat] at hg ⊢; omega
    subst hrr hh
    have J := proposeBody_inv I nb hst
    apply proposeDone_inv
    exact J.of_eq rfl (by simp) (by simp [Step.toNat]) rfl rfl rfl rfl J.lk J.pb

/-! ### new round -/

theorem addRounds_eq (n : Nat) : ∀ (k r : Nat) (σ : State), ∃ extra, addRounds n k r σ = { σ with votes := σ.votes ++ extra }
  | 0, _, σ => ⟨[], by simp [addRounds]⟩
  | k+1, r, σ => by
    unfold addRounds
    split
    · exact addRounds_eq n k (r+1) σ
    · obtain ⟨extra, he⟩ := addRounds_eq n k (r+1) (addRound n r σ)
      refine ⟨fresh n σ.height r :: extra, ?_⟩
      rw [he]; simp [addRound]

theorem newRoundPrep_spec (cfg : Config) (r : Nat) (σ : State) :
    ∃ extra,
      (newRoundPrep cfg r σ).height = σ.height ∧ (newRoundPrep cfg r σ).round = r ∧
      (newRoundPrep cfg r σ).step = .newRound ∧ (newRoundPrep cfg r σ).log = σ.log ∧
      (newRoundPrep cfg r σ).sched = σ.sched ∧ (newRoundPrep cfg r σ).seen = σ.seen ∧
      (newRoundPrep cfg r σ).locked = σ.locked ∧ (newRoundPrep cfg r σ).votes = σ.votes ++ extra ∧
      ((newRoundPrep cfg r σ).pblock = σ.pblock ∨ (newRoundPrep cfg r σ).pblock = none) := by
  unfold newRoundPrep setRound
  simp only
  split
  · obtain ⟨extra, he⟩ := addRounds_eq (n cfg) (r + 1 + 1 - (σ.hvsRound - 1)) (σ.hvsRound - 1) { σ with round := r, step := Step.newRound }
    refine ⟨extra, ?_⟩
    rw [he]; simp
  · obtain ⟨extra, he⟩ := addRounds_eq (n cfg) (r + 1 + 1 - (σ.hvsRound - 1)) (σ.hvsRound - 1)
      { σ with round := r, step := Step.newRound, proposal := none, pblock := none, parts := none }
    refine ⟨extra, ?_⟩
    rw [he]; simp

theorem newRoundPrep_inv {cfg : Config} {σ : State} (I : Inv cfg σ) (r : Nat)
    (hg : ¬ (r < σ.round ∨ (σ.round = r ∧ σ.step ≠ .newHeight))) : Inv cfg (newRoundPrep cfg r σ) := by
  obtain ⟨extra, hh, hr, hs, hl, hsc, hse, hlk, hv, hpb⟩ := newRoundPrep_spec cfg r σ
  have hpos : σ.round < r ∨ (r = σ.round ∧ σ.step.toNat ≤ 2) := by
    by_cases h1 : σ.round < r
    · exact Or.inl h1
    · refine Or.inr ⟨by omega, ?_⟩
      have : σ.step = .newHeight := by
        by_cases h2 : σ.step = .newHeight
        · exact h2
        · exact absurd (Or.inr ⟨by omega, h2⟩) hg
      rw [this]; simp [Step.toNat]
  show InvP cfg (newRoundPrep cfg r σ) (newRoundPrep cfg r σ).step.toNat
  rw [hs]
  refine I.of_le hh ?_ hl hsc (by rw [hv]; exact VLe_append_list _ _ _) (by rw [hse]; exact fun _ h => h) ?_ ?_
  · rw [hr]; have : Step.newRound.toNat = 2 := rfl; omega
  · rw [hlk, hse]; exact I.lk
  · rw [hse]; intro blk hb
    rcases hpb with h | h
    · rw [h] at hb; exact I.pb blk hb
    · rw [h] at hb; cases hb

/-! ### `releaseStale` (F36 fix) -/

theorem releaseStale_cases (cfg : Config) (σ : State) :
    releaseStale cfg σ = σ ∨
    (releaseStale cfg σ = unlock σ ∧ ∃ lb, σ.locked = some lb ∧ stalePolka cfg σ lb.id = true) := by
  unfold releaseStale
  split
  · rename_i lb hl
    split
    · rename_i hs; exact Or.inr ⟨rfl, lb, hl, hs⟩
    · exact Or.inl rfl
  · exact Or.inl rfl

/-- what `stalePolka` found: a polka for another value at a round in `(lockedRound, round]` -/
theorem stalePolka_spec {cfg : Config} {σ : State} {b : Nat} (h : stalePolka cfg σ b = true) :
    ∃ r' x, σ.lockedRound < r' ∧ r' ≤ σ.round ∧ x ≠ some b ∧
      maj23 cfg.powers (σ.slots .prevote σ.height r') = some x := by
  unfold stalePolka at h
  rw [List.any_eq_true] at h
  obtain ⟨r', hr', hc⟩ := h
  rw [List.mem_range] at hr'
  simp only [Bool.and_eq_true, decide_eq_true_eq] at hc
  obtain ⟨h1, h2⟩ := hc
  cases hm : maj23 cfg.powers (σ.slots .prevote σ.height r') with
  | none => rw [hm] at h2; cases h2
  | some x =>
    rw [hm] at h2
    exact ⟨r', x, h1, by omega, by simpa using h2, hm⟩

/-- and conversely: if there is one, `stalePolka` finds it -/
theorem stalePolka_complete {cfg : Config} {σ : State} {b r' : Nat} {x : Target} (h1 : σ.lockedRound < r')
    (h2 : r' ≤ σ.round) (h3 : x ≠ some b) (h4 : maj23 cfg.powers (σ.slots .prevote σ.height r') = some x) :
    stalePolka cfg σ b = true := by
  unfold stalePolka
  rw [List.any_eq_true]
  refine ⟨r', List.mem_range.mpr (by omega), ?_⟩
  simp only [Bool.and_eq_true, decide_eq_true_eq]
  refine ⟨h1, ?_⟩
  rw [h4]
  simpa using h3

@[simp] theorem releaseStale_height (cfg : Config) (σ : State) : (releaseStale cfg σ).height = σ.height := by
  rcases releaseStale_cases cfg σ with e | ⟨e, -⟩ <;> rw [e] <;> rfl
@[simp] theorem releaseStale_round (cfg : Config) (σ : State) : (releaseStale cfg σ).round = σ.round := by
  rcases releaseStale_cases cfg σ with e | ⟨e, -⟩ <;> rw [e] <;> rfl
@[simp] theorem releaseStale_step (cfg : Config) (σ : State) : (releaseStale cfg σ).step = σ.step := by
  rcases releaseStale_cases cfg σ with e | ⟨e, -⟩ <;> rw [e] <;> rfl
@[simp] theorem releaseStale_votes (cfg : Config) (σ : State) : (releaseStale cfg σ).votes = σ.votes := by
  rcases releaseStale_cases cfg σ with e | ⟨e, -⟩ <;> rw [e] <;> rfl
@[simp] theorem releaseStale_log (cfg : Config) (σ : State) : (releaseStale cfg σ).log = σ.log := by
  rcases releaseStale_cases cfg σ with e | ⟨e, -⟩ <;> rw [e] <;> rfl
@[simp] theorem releaseStale_seen (cfg : Config) (σ : State) : (releaseStale cfg σ).seen = σ.seen := by
  rcases releaseStale_cases cfg σ with e | ⟨e, -⟩ <;> rw [e] <;> rfl

@[simp] theorem releaseStale_sched (cfg : Config) (σ : State) : (releaseStale cfg σ).sched = σ.sched := by
  rcases releaseStale_cases cfg σ with e | ⟨e, -⟩ <;> rw [e] <;> rfl
@[simp] theorem releaseStale_ttp (cfg : Config) (σ : State) : (releaseStale cfg σ).ttp = σ.ttp := by
  rcases releaseStale_cases cfg σ with e | ⟨e, -⟩ <;> rw [e] <;> rfl
@[simp] theorem releaseStale_commitRound (cfg : Config) (σ : State) : (releaseStale cfg σ).commitRound = σ.commitRound := by
  rcases releaseStale_cases cfg σ with e | ⟨e, -⟩ <;> rw [e] <;> rfl
@[simp] theorem releaseStale_halted (cfg : Config) (σ : State) : (releaseStale cfg σ).halted = σ.halted := by
  rcases releaseStale_cases cfg σ with e | ⟨e, -⟩ <;> rw [e] <;> rfl
@[simp] theorem releaseStale_proposal (cfg : Config) (σ : State) : (releaseStale cfg σ).proposal = σ.proposal := by
  rcases releaseStale_cases cfg σ with e | ⟨e, -⟩ <;> rw [e] <;> rfl
@[simp] theorem releaseStale_pblock (cfg : Config) (σ : State) : (releaseStale cfg σ).pblock = σ.pblock := by
  rcases releaseStale_cases cfg σ with e | ⟨e, -⟩ <;> rw [e] <;> rfl
@[simp] theorem releaseStale_parts (cfg : Config) (σ : State) : (releaseStale cfg σ).parts = σ.parts := by
  rcases releaseStale_cases cfg σ with e | ⟨e, -⟩ <;> rw [e] <;> rfl
@[simp] theorem releaseStale_hvsRound (cfg : Config) (σ : State) : (releaseStale cfg σ).hvsRound = σ.hvsRound := by
  rcases releaseStale_cases cfg σ with e | ⟨e, -⟩ <;> rw [e] <;> rfl
@[simp] theorem releaseStale_catchup (cfg : Config) (σ : State) : (releaseStale cfg σ).catchup = σ.catchup := by
  rcases releaseStale_cases cfg σ with e | ⟨e, -⟩ <;> rw [e] <;> rfl
@[simp] theorem releaseStale_validRound (cfg : Config) (σ : State) : (releaseStale cfg σ).validRound = σ.validRound := by
  rcases releaseStale_cases cfg σ with e | ⟨e, -⟩ <;> rw [e] <;> rfl
@[simp] theorem releaseStale_validB (cfg : Config) (σ : State) : (releaseStale cfg σ).validB = σ.validB := by
  rcases releaseStale_cases cfg σ with e | ⟨e, -⟩ <;> rw [e] <;> rfl
@[simp] theorem releaseStale_added (cfg : Config) (σ : State) : (releaseStale cfg σ).added = σ.added := by
  rcases releaseStale_cases cfg σ with e | ⟨e, -⟩ <;> rw [e] <;> rfl

theorem releaseStale_unlocked (cfg : Config) (σ : State) (h : σ.locked = none) : releaseStale cfg σ = σ := by
  unfold releaseStale
  rw [h]

theorem releaseStale_inv {cfg : Config} {σ : State} (I : Inv cfg σ) : Inv cfg (releaseStale cfg σ) := by
  rcases releaseStale_cases cfg σ with e | ⟨e, -⟩
  · rw [e]; exact I
  · rw [e]; exact unlock_inv I

theorem enterNewRound_inv {cfg : Config} {σ : State} (I : Inv cfg σ) (nb : Option Nat) (h r : Nat) :
    Inv cfg (enterNewRound cfg nb h r σ) := by
  unfold enterNewRound
  split
  · exact I
  · split
    · exact I
    · rename_i hg _
      have hh : h = σ.height := by omega
      have J := releaseStale_inv (newRoundPrep_inv I r (fun hc => hg (Or.inr hc)))
      obtain ⟨extra, hh', hr', -⟩ := newRoundPrep_spec cfg r σ
      simp only
      split
      · split
        · exact J.schedule h r .newRound (by rw [releaseStale_height, releaseStale_round, hh', hr', hh]; unfold le3; omega)
        · exact J
      · exact enterPropose_inv J nb h r (by rw [releaseStale_round, hr']; exact Nat.le_refl _)

/-! round facts needed at the call sites -/

theorem enterPrevote_round_ge (cfg : Config) (h r : Nat) (σ : State) : σ.round ≤ (enterPrevote cfg h r σ).round := by
  unfold enterPrevote
  split
  · exact Nat.le_refl _
  · show σ.round ≤ r; omega

theorem enterPropose_round_ge (cfg : Config) (nb : Option Nat) (h r : Nat) (σ : State) (hr : σ.round = r) :
    r ≤ (enterPropose cfg nb h r σ).round := by
  unfold enterPropose
  split
  · omega
  · have key : ∀ τ : State, τ.round = r → r ≤ (proposeDone cfg h τ).round := by
      intro τ hτ
      unfold proposeDone
      split
      · have := enterPrevote_round_ge cfg h τ.round τ
        omega
      · omega
    exact key _ rfl

/-- not in the commit step (F37: there `enterNewRound` returns): the node is at round `r` or later -/
theorem enterNewRound_round_ge (cfg : Config) (nb : Option Nat) (r : Nat) (σ : State) (hc : σ.step ≠ .commit) :
    r ≤ (enterNewRound cfg nb σ.height r σ).round := by
  unfold enterNewRound
  by_cases hg : σ.height ≠ σ.height ∨ r < σ.round ∨ (σ.round = r ∧ σ.step ≠ .newHeight)
  · rw [if_pos hg]; omega
  · rw [if_neg hg, if_neg hc]
    obtain ⟨extra, hh', hr', -⟩ := newRoundPrep_spec cfg r σ
    simp only
    split
    · split
      · simp [hr']
      · rw [releaseStale_round]; omega
    · exact enterPropose_round_ge cfg nb _ r _ (by rw [releaseStale_round]; exact hr')

/-- `enterNewRound` does nothing in the commit step (F37 fix) -/
theorem enterNewRound_commit (cfg : Config) (nb : Option Nat) (h r : Nat) (σ : State) (hc : σ.step = .commit) :
    enterNewRound cfg nb h r σ = σ := by
  unfold enterNewRound
  by_cases hg : σ.height ≠ h ∨ r < σ.round ∨ (σ.round = r ∧ σ.step ≠ .newHeight)
  · rw [if_pos hg]
  · rw [if_neg hg, if_pos hc]

/-- the form the callers use: unless it is (still) in the commit step, the node is at round `r` or later -/
theorem enterNewRound_round_ge' (cfg : Config) (nb : Option Nat) (r : Nat) (σ : State) :
    (enterNewRound cfg nb σ.height r σ).step ≠ .commit → r ≤ (enterNewRound cfg nb σ.height r σ).round := by
  by_cases hc : σ.step = .commit
  · rw [enterNewRound_commit cfg nb _ r σ hc]
    intro h; exact absurd hc h
  · exact fun _ => enterNewRound_round_ge cfg nb r σ hc

/-! ### inputs -/

theorem setProposal_inv {cfg : Config} {σ : State} (I : Inv cfg σ) (src : Nat) (sigok : Bool) (h r pol id : Nat) :
    Inv cfg (setProposal cfg src sigok h r pol id σ) := by
  unfold setProposal
  (repeat' split) <;> first | exact I | exact I.of_eq rfl rfl (Nat.le_refl _) rfl rfl rfl rfl I.lk I.pb

theorem storeBlock_inv {cfg : Config} {σ : State} (I : Inv cfg σ) (blk : Blk) : Inv cfg (storeBlock cfg blk σ) := by
  have J : Inv cfg { σ with pblock := some blk, parts := some (blk.id, true), seen := (σ.height, blk) :: σ.seen } :=
    I.of_le rfl (Or.inr ⟨rfl, Nat.le_refl _⟩) rfl rfl (VLe.refl _ _) (fun x hx => List.mem_cons_of_mem _ hx)
      (fun b hb => ⟨(I.lk b hb).1, List.mem_cons_of_mem _ (I.lk b hb).2⟩)
      (by intro b hb; cases hb; exact List.mem_cons_self ..)
  unfold storeBlock
  simp only
  split
  · split
    · exact J.of_eq rfl rfl (Nat.le_refl _) rfl rfl rfl rfl J.lk J.pb
    · exact J
  · exact J

theorem afterBlock_inv {cfg : Config} {σ : State} (I : Inv cfg σ) (h : Nat) : Inv cfg (afterBlock cfg h σ) := by
  unfold afterBlock
  split
  · simp only
    have J := enterPrevote_inv I h σ.round (Nat.le_refl _)
    split
    · exact enterPrecommit_inv J h _ (Nat.le_refl _)
    · exact J
  · split
    · exact tryFinalizeCommit_inv I h
    · exact I

theorem addBlock_inv {cfg : Config} {σ : State} (I : Inv cfg σ) (h id : Nat) (ok dec : Bool) :
    Inv cfg (addBlock cfg h id ok dec σ) := by
  unfold addBlock
  split
  · exact I
  · split
    · exact I
    · split
      · exact I
      · split
        · exact I.of_eq rfl rfl (Nat.le_refl _) rfl rfl rfl rfl I.lk I.pb
        · exact afterBlock_inv (storeBlock_inv I _) h

theorem ensureRound_inv {cfg : Config} {σ σ1 : State} (I : Inv cfg σ) (peer r : Nat)
    (h : ensureRound cfg peer r σ = some σ1) : Inv cfg σ1 ∧ σ1.height = σ.height := by
  unfold ensureRound at h
  split at h
  · cases h; exact ⟨I, rfl⟩
  · split at h
    · cases h
      refine ⟨?_, rfl⟩
      exact I.of_le rfl (Or.inr ⟨rfl, Nat.le_refl _⟩) rfl rfl (VLe_append _ _ _) (fun _ h => h) I.lk I.pb
    · cases h

theorem polkaUpdate_inv {cfg : Config} {σ : State} (I : Inv cfg σ) (vr : Nat) (m : Option Target) :
    Inv cfg (polkaUpdate vr m σ) ∧ (polkaUpdate vr m σ).height = σ.height ∧ (polkaUpdate vr m σ).round = σ.round := by
  have hU : ∀ bid, Inv cfg (polkaUnlock vr bid σ) ∧ (polkaUnlock vr bid σ).height = σ.height ∧
      (polkaUnlock vr bid σ).round = σ.round := by
    intro bid
    unfold polkaUnlock
    split
    · split
      · exact ⟨unlock_inv I, rfl, rfl⟩
      · exact ⟨I, rfl, rfl⟩
    · exact ⟨I, rfl, rfl⟩
  have hV : ∀ (τ : State) b, Inv cfg τ → Inv cfg (polkaValid vr b τ) ∧ (polkaValid vr b τ).height = τ.height ∧
      (polkaValid vr b τ).round = τ.round := by
    intro τ b J
    unfold polkaValid
    split
    · simp only
      split
      · split
        · exact ⟨J.of_eq rfl rfl (Nat.le_refl _) rfl rfl rfl rfl J.lk J.pb, rfl, rfl⟩
        · exact ⟨J.of_eq rfl rfl (Nat.le_refl _) rfl rfl rfl rfl J.lk J.pb, rfl, rfl⟩
      · split
        · exact ⟨J.of_eq rfl rfl (Nat.le_refl _) rfl rfl rfl rfl J.lk (by intro b' hb'; cases hb'), rfl, rfl⟩
        · exact ⟨J.of_eq rfl rfl (Nat.le_refl _) rfl rfl rfl rfl J.lk (by intro b' hb'; cases hb'), rfl, rfl⟩
    · exact ⟨J, rfl, rfl⟩
  unfold polkaUpdate
  split
  · simp only
    split
    · obtain ⟨a, b, c⟩ := hU _
      obtain ⟨a', b', c'⟩ := hV _ _ a
      exact ⟨a', by rw [b', b], by rw [c', c]⟩
    · exact hU _
  · exact ⟨I, rfl, rfl⟩

theorem prevoteSwitch_inv {cfg : Config} {σ : State} (I : Inv cfg σ) (nb : Option Nat) (h vr : Nat)
    (m : Option Target) (any : Bool) : Inv cfg (prevoteSwitch cfg nb h vr m any σ) := by
  unfold prevoteSwitch
  split
  · exact enterNewRound_inv I nb h vr
  · split
    · rename_i hc
      have hle : vr ≤ σ.round := by
        simp only [Bool.and_eq_true, beq_iff_eq] at hc; omega
      split
      · split
        · exact enterPrecommit_inv I h vr hle
        · split
          · exact enterPrevoteWait_inv I h vr hle
          · exact I
      · split
        · exact enterPrevoteWait_inv I h vr hle
        · exact I
    · split
      · split
        · split
          · exact enterPrevote_inv I h _ (Nat.le_refl _)
          · exact I
        · exact I
      · exact I

theorem afterPrevote_inv {cfg : Config} {σ : State} (I : Inv cfg σ) (nb : Option Nat) (vr : Nat) :
    Inv cfg (afterPrevote cfg nb vr σ) := by
  unfold afterPrevote
  exact prevoteSwitch_inv (polkaUpdate_inv I vr _).1 nb _ vr _ _

theorem afterPrecommit_inv {cfg : Config} {σ : State} (I : Inv cfg σ) (nb : Option Nat) (vr : Nat) :
    Inv cfg (afterPrecommit cfg nb vr σ) := by
  unfold afterPrecommit
  simp only
  split
  · have J1 := enterNewRound_inv I nb σ.height vr
    have J2 := enterPrecommit_inv' J1 σ.height vr (enterNewRound_round_ge' cfg nb vr σ)
    split
    · exact enterCommit_inv J2 _ _
    · exact enterPrecommitWait_inv J2 _ _
  · split
    · exact enterPrecommitWait_inv (enterNewRound_inv I nb _ _) _ _
    · exact I

theorem addVote_inv {cfg : Config} {σ : State} (I : Inv cfg σ) (nb : Option Nat) (peer idx : Nat) (t : VType)
    (h r : Nat) (tgt : Target) (sigok : Bool) : Inv cfg (addVote cfg nb peer idx t h r tgt sigok σ) := by
  unfold addVote
  split
  · exact I
  · split
    · exact I
    · rename_i hh
      split
      · exact I
      · rename_i σ1 he
        obtain ⟨J, hh1⟩ := ensureRound_inv I peer r he
        split
        · exact J
        · split
          · rename_i hslot
            have hh' : h = σ.height := by omega
            have K : Inv cfg { σ1 with votes := σ1.votes.map (setSlot t idx tgt h r), added := true } :=
              J.of_le rfl (Or.inr ⟨rfl, Nat.le_refl _⟩) rfl rfl
                (VLe_setSlot _ _ _ _ _ _ _ (by rw [← State.slots_eq]; exact hslot)) (fun _ h => h) J.lk J.pb
            split
            · exact afterPrevote_inv K nb r
            · exact afterPrecommit_inv K nb r
          · exact J

/-- timeouts never come from the future of the current round: the hypothesis under which a
timeout is handled safely (it holds for every timeout the node scheduled, `Inv.sc`) -/
def TimeoutOk (σ : State) : Input → Prop
  | .timeout h r _ => h = σ.height → r ≤ σ.round
  | _ => True

theorem handleTimeout_inv {cfg : Config} {σ : State} (I : Inv cfg σ) (nb : Option Nat) (h r : Nat) (s : Step)
    (hok : h = σ.height → r ≤ σ.round) : Inv cfg (handleTimeout cfg nb h r s σ) := by
  unfold handleTimeout
  split
  · exact I
  · rename_i hg
    have hr : r ≤ σ.round := hok (by omega)
    split
    · exact enterNewRound_inv I nb h 1
    · exact enterPropose_inv I nb h 1 I.r1
    · exact enterPrevote_inv I h r hr
    · exact enterPrecommit_inv I h r hr
    · exact enterNewRound_inv (enterPrecommit_inv I h r hr) nb h (r + 1)
    · exact panic_inv I

end KV.Cs
