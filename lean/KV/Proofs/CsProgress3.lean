import KV.Proofs.CsProgress2
/-! Timeouts make progress; round skips (C04). -/
namespace KV.Cs
set_option linter.unusedSimpArgs false

/-! ### (3) a fired timeout moves the node on -/

def b2n (b : Bool) : Nat := if b then 1 else 0

/-- the node advanced: next height, or same height and a larger (round, step, ttp) -/
def Progress (σ σ' : State) : Prop :=
  σ'.height = σ.height + 1 ∨
  (σ'.height = σ.height ∧ lt3 σ.round σ.step.toNat (b2n σ.ttp) σ'.round σ'.step.toNat (b2n σ'.ttp))

theorem timeout_newHeight_progress (cfg : Config) (nb : Option Nat) (σ : State) (hs : σ.step = .newHeight) :
    Progress σ (handleTimeout cfg nb σ.height σ.round .newHeight σ) ∨ σ.round ≠ 1 := by
  by_cases hr : σ.round = 1
  · left
    unfold handleTimeout
    rw [if_neg (by rw [hs]; simp [toNat_newHeight])]
    simp only
    have h1 := enterNewRound_same cfg nb σ
    have h2 := enterNewRound_height cfg nb σ.height σ.round σ
    rw [hr] at h1 h2
    right
    refine ⟨h2, ?_⟩
    have := h1.2 hs
    unfold lt3
    refine Or.inr ⟨by rw [h1.1, hr], Or.inl ?_⟩
    rw [hs, toNat_newHeight]; omega
  · exact Or.inr hr

theorem timeout_newRound_progress (cfg : Config) (nb : Option Nat) (σ : State) (hs : σ.step = .newRound)
    (hr : σ.round = 1) : Progress σ (handleTimeout cfg nb σ.height σ.round .newRound σ) := by
  unfold handleTimeout
  rw [if_neg (by rw [hs]; simp [toNat_newRound])]
  simp only
  have h1 := enterPropose_step cfg nb σ
  rw [hr] at h1
  right
  refine ⟨by simp, ?_⟩
  unfold lt3
  refine Or.inr ⟨by rw [h1.1, hr], Or.inl ?_⟩
  rw [hs, toNat_newRound]; omega

theorem timeout_propose_progress (cfg : Config) (nb : Option Nat) (σ : State) (hs : σ.step = .propose) :
    Progress σ (handleTimeout cfg nb σ.height σ.round .propose σ) := by
  unfold handleTimeout
  rw [if_neg (by rw [hs]; simp [toNat_propose])]
  simp only
  have h1 := enterPrevote_step cfg σ
  right
  refine ⟨by simp, ?_⟩
  unfold lt3
  refine Or.inr ⟨by rw [h1.1], Or.inl ?_⟩
  rw [h1.2.2 (by rw [hs]; simp [toNat_propose]), hs, toNat_propose, toNat_prevote]; omega

theorem timeout_prevoteWait_progress (cfg : Config) (nb : Option Nat) (σ : State) (hs : σ.step = .prevoteWait) :
    Progress σ (handleTimeout cfg nb σ.height σ.round .prevoteWait σ) := by
  unfold handleTimeout
  rw [if_neg (by rw [hs]; simp [toNat_prevoteWait])]
  simp only
  have h1 := enterPrecommit_step cfg σ
  right
  refine ⟨by simp, ?_⟩
  unfold lt3
  refine Or.inr ⟨by rw [h1.1], Or.inl ?_⟩
  rw [h1.2.2.1 (by rw [hs]; simp [toNat_prevoteWait]), hs, toNat_precommit, toNat_prevoteWait]; omega

/-- the PrecommitWait timeout (armed by `ttp`) moves a node that is not yet in Commit to the next
round (in step Commit `handleTimeout` ignores it: `ti.Step < rs.Step`) -/
theorem timeout_precommitWait_progress (cfg : Config) (nb : Option Nat) (σ : State) (hs : σ.step ≠ .commit) :
    (handleTimeout cfg nb σ.height σ.round .precommitWait σ).height = σ.height ∧
    σ.round + 1 ≤ (handleTimeout cfg nb σ.height σ.round .precommitWait σ).round := by
  unfold handleTimeout
  rw [if_neg (by
    have : σ.step.toNat ≤ 7 := by
      cases hst : σ.step <;> simp [Step.toNat] <;> exact absurd hst hs
    simp [toNat_precommitWait]; omega)]
  simp only
  have hst := enterPrecommit_step cfg σ
  have hnc : (enterPrecommit cfg σ.height σ.round σ).step ≠ .commit := by
    by_cases h6 : σ.step.toNat < 6
    · rw [hst.2.2.1 h6]; decide
    · rw [hst.2.2.2 (by omega)]; exact hs
  have hge := enterNewRound_round_ge cfg nb (σ.round + 1) (enterPrecommit cfg σ.height σ.round σ) hnc
  rw [enterPrecommit_height] at hge
  exact ⟨by simp, hge⟩

/-! ### (4) round skip -/

/-- +2/3 any prevotes for a later round (vote already in the set): the node moves there -/
theorem afterPrevote_round_skip (cfg : Config) (nb : Option Nat) (vr : Nat) (σ : State) (hr : σ.round < vr)
    (hc : σ.step ≠ .commit) (hany : hasAny cfg.powers (σ.slots .prevote σ.height vr) = true) :
    (afterPrevote cfg nb vr σ).height = σ.height ∧ vr ≤ (afterPrevote cfg nb vr σ).round := by
  unfold afterPrevote
  simp only [hany]
  have k := polkaUpdate_keeps vr (maj23 cfg.powers (σ.slots .prevote σ.height vr)) σ
  unfold prevoteSwitch
  rw [if_pos (by rw [k.2.1]; simp [hr])]
  have := enterNewRound_round_ge cfg nb vr (polkaUpdate vr (maj23 cfg.powers (σ.slots .prevote σ.height vr)) σ)
    (by rw [k.2.2.1]; exact hc)
  rw [k.1] at this
  exact ⟨by rw [enterNewRound_height, k.1], this⟩

theorem enterPrecommit_round_ge' (cfg : Config) (h r : Nat) (σ : State) (hr : r ≤ σ.round) :
    r ≤ (enterPrecommit cfg h r σ).round := by
  rw [enterPrecommit_le cfg h r σ hr]
  split
  · exact hr
  · exact Nat.le_refl _

/-- +2/3 any precommits for a later round (vote already in the set): the node moves there (or
commits) -/
theorem afterPrecommit_round_skip (cfg : Config) (nb : Option Nat) (vr : Nat) (σ : State) (hr : σ.round < vr)
    (hc : σ.step ≠ .commit) (hany : hasAny cfg.powers (σ.slots .precommit σ.height vr) = true) :
    (afterPrecommit cfg nb vr σ).height = σ.height + 1 ∨
    ((afterPrecommit cfg nb vr σ).height = σ.height ∧ vr ≤ (afterPrecommit cfg nb vr σ).round) := by
  have hge := enterNewRound_round_ge cfg nb vr σ hc
  unfold afterPrecommit
  simp only
  split
  · have hp := enterPrecommit_round_ge' cfg σ.height vr _ hge
    have hph : (enterPrecommit cfg σ.height vr (enterNewRound cfg nb σ.height vr σ)).height = σ.height := by simp
    split
    · have hc := (enterCommit_spec cfg vr (enterPrecommit cfg σ.height vr (enterNewRound cfg nb σ.height vr σ))).1
      rw [hph] at hc
      rcases hc with h | h
      · exact Or.inl h
      · exact Or.inr ⟨h.1, by rw [h.2.1]; exact hp⟩
    · exact Or.inr ⟨by simp, by simpa using hp⟩
  · rw [if_pos (by simp [hany]; omega)]
    exact Or.inr ⟨by simp, by simpa using hge⟩

/-! ### connecting `addVote` with its two branches -/

/-- `enterX` and friends never touch the flag `added` -/
theorem addVote_accepted (cfg : Config) (nb : Option Nat) (peer idx : Nat) (t : VType) (h r : Nat) (tgt : Target)
    (sigok : Bool) (σ : State) :
    addVote cfg nb peer idx t h r tgt sigok σ = σ ∨
    (∃ σ1, ensureRound cfg peer r σ = some σ1 ∧ addVote cfg nb peer idx t h r tgt sigok σ = σ1) ∨
    (h = σ.height ∧ ∃ σ2 : State, σ2.height = σ.height ∧ σ2.round = σ.round ∧ σ2.step = σ.step ∧ σ2.ttp = σ.ttp ∧
      σ2.sched = σ.sched ∧ σ2.added = true ∧
      addVote cfg nb peer idx t h r tgt sigok σ =
        (match t with
         | .prevote => afterPrevote cfg nb r σ2
         | .precommit => afterPrecommit cfg nb r σ2)) := by
  unfold addVote
  split
  · exact Or.inl rfl
  · split
    · exact Or.inl rfl
    · rename_i hh
      split
      · exact Or.inl rfl
      · rename_i σ1 he
        obtain ⟨e1, e2, e3, e4, e5, -⟩ := ensureRound_spec peer r he
        split
        · exact Or.inr (Or.inl ⟨σ1, he, rfl⟩)
        · split
          · refine Or.inr (Or.inr ⟨by omega, { σ1 with votes := σ1.votes.map (setSlot t idx tgt h r), added := true },
              e1, e2, e3, e4, e5, rfl, ?_⟩)
            cases t <;> rfl
          · exact Or.inr (Or.inl ⟨σ1, he, rfl⟩)

/-- in step Prevote, the prevote branch for a vote of the node's round leaves the vote sets alone -/
theorem afterPrevote_same_round (cfg : Config) (nb : Option Nat) (σ : State) (hs : σ.step = .prevote) :
    (afterPrevote cfg nb σ.round σ).votes = σ.votes ∧ (afterPrevote cfg nb σ.round σ).height = σ.height ∧
    (afterPrevote cfg nb σ.round σ).round = σ.round := by
  by_cases hany : hasAny cfg.powers (σ.slots .prevote σ.height σ.round) = true
  · have := afterPrevote_leaves_prevote cfg nb σ hs hany
    simp only at this
    exact ⟨this.2.2.1, this.1, this.2.1⟩
  · have hany : hasAny cfg.powers (σ.slots .prevote σ.height σ.round) = false := by simpa using hany
    have k := polkaUpdate_keeps σ.round (maj23 cfg.powers (σ.slots .prevote σ.height σ.round)) σ
    unfold afterPrevote
    simp only [hany]
    unfold prevoteSwitch
    rw [if_neg (by simp)]
    rw [if_pos (by rw [k.2.1, k.2.2.1, hs]; simp [toNat_prevote])]
    have hp := enterPrecommit_step cfg (polkaUpdate σ.round (maj23 cfg.powers (σ.slots .prevote σ.height σ.round)) σ)
    rw [k.1, k.2.1] at hp
    split
    · split
      · exact ⟨by simp [k.2.2.2.2.2.1], by simp [k.1], hp.1⟩
      · simp only [Bool.false_eq_true, if_false]
        exact ⟨k.2.2.2.2.2.1, k.1, k.2.1⟩
    · simp only [Bool.false_eq_true, if_false]
      exact ⟨k.2.2.2.2.2.1, k.1, k.2.1⟩

end KV.Cs
