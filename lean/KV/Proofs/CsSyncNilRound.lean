import KV.Proofs.CsSyncNilStep
/-! One node in a failed round without a proposal (C04, `KV/Props/C04Rot.lean`): stages `NB`
(boundary, not locked), `T1` (prevoted nil), `T2` (precommitted nil), the PrecommitWait timeout
that takes the node to the boundary of the next round.  The faulty validators' slots hold anything
(votes that arrived before the boundary); during the round they are silent.  Core Lean only. -/
namespace KV.Cs.Sync

/-- every vote set has `k` slots of both types -/
def Lens2 (k : Nat) (vs : List RoundVotes) : Prop := ∀ rv ∈ vs, rv.prevotes.length = k ∧ rv.precommits.length = k

theorem Lens2.setSlot {k : Nat} {vs : List RoundVotes} (L : Lens2 k vs) (t : VType) (idx : Nat) (tgt : Target)
    (h r : Nat) : Lens2 k (vs.map (setSlot t idx tgt h r)) := by
  intro rv hm
  obtain ⟨rv0, hm0, e⟩ := List.mem_map.mp hm
  obtain ⟨l1, l2⟩ := L rv0 hm0
  rw [← e]
  unfold KV.Cs.setSlot
  split
  · cases t <;> simp [l1, l2]
  · exact ⟨l1, l2⟩

theorem Lens2.slots {k : Nat} {vs : List RoundVotes} (L : Lens2 k vs) (t : VType) (h r : Nat)
    (hex : (findRV vs h r).isSome = true) : (slotsV vs t h r).length = k := by
  unfold slotsV
  cases hf : findRV vs h r with
  | none => rw [hf] at hex; cases hex
  | some rv =>
    have hm : rv ∈ vs := List.mem_of_find?_eq_some hf
    cases t
    · exact (L rv hm).1
    · exact (L rv hm).2

theorem addRounds_lens2 (k : Nat) : ∀ (j r : Nat) (σ : State), Lens2 k σ.votes → Lens2 k (addRounds k j r σ).votes
  | 0, _, _, hl => hl
  | j + 1, r, σ, hl => by
    unfold addRounds
    split
    · exact addRounds_lens2 k j (r + 1) σ hl
    · apply addRounds_lens2 k j (r + 1)
      intro rv hm
      rcases List.mem_append.mp hm with h | h
      · exact hl rv h
      · simp only [List.mem_singleton] at h
        rw [h]; simp [fresh]

theorem slotsV_append_exists (v e : List RoundVotes) (t : VType) (h r : Nat)
    (hex : (findRV v h r).isSome = true) : slotsV (v ++ e) t h r = slotsV v t h r := by
  unfold slotsV findRV at *
  rw [List.find?_append]
  cases hf : List.find? (fun rv => rv.height == h && rv.round == r) v with
  | none => rw [hf] at hex; cases hex
  | some x => rfl

theorem findRV_append_exists (v e : List RoundVotes) (h r : Nat)
    (hex : (findRV v h r).isSome = true) : (findRV (v ++ e) h r).isSome = true := by
  unfold findRV at *
  rw [List.find?_append]
  cases hf : List.find? (fun rv => rv.height == h && rv.round == r) v with
  | none => rw [hf] at hex; cases hex
  | some x => rfl

section
variable (cfg : Config) (F : Nat → Bool) (h r : Nat)

/-- what all stages of the failed round share -/
structure NBase (σ : State) : Prop where
  nh : σ.halted = false
  hh : σ.height = h
  hr : σ.round = r
  prop : σ.proposal = none
  pb : σ.pblock = none
  parts : σ.parts = none
  lk : σ.locked = none
  vb : σ.validB = none
  vr : σ.validRound = 0
  hvs : σ.hvsRound = r + 1
  lens : Lens2 (n cfg) σ.votes
  ex0 : (findRV σ.votes h r).isSome = true
  ex1 : (findRV σ.votes h (r + 1)).isSome = true

/-- the boundary of round (h, r): step Propose, nothing accepted, not locked, no valid block, the
Propose timeout armed -/
structure NB (σ : State) : Prop where
  base : NBase cfg h r σ
  st : σ.step = .propose
  ttp : σ.ttp = false
  sch : (h, r, Step.propose) ∈ σ.sched

/-- prevoted nil, no nil polka yet -/
structure T1 (σ : State) : Prop where
  base : NBase cfg h r σ
  st : σ.step = .prevote ∨ σ.step = .prevoteWait
  ttp : σ.ttp = false
  pvO : CorrOnlyT F none (slotsV σ.votes .prevote h r)
  pvNo : isMaj cfg.powers (slotsV σ.votes .prevote h r) none = false
  pcE : CorrEmpty F (slotsV σ.votes .precommit h r)
  sgv : Action.signVote .prevote h r none ∈ σ.log

/-- precommitted nil; the PrecommitWait timeout is armed as soon as +2/3 precommits are in -/
structure T2 (σ : State) : Prop where
  base : NBase cfg h r σ
  st : σ.step = .precommit
  pvO : CorrOnlyT F none (slotsV σ.votes .prevote h r)
  pcO : CorrOnlyT F none (slotsV σ.votes .precommit h r)
  tt : σ.ttp = true → (h, r, Step.precommitWait) ∈ σ.sched
  wait : hasAny cfg.powers (slotsV σ.votes .precommit h r) = true → σ.ttp = true
  sg : Action.signVote .precommit h r none ∈ σ.log

theorem NBase.stored {σ : State} (B : NBase cfg h r σ) (t : VType) (idx : Nat) (tgt : Target) :
    NBase cfg h r (stored t idx tgt h r σ) := by
  have hex : ∀ r', (findRV σ.votes h r').isSome = true →
      (findRV (σ.votes.map (setSlot t idx tgt h r)) h r').isSome = true := by
    intro r' hx
    rw [findRV_map_setSlot]
    cases hf : findRV σ.votes h r' with
    | none => rw [hf] at hx; cases hx
    | some x => rfl
  exact ⟨B.nh, B.hh, B.hr, B.prop, B.pb, B.parts, B.lk, B.vb, B.vr, B.hvs, B.lens.setSlot t idx tgt h r, hex r B.ex0,
    hex (r + 1) B.ex1⟩

/-- **the Propose timeout fires**: the node prevotes nil -/
theorem NB.timeout {σ : State} (S : NB cfg h r σ) (fm : FaultyMinority cfg.powers F) (hv : isVal cfg = true)
    (ce : ∀ t, CorrEmpty F (slotsV σ.votes t h r)) (nb : Option Nat) :
    T1 cfg F h r (step cfg σ nb (.timeout h r .propose)) := by
  obtain ⟨B, st, ttp, _⟩ := S
  rw [step_timeout_propose cfg σ nb h r B.nh B.hh B.hr st B.lk B.pb hv]
  exact ⟨⟨B.nh, B.hh, B.hr, B.prop, B.pb, B.parts, B.lk, B.vb, B.vr, B.hvs, B.lens, B.ex0, B.ex1⟩, Or.inl rfl, ttp,
    (ce .prevote).onlyT none, isMaj_corrEmpty (ce .prevote) fm _, ce .precommit, List.mem_cons_self ..⟩

/-- a nil vote of the round from a correct validator: ignored (the slot is taken), or stored -/
theorem nil_vote_cases {σ : State} (B : NBase cfg h r σ) (nb : Option Nat) (j : Nat) (t : VType) :
    (step cfg σ nb (.vote j j t h r none true) = { σ with added := false } ∧
      ¬ (j < n cfg ∧ (slotsV σ.votes t h r)[j]? = some none)) ∨
    ((j < n cfg ∧ (slotsV σ.votes t h r)[j]? = some none) ∧
      step cfg σ nb (.vote j j t h r none true) =
        match t with
        | .prevote => afterPrevote cfg nb r (stored t j none h r σ)
        | .precommit => afterPrecommit cfg nb r (stored t j none h r σ)) := by
  have hh := B.hh
  subst hh
  rw [step_vote_cases cfg nb j j t r none true σ B.nh B.ex0]
  by_cases hc : j < n cfg ∧ (slotsV σ.votes t σ.height r)[j]? = some none
  · right; rw [if_pos ⟨rfl, hc⟩]; exact ⟨hc, rfl⟩
  · left; rw [if_neg (fun hx => hc hx.2)]; exact ⟨rfl, hc⟩

theorem filled_ofT {s : Slots} {x : Target} {idx : Nat} (hl : idx < s.length) (hc : CorrOnlyT F x s)
    (hF : F idx = false) (hne : s[idx]? ≠ some none) : s[idx]? = some (some x) := by
  have e : s[idx]? = some s[idx] := List.getElem?_eq_getElem hl
  rcases hc idx _ hF e with e' | e'
  · rw [e'] at e; exact absurd e hne
  · rw [e'] at e; exact e

/-- the slot of validator `j` of round `r` holds a nil vote -/
def HasN (t : VType) (j : Nat) (σ : State) : Prop := (slotsV σ.votes t h r)[j]? = some (some none)

/-- `T1` without "no nil polka yet" -/
structure U1 (σ : State) : Prop where
  base : NBase cfg h r σ
  st : σ.step = .prevote ∨ σ.step = .prevoteWait
  ttp : σ.ttp = false
  pvO : CorrOnlyT F none (slotsV σ.votes .prevote h r)
  pcE : CorrEmpty F (slotsV σ.votes .precommit h r)
  sgv : Action.signVote .prevote h r none ∈ σ.log

theorem u1_afterPrevote {τ : State} (P : U1 cfg F h r τ) (fm : FaultyMinority cfg.powers F)
    (hv : isVal cfg = true) (nb : Option Nat) :
    (T1 cfg F h r (afterPrevote cfg nb r τ) ∨ T2 cfg F h r (afterPrevote cfg nb r τ)) ∧
    (afterPrevote cfg nb r τ).votes = τ.votes := by
  obtain ⟨⟨nh, hh, hr, prop, pb, parts, lk, vb, vr, hvs, lens, ex0, ex1⟩, st, ttp, pvO, pcE, sgv⟩ := P
  subst hh
  have hs4 : 4 ≤ τ.step.toNat := by rcases st with s | s <;> rw [s] <;> decide
  have hs6 : τ.step.toNat < 6 := by rcases st with s | s <;> rw [s] <;> decide
  cases hmaj : isMaj cfg.powers (slotsV τ.votes .prevote τ.height r) none with
  | false =>
    have hm : maj23 cfg.powers (slotsV τ.votes .prevote τ.height r) = none := by
      rw [maj23_corrOnlyT pvO fm, if_neg (by simp [hmaj])]
    rw [afterPrevote_noMaj cfg nb r τ hm hr hs4]
    split
    · rcases st with s | s
      · rw [enterPrevoteWait_fires τ.height r τ rfl hr (by rw [s]; decide)]
        exact ⟨Or.inl ⟨⟨nh, rfl, rfl, prop, pb, parts, lk, vb, vr, hvs, lens, ex0, ex1⟩, Or.inr rfl, ttp, pvO, hmaj,
          pcE, List.mem_cons_of_mem _ sgv⟩, rfl⟩
      · rw [enterPrevoteWait_noop τ.height r τ hr (by rw [s]; decide)]
        exact ⟨Or.inl ⟨⟨nh, rfl, hr, prop, pb, parts, lk, vb, vr, hvs, lens, ex0, ex1⟩, Or.inr s, ttp, pvO, hmaj, pcE,
          sgv⟩, rfl⟩
    · exact ⟨Or.inl ⟨⟨nh, rfl, hr, prop, pb, parts, lk, vb, vr, hvs, lens, ex0, ex1⟩, st, ttp, pvO, hmaj, pcE, sgv⟩, rfl⟩
  | true =>
    have hm : maj23 cfg.powers (slotsV τ.votes .prevote τ.height r) = some none := by
      rw [maj23_corrOnlyT pvO fm, if_pos hmaj]
    rw [afterPrevote_nilPolka cfg nb r τ hm hr hs4 lk]
    rw [enterPrecommit_fires cfg τ.height r τ rfl hr hs6]
    rw [doPrecommit_nil cfg r τ hv hm lk]
    refine ⟨Or.inr ⟨⟨nh, rfl, rfl, prop, pb, parts, lk, vb, vr, hvs, lens, ex0, ex1⟩, rfl, pvO, pcE.onlyT none,
      fun ht => ?_, fun ha => ?_, ?_⟩, rfl⟩
    · have : τ.ttp = true := ht
      rw [ttp] at this; cases this
    · have : hasAny cfg.powers (slotsV τ.votes .precommit τ.height r) = true := ha
      rw [hasAny_corrEmpty pcE fm] at this; cases this
    · show _ ∈ _ :: τ.log
      rw [hr]
      exact List.mem_cons_self ..

theorem t2_afterPrevote {τ : State} (S : T2 cfg F h r τ) (fm : FaultyMinority cfg.powers F) (nb : Option Nat) :
    afterPrevote cfg nb r τ = τ := by
  obtain ⟨⟨nh, hh, hr, prop, pb, parts, lk, vb, vr, hvs, lens, ex0, ex1⟩, st, pvO, pcO, tt, wait, sg⟩ := S
  subst hh
  cases hmaj : isMaj cfg.powers (slotsV τ.votes .prevote τ.height r) none with
  | false =>
    have hm : maj23 cfg.powers (slotsV τ.votes .prevote τ.height r) = none := by
      rw [maj23_corrOnlyT pvO fm, if_neg (by simp [hmaj])]
    rw [afterPrevote_noMaj cfg nb r τ hm hr (by rw [st]; decide)]
    split
    · exact enterPrevoteWait_noop τ.height r τ hr (by rw [st]; decide)
    · rfl
  | true =>
    have hm : maj23 cfg.powers (slotsV τ.votes .prevote τ.height r) = some none := by
      rw [maj23_corrOnlyT pvO fm, if_pos hmaj]
    rw [afterPrevote_nilPolka cfg nb r τ hm hr (by rw [st]; decide) lk]
    exact enterPrecommit_noop cfg τ.height r τ hr (by rw [st]; decide)

/-- `T2` without the PrecommitWait bookkeeping of the vote just stored -/
structure U2 (σ : State) : Prop where
  base : NBase cfg h r σ
  st : σ.step = .precommit
  pvO : CorrOnlyT F none (slotsV σ.votes .prevote h r)
  pcO : CorrOnlyT F none (slotsV σ.votes .precommit h r)
  tt : σ.ttp = true → (h, r, Step.precommitWait) ∈ σ.sched
  sg : Action.signVote .precommit h r none ∈ σ.log

theorem u2_afterPrecommit {τ : State} (P : U2 cfg F h r τ) (fm : FaultyMinority cfg.powers F) (nb : Option Nat) :
    T2 cfg F h r (afterPrecommit cfg nb r τ) ∧ (afterPrecommit cfg nb r τ).votes = τ.votes := by
  obtain ⟨⟨nh, hh, hr, prop, pb, parts, lk, vb, vr, hvs, lens, ex0, ex1⟩, st, pvO, pcO, tt, sg⟩ := P
  subst hh
  have key : ∀ (ha : hasAny cfg.powers (slotsV τ.votes .precommit τ.height r) = true),
      T2 cfg F τ.height r (enterPrecommitWait τ.height r τ) ∧ (enterPrecommitWait τ.height r τ).votes = τ.votes := by
    intro ha
    rw [enterPrecommitWait_cases τ.height r τ rfl hr]
    split
    · rename_i ht
      exact ⟨⟨⟨nh, rfl, hr, prop, pb, parts, lk, vb, vr, hvs, lens, ex0, ex1⟩, st, pvO, pcO, tt, fun _ => ht, sg⟩, rfl⟩
    · exact ⟨⟨⟨nh, rfl, hr, prop, pb, parts, lk, vb, vr, hvs, lens, ex0, ex1⟩, st, pvO, pcO,
        fun _ => List.mem_cons_self .., fun _ => rfl, List.mem_cons_of_mem _ sg⟩, rfl⟩
  cases hmaj : isMaj cfg.powers (slotsV τ.votes .precommit τ.height r) none with
  | false =>
    have hm : maj23 cfg.powers (slotsV τ.votes .precommit τ.height r) = none := by
      rw [maj23_corrOnlyT pcO fm, if_neg (by simp [hmaj])]
    rw [afterPrecommit_noMaj cfg nb r τ hm hr (by rw [st]; decide)]
    split
    · rename_i ha; exact key ha
    · rename_i ha
      exact ⟨⟨⟨nh, rfl, hr, prop, pb, parts, lk, vb, vr, hvs, lens, ex0, ex1⟩, st, pvO, pcO, tt,
        fun ha' => absurd ha' ha, sg⟩, rfl⟩
  | true =>
    have hm : maj23 cfg.powers (slotsV τ.votes .precommit τ.height r) = some none := by
      rw [maj23_corrOnlyT pcO fm, if_pos hmaj]
    rw [afterPrecommit_nil cfg nb r τ hm hr st]
    exact key (hasAny_of_isMaj hmaj)

end
end KV.Cs.Sync
