import KV.Proofs.ValSetPerm
import KV.Proofs.ValSetArith
/-!
# The verification phase of `updateWithChangeSet` (C12 `update_rejects_iff`)

`processChanges` succeeds exactly on change lists with distinct non-zero addresses and powers in
`[0, cap]`; `verifyRemovals` fails exactly on a removal of a non-member; `verifyUpdates` (deltas in
ascending order, wrapping accumulation) fails exactly when the resulting total exceeds the cap —
including the argument that no intermediate value leaves `int64`.
-/
namespace KV.ValSet
open KV.I64

/-! ## sums -/

def sumBy (f : Validator → Int) (l : List Validator) : Int := (l.map f).sum

@[simp] theorem sumBy_nil (f : Validator → Int) : sumBy f [] = 0 := rfl
@[simp] theorem sumBy_cons (f : Validator → Int) (x : Validator) (l : List Validator) :
    sumBy f (x :: l) = f x + sumBy f l := by simp [sumBy]

theorem sumBy_perm (f : Validator → Int) {l l' : List Validator} (h : l.Perm l') :
    sumBy f l = sumBy f l' := by
  induction h with
  | nil => rfl
  | cons x _ ih => simp [ih]
  | swap x y l => simp; omega
  | trans _ _ ih1 ih2 => rw [ih1, ih2]

theorem sumBy_filter_split (f : Validator → Int) (p : Validator → Bool) (l : List Validator) :
    sumBy f l = sumBy f (l.filter p) + sumBy f (l.filter fun x => !p x) := by
  induction l with
  | nil => rfl
  | cons x xs ih =>
    by_cases hp : p x <;> simp [List.filter, hp, ih] <;> omega

theorem sumBy_nonneg (f : Validator → Int) (l : List Validator) (h : ∀ x ∈ l, 0 ≤ f x) :
    0 ≤ sumBy f l := by
  induction l with
  | nil => simp
  | cons x xs ih =>
    have := h x List.mem_cons_self
    have := ih (fun y hy => h y (List.mem_cons_of_mem _ hy))
    simp; omega

theorem sumBy_zero (f : Validator → Int) (l : List Validator) (h : ∀ x ∈ l, f x = 0) :
    sumBy f l = 0 := by
  induction l with
  | nil => simp
  | cons x xs ih =>
    have := h x List.mem_cons_self
    have := ih (fun y hy => h y (List.mem_cons_of_mem _ hy))
    simp; omega

theorem sumBy_congr (f g : Validator → Int) (l : List Validator) (h : ∀ x ∈ l, f x = g x) :
    sumBy f l = sumBy g l := by
  induction l with
  | nil => simp
  | cons x xs ih =>
    have := h x List.mem_cons_self
    have := ih (fun y hy => h y (List.mem_cons_of_mem _ hy))
    simp; omega

theorem sumBy_sub (f g : Validator → Int) (l : List Validator) :
    sumBy (fun x => f x - g x) l = sumBy f l - sumBy g l := by
  induction l with
  | nil => simp
  | cons x xs ih => simp [ih]; omega

theorem total_eq_sumBy (l : List Validator) : Spec.total l = sumBy (·.power) l := rfl

/-! ## lookups -/

/-- power of the member with address `a` (0 for a non-member) -/
def oldPow (vals : List Validator) (a : Nat) : Int :=
  match findVal vals a with
  | some v => v.power
  | none => 0

theorem findVal_cons (v : Validator) (vs : List Validator) (a : Nat) :
    findVal (v :: vs) a = if v.addr = a then some v else findVal vs a := by
  unfold findVal; simp only [List.find?_cons]
  by_cases h : v.addr = a <;> simp [h]

theorem findVal_none_iff (vals : List Validator) (a : Nat) :
    findVal vals a = none ↔ a ∉ vals.map (·.addr) := by
  induction vals with
  | nil => simp [findVal]
  | cons v vs ih =>
    rw [findVal_cons]
    by_cases h : v.addr = a
    · simp [h]
    · simp only [if_neg h, ih, List.map_cons, List.mem_cons]
      constructor
      · intro h1 h2; rcases h2 with h2 | h2
        · exact h h2.symm
        · exact h1 h2
      · intro h1 h2; exact h1 (Or.inr h2)

theorem findVal_some_mem (vals : List Validator) (a : Nat) (v : Validator) (h : findVal vals a = some v) :
    v ∈ vals ∧ v.addr = a := by
  unfold findVal at h
  have h1 := List.mem_of_find?_eq_some h
  have h2 := List.find?_some h
  exact ⟨h1, by simpa using h2⟩

theorem findVal_isSome_iff (vals : List Validator) (a : Nat) :
    (findVal vals a).isSome ↔ a ∈ vals.map (·.addr) := by
  have := findVal_none_iff vals a
  cases h : findVal vals a with
  | none => simp [h] at this ⊢; exact this
  | some v => simp [h] at this ⊢; exact this

theorem findVal_of_mem_nodup (vals : List Validator) (hn : (vals.map (·.addr)).Nodup) (v : Validator)
    (hv : v ∈ vals) : findVal vals v.addr = some v := by
  induction vals with
  | nil => cases hv
  | cons x xs ih =>
    rw [List.map_cons, List.nodup_cons] at hn
    rw [findVal_cons]
    rcases List.mem_cons.mp hv with rfl | hv
    · simp
    · have : x.addr ≠ v.addr := fun e => hn.1 (e ▸ List.mem_map_of_mem (f := (·.addr)) hv)
      rw [if_neg this]; exact ih hn.2 hv

/-- the power of the members with address `a`, summed, is `oldPow` (distinct addresses) -/
theorem total_filter_addr (vals : List Validator) (hn : (vals.map (·.addr)).Nodup) (a : Nat) :
    sumBy (·.power) (vals.filter fun v => decide (v.addr = a)) = oldPow vals a := by
  induction vals with
  | nil => simp [oldPow, findVal]
  | cons x xs ih =>
    rw [List.map_cons, List.nodup_cons] at hn
    unfold oldPow
    rw [findVal_cons]
    by_cases h : x.addr = a
    · simp only [List.filter, h, decide_true, if_true, sumBy_cons]
      have hz : xs.filter (fun v => decide (v.addr = a)) = [] := by
        apply List.filter_eq_nil_iff.mpr
        intro y hy; simp only [decide_eq_true_eq]
        intro e; exact hn.1 (h ▸ e ▸ List.mem_map_of_mem (f := (·.addr)) hy)
      rw [hz]; simp
    · simp only [List.filter, h, decide_false, if_false]
      have := ih hn.2; unfold oldPow at this; exact this

theorem sumBy_filter_or (f : Validator → Int) (p q : Validator → Bool) (l : List Validator)
    (hd : ∀ x ∈ l, ¬ (p x = true ∧ q x = true)) :
    sumBy f (l.filter fun x => p x || q x) = sumBy f (l.filter p) + sumBy f (l.filter q) := by
  induction l with
  | nil => rfl
  | cons x xs ih =>
    have hx := hd x List.mem_cons_self
    have := ih (fun y hy => hd y (List.mem_cons_of_mem _ hy))
    by_cases hp : p x <;> by_cases hq : q x <;> simp_all [List.filter] <;> omega

/-- double counting: summing the old powers over a list of distinct addresses is summing the
powers of the members carrying one of these addresses -/
theorem sumBy_oldPow (vals s : List Validator) (hv : (vals.map (·.addr)).Nodup)
    (hs : (s.map (·.addr)).Nodup) :
    sumBy (fun c => oldPow vals c.addr) s =
      sumBy (·.power) (vals.filter fun v => decide (v.addr ∈ s.map (·.addr))) := by
  induction s with
  | nil =>
    have : (vals.filter fun v => decide (v.addr ∈ ([] : List Validator).map (·.addr))) = [] := by
      apply List.filter_eq_nil_iff.mpr; intro x _; simp
    rw [this]; simp
  | cons c cs ih =>
    rw [List.map_cons, List.nodup_cons] at hs
    have e : (vals.filter fun v => decide (v.addr ∈ (c :: cs).map (·.addr))) =
        vals.filter fun v => decide (v.addr = c.addr) || decide (v.addr ∈ cs.map (·.addr)) := by
      apply List.filter_congr; intro x _; simp
    rw [e, sumBy_filter_or, sumBy_cons, ih hs.2, total_filter_addr vals hv]
    intro x _ ⟨h1, h2⟩
    simp only [decide_eq_true_eq] at h1 h2
    exact hs.1 (h1 ▸ h2)


/-! ## `processChanges` -/

/-- no element repeats the address of its predecessor (`prev` for the head) -/
def NoAdj : Nat → List Validator → Prop
  | _, [] => True
  | prev, c :: cs => c.addr ≠ prev ∧ NoAdj c.addr cs

def PowOK (l : List Validator) : Prop := ∀ c ∈ l, 0 ≤ c.power ∧ c.power ≤ cap

def updatesOf (l : List Validator) : List Validator := l.filter fun c => !decide (c.power = 0)
def deletesOf (l : List Validator) : List Validator := l.filter fun c => decide (c.power = 0)

theorem scanChanges_ok (prev : Nat) (l : List Validator) (h1 : NoAdj prev l) (h2 : PowOK l) :
    scanChanges prev l = .ok (updatesOf l, deletesOf l) := by
  induction l generalizing prev with
  | nil => rfl
  | cons c cs ih =>
    obtain ⟨ha, hrest⟩ := h1
    obtain ⟨p1, p2⟩ := h2 c List.mem_cons_self
    unfold scanChanges
    rw [if_neg ha, if_neg (by omega), if_neg (by omega),
      ih c.addr hrest (fun x hx => h2 x (List.mem_cons_of_mem _ hx))]
    by_cases hz : c.power = 0 <;> simp [updatesOf, deletesOf, List.filter, hz]

theorem scanChanges_ok_inv (prev : Nat) (l : List Validator) (u r : List Validator)
    (h : scanChanges prev l = .ok (u, r)) : NoAdj prev l ∧ PowOK l := by
  induction l generalizing prev u r with
  | nil => exact ⟨trivial, fun c hc => by cases hc⟩
  | cons c cs ih =>
    unfold scanChanges at h
    split at h
    · cases h
    · rename_i ha
      split at h
      · cases h
      · rename_i hneg
        split at h
        · cases h
        · rename_i hcap
          cases hrec : scanChanges c.addr cs with
          | error e => rw [hrec] at h; cases h
          | ok ur =>
            obtain ⟨u', r'⟩ := ur
            obtain ⟨i1, i2⟩ := ih c.addr u' r' hrec
            refine ⟨⟨ha, i1⟩, ?_⟩
            intro x hx
            rcases List.mem_cons.mp hx with rfl | hx
            · omega
            · exact i2 x hx

theorem scanChanges_error_class (prev : Nat) (l : List Validator) (e : Err)
    (h : scanChanges prev l = .error e) : e = .dup ∨ e = .neg ∨ e = .cap := by
  induction l generalizing prev with
  | nil => cases h
  | cons c cs ih =>
    unfold scanChanges at h
    split at h
    · cases h; exact Or.inl rfl
    · split at h
      · cases h; exact Or.inr (Or.inl rfl)
      · split at h
        · cases h; exact Or.inr (Or.inr rfl)
        · cases hrec : scanChanges c.addr cs with
          | error e' =>
            rw [hrec] at h
            have : e' = e := by simpa using h
            subst this
            exact ih c.addr hrec
          | ok ur =>
            rw [hrec] at h
            obtain ⟨u', r'⟩ := ur
            simp only at h
            split at h <;> cases h

/-- on an address-sorted list: no adjacent repetition ⇔ all addresses above `prev` and distinct -/
theorem noAdj_sorted_iff (l : List Validator) (hs : l.Pairwise (fun a b => leAddr a b = true))
    (prev : Nat) (hp : ∀ c ∈ l, prev ≤ c.addr) :
    NoAdj prev l ↔ (∀ c ∈ l, prev < c.addr) ∧ (l.map (·.addr)).Nodup := by
  induction l generalizing prev with
  | nil => simp [NoAdj]
  | cons c cs ih =>
    rw [List.pairwise_cons] at hs
    have hle : ∀ d ∈ cs, c.addr ≤ d.addr := by
      intro d hd; have := hs.1 d hd; simpa [leAddr] using this
    have hc := hp c List.mem_cons_self
    simp only [NoAdj, ih hs.2 c.addr hle, List.map_cons, List.nodup_cons, List.mem_cons,
      List.mem_map]
    constructor
    · rintro ⟨h1, h2, h3⟩
      refine ⟨?_, ?_, h3⟩
      · intro x hx; rcases hx with rfl | hx
        · omega
        · have := h2 x hx; omega
      · rintro ⟨d, hd, e⟩; have := h2 d hd; omega
    · rintro ⟨h1, h2, h3⟩
      refine ⟨?_, ?_, h3⟩
      · have := h1 c (Or.inl rfl); omega
      · intro d hd
        have := hle d hd
        have : d.addr ≠ c.addr := fun e => h2 ⟨d, hd, e⟩
        omega

/-- what `processChanges` accepts -/
def ValidChanges (cs : List Validator) : Prop :=
  (cs.map (·.addr)).Nodup ∧ (∀ c ∈ cs, c.addr ≠ 0) ∧ PowOK cs

theorem noAdj_isort_iff (cs : List Validator) :
    NoAdj 0 (isort leAddr cs) ↔ (∀ c ∈ cs, c.addr ≠ 0) ∧ (cs.map (·.addr)).Nodup := by
  have hp := isort_perm leAddr cs
  rw [noAdj_sorted_iff _ (isort_sorted leAddr leAddr_total leAddr_trans cs) 0 (fun _ _ => Nat.zero_le _),
    (hp.map (·.addr)).nodup_iff]
  constructor
  · rintro ⟨h1, h2⟩; exact ⟨fun c hc => by have := h1 c (hp.mem_iff.mpr hc); omega, h2⟩
  · rintro ⟨h1, h2⟩; exact ⟨fun c hc => by have := h1 c (hp.mem_iff.mp hc); omega, h2⟩

theorem powOK_isort_iff (cs : List Validator) : PowOK (isort leAddr cs) ↔ PowOK cs := by
  have hp := isort_perm leAddr cs
  exact ⟨fun h c hc => h c (hp.mem_iff.mpr hc), fun h c hc => h c (hp.mem_iff.mp hc)⟩

theorem processChanges_ok (cs : List Validator) (h : ValidChanges cs) :
    processChanges cs = .ok (updatesOf (isort leAddr cs), deletesOf (isort leAddr cs)) := by
  obtain ⟨h1, h2, h3⟩ := h
  unfold processChanges
  exact scanChanges_ok 0 _ ((noAdj_isort_iff cs).mpr ⟨h2, h1⟩) ((powOK_isort_iff cs).mpr h3)

theorem processChanges_ok_inv (cs u r : List Validator) (h : processChanges cs = .ok (u, r)) :
    ValidChanges cs := by
  unfold processChanges at h
  obtain ⟨h1, h2⟩ := scanChanges_ok_inv 0 _ u r h
  obtain ⟨h3, h4⟩ := (noAdj_isort_iff cs).mp h1
  exact ⟨h4, h3, (powOK_isort_iff cs).mp h2⟩

theorem processChanges_error_class (cs : List Validator) (e : Err) (h : processChanges cs = .error e) :
    e = .dup ∨ e = .neg ∨ e = .cap := scanChanges_error_class 0 _ e h


/-! ## `verifyRemovals` -/

theorem oldPow_nonneg (vals : List Validator) (hp : ∀ v ∈ vals, 0 ≤ v.power) (a : Nat) :
    0 ≤ oldPow vals a := by
  unfold oldPow
  cases h : findVal vals a with
  | none => simp
  | some v => exact hp v (findVal_some_mem vals a v h).1

theorem oldPow_le (vals : List Validator) (B : Int) (hB : 0 ≤ B) (hp : ∀ v ∈ vals, v.power ≤ B) (a : Nat) :
    oldPow vals a ≤ B := by
  unfold oldPow
  cases h : findVal vals a with
  | none => simpa using hB
  | some v => exact hp v (findVal_some_mem vals a v h).1

theorem verifyRemovals_unknown (vals : List Validator) (acc : Int) (ds : List Validator)
    (h : ∃ d ∈ ds, findVal vals d.addr = none) : verifyRemovals vals acc ds = .error .unknown := by
  induction ds generalizing acc with
  | nil => obtain ⟨d, hd, _⟩ := h; cases hd
  | cons d ds ih =>
    unfold verifyRemovals
    cases hf : findVal vals d.addr with
    | none => rfl
    | some v =>
      simp only
      apply ih
      obtain ⟨x, hx, hxn⟩ := h
      rcases List.mem_cons.mp hx with rfl | hx
      · rw [hf] at hxn; cases hxn
      · exact ⟨x, hx, hxn⟩

theorem verifyRemovals_error_class (vals : List Validator) (acc : Int) (ds : List Validator) (e : Err)
    (h : verifyRemovals vals acc ds = .error e) : e = .unknown := by
  induction ds generalizing acc with
  | nil => cases h
  | cons d ds ih =>
    unfold verifyRemovals at h
    cases hf : findVal vals d.addr with
    | none => rw [hf] at h; cases h; rfl
    | some v => rw [hf] at h; exact ih _ h

theorem verifyRemovals_ok (vals : List Validator) (hp : ∀ v ∈ vals, 0 ≤ v.power) (acc : Int)
    (ds : List Validator) (hk : ∀ d ∈ ds, findVal vals d.addr ≠ none) (h0 : 0 ≤ acc)
    (hfit : acc + sumBy (fun d => oldPow vals d.addr) ds ≤ maxI64) :
    verifyRemovals vals acc ds = .ok (acc + sumBy (fun d => oldPow vals d.addr) ds) := by
  induction ds generalizing acc with
  | nil => simp [verifyRemovals]
  | cons d ds ih =>
    unfold verifyRemovals
    have hrest : 0 ≤ sumBy (fun d => oldPow vals d.addr) ds :=
      sumBy_nonneg _ _ (fun x _ => oldPow_nonneg vals hp x.addr)
    cases hf : findVal vals d.addr with
    | none => exact absurd hf (hk d List.mem_cons_self)
    | some v =>
      have hv : oldPow vals d.addr = v.power := by unfold oldPow; rw [hf]
      have hvp := hp v (findVal_some_mem vals _ v hf).1
      rw [sumBy_cons, hv] at hfit
      have ex : I64.add acc v.power = acc + v.power :=
        I64.add_exact _ _ (by unfold InRange minI64; unfold maxI64 at hfit ⊢; omega)
      simp only [ex]
      rw [ih (acc + v.power) (fun x hx => hk x (List.mem_cons_of_mem _ hx)) (by omega) (by omega),
        sumBy_cons, hv]
      congr 1; omega

/-! ## `verifyUpdates` -/

def negPart (x : Int) : Int := if x < 0 then -x else 0

theorem negPart_nonneg (x : Int) : 0 ≤ negPart x := by unfold negPart; split <;> omega

theorem int_sum_nonneg (l : List Int) (h : ∀ x ∈ l, 0 ≤ x) : 0 ≤ l.sum := by
  induction l with
  | nil => simp
  | cons x xs ih =>
    have := h x List.mem_cons_self
    have := ih (fun y hy => h y (List.mem_cons_of_mem _ hy))
    simp; omega

theorem int_sum_perm {l l' : List Int} (h : l.Perm l') : l.sum = l'.sum := by
  induction h with
  | nil => rfl
  | cons x _ ih => simp [ih]
  | swap x y l => simp; omega
  | trans _ _ ih1 ih2 => rw [ih1, ih2]

theorem negsum_zero (l : List Int) (h : ∀ x ∈ l, 0 ≤ x) : (l.map negPart).sum = 0 := by
  induction l with
  | nil => rfl
  | cons x xs ih =>
    have hx := h x List.mem_cons_self
    have := ih (fun y hy => h y (List.mem_cons_of_mem _ hy))
    simp only [List.map_cons, List.sum_cons, this]
    unfold negPart; rw [if_neg (by omega)]; rfl

/-- the ascending accumulation of `verifyUpdates`: with the deltas sorted, the negative ones are
consumed first, so the running total stays in `[0, 2·cap]` and the scan fails exactly when the
final total exceeds the cap -/
theorem accumDeltas_spec (ds : List Int) (hs : ds.Pairwise (fun a b => a ≤ b))
    (hb : ∀ d ∈ ds, -cap ≤ d ∧ d ≤ cap) (t : Int)
    (h1 : (ds.map negPart).sum ≤ t) (h2 : t ≤ cap) :
    (cap < t + ds.sum → accumDeltas t ds = .error .overflow) ∧
    (t + ds.sum ≤ cap → accumDeltas t ds = .ok (t + ds.sum)) := by
  induction ds generalizing t with
  | nil => simp [accumDeltas]; omega
  | cons d ds ih =>
    rw [List.pairwise_cons] at hs
    obtain ⟨b1, b2⟩ := hb d List.mem_cons_self
    have hneg : 0 ≤ (ds.map negPart).sum :=
      int_sum_nonneg _ (fun x hx => by obtain ⟨y, _, rfl⟩ := List.mem_map.mp hx; exact negPart_nonneg y)
    simp only [List.map_cons, List.sum_cons] at h1
    have hnp := negPart_nonneg d
    have ex : I64.add t d = t + d :=
      I64.add_exact _ _ (by unfold InRange minI64 maxI64; unfold cap at *; omega)
    have hsc : t + (d :: ds).sum = t + d + ds.sum := by simp only [List.sum_cons]; omega
    rw [hsc]
    unfold accumDeltas
    simp only [ex]
    by_cases hd : d < 0
    · have hnd : negPart d = -d := by unfold negPart; rw [if_pos hd]
      rw [if_neg (by omega)]
      exact ih hs.2 (fun x hx => hb x (List.mem_cons_of_mem _ hx)) (t + d) (by omega) (by omega)
    · have hall : ∀ x ∈ ds, 0 ≤ x := fun x hx => by have := hs.1 x hx; omega
      have hsum := int_sum_nonneg ds hall
      by_cases ho : t + d > cap
      · rw [if_pos ho]; exact ⟨fun _ => rfl, fun h => by omega⟩
      · rw [if_neg ho]
        exact ih hs.2 (fun x hx => hb x (List.mem_cons_of_mem _ hx)) (t + d)
          (by rw [negsum_zero ds hall]; omega) (by omega)

theorem delta_exact (vals : List Validator) (hv : ∀ v ∈ vals, 0 ≤ v.power ∧ v.power ≤ cap)
    (u : Validator) (hu : 0 ≤ u.power ∧ u.power ≤ cap) :
    delta vals u = u.power - oldPow vals u.addr := by
  unfold delta oldPow
  cases h : findVal vals u.addr with
  | none => simp
  | some v =>
    have := hv v (findVal_some_mem vals _ v h).1
    exact I64.sub_exact _ _ (by unfold InRange minI64 maxI64; unfold cap at *; omega)

theorem leInt_total (a b : Int) : decide (a ≤ b) = true ∨ decide (b ≤ a) = true := by
  simp only [decide_eq_true_eq]; omega
theorem leInt_trans (a b c : Int) : decide (a ≤ b) = true → decide (b ≤ c) = true → decide (a ≤ c) = true := by
  simp only [decide_eq_true_eq]; omega

/-- **`verifyUpdates`**: fails exactly when `T − Σ old(changed) + Σ new(changed)` (the resulting
total) exceeds the cap; otherwise returns the total after the updates and before the removals -/
theorem verifyUpdates_spec (vals u : List Validator) (hv : ∀ v ∈ vals, 0 ≤ v.power ∧ v.power ≤ cap)
    (hu : PowOK u) (T removed : Int) (hr : 0 ≤ removed)
    (hsub : removed + sumBy (fun c => oldPow vals c.addr) u ≤ T) (hT : T ≤ cap) :
    verifyUpdates u vals T removed =
      if T - removed + (sumBy (·.power) u - sumBy (fun c => oldPow vals c.addr) u) > cap then .error .overflow
      else .ok (T + (sumBy (·.power) u - sumBy (fun c => oldPow vals c.addr) u)) := by
  have hold : ∀ c ∈ u, 0 ≤ oldPow vals c.addr ∧ oldPow vals c.addr ≤ cap := fun c _ =>
    ⟨oldPow_nonneg vals (fun v hv' => (hv v hv').1) _,
     oldPow_le vals cap (by unfold cap; omega) (fun v hv' => (hv v hv').2) _⟩
  have hsold : 0 ≤ sumBy (fun c => oldPow vals c.addr) u := sumBy_nonneg _ _ (fun c hc => (hold c hc).1)
  -- the delta list
  have hmap : u.map (delta vals) = u.map (fun c => c.power - oldPow vals c.addr) :=
    List.map_congr_left (fun c hc => delta_exact vals hv c (hu c hc))
  have hperm := isort_perm (fun a b : Int => decide (a ≤ b)) (u.map (delta vals))
  have hsorted := isort_sorted (fun a b : Int => decide (a ≤ b)) leInt_total leInt_trans (u.map (delta vals))
  have hsorted' : (isort (fun a b : Int => decide (a ≤ b)) (u.map (delta vals))).Pairwise (fun a b => a ≤ b) :=
    hsorted.imp (fun h => by simpa using h)
  have hsum : (isort (fun a b : Int => decide (a ≤ b)) (u.map (delta vals))).sum =
      sumBy (·.power) u - sumBy (fun c => oldPow vals c.addr) u := by
    rw [int_sum_perm hperm, hmap, ← sumBy_sub]; rfl
  have hbound : ∀ d ∈ isort (fun a b : Int => decide (a ≤ b)) (u.map (delta vals)), -cap ≤ d ∧ d ≤ cap := by
    intro d hd
    rw [hperm.mem_iff, hmap] at hd
    obtain ⟨c, hc, rfl⟩ := List.mem_map.mp hd
    have := hu c hc; have := hold c hc; omega
  have hnegs : ((isort (fun a b : Int => decide (a ≤ b)) (u.map (delta vals))).map negPart).sum ≤
      sumBy (fun c => oldPow vals c.addr) u := by
    rw [int_sum_perm (hperm.map negPart), hmap, List.map_map]
    clear hmap hperm hsorted hsorted' hsum hbound hsub hsold
    induction u with
    | nil => simp
    | cons c cs ih =>
      have h1 := hu c List.mem_cons_self
      have h2 := hold c List.mem_cons_self
      have := ih (fun x hx => hu x (List.mem_cons_of_mem _ hx)) (fun x hx => hold x (List.mem_cons_of_mem _ hx))
      simp only [List.map_cons, List.sum_cons, sumBy_cons, Function.comp]
      have : negPart (c.power - oldPow vals c.addr) ≤ oldPow vals c.addr := by
        unfold negPart; split <;> omega
      omega
  have ex0 : I64.sub T removed = T - removed :=
    I64.sub_exact _ _ (by unfold InRange minI64 maxI64; unfold cap at *; omega)
  unfold verifyUpdates
  simp only [ex0]
  obtain ⟨acc1, acc2⟩ := accumDeltas_spec _ hsorted' hbound (T - removed) (by omega) (by omega)
  rw [hsum] at acc1 acc2
  by_cases ho : T - removed + (sumBy (·.power) u - sumBy (fun c => oldPow vals c.addr) u) > cap
  · rw [if_pos ho, acc1 ho]
  · rw [if_neg ho, acc2 (by omega)]
    have hsp : 0 ≤ sumBy (·.power) u := sumBy_nonneg _ _ (fun c hc => (hu c hc).1)
    have : I64.add (T - removed + (sumBy (·.power) u - sumBy (fun c => oldPow vals c.addr) u)) removed =
        T + (sumBy (·.power) u - sumBy (fun c => oldPow vals c.addr) u) := by
      rw [I64.add_exact _ _ (by unfold InRange minI64 maxI64; unfold cap at *; omega)]; omega
    simp only [this]

end KV.ValSet
