import KV.Proofs.CsSyncNilRound
import KV.Proofs.CsSyncKick
/-! The votes and the PrecommitWait timeout of a failed round (C04).  Core Lean only. -/
namespace KV.Cs.Sync

theorem newRoundPrep_next (cfg : Config) (r : Nat) (σ : State) (hr1 : 1 ≤ r) (hvs : σ.hvsRound = r + 1) :
    ∃ extra, newRoundPrep cfg (r + 1) σ =
        { σ with round := r + 1, step := .newRound, proposal := none, pblock := none, parts := none,
                 votes := σ.votes ++ extra, hvsRound := r + 2, ttp := false } ∧
      (Lens2 (n cfg) σ.votes → Lens2 (n cfg) (σ.votes ++ extra) ∧
        (findRV (σ.votes ++ extra) σ.height (r + 2)).isSome = true) := by
  obtain ⟨extra, he⟩ := addRounds_eq (n cfg) (r + 1 + 1 + 1 - (σ.hvsRound - 1)) (σ.hvsRound - 1)
    { σ with round := r + 1, step := .newRound, proposal := none, pblock := none, parts := none }
  refine ⟨extra, ?_, ?_⟩
  · unfold newRoundPrep setRound
    simp only
    have e1 : ¬ (r + 1 = 1) := by omega
    rw [if_neg e1]
    rw [he]
  · intro hl
    have h1 := addRounds_lens2 (n cfg) (r + 1 + 1 + 1 - (σ.hvsRound - 1)) (σ.hvsRound - 1)
      { σ with round := r + 1, step := .newRound, proposal := none, pblock := none, parts := none } hl
    have h2 := (addRounds_aux (n cfg) (r + 1 + 1 + 1 - (σ.hvsRound - 1)) (σ.hvsRound - 1)
      { σ with round := r + 1, step := .newRound, proposal := none, pblock := none, parts := none }
      (fun rv hm => (hl rv hm).1)).2.2.1 (r + 2) (by omega) (by omega)
    rw [he] at h1 h2
    exact ⟨h1, h2⟩


section
variable (cfg : Config) (F : Nat → Bool) (h r : Nat)

/-- **the PrecommitWait timeout fires**: the node enters round `r + 1`, step Propose; the proposer
of that round signs a proposal for the block `createProposalBlock` returns (POL round 0 = none) -/
theorem T2.timeout {σ : State} (S : T2 cfg F h r σ) (hr1 : 1 ≤ r) (nb : Option Nat) :
    NB cfg h (r + 1) (step cfg σ nb (.timeout h r .precommitWait)) ∧
    (∀ b, nb = some b → isVal cfg = true → cfg.proposer h (r + 1) = cfg.me →
      Action.signProposal h (r + 1) 0 b ∈ (step cfg σ nb (.timeout h r .precommitWait)).log) := by
  obtain ⟨⟨nh, hh, hr, prop, pb, parts, lk, vb, vr, hvs, lens, ex0, ex1⟩, st, pvO, pcO, tt, wait, sg⟩ := S
  rw [step_live _ _ _ _ nh]
  simp only
  unfold handleTimeout
  rw [if_neg (by
    intro hc
    rcases hc with hc | hc | hc
    · exact hc hh.symm
    · have : ({ σ with added := false } : State).round = r := hr
      omega
    · have : ({ σ with added := false } : State).step = .precommit := st
      rw [this] at hc; exact absurd hc.2 (by decide))]
  simp only
  rw [enterPrecommit_noop cfg h r _ (by exact hr) (by rw [show State.step _ = σ.step from rfl, st]; decide)]
  unfold enterNewRound
  rw [if_neg (by
    intro hc
    rcases hc with hc | hc | hc
    · exact hc hh
    · have : ({ σ with added := false } : State).round = r := hr
      omega
    · have : ({ σ with added := false } : State).round = r := hr
      omega)]
  rw [if_neg (by rw [show State.step _ = σ.step from rfl, st]; decide)]
  simp only
  obtain ⟨extra, he, hfacts⟩ := newRoundPrep_next cfg r { σ with added := false } hr1 hvs
  obtain ⟨hl2, hex2⟩ := hfacts lens
  rw [he]
  rw [releaseStale_unlocked _ _ (by exact lk)]
  have e1 : (r + 1 == 1) = false := by
    have : ¬ (r + 1 = 1) := by omega
    simpa using this
  rw [e1, Bool.and_false, if_neg (by simp)]
  unfold enterPropose
  rw [if_neg (by
    intro hc
    rcases hc with hc | hc | hc
    · exact hc hh
    · exact absurd hc (Nat.lt_irrefl _)
    · have : Step.propose.toNat ≤ Step.newRound.toNat := hc.2
      exact absurd this (by decide))]
  rw [proposeBody_eq]
  unfold proposeDone
  rw [if_neg (by simp [isProposalComplete])]
  have hex1' : (findRV (σ.votes ++ extra) h (r + 1)).isSome = true := findRV_append_exists _ _ _ _ ex1
  refine ⟨⟨⟨nh, hh, rfl, rfl, rfl, rfl, lk, vb, vr, rfl, hl2, hex1', by rw [← hh]; exact hex2⟩, rfl, rfl,
    List.mem_cons_self ..⟩, ?_⟩
  intro b hnb hv hp
  subst hnb
  have := proposeBody_log_proposer cfg b h (r + 1)
    { σ with added := false, round := r + 1, step := .newRound, proposal := none, pblock := none, parts := none,
             votes := σ.votes ++ extra, hvsRound := r + 2, ttp := false } hv
    (by show cfg.proposer σ.height (r + 1) = cfg.me; rw [hh]; exact hp) vb
  have e : Action.signProposal h (r + 1) 0 b = Action.signProposal h (r + 1) σ.validRound b := by rw [vr]
  rw [e]
  exact this

theorem T1.unadded {σ : State} (S : T1 cfg F h r σ) : T1 cfg F h r { σ with added := false } :=
  ⟨⟨S.base.nh, S.base.hh, S.base.hr, S.base.prop, S.base.pb, S.base.parts, S.base.lk, S.base.vb, S.base.vr,
    S.base.hvs, S.base.lens, S.base.ex0, S.base.ex1⟩, S.st, S.ttp, S.pvO, S.pvNo, S.pcE, S.sgv⟩

theorem T2.unadded {σ : State} (S : T2 cfg F h r σ) : T2 cfg F h r { σ with added := false } :=
  ⟨⟨S.base.nh, S.base.hh, S.base.hr, S.base.prop, S.base.pb, S.base.parts, S.base.lk, S.base.vb, S.base.vr,
    S.base.hvs, S.base.lens, S.base.ex0, S.base.ex1⟩, S.st, S.pvO, S.pcO, S.tt, S.wait, S.sg⟩

/-- **a correct validator's nil prevote arrives before the node precommitted** -/
theorem T1.prevote {σ : State} (S : T1 cfg F h r σ) (fm : FaultyMinority cfg.powers F) (hv : isVal cfg = true)
    (nb : Option Nat) (j : Nat) (hF : F j = false) (hj : j < n cfg) :
    (T1 cfg F h r (step cfg σ nb (.vote j j .prevote h r none true)) ∨
      T2 cfg F h r (step cfg σ nb (.vote j j .prevote h r none true))) ∧
    Grow h r σ (step cfg σ nb (.vote j j .prevote h r none true)) ∧
    HasN h r .prevote j (step cfg σ nb (.vote j j .prevote h r none true)) := by
  have hlen : (slotsV σ.votes .prevote h r).length = n cfg := S.base.lens.slots _ _ _ S.base.ex0
  rcases nil_vote_cases cfg h r S.base nb j .prevote with ⟨e, hne⟩ | ⟨hc, e⟩
  · rw [e]
    exact ⟨Or.inl (S.unadded cfg F h r), grow_of_votes h r rfl,
      filled_ofT F (by rw [hlen]; exact hj) S.pvO hF (fun hx => hne ⟨hj, hx⟩)⟩
  · rw [e]
    simp only
    have U : U1 cfg F h r (stored .prevote j none h r σ) := by
      refine ⟨S.base.stored cfg h r .prevote j none, S.st, S.ttp, ?_, ?_, S.sgv⟩
      · show CorrOnlyT F none (slotsV (σ.votes.map _) .prevote h r)
        rw [slotsV_setSlot_same]; exact S.pvO.set j none (fun _ => rfl)
      · show CorrEmpty F (slotsV (σ.votes.map _) .precommit h r)
        rw [slotsV_setSlot_ty _ _ _ _ _ _ _ _ _ (by decide)]; exact S.pcE
    obtain ⟨h1, h2⟩ := u1_afterPrevote cfg F h r U fm hv nb
    refine ⟨h1, (grow_stored h r (σ := σ) .prevote j none hc.2).trans h r (grow_of_votes h r h2), ?_⟩
    show (slotsV (afterPrevote cfg nb r (stored .prevote j none h r σ)).votes .prevote h r)[j]? = _
    rw [h2]
    show (slotsV (σ.votes.map _) .prevote h r)[j]? = _
    rw [slotsV_setSlot_same, List.getElem?_set_self (by rw [hlen]; exact hj)]

/-- **a correct validator's nil vote arrives after the node precommitted** -/
theorem T2.vote {σ : State} (S : T2 cfg F h r σ) (fm : FaultyMinority cfg.powers F)
    (nb : Option Nat) (j : Nat) (t : VType) (hF : F j = false) (hj : j < n cfg) :
    T2 cfg F h r (step cfg σ nb (.vote j j t h r none true)) ∧
    Grow h r σ (step cfg σ nb (.vote j j t h r none true)) ∧
    HasN h r t j (step cfg σ nb (.vote j j t h r none true)) := by
  have hlen : ∀ t, (slotsV σ.votes t h r).length = n cfg := fun t => S.base.lens.slots _ _ _ S.base.ex0
  rcases nil_vote_cases cfg h r S.base nb j t with ⟨e, hne⟩ | ⟨hc, e⟩
  · rw [e]
    refine ⟨S.unadded cfg F h r, grow_of_votes h r rfl, ?_⟩
    cases t
    · exact filled_ofT F (by rw [hlen]; exact hj) S.pvO hF (fun hx => hne ⟨hj, hx⟩)
    · exact filled_ofT F (by rw [hlen]; exact hj) S.pcO hF (fun hx => hne ⟨hj, hx⟩)
  · rw [e]
    have hg := grow_stored h r (σ := σ) t j none hc.2
    cases t with
    | prevote =>
      simp only
      have S' : T2 cfg F h r (stored .prevote j none h r σ) := by
        refine ⟨S.base.stored cfg h r .prevote j none, S.st, ?_, ?_, S.tt, ?_, S.sg⟩
        · show CorrOnlyT F none (slotsV (σ.votes.map _) .prevote h r)
          rw [slotsV_setSlot_same]; exact S.pvO.set j none (fun _ => rfl)
        · show CorrOnlyT F none (slotsV (σ.votes.map _) .precommit h r)
          rw [slotsV_setSlot_ty _ _ _ _ _ _ _ _ _ (by decide)]; exact S.pcO
        · show hasAny cfg.powers (slotsV (σ.votes.map _) .precommit h r) = true → _
          rw [slotsV_setSlot_ty _ _ _ _ _ _ _ _ _ (by decide)]; exact S.wait
      rw [t2_afterPrevote cfg F h r S' fm nb]
      refine ⟨S', hg, ?_⟩
      show (slotsV (σ.votes.map _) .prevote h r)[j]? = _
      rw [slotsV_setSlot_same, List.getElem?_set_self (by rw [hlen]; exact hj)]
    | precommit =>
      simp only
      have U : U2 cfg F h r (stored .precommit j none h r σ) := by
        refine ⟨S.base.stored cfg h r .precommit j none, S.st, ?_, ?_, S.tt, S.sg⟩
        · show CorrOnlyT F none (slotsV (σ.votes.map _) .prevote h r)
          rw [slotsV_setSlot_ty _ _ _ _ _ _ _ _ _ (by decide)]; exact S.pvO
        · show CorrOnlyT F none (slotsV (σ.votes.map _) .precommit h r)
          rw [slotsV_setSlot_same]; exact S.pcO.set j none (fun _ => rfl)
      obtain ⟨h1, h2⟩ := u2_afterPrecommit cfg F h r U fm nb
      refine ⟨h1, hg.trans h r (grow_of_votes h r h2), ?_⟩
      show (slotsV (afterPrecommit cfg nb r (stored .precommit j none h r σ)).votes .precommit h r)[j]? = _
      rw [h2]
      show (slotsV (σ.votes.map _) .precommit h r)[j]? = _
      rw [slotsV_setSlot_same, List.getElem?_set_self (by rw [hlen]; exact hj)]

end
end KV.Cs.Sync
