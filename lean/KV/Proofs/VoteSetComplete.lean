import KV.Proofs.VoteSetInv
/-! Completeness side of C02: a first valid vote lands in its block's entry, entries only grow,
so enough first votes for one block produce a recorded majority. -/
namespace KV.VoteSet
open KV

/-- every per-block entry of `s` is still there in `s'` with at least the same votes -/
def Grows (s s' : VoteSet) : Prop :=
  ∀ k bv, lookup k s.byBlock = some bv →
    ∃ bv', lookup k s'.byBlock = some bv' ∧ ∀ i w, slot bv.votes i = some w → slot bv'.votes i = some w

theorem Grows.refl (s : VoteSet) : Grows s s := fun _ bv h => ⟨bv, h, fun _ _ h => h⟩

theorem Grows.trans {a b c : VoteSet} (h1 : Grows a b) (h2 : Grows b c) : Grows a c := by
  intro k bv hl
  obtain ⟨bv1, hl1, hs1⟩ := h1 k bv hl
  obtain ⟨bv2, hl2, hs2⟩ := h2 k bv1 hl1
  exact ⟨bv2, hl2, fun i w h => hs2 i w (hs1 i w h)⟩

theorem Grows.of_byBlock_eq {s s' : VoteSet} (h : s'.byBlock = s.byBlock) : Grows s s' := by
  intro k bv hl; exact ⟨bv, by rw [h]; exact hl, fun _ _ h => h⟩

theorem bvadd_keeps (bv : BlockVotes) (v : Vote) (pw : Int) (i : Nat) (w : Vote)
    (h : slot bv.votes i = some w) : slot (bv.add v pw).votes i = some w := by
  unfold BlockVotes.add
  split
  · next hn =>
    simp only [slot_set]
    split
    · next hc => rw [hc.1, hn] at h; cases h
    · exact h
  · exact h

theorem addToBlock_byBlock (s : VoteSet) (v : Vote) (k : Key) (pw : Int) (bv : BlockVotes) :
    (addToBlock s v k pw bv).byBlock = insert k (bv.add v pw) s.byBlock := by
  unfold addToBlock; dsimp only
  repeat' split
  all_goals rfl

theorem grows_addToBlock (s : VoteSet) (v : Vote) (k : Key) (pw : Int) (bv : BlockVotes)
    (hlk : ∀ bv0, lookup k s.byBlock = some bv0 → bv0 = bv) : Grows s (addToBlock s v k pw bv) := by
  intro k' bv0 hl
  rw [addToBlock_byBlock]
  by_cases hkk : k' = k
  · subst hkk
    have := hlk bv0 hl; subst this
    exact ⟨_, lookup_insert_self _ _ _, fun i w h => bvadd_keeps _ _ _ i w h⟩
  · exact ⟨bv0, by rw [lookup_insert_ne _ _ _ _ hkk]; exact hl, fun _ _ h => h⟩

theorem grows_addTracked (s : VoteSet) (v : Vote) (k : Key) (pw : Int) (c : Option Vote) :
    Grows s (addTracked s v k pw c).1 := by
  unfold addTracked
  cases hl : lookup k s.byBlock with
  | some bv =>
    dsimp only; split
    · exact Grows.refl s
    · exact grows_addToBlock s v k pw bv (fun bv0 h => by rw [hl] at h; cases h; rfl)
  | none =>
    dsimp only; split
    · exact Grows.refl s
    · exact grows_addToBlock s v k pw _ (fun bv0 h => by rw [hl] at h; cases h)

theorem grows_addTracked_of (s s1 : VoteSet) (h : s1.byBlock = s.byBlock) (v : Vote) (k : Key) (pw : Int)
    (c : Option Vote) : Grows s (addTracked s1 v k pw c).1 :=
  Grows.trans (Grows.of_byBlock_eq h) (grows_addTracked s1 v k pw c)

theorem grows_addVerified (s : VoteSet) (v : Vote) (k : Key) (pw : Int) (r : VoteSet × Bool × Option Vote)
    (h : addVerified s v k pw = some r) : Grows s r.1 := by
  unfold addVerified at h
  split at h
  · split at h
    · cases h
    · cases h
      split
      · exact grows_addTracked_of s _ (by rfl) _ _ _ _
      · exact grows_addTracked _ _ _ _ _
  · cases h
    exact grows_addTracked_of s _ (by rfl) _ _ _ _

theorem grows_addVote (sv : SigCheck) (s : VoteSet) (ov : Option Vote) : Grows s (addVote sv s ov).1 := by
  unfold addVote
  cases ov with
  | none => exact Grows.refl s
  | some v =>
    simp only
    split; · exact Grows.refl s
    split; · exact Grows.refl s
    split; · exact Grows.refl s
    split; · exact Grows.refl s
    split; · split <;> exact Grows.refl s
    split; · exact Grows.refl s
    split
    · exact Grows.refl s
    · next heq => split <;> exact grows_addVerified _ _ _ _ _ heq

theorem grows_setPeerMaj23 (s : VoteSet) (p : Nat) (b : BlockId) : Grows s (setPeerMaj23 s p b).1 := by
  unfold setPeerMaj23
  dsimp only
  split
  · split <;> exact Grows.refl s
  · split
    · next bv hl =>
      split
      · exact Grows.of_byBlock_eq rfl
      · intro k' bv0 hl0
        by_cases hkk : k' = b.key
        · subst hkk
          have : bv0 = bv := by rw [hl] at hl0; cases hl0; rfl
          subst this
          exact ⟨_, lookup_insert_self _ _ _, fun _ _ h => h⟩
        · exact ⟨bv0, by simp only [lookup_insert_ne _ _ _ _ hkk]; exact hl0, fun _ _ h => h⟩
    · next hl =>
      intro k' bv0 hl0
      by_cases hkk : k' = b.key
      · subst hkk; rw [hl] at hl0; cases hl0
      · exact ⟨bv0, by simp only [lookup_insert_ne _ _ _ _ hkk]; exact hl0, fun _ _ h => h⟩

theorem grows_run (sv : SigCheck) (s : VoteSet) (ops : List Op) : Grows s (run sv s ops) := by
  induction ops generalizing s with
  | nil => exact Grows.refl s
  | cons op ops ih =>
    have h1 : Grows s (apply sv s op) := by
      cases op with
      | vote v => exact grows_addVote sv s v
      | peer p b => exact grows_setPeerMaj23 s p b
    exact Grows.trans h1 (ih _)

/-- the vote passes every check of `addVote` that does not depend on earlier votes: non-empty
address, the set's height/round/type, a validator index with that validator's address, and a
signature that verifies -/
def Offerable (sv : SigCheck) (s : VoteSet) (v : Vote) : Prop :=
  v.addr ≠ 0 ∧ v.height = s.height ∧ v.round = s.round ∧ v.type = s.type ∧
  ∃ val, s.vals[v.idx]? = some val ∧ v.addr = val.addr ∧ sv val.addr v.msg v.sig = true

theorem addToBlock_lookup (s : VoteSet) (v : Vote) (k : Key) (pw : Int) (bv : BlockVotes) :
    lookup k (addToBlock s v k pw bv).byBlock = some (bv.add v pw) := by
  rw [addToBlock_byBlock]; exact lookup_insert_self _ _ _

/-- a validator's first valid vote is added and lands in the entry of its block -/
theorem first_vote_lands (sv : SigCheck) (s : VoteSet) (hI : Inv sv s) (v : Vote)
    (ho : Offerable sv s v) (hnone : slot s.votes v.idx = none) :
    (addVote sv s (some v)).2 = ⟨true, none⟩ ∧
    ∃ bv, lookup v.bid.key (addVote sv s (some v)).1.byBlock = some bv ∧ slot bv.votes v.idx = some v := by
  obtain ⟨h0, h1, h2, h3, val, hval, haddr, hsv⟩ := ho
  have hi := idx_lt_of_get _ _ _ hval
  have hget : getVote s v.idx v.bid.key = none := by
    unfold getVote
    rw [hnone]; dsimp only
    cases hl : lookup v.bid.key s.byBlock with
    | none => rfl
    | some bv =>
      dsimp only
      cases hs : slot bv.votes v.idx with
      | none => rfl
      | some w =>
        have := ((hI.blk _ _ hl).valid _ _ hs).2.2
        simp [voted, hnone] at this
  have hlen (bv : BlockVotes) (hb : bv.votes.length = s.vals.length) (hn : slot bv.votes v.idx = none) :
      slot (bv.add v val.power).votes v.idx = some v := by
    rw [bvadd_fresh _ _ _ hn]; simp only [slot_set]; simp [hb, hi]
  have h0' : ¬ val.addr = 0 := by rw [← haddr]; exact h0
  unfold addVote
  simp only [h0', h1, h2, h3, hval, haddr, hget, hsv, addVerified, hnone]
  simp only [ne_eq, not_true_eq_false, or_self, if_false, Bool.not_true, Bool.false_eq_true]
  unfold addTracked
  dsimp only
  cases hl : lookup v.bid.key s.byBlock with
  | some bv =>
    simp only [Option.isSome_none, Bool.false_eq_true, false_and, if_false]
    refine ⟨trivial, _, addToBlock_lookup _ _ _ _ _, ?_⟩
    apply hlen bv (hI.blk _ _ hl).len
    cases hs : slot bv.votes v.idx with
    | none => rfl
    | some w =>
      have := ((hI.blk _ _ hl).valid _ _ hs).2.2
      simp [voted, hnone] at this
  | none =>
    simp only [Option.isSome_none, Bool.false_eq_true, if_false]
    refine ⟨trivial, _, addToBlock_lookup _ _ _ _ _, ?_⟩
    exact hlen _ (by simp [newBlockVotes]) (by simp [newBlockVotes, slot_replicate])

/-- distinct indices satisfying `P` weigh at most the whole `P`-sum -/
theorem sum_le_psum (vals : Vals) (hn : NonNeg vals) (S : List Nat) (hS : S.Nodup) (P : Nat → Bool)
    (hP : ∀ i ∈ S, i < vals.length ∧ P i = true) : (S.map (powerAt vals)).sum ≤ psum vals P := by
  induction S generalizing P with
  | nil => simpa using psum_nonneg vals hn P
  | cons i S ih =>
    have hi := hP i (by simp)
    obtain ⟨hnotin, hS'⟩ := List.nodup_cons.mp hS
    have hval : ∃ val, vals[i]? = some val := ⟨vals[i]'hi.1, by simp [hi.1]⟩
    obtain ⟨val, hval⟩ := hval
    let P' : Nat → Bool := fun j => P j && decide (j ≠ i)
    have h1 : psum vals P = psum vals P' + val.power := by
      rw [← psum_update vals P' i val hval (by simp [P'])]
      apply psum_congr
      intro j _
      by_cases hj : j = i
      · subst hj; simp [hi.2]
      · simp [P', hj]
    have h2 := ih hS' P' (by
      intro j hj
      have := hP j (by simp [hj])
      refine ⟨this.1, ?_⟩
      have : j ≠ i := fun e => hnotin (e ▸ hj)
      simp [P', *])
    have h3 : powerAt vals i = val.power := by simp [powerAt, hval]
    simp only [List.map_cons, List.sum_cons, h3]
    omega

end KV.VoteSet
