import KV.Base.Wire
/-!
Field-level injectivity for protobuf messages whose field keys are single bytes (field numbers
1..15) written in ascending order — the shape of every gogo-proto generated marshaler.
`firstGt t bs` ("the first byte of `bs`, if any, is larger than `t`") is how we say that what
follows an optional field cannot be mistaken for that field.  Core only.
-/
namespace KV.Wire

/-- the first byte of `bs` (if there is one) is `> t` -/
def firstGt (t : Nat) (bs : Bytes) : Prop := ∀ b, bs.head? = some b → t < b.toNat

theorem firstGt_nil (t : Nat) : firstGt t [] := by
  intro b h; simp at h

theorem firstGt_cons (t : Nat) (b : UInt8) (r : Bytes) (h : t < b.toNat) : firstGt t (b :: r) := by
  intro c hc; simp at hc; subst hc; exact h

theorem firstGt_mono {t u : Nat} {bs : Bytes} (h : firstGt u bs) (htu : t ≤ u) : firstGt t bs := by
  intro b hb; have := h b hb; omega

theorem tag_append (f wt : Nat) (h : f * 8 + wt < 128) (r : Bytes) :
    tag f wt ++ r = UInt8.ofNat (f * 8 + wt) :: r := by
  rw [tag_single f wt h]; rfl

theorem firstGt_tag_append (t f wt : Nat) (h : f * 8 + wt < 128) (ht : t < f * 8 + wt) (r : Bytes) :
    firstGt t (tag f wt ++ r) := by
  rw [tag_append f wt h]
  exact firstGt_cons _ _ _ (by rw [ofNat_toNat_lt _ (by omega)]; exact ht)

/-- a byte string starting with the key byte `k` is not `firstGt k` -/
theorem not_firstGt_tag (f wt : Nat) (h : f * 8 + wt < 128) (r : Bytes) :
    ¬ firstGt (f * 8 + wt) (tag f wt ++ r) := by
  intro hg
  rw [tag_append f wt h] at hg
  have := hg _ rfl
  rw [ofNat_toNat_lt _ (by omega)] at this
  omega

/-! ### what a field looks like from the left -/

theorem firstGt_fVarint (t f n : Nat) (r : Bytes) (hf : f * 8 < 128) (ht : t < f * 8)
    (hr : firstGt t r) : firstGt t (fVarint f n ++ r) := by
  unfold fVarint
  split
  · simpa using hr
  · rw [List.append_assoc]; exact firstGt_tag_append t f wtVarint (by simp [wtVarint]; omega) (by simp [wtVarint]; omega) _

theorem firstGt_fBytes (t f : Nat) (bs r : Bytes) (hf : f * 8 + 2 < 128) (ht : t < f * 8 + 2)
    (hr : firstGt t r) : firstGt t (fBytes f bs ++ r) := by
  unfold fBytes
  split
  · simpa using hr
  · rw [List.append_assoc]; exact firstGt_tag_append t f wtLen hf ht _

theorem firstGt_fMsg (t f : Nat) (body r : Bytes) (hf : f * 8 + 2 < 128) (ht : t < f * 8 + 2) :
    firstGt t (fMsg f body ++ r) := by
  unfold fMsg
  rw [List.append_assoc]; exact firstGt_tag_append t f wtLen hf ht _

theorem firstGt_fMsgOpt (t f : Nat) (body : Option Bytes) (r : Bytes) (hf : f * 8 + 2 < 128)
    (ht : t < f * 8 + 2) (hr : firstGt t r) : firstGt t (fMsgOpt f body ++ r) := by
  cases body with
  | none => simpa [fMsgOpt] using hr
  | some b => exact firstGt_fMsg t f b r hf ht

/-! ### peeling one field off both sides -/

theorem fVarint_inj {f a b : Nat} {r s : Bytes} (hf : f * 8 < 128)
    (hr : firstGt (f * 8) r) (hs : firstGt (f * 8) s)
    (h : fVarint f a ++ r = fVarint f b ++ s) : a = b ∧ r = s := by
  have hk : f * 8 + wtVarint < 128 := by simp [wtVarint]; omega
  have hnr := not_firstGt_tag f wtVarint hk
  simp only [wtVarint, Nat.add_zero] at hnr
  unfold fVarint at h
  by_cases ha : a = 0 <;> by_cases hb : b = 0
  · simp [ha, hb] at h; exact ⟨by omega, h⟩
  · simp only [ha, hb, if_true, if_false, List.nil_append, List.append_assoc] at h
    rw [h] at hr; exact absurd hr (hnr _)
  · simp only [ha, hb, if_true, if_false, List.nil_append, List.append_assoc] at h
    rw [← h] at hs; exact absurd hs (hnr _)
  · simp only [ha, hb, if_false, List.append_assoc] at h
    exact varint_prefix_free (List.append_cancel_left h)

theorem fBytes_inj {f : Nat} {a b r s : Bytes} (hf : f * 8 + 2 < 128)
    (hr : firstGt (f * 8 + 2) r) (hs : firstGt (f * 8 + 2) s)
    (h : fBytes f a ++ r = fBytes f b ++ s) : a = b ∧ r = s := by
  have hnr := not_firstGt_tag f wtLen hf
  simp only [wtLen] at hnr
  unfold fBytes at h
  by_cases ha : a = [] <;> by_cases hb : b = []
  · simp [ha, hb] at h; exact ⟨by rw [ha, hb], h⟩
  · simp only [ha, hb, if_true, if_false, List.nil_append, List.append_assoc] at h
    rw [h] at hr; exact absurd hr (hnr _)
  · simp only [ha, hb, if_true, if_false, List.nil_append, List.append_assoc] at h
    rw [← h] at hs; exact absurd hs (hnr _)
  · simp only [ha, hb, if_false, List.append_assoc] at h
    exact lenDelim_prefix_free (List.append_cancel_left h)

theorem fMsg_inj {f : Nat} {a b r s : Bytes} (h : fMsg f a ++ r = fMsg f b ++ s) :
    a = b ∧ r = s := by
  unfold fMsg at h
  simp only [List.append_assoc] at h
  exact lenDelim_prefix_free (List.append_cancel_left h)

theorem fMsgOpt_inj {f : Nat} {a b : Option Bytes} {r s : Bytes} (hf : f * 8 + 2 < 128)
    (hr : firstGt (f * 8 + 2) r) (hs : firstGt (f * 8 + 2) s)
    (h : fMsgOpt f a ++ r = fMsgOpt f b ++ s) : a = b ∧ r = s := by
  have hnr := not_firstGt_tag f wtLen hf
  simp only [wtLen] at hnr
  cases a <;> cases b
  · simp [fMsgOpt] at h; exact ⟨rfl, h⟩
  · simp only [fMsgOpt, fMsg, List.nil_append, List.append_assoc] at h
    rw [h] at hr; exact absurd hr (hnr _)
  · simp only [fMsgOpt, fMsg, List.nil_append, List.append_assoc] at h
    rw [← h] at hs; exact absurd hs (hnr _)
  · simp only [fMsgOpt] at h
    obtain ⟨h1, h2⟩ := fMsg_inj h
    exact ⟨by rw [h1], h2⟩

/-- the first byte of a present field, for head comparisons between *different* messages -/
theorem fMsg_head (f : Nat) (body r : Bytes) (hf : f * 8 + 2 < 128) :
    (fMsg f body ++ r).head? = some (UInt8.ofNat (f * 8 + 2)) := by
  unfold fMsg
  rw [List.append_assoc, tag_append f wtLen hf]; rfl

end KV.Wire
