import KV.Proofs.WorldReach
import KV.Proofs.WorldEffective
/-!
# Consequences of the reachability invariant: `Copy()` and read-back (property C08)
-/
namespace KV.World

/-! ## clean objects -/

/-- objects that `Copy()` does not copy (not named by the journal, not in the dirty/pending sets) are
re-read from the trie; they agree with the trie when they are clean: -/
def CleanInv (w : World) : Prop :=
  ∀ a o, w.core.objs a = some o → dirtyAddrs w.journal a = false → o.inDirty = false →
    o.inPending = false → o.deleted = false → o.cur = o.com ∧ o.suicided = false

/-- the storage half of `CleanInv` (what survives a mid-transaction `Copy()`) -/
def CleanInvW (w : World) : Prop :=
  ∀ a o, w.core.objs a = some o → dirtyAddrs w.journal a = false → o.inDirty = false →
    o.inPending = false → o.deleted = false → o.cur = o.com

theorem CleanInv.weak {w : World} (h : CleanInv w) : CleanInvW w :=
  fun a o h1 h2 h3 h4 h5 => (h a o h1 h2 h3 h4 h5).1

theorem winv_cleanInv {w : World} (h : WInv true w) : CleanInv w := by
  intro a o ho hD hd hp hdel
  have := h.now a o ho hD hdel
  exact ⟨this.2 hd hp, (this.1 rfl).1⟩

theorem winv_cleanInvW {strict : Bool} {w : World} (h : WInv strict w) : CleanInvW w := by
  intro a o ho hD hd hp hdel
  exact (h.now a o ho hD hdel).2 hd hp

/-- an account that the current transaction has not touched reads the same through `GetState` and
`GetCommittedState` -/
theorem winv_committed_eq_state {w : World} (h : WInv true w) (a : Addr) (hD : dirtyAddrs w.journal a = false) :
    (obs w).committed a = (obs w).state a := by
  funext k
  simp only [obs, obsCore, getObj]
  cases ho : w.core.objs a with
  | none => rfl
  | some o =>
    simp only
    cases hd : o.deleted with
    | true => simp
    | false =>
      have := ((h.now a o ho hD hd).1 rfl).2
      simp [this]

/-! ## projections of an observation -/

/-- the part of an observation that is committed state: the per-instance, in-memory observables
(logs and their counter, preimages, access list, transient storage) are those of a fresh `StateDB` -/
def Observation.persistent (o : Observation) : Observation :=
  { o with logs := fun _ => [], logSize := 0, preimages := fun _ => none,
           addrInAL := fun _ => false, slotInAL := fun _ _ => (false, false), transient := fun _ _ => 0 }

/-- … and additionally without self-destruct marks and refund counter -/
def Observation.accountsOnly (o : Observation) : Observation :=
  { o.persistent with suicided := fun _ => false, refund := 0 }

/-- an observation with the self-destruct marks blanked -/
def Observation.noSuicide (o : Observation) : Observation := { o with suicided := fun _ => false }

theorem accountsOnly_eq_persistent (o : Observation) (hs : o.suicided = fun _ => false) (hr : o.refund = 0) :
    o.accountsOnly = o.persistent := by
  cases o
  simp only [Observation.accountsOnly, Observation.persistent] at *
  simp [hs, hr]

/-! ## Copy -/

/-- what the getters other than `HasSuicided` read of an object -/
def Obj.view (o : Obj) : Bool × Int × Nat × Bytes × (Slot → Word) × (Slot → Word) :=
  (o.empty, o.balance, o.nonce, o.code, o.cur, o.com)

set_option linter.unusedSimpArgs false in
theorem copy_getObj_view (w : World) (h : CleanInvW w) (a : Addr) :
    (getObj (copy w).core a).map Obj.view = (getObj w.core a).map Obj.view := by
  simp only [getObj, copy]
  cases ho : w.core.objs a with
  | none => rfl
  | some o =>
    simp only
    cases hD : dirtyAddrs w.journal a
    · cases h1 : o.inDirty <;> cases h2 : o.inPending <;> cases h3 : o.deleted <;>
        simp [Obj.view, Obj.empty, h1, h2, h3]
      have := h a o ho hD h1 h2 h3
      simp [this]
    · cases h3 : o.deleted <;> simp [Obj.view, Obj.empty, h3]

/-- `Copy()` of any world whose clean objects agree with their committed storage observes what the
original observes, except possibly self-destruct marks -/
theorem copy_obs_noSuicide (w : World) (h : CleanInvW w) : (obs (copy w)).noSuicide = (obs w).noSuicide := by
  have key := copy_getObj_view w h
  have hcore : (copy w).core.refund = w.core.refund ∧ (copy w).core.logs = w.core.logs ∧
      (copy w).core.logSize = w.core.logSize ∧ (copy w).core.preimages = w.core.preimages ∧
      (copy w).core.al = w.core.al ∧ (copy w).core.transient = w.core.transient := by
    simp [copy]
  obtain ⟨e1, e2, e3, e4, e5, e6⟩ := hcore
  unfold obs obsCore Observation.noSuicide
  simp only [Observation.mk.injEq, e1, e2, e3, e4, e5, e6]
  refine ⟨?_, ?_, trivial, ?_, ?_, ?_, ?_, ?_, trivial, trivial, trivial, trivial, trivial, trivial, trivial⟩ <;>
    (funext a; have := key a; revert this
     cases getObj (copy w).core a <;> cases getObj w.core a <;> simp [Obj.view] <;> intros <;> simp_all)

/-! ## reopen at the committed root -/

theorem reopen_getObj (v : World) (a : Addr) :
    getObj (reopen v).core a =
      (getObj v.core a).map fun o => ⟨o.balance, o.nonce, o.code, o.com, o.com, false, false, false, false⟩ := by
  simp only [getObj, reopen, content]
  cases v.core.objs a with
  | none => rfl
  | some o => cases hd : o.deleted <;> simp [hd]

/-- every live object has been flushed: its storage equals its committed storage -/
def SettledW (v : World) : Prop := ∀ a o, v.core.objs a = some o → o.deleted = false → o.cur = o.com

theorem reopen_obs_accounts (v : World) (h : SettledW v) : obs (reopen v) = (obs v).accountsOnly := by
  have key := reopen_getObj v
  have hs : ∀ a o, getObj v.core a = some o → o.cur = o.com := by
    intro a o hg
    simp only [getObj] at hg
    cases ho : v.core.objs a with
    | none => simp [ho] at hg
    | some o' =>
      simp only [ho] at hg
      split at hg
      · simp at hg
      · next hd => simp only [Option.some.injEq] at hg; subst hg; exact h a o' ho (by simpa using hd)
  unfold obs obsCore Observation.accountsOnly Observation.persistent
  simp only [Observation.mk.injEq]
  refine ⟨?_, ?_, ?_, ?_, ?_, ?_, ?_, ?_, rfl, rfl, rfl, rfl, rfl, rfl, rfl⟩
  all_goals
    funext a
    have k1 := key a
    have k2 := hs a
    revert k1 k2
    cases getObj (reopen v).core a <;> cases getObj v.core a <;> simp
  all_goals
    intro k1 k2
    subst k1
    simp [Obj.empty]
  all_goals
    rw [k2]

set_option linter.unusedSimpArgs false in
/-- after `Commit` no object is left in `stateObjectsDirty` / `stateObjectsPending` -/
theorem commit_flags (del : Bool) (w : World) (a : Addr) (o : Obj) (h : (commit del w).core.objs a = some o) :
    o.inDirty = false ∧ o.inPending = false := by
  simp only [commit, iroot, flushDirty, flushPending, finalise] at h
  cases hc : w.core.objs a with
  | none => simp [hc] at h
  | some o0 =>
    simp only [hc] at h
    cases hD : dirtyAddrs w.journal a <;> cases hk : (o0.suicided || (del && o0.empty)) <;>
      cases h1 : o0.inDirty <;> cases h2 : o0.inPending <;> cases h3 : o0.deleted <;>
      simp [hD, hk, h1, h2, h3] at h <;> subst h <;> simp [h1, h2]

theorem commit_settled {strict : Bool} (del : Bool) (w : World) (h : WInv strict w) : SettledW (commit del w) := by
  intro a o ho hdel
  obtain ⟨h1, h2⟩ := commit_flags del w a o ho
  exact ((winv_commit del w h).now a o ho rfl hdel).2 h1 h2

theorem commit_noSuicide (del : Bool) (w : World) (h : WInv true w) :
    (obs (commit del w)).suicided = fun _ => false := by
  funext a
  simp only [obs, obsCore, getObj]
  cases ho : (commit del w).core.objs a with
  | none => rfl
  | some o =>
    simp only
    cases hd : o.deleted with
    | true => simp
    | false => simpa using (((winv_commit del w h).now a o ho rfl hd).1 rfl).1

theorem commit_refund (del : Bool) (w : World) (h : WInv true w) : (obs (commit del w)).refund = 0 := by
  have := (winv_commit del w h).2 rfl
  simpa [commit, iroot, finalise, obs, obsCore] using this

/-- does the account survive `Commit(del)`: it exists and the transaction-end sweep (`Finalise`, which
looks at the accounts named by the journal only) does not delete it -/
def survives (del : Bool) (w : World) (a : Addr) : Bool :=
  match getObj w.core a with
  | none => false
  | some o => !(dirtyAddrs w.journal a && (o.suicided || (del && o.empty)))

/-- exact description of every live object after `Commit` -/
theorem commit_getObj (del : Bool) (w : World) (h : CleanInvW w) (a : Addr) :
    getObj (commit del w).core a =
      match getObj w.core a with
      | none => none
      | some o => if dirtyAddrs w.journal a && (o.suicided || (del && o.empty)) then none
                  else some { o with com := o.cur, inDirty := false, inPending := false } := by
  simp only [getObj, commit, iroot, flushDirty, flushPending, finalise]
  cases hc : w.core.objs a with
  | none => rfl
  | some o =>
    have hcl := h a o hc
    obtain ⟨bal, non, code, cur, com, sui, dl, iD, iP⟩ := o
    simp only [Obj.empty] at hcl ⊢
    obtain ⟨e, hE⟩ : ∃ e, (non == 0 && bal == 0 && code.isEmpty) = e := ⟨_, rfl⟩
    simp only [hE]
    cases e <;>
      cases hD : dirtyAddrs w.journal a <;> cases sui <;> cases dl <;> cases iD <;> cases iP <;>
      cases del <;> simp [hD] at hcl ⊢
    all_goals first | exact hcl.symm | simpa using hE | simpa [and_assoc] using hE

/-! ## content -/

theorem content_eq_getObj (v : World) (a : Addr) :
    content v a = (getObj v.core a).map fun o => ⟨o.balance, o.nonce, o.code, o.com⟩ := by
  simp only [content, getObj]
  cases v.core.objs a with
  | none => rfl
  | some o => cases hd : o.deleted <;> simp [hd]

/-- `reopen` reads exactly the committed content -/
theorem reopen_content (v : World) : content (reopen v) = content v := by
  funext a
  rw [content_eq_getObj, content_eq_getObj, reopen_getObj]
  cases getObj v.core a <;> rfl

/-- a between-transaction copy commits to the same content as the original -/
theorem copy_commit_content (w : World) (h : CleanInvW w) (hc : CleanInvW (copy w)) (hj : w.journal = []) (del : Bool) :
    content (commit del (copy w)) = content (commit del w) := by
  funext a
  rw [content_eq_getObj, content_eq_getObj, commit_getObj del w h a, commit_getObj del (copy w) hc a]
  have hv := copy_getObj_view w h a
  have hD1 : dirtyAddrs w.journal a = false := by simp [hj, dirtyAddrs]
  have hD2 : dirtyAddrs (copy w).journal a = false := by simp [copy, dirtyAddrs]
  rw [hD1, hD2]
  revert hv
  cases getObj (copy w).core a <;> cases getObj w.core a <;> simp [Obj.view]
  intro _ h1 h2 h3 h4 _
  exact ⟨h1, h2, h3, h4⟩

/-! ## two instances -/

def runCmds (cmds : List Cmd) (w : World) : World := cmds.foldl (fun w c => exec c w) w

/-- a system of two instances (`true` = the original, `false` = the copy): a command runs on one side -/
def execPair (sc : Bool × Cmd) (p : World × World) : World × World :=
  if sc.1 then (exec sc.2 p.1, p.2) else (p.1, exec sc.2 p.2)

def runPair (cmds : List (Bool × Cmd)) (p : World × World) : World × World :=
  cmds.foldl (fun p sc => execPair sc p) p

def cmdsOf (side : Bool) (cmds : List (Bool × Cmd)) : List Cmd := (cmds.filter (fun sc => sc.1 == side)).map (·.2)

theorem runPair_proj (cmds : List (Bool × Cmd)) (p : World × World) :
    runPair cmds p = (runCmds (cmdsOf true cmds) p.1, runCmds (cmdsOf false cmds) p.2) := by
  induction cmds generalizing p with
  | nil => rfl
  | cons sc cs ih =>
    obtain ⟨s, c⟩ := sc
    simp only [runPair, List.foldl_cons] at ih ⊢
    rw [ih]
    cases s <;> simp [execPair, cmdsOf, runCmds]

/-! ## structured blocks stay reachable -/

mutual
theorem reachS_runStmt {strict : Bool} : ∀ (st : Stmt) (w : World), ReachS strict w → ReachS strict (runStmt st w)
  | .op o, w, h => by simpa [runStmt] using ReachS.op (.j o) h
  | .scope body rev, w, h => by
    have h1 := reachS_runStmts body (snapshot w) (by simpa [step] using ReachS.op .snapshot h)
    cases rev with
    | false => simpa [runStmt] using h1
    | true => simpa [runStmt] using ReachS.op (.revert w.nextId) h1
theorem reachS_runStmts {strict : Bool} : ∀ (sts : List Stmt) (w : World), ReachS strict w → ReachS strict (runStmts sts w)
  | [], w, h => by simpa [runStmts] using h
  | st :: rest, w, h => by
    simp only [runStmts]
    exact reachS_runStmts rest _ (reachS_runStmt st w h)
end

end KV.World
