import KV.Proofs.CsSyncByzJunk
import KV.Proofs.CsSyncStage
/-! Transitions of one node in a synchronous round with Byzantine inputs (C04): the scheduled
inputs (proposal, block, the correct validators' votes for `b`) and the faulty validators' votes
for the round itself.  Core Lean only. -/
namespace KV.Cs.Sync

section
variable (cfg : Config) (F : Nat → Bool) (h r pol b : Nat)

theorem BBase.stored {σ : State} (B : BBase cfg F h r pol σ) (t : VType) (idx : Nat) (tgt : Target) :
    BBase cfg F h r pol (stored t idx tgt h r σ) := by
  refine ⟨B.nh, B.hh, B.hr, B.pol.stored .., ?_, ?_, ?_, ?_⟩
  · show (findRV (σ.votes.map _) h r).isSome = true
    rw [findRV_map_setSlot]
    have := B.exr
    cases hf : findRV σ.votes h r with
    | none => rw [hf] at this; cases this
    | some x => rfl
  · show (slotsV (σ.votes.map _) .prevote h r).length = _
    rw [slotsV_setSlot]; split
    · rw [List.length_set]; exact B.pvLen
    · exact B.pvLen
  · show (slotsV (σ.votes.map _) .precommit h r).length = _
    rw [slotsV_setSlot]; split
    · rw [List.length_set]; exact B.pcLen
    · exact B.pcLen
  · intro r' t' hr'
    show CorrEmpty F (slotsV (σ.votes.map _) t' h r')
    rw [slotsV_setSlot_round _ _ _ _ _ _ _ _ _ (by omega)]; exact B.fut r' t' hr'

theorem grow_stored {σ : State} (t : VType) (idx : Nat) (tgt : Target)
    (he : (slotsV σ.votes t h r)[idx]? = some none) : Grow h r σ (stored t idx tgt h r σ) := by
  intro t' k x hs
  show (slotsV (σ.votes.map _) t' h r)[k]? = _
  rw [slotsV_setSlot]
  split
  · rename_i hc
    obtain ⟨-, -, rfl⟩ := hc
    by_cases e : k = idx
    · subst e; rw [he] at hs; cases hs
    · rw [List.getElem?_set_ne (by omega)]; exact hs
  · exact hs

theorem grow_of_votes {σ σ' : State} (hv : σ'.votes = σ.votes) : Grow h r σ σ' := by
  intro t k x hs; rw [hv]; exact hs

/-- a vote for the round itself: ignored, or stored in an empty slot -/
theorem vote_r_cases {σ : State} (B : BBase cfg F h r pol σ) (nb : Option Nat) (peer idx : Nat) (t : VType)
    (tgt : Target) (sigok : Bool) :
    (VExt F h r σ (step cfg σ nb (.vote peer idx t h r tgt sigok)) ∧
      ¬ (sigok = true ∧ idx < n cfg ∧ (slotsV σ.votes t h r)[idx]? = some none)) ∨
    ((sigok = true ∧ idx < n cfg ∧ (slotsV σ.votes t h r)[idx]? = some none) ∧
      step cfg σ nb (.vote peer idx t h r tgt sigok) =
        match t with
        | .prevote => afterPrevote cfg nb r (stored t idx tgt h r σ)
        | .precommit => afterPrecommit cfg nb r (stored t idx tgt h r σ)) := by
  have hh := B.hh
  subst hh
  rw [step_vote_cases cfg nb peer idx t r tgt sigok σ B.nh B.exr]
  by_cases hc : sigok = true ∧ idx < n cfg ∧ (slotsV σ.votes t σ.height r)[idx]? = some none
  · right; rw [if_pos hc]; exact ⟨hc, rfl⟩
  · left; rw [if_neg hc]; exact ⟨VExt.unadded F _ r σ, hc⟩

theorem filled_of {s : Slots} {idx : Nat} (hl : idx < s.length) (hc : CorrOnly F b s) (hF : F idx = false)
    (hne : s[idx]? ≠ some none) : s[idx]? = some (some (some b)) := by
  have e : s[idx]? = some s[idx] := List.getElem?_eq_getElem hl
  rcases hc idx _ hF e with e' | e'
  · rw [e'] at e; exact absurd e hne
  · rw [e'] at e; exact e

/-- every junk input but a vote for the round itself only touches vote sets of later rounds -/
theorem junk_cases {σ : State} (B : BBase cfg F h r pol σ) (fm : FaultyMinority cfg.powers F)
    (hprop : ∀ p, σ.proposal = some p → p.pol ≤ r) (hparts : σ.parts = none ∨ ∃ d, σ.parts = some (b, d))
    (p : Nat) (hp : cfg.proposer h r = p) (nb : Option Nat) (inp : Input) (hj : Junk F p h r b inp) :
    VExt F h r σ (step cfg σ nb inp) ∨
    ∃ peer idx t tgt sigok, F idx = true ∧ inp = .vote peer idx t h r tgt sigok := by
  cases inp with
  | proposal src sigok h' r' pol' id =>
    left
    rw [step_junk_proposal cfg σ nb src sigok h' r' pol' id p B.nh (by rw [B.hh, B.hr]; exact hp) hj]
    exact VExt.unadded F h r σ
  | block h' id ok dec =>
    left
    rw [step_junk_block cfg σ nb h' id b ok dec B.nh hparts hj]
    exact VExt.unadded F h r σ
  | vote peer idx t h' vr tgt sigok =>
    obtain ⟨hF, hvr⟩ := hj
    by_cases e : h' = h
    · subst e
      have := hvr rfl
      by_cases e2 : vr = r
      · subst e2; right; exact ⟨peer, idx, t, tgt, sigok, hF, rfl⟩
      · left; exact junk_future cfg F h' r pol B fm hprop nb peer idx t vr tgt sigok (by omega) hF
    · left
      rw [step_vote_other_height cfg σ nb peer idx t h' vr tgt sigok B.nh (by rw [B.hh]; exact e)]
      exact VExt.unadded F h r σ
  | timeout h' r' s => exact absurd hj (by simp [Junk])

/-! ### step Propose -/

theorem RX.stored {pr : Option Proposal} {pa : Option (Nat × Bool)} {σ : State} (S : RX cfg F h r pol b pr pa σ)
    (t : VType) (idx : Nat) (tgt : Target) (hF : F idx = true) :
    RX cfg F h r pol b pr pa (stored t idx tgt h r σ) := by
  refine ⟨S.base.stored .., S.st, S.prop, S.pb, S.parts, S.lk, ?_, ?_⟩
  · show CorrEmpty F (slotsV (σ.votes.map _) .prevote h r)
    rw [slotsV_setSlot]; split
    · exact S.pvE.set idx _ hF
    · exact S.pvE
  · show CorrEmpty F (slotsV (σ.votes.map _) .precommit h r)
    rw [slotsV_setSlot]; split
    · exact S.pcE.set idx _ hF
    · exact S.pcE

/-- step Propose is closed under the adversarial inputs -/
theorem RX.junk {pr : Option Proposal} {pa : Option (Nat × Bool)} {σ : State} (S : RX cfg F h r pol b pr pa σ)
    (fm : FaultyMinority cfg.powers F) (hpr : ∀ p, pr = some p → p.pol < r)
    (hpa : pa = none ∨ ∃ d, pa = some (b, d)) (p : Nat) (hp : cfg.proposer h r = p)
    (nb : Option Nat) (inp : Input) (hj : Junk F p h r b inp) :
    RX cfg F h r pol b pr pa (step cfg σ nb inp) := by
  have hprop : ∀ p, σ.proposal = some p → p.pol ≤ r := fun p hp => by
    rw [S.prop] at hp; exact Nat.le_of_lt (hpr p hp)
  rcases junk_cases cfg F h r pol b S.base fm hprop (by rw [S.parts]; exact hpa) p hp nb inp hj with v | ⟨peer, idx, t, tgt, sigok, hF, e⟩
  · exact S.vext cfg F h r pol b v
  · subst e
    rcases vote_r_cases cfg F h r pol S.base nb peer idx t tgt sigok with ⟨v, -⟩ | ⟨-, e⟩
    · exact S.vext cfg F h r pol b v
    · rw [e]
      have S' := S.stored cfg F h r pol b t idx tgt hF
      have hh : (Sync.stored t idx tgt h r σ).height = h := S.base.hh
      cases t with
      | prevote =>
        simp only
        rw [afterPrevote_idle cfg nb r _ (by rw [hh]; exact maj23_corrEmpty S'.pvE fm)
          (by rw [hh]; exact hasAny_corrEmpty S'.pvE fm) (Or.inr ⟨S'.base.hr, S'.st⟩)
          (fun p hpp => by
            have : pr = some p := by rw [← S'.prop]; exact hpp
            have := hpr p this; omega)]
        exact S'
      | precommit =>
        simp only
        rw [afterPrecommit_quiet cfg nb r _ (by rw [hh]; exact maj23_corrEmpty S'.pcE fm)
          (by rw [hh]; exact hasAny_corrEmpty S'.pcE fm)]
        exact S'

/-- **the proposal** is accepted -/
theorem R0.proposal {σ : State} (S : R0 cfg F h r pol b σ) (p : Nat) (hp : cfg.proposer h r = p)
    (nb : Option Nat) : R1 cfg F h r pol b (step cfg σ nb (.proposal p true h r pol b)) := by
  have B := S.base
  have hpolc : pol = 0 ∨ pol < r := by rcases B.pol with h0 | ⟨h1, _⟩ <;> omega
  have e1 : step cfg σ nb (.proposal p true h r pol b) =
      { σ with added := false, proposal := some ⟨r, pol, b⟩, parts := some (b, false) } := by
    rw [step_live _ _ _ _ B.nh]
    exact setProposal_accept cfg p h r pol b _ S.prop B.hh B.hr hpolc hp S.parts
  rw [e1]
  exact ⟨⟨B.nh, B.hh, B.hr, B.pol, B.exr, B.pvLen, B.pcLen, B.fut⟩, S.st, rfl, S.pb, rfl, S.lk, S.pvE, S.pcE⟩

/-- **the complete block**: the node prevotes `b` -/
theorem R1.block {σ : State} (S : R1 cfg F h r pol b σ) (fm : FaultyMinority cfg.powers F)
    (hv : isVal cfg = true) (nb : Option Nat) :
    B1 cfg F h r pol b (step cfg σ nb (.block h b true true)) := by
  have B := S.base
  obtain ⟨nh, hh, hr, pol', exr, pvLen, pcLen, fut⟩ := B
  have hm : maj23 cfg.powers (slotsV σ.votes .prevote h r) = none := maj23_corrEmpty S.pvE fm
  rw [step_live _ _ _ _ nh]
  simp only
  rw [addBlock_complete cfg h b true _ (by exact hh) (by exact S.parts)]
  rw [storeBlock_noPolka cfg _ _ (by rw [show _ = h from hh, show _ = r from hr]; exact hm)]
  rw [afterBlock_prevote cfg h _ (by exact S.st)
    (isProposalComplete_of (h := h) (r := r) (pol := pol) (b := b) (by exact S.prop) rfl (by exact hh) (by exact pol'))
    (by rw [show _ = h from hh, show _ = r from hr]; exact hm)]
  rw [enterPrevote_fires cfg h _ _ (by exact hh) rfl (by rw [show _ = Step.propose from S.st]; decide)]
  rw [doPrevote_block cfg b _ hv (by exact S.lk) rfl]
  refine ⟨⟨nh, hh, hr, pol', exr, pvLen, pcLen, fut⟩, Or.inl rfl, S.prop, rfl, rfl, S.lk, S.pvE.only b,
    isMaj_corrEmpty S.pvE fm _, S.pcE, ?_⟩
  show _ ∈ _ :: σ.log
  rw [show σ.height = h from hh, show σ.round = r from hr]
  exact List.mem_cons_self ..

end
end KV.Cs.Sync
