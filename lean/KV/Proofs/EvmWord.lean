import KV.Model.Evm
/-! Word-level operations against their integer definitions. -/
namespace KV.Evm

/-! ### EXP: square-and-multiply = power modulo 2^256 -/

theorem powMod_spec : ∀ (fuel b e : Nat), e < 2 ^ fuel → powMod b e fuel % W = b ^ e % W := by
  intro fuel
  induction fuel with
  | zero => intro b e h; have : e = 0 := by omega
            subst this; simp [powMod]
  | succ f ih =>
    intro b e h
    unfold powMod
    split
    · rename_i he; subst he; simp
    · have hlt : e / 2 < 2 ^ f := by
        rw [Nat.pow_succ] at h; omega
      have ihh := ih ((b * b) % W) (e / 2) hlt
      rw [← Nat.pow_mod] at ihh
      have hsq : (b * b) ^ (e / 2) = b ^ (2 * (e / 2)) := by
        rw [Nat.pow_mul, Nat.pow_two]
      rw [hsq] at ihh
      split
      · rename_i hodd
        have he : e = 2 * (e / 2) + 1 := by omega
        rw [Nat.mod_mod, Nat.mul_mod, ihh, ← Nat.mul_mod]
        conv => rhs; rw [he, Nat.pow_succ, Nat.mul_comm]
      · rename_i heven
        have he : e = 2 * (e / 2) := by omega
        rw [ihh]; conv => rhs; rw [he]

/-- EXP is exponentiation modulo 2^256 -/
theorem wexp_spec (b e : Word) (he : e < W) : wexp b e = b ^ e % W := by
  unfold wexp
  exact powMod_spec 256 b e he

/-! ### signed operations -/

theorem W_pos : 0 < W := by decide
theorem wneg_of_lt {q : Nat} (hq : q < W) : wneg q = if q = 0 then 0 else W - q := by
  unfold wneg
  rw [Nat.mod_eq_of_lt hq]
  by_cases h : q = 0
  · subst h; simp
  · rw [if_neg h, Nat.mod_eq_of_lt (Nat.sub_lt W_pos (Nat.pos_of_ne_zero h))]

theorem ofInt_nat {q : Nat} (hq : q < W) : ofInt (q : Int) = q := by
  unfold ofInt
  rw [Int.emod_eq_of_lt (Int.natCast_nonneg q) (Int.ofNat_lt.mpr hq)]
  simp

theorem ofInt_neg_nat {q : Nat} (hq : q < W) : ofInt (-(q : Int)) = wneg q := by
  rw [wneg_of_lt hq]
  unfold ofInt
  by_cases h : q = 0
  · subst h; simp
  · rw [if_neg h]
    have e : (-(q : Int)) % (W : Int) = ((W - q : Nat) : Int) := by
      rw [← Int.add_emod_right (-(q : Int)) (W : Int)]
      have : -(q : Int) + (W : Int) = ((W - q : Nat) : Int) := by
        rw [Int.ofNat_sub (Nat.le_of_lt hq)]; omega
      rw [this]
      exact Int.emod_eq_of_lt (Int.natCast_nonneg _) (Int.ofNat_lt.mpr (Nat.sub_lt W_pos (Nat.pos_of_ne_zero h)))
    rw [e]; simp

theorem wabs_lt {a : Word} (ha : a < W) : wabs a < W := by
  unfold wabs
  split
  · rw [wneg_of_lt ha]
    by_cases h : a = 0
    · rw [if_pos h]; exact W_pos
    · rw [if_neg h]; exact Nat.sub_lt W_pos (Nat.pos_of_ne_zero h)
  · exact ha

/-- two's complement value in terms of sign and magnitude -/
theorem toInt_signmag {a : Word} (ha : a < W) :
    toInt a = if isNeg a then -((wabs a : Nat) : Int) else ((wabs a : Nat) : Int) := by
  unfold toInt wabs isNeg
  by_cases h : 2 ^ 255 ≤ a
  · have h' : ¬ a < 2 ^ 255 := Nat.not_lt.mpr h
    have h0 : a ≠ 0 := Nat.ne_of_gt (Nat.lt_of_lt_of_le (Nat.two_pow_pos 255) h)
    simp only [h, h', decide_true, if_true, if_false]
    rw [wneg_of_lt ha, if_neg h0, Int.ofNat_sub (Nat.le_of_lt ha)]
    omega
  · have h' : a < 2 ^ 255 := Nat.lt_of_not_ge h
    simp [h, h']

/-- SDIV is truncated division of the two's complement values (wrapping for `MIN / -1`), 0 for
divisor 0 -/
theorem sdiv_spec (a b : Word) (ha : a < W) (hb : b < W) :
    sdiv a b = if b = 0 then 0 else ofInt (Int.tdiv (toInt a) (toInt b)) := by
  unfold sdiv
  split
  · rfl
  · have hq : wabs a / wabs b < W := Nat.lt_of_le_of_lt (Nat.div_le_self _ _) (wabs_lt ha)
    rw [toInt_signmag ha, toInt_signmag hb]
    cases hna : isNeg a <;> cases hnb : isNeg b <;>
      simp only [Bool.false_eq_true, if_false, if_true, bne_self_eq_false, Bool.true_bne, Bool.false_bne,
        Bool.not_false, Int.tdiv_neg, Int.neg_tdiv, Int.neg_neg, ← Int.ofNat_tdiv]
    · rw [ofInt_nat hq]
    · rw [ofInt_neg_nat hq]
    · rw [ofInt_neg_nat hq]
    · rw [ofInt_nat hq]

/-- SMOD is the remainder of truncated division (sign of the dividend), 0 for divisor 0 -/
theorem smod_spec (a b : Word) (ha : a < W) (hb : b < W) :
    smod a b = if b = 0 then 0 else ofInt (Int.tmod (toInt a) (toInt b)) := by
  unfold smod
  split
  · rfl
  · rename_i hb0
    have hpos : 0 < wabs b := by
      unfold wabs; split
      · rw [wneg_of_lt hb, if_neg hb0]; exact Nat.sub_pos_of_lt hb
      · exact Nat.pos_of_ne_zero hb0
    have hq : wabs a % wabs b < W := Nat.lt_of_lt_of_le (Nat.mod_lt _ hpos) (Nat.le_of_lt (wabs_lt hb))
    rw [toInt_signmag ha, toInt_signmag hb]
    cases hna : isNeg a <;> cases hnb : isNeg b <;>
      simp only [Bool.false_eq_true, if_false, if_true, Int.tmod_neg, Int.neg_tmod, ← Int.ofNat_tmod]
    · rw [ofInt_nat hq]
    · rw [ofInt_nat hq]
    · rw [ofInt_neg_nat hq]
    · rw [ofInt_neg_nat hq]

end KV.Evm
