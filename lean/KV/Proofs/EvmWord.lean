import KV.Model.Evm
/-! Word-level operations against their integer definitions. -/
namespace KV.Evm

/-! ### EXP: square-and-multiply = power modulo 2^256 -/

theorem powMod_spec : ∀ (fuel b e : Nat), e < 2 ^ fuel → powMod b e fuel % W = b ^ e % W := by
  intro fuel
  induction fuel with
  | zero => intro b e h; have : e = 0 := by omega
            subst this; simp [powMod]
  | succ f ih =>
    intro b e h
    unfold powMod
    split
    · rename_i he; subst he; simp
    · have hlt : e / 2 < 2 ^ f := by
        rw [Nat.pow_succ] at h; omega
      have ihh := ih ((b * b) % W) (e / 2) hlt
      rw [← Nat.pow_mod] at ihh
      have hsq : (b * b) ^ (e / 2) = b ^ (2 * (e / 2)) := by
        rw [Nat.pow_mul, Nat.pow_two]
      rw [hsq] at ihh
      split
      · rename_i hodd
        have he : e = 2 * (e / 2) + 1 := by omega
        rw [Nat.mod_mod, Nat.mul_mod, ihh, ← Nat.mul_mod]
        conv => rhs; rw [he, Nat.pow_succ, Nat.mul_comm]
      · rename_i heven
        have he : e = 2 * (e / 2) := by omega
        rw [ihh]; conv => rhs; rw [he]

/-- EXP is exponentiation modulo 2^256 -/
theorem wexp_spec (b e : Word) (he : e < W) : wexp b e = b ^ e % W := by
  unfold wexp
  exact powMod_spec 256 b e he

/-! ### signed operations -/

theorem W_pos : 0 < W := by decide
theorem wneg_of_lt {q : Nat} (hq : q < W) : wneg q = if q = 0 then 0 else W - q := by
  unfold wneg
  rw [Nat.mod_eq_of_lt hq]
  by_cases h : q = 0
  · subst h; simp
  · rw [if_neg h, Nat.mod_eq_of_lt (Nat.sub_lt W_pos (Nat.pos_of_ne_zero h))]

theorem ofInt_nat {q : Nat} (hq : q < W) : ofInt (q : Int) = q := by
  unfold ofInt
  rw [Int.emod_eq_of_lt (Int.natCast_nonneg q) (Int.ofNat_lt.mpr hq)]
  simp

theorem ofInt_neg_nat {q : Nat} (hq : q < W) : ofInt (-(q : Int)) = wneg q := by
  rw [wneg_of_lt hq]
  unfold ofInt
  by_cases h : q = 0
  · subst h; simp
  · rw [if_neg h]
    have e : (-(q : Int)) % (W : Int) = ((W - q : Nat) : Int) := by
      rw [← Int.add_emod_right (-(q : Int)) (W : Int)]
      have : -(q : Int) + (W : Int) = ((W - q : Nat) : Int) := by
        rw [Int.ofNat_sub (Nat.le_of_lt hq)]; omega
      rw [this]
      exact Int.emod_eq_of_lt (Int.natCast_nonneg _) (Int.ofNat_lt.mpr (Nat.sub_lt W_pos (Nat.pos_of_ne_zero h)))
    rw [e]; simp

theorem wabs_lt {a : Word} (ha : a < W) : wabs a < W := by
  unfold wabs
  split
  · rw [wneg_of_lt ha]
    by_cases h : a = 0
    · rw [if_pos h]; exact W_pos
    · rw [if_neg h]; exact Nat.sub_lt W_pos (Nat.pos_of_ne_zero h)
  · exact ha

/-- two's complement value in terms of sign and magnitude -/
theorem toInt_signmag {a : Word} (ha : a < W) :
    toInt a = if isNeg a then -((wabs a : Nat) : Int) else ((wabs a : Nat) : Int) := by
  unfold toInt wabs isNeg
  by_cases h : 2 ^ 255 ≤ a
  · have h' : ¬ a < 2 ^ 255 := Nat.not_lt.mpr h
    have h0 : a ≠ 0 := Nat.ne_of_gt (Nat.lt_of_lt_of_le (Nat.two_pow_pos 255) h)
    simp only [h, h', decide_true, if_true, if_false]
    rw [wneg_of_lt ha, if_neg h0, Int.ofNat_sub (Nat.le_of_lt ha)]
    omega
  · have h' : a < 2 ^ 255 := Nat.lt_of_not_ge h
    simp [h, h']

/-- SDIV is truncated division of the two's complement values (wrapping for `MIN / -1`), 0 for
divisor 0 -/
theorem sdiv_spec (a b : Word) (ha : a < W) (hb : b < W) :
    sdiv a b = if b = 0 then 0 else ofInt (Int.tdiv (toInt a) (toInt b)) := by
  unfold sdiv
  split
  · rfl
  · have hq : wabs a / wabs b < W := Nat.lt_of_le_of_lt (Nat.div_le_self _ _) (wabs_lt ha)
    rw [toInt_signmag ha, toInt_signmag hb]
    cases hna : isNeg a <;> cases hnb : isNeg b <;>
      simp only [Bool.false_eq_true, if_false, if_true, bne_self_eq_false, Bool.true_bne, Bool.false_bne,
        Bool.not_false, Int.tdiv_neg, Int.neg_tdiv, Int.neg_neg, ← Int.ofNat_tdiv]
    · rw [ofInt_nat hq]
    · rw [ofInt_neg_nat hq]
    · rw [ofInt_neg_nat hq]
    · rw [ofInt_nat hq]

/-- SMOD is the remainder of truncated division (sign of the dividend), 0 for divisor 0 -/
theorem smod_spec (a b : Word) (ha : a < W) (hb : b < W) :
    smod a b = if b = 0 then 0 else ofInt (Int.tmod (toInt a) (toInt b)) := by
  unfold smod
  split
  · rfl
  · rename_i hb0
    have hpos : 0 < wabs b := by
      unfold wabs; split
      · rw [wneg_of_lt hb, if_neg hb0]; exact Nat.sub_pos_of_lt hb
      · exact Nat.pos_of_ne_zero hb0
    have hq : wabs a % wabs b < W := Nat.lt_of_lt_of_le (Nat.mod_lt _ hpos) (Nat.le_of_lt (wabs_lt hb))
    rw [toInt_signmag ha, toInt_signmag hb]
    cases hna : isNeg a <;> cases hnb : isNeg b <;>
      simp only [Bool.false_eq_true, if_false, if_true, Int.tmod_neg, Int.neg_tmod, ← Int.ofNat_tmod]
    · rw [ofInt_nat hq]
    · rw [ofInt_nat hq]
    · rw [ofInt_neg_nat hq]
    · rw [ofInt_neg_nat hq]

/-! ### SAR and SIGNEXTEND -/

theorem negdiv (m P : Nat) (hP : 0 < P) : (-((m : Int) + 1)) / (P : Int) = -((m / P : Nat) : Int) - 1 := by
  have hm : (m : Int) = (P : Int) * ((m / P : Nat) : Int) + ((m % P : Nat) : Int) := by
    have := Nat.div_add_mod m P
    exact_mod_cast this.symm
  have hr : (m % P : Nat) < P := Nat.mod_lt _ hP
  have e : -((m : Int) + 1) = ((P : Int) - 1 - ((m % P : Nat) : Int)) + (P : Int) * (-((m / P : Nat) : Int) - 1) := by
    rw [Int.mul_sub, Int.mul_neg, Int.mul_one]; omega
  rw [e, Int.add_mul_ediv_left _ _ (by omega : (P : Int) ≠ 0), Int.ediv_eq_zero_of_lt (by omega) (by omega)]
  omega

theorem W_two_half : W = 2 ^ 255 + 2 ^ 255 := by decide

theorem toInt_of_lt_half {x : Nat} (h : x < 2 ^ 255) : toInt x = (x : Int) := by
  unfold toInt; rw [if_pos h]

theorem toInt_of_ge_half {x : Nat} (h : 2 ^ 255 ≤ x) : toInt x = (x : Int) - (W : Int) := by
  unfold toInt; rw [if_neg (Nat.not_lt.mpr h)]

theorem small_div_pow {m s : Nat} (hm : m < 2 ^ 255) (hs : 256 ≤ s) : m / 2 ^ s = 0 :=
  Nat.div_eq_of_lt (Nat.lt_of_lt_of_le hm (Nat.pow_le_pow_right (by decide) (by omega)))

theorem pow_cast (s : Nat) : ((2 ^ s : Nat) : Int) = (2 : Int) ^ s := by simp

theorem sar_nonneg (s v : Nat) (hv : v < 2 ^ 255) : toInt (wsar s v) = toInt v / (2 : Int) ^ s := by
  have hn : isNeg v = false := by unfold isNeg; exact decide_eq_false (Nat.not_le.mpr hv)
  have hq : v / 2 ^ s < 2 ^ 255 := Nat.lt_of_le_of_lt (Nat.div_le_self _ _) hv
  have hw : wsar s v = v / 2 ^ s := by
    unfold wsar; rw [hn]; simp only [Bool.false_eq_true, if_false]
    by_cases hs : (256 : Nat) ≤ s
    · rw [if_pos hs, small_div_pow hv hs]
    · rw [if_neg hs]
  rw [hw, toInt_of_lt_half hq, toInt_of_lt_half hv, ← pow_cast, Int.natCast_ediv]

theorem sar_neg (s v : Nat) (hv : v < W) (hneg : 2 ^ 255 ≤ v) : toInt (wsar s v) = toInt v / (2 : Int) ^ s := by
  have hn : isNeg v = true := by unfold isNeg; exact decide_eq_true hneg
  have hW := W_two_half
  have hm : W - 1 - v < 2 ^ 255 := by omega
  have hq : (W - 1 - v) / 2 ^ s ≤ W - 1 - v := Nat.div_le_self _ _
  have hw : wsar s v = W - 1 - (W - 1 - v) / 2 ^ s := by
    unfold wsar; rw [hn]; simp only [if_true, Nat.mod_eq_of_lt hv]
    by_cases hs : (256 : Nat) ≤ s
    · rw [if_pos hs, small_div_pow hm hs]; rfl
    · rw [if_neg hs]
  have hge : 2 ^ 255 ≤ W - 1 - (W - 1 - v) / 2 ^ s := by omega
  rw [hw, toInt_of_ge_half hge, toInt_of_ge_half hneg]
  have e1 : (v : Int) - (W : Int) = -(((W - 1 - v : Nat) : Int) + 1) := by omega
  rw [e1, ← pow_cast, negdiv _ _ (Nat.two_pow_pos s)]
  omega

/-- SAR is the floor division of the two's complement value by `2^s`, for every shift -/
theorem sar_spec (s v : Nat) (hv : v < W) : toInt (wsar s v) = toInt v / (2 : Int) ^ s := by
  rcases Nat.lt_or_ge v (2 ^ 255) with h | h
  · exact sar_nonneg s v h
  · exact sar_neg s v hv h

/-- SIGNEXTEND over `Nat`: the low `8(b+1)` bits read as a two's complement number -/
theorem signextend_nat (b x : Nat) (hb : b < 32) :
    toInt (signextend b x) =
      if x % 2 ^ (8 * (b + 1)) < 2 ^ (8 * (b + 1) - 1) then ((x % 2 ^ (8 * (b + 1)) : Nat) : Int)
      else ((x % 2 ^ (8 * (b + 1)) : Nat) : Int) - ((2 ^ (8 * (b + 1)) : Nat) : Int) := by
  have hW := W_two_half
  have hn1 : 8 * (b + 1) = (8 * (b + 1) - 1) + 1 := by omega
  have hP : 2 ^ (8 * (b + 1)) = 2 * 2 ^ (8 * (b + 1) - 1) := by
    conv => lhs; rw [hn1, Nat.pow_succ]
    omega
  have hH : 2 ^ (8 * (b + 1) - 1) ≤ 2 ^ 255 := Nat.pow_le_pow_right (by decide) (by omega)
  have hlow : x % 2 ^ (8 * (b + 1)) < 2 ^ (8 * (b + 1)) := Nat.mod_lt _ (Nat.two_pow_pos _)
  unfold signextend
  rw [if_neg (by omega : ¬ b > 31)]
  simp only
  by_cases hc : 2 ^ (8 * (b + 1) - 1) ≤ x % 2 ^ (8 * (b + 1))
  · rw [if_pos hc, if_neg (Nat.not_lt.mpr hc)]
    have hbig : ¬ (x % 2 ^ (8 * (b + 1)) + (W - 2 ^ (8 * (b + 1))) < 2 ^ 255) := by omega
    unfold toInt
    rw [if_neg hbig]
    omega
  · rw [if_neg hc, if_pos (Nat.lt_of_not_ge hc)]
    have hsm : x % 2 ^ (8 * (b + 1)) < 2 ^ 255 := by omega
    unfold toInt
    rw [if_pos hsm]

end KV.Evm
