/-! Abstract Tendermint agreement from per-validator obligations (DESIGN.md, C01 / Appendix A).
Core Lean only. Weighted voting power, arbitrary validator lists, arbitrary traces. -/
namespace KV.Agree

variable {V B : Type} [DecidableEq V] [DecidableEq B]

inductive Ty | prevote | precommit deriving DecidableEq

structure Vote (B : Type) where
  ty : Ty
  round : Nat
  val : Option B
  deriving DecidableEq

structure Ev (V B : Type) where
  sender : V
  vote : Vote B
  deriving DecidableEq

/-- weighted power of the validators in `vals` satisfying `p` -/
def power (vals : List V) (pw : V → Nat) (p : V → Bool) : Nat :=
  ((vals.filter p).map pw).sum

theorem power_inter (vals : List V) (pw : V → Nat) (p q : V → Bool) :
    power vals pw p + power vals pw q ≤ power vals pw (fun _ => true) + power vals pw (fun v => p v && q v) := by
  induction vals with
  | nil => simp [power]
  | cons a as ih =>
    simp only [power] at ih ⊢
    by_cases hp : p a <;> by_cases hq : q a <;> simp [List.filter, hp, hq] <;> omega

theorem power_mono (vals : List V) (pw : V → Nat) (p q : V → Bool) (h : ∀ v, p v = true → q v = true) :
    power vals pw p ≤ power vals pw q := by
  induction vals with
  | nil => simp [power]
  | cons a as ih =>
    simp only [power] at ih ⊢
    by_cases hp : p a
    · have hq := h a hp
      simp [List.filter, hp, hq]; omega
    · by_cases hq : q a <;> simp [List.filter, hp, hq] <;> omega

theorem power_pos_exists (vals : List V) (pw : V → Nat) (p : V → Bool) (h : 0 < power vals pw p) :
    ∃ v, v ∈ vals ∧ p v = true := by
  induction vals with
  | nil => simp [power] at h
  | cons a as ih =>
    by_cases hp : p a
    · exact ⟨a, by simp, hp⟩
    · have : 0 < power as pw p := by simpa [power, List.filter, hp] using h
      obtain ⟨v, hv, hpv⟩ := ih this
      exact ⟨v, by simp [hv], hpv⟩

theorem power_compl (vals : List V) (pw : V → Nat) (F : V → Bool) :
    power vals pw (fun v => !F v) + power vals pw F = power vals pw (fun _ => true) := by
  induction vals with
  | nil => simp [power]
  | cons a as ih =>
    simp only [power] at ih ⊢
    by_cases hf : F a <;> simp [List.filter, hf] <;> omega

/-- two +2/3 sets share a non-faulty validator when faulty power < 1/3 -/
theorem quorum_intersection (vals : List V) (pw : V → Nat) (F p q : V → Bool)
    (hF : 3 * power vals pw F < power vals pw (fun _ => true))
    (hp : 3 * power vals pw p > 2 * power vals pw (fun _ => true))
    (hq : 3 * power vals pw q > 2 * power vals pw (fun _ => true)) :
    ∃ v, v ∈ vals ∧ p v = true ∧ q v = true ∧ F v = false := by
  have h1 := power_inter vals pw p q
  have h2 := power_inter vals pw (fun v => p v && q v) (fun v => !F v)
  have h3 := power_compl vals pw F
  have hpos : 0 < power vals pw (fun v => (p v && q v) && !F v) := by omega
  obtain ⟨v, hv, hpv⟩ := power_pos_exists vals pw _ hpos
  simp at hpv
  exact ⟨v, hv, hpv.1.1, hpv.1.2, hpv.2⟩

/-- a +2/3 set contains a non-faulty validator -/
theorem quorum_has_correct (vals : List V) (pw : V → Nat) (F p : V → Bool)
    (hF : 3 * power vals pw F < power vals pw (fun _ => true))
    (hp : 3 * power vals pw p > 2 * power vals pw (fun _ => true)) :
    ∃ v, v ∈ vals ∧ p v = true ∧ F v = false := by
  obtain ⟨v, hv, h1, _, h3⟩ := quorum_intersection vals pw F p p hF hp hp
  exact ⟨v, hv, h1, h3⟩

/-! ### traces -/

abbrev Trace (V B : Type) := List (Ev V B)

def sentB (tr : Trace V B) (v : V) (vt : Vote B) : Bool := tr.contains ⟨v, vt⟩

def polka (vals : List V) (pw : V → Nat) (tr : Trace V B) (r : Nat) (x : Option B) : Prop :=
  3 * power vals pw (fun v => sentB tr v ⟨.prevote, r, x⟩) > 2 * power vals pw (fun _ => true)

def commitQ (vals : List V) (pw : V → Nat) (tr : Trace V B) (r : Nat) (b : B) : Prop :=
  3 * power vals pw (fun v => sentB tr v ⟨.precommit, r, some b⟩) > 2 * power vals pw (fun _ => true)

/-- obligations of a correct validator, for the event `e` it emits after prefix `pre` -/
structure Obl (vals : List V) (pw : V → Nat) (pre : Trace V B) (e : Ev V B) : Prop where
  /-- rounds never decrease -/
  mono : ∀ vt, sentB pre e.sender vt = true → vt.round ≤ e.vote.round
  /-- no equivocation -/
  once : ∀ vt, sentB pre e.sender vt = true → vt.ty = e.vote.ty → vt.round = e.vote.round → vt.val = e.vote.val
  /-- a precommit for a block needs a polka for it in that round -/
  just : ∀ b, e.vote.ty = .precommit → e.vote.val = some b → polka vals pw pre e.vote.round (some b)
  /-- lock rule -/
  lock : ∀ r b, sentB pre e.sender ⟨.precommit, r, some b⟩ = true → e.vote.ty = .prevote →
      r < e.vote.round → e.vote.val ≠ some b →
      ∃ r'' x'', r < r'' ∧ r'' ≤ e.vote.round ∧ x'' ≠ some b ∧ polka vals pw pre r'' x''

def Good (vals : List V) (pw : V → Nat) (F : V → Bool) (tr : Trace V B) : Prop :=
  ∀ pre e rest, tr = pre ++ e :: rest → F e.sender = false → Obl vals pw pre e

theorem sentB_append (pre rest : Trace V B) (v : V) (vt : Vote B) (h : sentB pre v vt = true) :
    sentB (pre ++ rest) v vt = true := by
  simp [sentB] at *; exact Or.inl h

theorem polka_mono (vals : List V) (pw : V → Nat) (pre rest : Trace V B) (r : Nat) (x : Option B)
    (h : polka vals pw pre r x) : polka vals pw (pre ++ rest) r x := by
  unfold polka at *
  have := power_mono vals pw (fun v => sentB pre v ⟨.prevote, r, x⟩) (fun v => sentB (pre ++ rest) v ⟨.prevote, r, x⟩)
    (fun v hv => sentB_append pre rest v _ hv)
  omega

/-- split a trace at an event it contains -/
theorem split_of_sent (tr : Trace V B) (v : V) (vt : Vote B) (h : sentB tr v vt = true) :
    ∃ pre rest, tr = pre ++ (⟨v, vt⟩ : Ev V B) :: rest := by
  simp [sentB] at h
  exact List.append_of_mem h

/-- Key lemma: once +2/3 precommitted `b` at round `r` (anywhere in the whole trace), no prefix ever
contains a polka for another value at a later round. -/
theorem no_later_polka (vals : List V) (pw : V → Nat) (F : V → Bool) (tr : Trace V B)
    (hF : 3 * power vals pw F < power vals pw (fun _ => true))
    (hgood : Good vals pw F tr) (r : Nat) (b : B) (hq : commitQ vals pw tr r b) :
    ∀ n pre rest, pre.length = n → tr = pre ++ rest → ∀ r' x, r < r' → x ≠ some b → ¬ polka vals pw pre r' x := by
  intro n
  induction n using Nat.strongRecOn with
  | _ n ih =>
    intro pre rest hlen htr r' x hr hx hpol
    -- a correct validator c both prevoted x at r' (inside pre) and precommitted b at r (somewhere in tr)
    obtain ⟨c, _, hc1, hc2, hcF⟩ := quorum_intersection vals pw F _ _ hF hpol hq
    obtain ⟨p1, p2, hp⟩ := split_of_sent pre c _ hc1
    have htr' : tr = p1 ++ (⟨c, ⟨.prevote, r', x⟩⟩ : Ev V B) :: (p2 ++ rest) := by
      rw [htr, hp]; simp
    have obl := hgood p1 _ (p2 ++ rest) htr' hcF
    -- the precommit of c at round r is before the prevote (round monotonicity)
    have hpc_in : sentB p1 c ⟨.precommit, r, some b⟩ = true := by
      -- it is in tr = p1 ++ e :: (p2++rest); if it were after e, monotonicity at that later event fails
      have hmem : (⟨c, ⟨.precommit, r, some b⟩⟩ : Ev V B) ∈ tr := by
        simpa [sentB] using hc2
      rw [htr'] at hmem
      rcases List.mem_append.mp hmem with h | h
      · simpa [sentB] using h
      rcases List.mem_cons.mp h with h | h
      · cases h
      · -- later event: split and use mono there
        obtain ⟨q1, q2, hq12⟩ := List.append_of_mem h
        have htr'' : tr = (p1 ++ (⟨c, ⟨.prevote, r', x⟩⟩ : Ev V B) :: q1) ++ (⟨c, ⟨.precommit, r, some b⟩⟩ : Ev V B) :: q2 := by
          rw [htr', hq12]; simp
        have obl2 := hgood _ _ _ htr'' hcF
        have := obl2.mono ⟨.prevote, r', x⟩ (by simp [sentB])
        simp at this
        omega
    obtain ⟨r'', x'', h1, h2, h3, h4⟩ := obl.lock r b hpc_in rfl hr hx
    -- p1 is a strictly shorter prefix containing a bad polka
    have hlt : p1.length < n := by rw [← hlen, hp]; simp
    exact ih p1.length hlt p1 (_ :: (p2 ++ rest)) rfl htr' r'' x'' h1 h3 h4

/-- Agreement: two decided blocks at a height are equal. -/
theorem agreement (vals : List V) (pw : V → Nat) (F : V → Bool) (tr : Trace V B)
    (hF : 3 * power vals pw F < power vals pw (fun _ => true))
    (hgood : Good vals pw F tr) (r r' : Nat) (b b' : B)
    (h : commitQ vals pw tr r b) (h' : commitQ vals pw tr r' b') : b = b' := by
  -- wlog r ≤ r'
  have main : ∀ (r r' : Nat) (b b' : B), r ≤ r' → commitQ vals pw tr r b → commitQ vals pw tr r' b' → b = b' := by
    intro r r' b b' hle h h'
    rcases Nat.lt_or_eq_of_le hle with hlt | heq
    · -- a correct validator precommitted b' at r' and therefore saw a polka for b' at r' > r
      obtain ⟨c, _, hc, hcF⟩ := quorum_has_correct vals pw F _ hF h'
      obtain ⟨p1, p2, hp⟩ := split_of_sent tr c _ hc
      have obl := hgood p1 _ p2 hp hcF
      have hpol := obl.just b' rfl rfl
      by_cases hbb : b = b'
      · exact hbb
      · exfalso
        have hne : (some b' : Option B) ≠ some b := by
          intro hh; cases hh; exact hbb rfl
        exact no_later_polka vals pw F tr hF hgood r b h p1.length p1 _ rfl hp r' (some b') hlt hne hpol
    · subst heq
      obtain ⟨c, _, hc1, hc2, hcF⟩ := quorum_intersection vals pw F _ _ hF h h'
      -- both precommits by c in the same round: no equivocation
      obtain ⟨p1, p2, hp⟩ := split_of_sent tr c _ hc1
      have hmem : (⟨c, ⟨.precommit, r, some b'⟩⟩ : Ev V B) ∈ tr := by
        simpa [sentB] using hc2
      rw [hp] at hmem
      rcases List.mem_append.mp hmem with hin | hin
      · have obl := hgood p1 _ p2 hp hcF
        have := obl.once ⟨.precommit, r, some b'⟩ (by simpa [sentB] using hin) rfl rfl
        simp at this; exact this.symm
      rcases List.mem_cons.mp hin with heq | hin
      · cases heq; rfl
      · obtain ⟨q1, q2, hq12⟩ := List.append_of_mem hin
        have htr'' : tr = (p1 ++ (⟨c, ⟨.precommit, r, some b⟩⟩ : Ev V B) :: q1) ++ (⟨c, ⟨.precommit, r, some b'⟩⟩ : Ev V B) :: q2 := by
          rw [hp, hq12]; simp
        have obl2 := hgood _ _ _ htr'' hcF
        have := obl2.once ⟨.precommit, r, some b⟩ (by simp [sentB]) rfl rfl
        simp at this; exact this
  rcases Nat.le_total r r' with hle | hle
  · exact main r r' b b' hle h h'
  · exact (main r' r b' b hle h' h).symm

end KV.Agree
