import KV.Proofs.TxPoolDisj
/-!
# Pending is gap-free from the state nonce; virtual nonce = state nonce + |pending| (property C17)
-/
namespace KV.TxPool
open TxList

/-! ## gap-free lists -/

theorem gf_mem_range {s : Nat} {l : List Tx} (h : GapFree s l) {x : Tx} (hx : x ∈ l) :
    s ≤ x.nonce ∧ x.nonce < s + l.length := by
  have : x.nonce ∈ l.map (·.nonce) := List.mem_map_of_mem hx
  rw [h, List.mem_range'_1] at this
  exact this

theorem gf_present {s : Nat} {l : List Tx} (h : GapFree s l) {m : Nat} (h1 : s ≤ m) (h2 : m < s + l.length) :
    ∃ x ∈ l, x.nonce = m := by
  have : m ∈ l.map (·.nonce) := by
    rw [h, List.mem_range'_1]; exact ⟨h1, h2⟩
  obtain ⟨x, hx, hxm⟩ := List.mem_map.mp this
  exact ⟨x, hx, hxm⟩

theorem gf_nil (s : Nat) : GapFree s [] := by simp [GapFree]

theorem gf_cons {s : Nat} {x : Tx} {xs : List Tx} :
    GapFree s (x :: xs) ↔ x.nonce = s ∧ GapFree (s + 1) xs := by
  simp [GapFree, List.range'_succ]

theorem gf_take {s : Nat} {l : List Tx} (h : GapFree s l) (k : Nat) : GapFree s (l.take k) := by
  induction l generalizing s k with
  | nil => simp [GapFree]
  | cons x xs ih =>
    cases k with
    | zero => simp [GapFree]
    | succ k =>
      rw [gf_cons] at h
      rw [List.take_succ_cons, gf_cons]
      exact ⟨h.1, ih h.2 k⟩

theorem gf_drop_nonce {s : Nat} {l : List Tx} (h : GapFree s l) (k : Nat) {x : Tx} (hx : x ∈ l.drop k) :
    s + k ≤ x.nonce := by
  induction l generalizing s k with
  | nil => simp at hx
  | cons y ys ih =>
    cases k with
    | zero => simp at hx; have := (gf_mem_range h (x := x) (by simpa using hx)).1; omega
    | succ k =>
      rw [gf_cons] at h
      simp only [List.drop_succ_cons] at hx
      have := ih h.2 k hx
      omega

theorem gf_append_one {s : Nat} {l : List Tx} (h : GapFree s l) (t : Tx) (ht : t.nonce = s + l.length) :
    GapFree s (l ++ [t]) := by
  unfold GapFree at *
  rw [List.map_append, h, List.length_append]
  simp only [List.map_cons, List.map_nil, List.length_singleton]
  rw [List.range'_concat, ht]
  simp

/-- the members below `n` of a gap-free list: a gap-free list of length `n - s` -/
theorem gf_below {s n : Nat} {l l' : List Tx} (h : GapFree s l) (hsub : l'.Sublist l)
    (h1 : ∀ x ∈ l', x.nonce < n) (h2 : ∀ x ∈ l, x.nonce < n → x ∈ l') (hsn : s ≤ n)
    (hn : n ≤ s + l.length) : GapFree s l' ∧ l'.length = n - s := by
  have hg : GapFree s l' := by
    refine gapfree_of_downclosed s l l' h hsub ?_
    intro t ht u hu hlt
    exact h2 u hu (by have := h1 t ht; omega)
  refine ⟨hg, ?_⟩
  -- upper bound
  have hle : s + l'.length ≤ n := by
    by_cases hk : l'.length = 0
    · omega
    · obtain ⟨x, hx, hxm⟩ := gf_present hg (m := s + l'.length - 1) (by omega) (by omega)
      have := h1 x hx
      omega
  -- lower bound
  have hge : n ≤ s + l'.length := by
    by_cases hns : n = s
    · omega
    · obtain ⟨x, hx, hxm⟩ := gf_present h (m := n - 1) (by omega) (by omega)
      have hx' := h2 x hx (by omega)
      have := (gf_mem_range hg hx').2
      omega
  omega

theorem put_append {t : Tx} {l : List Tx} (h : ∀ x ∈ l, x.nonce < t.nonce) : put t l = l ++ [t] := by
  induction l with
  | nil => simp [put]
  | cons y ys ih =>
    have hy := h y (by simp)
    simp only [put]
    rw [if_neg (by omega), if_neg (by omega)]
    simp [ih (fun x hx => h x (by simp [hx]))]

/-- overwriting an existing nonce of a nonce-sorted list leaves the nonces as they are -/
theorem put_nonces {t : Tx} {l : List Tx} (hs : Sorted l) (h : ∃ x ∈ l, x.nonce = t.nonce) :
    (put t l).map (·.nonce) = l.map (·.nonce) := by
  induction l with
  | nil => obtain ⟨x, hx, _⟩ := h; simp at hx
  | cons y ys ih =>
    unfold Sorted at hs ih
    rw [List.pairwise_cons] at hs
    simp only [put]
    split
    · rename_i hlt
      exfalso
      obtain ⟨x, hx, hxn⟩ := h
      rcases List.mem_cons.mp hx with hx | hx
      · subst hx; omega
      · have := hs.1 x hx; omega
    · split
      · rename_i heq; simp [heq]
      · rename_i hnlt hne
        have : ∃ x ∈ ys, x.nonce = t.nonce := by
          obtain ⟨x, hx, hxn⟩ := h
          rcases List.mem_cons.mp hx with hx | hx
          · subst hx; omega
          · exact ⟨x, hx, hxn⟩
        simp [ih hs.2 this]

/-! ## the strict flag is never changed by a list operation -/

theorem add_strict (l : TxList) (t : Tx) (b : Nat) : (l.add t b).1.strict = l.strict := by
  unfold TxList.add; simp only; repeat' split
  all_goals rfl
theorem forward_strict (l : TxList) (th : Nat) : (l.forward th).1.strict = l.strict := rfl
theorem filter_strict (l : TxList) (c g : Nat) : (l.filter c g).1.strict = l.strict := by
  unfold TxList.filter; simp only; repeat' split
  all_goals rfl
theorem cap_strict (l : TxList) (k : Nat) : (l.cap k).1.strict = l.strict := by
  unfold TxList.cap; split <;> rfl
theorem remove_strict (l : TxList) (n : Nat) : (l.remove n).1.strict = l.strict := by
  unfold TxList.remove; repeat' split
  all_goals rfl

/-! ## the contiguous-run count of `demoteUnexecutables` -/

theorem get?_cons_ne {x : Tx} {xs : List Tx} {l : TxList} {m : Nat} (hl : l.txs = x :: xs) (h : x.nonce ≠ m) :
    l.get? m = ({ l with txs := xs } : TxList).get? m := by
  unfold TxList.get?
  rw [hl]
  have : (x.nonce == m) = false := by simpa using h
  simp [List.find?_cons, this]

/-- on a nonce-sorted list whose nonces are all `≥ n` the first `Pool.countRun` members are exactly the
nonces `n, n+1, …` -/
theorem Pool.countRun_take (fuel : Nat) (txs : List Tx) (st : Bool) (cc gc n : Nat) (hs : Sorted txs)
    (hge : ∀ x ∈ txs, n ≤ x.nonce) (hf : txs.length ≤ fuel) :
    GapFree n (txs.take (Pool.countRun fuel { strict := st, txs := txs, costcap := cc, gascap := gc } n)) := by
  induction fuel generalizing txs n with
  | zero =>
    have : txs = [] := by cases txs with | nil => rfl | cons _ _ => simp at hf
    subst this; simp [GapFree]
  | succ f ih =>
    cases txs with
    | nil => simp [GapFree]
    | cons x xs =>
      unfold Sorted at hs
      rw [List.pairwise_cons] at hs
      simp only [Pool.countRun]
      by_cases hx : x.nonce = n
      · have hget : (({ strict := st, txs := x :: xs, costcap := cc, gascap := gc } : TxList).get? n).isSome = true := by
          simp [TxList.get?, List.find?_cons, hx]
        rw [if_pos hget]
        -- the remaining count only looks at the tail
        have htail : ∀ (g : Nat) (m : Nat), n < m →
            Pool.countRun g { strict := st, txs := x :: xs, costcap := cc, gascap := gc } m =
            Pool.countRun g { strict := st, txs := xs, costcap := cc, gascap := gc } m := by
          intro g
          induction g with
          | zero => intro m _; rfl
          | succ g ihg =>
            intro m hm
            simp only [Pool.countRun]
            have : ({ strict := st, txs := x :: xs, costcap := cc, gascap := gc } : TxList).get? m =
                ({ strict := st, txs := xs, costcap := cc, gascap := gc } : TxList).get? m :=
              get?_cons_ne rfl (by omega)
            rw [this, ihg (m + 1) (by omega)]
        rw [htail f (n + 1) (by omega)]
        have := ih xs (n + 1) hs.2 (fun y hy => by have := hs.1 y hy; omega) (by simp at hf; omega)
        rw [Nat.add_comm 1, List.take_succ_cons]
        unfold GapFree at this ⊢
        simp only [List.map_cons, List.length_cons, List.range'_succ, hx, this]
      · have hget : (({ strict := st, txs := x :: xs, costcap := cc, gascap := gc } : TxList).get? n).isSome = false := by
          have hxn : n < x.nonce := by have := hge x (by simp); omega
          have hnone : ({ strict := st, txs := x :: xs, costcap := cc, gascap := gc } : TxList).get? n = none := by
            unfold TxList.get?
            rw [List.find?_eq_none]
            intro y hy
            rcases List.mem_cons.mp hy with hy | hy
            · subst hy; simp; omega
            · have := hs.1 y hy; simp; omega
          rw [hnone]; rfl
        rw [hget]
        simp [GapFree]

/-! ## the invariant -/

namespace Pool

/-- account `a`: its pending list is strict, gap-free from the state nonce, and the virtual nonce
is the state nonce plus the number of pending transactions -/
def GNat (p : Pool) (a : Nat) : Prop :=
  (∀ l, amGet p.pending a = some l →
    l.strict = true ∧ GapFree (p.stateNonce a) l.txs ∧ p.pnGet a = p.stateNonce a + l.txs.length) ∧
  (amGet p.pending a = none → p.pnGet a = p.stateNonce a)

def GN (p : Pool) : Prop := ∀ a, GNat p a

theorem GNat.local {p p' : Pool} {a : Nat} (h : GNat p a) (hp : amGet p'.pending a = amGet p.pending a)
    (hn : p'.pnGet a = p.pnGet a) (hs : p'.stateNonce a = p.stateNonce a) : GNat p' a := by
  unfold GNat at *
  rw [hp, hn, hs]; exact h

theorem pnGet_congr {p p' : Pool} (hc : p'.chain = p.chain) (hn : p'.pnonce = p.pnonce) (a : Nat) :
    p'.pnGet a = p.pnGet a := by
  unfold pnGet stateNonce; rw [hc, hn]
theorem stateNonce_congr {p p' : Pool} (hc : p'.chain = p.chain) (a : Nat) :
    p'.stateNonce a = p.stateNonce a := by
  unfold stateNonce; rw [hc]

theorem GN.frame {p p' : Pool} (h : GN p) (hc : p'.chain = p.chain) (hp : p'.pending = p.pending)
    (hn : p'.pnonce = p.pnonce) : GN p' :=
  fun a => (h a).local (by rw [hp]) (pnGet_congr hc hn a) (stateNonce_congr hc a)

theorem pnSetIfLower_chain (p : Pool) (a n : Nat) : (p.pnSetIfLower a n).chain = p.chain := by
  unfold pnSetIfLower; split <;> rfl

theorem pnGet_setIfLower (p : Pool) (a n b : Nat) :
    (p.pnSetIfLower a n).pnGet b = if b = a then min (p.pnGet a) n else p.pnGet b := by
  unfold pnSetIfLower
  split
  · rename_i hle
    split
    · rename_i hb; subst hb; rw [Nat.min_eq_left hle]
    · rfl
  · rename_i hgt
    split
    · rename_i hb; subst hb
      simp only [pnGet, amGet_amSet_self, Option.getD_some]
      have : n ≤ (amGet p.pnonce b).getD (p.stateNonce b) := by
        have : ¬ p.pnGet b ≤ n := hgt
        unfold pnGet at this; omega
      exact (Nat.min_eq_right this).symm
    · rename_i hb
      simp only [pnGet, amGet_amSet_other _ _ hb]
      rfl

theorem enqueueTx_pnonce (p : Pool) (t : Tx) (loc addAll : Bool) :
    (p.enqueueTx t loc addAll).1.pnonce = p.pnonce := by
  unfold enqueueTx; simp only; repeat' split
  all_goals rfl
theorem enqueueTx_chain (p : Pool) (t : Tx) (loc addAll : Bool) :
    (p.enqueueTx t loc addAll).1.chain = p.chain := by
  unfold enqueueTx; simp only; repeat' split
  all_goals rfl

theorem enqueueL_frame (ts : List Tx) (p : Pool) :
    (ts.foldl (fun q t => (q.enqueueTx t false false).1) p).pending = p.pending ∧
    (ts.foldl (fun q t => (q.enqueueTx t false false).1) p).pnonce = p.pnonce ∧
    (ts.foldl (fun q t => (q.enqueueTx t false false).1) p).chain = p.chain :=
  foldl_inv (fun s : Pool => s.pending = p.pending ∧ s.pnonce = p.pnonce ∧ s.chain = p.chain) _ ts p
    ⟨rfl, rfl, rfl⟩
    (fun s x _ hs => ⟨by rw [enqueueTx_pending]; exact hs.1, by rw [enqueueTx_pnonce]; exact hs.2.1,
      by rw [enqueueTx_chain]; exact hs.2.2⟩)

theorem GN_enqueueTx {p : Pool} (h : GN p) (t : Tx) (loc addAll : Bool) : GN (p.enqueueTx t loc addAll).1 :=
  h.frame (enqueueTx_chain _ _ _ _) (enqueueTx_pending _ _ _ _) (enqueueTx_pnonce _ _ _ _)

/-- removing nonce `n` from a strict gap-free list: what is left is the part below `n` -/
theorem remove_gn {l : TxList} {s n : Nat} (hst : l.strict = true) (hg : GapFree s l.txs)
    (hf : (l.remove n).2.1 = true) :
    GapFree s (l.remove n).1.txs ∧ (l.remove n).1.txs.length = n - s ∧ s ≤ n ∧ n < s + l.txs.length ∧
    (l.remove n).1.strict = true := by
  cases hget : l.get? n with
  | none => simp [TxList.remove, hget] at hf
  | some o =>
    obtain ⟨ho, hon⟩ := get?_some_mem hget
    obtain ⟨r1, r2⟩ := gf_mem_range hg ho
    have hb := gf_below (s := s) (n := n) (l := l.txs)
      (l' := (l.txs.filter (fun t => !(t.nonce == n))).filter (fun t => !(decide (t.nonce > n)))) hg
      (List.Sublist.trans List.filter_sublist List.filter_sublist)
      (by intro x hx; simp at hx; omega)
      (by intro x hx hlt; exact List.mem_filter.mpr ⟨List.mem_filter.mpr ⟨hx, by simp; omega⟩, by simp; omega⟩)
      (by omega) (by omega)
    have htxs : (l.remove n).1.txs =
        (l.txs.filter (fun t => !(t.nonce == n))).filter (fun t => !(decide (t.nonce > n))) := by
      simp [TxList.remove, hget, hst]
    rw [htxs]
    exact ⟨hb.1, hb.2, by omega, by omega, by rw [remove_strict]; exact hst⟩

/-- the "found in pending" branch of `removeTx`, for any pool `P1` that is `p0` with the pending
entry of `a` replaced by what `Remove` left -/
theorem removeFound_GN {p0 : Pool} (h : GN p0) (a n : Nat) (pl : TxList)
    (hpl : amGet p0.pending a = some pl) (hfound : (pl.remove n).2.1 = true) (ts : List Tx) (P1 : Pool)
    (hc : P1.chain = p0.chain) (hn : P1.pnonce = p0.pnonce)
    (hother : ∀ b, b ≠ a → amGet P1.pending b = amGet p0.pending b)
    (hself : ∀ l, amGet P1.pending a = some l → l = (pl.remove n).1)
    (hnone : amGet P1.pending a = none → (pl.remove n).1.txs.length = 0) :
    GN ((ts.foldl (fun (q : Pool) inv => (q.enqueueTx inv false false).1) P1).pnSetIfLower a n) := by
  obtain ⟨hst, hgf, hpn⟩ := (h a).1 pl hpl
  obtain ⟨g1, g2, g3, g4, g5⟩ := remove_gn hst hgf hfound
  obtain ⟨f1, f2, f3⟩ := enqueueL_frame ts P1
  have hchain : ((ts.foldl (fun (q : Pool) inv => (q.enqueueTx inv false false).1) P1).pnSetIfLower a n).chain = p0.chain := by
    rw [pnSetIfLower_chain, f3, hc]
  have hpnget : ∀ b, (ts.foldl (fun (q : Pool) inv => (q.enqueueTx inv false false).1) P1).pnGet b = p0.pnGet b :=
    fun b => pnGet_congr (by rw [f3, hc]) (by rw [f2, hn]) b
  intro b
  by_cases hb : b = a
  · subst hb
    refine ⟨?_, ?_⟩
    · intro l hl
      rw [pnSetIfLower_pending, f1] at hl
      have := hself l hl
      subst this
      refine ⟨g5, ?_, ?_⟩
      · rw [stateNonce_congr hchain]; exact g1
      · rw [pnGet_setIfLower, if_pos rfl, hpnget, stateNonce_congr hchain, hpn, g2]
        omega
    · intro hnn
      rw [pnSetIfLower_pending, f1] at hnn
      have := hnone hnn
      rw [pnGet_setIfLower, if_pos rfl, hpnget, stateNonce_congr hchain, hpn]
      omega
  · exact (h b).local (by rw [pnSetIfLower_pending, f1, hother b hb])
      (by rw [pnGet_setIfLower, if_neg hb, hpnget]) (stateNonce_congr hchain b)

theorem removeTx_GN {p : Pool} (h : GN p) (t : Tx) : GN (p.removeTx t) := by
  unfold removeTx
  split
  · exact h
  · have hvia : GN (match amGet (p.allRemove t).queue t.sender with
        | none => p.allRemove t
        | some ql =>
          if (ql.remove t.nonce).1.isEmpty then { p.allRemove t with queue := amErase (p.allRemove t).queue t.sender }
          else { p.allRemove t with queue := amSet (p.allRemove t).queue t.sender (ql.remove t.nonce).1 }) := by
      split
      · exact h.frame rfl rfl rfl
      · split
        · exact h.frame rfl rfl rfl
        · exact h.frame rfl rfl rfl
    simp only
    split
    · exact hvia
    · rename_i pl hpl
      split
      · rename_i hfound
        have h0 : GN (p.allRemove t) := h.frame rfl rfl rfl
        refine removeFound_GN h0 t.sender t.nonce pl hpl hfound _ _ ?_ ?_ ?_ ?_ ?_
        · split <;> rfl
        · split <;> rfl
        · intro b hb; exact finishPending_other _ _ _ hb
        · intro l hl; exact finishPending_self _ _ _ _ hl
        · intro hnn
          by_cases he : (pl.remove t.nonce).1.isEmpty = true
          · simpa [TxList.isEmpty] using he
          · rw [if_neg he] at hnn
            simp only [amGet_amSet_self] at hnn
            cases hnn
      · exact hvia

theorem removeL_GN {p : Pool} (h : GN p) (ts : List Tx) : GN (ts.foldl removeTx p) :=
  foldl_inv GN removeTx ts p h (fun _ x _ hs => removeTx_GN hs x)

theorem gf_of_nonces {s : Nat} {l l' : List Tx} (h : GapFree s l) (hn : l'.map (·.nonce) = l.map (·.nonce)) :
    GapFree s l' ∧ l'.length = l.length := by
  have hlen : l'.length = l.length := by
    have := congrArg List.length hn
    simpa using this
  exact ⟨by unfold GapFree at *; rw [hn, hlen]; exact h, hlen⟩

theorem replace_gn {l : TxList} {s : Nat} {t o : Tx} (b : Nat) (hg : GapFree s l.txs) (hs : Sorted l.txs)
    (ho : l.get? t.nonce = some o) :
    GapFree s (l.add t b).1.txs ∧ (l.add t b).1.txs.length = l.txs.length := by
  unfold TxList.add
  simp only [ho]
  split
  · obtain ⟨h1, h2⟩ := get?_some_mem ho
    exact gf_of_nonces hg (put_nonces hs ⟨o, h1, h2⟩)
  · exact ⟨hg, rfl⟩

variable {c : Chain} {Φ : Phi c}

theorem replacePending_GN {p : Pool} (hgood : Good Φ p) (h : GN p) {a : Nat} {pl : TxList} {t o : Tx}
    (hg : amGet p.pending a = some pl) (ho : pl.get? t.nonce = some o) :
    GN ({ p with pending := amSet p.pending a (pl.add t p.cfg.priceBump).1 } : Pool) := by
  obtain ⟨hst, hgf, hpn⟩ := (h a).1 pl hg
  obtain ⟨r1, r2⟩ := replace_gn p.cfg.priceBump hgf (hgood.pend a pl hg).1.1 ho
  intro b
  by_cases hb : b = a
  · subst hb
    refine ⟨?_, ?_⟩
    · intro l hl
      simp only [amGet_amSet_self] at hl
      cases hl
      exact ⟨by rw [add_strict]; exact hst, r1, by rw [r2]; exact hpn⟩
    · intro hn; simp only [amGet_amSet_self] at hn; cases hn
  · exact (h b).local (amGet_amSet_other _ _ hb) rfl rfl

theorem addTail_GN {p : Pool} (hgood : Good Φ p) (h : GN p) (t : Tx) (isLocal loc : Bool) :
    GN (p.addTail t isLocal loc).1 := by
  have h2 := GN_enqueueTx h t isLocal true
  cases hg : amGet p.pending t.sender with
  | none =>
    simp only [addTail, hg, Bool.false_eq_true, if_false]
    repeat' split
    all_goals first
      | exact h2
      | exact h2.frame rfl rfl rfl
  | some pl =>
    cases hgt : pl.get? t.nonce with
    | none =>
      simp only [addTail, hg, hgt, Option.isSome_none, Bool.false_eq_true, if_false]
      repeat' split
      all_goals first
        | exact h2
        | exact h2.frame rfl rfl rfl
    | some o =>
      have h1 := replacePending_GN hgood h hg hgt
      simp only [addTail, hg, hgt, Option.getD_some, Option.isSome_some, if_true]
      repeat' split
      all_goals first
        | exact h
        | exact h1.frame rfl rfl rfl

theorem addRoom_GN {p : Pool} (hgood : Good Φ p) (hpq : Φ.PQ) (h : GN p) (t : Tx) (isLocal loc : Bool) :
    ∀ r ∈ p.addRoom t isLocal loc, GN r.1 := by
  intro r hr
  unfold addRoom at hr
  simp only at hr
  split at hr
  · split at hr
    · simp at hr; subst hr; exact h
    · split at hr
      · simp at hr; subst hr; exact h
      · simp only [List.mem_map] at hr
        obtain ⟨d, _, hd⟩ := hr
        cases d with
        | none => simp at hd; subst hd; exact h
        | some drop =>
          simp only at hd
          subst hd
          have h0 : Good Φ ({ p with changes := p.changes + drop.length } : Pool) := hgood.frame rfl rfl rfl
          have g0 : GN ({ p with changes := p.changes + drop.length } : Pool) := h.frame rfl rfl rfl
          exact addTail_GN (good_removeL h0 hpq drop) (removeL_GN g0 drop) t _ loc
  · simp at hr; subst hr; exact addTail_GN hgood h t _ loc

theorem add_GN {p : Pool} (hgood : Good Φ p) (hpq : Φ.PQ) (h : GN p) (t : Tx) (loc : Bool) :
    ∀ r ∈ p.add t loc, GN r.1 := by
  intro r hr
  unfold add at hr
  split at hr
  · simp at hr; subst hr; exact h
  · simp only at hr
    split at hr
    · simp at hr; subst hr; exact h
    · split at hr
      · simp at hr; subst hr; exact h
      · exact addRoom_GN hgood hpq h t _ loc r hr

/-! ## promotion -/

theorem ready_nonces_from (l : TxList) (start : Nat) (h : ∀ t ∈ l.txs, start ≤ t.nonce) :
    (l.ready start).2.map (·.nonce) = List.range' start (l.ready start).2.length := by
  unfold TxList.ready
  split
  · simp
  · rename_i t ts heq
    by_cases hgt : t.nonce > start
    · simp [hgt]
    · simp only [hgt, if_false]
      have : t.nonce = start := by have := h t (by rw [heq]; simp); omega
      rw [← this]
      exact run_nonces _ _

theorem promote_list {L : TxList} {s : Nat} {t : Tx} (b : Nat) (hg : GapFree s L.txs)
    (ht : t.nonce = s + L.txs.length) :
    (L.add t b).2.1 = true ∧ (L.add t b).2.2 = none ∧ (L.add t b).1.txs = L.txs ++ [t] := by
  have hlt : ∀ x ∈ L.txs, x.nonce < t.nonce := by
    intro x hx; have := (gf_mem_range hg hx).2; omega
  have hnone : L.get? t.nonce = none := by
    unfold TxList.get?
    rw [List.find?_eq_none]
    intro x hx
    have := hlt x hx
    simp; omega
  unfold TxList.add
  simp only [hnone]
  exact ⟨trivial, trivial, put_append hlt⟩

theorem promoteTx_eq (p : Pool) (a : Nat) (t : Tx)
    (hins : (((amGet p.pending a).getD (TxList.new true)).add t p.cfg.priceBump).2.1 = true)
    (hnone : (((amGet p.pending a).getD (TxList.new true)).add t p.cfg.priceBump).2.2 = none) :
    p.promoteTx a t =
      { p with pending := amSet p.pending a (((amGet p.pending a).getD (TxList.new true)).add t p.cfg.priceBump).1,
               pnonce := amSet p.pnonce a (t.nonce + 1) } := by
  unfold promoteTx
  simp [hins, hnone]

theorem promoteTx_GN {p : Pool} (h : GN p) (a : Nat) (t : Tx) (ht : t.nonce = p.pnGet a) :
    GN (p.promoteTx a t) ∧ (p.promoteTx a t).pnGet a = t.nonce + 1 := by
  have hL : ((amGet p.pending a).getD (TxList.new true)).strict = true ∧
      GapFree (p.stateNonce a) ((amGet p.pending a).getD (TxList.new true)).txs ∧
      p.pnGet a = p.stateNonce a + ((amGet p.pending a).getD (TxList.new true)).txs.length := by
    cases hg : amGet p.pending a with
    | none =>
      have := (h a).2 hg
      simp [TxList.new, GapFree, this]
    | some l => simpa using (h a).1 l hg
  obtain ⟨hst, hgf, hpn⟩ := hL
  obtain ⟨a1, a2, a3⟩ := promote_list p.cfg.priceBump hgf (by rw [ht, hpn])
  rw [promoteTx_eq p a t a1 a2]
  refine ⟨?_, by simp [pnGet, amGet_amSet_self]⟩
  intro b
  by_cases hb : b = a
  · subst hb
    refine ⟨?_, ?_⟩
    · intro l hl
      simp only [amGet_amSet_self] at hl
      cases hl
      refine ⟨by rw [add_strict]; exact hst, ?_, ?_⟩
      · rw [a3]; exact gf_append_one hgf t (by rw [ht, hpn])
      · rw [a3]
        simp only [pnGet, amGet_amSet_self, Option.getD_some, List.length_append, List.length_singleton]
        rw [ht, hpn]
        show _ = p.stateNonce b + _
        omega
    · intro hn; simp only [amGet_amSet_self] at hn; cases hn
  · refine (h b).local (amGet_amSet_other _ _ hb) ?_ rfl
    simp only [pnGet, amGet_amSet_other _ _ hb]; rfl

theorem promoteL_GN (a : Nat) (ts : List Tx) {p : Pool} (h : GN p)
    (hn : ts.map (·.nonce) = List.range' (p.pnGet a) ts.length) :
    GN (ts.foldl (fun q t => q.promoteTx a t) p) := by
  induction ts generalizing p with
  | nil => exact h
  | cons t rest ih =>
    simp only [List.map_cons, List.length_cons, List.range'_succ, List.cons.injEq] at hn
    obtain ⟨g1, g2⟩ := promoteTx_GN h a t hn.1
    simp only [List.foldl_cons]
    exact ih g1 (by rw [g2, hn.1]; exact hn.2)

theorem finishQueue_chain (p4 : Pool) (a : Nat) (l : TxList) :
    (if l.isEmpty then { p4 with queue := amErase p4.queue a }
     else { p4 with queue := amSet p4.queue a l }).chain = p4.chain := by
  split <;> rfl
theorem finishQueue_pnonce (p4 : Pool) (a : Nat) (l : TxList) :
    (if l.isEmpty then { p4 with queue := amErase p4.queue a }
     else { p4 with queue := amSet p4.queue a l }).pnonce = p4.pnonce := by
  split <;> rfl

theorem allRemoveL_chain (p : Pool) (ts : List Tx) : (p.allRemoveL ts).chain = p.chain :=
  foldl_inv (fun s : Pool => s.chain = p.chain) allRemove ts p rfl (fun _ _ _ hs => hs)
theorem allRemoveL_pnonce (p : Pool) (ts : List Tx) : (p.allRemoveL ts).pnonce = p.pnonce :=
  foldl_inv (fun s : Pool => s.pnonce = p.pnonce) allRemove ts p rfl (fun _ _ _ hs => hs)

theorem GN_allRemoveL {p : Pool} (h : GN p) (ts : List Tx) : GN (p.allRemoveL ts) :=
  h.frame (allRemoveL_chain _ _) (allRemoveL_pending _ _) (allRemoveL_pnonce _ _)

theorem promoteAccount_GN {p : Pool} (hgood : Good Φ p) (hnd : NDisj p) (h : GN p) (a : Nat) :
    GN (p.promoteAccount a) := by
  unfold promoteAccount
  split
  · exact h
  · rename_i list hlist
    simp only
    -- queued nonces that survive Forward are not below the virtual nonce
    have hge : ∀ x ∈ ((list.forward (p.stateNonce a)).1.filter (p.balance a) p.chain.gasLimit).1.txs,
        p.pnGet a ≤ x.nonce := by
      intro x hx
      have hxf := filter_sub _ _ _ x hx
      have h1 := forward_ge _ _ x hxf
      have hxq : InQ p a x.nonce := ⟨list, hlist, x, forward_sub _ _ x hxf, rfl⟩
      cases hg : amGet p.pending a with
      | none => rw [(h a).2 hg]; exact h1
      | some l =>
        obtain ⟨_, hgf, hpn⟩ := (h a).1 l hg
        rw [hpn]
        apply Nat.le_of_not_lt
        intro hlt
        obtain ⟨y, hy, hyn⟩ := gf_present hgf h1 hlt
        exact hnd a x.nonce ⟨l, hg, y, hy, hyn⟩ hxq
    have hpn2 : ((p.allRemoveL (list.forward (p.stateNonce a)).2).allRemoveL
        ((list.forward (p.stateNonce a)).1.filter (p.balance a) p.chain.gasLimit).2.1).pnGet a = p.pnGet a :=
      pnGet_congr (by rw [allRemoveL_chain, allRemoveL_chain]) (by rw [allRemoveL_pnonce, allRemoveL_pnonce]) a
    have h2 : GN ((p.allRemoveL (list.forward (p.stateNonce a)).2).allRemoveL
        ((list.forward (p.stateNonce a)).1.filter (p.balance a) p.chain.gasLimit).2.1) :=
      GN_allRemoveL (GN_allRemoveL h _) _
    refine (GN_allRemoveL (promoteL_GN a _ h2 ?_) _).frame (finishQueue_chain _ _ _)
      (finishQueue_pending _ _ _) (finishQueue_pnonce _ _ _)
    rw [hpn2]
    exact ready_nonces_from _ _ hge

theorem promoteExecutables_GN (accts : List Nat) {p : Pool} (hgood : Good Φ p) (hnd : NDisj p) (h : GN p) :
    GN (p.promoteExecutables accts) := by
  induction accts generalizing p with
  | nil => exact h
  | cons a rest ih =>
    simp only [promoteExecutables, List.foldl_cons]
    exact ih (promoteAccount_spec hgood a).1 ((promoteAccount_pro hgood a).ndisj hnd)
      (promoteAccount_GN hgood hnd h a)

/-! ## truncation -/

theorem GN_lower {p : Pool} (h : GN p) (a : Nat) (l' : TxList) (n : Nat) (hst : l'.strict = true)
    (hgf : GapFree (p.stateNonce a) l'.txs)
    (hn : min (p.pnGet a) n = p.stateNonce a + l'.txs.length) (P : Pool) (hc : P.chain = p.chain)
    (hpn : P.pnonce = p.pnonce) (hpend : P.pending = amSet p.pending a l') :
    GN (P.pnSetIfLower a n) := by
  have hchain : (P.pnSetIfLower a n).chain = p.chain := by rw [pnSetIfLower_chain, hc]
  intro b
  by_cases hb : b = a
  · subst hb
    refine ⟨?_, ?_⟩
    · intro l hl
      rw [pnSetIfLower_pending, hpend, amGet_amSet_self] at hl
      cases hl
      refine ⟨hst, by rw [stateNonce_congr hchain]; exact hgf, ?_⟩
      rw [pnGet_setIfLower, if_pos rfl, pnGet_congr hc hpn, stateNonce_congr hchain]; exact hn
    · intro hnn
      rw [pnSetIfLower_pending, hpend, amGet_amSet_self] at hnn; cases hnn
  · exact (h b).local (by rw [pnSetIfLower_pending, hpend, amGet_amSet_other _ _ hb])
      (by rw [pnGet_setIfLower, if_neg hb, pnGet_congr hc hpn]) (stateNonce_congr hchain b)

theorem GN_dropLastPending {p : Pool} (h : GN p) (a : Nat) : GN (p.dropLastPending a) := by
  unfold dropLastPending
  split
  · exact h
  · rename_i list hlist
    obtain ⟨hst, hgf, hpn⟩ := (h a).1 list hlist
    by_cases hlen : list.txs.length = 0
    · have hcap : list.cap (list.len - 1) = (list, []) := by
        simp [TxList.cap, TxList.len, hlen]
      simp only [hcap, List.foldl_nil]
      intro b
      by_cases hb : b = a
      · subst hb
        refine ⟨?_, ?_⟩
        · intro l hl; simp only [amGet_amSet_self] at hl; cases hl; exact ⟨hst, hgf, hpn⟩
        · intro hn; simp only [amGet_amSet_self] at hn; cases hn
      · exact (h b).local (amGet_amSet_other _ _ hb) rfl rfl
    · have hd1 : (list.txs.drop (list.txs.length - 1)).length = 1 := by
        rw [List.length_drop]; omega
      obtain ⟨x, hx⟩ : ∃ x, list.txs.drop (list.txs.length - 1) = [x] := by
        cases hdr : list.txs.drop (list.txs.length - 1) with
        | nil => rw [hdr] at hd1; simp at hd1
        | cons y ys =>
          cases ys with
          | nil => exact ⟨y, rfl⟩
          | cons z zs => rw [hdr] at hd1; simp at hd1
      have hcap : list.cap (list.len - 1) =
          ({ list with txs := list.txs.take (list.txs.length - 1) }, [x]) := by
        have : ¬ list.txs.length ≤ list.txs.length - 1 := by omega
        simp [TxList.cap, TxList.len, this, hx]
      simp only [hcap, List.foldl_cons, List.foldl_nil]
      have hxn : x.nonce = p.stateNonce a + (list.txs.length - 1) := by
        have hxm : x ∈ list.txs.drop (list.txs.length - 1) := by rw [hx]; simp
        have h1 := gf_drop_nonce hgf _ hxm
        have h2 := (gf_mem_range hgf (List.mem_of_mem_drop hxm)).2
        omega
      refine GN_lower h a ({ list with txs := list.txs.take (list.txs.length - 1) } : TxList) x.nonce hst
        (gf_take hgf _) ?_ _ rfl rfl rfl
      simp only [List.length_take]
      rw [hpn, hxn]
      omega

theorem GN_dropRound {p : Pool} (h : GN p) (cnt : Nat) (accts : List Nat) :
    GN (accts.foldl (fun (q : Pool × Nat) a => (q.1.dropLastPending a, q.2 - 1)) (p, cnt)).1 :=
  foldl_inv (fun q : Pool × Nat => GN q.1) _ accts (p, cnt) h
    (fun s x _ hs => GN_dropLastPending hs x)

theorem GN_equalise (fuel : Nat) {p : Pool} (h : GN p) (cnt : Nat) (prev : List Nat) (th : Nat) :
    GN (equalise fuel p cnt prev th).1 := by
  induction fuel generalizing p cnt with
  | zero => exact h
  | succ f ih =>
    unfold equalise
    split
    · exact ih (GN_dropRound h cnt prev) _
    · exact h

theorem GN_spamLoop (order : List Nat) {p : Pool} (h : GN p) (cnt : Nat) (off : List Nat) :
    GN (spamLoop order p cnt off).1 := by
  induction order generalizing p cnt off with
  | nil => exact h
  | cons next rest ih =>
    unfold spamLoop
    split
    · simp only
      split
      · exact ih (GN_equalise _ h _ _ _) _ _
      · exact ih h _ _
    · exact h

theorem GN_finalLoop (fuel : Nat) {p : Pool} (h : GN p) (cnt : Nat) (off : List Nat) :
    GN (finalLoop fuel p cnt off) := by
  induction fuel generalizing p cnt with
  | zero => exact h
  | succ f ih =>
    unfold finalLoop
    split
    · exact ih (GN_dropRound h cnt off) _
    · exact h

theorem GN_truncatePending {p : Pool} (h : GN p) : GN p.truncatePending := by
  unfold truncatePending
  simp only
  split
  · exact h
  · split
    · exact GN_finalLoop _ (GN_spamLoop _ h _ _) _ _
    · exact GN_spamLoop _ h _ _

theorem GN_truncQueueLoop (order : List Nat) {p : Pool} (h : GN p) (drop : Nat) :
    GN (truncQueueLoop order p drop) := by
  induction order generalizing p drop with
  | nil => exact h
  | cons a rest ih =>
    unfold truncQueueLoop
    split
    · exact h
    · split
      · exact ih h _
      · split
        · exact ih (removeL_GN h _) _
        · exact removeL_GN h _

theorem GN_truncateQueue {p : Pool} (h : GN p) : ∀ q ∈ p.truncateQueue, GN q := by
  intro q hq
  unfold truncateQueue at hq
  simp only at hq
  split at hq
  · simp at hq; subst hq; exact h
  · simp only [List.mem_map] at hq
    obtain ⟨order, _, ho⟩ := hq
    subst ho
    exact GN_truncQueueLoop order h _

theorem reorgTail_GN {p3 : Pool} (h : GN p3) :
    ∀ q ∈ p3.truncatePending.truncateQueue.map (fun (q : Pool) => { q with changes := 0 }), GN q := by
  intro q hq
  simp only [List.mem_map] at hq
  obtain ⟨q0, hq0, he⟩ := hq
  subst he
  exact (GN_truncateQueue (GN_truncatePending h) q0 hq0).frame rfl rfl rfl

theorem runReorg_none_GN {p : Pool} (hgood : Good Φ p) (hnd : NDisj p) (h : GN p) (dirty : List Nat) :
    ∀ q ∈ p.runReorg none dirty, GN q := by
  rw [runReorg_none_eq]
  exact reorgTail_GN (p3 := ({ p.promoteExecutables dirty with pnonce := (p.promoteExecutables dirty).pnonce } : Pool))
    ((promoteExecutables_GN dirty hgood hnd h).frame rfl rfl rfl)

theorem addBatch_GN (txs : List Tx) {p : Pool} (hgood : Good Φ p) (hpq : Φ.PQ) (h : GN p) (loc : Bool) :
    ∀ r ∈ p.addBatch loc txs, GN r.1 := by
  induction txs generalizing p with
  | nil => intro r hr; simp [addBatch] at hr; subst hr; exact h
  | cons t ts ih =>
    intro r hr
    simp only [addBatch, List.mem_flatMap, List.mem_map] at hr
    obtain ⟨r1, hr1, s, hs, he⟩ := hr
    subst he
    exact ih (good_add hgood hpq t loc r1 hr1) (add_GN hgood hpq h t loc r1 hr1) s hs

theorem addTxs_GN {p : Pool} (hgood : Good Φ p) (hpq : Φ.PQ) (hnd : NDisj p) (h : GN p) (txs : List Tx)
    (loc : Bool) : ∀ r ∈ p.addTxs txs loc, GN r.1 := by
  intro r hr
  unfold addTxs at hr
  simp only at hr
  split at hr
  · simp at hr; subst hr; exact h
  · simp only [List.mem_flatMap, List.mem_map] at hr
    obtain ⟨r1, hr1, q, hq, he⟩ := hr
    subst he
    exact runReorg_none_GN (good_addBatch _ hgood hpq loc r1 hr1)
      (addBatch_ndisj _ hgood hpq hnd loc r1 hr1) (addBatch_GN _ hgood hpq h loc r1 hr1) _ q hq

theorem setGasPrice_GN {p : Pool} (h : GN p) (price : Nat) : GN (p.setGasPrice price) := by
  unfold setGasPrice
  simp only
  split
  · exact removeL_GN (h.frame (p' := { p with gasPrice := price }) rfl rfl rfl) _
  · exact h.frame rfl rfl rfl

theorem expire_GN {p : Pool} (h : GN p) (a : Nat) : GN (p.expire a) := by
  unfold expire
  split
  · exact h
  · split
    · exact h
    · exact removeL_GN h _

/-! ## the head reset (with re-injection) establishes the invariant from scratch -/

/-- every pending list is strict -/
def PStrict (p : Pool) : Prop := ∀ a l, amGet p.pending a = some l → l.strict = true

theorem GN.pstrict {p : Pool} (h : GN p) : PStrict p := fun a l hl => ((h a).1 l hl).1

theorem PStrict.frame {p p' : Pool} (h : PStrict p) (hp : p'.pending = p.pending) : PStrict p' := by
  unfold PStrict at *; rw [hp]; exact h

theorem PStrict.set {p : Pool} (h : PStrict p) (a : Nat) (l : TxList) (hl : l.strict = true) :
    PStrict ({ p with pending := amSet p.pending a l } : Pool) := by
  intro b l' hb
  by_cases hba : b = a
  · subst hba; simp only [amGet_amSet_self] at hb; cases hb; exact hl
  · simp only [amGet_amSet_other _ _ hba] at hb; exact h b l' hb

theorem PStrict.erase {p : Pool} (h : PStrict p) (a : Nat) :
    PStrict ({ p with pending := amErase p.pending a } : Pool) := by
  intro b l' hb
  by_cases hba : b = a
  · subst hba; simp only [amGet_amErase_self] at hb; cases hb
  · simp only [amGet_amErase_other _ hba] at hb; exact h b l' hb

theorem PStrict.finish {p4 : Pool} (h : PStrict p4) (a : Nat) (l : TxList) (hl : l.strict = true) :
    PStrict (if l.isEmpty then { p4 with pending := amErase p4.pending a }
             else { p4 with pending := amSet p4.pending a l }) := by
  split
  · exact h.erase a
  · exact h.set a l hl

theorem PStrict_enqueueL {p : Pool} (h : PStrict p) (ts : List Tx) :
    PStrict (ts.foldl (fun q t => (q.enqueueTx t false false).1) p) :=
  h.frame (enqueueL_frame ts p).1

theorem PStrict_removeTx {p : Pool} (h : PStrict p) (t : Tx) : PStrict (p.removeTx t) := by
  unfold removeTx
  split
  · exact h
  · have hvia : PStrict (match amGet (p.allRemove t).queue t.sender with
        | none => p.allRemove t
        | some ql =>
          if (ql.remove t.nonce).1.isEmpty then { p.allRemove t with queue := amErase (p.allRemove t).queue t.sender }
          else { p.allRemove t with queue := amSet (p.allRemove t).queue t.sender (ql.remove t.nonce).1 }) := by
      split
      · exact h.frame rfl
      · split
        · exact h.frame rfl
        · exact h.frame rfl
    simp only
    split
    · exact hvia
    · rename_i pl hpl
      split
      · have h0 : PStrict (p.allRemove t) := h.frame rfl
        refine PStrict.frame ?_ (pnSetIfLower_pending _ _ _)
        apply PStrict_enqueueL
        exact h0.finish _ _ (by rw [remove_strict]; exact h _ _ hpl)
      · exact hvia

theorem PStrict_removeL {p : Pool} (h : PStrict p) (ts : List Tx) : PStrict (ts.foldl removeTx p) :=
  foldl_inv PStrict removeTx ts p h (fun _ x _ hs => PStrict_removeTx hs x)

theorem PStrict_addTail {p : Pool} (h : PStrict p) (t : Tx) (isLocal loc : Bool) :
    PStrict (p.addTail t isLocal loc).1 := by
  have h2 : PStrict (p.enqueueTx t isLocal true).1 := h.frame (enqueueTx_pending _ _ _ _)
  have h1 : PStrict ({ p with pending := amSet p.pending t.sender (((amGet p.pending t.sender).getD (TxList.new true)).add t p.cfg.priceBump).1 } : Pool) := by
    refine h.set _ _ ?_
    rw [add_strict]
    cases hg : amGet p.pending t.sender with
    | none => rfl
    | some l => exact h _ _ hg
  unfold addTail
  simp only
  repeat' split
  all_goals first
    | exact h
    | exact h2
    | exact h2.frame rfl
    | exact h1.frame rfl

theorem PStrict_addRoom {p : Pool} (h : PStrict p) (t : Tx) (isLocal loc : Bool) :
    ∀ r ∈ p.addRoom t isLocal loc, PStrict r.1 := by
  intro r hr
  unfold addRoom at hr
  simp only at hr
  split at hr
  · split at hr
    · simp at hr; subst hr; exact h
    · split at hr
      · simp at hr; subst hr; exact h
      · simp only [List.mem_map] at hr
        obtain ⟨d, _, hd⟩ := hr
        cases d with
        | none => simp at hd; subst hd; exact h
        | some drop =>
          simp only at hd
          subst hd
          exact PStrict_addTail (PStrict_removeL (h.frame (p' := { p with changes := p.changes + drop.length }) rfl) drop) t _ loc
  · simp at hr; subst hr; exact PStrict_addTail h t _ loc

theorem PStrict_add {p : Pool} (h : PStrict p) (t : Tx) (loc : Bool) : ∀ r ∈ p.add t loc, PStrict r.1 := by
  intro r hr
  unfold add at hr
  split at hr
  · simp at hr; subst hr; exact h
  · simp only at hr
    split at hr
    · simp at hr; subst hr; exact h
    · split at hr
      · simp at hr; subst hr; exact h
      · exact PStrict_addRoom h t _ loc r hr

theorem PStrict_addBatch (txs : List Tx) {p : Pool} (h : PStrict p) (loc : Bool) :
    ∀ r ∈ p.addBatch loc txs, PStrict r.1 := by
  induction txs generalizing p with
  | nil => intro r hr; simp [addBatch] at hr; subst hr; exact h
  | cons t ts ih =>
    intro r hr
    simp only [addBatch, List.mem_flatMap, List.mem_map] at hr
    obtain ⟨r1, hr1, s, hs, he⟩ := hr
    subst he
    exact ih (PStrict_add h t loc r1 hr1) s hs

theorem PStrict_promoteTx {p : Pool} (h : PStrict p) (a : Nat) (t : Tx) : PStrict (p.promoteTx a t) := by
  have hL : ((amGet p.pending a).getD (TxList.new true)).strict = true := by
    cases hg : amGet p.pending a with
    | none => rfl
    | some l => exact h _ _ hg
  rcases promoteTx_pending_cases p a t with hq | hq
  · intro b l hl
    rw [hq] at hl
    exact (h.set a _ hL) b l hl
  · intro b l hl
    rw [hq] at hl
    exact (h.set a _ (by rw [add_strict]; exact hL)) b l hl

theorem PStrict_promoteAccount {p : Pool} (h : PStrict p) (a : Nat) : PStrict (p.promoteAccount a) := by
  unfold promoteAccount
  split
  · exact h
  · simp only
    refine PStrict.frame ?_ (finishQueue_pending _ _ _)
    refine PStrict.frame ?_ (allRemoveL_pending _ _)
    refine foldl_inv PStrict _ _ _ ?_ (fun s x _ hs => PStrict_promoteTx hs a x)
    exact (h.frame (allRemoveL_pending _ _)).frame (allRemoveL_pending _ _)

theorem PStrict_promoteExecutables (accts : List Nat) {p : Pool} (h : PStrict p) :
    PStrict (p.promoteExecutables accts) :=
  foldl_inv PStrict promoteAccount accts p h (fun _ x _ hs => PStrict_promoteAccount hs x)

theorem capIf_strict {l : TxList} (P : Prop) [Decidable P] (k : Nat) :
    (if P then l.cap k else (l, [])).1.strict = l.strict := by
  split
  · exact cap_strict l k
  · rfl

theorem finishPending_nonempty (p4 : Pool) (a : Nat) (l l' : TxList)
    (h : amGet (if l.isEmpty then { p4 with pending := amErase p4.pending a }
            else { p4 with pending := amSet p4.pending a l }).pending a = some l') : l.txs ≠ [] := by
  split at h
  · simp only [amGet_amErase_self] at h; cases h
  · rename_i he
    intro hnil
    apply he
    simp [TxList.isEmpty, hnil]

/-- what the contiguous-run rule of `demoteUnexecutables` keeps is gap-free from `n` -/
theorem countRun_capIf_gap (d : TxList) (n : Nat) (hs : Sorted d.txs) (hge : ∀ x ∈ d.txs, n ≤ x.nonce) :
    GapFree n (if d.len > countRun d.len d n then d.cap (countRun d.len d n) else (d, [])).1.txs := by
  have hrun := Pool.countRun_take d.len d.txs d.strict d.costcap d.gascap n hs hge (Nat.le_refl _)
  have hl : d.len = d.txs.length := rfl
  by_cases hgt : d.len > countRun d.len d n
  · rw [if_pos hgt]
    have : ¬ d.txs.length ≤ countRun d.len d n := by omega
    simp only [TxList.cap, this, if_false]
    exact hrun
  · rw [if_neg hgt]
    have hlen : d.txs.length ≤ countRun d.len d n := by omega
    have hrun' : GapFree n (d.txs.take (countRun d.len d n)) := hrun
    rw [List.take_of_length_le hlen] at hrun'
    exact hrun'

/-- the own entry of `demoteAccount`: strict, gap-free from the state nonce, not empty -/
theorem demoteAccount_gap {p : Pool} (h : Good Φ p) (hs : PStrict p) (a : Nat) :
    ∀ l, amGet (p.demoteAccount a).pending a = some l →
      l.strict = true ∧ GapFree (stN c a) l.txs ∧ l.txs ≠ [] := by
  unfold demoteAccount
  split
  · rename_i hnone
    intro l hl; rw [hnone] at hl; cases hl
  · rename_i list hlist
    have hl0 := h.pend a list hlist
    have hc := h.chain
    have hwf : ((list.forward (p.stateNonce a)).1.filter (p.balance a) p.chain.gasLimit).1.WF :=
      wf_filter _ _ _ (wf_forward _ _ hl0.1)
    have hge : ∀ x ∈ ((list.forward (p.stateNonce a)).1.filter (p.balance a) p.chain.gasLimit).1.txs,
        p.stateNonce a ≤ x.nonce :=
      fun x hx => forward_ge _ _ x (filter_sub _ _ _ x hx)
    simp only
    intro l hl
    have hne := finishPending_nonempty _ _ _ _ hl
    have := finishPending_self _ _ _ _ hl
    subst this
    refine ⟨?_, ?_, hne⟩
    · rw [capIf_strict, filter_strict, forward_strict]; exact hs a list hlist
    · have hst : stN c a = p.stateNonce a := by rw [← hc]; rfl
      rw [hst]
      exact countRun_capIf_gap _ _ hwf.1 hge

theorem PStrict_demoteAccount {p : Pool} (h : Good Φ p) (hs : PStrict p) (a : Nat) :
    PStrict (p.demoteAccount a) := by
  intro b l hl
  by_cases hb : b = a
  · subst hb; exact (demoteAccount_gap h hs b l hl).1
  · rw [(demoteAccount_spec h a).2.2 b hb] at hl; exact hs b l hl

theorem demoteUnexecutables_gap {p : Pool} (h : Good Φ p) (hs : PStrict p) :
    ∀ a l, amGet p.demoteUnexecutables.pending a = some l →
      l.strict = true ∧ GapFree (stN c a) l.txs ∧ l.txs ≠ [] := by
  have := fold_establish (fun (s : Pool) a => amGet s.pending a) (fun s => Good Φ s ∧ PStrict s)
    (fun a l => l.strict = true ∧ GapFree (stN c a) l.txs ∧ l.txs ≠ [])
    demoteAccount
    (fun s a hs' => ⟨⟨(demoteAccount_spec hs'.1 a).1, PStrict_demoteAccount hs'.1 hs'.2 a⟩,
      demoteAccount_gap hs'.1 hs'.2 a, (demoteAccount_spec hs'.1 a).2.2⟩)
    (p.pending.map (·.1)) p ⟨h, hs⟩
  obtain ⟨_, h2, h3⟩ := this
  intro a l hl
  by_cases ha : a ∈ p.pending.map (·.1)
  · exact h3 a ha l hl
  · have hl' : amGet p.pending a = some l := by rw [← h2 a ha]; exact hl
    exact absurd (amGet_some_key _ _ _ hl') ha

theorem amGet_map {α β} (m : AMap α) (g : α → β) (a : Nat) :
    amGet (m.map (fun e => (e.1, g e.2))) a = (amGet m a).map g := by
  induction m with
  | nil => simp [amGet]
  | cons e es ih =>
    simp only [amGet, List.map_cons, List.find?_cons] at ih ⊢
    split
    · simp
    · exact ih

theorem gf_getLast {s : Nat} {l : List Tx} (h : GapFree s l) {x : Tx} (hx : l.getLast? = some x) :
    x.nonce + 1 = s + l.length := by
  induction l generalizing s with
  | nil => simp at hx
  | cons y ys ih =>
    rw [gf_cons] at h
    cases ys with
    | nil => simp at hx; subst hx; simp; omega
    | cons z zs =>
      rw [List.getLast?_cons_cons] at hx
      have := ih h.2 hx
      simp only [List.length_cons] at this ⊢
      omega

theorem GN_reorgAfterReset {c' : Chain} {p1 : Pool} (h1 : Good (weakPhi c') p1) (hs : PStrict p1) :
    ∀ q ∈ reorgAfterReset p1, GN q := by
  rw [reorgAfterReset_eq]
  apply reorgTail_GN
  have hgood := good_afterDemote h1
  have h2 := (promoteExecutables_spec h1 (p1.queue.map (·.1))).1
  have hgap : ∀ a l, amGet (afterDemote p1).pending a = some l →
      l.strict = true ∧ GapFree (stN c' a) l.txs ∧ l.txs ≠ [] :=
    demoteUnexecutables_gap h2 (PStrict_promoteExecutables _ hs)
  have hchain := hgood.chain
  intro a
  have hm : amGet (List.map (fun (e : Nat × TxList) =>
        (e.1, ((e.2.txs.getLast?).map (fun (t : Tx) => t.nonce + 1)).getD 0)) (afterDemote p1).pending) a =
      (amGet (afterDemote p1).pending a).map
        (fun (l : TxList) => ((l.txs.getLast?).map (fun (t : Tx) => t.nonce + 1)).getD 0) :=
    amGet_map _ (fun (l : TxList) => ((l.txs.getLast?).map (fun (t : Tx) => t.nonce + 1)).getD 0) a
  refine ⟨?_, ?_⟩
  · intro l hl
    have hl' : amGet (afterDemote p1).pending a = some l := hl
    obtain ⟨g1, g2, g3⟩ := hgap a l hl'
    simp only [stN] at g2
    simp only [stateNonce, pnGet, hchain]
    rw [hm, hl']
    simp only [Option.map_some, Option.getD_some]
    refine ⟨g1, g2, ?_⟩
    cases hlast : l.txs.getLast? with
    | none => rw [List.getLast?_eq_none_iff] at hlast; exact absurd hlast g3
    | some x =>
      simp only [Option.map_some, Option.getD_some]
      exact gf_getLast g2 hlast
  · intro hn
    have hn' : amGet (afterDemote p1).pending a = none := hn
    simp only [stateNonce, pnGet, hchain]
    rw [hm, hn']
    rfl

theorem runReorg_reset_GN {p : Pool} (h : Good (strongPhi c) p) (hg : GN p) (c' : Chain) (dirty : List Nat) :
    ∀ q ∈ p.runReorg (some c') dirty, GN q := by
  rw [runReorg_some]
  exact GN_reorgAfterReset (good_resetHead h c') (hg.pstrict.frame rfl)

theorem resetReinject_GN {p : Pool} (h : Good (strongPhi c) p) (hg : GN p) (c' : Chain) (reinject : List Tx) :
    ∀ q ∈ p.resetReinject c' reinject, GN q := by
  intro q hq
  simp only [resetReinject, List.mem_flatMap] at hq
  obtain ⟨r, hr, hq⟩ := hq
  have h1 := good_resetHead h c'
  exact GN_reorgAfterReset (good_addBatch reinject h1 (weakPhi_PQ c') false r hr)
    (PStrict_addBatch reinject (hg.pstrict.frame (p' := p.resetHead c') rfl) false r hr) q hq

end Pool

end KV.TxPool
