import KV.Proofs.CsLock
import KV.Proofs.CsProgress
import KV.Proofs.CsSyncStep
/-! The invariant whose failure is the stale-lock defect, for the node model `Cs.step` (with the F36 fix of `enterNewRound`): `NoStale` — a locked node's own prevote sets hold no +2/3 majority for
another value at a round in `(lockedRound, round]`.  It is restored at the three places where it
can break: a prevote is added (`polkaUpdate`: "Unlocking because of POL", for rounds `≤ round`), the
round advances (`releaseStale` in `enterNewRound` — the F36 fix), the node locks
(`doPrecommit`: `lockedRound := round`).  Core Lean only. -/
namespace KV.Cs

/-- a locked node holds no +2/3 prevotes for another value (nil included) at a round in
`(lockedRound, round]` of its height -/
def NoStale (cfg : Config) (σ : State) : Prop :=
  ∀ lb, σ.locked = some lb → ∀ r' x, σ.lockedRound < r' → r' ≤ σ.round →
    maj23 cfg.powers (slotsV σ.votes .prevote σ.height r') = some x → x = some lb.id

/-- the five fields `NoStale` reads are unchanged -/
structure Keep (σ σ' : State) : Prop where
  height : σ'.height = σ.height
  round : σ'.round = σ.round
  votes : σ'.votes = σ.votes
  locked : σ'.locked = σ.locked
  lockedRound : σ'.lockedRound = σ.lockedRound

theorem Keep.refl (σ : State) : Keep σ σ := ⟨rfl, rfl, rfl, rfl, rfl⟩
theorem Keep.trans {a b c : State} (h1 : Keep a b) (h2 : Keep b c) : Keep a c :=
  ⟨by rw [h2.height, h1.height], by rw [h2.round, h1.round], by rw [h2.votes, h1.votes],
    by rw [h2.locked, h1.locked], by rw [h2.lockedRound, h1.lockedRound]⟩

theorem NoStale.keep {cfg : Config} {σ σ' : State} (N : NoStale cfg σ) (k : Keep σ σ') : NoStale cfg σ' := by
  intro lb hl r' x h1 h2 h3
  rw [k.locked] at hl
  rw [k.lockedRound] at h1
  rw [k.round] at h2
  rw [k.votes, k.height] at h3
  exact N lb hl r' x h1 h2 h3

theorem NoStale.of_unlocked {cfg : Config} {σ : State} (h : σ.locked = none) : NoStale cfg σ := by
  intro lb hl; rw [h] at hl; cases hl

theorem NoStale.of_le {cfg : Config} {σ : State} (h : σ.round ≤ σ.lockedRound) : NoStale cfg σ := by
  intro lb _ r' x h1 h2 _; omega

/-! ### functions that keep the five fields -/

theorem keep_emit (a : Action) (σ : State) : Keep σ (emit a σ) := ⟨rfl, rfl, rfl, rfl, rfl⟩
theorem keep_schedule (h r : Nat) (s : Step) (σ : State) : Keep σ (schedule h r s σ) := ⟨rfl, rfl, rfl, rfl, rfl⟩
theorem keep_panic (σ : State) : Keep σ (panic σ) := ⟨rfl, rfl, rfl, rfl, rfl⟩

theorem keep_signAddVote (cfg : Config) (t : VType) (tgt : Target) (σ : State) : Keep σ (signAddVote cfg t tgt σ) :=
  ⟨by simp, by simp, by simp, by simp, by simp⟩

theorem keep_doPrevote (cfg : Config) (σ : State) : Keep σ (doPrevote cfg σ) :=
  ⟨by simp, by simp, by simp, by simp, by simp⟩

theorem keep_enterPrevote (cfg : Config) (h r : Nat) (σ : State) (hr : r ≤ σ.round) :
    Keep σ (enterPrevote cfg h r σ) := by
  unfold enterPrevote
  split
  · exact Keep.refl _
  · rename_i hg
    have : r = σ.round := by omega
    exact ⟨by simp, by simp [this], by simp, by simp, by simp⟩

theorem keep_enterPrevoteWait (h r : Nat) (σ : State) (hr : r ≤ σ.round) : Keep σ (enterPrevoteWait h r σ) := by
  unfold enterPrevoteWait
  split
  · exact Keep.refl _
  · rename_i hg
    have : r = σ.round := by omega
    exact ⟨rfl, by simp [this], rfl, rfl, rfl⟩

theorem keep_enterPrecommitWait (h r : Nat) (σ : State) : Keep σ (enterPrecommitWait h r σ) := by
  unfold enterPrecommitWait
  split
  · exact Keep.refl _
  · exact ⟨rfl, rfl, rfl, rfl, rfl⟩

theorem keep_decideProposal (nb : Option Nat) (h r : Nat) (σ : State) : Keep σ (decideProposal nb h r σ) := by
  unfold decideProposal
  (repeat' split) <;> first | exact Keep.refl _ | exact keep_emit ..

theorem keep_proposeBody (cfg : Config) (nb : Option Nat) (h r : Nat) (σ : State) :
    Keep σ (proposeBody cfg nb h r σ) := by
  unfold proposeBody
  simp only
  split
  · exact (keep_schedule h r .propose σ).trans (keep_decideProposal ..)
  · exact keep_schedule ..

theorem keep_proposeDone (cfg : Config) (h : Nat) (σ : State) : Keep σ (proposeDone cfg h σ) := by
  unfold proposeDone
  split
  · exact keep_enterPrevote cfg h σ.round σ (Nat.le_refl _)
  · exact Keep.refl _

theorem keep_enterPropose (cfg : Config) (nb : Option Nat) (h r : Nat) (σ : State) (hr : σ.round = r) :
    Keep σ (enterPropose cfg nb h r σ) := by
  unfold enterPropose
  split
  · exact Keep.refl _
  · have k := keep_proposeBody cfg nb h r σ
    have k2 : Keep σ { proposeBody cfg nb h r σ with round := r, step := .propose } :=
      ⟨k.height, hr.symm, k.votes, k.locked, k.lockedRound⟩
    exact k2.trans (keep_proposeDone ..)

theorem keep_setProposal (cfg : Config) (src : Nat) (sigok : Bool) (h r pol id : Nat) (σ : State) :
    Keep σ (setProposal cfg src sigok h r pol id σ) := by
  unfold setProposal
  (repeat' split) <;> first | exact Keep.refl _ | exact ⟨rfl, rfl, rfl, rfl, rfl⟩

theorem keep_storeBlock (cfg : Config) (blk : Blk) (σ : State) : Keep σ (storeBlock cfg blk σ) := by
  unfold storeBlock
  simp only
  (repeat' split) <;> exact ⟨rfl, rfl, rfl, rfl, rfl⟩

theorem keep_takeLocked (b : Nat) (σ : State) : Keep σ (takeLocked b σ) := by
  unfold takeLocked
  (repeat' split) <;> first | exact Keep.refl _ | exact ⟨rfl, rfl, rfl, rfl, rfl⟩

theorem keep_expectBlock (b : Nat) (σ : State) : Keep σ (expectBlock b σ) := by
  unfold expectBlock
  (repeat' split) <;> first | exact Keep.refl _ | exact ⟨rfl, rfl, rfl, rfl, rfl⟩

theorem keep_commitPrep (cfg : Config) (cr : Nat) (σ : State) : Keep σ (commitPrep cfg cr σ) := by
  unfold commitPrep
  split
  · exact (keep_takeLocked _ σ).trans (keep_expectBlock _ _)
  · exact Keep.refl _

theorem keep_polkaValid (vr b : Nat) (σ : State) : Keep σ (polkaValid vr b σ) := by
  unfold polkaValid
  split
  · simp only
    (repeat' split) <;> exact ⟨rfl, rfl, rfl, rfl, rfl⟩
  · exact Keep.refl _

/-! ### commit -/

theorem newHeight_noStale (cfg : Config) (σ : State) : NoStale cfg (newHeight cfg σ) :=
  NoStale.of_unlocked rfl

theorem finalizeCommit_noStale {cfg : Config} {σ : State} (N : NoStale cfg σ) (h : Nat) :
    NoStale cfg (finalizeCommit cfg h σ) := by
  unfold finalizeCommit
  (repeat' split) <;> first | exact N | exact N.keep (keep_panic _) | exact newHeight_noStale _ _

theorem tryFinalizeCommit_noStale {cfg : Config} {σ : State} (N : NoStale cfg σ) (h : Nat) :
    NoStale cfg (tryFinalizeCommit cfg h σ) := by
  unfold tryFinalizeCommit
  (repeat' split) <;> first | exact N | exact finalizeCommit_noStale N h

theorem enterCommit_noStale {cfg : Config} {σ : State} (N : NoStale cfg σ) (h cr : Nat) :
    NoStale cfg (enterCommit cfg h cr σ) := by
  unfold enterCommit
  split
  · exact N
  · apply tryFinalizeCommit_noStale
    have k := keep_commitPrep cfg cr σ
    exact N.keep ⟨k.height, k.round, k.votes, k.locked, k.lockedRound⟩

/-! ### precommit: the node locks with `lockedRound := round`, or releases the lock -/

theorem enterPrecommit_noStale {cfg : Config} {σ : State} (N : NoStale cfg σ) (h r : Nat) (hr : r ≤ σ.round) :
    NoStale cfg (enterPrecommit cfg h r σ) := by
  rw [enterPrecommit_le cfg h r σ hr]
  split
  · exact N
  · rename_i hg
    have hrr : r = σ.round := by omega
    -- same lock, only a signature
    have same : ∀ tgt, NoStale cfg { signAddVote cfg .precommit tgt σ with round := r, step := .precommit } := by
      intro tgt
      have k := keep_signAddVote cfg .precommit tgt σ
      exact N.keep ⟨k.height, by simp [hrr], k.votes, k.locked, k.lockedRound⟩
    -- released
    have rel : ∀ (τ : State), τ.locked = none → ∀ tgt,
        NoStale cfg { signAddVote cfg .precommit tgt τ with round := r, step := .precommit } := by
      intro τ hτ tgt
      exact NoStale.of_unlocked (by simp [hτ])
    -- locked in this round
    have lck : ∀ (τ : State), τ.lockedRound = r → ∀ tgt,
        NoStale cfg { signAddVote cfg .precommit tgt τ with round := r, step := .precommit } := by
      intro τ hτ tgt
      exact NoStale.of_le (by simp [hτ])
    unfold doPrecommit
    split
    · exact same _
    · split
      · exact same _
      · exact rel (unlock σ) rfl _
    · split
      · exact lck _ rfl _
      · split
        · split
          · split
            · exact lck _ rfl _
            · exact same _
          · unfold precommitUnknown
            simp only
            split
            · exact rel _ rfl _
            · exact rel _ rfl _
        · unfold precommitUnknown
          simp only
          split
          · exact rel _ rfl _
          · exact rel _ rfl _

theorem enterPrecommit_noStale' {cfg : Config} {σ : State} (N : NoStale cfg σ) (h r : Nat)
    (hr : σ.step ≠ .commit → r ≤ σ.round) : NoStale cfg (enterPrecommit cfg h r σ) := by
  by_cases hc : σ.step = .commit
  · rw [enterPrecommit_commit cfg h r σ hc]; exact N
  · exact enterPrecommit_noStale N h r (hr hc)

/-! ### the block arrives -/

theorem afterBlock_noStale {cfg : Config} {σ : State} (N : NoStale cfg σ) (h : Nat) :
    NoStale cfg (afterBlock cfg h σ) := by
  unfold afterBlock
  split
  · simp only
    have k := keep_enterPrevote cfg h σ.round σ (Nat.le_refl _)
    split
    · exact enterPrecommit_noStale (N.keep k) h _ (Nat.le_refl _)
    · exact N.keep k
  · split
    · exact tryFinalizeCommit_noStale N h
    · exact N

theorem addBlock_noStale {cfg : Config} {σ : State} (N : NoStale cfg σ) (h id : Nat) (ok dec : Bool) :
    NoStale cfg (addBlock cfg h id ok dec σ) := by
  unfold addBlock
  (repeat' split) <;>
    first
    | exact N
    | exact N.keep ⟨rfl, rfl, rfl, rfl, rfl⟩
    | exact afterBlock_noStale (N.keep (keep_storeBlock ..)) h

/-! ### the round advances: the repair -/

/-- after `releaseStale` the invariant holds, whatever the state was -/
theorem releaseStale_noStale (cfg : Config) (σ : State) : NoStale cfg (releaseStale cfg σ) := by
  unfold releaseStale
  split
  · rename_i lb hl
    split
    · exact NoStale.of_unlocked rfl
    · rename_i hs
      intro lb' hl' r' x h1 h2 h3
      rw [hl] at hl'
      cases hl'
      cases hx : decide (x = some lb.id) with
      | true => exact of_decide_eq_true hx
      | false =>
        exact absurd (stalePolka_complete h1 h2 (of_decide_eq_false hx) h3) hs
  · rename_i hl
    exact NoStale.of_unlocked hl

theorem enterNewRound_noStale {cfg : Config} {σ : State} (N : NoStale cfg σ) (nb : Option Nat) (h r : Nat) :
    NoStale cfg (enterNewRound cfg nb h r σ) := by
  unfold enterNewRound
  split
  · exact N
  · split
    · exact N
    · have J := releaseStale_noStale cfg (newRoundPrep cfg r σ)
      obtain ⟨extra, hh', hr', -⟩ := newRoundPrep_spec cfg r σ
      simp only
      split
      · split
        · exact J.keep (keep_schedule ..)
        · exact J
      · exact J.keep (keep_enterPropose cfg nb h r _ (by rw [releaseStale_round, hr']))

/-! ### a vote arrives -/

theorem maj23_nil (pw : List Nat) : maj23 pw [] = none := rfl

theorem slotsV_append_fresh (v : List RoundVotes) (k h r : Nat) (t : VType) (h' r' : Nat) :
    slotsV (v ++ [fresh k h r]) t h' r' = slotsV v t h' r' ∨
    slotsV (v ++ [fresh k h r]) t h' r' = List.replicate k none := by
  unfold slotsV
  rw [findRV_append]
  cases hf : findRV v h' r' with
  | some rv => exact Or.inl rfl
  | none =>
    simp only
    by_cases hc : ((fresh k h r).height == h' && (fresh k h r).round == r') = true
    · rw [if_pos hc]
      right
      cases t <;> rfl
    · rw [if_neg hc]
      exact Or.inl rfl

theorem ensureRound_noStale {cfg : Config} {σ σ1 : State} (N : NoStale cfg σ) (peer r : Nat)
    (h : ensureRound cfg peer r σ = some σ1) : NoStale cfg σ1 := by
  unfold ensureRound at h
  split at h
  · cases h; exact N
  · split at h
    · cases h
      intro lb hl r' x h1 h2 h3
      have hl' : σ.locked = some lb := hl
      have h3' : maj23 cfg.powers (slotsV (σ.votes ++ [fresh (n cfg) σ.height r]) .prevote σ.height r') = some x := h3
      rcases slotsV_append_fresh σ.votes (n cfg) σ.height r .prevote σ.height r' with e | e
      · rw [e] at h3'
        exact N lb hl' r' x h1 h2 h3'
      · rw [e, Sync.maj23_replicate_none] at h3'
        cases h3'
    · cases h

/-- "Unlocking because of POL" restores the invariant at the round the prevote was added to -/
theorem polkaUnlock_noStale {cfg : Config} {σ : State} (vr : Nat) (bid : Target)
    (hm : maj23 cfg.powers (slotsV σ.votes .prevote σ.height vr) = some bid)
    (N : ∀ lb, σ.locked = some lb → ∀ r' x, r' ≠ vr → σ.lockedRound < r' → r' ≤ σ.round →
      maj23 cfg.powers (slotsV σ.votes .prevote σ.height r') = some x → x = some lb.id) :
    NoStale cfg (polkaUnlock vr bid σ) := by
  unfold polkaUnlock
  split
  · rename_i lb hl
    split
    · exact NoStale.of_unlocked rfl
    · rename_i hc
      intro lb' hl' r' x h1 h2 h3
      rw [hl] at hl'
      cases hl'
      by_cases e : r' = vr
      · subst e
        rw [hm] at h3
        cases h3
        by_cases hb : bid = some lb.id
        · exact hb
        · exfalso
          apply hc
          have : (bid == some lb.id) = false := by simpa using hb
          simp [h1, h2, this]
      · exact N lb hl r' x e h1 h2 h3
  · rename_i hl
    exact NoStale.of_unlocked hl

theorem polkaUpdate_noStale {cfg : Config} {σ : State} (vr : Nat)
    (N : ∀ lb, σ.locked = some lb → ∀ r' x, r' ≠ vr → σ.lockedRound < r' → r' ≤ σ.round →
      maj23 cfg.powers (slotsV σ.votes .prevote σ.height r') = some x → x = some lb.id) :
    NoStale cfg (polkaUpdate vr (maj23 cfg.powers (slotsV σ.votes .prevote σ.height vr)) σ) := by
  unfold polkaUpdate
  cases hm : maj23 cfg.powers (slotsV σ.votes .prevote σ.height vr) with
  | none =>
    simp only
    intro lb hl r' x h1 h2 h3
    by_cases e : r' = vr
    · subst e; rw [hm] at h3; cases h3
    · exact N lb hl r' x e h1 h2 h3
  | some bid =>
    simp only
    have U := polkaUnlock_noStale vr bid hm N
    cases bid with
    | none => exact U
    | some b => exact U.keep (keep_polkaValid ..)

theorem prevoteSwitch_noStale {cfg : Config} {σ : State} (N : NoStale cfg σ) (nb : Option Nat) (h vr : Nat)
    (m : Option Target) (any : Bool) : NoStale cfg (prevoteSwitch cfg nb h vr m any σ) := by
  unfold prevoteSwitch
  split
  · exact enterNewRound_noStale N nb h vr
  · split
    · rename_i hc
      have hle : vr ≤ σ.round := by
        simp only [Bool.and_eq_true, beq_iff_eq] at hc; omega
      split
      · split
        · exact enterPrecommit_noStale N h vr hle
        · split
          · exact N.keep (keep_enterPrevoteWait h vr σ hle)
          · exact N
      · split
        · exact N.keep (keep_enterPrevoteWait h vr σ hle)
        · exact N
    · split
      · split
        · split
          · exact N.keep (keep_enterPrevote cfg h _ σ (Nat.le_refl _))
          · exact N
        · exact N
      · exact N

theorem afterPrevote_noStale {cfg : Config} {σ : State} (nb : Option Nat) (vr : Nat)
    (N : ∀ lb, σ.locked = some lb → ∀ r' x, r' ≠ vr → σ.lockedRound < r' → r' ≤ σ.round →
      maj23 cfg.powers (slotsV σ.votes .prevote σ.height r') = some x → x = some lb.id) :
    NoStale cfg (afterPrevote cfg nb vr σ) := by
  unfold afterPrevote
  exact prevoteSwitch_noStale (polkaUpdate_noStale vr N) nb _ vr _ _

theorem afterPrecommit_noStale {cfg : Config} {σ : State} (N : NoStale cfg σ) (nb : Option Nat) (vr : Nat) :
    NoStale cfg (afterPrecommit cfg nb vr σ) := by
  unfold afterPrecommit
  simp only
  split
  · have N1 := enterNewRound_noStale N nb σ.height vr
    have N2 := enterPrecommit_noStale' N1 σ.height vr (enterNewRound_round_ge' cfg nb vr σ)
    split
    · exact enterCommit_noStale N2 _ _
    · exact N2.keep (keep_enterPrecommitWait ..)
  · split
    · exact (enterNewRound_noStale N nb _ _).keep (keep_enterPrecommitWait ..)
    · exact N

theorem addVote_noStale {cfg : Config} {σ : State} (N : NoStale cfg σ) (nb : Option Nat) (peer idx : Nat)
    (t : VType) (h r : Nat) (tgt : Target) (sigok : Bool) :
    NoStale cfg (addVote cfg nb peer idx t h r tgt sigok σ) := by
  unfold addVote
  split
  · exact N
  · split
    · exact N
    · rename_i hh
      have hh' : h = σ.height := by omega
      split
      · exact N
      · rename_i σ1 he
        have N1 := ensureRound_noStale N peer r he
        have hh1 : σ1.height = σ.height := by
          unfold ensureRound at he
          split at he
          · cases he; rfl
          · split at he
            · cases he; rfl
            · cases he
        split
        · exact N1
        · split
          · -- the vote is stored
            cases t with
            | prevote =>
              simp only
              apply afterPrevote_noStale
              intro lb hl r' x hne h1 h2 h3
              have h3' : maj23 cfg.powers (slotsV (σ1.votes.map (setSlot .prevote idx tgt h r)) .prevote σ1.height r') =
                  some x := h3
              rw [Sync.slotsV_setSlot_round _ _ _ _ _ _ _ _ _ hne] at h3'
              exact N1 lb hl r' x h1 h2 h3'
            | precommit =>
              simp only
              apply afterPrecommit_noStale
              intro lb hl r' x h1 h2 h3
              have h3' : maj23 cfg.powers (slotsV (σ1.votes.map (setSlot .precommit idx tgt h r)) .prevote σ1.height r') =
                  some x := h3
              rw [Sync.slotsV_setSlot_ty _ _ _ _ _ _ _ _ _ (by decide)] at h3'
              exact N1 lb hl r' x h1 h2 h3'
          · exact N1

theorem handleTimeout_noStale {cfg : Config} {σ : State} (N : NoStale cfg σ) (nb : Option Nat) (h r : Nat)
    (s : Step) (hok : h = σ.height → r ≤ σ.round) (hr1 : 1 ≤ σ.round) :
    NoStale cfg (handleTimeout cfg nb h r s σ) := by
  unfold handleTimeout
  split
  · exact N
  · rename_i hg
    have hr : r ≤ σ.round := hok (by omega)
    split
    · exact enterNewRound_noStale N nb h 1
    · -- `enterPropose(height, 1)` fires only in round 1 (rounds start at 1)
      by_cases h1 : σ.round = 1
      · exact N.keep (keep_enterPropose cfg nb h 1 σ h1)
      · unfold enterPropose
        rw [if_pos (Or.inr (Or.inl (by omega)))]
        exact N
    · exact N.keep (keep_enterPrevote cfg h r σ hr)
    · exact enterPrecommit_noStale N h r hr
    · exact enterNewRound_noStale (enterPrecommit_noStale N h r hr) nb h (r + 1)
    · exact N.keep (keep_panic _)

/-- **`NoStale` is preserved by the repaired step** (timeouts as in `step_inv`) -/
theorem step_noStale {cfg : Config} {σ : State} (I : Inv cfg σ) (N : NoStale cfg σ) (nb : Option Nat)
    (i : Input) (hok : TimeoutOk σ i) : NoStale cfg (step cfg σ nb i) := by
  unfold step
  split
  · exact N
  · have J : NoStale cfg { σ with added := false } := N.keep ⟨rfl, rfl, rfl, rfl, rfl⟩
    cases i with
    | proposal src sigok h r pol id => exact J.keep (keep_setProposal ..)
    | block h id ok dec => exact addBlock_noStale J h id ok dec
    | vote peer idx t h r tgt sigok => exact addVote_noStale J nb peer idx t h r tgt sigok
    | timeout h r s => exact handleTimeout_noStale J nb h r s hok I.r1

theorem init_noStale (cfg : Config) (h : Nat) : NoStale cfg (init cfg h) := NoStale.of_unlocked rfl

end KV.Cs
