import KV.Proofs.Evm
/-! World lemmas, observational equality, and the frame wrappers of `kvm.go`. -/
namespace KV.Evm

/-! ### world -/

theorem find_filter_ne (l : List (Word × Account)) (a b : Word) (h : b ≠ a) :
    (l.filter (fun p => p.1 != a)).find? (fun p => p.1 == b) = l.find? (fun p => p.1 == b) := by
  induction l with
  | nil => rfl
  | cons p rest ih =>
    by_cases hp : p.1 = a
    · have hpb : (p.1 == b) = false := by rw [hp]; exact beq_false_of_ne (Ne.symm h)
      have hq : (p.1 != a) = false := by rw [hp]; simp
      rw [List.filter_cons, List.find?_cons, hq, hpb]
      exact ih
    · have hq : (p.1 != a) = true := by simp [hp]
      rw [List.filter_cons, hq, if_pos rfl, List.find?_cons, List.find?_cons, ih]

theorem get_set (w : World) (a b : Word) (x : Account) :
    (w.set a x).get b = if b = a then x else w.get b := by
  unfold World.get World.find World.set
  by_cases h : b = a
  · subst h; simp
  · have hab : (a == b) = false := beq_false_of_ne (Ne.symm h)
    simp only [h, if_false, List.find?_cons, hab]
    rw [find_filter_ne _ _ _ h]

theorem set_logs (w : World) (a : Word) (x : Account) : (w.set a x).logs = w.logs := rfl

/-- observational equality: same account contents (a missing object reads as the empty account)
and same logs -/
def ObsEq (w w' : World) : Prop := (∀ a, w'.get a = w.get a) ∧ w'.logs = w.logs

theorem ObsEq.refl (w : World) : ObsEq w w := ⟨fun _ => rfl, rfl⟩
theorem ObsEq.trans {a b c : World} (h1 : ObsEq a b) (h2 : ObsEq b c) : ObsEq a c :=
  ⟨fun x => by rw [h2.1, h1.1], by rw [h2.2, h1.2]⟩

theorem obs_set_same (w : World) (a : Word) (x : Account) (h : x = w.get a) : ObsEq w (w.set a x) := by
  refine ⟨fun b => ?_, rfl⟩
  rw [get_set]; split
  · rename_i hb; subst hb; exact h
  · rfl

theorem get_of_not_exist (w : World) (a : Word) (h : w.exist a = false) : w.get a = Account.empty := by
  unfold World.exist at h; unfold World.get
  cases hf : w.find a
  · rfl
  · rw [hf] at h; cases h

theorem obs_touch (w : World) (a : Word) : ObsEq w (w.touch a) := by
  unfold World.touch
  cases h : w.exist a
  · simp only [Bool.false_eq_true, if_false]
    exact obs_set_same w a _ (get_of_not_exist w a h).symm
  · simp only [if_true]; exact ObsEq.refl w

theorem obs_transfer_zero (w : World) (a b : Word) : ObsEq w (w.transfer a b 0) := by
  unfold World.transfer World.addBalance World.subBalance
  exact ObsEq.trans (obs_set_same w a _ (by simp)) (obs_set_same _ b _ (by simp))

/-! ### nested calls inside `exec` -/

/-- the request `opCall` / `opStaticCall` hand to the wrapper -/
def reqOf (env : Env) (k : OpKind) (args : List Word) (mem : Bytes) (cgt : Nat) : CallReq :=
  match k with
  | .call =>
    { static := false, readOnly := env.readOnly, caller := env.address, addr := toAddr (arg args 1),
      input := memRead mem (arg args 3) (arg args 4),
      gas := if arg args 2 ≠ 0 then cgt + 2300 else cgt, value := arg args 2 }
  | _ =>
    { static := true, readOnly := env.readOnly, caller := env.address, addr := toAddr (arg args 1),
      input := memRead mem (arg args 2) (arg args 3), gas := cgt, value := 0 }

theorem exec_call {sub : Sub} {env : Env} {s : State} {k : OpKind} {args : List Word} {mem : Bytes} {cgt : Nat}
    {results : List Word} {pc : Nat} {mem' : Bytes} {w : World} {gb : Nat}
    (hk : k.isCall = true) (h : exec sub env s k args mem cgt = .cont results pc mem' w gb) :
    w = (sub s.world (reqOf env k args mem cgt)).world ∧ gb = (sub s.world (reqOf env k args mem cgt)).gasLeft := by
  cases k <;> simp only [OpKind.isCall] at hk <;> simp only [exec] at h
  case call => have := afterCall_cont h; exact ⟨this.2.2.1, this.2.2.2⟩
  case staticcall => have := afterCall_cont h; exact ⟨this.2.2.1, this.2.2.2⟩
  all_goals cases hk

theorem reqOf_readOnly (env : Env) (k : OpKind) (args : List Word) (mem : Bytes) (cgt : Nat) :
    (reqOf env k args mem cgt).readOnly = env.readOnly := by
  unfold reqOf; split <;> rfl

theorem reqOf_gas (env : Env) (k : OpKind) (args : List Word) (mem : Bytes) (cgt : Nat) :
    (reqOf env k args mem cgt).gas ≤ cgt + (if callWithValue k args then 2300 else 0) := by
  unfold reqOf callWithValue
  split
  · simp only; split <;> simp_all
  · simp only; split <;> omega

theorem reqOf_static (env : Env) (k : OpKind) (args : List Word) (mem : Bytes) (cgt : Nat) (hk : k.isCall = true) :
    (reqOf env k args mem cgt).static = true ∨ k.isCall = true ∧ callWithValue k args = (arg args 2 != 0) ∧
      (reqOf env k args mem cgt).static = false := by
  cases k <;> simp only [OpKind.isCall] at hk
  case call => exact Or.inr ⟨rfl, rfl, rfl⟩
  case staticcall => exact Or.inl rfl
  all_goals cases hk

theorem safeAdd_some {a b c : Nat} (h : safeAdd a b = some c) : c = a + b := by
  unfold safeAdd at h; split at h
  · cases h
  · injection h with h; exact h.symm

/-- what the dynamic gas of CALL / STATICCALL covers: `callGasTemp`, and the stipend when value moves -/
theorem call_charge {k : OpKind} {args : List Word} {s : State} {self ga m c l : Nat}
    (hk : k.isCall = true) (h : dynGas k args s self ga m = some (c, l)) :
    cgtOf k args s ga m + (if callWithValue k args then 2300 else 0) ≤ c := by
  cases k <;> simp only [OpKind.isCall] at hk
  case call =>
    simp only [dynGas, Option.bind_eq_some_iff, Option.map_eq_some_iff] at h
    obtain ⟨⟨b, last⟩, hb, t, ht, tot, htot, hc⟩ := h
    injection hc with hc1 _
    have hcgt : cgtOf .call args s ga m = t := by
      simp only [cgtOf, OpKind.isCall, if_true, callGasTemp, hb, Option.bind_some, ht, Option.getD_some]
    simp only [safeAdd] at htot
    split at htot; · cases htot
    injection htot with htot
    rw [hcgt]
    simp only [callWithValue]
    by_cases hv : arg args 2 = 0
    · simp [hv]; omega
    · have hv' : (arg args 2 != 0) = true := by simp [hv]
      simp only [hv', if_true]
      -- the base contains CallValueTransferGas
      simp only [callBase, Option.bind_eq_some_iff, Option.map_eq_some_iff] at hb
      obtain ⟨⟨mg, last'⟩, _, b', hb', hbb⟩ := hb
      have hb'' := safeAdd_some hb'
      injection hbb with hbb1 _
      rw [if_pos hv] at hb''
      omega
  case staticcall =>
    simp only [dynGas, Option.bind_eq_some_iff, Option.map_eq_some_iff] at h
    obtain ⟨⟨b, last⟩, hb, t, ht, tot, htot, hc⟩ := h
    injection hc with hc1 _
    have hcgt : cgtOf .staticcall args s ga m = t := by
      simp only [cgtOf, OpKind.isCall, if_true, callGasTemp, hb, Option.bind_some, ht, Option.getD_some]
    simp only [safeAdd] at htot
    split at htot; · cases htot
    injection htot with htot
    rw [hcgt]; simp only [callWithValue]; simp; omega
  all_goals cases hk

/-! ### properties of a wrapper -/

/-- the wrapper never hands back more gas than it was given -/
def SubGas (sub : Sub) : Prop := ∀ w req, (sub w req).gasLeft ≤ req.gas
/-- the wrapper leaves the world observationally unchanged below a static frame -/
def SubStatic (sub : Sub) : Prop :=
  ∀ w req, (req.static = true ∨ (req.readOnly = true ∧ req.value = 0)) → ObsEq w (sub w req).world

theorem reqOf_value (env : Env) (k : OpKind) (args : List Word) (mem : Bytes) (cgt : Nat)
    (h : callWithValue k args = false) (hk : k.isCall = true) :
    (reqOf env k args mem cgt).static = true ∨ (reqOf env k args mem cgt).value = 0 := by
  cases k <;> simp only [OpKind.isCall] at hk
  case call => simp only [callWithValue, bne_eq_false_iff_eq] at h; exact Or.inr h
  case staticcall => exact Or.inl rfl
  all_goals cases hk

/-! ### one step -/

/-- the table facts used below, for the entry of a fetched opcode -/
theorem entry_facts {post : Bool} {op : UInt8} {i : OpInfo} (h : opInfo post op = some i) :
    i.minStack = i.pops ∧ i.maxStack = 1024 + i.pops - i.pushes ∧ i.pushes ≤ i.pops + 1 ∧
    (i.kind.isUnsupported = false → i.kind.pops = i.pops ∧ i.kind.pushes = i.pushes) ∧
    i.kind.wf = true ∧ (i.kind.modifies = true → i.writes = true) ∧
    (1 ≤ i.gas ∨ i.kind.stops = true ∨ (i.kind.dynPaid = true ∧ i.dyn = true)) ∧
    (pushLen op = i.kind.immLen) ∧
    (i.kind.isUnsupported = false → i.jumps = i.kind.isJump) ∧
    (i.kind.isCall = true → i.dyn = true) := by
  have e := entryOK_of_opInfo h
  simp only [entryOK, Bool.and_eq_true, beq_iff_eq, decide_eq_true_eq, Bool.or_eq_true, Bool.not_eq_true', and_assoc] at e
  obtain ⟨h1, h2, h3, h4, h5, h6, _, _, _, _, _, _, h13, _, h15, h16, h17⟩ := e
  refine ⟨h1, h2, h3, ?_, h5, ?_, ?_, ?_, ?_, ?_⟩
  · intro hu; rcases h4 with h4 | h4
    · rw [hu] at h4; cases h4
    · exact h4
  · intro hm; rcases h6 with h6 | h6
    · rw [hm] at h6; cases h6
    · exact h6
  · rcases h13 with (h13 | h13) | h13
    · exact Or.inl h13
    · exact Or.inr (Or.inl h13)
    · exact Or.inr (Or.inr h13)
  · have e8 : UInt8.ofNat op.toNat = op := UInt8.toNat_inj.mp (by simp)
    rw [e8] at h15; exact h15
  · intro hu; rcases h16 with h16 | h16
    · rw [hu] at h16; cases h16
    · exact h16
  · intro hc; rcases h17 with h17 | h17
    · rw [hc] at h17; cases h17
    · exact h17

theorem isCall_not_stops {k : OpKind} (h : k.isCall = true) : k.stops = false ∧ k.dynPaid = false ∧ k.modifies = false := by
  cases k <;> simp [OpKind.isCall, OpKind.stops, OpKind.dynPaid, OpKind.modifies] at *

/-- every continuing step costs at least one unit of gas, whatever the nested calls return -/
theorem step_gas_lt {sub : Sub} (hsub : SubGas sub) {env : Env} {s s' : State}
    (h : step sub env s = .next s') : s'.gas < s.gas := by
  obtain ⟨x⟩ := step_next_inv h
  obtain ⟨_, _, _, _, _, _, hpaid, _, _, hcd⟩ := entry_facts x.hinfo
  have hg := x.hgas
  have hc := x.hcharge
  rw [x.hgas']
  cases hcall : x.info.kind.isCall
  · have hgb := exec_noncall_gas hcall x.hexec
    rw [hgb]
    rcases hpaid with hpaid | hpaid | hpaid
    · omega
    · exact absurd x.hexec (exec_stops hpaid)
    · obtain ⟨hk, hd⟩ := hpaid
      have hdyn := x.hdyn
      simp only [dynGasOf, hd, if_true] at hdyn
      have := dynGas_paid hk hdyn
      have hch : 1 ≤ chargeOf x.info env.post x.dynCost := by
        simp only [chargeOf, hd, if_true]; split <;> omega
      omega
  · obtain ⟨hns, hnd, _⟩ := isCall_not_stops hcall
    have hd := hcd hcall
    have h1 : 1 ≤ x.info.gas := by
      rcases hpaid with hpaid | hpaid | hpaid
      · exact hpaid
      · rw [hns] at hpaid; cases hpaid
      · rw [hnd] at hpaid; cases hpaid.1
    have hdyn := x.hdyn
    simp only [dynGasOf, hd, if_true] at hdyn
    have hcc := call_charge hcall hdyn
    have hex := exec_call hcall x.hexec
    have hle := hsub (preExec env s x.info x.msz x.dynCost x.last).world
      (reqOf env x.info.kind (s.stack.take x.info.pops) (preExec env s x.info x.msz x.dynCost x.last).mem
        (cgtOf x.info.kind (s.stack.take x.info.pops) s (s.gas - x.info.gas) (toWordSize x.msz * 32)))
    have hrq := reqOf_gas env x.info.kind (s.stack.take x.info.pops) (preExec env s x.info x.msz x.dynCost x.last).mem
        (cgtOf x.info.kind (s.stack.take x.info.pops) s (s.gas - x.info.gas) (toWordSize x.msz * 32))
    rw [← hex.2] at hle
    have hch : x.dynCost ≤ chargeOf x.info env.post x.dynCost := by
      simp only [chargeOf, hd, if_true]; split <;> omega
    omega

/-- below a static frame a step leaves the world observationally unchanged -/
theorem step_static {sub : Sub} (hsub : SubStatic sub) {env : Env} {s s' : State}
    (hro : env.readOnly = true) (h : step sub env s = .next s') : ObsEq s.world s'.world := by
  obtain ⟨x⟩ := step_next_inv h
  obtain ⟨_, _, _, _, _, h6, _, _, _, _⟩ := entry_facts x.hinfo
  have hx := x.hro
  rw [hro] at hx
  simp only [Bool.true_and, Bool.or_eq_false_iff] at hx
  obtain ⟨hw, hcv⟩ := hx
  have hm : x.info.kind.modifies = false := by
    cases hmm : x.info.kind.modifies
    · rfl
    · rw [h6 hmm] at hw; cases hw
  cases hcall : x.info.kind.isCall
  · have := (exec_frame hm hcall x.hexec).1
    rw [this]; exact ObsEq.refl _
  · have hex := (exec_call hcall x.hexec).1
    rw [hex]
    apply hsub
    rcases reqOf_value env _ _ _ _ hcv hcall with hv | hv
    · exact Or.inl hv
    · exact Or.inr ⟨by rw [reqOf_readOnly]; exact hro, hv⟩

/-! ### the loop and the wrappers -/

theorem runLoop_gas {sub : Sub} (hsub : SubGas sub) (env : Env) : ∀ (fuel : Nat) (s : State), s.gas < fuel →
    (runLoop sub env fuel s).status ≠ .err .fuel ∧ (runLoop sub env fuel s).final.gas ≤ s.gas := by
  intro fuel
  induction fuel with
  | zero => intro s h; omega
  | succ f ih =>
    intro s h
    simp only [runLoop]
    split
    · rename_i hh hs
      exact ⟨step_halt_status hs, (step_halt_inv hs).1⟩
    · rename_i s' hs
      have hlt := step_gas_lt hsub hs
      obtain ⟨a, b⟩ := ih s' (by omega)
      exact ⟨a, by omega⟩

theorem runLoop_static {sub : Sub} (hsub : SubStatic sub) (env : Env) (hro : env.readOnly = true) :
    ∀ (fuel : Nat) (s : State), ObsEq s.world (runLoop sub env fuel s).final.world := by
  intro fuel
  induction fuel with
  | zero => intro s; simp only [runLoop]; exact ObsEq.refl _
  | succ f ih =>
    intro s
    simp only [runLoop]
    split
    · rename_i hh hs
      rw [(step_halt_inv hs).2.1]; exact ObsEq.refl _
    · rename_i s' hs
      exact ObsEq.trans (step_static hsub hro hs) (ih s')

theorem interp_gas {sub : Sub} (hsub : SubGas sub) (env : Env) (w : World) (gas : Nat) :
    (interp sub env w gas).status ≠ .err .fuel ∧ (interp sub env w gas).final.gas ≤ gas := by
  unfold interp
  split
  · simp [initState]
  · exact runLoop_gas hsub env (gas + 1) (initState w gas) (by simp [initState])

theorem interp_static {sub : Sub} (hsub : SubStatic sub) (env : Env) (hro : env.readOnly = true)
    (w : World) (gas : Nat) : ObsEq w (interp sub env w gas).final.world := by
  unfold interp
  split
  · exact ObsEq.refl _
  · exact runLoop_static hsub env hro (gas + 1) (initState w gas)

theorem settle_gas (snap : World) (h : Halt) : (settle snap h).gasLeft ≤ h.final.gas := by
  unfold settle; split <;> simp

theorem settle_status (snap : World) (h : Halt) : (settle snap h).status = h.status := by
  unfold settle; split <;> simp_all

/-- the common error handling: anything but success gives back the snapshot -/
theorem settle_failed (snap : World) (h : Halt) (hs : (settle snap h).status ≠ .ok) :
    (settle snap h).world = snap ∧ (∀ c, (settle snap h).status = .err c → (settle snap h).gasLeft = 0) := by
  unfold settle at hs ⊢
  split <;> simp_all

theorem settle_obs (snap : World) (h : Halt) (ho : ObsEq snap h.final.world) : ObsEq snap (settle snap h).world := by
  unfold settle; split
  · exact ho
  all_goals exact ObsEq.refl _

theorem callFrame_gas (t : TxEnv) : ∀ n, SubGas (callFrame t n) := by
  intro n
  induction n with
  | zero => intro w req; simp [callFrame]
  | succ n ih =>
    intro w req
    simp only [callFrame]
    split
    · split
      · simp
      · exact Nat.le_trans (settle_gas _ _) (interp_gas ih _ _ _).2
    · split
      · simp
      · split
        · simp
        · split
          · simp
          · exact Nat.le_trans (settle_gas _ _) (interp_gas ih _ _ _).2

theorem callFrame_nofuel (t : TxEnv) (n : Nat) (w : World) (req : CallReq) :
    (callFrame t n w req).status ≠ .err .fuel := by
  cases n with
  | zero => simp [callFrame]
  | succ n =>
    simp only [callFrame]
    split
    · split
      · simp
      · rw [settle_status]; exact (interp_gas (callFrame_gas t n) _ _ _).1
    · split
      · simp
      · split
        · simp
        · split
          · simp
          · rw [settle_status]; exact (interp_gas (callFrame_gas t n) _ _ _).1

theorem callFrame_static (t : TxEnv) : ∀ n, SubStatic (callFrame t n) := by
  intro n
  induction n with
  | zero => intro w req _; simp only [callFrame]; exact ObsEq.refl _
  | succ n ih =>
    intro w req hreq
    simp only [callFrame]
    split
    · -- StaticCall
      split
      · exact ObsEq.refl _
      · apply settle_obs
        exact ObsEq.trans (obs_touch w req.addr) (interp_static ih _ rfl _ _)
    · rename_i hst
      rcases hreq with hreq | ⟨hro, hv⟩
      · exact absurd hreq hst
      · split
        · exact ObsEq.refl _
        · split
          · exact ObsEq.refl _
          · split
            · exact ObsEq.refl _
            · apply settle_obs
              rw [hv]
              refine ObsEq.trans (ObsEq.trans (obs_touch w req.addr) (obs_transfer_zero (w.touch req.addr) req.caller req.addr)) ?_
              exact interp_static ih _ (by simp [TxEnv.frame, hro]) _ _

/-- a frame that does not end with success leaves the world exactly as it was -/
theorem callFrame_failed (t : TxEnv) (n : Nat) (w : World) (req : CallReq)
    (h : (callFrame t n w req).status ≠ .ok) : (callFrame t n w req).world = w := by
  cases n with
  | zero => simp [callFrame]
  | succ n =>
    simp only [callFrame] at h ⊢
    split
    · rename_i hs; simp only [hs, if_true] at h
      split
      · rfl
      · rename_i hp; simp only [hp, if_false] at h
        exact (settle_failed _ _ h).1
    · rename_i hs; simp only [hs] at h
      split
      · rfl
      · rename_i h1; simp only [h1, if_false] at h
        split
        · rfl
        · rename_i h2; simp only [h2, if_false] at h
          split
          · rfl
          · rename_i h3; simp only [h3, if_false] at h
            exact (settle_failed _ _ h).1

/-- an error other than the two pre-execution ones (depth, balance) consumes all the gas of the frame -/
theorem callFrame_error_gas (t : TxEnv) (n : Nat) (w : World) (req : CallReq) (c : ErrClass)
    (h : (callFrame t n w req).status = .err c) (hd : c ≠ .depth) (hb : c ≠ .balance) :
    (callFrame t n w req).gasLeft = 0 := by
  cases n with
  | zero => simp [callFrame] at h; exact absurd h.symm hd
  | succ n =>
    simp only [callFrame] at h ⊢
    split
    · rename_i hs; simp only [hs, if_true] at h
      split
      · rfl
      · rename_i hp; simp only [hp, Bool.false_eq_true, if_false] at h
        exact (settle_failed _ _ (by rw [h]; simp)).2 c h
    · rename_i hs; simp only [hs, Bool.false_eq_true, if_false] at h
      split
      · rename_i h1; simp [h1] at h; exact absurd h.symm hb
      · rename_i h1; simp only [h1, if_false] at h
        split
        · rename_i h2; simp [h2] at h
        · rename_i h2; simp only [h2, if_false] at h
          split
          · rfl
          · rename_i h3; simp only [h3, Bool.false_eq_true, if_false] at h
            exact (settle_failed _ _ (by rw [h]; simp)).2 c h

end KV.Evm
