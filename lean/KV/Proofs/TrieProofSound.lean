import KV.Proofs.TrieProofDec
/-! Soundness of `verifyProof` (property C07, part 4): walking a proof either follows the real
trie or exhibits a hash collision. -/
namespace KV.Trie
open KV KV.Rlp

/-- an explicit collision of the hash function -/
def Collision (H : Bytes → Bytes) : Prop := ∃ a b : Bytes, a ≠ b ∧ H a = H b

/-- no valid key maps to the empty value (holds for every reachable trie: writing an empty value
deletes) -/
def NoEmpty (m : Node) : Prop := ∀ k, VKey k → get m k ≠ some (some [])

theorem embed_canon (H : Bytes → Bytes) {c : Node} (hc : Canon c) (cc : Node) :
    embed H c cc =
      if (enc (item H c)).length < 32 then cc else .hash (H (enc (item H c))) := by
  cases c with
  | nil => exact absurd hc (by simp [Canon])
  | value v => exact absurd hc (by simp [Canon])
  | hash h => exact absurd hc (by simp [Canon])
  | short k c' => rfl
  | full cs => rfl

/-- the encodings of the large (hash-referenced) nodes strictly below `m` on the path of `key`:
what `Prove` emits after the blob of `m` itself -/
def belowBlobs (H : Bytes → Bytes) : Node → Key → List Bytes
  | .short sk c, key =>
    if sk.isPrefixOf key then
      (match c with
        | .short _ _ => if (enc (item H c)).length < 32 then [] else [enc (item H c)]
        | .full _ => if (enc (item H c)).length < 32 then [] else [enc (item H c)]
        | _ => []) ++ belowBlobs H c (key.drop sk.length)
    else []
  | .full cs, x :: r =>
    (match cs x with
      | .short _ _ => if (enc (item H (cs x))).length < 32 then [] else [enc (item H (cs x))]
      | .full _ => if (enc (item H (cs x))).length < 32 then [] else [enc (item H (cs x))]
      | _ => []) ++ belowBlobs H (cs x) r
  | _, _ => []

/-- the blob of `c` itself if it is large, followed by `belowBlobs` -/
def selfBlobs (H : Bytes → Bytes) (c : Node) (key : Key) : List Bytes :=
  (match c with
    | .short _ _ => if (enc (item H c)).length < 32 then [] else [enc (item H c)]
    | .full _ => if (enc (item H c)).length < 32 then [] else [enc (item H c)]
    | _ => []) ++ belowBlobs H c key

theorem belowBlobs_short (H : Bytes → Bytes) (sk : Key) (c : Node) (r : Key) :
    belowBlobs H (.short sk c) (sk ++ r) = selfBlobs H c r := by
  simp [belowBlobs, selfBlobs, isPrefixOf_self_append, drop_len_append]

theorem belowBlobs_full (H : Bytes → Bytes) (cs : Nat → Node) (x : Nat) (r : Key) :
    belowBlobs H (.full cs) (x :: r) = selfBlobs H (cs x) r := by
  simp [belowBlobs, selfBlobs]

theorem selfBlobs_canon (H : Bytes → Bytes) {c : Node} (hc : Canon c) (key : Key) :
    selfBlobs H c key =
      (if (enc (item H c)).length < 32 then [] else [enc (item H c)]) ++ belowBlobs H c key := by
  cases c with
  | nil => exact absurd hc (by simp [Canon])
  | value v => exact absurd hc (by simp [Canon])
  | hash h => exact absurd hc (by simp [Canon])
  | short k c' => rfl
  | full cs => rfl

/-- what the walk through one proof node (`pget` on the decoded node) must satisfy with respect to
the real node `m` it was decoded from -/
def WalkOK (H : Bytes → Bytes) (m : Node) (key : Key) (bb : List Bytes) :
    Option (Key × Node) → Prop
  | none => False
  | some (_, .nil) => get m key = some none
  | some (_, .value v) => get m key = some (some v)
  | some (kr, .hash h) => ∃ m', Canon m' ∧ NoEmpty m' ∧ EncOK H m' ∧ VKey kr ∧
      h = H (enc (item H m')) ∧ 32 ≤ (enc (item H m')).length ∧ get m key = get m' kr ∧
      bb = enc (item H m') :: belowBlobs H m' kr
  | some (_, .short _ _) => False
  | some (_, .full _) => False

theorem walkOK_congr (H : Bytes → Bytes) {m c : Node} {key r : Key} (h : get m key = get c r)
    {bb : List Bytes} {res : Option (Key × Node)} (hw : WalkOK H c r bb res) :
    WalkOK H m key bb res := by
  cases res with
  | none => exact hw
  | some p =>
    rcases p with ⟨kr, n⟩
    cases n with
    | nil => simp only [WalkOK] at hw ⊢; rw [h]; exact hw
    | value v => simp only [WalkOK] at hw ⊢; rw [h]; exact hw
    | hash hh =>
      simp only [WalkOK] at hw ⊢
      obtain ⟨m', a, b, c', d, e, f, g, g2⟩ := hw
      exact ⟨m', a, b, c', d, e, f, by rw [h]; exact g, g2⟩
    | short _ _ => exact hw
    | full _ => exact hw

/-- stepping into a (normal-form) child through its reference -/
theorem walk_child (H : Bytes → Bytes) {c : Node} (hc : Canon c) (hne : NoEmpty c)
    (hok : EncOK H c) {r : Key} (hr : VKey r)
    (ih : WalkOK H c r (belowBlobs H c r) (pget (coll H c) r)) :
    WalkOK H c r (selfBlobs H c r) (pget (embed H c (coll H c)) r) := by
  rw [embed_canon H hc, selfBlobs_canon H hc]
  by_cases hs : (enc (item H c)).length < 32
  · simp only [hs, if_true, List.nil_append]; exact ih
  · simp only [hs, if_false, pget, WalkOK]
    exact ⟨c, hc, hne, hok, hr, rfl, by omega, rfl, rfl⟩

/-- WALK: `pget` on the decoded form of a real node follows `get` on the real node -/
theorem walk (H : Bytes → Bytes) : ∀ m, Canon m → NoEmpty m → EncOK H m → ∀ key, VKey key →
    WalkOK H m key (belowBlobs H m key) (pget (coll H m) key) := by
  intro m
  induction m with
  | nil => intro h; exact absurd h (by simp [Canon])
  | value v => intro h; exact absurd h (by simp [Canon])
  | hash h => intro h; exact absurd h (by simp [Canon])
  | short sk c ih =>
    intro hcan hne hok key hk
    simp only [coll, pget]
    by_cases hp : sk.isPrefixOf key = true
    · obtain ⟨r, rfl⟩ := isPrefixOf_split hp
      simp only [hp, if_true, drop_len_append]
      have hget : get (.short sk c) (sk ++ r) = get c r := get_short_append sk c r
      rw [belowBlobs_short]
      rcases hcan with ⟨hv, v, rfl⟩ | ⟨_, hn, ⟨cs, rfl⟩, hcc⟩
      · simp only [embed, coll, pget, WalkOK]
        rw [hget]; simp [get]
      · have hrne : r ≠ [] := by
          intro e; subst e
          rw [List.append_nil] at hk
          exact nibbles_not16 hn (vkey_mem16 _ hk)
        have hvr := (vkey_append sk r hk hrne).2
        have hnec : NoEmpty (.full cs) := by
          intro k hk' hg
          exact hne (sk ++ k) (vkey_nibbles_append sk k hn hk') (by rw [get_short_append]; exact hg)
        exact walkOK_congr H hget
          (walk_child H hcc hnec hok.2 hvr (ih hcc hnec hok.2 r hvr))
    · simp only [hp, WalkOK]
      simp [get, hp]
  | full cs ih =>
    intro hcan hne hok key hk
    cases key with
    | nil => exact absurd hk (by simp [VKey])
    | cons x r =>
      have hx := vkey_head_le hk
      have hxg : ¬ x > 16 := by omega
      have hget : get (.full cs) (x :: r) = get (cs x) r := get_full_cons cs x r hx
      rw [belowBlobs_full]
      simp only [coll, pget, hxg, if_false]
      by_cases h16 : x = 16
      · subst h16
        have := vkey_16 hk
        subst this
        have h1 : ¬ 16 < 16 := by omega
        simp only [h1, if_false, if_true]
        rcases hcan.2.1 with e | ⟨v, e⟩
        · rw [e]; simp only [slot16, pget, WalkOK]; rw [hget, e]; simp [get]
        · rw [e]
          by_cases hv : v = []
          · subst hv
            exfalso
            exact hne [16] (by simp [VKey]) (by rw [hget, e]; simp [get])
          · have : v.length > 0 := List.length_pos_iff.2 hv
            simp only [slot16, this, if_true, pget, WalkOK]
            rw [hget, e]; simp [get]
      · have hx' : x < 16 := by omega
        simp only [hx', if_true]
        have hvr := vkey_lt_tail hk hx'
        rcases hcan.1 x hx' with e | hcc
        · rw [e]; simp only [embed, coll, pget, WalkOK]; rw [hget, e]; simp [get]
        · have hnec : NoEmpty (cs x) := by
            intro k hk' hg
            exact hne (x :: k) ((vkey_cons (vkey_ne_nil hk')).2 ⟨hx', hk'⟩) (by
              rw [get_full_cons cs x k hx]; exact hg)
          exact walkOK_congr H hget
            (walk_child H hcc hnec (hok.2 x) hvr (ih x hcc hnec (hok.2 x) r hvr))

theorem lookup_hash {H : Bytes → Bytes} {proof : List Bytes} {h buf : Bytes}
    (hl : lookup H proof h = some buf) : H buf = h ∧ buf ∈ proof := by
  unfold lookup at hl
  have h1 := List.find?_some hl
  have h2 := List.mem_of_find?_eq_some hl
  exact ⟨by simpa using h1, by simpa using h2⟩

/-- LOOP SOUNDNESS: started at the hash of a real (normal-form) node, the verification loop
returns what `get` returns on that node, or a collision of `H` is exhibited (the proof blob that
was looked up versus the genuine encoding of the node) -/
theorem verifyLoop_sound (H : Bytes → Bytes) (hlen : ∀ x, (H x).length = 32) (proof : List Bytes) :
    ∀ (fuel : Nat) (m : Node) (key : Key), Canon m → NoEmpty m → EncOK H m → VKey key →
      (∀ v, verifyLoop H proof fuel (H (enc (item H m))) key = .val v →
        get m key = some (some v) ∨ Collision H) ∧
      (verifyLoop H proof fuel (H (enc (item H m))) key = .absent →
        get m key = some none ∨ Collision H) := by
  intro fuel
  induction fuel with
  | zero => intro m key _ _ _ _; simp [verifyLoop]
  | succ f ih =>
    intro m key hcan hne hok hk
    simp only [verifyLoop]
    cases hl : lookup H proof (H (enc (item H m))) with
    | none => simp
    | some buf =>
      obtain ⟨hh, _⟩ := lookup_hash hl
      by_cases hb : buf = enc (item H m)
      · subst hb
        have hdec := decodeNode_enc H hlen m hcan hok (2 * (enc (item H m)).length + 2) [] (by omega)
        rw [List.append_nil] at hdec
        simp only [hdec]
        have hw := walk H m hcan hne hok key hk
        cases hp : pget (coll H m) key with
        | none => rw [hp] at hw; exact absurd hw (by simp [WalkOK])
        | some p =>
          rcases p with ⟨kr, n⟩
          rw [hp] at hw
          cases n with
          | nil =>
            simp only [WalkOK] at hw
            exact ⟨(by intro v h; cases h), fun _ => Or.inl hw⟩
          | value v' =>
            simp only [WalkOK] at hw
            refine ⟨?_, (by intro h; cases h)⟩
            intro v h
            simp only [VRes.val.injEq] at h
            subst h; exact Or.inl hw
          | hash h' =>
            simp only [WalkOK] at hw
            obtain ⟨m', c1, c2, c3, c4, c5, _, c7, _⟩ := hw
            subst c5
            have := ih m' kr c1 c2 c3 c4
            rw [c7]; exact this
          | short _ _ => exact absurd hw (by simp [WalkOK])
          | full _ => exact absurd hw (by simp [WalkOK])
      · have hc : Collision H := ⟨buf, enc (item H m), hb, hh⟩
        exact ⟨fun _ _ => Or.inr hc, fun _ => Or.inr hc⟩

end KV.Trie
