import KV.Proofs.CsBase
/-! The invariant of `Cs.step` behind C03 (1), (2), (4), (5): the signature log is sorted and
below the current (height, round, step); every logged action is justified by the vote sets and
the blocks seen; the locked block and the proposal block were assembled at this height. -/
namespace KV.Cs

/-- a complete block `b` with a positive `ValidateBlock` answer was assembled at height `h` -/
def validSeen (seen : List (Nat × Blk)) (h b : Nat) : Prop :=
  ∃ blk, (h, blk) ∈ seen ∧ blk.id = b ∧ blk.ok = true

/-- justification of a logged action by the node's own vote sets and received blocks -/
def Good (powers : List Nat) (votes : List RoundVotes) (seen : List (Nat × Blk)) : Action → Prop
  | .signVote .precommit h r (some b) => quorum powers votes .prevote h r (some b) ∧ validSeen seen h b
  | .signVote .prevote h _ (some b) => validSeen seen h b
  | .commit h b => (∃ r, quorum powers votes .precommit h r (some b)) ∧ validSeen seen h b
  | _ => True

theorem Good.mono {powers : List Nat} {v v' : List RoundVotes} {s s' : List (Nat × Blk)} {a : Action}
    (hv : VLe powers v v') (hs : ∀ x, x ∈ s → x ∈ s') (h : Good powers v s a) : Good powers v' s' a := by
  have vs : ∀ h b, validSeen s h b → validSeen s' h b := by
    rintro h b ⟨blk, h1, h2, h3⟩; exact ⟨blk, hs _ h1, h2, h3⟩
  cases a with
  | signVote t h r tgt =>
    cases t <;> cases tgt <;> simp only [Good] at * <;> try trivial
    · exact vs _ _ h
    · exact ⟨hv _ _ _ _ h.1, vs _ _ h.2⟩
  | commit h b =>
    simp only [Good] at *
    obtain ⟨⟨r, hq⟩, h2⟩ := h
    exact ⟨⟨r, hv _ _ _ _ hq⟩, vs _ _ h2⟩
  | _ => trivial

/-- the invariant, with the position of the signature log given explicitly (`s` is the step
threshold reached so far in the current round) -/
structure InvP (cfg : Config) (σ : State) (s : Nat) : Prop where
  si : SI σ.height σ.round s σ.log
  ag : ∀ a ∈ σ.log, Good cfg.powers σ.votes σ.seen a
  lk : ∀ blk, σ.locked = some blk → blk.ok = true ∧ (σ.height, blk) ∈ σ.seen
  pb : ∀ blk, σ.pblock = some blk → (σ.height, blk) ∈ σ.seen
  /-- every timeout handed to the ticker is for a (height, round) not after the current one -/
  sc : ∀ x ∈ σ.sched, le3 x.1 x.2.1 0 σ.height σ.round 0
  /-- rounds start at 1 -/
  r1 : 1 ≤ σ.round

abbrev Inv (cfg : Config) (σ : State) : Prop := InvP cfg σ σ.step.toNat

/-- transfer along an update that keeps height/log/sched, does not decrease the round (resp.
the step threshold when the round is kept) and lets votes / seen blocks grow -/
theorem InvP.of_le {cfg : Config} {σ σ' : State} {s s' : Nat} (I : InvP cfg σ s)
    (hh : σ'.height = σ.height) (hr : σ.round < σ'.round ∨ (σ'.round = σ.round ∧ s ≤ s')) (hl : σ'.log = σ.log)
    (hsc : σ'.sched = σ.sched)
    (hv : VLe cfg.powers σ.votes σ'.votes) (hse : ∀ x, x ∈ σ.seen → x ∈ σ'.seen)
    (hlk : ∀ blk, σ'.locked = some blk → blk.ok = true ∧ (σ.height, blk) ∈ σ'.seen)
    (hpb : ∀ blk, σ'.pblock = some blk → (σ.height, blk) ∈ σ'.seen) : InvP cfg σ' s' := by
  refine ⟨?_, ?_, ?_, ?_, ?_, ?_⟩
  · rw [hh, hl]; exact I.si.mono (by unfold le3; omega)
  · rw [hl]; exact fun a ha => (I.ag a ha).mono hv hse
  · rw [hh]; exact hlk
  · rw [hh]; exact hpb
  · rw [hsc, hh]; intro x hx
    have := I.sc x hx
    unfold le3 at *; omega
  · have := I.r1; omega

/-- transfer along an update that keeps height/round/log/votes/seen/sched -/
theorem InvP.of_eq {cfg : Config} {σ σ' : State} {s s' : Nat} (I : InvP cfg σ s)
    (hh : σ'.height = σ.height) (hr : σ'.round = σ.round) (hs : s ≤ s') (hl : σ'.log = σ.log)
    (hv : σ'.votes = σ.votes) (hse : σ'.seen = σ.seen) (hsc : σ'.sched = σ.sched)
    (hlk : ∀ blk, σ'.locked = some blk → blk.ok = true ∧ (σ.height, blk) ∈ σ.seen)
    (hpb : ∀ blk, σ'.pblock = some blk → (σ.height, blk) ∈ σ.seen) : InvP cfg σ' s' :=
  I.of_le hh (Or.inr ⟨hr, hs⟩) hl hsc (by rw [hv]; exact VLe.refl _ _) (by rw [hse]; exact fun _ h => h)
    (by rw [hse]; exact hlk) (by rw [hse]; exact hpb)

/-- an action without signature rank is appended -/
theorem InvP.emit_none {cfg : Config} {σ : State} {s : Nat} (I : InvP cfg σ s) (a : Action) (ha : rk a = none)
    (hg : Good cfg.powers σ.votes σ.seen a) : InvP cfg (emit a σ) s :=
  ⟨I.si.cons_none ha, by
    intro b hb
    rcases List.mem_cons.mp hb with rfl | hb
    · exact hg
    · exact I.ag b hb, I.lk, I.pb, I.sc, I.r1⟩

theorem InvP.schedule {cfg : Config} {σ : State} {s : Nat} (I : InvP cfg σ s) (h r : Nat) (st : Step)
    (hle : le3 h r 0 σ.height σ.round 0) : InvP cfg (schedule h r st σ) s :=
  ⟨I.si.cons_none rfl, by
    intro b hb
    rcases List.mem_cons.mp hb with rfl | hb
    · trivial
    · exact I.ag b hb, I.lk, I.pb, by
    intro x hx
    rcases List.mem_cons.mp hx with rfl | hx
    · exact hle
    · exact I.sc x hx, I.r1⟩

def thrOf : VType → Nat
  | .prevote => 4
  | .precommit => 6

/-- `signAddVote` below the threshold of its type moves the position to the threshold -/
theorem InvP.sign {cfg : Config} {σ : State} {s : Nat} (I : InvP cfg σ s) (t : VType) (tgt : Target)
    (hlt : s < thrOf t) (hg : Good cfg.powers σ.votes σ.seen (.signVote t σ.height σ.round tgt)) :
    InvP cfg (signAddVote cfg t tgt σ) (thrOf t) := by
  unfold signAddVote
  split
  · refine ⟨?_, ?_, I.lk, I.pb, I.sc, I.r1⟩
    · have hrk : rk (.signVote t σ.height σ.round tgt) = some (σ.height, σ.round, thrOf t) := by
        cases t <;> rfl
      show SI σ.height σ.round (thrOf t) (_ :: σ.log)
      exact I.si.cons_sign hrk (by unfold lt3; omega)
    · intro b hb
      rcases List.mem_cons.mp hb with rfl | hb
      · exact hg
      · exact I.ag b hb
  · exact I.of_eq rfl rfl (by omega) rfl rfl rfl rfl I.lk I.pb

/-! ### frame facts -/

@[simp] theorem emit_height (a : Action) (σ : State) : (emit a σ).height = σ.height := rfl
@[simp] theorem emit_round (a : Action) (σ : State) : (emit a σ).round = σ.round := rfl
@[simp] theorem emit_step (a : Action) (σ : State) : (emit a σ).step = σ.step := rfl
@[simp] theorem schedule_height (h r : Nat) (s : Step) (σ : State) : (schedule h r s σ).height = σ.height := rfl
@[simp] theorem schedule_round (h r : Nat) (s : Step) (σ : State) : (schedule h r s σ).round = σ.round := rfl
@[simp] theorem schedule_step (h r : Nat) (s : Step) (σ : State) : (schedule h r s σ).step = σ.step := rfl

@[simp] theorem signAddVote_height (cfg : Config) (t : VType) (tgt : Target) (σ : State) :
    (signAddVote cfg t tgt σ).height = σ.height := by unfold signAddVote; split <;> rfl
@[simp] theorem signAddVote_round (cfg : Config) (t : VType) (tgt : Target) (σ : State) :
    (signAddVote cfg t tgt σ).round = σ.round := by unfold signAddVote; split <;> rfl

@[simp] theorem doPrevote_height (cfg : Config) (σ : State) : (doPrevote cfg σ).height = σ.height := by
  unfold doPrevote; (repeat' split) <;> simp
@[simp] theorem doPrevote_round (cfg : Config) (σ : State) : (doPrevote cfg σ).round = σ.round := by
  unfold doPrevote; (repeat' split) <;> simp

@[simp] theorem precommitUnknown_height (cfg : Config) (b : Nat) (σ : State) :
    (precommitUnknown cfg b σ).height = σ.height := by
  unfold precommitUnknown unlock; simp only [signAddVote_height]; split <;> rfl
@[simp] theorem precommitUnknown_round (cfg : Config) (b : Nat) (σ : State) :
    (precommitUnknown cfg b σ).round = σ.round := by
  unfold precommitUnknown unlock; simp only [signAddVote_round]; split <;> rfl

@[simp] theorem doPrecommit_height (cfg : Config) (r : Nat) (σ : State) : (doPrecommit cfg r σ).height = σ.height := by
  unfold doPrecommit unlock; (repeat' split) <;> simp
@[simp] theorem doPrecommit_round (cfg : Config) (r : Nat) (σ : State) : (doPrecommit cfg r σ).round = σ.round := by
  unfold doPrecommit unlock; (repeat' split) <;> simp

/-! ### prevote -/

theorem doPrevote_inv {cfg : Config} {σ : State} {s : Nat} (I : InvP cfg σ s) (hs : s < 4) :
    InvP cfg (doPrevote cfg σ) 4 := by
  unfold doPrevote
  split
  · rename_i blk hl
    have := I.lk blk hl
    exact I.sign .prevote _ hs ⟨blk, this.2, rfl, this.1⟩
  · split
    · exact I.sign .prevote _ hs trivial
    · rename_i blk hp
      split
      · rename_i hok
        exact I.sign .prevote _ hs ⟨blk, I.pb blk hp, rfl, hok⟩
      · exact I.sign .prevote _ hs trivial

theorem enterPrevote_inv {cfg : Config} {σ : State} (I : Inv cfg σ) (h r : Nat) (hr : r ≤ σ.round) :
    Inv cfg (enterPrevote cfg h r σ) := by
  unfold enterPrevote
  split
  · exact I
  · rename_i hg
    have hrr : r = σ.round := by omega
    have hst : σ.step.toNat < 4 := by
      simp only [Step.toNat] at hg ⊢; omega
    have J := doPrevote_inv I hst
    exact J.of_eq rfl (by simp [hrr]) (by simp [Step.toNat]) rfl rfl rfl rfl J.lk J.pb

theorem enterPrevoteWait_inv {cfg : Config} {σ : State} (I : Inv cfg σ) (h r : Nat) (hr : r ≤ σ.round) :
    Inv cfg (enterPrevoteWait h r σ) := by
  unfold enterPrevoteWait
  split
  · exact I
  · rename_i hg
    have hrr : r = σ.round := by omega
    have hst : σ.step.toNat < 5 := by
      simp only [Step.toNat] at hg ⊢; omega
    have hh : h = σ.height := by omega
    have J := I.schedule h r .prevoteWait (by unfold le3; omega)
    exact J.of_eq rfl (by simp [hrr]) (by show σ.step.toNat ≤ 5; omega) rfl rfl rfl rfl J.lk J.pb

theorem enterPrecommitWait_inv {cfg : Config} {σ : State} (I : Inv cfg σ) (h r : Nat) :
    Inv cfg (enterPrecommitWait h r σ) := by
  unfold enterPrecommitWait
  split
  · exact I
  · rename_i hg
    have J := I.schedule h r .precommitWait (by unfold le3; omega)
    exact J.of_eq rfl rfl (Nat.le_refl _) rfl rfl rfl rfl J.lk J.pb

/-! ### precommit -/

theorem unlock_inv {cfg : Config} {σ : State} {s : Nat} (I : InvP cfg σ s) : InvP cfg (unlock σ) s :=
  I.of_eq rfl rfl (Nat.le_refl _) rfl rfl rfl rfl (by intro blk h; cases h) I.pb

theorem precommitUnknown_inv {cfg : Config} {σ : State} {s : Nat} (I : InvP cfg σ s) (b : Nat) (hs : s < 6) :
    InvP cfg (precommitUnknown cfg b σ) 6 := by
  unfold precommitUnknown
  have J := unlock_inv I
  simp only
  split
  · exact J.sign .precommit none hs trivial
  · have K : InvP cfg { unlock σ with pblock := none, parts := some (b, false) } s :=
      J.of_eq rfl rfl (Nat.le_refl _) rfl rfl rfl rfl J.lk (by intro blk h; cases h)
    exact K.sign .precommit none hs trivial

theorem doPrecommit_inv {cfg : Config} {σ : State} {s : Nat} (I : InvP cfg σ s) (hs : s < 6) :
    InvP cfg (doPrecommit cfg σ.round σ) 6 := by
  unfold doPrecommit
  split
  · exact I.sign .precommit none hs trivial
  · split
    · exact I.sign .precommit none hs trivial
    · exact (unlock_inv I).sign .precommit none hs trivial
  · rename_i b hm
    have hq : quorum cfg.powers σ.votes .prevote σ.height σ.round (some b) := maj23_sound hm
    split
    · -- relock
      rename_i hid
      unfold idIs at hid
      split at hid
      · rename_i blk hl
        have hb : blk.id = b := by simpa using hid
        have := I.lk blk hl
        have K : InvP cfg { σ with lockedRound := σ.round } s :=
          I.of_eq rfl rfl (Nat.le_refl _) rfl rfl rfl rfl I.lk I.pb
        exact K.sign .precommit (some b) hs ⟨hq, blk, this.2, hb, this.1⟩
      · cases hid
    · split
      · rename_i blk hp
        split
        · rename_i hb
          have hb : blk.id = b := by simpa using hb
          split
          · rename_i hok
            have hseen := I.pb blk hp
            have K : InvP cfg { σ with lockedRound := σ.round, locked := some blk } s :=
              I.of_eq rfl rfl (Nat.le_refl _) rfl rfl rfl rfl
                (by intro b' h'; cases h'; exact ⟨hok, hseen⟩) I.pb
            exact K.sign .precommit (some b) hs ⟨hq, blk, hseen, hb, hok⟩
          · exact I.sign .precommit none hs trivial
        · exact precommitUnknown_inv I b hs
      · exact precommitUnknown_inv I b hs

/-- for a round that is not later than the current one the commit-step test of `enterPrecommit`
(F37 fix) is subsumed by the guard: in the commit step of round `r` the guard holds -/
theorem enterPrecommit_le (cfg : Config) (h r : Nat) (σ : State) (hr : r ≤ σ.round) :
    enterPrecommit cfg h r σ =
      if σ.height ≠ h ∨ r < σ.round ∨ (σ.round = r ∧ Step.precommit.toNat ≤ σ.step.toNat) then σ
      else { doPrecommit cfg r σ with round := r, step := .precommit } := by
  unfold enterPrecommit
  by_cases hg : σ.height ≠ h ∨ r < σ.round ∨ (σ.round = r ∧ Step.precommit.toNat ≤ σ.step.toNat)
  · rw [if_pos hg, if_pos hg]
  · rw [if_neg hg, if_neg hg, if_neg]
    intro hc
    apply hg
    refine Or.inr (Or.inr ⟨by omega, ?_⟩)
    rw [hc]; decide

/-- `enterPrecommit` does nothing in the commit step (F37 fix) -/
theorem enterPrecommit_commit (cfg : Config) (h r : Nat) (σ : State) (hc : σ.step = .commit) :
    enterPrecommit cfg h r σ = σ := by
  unfold enterPrecommit
  by_cases hg : σ.height ≠ h ∨ r < σ.round ∨ (σ.round = r ∧ Step.precommit.toNat ≤ σ.step.toNat)
  · rw [if_pos hg]
  · rw [if_neg hg, if_pos hc]

/-- `hr` is only needed when the node is not in the commit step (F37: there `enterPrecommit` returns) -/
theorem enterPrecommit_inv' {cfg : Config} {σ : State} (I : Inv cfg σ) (h r : Nat)
    (hr : σ.step ≠ .commit → r ≤ σ.round) : Inv cfg (enterPrecommit cfg h r σ) := by
  unfold enterPrecommit
  split
  · exact I
  · split
    · exact I
    · rename_i hg hc
      have hrr : r = σ.round := by have := hr hc; omega
      have hst : σ.step.toNat < 6 := by
        simp only [Step.toNat] at hg ⊢; omega
      subst hrr
      have J := doPrecommit_inv I hst
      exact J.of_eq rfl (by simp) (by simp [Step.toNat]) rfl rfl rfl rfl J.lk J.pb

theorem enterPrecommit_inv {cfg : Config} {σ : State} (I : Inv cfg σ) (h r : Nat) (hr : r ≤ σ.round) :
    Inv cfg (enterPrecommit cfg h r σ) := enterPrecommit_inv' I h r (fun _ => hr)

end KV.Cs
