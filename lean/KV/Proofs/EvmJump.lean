import KV.Model.Evm
/-! `validJumpdest` / `codeBitmap` against the declarative definition of "inside push data". -/
namespace KV.Evm

/-- instruction boundaries of the linear scan from position 0 -/
inductive InstrStart (code : Bytes) : Nat → Prop
  | zero : InstrStart code 0
  | next {p : Nat} : InstrStart code p → p < code.length → InstrStart code (p + 1 + pushLen (getOp code p))

/-- `d` lies in the immediate data of a PUSH instruction found by the scan -/
def InsidePush (code : Bytes) (d : Nat) : Prop :=
  ∃ p, InstrStart code p ∧ p < code.length ∧ p < d ∧ d ≤ p + pushLen (getOp code p)

theorem dataMask_length : ∀ (c : Bytes) (k : Nat), (dataMask c k).length = c.length
  | [], _ => by simp [dataMask]
  | b :: rest, 0 => by simp [dataMask, dataMask_length rest]
  | b :: rest, k + 1 => by simp [dataMask, dataMask_length rest]

theorem dataMask_drop : ∀ (k : Nat) (c : Bytes), (dataMask c k).drop k = dataMask (c.drop k) 0
  | 0, c => by simp
  | k + 1, [] => by simp [dataMask]
  | k + 1, b :: rest => by simp [dataMask, dataMask_drop k rest]

theorem dataMask_data : ∀ (j k : Nat) (c : Bytes), j < k → j < c.length → (dataMask c k)[j]? = some true
  | _, 0, _, h, _ => by omega
  | _, k + 1, [], _, h => by simp at h
  | 0, k + 1, b :: rest, _, _ => by simp [dataMask]
  | j + 1, k + 1, b :: rest, h1, h2 => by
    simp only [dataMask, List.getElem?_cons_succ]
    exact dataMask_data j k rest (by omega) (by simpa using h2)

theorem drop_eq_cons {code : Bytes} {p : Nat} (h : p < code.length) :
    code.drop p = getOp code p :: code.drop (p + 1) := by
  rw [List.drop_eq_getElem_cons h]
  simp [getOp, h]

theorem instrStart_drop {code : Bytes} {p : Nat} (h : InstrStart code p) :
    (dataMask code 0).drop p = dataMask (code.drop p) 0 := by
  induction h with
  | zero => simp
  | next hp hlt ih =>
    rename_i p
    have e : (dataMask code 0).drop (p + 1 + pushLen (getOp code p))
        = ((dataMask code 0).drop p).drop (1 + pushLen (getOp code p)) := by
      rw [List.drop_drop]; congr 1; omega
    rw [e, ih, drop_eq_cons hlt]
    simp only [dataMask]
    rw [Nat.add_comm 1, List.drop_succ_cons, dataMask_drop, List.drop_drop]
    all_goals (first | rfl | (congr 2; omega))

theorem mask_at_start {code : Bytes} {p : Nat} (h : InstrStart code p) (hlt : p < code.length) :
    (dataMask code 0)[p]? = some false := by
  have := instrStart_drop h
  rw [drop_eq_cons hlt] at this
  simp only [dataMask] at this
  have e : (dataMask code 0)[p]? = ((dataMask code 0).drop p)[0]? := by simp
  rw [e, this]; simp

theorem mask_in_push {code : Bytes} {p d : Nat} (h : InstrStart code p) (hlt : p < code.length)
    (h1 : p < d) (h2 : d ≤ p + pushLen (getOp code p)) (h3 : d < code.length) :
    (dataMask code 0)[d]? = some true := by
  have := instrStart_drop h
  rw [drop_eq_cons hlt] at this
  simp only [dataMask] at this
  have e : (dataMask code 0)[d]? = ((dataMask code 0).drop p)[d - p]? := by
    simp; congr 1; omega
  rw [e, this]
  have e2 : d - p = (d - p - 1) + 1 := by omega
  rw [e2, List.getElem?_cons_succ]
  apply dataMask_data
  · omega
  · simp; omega

/-- every position below the code length is an instruction start or inside push data -/
theorem start_or_inside {code : Bytes} {d : Nat} (hd : d < code.length) :
    ∀ (n p : Nat), InstrStart code p → p ≤ d → d - p ≤ n → InstrStart code d ∨ InsidePush code d := by
  intro n
  induction n with
  | zero =>
    intro p hp h1 h2
    have : p = d := by omega
    subst this; exact Or.inl hp
  | succ n ih =>
    intro p hp h1 h2
    by_cases hpd : p = d
    · subst hpd; exact Or.inl hp
    · have hlt : p < code.length := by omega
      by_cases hin : d ≤ p + pushLen (getOp code p)
      · exact Or.inr ⟨p, hp, hlt, by omega, hin⟩
      · exact ih (p + 1 + pushLen (getOp code p)) (InstrStart.next hp hlt) (by omega) (by omega)

theorem validJumpdest_iff (code : Bytes) (d : Nat) :
    validJumpdest code d = true ↔ d < U64 ∧ code[d]? = some 0x5b ∧ ¬ InsidePush code d := by
  unfold validJumpdest
  constructor
  · intro h
    split at h; · cases h
    rename_i h1
    split at h; · cases h
    rename_i h2
    have h1' := not_or.mp h1
    have hlt : d < code.length := Nat.lt_of_not_ge h1'.2
    have hU : d < U64 := Nat.lt_of_not_ge h1'.1
    have hc : code[d]? = some 0x5b := by simpa using h2
    refine ⟨hU, hc, ?_⟩
    rintro ⟨p, hp, hpl, hpd, hdp⟩
    have := mask_in_push hp hpl hpd hdp hlt
    rw [this] at h
    simp at h
  · rintro ⟨h1, h2, h3⟩
    have hlt : d < code.length := by
      rcases Nat.lt_or_ge d code.length with h | h
      · exact h
      · rw [List.getElem?_eq_none h] at h2; cases h2
    rw [if_neg (by intro hh; rcases hh with hh | hh; exact absurd h1 (Nat.not_lt.mpr hh); exact absurd hlt (Nat.not_lt.mpr hh))]
    rw [if_neg (by simp [h2])]
    rcases start_or_inside hlt d 0 InstrStart.zero (by omega) (by omega) with hs | hi
    · rw [mask_at_start hs hlt]; simp
    · exact absurd hi h3

end KV.Evm
