import KV.Proofs.ValSetUpdate
/-! the verification phase of `updateWithChangeSet` assembled (C12 `update_rejects_iff`) -/
namespace KV.ValSet
open KV.I64

/-- everything after the verification phase of `updateWithChangeSet` -/
def updateTail (vs : ValSet) (updates deletes : List Validator) (U : Int) : Except Err ValSet :=
  let ups := computeNewPriorities updates vs.vals U
  let l2 := applyRemovals (applyUpdates vs.vals ups) deletes
  match sumPowers l2 with
  | none => .error .panic
  | some T =>
    if l2.isEmpty then .error .panic
    else
      let D := I64.mul windowFactor T
      if rescalePanics D l2 then .error .panic
      else
        let l4 := shiftList (rescaleList D l2)
        .ok { vals := isort lePower l4, proposer := vs.proposer, total := T }

theorem update_unfold (vs : ValSet) (cs : List Validator) (hne : cs ≠ []) :
    updateWithChangeSet vs cs true =
      match processChanges cs with
      | .error e => .error e
      | .ok (updates, deletes) =>
        match verifyRemovals vs.vals 0 deletes with
        | .error e => .error e
        | .ok removed =>
          if deletes.length > vs.vals.length then .error .panic
          else match totalOf vs with
            | none => .error .panic
            | some T0 =>
              match verifyUpdates updates vs.vals T0 removed with
              | .error e => .error e
              | .ok U =>
                if numNew updates vs.vals = 0 && vs.vals.length = deletes.length then .error .empty
                else updateTail vs updates deletes U := by
  have : cs.isEmpty = false := by cases cs with | nil => exact absurd rfl hne | cons _ _ => rfl
  unfold updateWithChangeSet updateTail
  simp only [this]
  rfl

/-! ## counting -/

theorem nodup_subset_length (as bs : List Nat) (hn : as.Nodup) (hs : ∀ a ∈ as, a ∈ bs) :
    as.length ≤ bs.length := by
  induction as generalizing bs with
  | nil => simp
  | cons a as ih =>
    rw [List.nodup_cons] at hn
    have ha := hs a List.mem_cons_self
    have hp := List.perm_cons_erase ha
    have := ih (bs.erase a) hn.2 (fun x hx => by
      have hxb := hs x (List.mem_cons_of_mem _ hx)
      have : x ≠ a := fun e => hn.1 (e ▸ hx)
      exact (List.mem_erase_of_ne this).mpr hxb)
    have hl := hp.length_eq
    simp only [List.length_cons] at hl ⊢; omega

theorem nodup_subset_of_length (as bs : List Nat) (hn : as.Nodup) (hs : ∀ a ∈ as, a ∈ bs)
    (hl : bs.length ≤ as.length) : ∀ b ∈ bs, b ∈ as := by
  induction as generalizing bs with
  | nil =>
    intro b hb
    have : bs = [] := List.eq_nil_of_length_eq_zero (by simpa using hl)
    rw [this] at hb; cases hb
  | cons a as ih =>
    rw [List.nodup_cons] at hn
    have ha := hs a List.mem_cons_self
    have hp := List.perm_cons_erase ha
    have hlen := hp.length_eq
    simp only [List.length_cons] at hlen hl
    have := ih (bs.erase a) hn.2 (fun x hx => by
      have hxb := hs x (List.mem_cons_of_mem _ hx)
      have : x ≠ a := fun e => hn.1 (e ▸ hx)
      exact (List.mem_erase_of_ne this).mpr hxb) (by omega)
    intro b hb
    by_cases e : b = a
    · rw [e]; exact List.mem_cons_self
    · exact List.mem_cons_of_mem _ (this b ((List.mem_erase_of_ne e).mpr hb))

theorem power_le_total (l : List Validator) (hp : ∀ v ∈ l, 0 ≤ v.power) (v : Validator) (hv : v ∈ l) :
    v.power ≤ sumBy (·.power) l := by
  induction l with
  | nil => cases hv
  | cons x xs ih =>
    have hx := hp x List.mem_cons_self
    have hrest := sumBy_nonneg (·.power) xs (fun y hy => hp y (List.mem_cons_of_mem _ hy))
    rw [sumBy_cons]
    rcases List.mem_cons.mp hv with rfl | hv
    · omega
    · have := ih (fun y hy => hp y (List.mem_cons_of_mem _ hy)) hv; omega

theorem totalOf_wf (vs : ValSet) (hpos : ∀ v ∈ vs.vals, 0 < v.power)
    (htot : vs.total = Spec.total vs.vals) : totalOf vs = some vs.total := by
  unfold totalOf
  by_cases h0 : vs.total = 0
  · rw [if_pos h0]
    cases hv : vs.vals with
    | nil => rw [h0]; rfl
    | cons x xs =>
      exfalso
      rw [hv] at hpos htot
      have := hpos x List.mem_cons_self
      have := sumBy_nonneg (·.power) xs (fun y hy => Int.le_of_lt (hpos y (List.mem_cons_of_mem _ hy)))
      rw [total_eq_sumBy, sumBy_cons] at htot; omega
  · rw [if_neg h0]

theorem mem_updatesOf (l : List Validator) (c : Validator) : c ∈ updatesOf l ↔ c ∈ l ∧ c.power ≠ 0 := by
  simp [updatesOf]
theorem mem_deletesOf (l : List Validator) (c : Validator) : c ∈ deletesOf l ↔ c ∈ l ∧ c.power = 0 := by
  simp [deletesOf]

theorem nodup_map_filter (l : List Validator) (p : Validator → Bool) (h : (l.map (·.addr)).Nodup) :
    ((l.filter p).map (·.addr)).Nodup :=
  ((List.filter_sublist (l := l) (p := p)).map (fun x : Validator => x.addr)).nodup h


/-- resulting total of an update: members that are not mentioned keep their power, every change
contributes its (new) power -/
def newTotal (vals cs : List Validator) : Int :=
  sumBy (·.power) (vals.filter fun v => (findVal cs v.addr).isNone) + sumBy (·.power) cs

/-- **the verification phase**, on a well-formed set and an acceptable change list whose removals
are all members: the update fails with `overflow` iff the resulting total exceeds the cap, else
with `empty` iff the code's emptiness test fires, else it continues with `updateTail`. -/
theorem update_verified (vs : ValSet) (cs : List Validator) (hne : cs ≠ [])
    (hn : (vs.vals.map (·.addr)).Nodup) (hpos : ∀ v ∈ vs.vals, 0 < v.power)
    (htot : vs.total = Spec.total vs.vals) (hcap : vs.total ≤ cap)
    (hvalid : ValidChanges cs)
    (hknown : ∀ c ∈ cs, c.power = 0 → findVal vs.vals c.addr ≠ none) :
    updateWithChangeSet vs cs true =
      if cap < newTotal vs.vals cs then .error .overflow
      else if numNew (updatesOf (isort leAddr cs)) vs.vals = 0 &&
          vs.vals.length = (deletesOf (isort leAddr cs)).length then .error .empty
      else updateTail vs (updatesOf (isort leAddr cs)) (deletesOf (isort leAddr cs))
        (newTotal vs.vals cs + sumBy (fun c => oldPow vs.vals c.addr) (deletesOf (isort leAddr cs))) := by
  obtain ⟨hcn, hcz, hcp⟩ := hvalid
  have hperm := isort_perm leAddr cs
  have hsn : ((isort leAddr cs).map (·.addr)).Nodup := (hperm.map (·.addr)).nodup_iff.mpr hcn
  have hnn : ∀ v ∈ vs.vals, 0 ≤ v.power := fun v hv => Int.le_of_lt (hpos v hv)
  have hT : vs.total = sumBy (·.power) vs.vals := htot
  have hvb : ∀ v ∈ vs.vals, 0 ≤ v.power ∧ v.power ≤ cap := fun v hv =>
    ⟨hnn v hv, by have := power_le_total vs.vals hnn v hv; omega⟩
  have hold0 : ∀ a, 0 ≤ oldPow vs.vals a := oldPow_nonneg vs.vals hnn
  -- sums over the sorted change list
  have hsplit_old := sumBy_filter_split (fun c => oldPow vs.vals c.addr)
    (fun c => decide (c.power = 0)) (isort leAddr cs)
  have hsplit_pow := sumBy_filter_split (·.power) (fun c => decide (c.power = 0)) (isort leAddr cs)
  have hdz : sumBy (·.power) (deletesOf (isort leAddr cs)) = 0 :=
    sumBy_zero _ _ (fun c hc => ((mem_deletesOf _ c).mp hc).2)
  change sumBy (fun c => oldPow vs.vals c.addr) (isort leAddr cs) =
    sumBy (fun c => oldPow vs.vals c.addr) (deletesOf (isort leAddr cs)) +
    sumBy (fun c => oldPow vs.vals c.addr) (updatesOf (isort leAddr cs)) at hsplit_old
  change sumBy (·.power) (isort leAddr cs) = sumBy (·.power) (deletesOf (isort leAddr cs)) +
    sumBy (·.power) (updatesOf (isort leAddr cs)) at hsplit_pow
  have hdc := sumBy_oldPow vs.vals (isort leAddr cs) hn hsn
  have hpart := sumBy_filter_split (·.power)
    (fun v => decide (v.addr ∈ (isort leAddr cs).map (·.addr))) vs.vals
  have hkept : (vs.vals.filter fun v => !decide (v.addr ∈ (isort leAddr cs).map (·.addr))) =
      vs.vals.filter fun v => (findVal cs v.addr).isNone := by
    apply List.filter_congr
    intro v _
    have h1 := findVal_none_iff cs v.addr
    have h2 : v.addr ∈ (isort leAddr cs).map (·.addr) ↔ v.addr ∈ cs.map (·.addr) :=
      (hperm.map (·.addr)).mem_iff
    by_cases hm : v.addr ∈ cs.map (·.addr)
    · have : findVal cs v.addr ≠ none := fun e => (h1.mp e) hm
      cases hf : findVal cs v.addr with
      | none => exact absurd hf this
      | some _ => rw [decide_eq_true (h2.mpr hm)]; rfl
    · have : findVal cs v.addr = none := h1.mpr hm
      have hm' : ¬ v.addr ∈ (isort leAddr cs).map (·.addr) := fun h => hm (h2.mp h)
      rw [this, decide_eq_false hm']; rfl
  rw [hkept] at hpart
  have hcs : sumBy (·.power) (isort leAddr cs) = sumBy (·.power) cs := sumBy_perm _ hperm
  have hkeptnn : 0 ≤ sumBy (·.power) (vs.vals.filter fun v => (findVal cs v.addr).isNone) :=
    sumBy_nonneg _ _ (fun v hv => hnn v (List.mem_filter.mp hv).1)
  have hun : 0 ≤ sumBy (fun c => oldPow vs.vals c.addr) (updatesOf (isort leAddr cs)) :=
    sumBy_nonneg _ _ (fun c _ => hold0 c.addr)
  have hdn : 0 ≤ sumBy (fun c => oldPow vs.vals c.addr) (deletesOf (isort leAddr cs)) :=
    sumBy_nonneg _ _ (fun c _ => hold0 c.addr)
  -- step by step through the function
  rw [update_unfold vs cs hne, processChanges_ok cs ⟨hcn, hcz, hcp⟩]
  simp only
  have hk : ∀ d ∈ deletesOf (isort leAddr cs), findVal vs.vals d.addr ≠ none := fun d hd => by
    obtain ⟨h1, h2⟩ := (mem_deletesOf _ d).mp hd
    exact hknown d (hperm.mem_iff.mp h1) h2
  rw [verifyRemovals_ok vs.vals hnn 0 _ hk (by omega) (by unfold maxI64; unfold cap at hcap; omega)]
  simp only [Int.zero_add]
  have hlen : ¬ (deletesOf (isort leAddr cs)).length > vs.vals.length := by
    have := nodup_subset_length ((deletesOf (isort leAddr cs)).map (·.addr)) (vs.vals.map (·.addr))
      (nodup_map_filter _ _ hsn) (fun a ha => by
        obtain ⟨d, hd, rfl⟩ := List.mem_map.mp ha
        exact (findVal_isSome_iff vs.vals d.addr).mp (by
          cases hf : findVal vs.vals d.addr with
          | none => exact absurd hf (hk d hd)
          | some _ => rfl))
    simp only [List.length_map] at this; omega
  rw [if_neg hlen, totalOf_wf vs hpos htot]
  simp only
  have hupow : PowOK (updatesOf (isort leAddr cs)) := fun c hc =>
    hcp c (hperm.mem_iff.mp ((mem_updatesOf _ c).mp hc).1)
  rw [verifyUpdates_spec vs.vals _ hvb hupow vs.total _ hdn (by omega) hcap]
  have hnt : vs.total - sumBy (fun c => oldPow vs.vals c.addr) (deletesOf (isort leAddr cs)) +
      (sumBy (·.power) (updatesOf (isort leAddr cs)) -
        sumBy (fun c => oldPow vs.vals c.addr) (updatesOf (isort leAddr cs))) = newTotal vs.vals cs := by
    unfold newTotal; omega
  have hU : vs.total + (sumBy (·.power) (updatesOf (isort leAddr cs)) -
        sumBy (fun c => oldPow vs.vals c.addr) (updatesOf (isort leAddr cs))) =
      newTotal vs.vals cs + sumBy (fun c => oldPow vs.vals c.addr) (deletesOf (isort leAddr cs)) := by
    unfold newTotal; omega
  rw [hnt, hU]
  by_cases ho : cap < newTotal vs.vals cs
  · rw [if_pos (by omega), if_pos ho]
  · rw [if_neg (by omega), if_neg ho]

/-- the statement-level emptiness condition -/
def EmptiesSet (vals cs : List Validator) : Prop :=
  (∀ v ∈ vals, ∃ c ∈ cs, c.addr = v.addr ∧ c.power = 0) ∧ (∀ c ∈ cs, c.power = 0)

theorem empty_check_iff (vals cs : List Validator) (hn : (vals.map (·.addr)).Nodup)
    (hcn : (cs.map (·.addr)).Nodup)
    (hknown : ∀ c ∈ cs, c.power = 0 → findVal vals c.addr ≠ none) :
    (numNew (updatesOf (isort leAddr cs)) vals = 0 ∧ vals.length = (deletesOf (isort leAddr cs)).length) ↔
      EmptiesSet vals cs := by
  have hperm := isort_perm leAddr cs
  have hsn : ((isort leAddr cs).map (·.addr)).Nodup := (hperm.map (·.addr)).nodup_iff.mpr hcn
  have hdsub : ∀ a ∈ (deletesOf (isort leAddr cs)).map (·.addr), a ∈ vals.map (·.addr) := by
    intro a ha
    obtain ⟨d, hd, rfl⟩ := List.mem_map.mp ha
    obtain ⟨h1, h2⟩ := (mem_deletesOf _ d).mp hd
    have := hknown d (hperm.mem_iff.mp h1) h2
    exact Classical.byContradiction fun hc => this ((findVal_none_iff vals d.addr).mpr hc)
  constructor
  · rintro ⟨hnew, hlen⟩
    have hsup := nodup_subset_of_length _ _ (nodup_map_filter _ _ hsn) hdsub
      (by simp only [List.length_map]; unfold deletesOf at hlen; omega)
    have hfirst : ∀ v ∈ vals, ∃ d ∈ deletesOf (isort leAddr cs), d.addr = v.addr := by
      intro v hv
      have := hsup v.addr (List.mem_map_of_mem (f := (·.addr)) hv)
      obtain ⟨d, hd, e⟩ := List.mem_map.mp this
      exact ⟨d, hd, e⟩
    have hu : ∀ c ∈ isort leAddr cs, c.power = 0 := by
      intro c hc
      apply Classical.byContradiction
      intro hcp
      have hcu : c ∈ updatesOf (isort leAddr cs) := (mem_updatesOf _ c).mpr ⟨hc, hcp⟩
      unfold numNew at hnew
      have hnil := List.eq_nil_of_length_eq_zero hnew
      have := (List.filter_eq_nil_iff.mp hnil) c hcu
      have hsome : (findVal vals c.addr).isSome := by
        cases hf : findVal vals c.addr with
        | none => simp [hf] at this
        | some _ => rfl
      have hmem := (findVal_isSome_iff vals c.addr).mp hsome
      obtain ⟨v, hv, hva⟩ := List.mem_map.mp hmem
      obtain ⟨d, hd, hda⟩ := hfirst v hv
      obtain ⟨hd1, hd2⟩ := (mem_deletesOf _ d).mp hd
      have : c = d := eq_of_nodup_map (·.addr) _ hsn c d hc hd1 (by show c.addr = d.addr; omega)
      rw [this] at hcp; exact hcp hd2
    refine ⟨?_, fun c hc => hu c (hperm.mem_iff.mpr hc)⟩
    intro v hv
    obtain ⟨d, hd, hda⟩ := hfirst v hv
    obtain ⟨hd1, hd2⟩ := (mem_deletesOf _ d).mp hd
    exact ⟨d, hperm.mem_iff.mp hd1, hda, hd2⟩
  · rintro ⟨h1, h2⟩
    have hunil : updatesOf (isort leAddr cs) = [] := by
      apply List.filter_eq_nil_iff.mpr
      intro c hc; simp [h2 c (hperm.mem_iff.mp hc)]
    have hdall : deletesOf (isort leAddr cs) = isort leAddr cs := by
      apply List.filter_eq_self.mpr
      intro c hc; simp [h2 c (hperm.mem_iff.mp hc)]
    refine ⟨by rw [hunil]; rfl, ?_⟩
    rw [hdall]
    have l1 := nodup_subset_length (vals.map (·.addr)) ((isort leAddr cs).map (·.addr)) hn (by
      intro a ha
      obtain ⟨v, hv, rfl⟩ := List.mem_map.mp ha
      obtain ⟨c, hc, hca, _⟩ := h1 v hv
      exact List.mem_map.mpr ⟨c, hperm.mem_iff.mpr hc, hca⟩)
    have l2 := nodup_subset_length ((isort leAddr cs).map (·.addr)) (vals.map (·.addr)) hsn (by
      rw [← hdall]; exact hdsub)
    simp only [List.length_map] at l1 l2; omega


theorem updateTail_error_class (vs : ValSet) (u d : List Validator) (U : Int) (e : Err)
    (h : updateTail vs u d U = .error e) : e = .panic := by
  simp only [updateTail] at h
  repeat' split at h
  all_goals first
    | (injection h with h; exact h.symm)
    | (injection h)

/-- **`update_rejects_iff`, verification part**: on a well-formed set a non-empty change list is
rejected by one of the verification steps (i.e. with an error other than the internal
consistency panics of the application phase) iff it is not acceptable to `processChanges`, removes
a non-member, would empty the set, or would push the total above the cap. -/
theorem update_rejects_iff_core (vs : ValSet) (cs : List Validator) (hne : cs ≠ [])
    (hn : (vs.vals.map (·.addr)).Nodup) (hpos : ∀ v ∈ vs.vals, 0 < v.power)
    (htot : vs.total = Spec.total vs.vals) (hcap : vs.total ≤ cap) :
    (∃ e, e ≠ .panic ∧ updateWithChangeSet vs cs true = .error e) ↔
      (¬ ValidChanges cs ∨ (∃ c ∈ cs, c.power = 0 ∧ findVal vs.vals c.addr = none) ∨
       EmptiesSet vs.vals cs ∨ cap < newTotal vs.vals cs) := by
  by_cases hv : ValidChanges cs
  · by_cases hk : ∃ c ∈ cs, c.power = 0 ∧ findVal vs.vals c.addr = none
    · -- removal of a non-member
      refine ⟨fun _ => Or.inr (Or.inl hk), fun _ => ⟨.unknown, by decide, ?_⟩⟩
      obtain ⟨c, hc, hc0, hcf⟩ := hk
      have hperm := isort_perm leAddr cs
      rw [update_unfold vs cs hne, processChanges_ok cs hv]
      simp only
      rw [verifyRemovals_unknown vs.vals 0 _
        ⟨c, (mem_deletesOf _ c).mpr ⟨hperm.mem_iff.mpr hc, hc0⟩, hcf⟩]
    · have hknown : ∀ c ∈ cs, c.power = 0 → findVal vs.vals c.addr ≠ none :=
        fun c hc h0 hf => hk ⟨c, hc, h0, hf⟩
      have heq := update_verified vs cs hne hn hpos htot hcap hv hknown
      have hemp := empty_check_iff vs.vals cs hn hv.1 hknown
      by_cases ho : cap < newTotal vs.vals cs
      · rw [if_pos ho] at heq
        exact ⟨fun _ => Or.inr (Or.inr (Or.inr ho)), fun _ => ⟨.overflow, by decide, heq⟩⟩
      · rw [if_neg ho] at heq
        by_cases he : EmptiesSet vs.vals cs
        · have hc := hemp.mpr he
          rw [if_pos (by simp only [Bool.and_eq_true, decide_eq_true_eq]; exact hc)] at heq
          exact ⟨fun _ => Or.inr (Or.inr (Or.inl he)), fun _ => ⟨.empty, by decide, heq⟩⟩
        · have hc : ¬ (numNew (updatesOf (isort leAddr cs)) vs.vals = 0 ∧
              vs.vals.length = (deletesOf (isort leAddr cs)).length) := fun h => he (hemp.mp h)
          rw [if_neg (by simp only [Bool.and_eq_true, decide_eq_true_eq]; exact hc)] at heq
          constructor
          · rintro ⟨e, hep, hee⟩
            rw [heq] at hee
            exact absurd (updateTail_error_class _ _ _ _ e hee) hep
          · rintro (h | h | h | h)
            · exact absurd hv h
            · exact absurd h hk
            · exact absurd h he
            · exact absurd h ho
  · refine ⟨fun _ => Or.inl hv, fun _ => ?_⟩
    cases hpc : processChanges cs with
    | ok ur => obtain ⟨u, r⟩ := ur; exact absurd (processChanges_ok_inv cs u r hpc) hv
    | error e =>
      refine ⟨e, ?_, by rw [update_unfold vs cs hne, hpc]⟩
      rcases processChanges_error_class cs e hpc with rfl | rfl | rfl <;> decide

end KV.ValSet
