import KV.Proofs.CsStale
/-! Three more single-node invariants of `Cs.step`, for the bounded-rounds step of C04
(`KV/Props/C04Net.lean`, `unlucky_rounds_bounded`): `Aux.valid` — a valid block carries the polka of
its valid round in the node's own vote sets; `Aux.lens` / `Aux.rounds` / `Aux.hvs` — the vote sets of
the rounds `1 … hvsRound ≥ round` of the current height exist, with one slot per validator;
`Aux.prop` — a proposer in step Propose has signed the proposal for its valid block with its valid
round (unless the valid block is from the current round).  Core Lean only. -/
namespace KV.Cs

structure Aux (cfg : Config) (σ : State) : Prop where
  valid : ∀ blk, σ.validB = some blk → 1 ≤ σ.validRound ∧ σ.validRound ≤ σ.round ∧
    quorum cfg.powers σ.votes .prevote σ.height σ.validRound (some blk.id)
  lens : ∀ rv ∈ σ.votes, rv.prevotes.length = n cfg
  rounds : ∀ r', 1 ≤ r' → r' ≤ σ.hvsRound → (findRV σ.votes σ.height r').isSome = true
  hvs : σ.round ≤ σ.hvsRound
  prop : σ.step = .propose → isVal cfg = true → cfg.proposer σ.height σ.round = cfg.me →
    ∀ blk, σ.validB = some blk →
      Action.signProposal σ.height σ.round σ.validRound blk.id ∈ σ.log ∨ σ.validRound = σ.round

/-- the fields `Aux` reads are unchanged, the log grows, the step does not become Propose -/
structure Bore (σ σ' : State) : Prop where
  height : σ'.height = σ.height
  round : σ'.round = σ.round
  validB : σ'.validB = σ.validB
  validRound : σ'.validRound = σ.validRound
  votes : σ'.votes = σ.votes
  hvs : σ'.hvsRound = σ.hvsRound
  log : ∀ a ∈ σ.log, a ∈ σ'.log
  step : σ'.step = .propose → σ.step = .propose

theorem Bore.refl (σ : State) : Bore σ σ := ⟨rfl, rfl, rfl, rfl, rfl, rfl, fun _ h => h, fun h => h⟩
theorem Bore.trans {a b c : State} (h1 : Bore a b) (h2 : Bore b c) : Bore a c :=
  ⟨by rw [h2.height, h1.height], by rw [h2.round, h1.round], by rw [h2.validB, h1.validB],
    by rw [h2.validRound, h1.validRound], by rw [h2.votes, h1.votes], by rw [h2.hvs, h1.hvs],
    fun a h => h2.log a (h1.log a h), fun h => h1.step (h2.step h)⟩

theorem Aux.bore {cfg : Config} {σ σ' : State} (A : Aux cfg σ) (b : Bore σ σ') : Aux cfg σ' := by
  refine ⟨?_, ?_, ?_, ?_, ?_⟩
  · intro blk hb
    rw [b.validB] at hb
    rw [b.validRound, b.round, b.votes, b.height]
    exact A.valid blk hb
  · rw [b.votes]; exact A.lens
  · rw [b.votes, b.height, b.hvs]; exact A.rounds
  · rw [b.round, b.hvs]; exact A.hvs
  · intro hs hv hp blk hb
    rw [b.validB] at hb
    rw [b.height, b.round] at hp
    rw [b.height, b.round, b.validRound]
    rcases A.prop (b.step hs) hv hp blk hb with h | h
    · exact Or.inl (b.log _ h)
    · exact Or.inr h

/-! ### boring functions -/

theorem bore_of_eq {σ σ' : State} (h1 : σ'.height = σ.height) (h2 : σ'.round = σ.round) (h3 : σ'.validB = σ.validB)
    (h4 : σ'.validRound = σ.validRound) (h5 : σ'.votes = σ.votes) (h6 : σ'.hvsRound = σ.hvsRound)
    (h7 : σ'.log = σ.log) (h8 : σ'.step = σ.step) : Bore σ σ' :=
  ⟨h1, h2, h3, h4, h5, h6, by rw [h7]; exact fun _ h => h, by rw [h8]; exact fun h => h⟩

theorem bore_emit (a : Action) (σ : State) : Bore σ (emit a σ) :=
  ⟨rfl, rfl, rfl, rfl, rfl, rfl, fun _ h => List.mem_cons_of_mem _ h, fun h => h⟩
theorem bore_schedule (h r : Nat) (s : Step) (σ : State) : Bore σ (schedule h r s σ) :=
  ⟨rfl, rfl, rfl, rfl, rfl, rfl, fun _ h => List.mem_cons_of_mem _ h, fun h => h⟩
theorem bore_panic (σ : State) : Bore σ (panic σ) :=
  ⟨rfl, rfl, rfl, rfl, rfl, rfl, fun _ h => List.mem_cons_of_mem _ h, fun h => h⟩
theorem bore_unlock (σ : State) : Bore σ (unlock σ) := bore_of_eq rfl rfl rfl rfl rfl rfl rfl rfl

theorem bore_signAddVote (cfg : Config) (t : VType) (tgt : Target) (σ : State) : Bore σ (signAddVote cfg t tgt σ) := by
  unfold signAddVote
  split
  · exact bore_emit ..
  · exact Bore.refl _

theorem bore_doPrevote (cfg : Config) (σ : State) : Bore σ (doPrevote cfg σ) := by
  unfold doPrevote
  (repeat' split) <;> exact bore_signAddVote ..

/-- a step update to something that is not Propose, in the same round -/
theorem Bore.restep {σ τ : State} (b : Bore σ τ) (r : Nat) (s : Step) (hr : r = σ.round) (hs : s ≠ .propose) :
    Bore σ { τ with round := r, step := s } :=
  ⟨b.height, hr, b.validB, b.validRound, b.votes, b.hvs, b.log, fun h => absurd h hs⟩

theorem bore_enterPrevote (cfg : Config) (h r : Nat) (σ : State) (hr : r ≤ σ.round) :
    Bore σ (enterPrevote cfg h r σ) := by
  unfold enterPrevote
  split
  · exact Bore.refl _
  · rename_i hg
    exact (bore_doPrevote cfg σ).restep r .prevote (by omega) (by decide)

theorem bore_enterPrevoteWait (h r : Nat) (σ : State) (hr : r ≤ σ.round) : Bore σ (enterPrevoteWait h r σ) := by
  unfold enterPrevoteWait
  split
  · exact Bore.refl _
  · rename_i hg
    exact (bore_schedule h r .prevoteWait σ).restep r .prevoteWait (by omega) (by decide)

theorem bore_enterPrecommitWait (h r : Nat) (σ : State) : Bore σ (enterPrecommitWait h r σ) := by
  unfold enterPrecommitWait
  split
  · exact Bore.refl _
  · have b := bore_schedule h r .precommitWait σ
    exact ⟨b.height, b.round, b.validB, b.validRound, b.votes, b.hvs, b.log, b.step⟩

/-- closers for explicit record updates: nothing `Aux` reads changed / one action logged -/
theorem bore_same {σ τ : State} (h1 : τ.height = σ.height) (h2 : τ.round = σ.round) (h3 : τ.validB = σ.validB)
    (h4 : τ.validRound = σ.validRound) (h5 : τ.votes = σ.votes) (h6 : τ.hvsRound = σ.hvsRound)
    (h8 : τ.step = σ.step) (h7 : τ.log = σ.log ∨ ∃ a, τ.log = a :: σ.log) : Bore σ τ := by
  refine ⟨h1, h2, h3, h4, h5, h6, ?_, by rw [h8]; exact fun h => h⟩
  rcases h7 with e | ⟨a, e⟩ <;> rw [e]
  · exact fun _ h => h
  · exact fun _ h => List.mem_cons_of_mem _ h

theorem bore_precommitUnknown (cfg : Config) (b : Nat) (σ : State) : Bore σ (precommitUnknown cfg b σ) := by
  unfold precommitUnknown signAddVote unlock emit
  simp only
  (repeat' split) <;>
    first
    | exact bore_same rfl rfl rfl rfl rfl rfl rfl (Or.inl rfl)
    | exact bore_same rfl rfl rfl rfl rfl rfl rfl (Or.inr ⟨_, rfl⟩)

theorem bore_doPrecommit (cfg : Config) (r : Nat) (σ : State) : Bore σ (doPrecommit cfg r σ) := by
  unfold doPrecommit
  (repeat' split) <;>
    first
    | exact bore_precommitUnknown ..
    | (unfold signAddVote emit
       (repeat' split) <;>
         first
         | exact bore_same rfl rfl rfl rfl rfl rfl rfl (Or.inl rfl)
         | exact bore_same rfl rfl rfl rfl rfl rfl rfl (Or.inr ⟨_, rfl⟩))

theorem bore_enterPrecommit (cfg : Config) (h r : Nat) (σ : State) (hr : σ.step ≠ .commit → r ≤ σ.round) :
    Bore σ (enterPrecommit cfg h r σ) := by
  unfold enterPrecommit
  split
  · exact Bore.refl _
  · split
    · exact Bore.refl _
    · rename_i hg hc
      exact (bore_doPrecommit cfg r σ).restep r .precommit (by have := hr hc; omega) (by decide)

theorem bore_decideProposal (nb : Option Nat) (h r : Nat) (σ : State) : Bore σ (decideProposal nb h r σ) := by
  unfold decideProposal
  (repeat' split) <;> first | exact Bore.refl _ | exact bore_emit ..

theorem bore_setProposal (cfg : Config) (src : Nat) (sigok : Bool) (h r pol id : Nat) (σ : State) :
    Bore σ (setProposal cfg src sigok h r pol id σ) := by
  unfold setProposal
  (repeat' split) <;> first | exact Bore.refl _ | exact bore_of_eq rfl rfl rfl rfl rfl rfl rfl rfl

theorem bore_takeLocked (b : Nat) (σ : State) : Bore σ (takeLocked b σ) := by
  unfold takeLocked
  (repeat' split) <;> first | exact Bore.refl _ | exact bore_of_eq rfl rfl rfl rfl rfl rfl rfl rfl

theorem bore_expectBlock (b : Nat) (σ : State) : Bore σ (expectBlock b σ) := by
  unfold expectBlock
  (repeat' split) <;> first | exact Bore.refl _ | exact bore_of_eq rfl rfl rfl rfl rfl rfl rfl rfl

theorem bore_commitPrep (cfg : Config) (cr : Nat) (σ : State) : Bore σ (commitPrep cfg cr σ) := by
  unfold commitPrep
  split
  · exact (bore_takeLocked _ σ).trans (bore_expectBlock _ _)
  · exact Bore.refl _

theorem bore_polkaUnlock (vr : Nat) (bid : Target) (σ : State) : Bore σ (polkaUnlock vr bid σ) := by
  unfold polkaUnlock
  (repeat' split) <;> first | exact Bore.refl _ | exact bore_unlock _

theorem bore_releaseStale (cfg : Config) (σ : State) : Bore σ (releaseStale cfg σ) := by
  rcases releaseStale_cases cfg σ with e | ⟨e, -⟩
  · rw [e]; exact Bore.refl _
  · rw [e]; exact bore_unlock _

/-! ### the new height -/

theorem findRV_append_isSome (v : List RoundVotes) (rv : RoundVotes) (h r : Nat)
    (hs : (findRV v h r).isSome = true) : (findRV (v ++ [rv]) h r).isSome = true := by
  rw [findRV_append]
  cases hf : findRV v h r with
  | none => rw [hf] at hs; cases hs
  | some x => rfl

theorem newHeight_aux {cfg : Config} {σ : State} (A : Aux cfg σ) : Aux cfg (newHeight cfg σ) := by
  refine ⟨?_, ?_, ?_, ?_, ?_⟩
  · intro blk hb; cases hb
  · intro rv hm
    rcases List.mem_append.mp hm with h | h
    · exact A.lens rv h
    · simp only [List.mem_singleton] at h
      rw [h]; simp [fresh]
  · intro r' h1 h2
    have : r' = 1 := by
      have : r' ≤ 1 := h2
      omega
    subst this
    show (findRV (σ.votes ++ [fresh (n cfg) (σ.height + 1) 1]) (σ.height + 1) 1).isSome = true
    rw [findRV_append]
    cases findRV σ.votes (σ.height + 1) 1 with
    | some x => rfl
    | none => simp [fresh]
  · exact Nat.le_refl 1
  · intro hs; cases hs

theorem finalizeCommit_aux {cfg : Config} {σ : State} (A : Aux cfg σ) (h : Nat) : Aux cfg (finalizeCommit cfg h σ) := by
  unfold finalizeCommit
  (repeat' split) <;>
    first
    | exact A
    | exact A.bore (bore_panic _)
    | exact newHeight_aux (A.bore (bore_emit ..))

theorem tryFinalizeCommit_aux {cfg : Config} {σ : State} (A : Aux cfg σ) (h : Nat) :
    Aux cfg (tryFinalizeCommit cfg h σ) := by
  unfold tryFinalizeCommit
  (repeat' split) <;> first | exact A | exact finalizeCommit_aux A h

theorem enterCommit_aux {cfg : Config} {σ : State} (A : Aux cfg σ) (h cr : Nat) : Aux cfg (enterCommit cfg h cr σ) := by
  unfold enterCommit
  split
  · exact A
  · apply tryFinalizeCommit_aux
    have b := bore_commitPrep cfg cr σ
    exact A.bore ⟨b.height, b.round, b.validB, b.validRound, b.votes, b.hvs, b.log, fun h => by cases h⟩

/-! ### the valid block -/

/-- setting the valid block to a block with the polka of the current round -/
theorem Aux.setValid' {cfg : Config} {σ : State} (A : Aux cfg σ) (vb : Option Blk) (blk : Blk) (hvb : vb = some blk)
    (hr1 : 1 ≤ σ.round) (hq : quorum cfg.powers σ.votes .prevote σ.height σ.round (some blk.id)) :
    Aux cfg { σ with validRound := σ.round, validB := vb } := by
  refine ⟨?_, A.lens, A.rounds, A.hvs, ?_⟩
  · intro b hb
    have : b = blk := by
      have hb' : vb = some b := hb
      rw [hvb] at hb'
      exact (Option.some.inj hb').symm
    subst this
    exact ⟨hr1, Nat.le_refl _, hq⟩
  · intro _ _ _ b _
    exact Or.inr rfl

theorem Aux.setValid {cfg : Config} {σ : State} (A : Aux cfg σ) (blk : Blk) (hr1 : 1 ≤ σ.round)
    (hq : quorum cfg.powers σ.votes .prevote σ.height σ.round (some blk.id)) :
    Aux cfg { σ with validRound := σ.round, validB := some blk } := A.setValid' (some blk) blk rfl hr1 hq

theorem storeBlock_aux {cfg : Config} {σ : State} (A : Aux cfg σ) (blk : Blk) (hr1 : 1 ≤ σ.round) :
    Aux cfg (storeBlock cfg blk σ) := by
  have b0 : Bore σ { σ with pblock := some blk, parts := some (blk.id, true), seen := (σ.height, blk) :: σ.seen } :=
    bore_of_eq rfl rfl rfl rfl rfl rfl rfl rfl
  unfold storeBlock
  simp only
  split
  · rename_i b hm
    split
    · rename_i hc
      simp only [Bool.and_eq_true, decide_eq_true_eq, beq_iff_eq] at hc
      have hq : quorum cfg.powers σ.votes .prevote σ.height σ.round (some blk.id) := by
        rw [hc.2]; exact maj23_sound hm
      exact (A.bore b0).setValid blk hr1 hq
    · exact A.bore b0
  · exact A.bore b0

theorem polkaValid_aux {cfg : Config} {σ : State} (A : Aux cfg σ) (vr b : Nat) (hr1 : 1 ≤ σ.round)
    (hm : maj23 cfg.powers (slotsV σ.votes .prevote σ.height vr) = some (some b)) :
    Aux cfg (polkaValid vr b σ) := by
  unfold polkaValid
  split
  · rename_i hc
    simp only [Bool.and_eq_true, decide_eq_true_eq, beq_iff_eq] at hc
    have hvr : vr = σ.round := hc.2
    subst hvr
    simp only
    have hq : quorum cfg.powers σ.votes .prevote σ.height σ.round (some b) := maj23_sound hm
    split
    · rename_i hid
      -- the proposal block is the polka block: it becomes the valid block
      obtain ⟨blk, hpb, hb⟩ : ∃ blk, σ.pblock = some blk ∧ blk.id = b := by
        unfold idIs at hid
        split at hid
        · rename_i blk hpb; exact ⟨blk, hpb, by simpa using hid⟩
        · cases hid
      have A1 : Aux cfg { σ with validRound := σ.round, validB := σ.pblock } :=
        A.setValid' σ.pblock blk hpb hr1 (by rw [hb]; exact hq)
      split
      · exact A1
      · exact A1.bore (bore_of_eq rfl rfl rfl rfl rfl rfl rfl rfl)
    · have A1 : Aux cfg { σ with pblock := none } := A.bore (bore_of_eq rfl rfl rfl rfl rfl rfl rfl rfl)
      split
      · exact A1
      · exact A1.bore (bore_of_eq rfl rfl rfl rfl rfl rfl rfl rfl)
  · exact A

theorem polkaUpdate_aux {cfg : Config} {σ : State} (A : Aux cfg σ) (vr : Nat) (hr1 : 1 ≤ σ.round) :
    Aux cfg (polkaUpdate vr (maj23 cfg.powers (slotsV σ.votes .prevote σ.height vr)) σ) := by
  unfold polkaUpdate
  cases hm : maj23 cfg.powers (slotsV σ.votes .prevote σ.height vr) with
  | none => exact A
  | some bid =>
    simp only
    have b := bore_polkaUnlock vr bid σ
    cases bid with
    | none => exact A.bore b
    | some b' =>
      simp only
      exact polkaValid_aux (A.bore b) vr b' (by rw [b.round]; exact hr1) (by rw [b.votes, b.height]; exact hm)

/-! ### propose -/

theorem proposeBody_aux {cfg : Config} {σ : State} (nb : Option Nat) (h r : Nat) :
    Bore σ (proposeBody cfg nb h r σ) ∧
    (isVal cfg = true → cfg.proposer σ.height σ.round = cfg.me → ∀ blk, σ.validB = some blk →
      Action.signProposal h r σ.validRound blk.id ∈ (proposeBody cfg nb h r σ).log) := by
  unfold proposeBody
  simp only
  split
  · refine ⟨(bore_schedule h r .propose σ).trans (bore_decideProposal ..), ?_⟩
    intro _ _ blk hb
    unfold decideProposal
    have : (schedule h r .propose σ).validB = some blk := hb
    rw [this]
    exact List.mem_cons_self ..
  · rename_i hc
    refine ⟨bore_schedule .., ?_⟩
    intro hv hp
    exfalso
    apply hc
    simp only [Bool.and_eq_true, beq_iff_eq]
    exact ⟨hv, hp⟩

theorem enterPropose_aux {cfg : Config} {σ : State} (A : Aux cfg σ) (nb : Option Nat) (h r : Nat)
    (hr : σ.round = r) : Aux cfg (enterPropose cfg nb h r σ) := by
  unfold enterPropose
  split
  · exact A
  · rename_i hg
    have hh : σ.height = h := by
      by_cases e : σ.height = h
      · exact e
      · exact absurd (Or.inl e) hg
    obtain ⟨b, hl⟩ := proposeBody_aux (cfg := cfg) (σ := σ) nb h r
    have A1 : Aux cfg { proposeBody cfg nb h r σ with round := r, step := .propose } := by
      refine ⟨?_, ?_, ?_, ?_, ?_⟩
      · intro blk hb
        have hb' : σ.validB = some blk := by rw [← b.validB]; exact hb
        have := A.valid blk hb'
        show 1 ≤ (proposeBody cfg nb h r σ).validRound ∧ (proposeBody cfg nb h r σ).validRound ≤ r ∧
          quorum cfg.powers (proposeBody cfg nb h r σ).votes .prevote (proposeBody cfg nb h r σ).height
            (proposeBody cfg nb h r σ).validRound (some blk.id)
        rw [b.validRound, b.votes, b.height, ← hr]
        exact this
      · show ∀ rv ∈ (proposeBody cfg nb h r σ).votes, _
        rw [b.votes]; exact A.lens
      · show ∀ r', 1 ≤ r' → r' ≤ (proposeBody cfg nb h r σ).hvsRound →
          (findRV (proposeBody cfg nb h r σ).votes (proposeBody cfg nb h r σ).height r').isSome = true
        rw [b.votes, b.height, b.hvs]; exact A.rounds
      · show r ≤ (proposeBody cfg nb h r σ).hvsRound
        rw [b.hvs, ← hr]; exact A.hvs
      · intro _ hv hp blk hb
        left
        have hb' : σ.validB = some blk := by rw [← b.validB]; exact hb
        have hp' : cfg.proposer σ.height σ.round = cfg.me := by
          have : cfg.proposer (proposeBody cfg nb h r σ).height r = cfg.me := hp
          rw [b.height, ← hr] at this; exact this
        have := hl hv hp' blk hb'
        show Action.signProposal (proposeBody cfg nb h r σ).height r (proposeBody cfg nb h r σ).validRound blk.id ∈
          (proposeBody cfg nb h r σ).log
        rw [b.height, b.validRound, hh]
        exact this
    unfold proposeDone
    split
    · exact A1.bore (bore_enterPrevote cfg h _ _ (Nat.le_refl _))
    · exact A1

/-! ### a new round -/

theorem addRounds_aux (k : Nat) : ∀ (j r : Nat) (σ : State), (∀ rv ∈ σ.votes, rv.prevotes.length = k) →
    (∀ rv ∈ (addRounds k j r σ).votes, rv.prevotes.length = k) ∧
    (∀ h' r', (findRV σ.votes h' r').isSome = true → (findRV (addRounds k j r σ).votes h' r').isSome = true) ∧
    (∀ r', r ≤ r' → r' < r + j → (findRV (addRounds k j r σ).votes σ.height r').isSome = true) ∧
    (addRounds k j r σ).height = σ.height
  | 0, r, σ, hl => ⟨hl, fun _ _ h => h, fun r' h1 h2 => by omega, rfl⟩
  | j+1, r, σ, hl => by
    unfold addRounds
    by_cases hh : hasRound σ r = true
    · rw [if_pos hh]
      obtain ⟨a1, a2, a3, a4⟩ := addRounds_aux k j (r + 1) σ hl
      refine ⟨a1, a2, ?_, a4⟩
      intro r' h1 h2
      by_cases e : r' = r
      · subst e; exact a2 _ _ hh
      · exact a3 r' (by omega) (by omega)
    · rw [if_neg hh]
      have hl' : ∀ rv ∈ (addRound k r σ).votes, rv.prevotes.length = k := by
        intro rv hm
        rcases List.mem_append.mp hm with h | h
        · exact hl rv h
        · simp only [List.mem_singleton] at h
          rw [h]; simp [fresh]
      obtain ⟨a1, a2, a3, a4⟩ := addRounds_aux k j (r + 1) (addRound k r σ) hl'
      refine ⟨a1, fun h' r' hs => a2 _ _ (findRV_append_isSome _ _ _ _ hs), ?_, a4⟩
      intro r' h1 h2
      by_cases e : r' = r
      · subst e
        apply a2
        show (findRV (σ.votes ++ [fresh k σ.height r']) σ.height r').isSome = true
        rw [findRV_append]
        cases findRV σ.votes σ.height r' with
        | some x => rfl
        | none => simp [fresh]
      · exact a3 r' (by omega) (by omega)

theorem newRoundPrep_aux {cfg : Config} {σ : State} (A : Aux cfg σ) (r : Nat) (hr : σ.round ≤ r) :
    Aux cfg (newRoundPrep cfg r σ) := by
  obtain ⟨extra, hh, hr', hs, hl, -, -, -, hv, -⟩ := newRoundPrep_spec cfg r σ
  -- validB / validRound / hvsRound of the result, and the vote sets added
  have key : ∀ τ : State, τ.votes = σ.votes → τ.height = σ.height → τ.hvsRound = σ.hvsRound →
      τ.validB = σ.validB → τ.validRound = σ.validRound →
      ({ setRound (n cfg) (r + 1) τ with ttp := false } : State).validB = σ.validB ∧
      ({ setRound (n cfg) (r + 1) τ with ttp := false } : State).validRound = σ.validRound ∧
      ({ setRound (n cfg) (r + 1) τ with ttp := false } : State).hvsRound = r + 1 ∧
      (∀ rv ∈ ({ setRound (n cfg) (r + 1) τ with ttp := false } : State).votes, rv.prevotes.length = n cfg) ∧
      (∀ h' r', (findRV σ.votes h' r').isSome = true →
        (findRV ({ setRound (n cfg) (r + 1) τ with ttp := false } : State).votes h' r').isSome = true) ∧
      (∀ r', σ.hvsRound - 1 ≤ r' → r' ≤ r + 1 →
        (findRV ({ setRound (n cfg) (r + 1) τ with ttp := false } : State).votes σ.height r').isSome = true) := by
    intro τ e1 e2 e3 e4 e5
    unfold setRound
    obtain ⟨a1, a2, a3, a4⟩ := addRounds_aux (n cfg) (r + 1 + 1 - (τ.hvsRound - 1)) (τ.hvsRound - 1) τ
      (by rw [e1]; exact A.lens)
    obtain ⟨extra', he⟩ := addRounds_eq (n cfg) (r + 1 + 1 - (τ.hvsRound - 1)) (τ.hvsRound - 1) τ
    refine ⟨?_, ?_, rfl, a1, ?_, ?_⟩
    · show (addRounds (n cfg) _ _ τ).validB = _; rw [he]; exact e4
    · show (addRounds (n cfg) _ _ τ).validRound = _; rw [he]; exact e5
    · intro h' r' hs'; exact a2 h' r' (by rw [e1]; exact hs')
    · intro r' h1 h2
      have := a3 r' (by rw [e3]; exact h1) (by rw [e3]; omega)
      rw [e2] at this; exact this
  have K : ({ setRound (n cfg) (r + 1)
      (if r = 1 then { σ with round := r, step := .newRound }
       else { σ with round := r, step := .newRound, proposal := none, pblock := none, parts := none }) with
      ttp := false } : State) = newRoundPrep cfg r σ := by
    unfold newRoundPrep; rfl
  have k := key (if r = 1 then { σ with round := r, step := .newRound }
       else { σ with round := r, step := .newRound, proposal := none, pblock := none, parts := none })
    (by split <;> rfl) (by split <;> rfl) (by split <;> rfl) (by split <;> rfl) (by split <;> rfl)
  rw [K] at k
  obtain ⟨k1, k2, k3, k4, k5, k6⟩ := k
  refine ⟨?_, k4, ?_, by rw [hr', k3]; omega, ?_⟩
  · intro blk hb
    rw [k1] at hb
    obtain ⟨v1, v2, v3⟩ := A.valid blk hb
    rw [k2, hr', hh, hv]
    exact ⟨v1, by omega, VLe_append_list _ _ _ _ _ _ _ v3⟩
  · intro r' h1 h2
    rw [hh]
    rw [k3] at h2
    by_cases e : r' ≤ σ.hvsRound
    · exact k5 _ _ (A.rounds r' h1 e)
    · exact k6 r' (by omega) h2
  · intro hs'; rw [hs] at hs'; cases hs'

theorem enterNewRound_aux {cfg : Config} {σ : State} (A : Aux cfg σ) (nb : Option Nat) (h r : Nat) :
    Aux cfg (enterNewRound cfg nb h r σ) := by
  unfold enterNewRound
  split
  · exact A
  · split
    · exact A
    · rename_i hg _
      obtain ⟨extra, hh', hr', -⟩ := newRoundPrep_spec cfg r σ
      have J := (newRoundPrep_aux A r (by omega)).bore (bore_releaseStale cfg _)
      simp only
      split
      · split
        · exact J.bore (bore_schedule ..)
        · exact J
      · exact enterPropose_aux J nb h r (by rw [releaseStale_round, hr'])

/-! ### a block arrives -/

theorem afterBlock_aux {cfg : Config} {σ : State} (A : Aux cfg σ) (h : Nat) : Aux cfg (afterBlock cfg h σ) := by
  unfold afterBlock
  split
  · simp only
    have b := bore_enterPrevote cfg h σ.round σ (Nat.le_refl _)
    split
    · exact (A.bore b).bore (bore_enterPrecommit cfg h _ _ (fun _ => Nat.le_refl _))
    · exact A.bore b
  · split
    · exact tryFinalizeCommit_aux A h
    · exact A

theorem addBlock_aux {cfg : Config} {σ : State} (A : Aux cfg σ) (h id : Nat) (ok dec : Bool) (hr1 : 1 ≤ σ.round) :
    Aux cfg (addBlock cfg h id ok dec σ) := by
  unfold addBlock
  (repeat' split) <;>
    first
    | exact A
    | exact A.bore (bore_of_eq rfl rfl rfl rfl rfl rfl rfl rfl)
    | exact afterBlock_aux (storeBlock_aux A _ hr1) h

/-! ### a vote arrives -/

theorem ensureRound_aux {cfg : Config} {σ σ1 : State} (A : Aux cfg σ) (peer r : Nat)
    (h : ensureRound cfg peer r σ = some σ1) : Aux cfg σ1 ∧ σ1.round = σ.round ∧ σ1.height = σ.height := by
  unfold ensureRound at h
  split at h
  · cases h; exact ⟨A, rfl, rfl⟩
  · split at h
    · cases h
      refine ⟨⟨?_, ?_, ?_, A.hvs, A.prop⟩, rfl, rfl⟩
      · intro blk hb
        obtain ⟨v1, v2, v3⟩ := A.valid blk hb
        exact ⟨v1, v2, VLe_append _ _ _ _ _ _ _ v3⟩
      · intro rv hm
        rcases List.mem_append.mp hm with h' | h'
        · exact A.lens rv h'
        · simp only [List.mem_singleton] at h'
          rw [h']; simp [fresh]
      · intro r' h1 h2
        exact findRV_append_isSome _ _ _ _ (A.rounds r' h1 h2)
    · cases h

theorem setSlot_prevotes_length (t : VType) (idx : Nat) (tgt : Target) (h r : Nat) (rv : RoundVotes) :
    (setSlot t idx tgt h r rv).prevotes.length = rv.prevotes.length := by
  unfold setSlot
  split
  · cases t <;> simp
  · rfl

/-- storing a vote in an empty slot -/
theorem Aux.store {cfg : Config} {σ : State} (A : Aux cfg σ) (t : VType) (idx : Nat) (tgt : Target) (h r : Nat)
    (hs : (slotsV σ.votes t h r)[idx]? = some none) :
    Aux cfg { σ with votes := σ.votes.map (setSlot t idx tgt h r), added := true } := by
  refine ⟨?_, ?_, ?_, A.hvs, A.prop⟩
  · intro blk hb
    obtain ⟨v1, v2, v3⟩ := A.valid blk hb
    exact ⟨v1, v2, VLe_setSlot _ _ _ _ _ _ _ hs _ _ _ _ v3⟩
  · intro rv hm
    obtain ⟨rv0, h0, rfl⟩ := List.mem_map.mp hm
    rw [setSlot_prevotes_length]
    exact A.lens rv0 h0
  · intro r' h1 h2
    show (findRV (σ.votes.map (setSlot t idx tgt h r)) σ.height r').isSome = true
    rw [findRV_map_setSlot]
    have := A.rounds r' h1 h2
    cases hf : findRV σ.votes σ.height r' with
    | none => rw [hf] at this; cases this
    | some x => rfl

theorem prevoteSwitch_aux {cfg : Config} {σ : State} (A : Aux cfg σ) (nb : Option Nat) (h vr : Nat)
    (m : Option Target) (any : Bool) : Aux cfg (prevoteSwitch cfg nb h vr m any σ) := by
  unfold prevoteSwitch
  split
  · exact enterNewRound_aux A nb h vr
  · split
    · rename_i hc
      have hle : vr ≤ σ.round := by
        simp only [Bool.and_eq_true, beq_iff_eq] at hc; omega
      split
      · split
        · exact A.bore (bore_enterPrecommit cfg h vr σ (fun _ => hle))
        · split
          · exact A.bore (bore_enterPrevoteWait h vr σ hle)
          · exact A
      · split
        · exact A.bore (bore_enterPrevoteWait h vr σ hle)
        · exact A
    · split
      · split
        · split
          · exact A.bore (bore_enterPrevote cfg h _ σ (Nat.le_refl _))
          · exact A
        · exact A
      · exact A

theorem polkaUpdate_round (vr : Nat) (m : Option Target) (σ : State) : (polkaUpdate vr m σ).round = σ.round :=
  (polkaUpdate_keeps vr m σ).2.1

theorem afterPrevote_aux {cfg : Config} {σ : State} (A : Aux cfg σ) (nb : Option Nat) (vr : Nat) (hr1 : 1 ≤ σ.round) :
    Aux cfg (afterPrevote cfg nb vr σ) := by
  unfold afterPrevote
  exact prevoteSwitch_aux (polkaUpdate_aux A vr hr1) nb _ vr _ _

theorem afterPrecommit_aux {cfg : Config} {σ : State} (A : Aux cfg σ) (nb : Option Nat) (vr : Nat) :
    Aux cfg (afterPrecommit cfg nb vr σ) := by
  unfold afterPrecommit
  simp only
  split
  · have A1 := enterNewRound_aux A nb σ.height vr
    have A2 := A1.bore (bore_enterPrecommit cfg σ.height vr _ (enterNewRound_round_ge' cfg nb vr σ))
    split
    · exact enterCommit_aux A2 _ _
    · exact A2.bore (bore_enterPrecommitWait ..)
  · split
    · exact (enterNewRound_aux A nb _ _).bore (bore_enterPrecommitWait ..)
    · exact A

theorem addVote_aux {cfg : Config} {σ : State} (A : Aux cfg σ) (nb : Option Nat) (peer idx : Nat) (t : VType)
    (h r : Nat) (tgt : Target) (sigok : Bool) (hr1 : 1 ≤ σ.round) :
    Aux cfg (addVote cfg nb peer idx t h r tgt sigok σ) := by
  unfold addVote
  split
  · exact A
  · split
    · exact A
    · split
      · exact A
      · rename_i σ1 he
        obtain ⟨A1, e2, -⟩ := ensureRound_aux A peer r he
        split
        · exact A1
        · split
          · rename_i hslot
            have A2 := A1.store t idx tgt h r (by rw [← State.slots_eq]; exact hslot)
            cases t with
            | prevote => exact afterPrevote_aux A2 nb r (by show 1 ≤ σ1.round; rw [e2]; exact hr1)
            | precommit => exact afterPrecommit_aux A2 nb r
          · exact A1

theorem handleTimeout_aux {cfg : Config} {σ : State} (I : Inv cfg σ) (A : Aux cfg σ) (nb : Option Nat) (h r : Nat)
    (s : Step) (hok : h = σ.height → r ≤ σ.round) : Aux cfg (handleTimeout cfg nb h r s σ) := by
  unfold handleTimeout
  split
  · exact A
  · rename_i hg
    have hr : r ≤ σ.round := hok (by omega)
    split
    · exact enterNewRound_aux A nb h 1
    · by_cases h1 : σ.round = 1
      · exact enterPropose_aux A nb h 1 h1
      · unfold enterPropose
        rw [if_pos (Or.inr (Or.inl (by have := I.r1; omega)))]
        exact A
    · exact A.bore (bore_enterPrevote cfg h r σ hr)
    · exact A.bore (bore_enterPrecommit cfg h r σ (fun _ => hr))
    · exact enterNewRound_aux (A.bore (bore_enterPrecommit cfg h r σ (fun _ => hr))) nb h (r + 1)
    · exact A.bore (bore_panic _)

/-- **`Aux` is preserved by `step`** (timeouts as in `step_inv`) -/
theorem step_aux {cfg : Config} {σ : State} (I : Inv cfg σ) (A : Aux cfg σ) (nb : Option Nat) (i : Input)
    (hok : TimeoutOk σ i) : Aux cfg (step cfg σ nb i) := by
  unfold step
  split
  · exact A
  · have J : Inv cfg { σ with added := false } := I.of_eq rfl rfl (Nat.le_refl _) rfl rfl rfl rfl I.lk I.pb
    have B : Aux cfg { σ with added := false } := A.bore (bore_of_eq rfl rfl rfl rfl rfl rfl rfl rfl)
    cases i with
    | proposal src sigok h r pol id => exact B.bore (bore_setProposal ..)
    | block h id ok dec => exact addBlock_aux B h id ok dec I.r1
    | vote peer idx t h r tgt sigok => exact addVote_aux B nb peer idx t h r tgt sigok I.r1
    | timeout h r s => exact handleTimeout_aux J B nb h r s hok

theorem init_aux (cfg : Config) (h : Nat) : Aux cfg (init cfg h) := by
  refine ⟨?_, ?_, ?_, Nat.le_refl 1, ?_⟩
  · intro blk hb; cases hb
  · intro rv hm
    simp only [init, List.mem_singleton] at hm
    rw [hm]; simp [fresh]
  · intro r' h1 h2
    have : r' = 1 := by
      have : r' ≤ 1 := h2
      omega
    subst this
    simp [init, findRV, fresh]
  · intro hs; cases hs

end KV.Cs
