import KV.Proofs.ValSetInv
/-!
# `RescalePriorities` is the specification's rescale; `IncrementProposerPriority(k)` is
`Spec.increment k` for every `k` (C12 `model_refines_spec`)
-/
namespace KV.ValSet
open KV.I64

/-! ## the specification's max / min -/

theorem Spec.maxP_spec (l : List Validator) (hne : l ≠ []) :
    (∀ v ∈ l, v.prio ≤ Spec.maxP l) ∧ ∃ v ∈ l, v.prio = Spec.maxP l := by
  induction l with
  | nil => exact absurd rfl hne
  | cons x xs ih =>
    cases xs with
    | nil =>
      refine ⟨fun v hv => ?_, x, List.mem_cons_self, rfl⟩
      rcases List.mem_cons.mp hv with rfl | hv
      · exact Int.le_refl _
      · cases hv
    | cons y ys =>
      obtain ⟨h1, w, hw, h2⟩ := ih (by simp)
      have e : Spec.maxP (x :: y :: ys) = max x.prio (Spec.maxP (y :: ys)) := rfl
      rw [e]
      refine ⟨fun v hv => ?_, ?_⟩
      · rcases List.mem_cons.mp hv with rfl | hv
        · omega
        · have := h1 v hv; omega
      · by_cases hx : Spec.maxP (y :: ys) ≤ x.prio
        · exact ⟨x, List.mem_cons_self, by omega⟩
        · exact ⟨w, List.mem_cons_of_mem _ hw, by omega⟩

theorem Spec.minP_spec (l : List Validator) (hne : l ≠ []) :
    (∀ v ∈ l, Spec.minP l ≤ v.prio) ∧ ∃ v ∈ l, v.prio = Spec.minP l := by
  induction l with
  | nil => exact absurd rfl hne
  | cons x xs ih =>
    cases xs with
    | nil =>
      refine ⟨fun v hv => ?_, x, List.mem_cons_self, rfl⟩
      rcases List.mem_cons.mp hv with rfl | hv
      · exact Int.le_refl _
      · cases hv
    | cons y ys =>
      obtain ⟨h1, w, hw, h2⟩ := ih (by simp)
      have e : Spec.minP (x :: y :: ys) = min x.prio (Spec.minP (y :: ys)) := rfl
      rw [e]
      refine ⟨fun v hv => ?_, ?_⟩
      · rcases List.mem_cons.mp hv with rfl | hv
        · omega
        · have := h1 v hv; omega
      · by_cases hx : x.prio ≤ Spec.minP (y :: ys)
        · exact ⟨x, List.mem_cons_self, by omega⟩
        · exact ⟨w, List.mem_cons_of_mem _ hw, by omega⟩

theorem maxPrio_eq_spec (l : List Validator) (hne : l ≠ []) (hr : ∀ v ∈ l, InRange v.prio) :
    maxPrio l = Spec.maxP l := by
  obtain ⟨h1, w, hw, h2⟩ := Spec.maxP_spec l hne
  obtain ⟨u, hu, h3⟩ := maxPrio_mem l hne hr
  have := maxPrio_ge l w hw; have := h1 u hu; omega

theorem minPrio_eq_spec (l : List Validator) (hne : l ≠ []) (hr : ∀ v ∈ l, InRange v.prio) :
    minPrio l = Spec.minP l := by
  obtain ⟨h1, w, hw, h2⟩ := Spec.minP_spec l hne
  obtain ⟨u, hu, h3⟩ := minPrio_mem l hne hr
  have := minPrio_le l w hw; have := h1 u hu; omega

/-! ## rescale -/

/-- the wrapping division by a ratio `≥ 1` of an `int64` priority is the exact truncating one -/
theorem div_exact_of_pos (x r : Int) (hx : InRange x) (hr : 0 < r) : I64.div x r = Int.tdiv x r := by
  unfold I64.div; apply wrap_of_inRange
  rcases tdiv_bounds x r hr with ⟨a0, a1, a2, a3⟩ | ⟨a0, a1, a2, a3⟩
  · have := @Int.tdiv_le_self x r a0
    unfold InRange minI64 maxI64 at *; omega
  · have := tdiv_abs_le x r 9223372036854775808 hr
      (by unfold InRange minI64 at hx; omega) (by unfold InRange maxI64 at hx; omega)
    unfold InRange minI64 maxI64 at *; omega

/-- **`RescalePriorities(D)` is `Spec.rescale D`** under the side conditions of the window theorem -/
theorem rescaleList_eq_spec (D : Int) (l : List Validator) (h : RescaleOK D l) :
    rescaleList D l = Spec.rescale D l := by
  obtain ⟨er, hnn⟩ := rescaleRatio_eq D l h
  obtain ⟨hne, hr, hD, hD2, hfit⟩ := h
  obtain ⟨e, h0⟩ := maxMinDiff_eq l hne hr (by omega)
  have emax := maxPrio_eq_spec l hne hr
  have emin := minPrio_eq_spec l hne hr
  have hD' : ¬ D ≤ 0 := by omega
  simp only [rescaleList, Spec.rescale, if_neg hD']
  rw [e, emax, emin]
  by_cases hd : Spec.maxP l - Spec.minP l > D
  · rw [if_pos hd, if_pos hd]
    apply List.map_congr_left
    intro v hv
    rw [er, emax, emin]
    obtain ⟨c1, _, _⟩ := ceil_ratio (Spec.maxP l - Spec.minP l) D hD hd
    rw [div_exact_of_pos v.prio _ (hr v hv) (by omega)]
  · rw [if_neg hd, if_neg hd]

theorem map_setPrio_addr (f : Validator → Int) (l : List Validator) :
    (l.map fun v => ({ v with prio := f v } : Validator)).map (·.addr) = l.map (·.addr) := by
  rw [List.map_map]; exact List.map_congr_left (fun _ _ => rfl)

theorem map_setPrio_power (f : Validator → Int) (l : List Validator) :
    (l.map fun v => ({ v with prio := f v } : Validator)).map (·.power) = l.map (·.power) := by
  rw [List.map_map]; exact List.map_congr_left (fun _ _ => rfl)

theorem rescaleList_addr (D : Int) (l : List Validator) :
    (rescaleList D l).map (·.addr) = l.map (·.addr) := by
  unfold rescaleList
  split
  · rfl
  · split
    · exact map_setPrio_addr _ l
    · rfl

theorem rescaleList_power (D : Int) (l : List Validator) :
    (rescaleList D l).map (·.power) = l.map (·.power) := by
  unfold rescaleList
  split
  · rfl
  · split
    · exact map_setPrio_power _ l
    · rfl

theorem shiftList_addr (l : List Validator) : (shiftList l).map (·.addr) = l.map (·.addr) :=
  map_setPrio_addr _ l

theorem shiftList_power (l : List Validator) : (shiftList l).map (·.power) = l.map (·.power) :=
  map_setPrio_power _ l

theorem Spec.centre_addr (l : List Validator) : (Spec.centre l).map (·.addr) = l.map (·.addr) :=
  map_setPrio_addr _ l

theorem Spec.centre_power (l : List Validator) : (Spec.centre l).map (·.power) = l.map (·.power) :=
  map_setPrio_power _ l

/-- rescaling keeps priorities inside `[-B, B]` -/
theorem rescaleList_bound (D B : Int) (l : List Validator) (h : RescaleOK D l) (hb : PrioBound B l) :
    PrioBound B (rescaleList D l) := by
  rw [rescaleList_eq_spec D l h]
  obtain ⟨hne, hr, hD, hD2, hfit⟩ := h
  have hD' : ¬ D ≤ 0 := by omega
  simp only [Spec.rescale, if_neg hD']
  split
  · rename_i hd
    intro v hv
    obtain ⟨v0, hv0, rfl⟩ := List.mem_map.mp hv
    obtain ⟨b1, b2⟩ := hb v0 hv0
    have hnn : 0 ≤ Spec.maxP l - Spec.minP l := by omega
    obtain ⟨c1, _, _⟩ := ceil_ratio (Spec.maxP l - Spec.minP l) D hD hd
    exact tdiv_abs_le v0.prio _ B (by omega) b1 b2
  · exact hb

/-- centring keeps differences -/
theorem Spec.centre_window (l : List Validator) (W : Int)
    (hw : ∀ a ∈ l, ∀ b ∈ l, a.prio - b.prio ≤ W) :
    ∀ a ∈ Spec.centre l, ∀ b ∈ Spec.centre l, a.prio - b.prio ≤ W := by
  intro a ha b hb
  unfold Spec.centre at ha hb
  obtain ⟨a0, ha0, rfl⟩ := List.mem_map.mp ha
  obtain ⟨b0, hb0, rfl⟩ := List.mem_map.mp hb
  have := hw a0 ha0 b0 hb0
  simp only; omega

/-! ## the division by zero of `RescalePriorities` is unreachable for every list -/

theorem maxMinDiff_inRange (l : List Validator) : InRange (maxMinDiff l) := by
  unfold maxMinDiff
  simp only
  split
  · exact wrap_inRange _
  · exact wrap_inRange _

/-- for `0 < D ≤ 2^62` the ratio `(diff + D − 1) / D` computed with wrapping `int64` operations is
never `0` when `diff > D`: either nothing wraps and the quotient is at least 2, or the sum wraps to
a value of absolute value at least `2^62 ≥ D`. -/
theorem rescalePanics_false (D : Int) (l : List Validator) (hD2 : D ≤ 4611686018427387904) :
    rescalePanics D l = false := by
  unfold rescalePanics
  by_cases hD : D > 0
  · by_cases hd : maxMinDiff l > D
    · have hr := maxMinDiff_inRange l
      have hne : rescaleRatio D l ≠ 0 := by
        unfold rescaleRatio
        generalize maxMinDiff l = d at hd hr
        unfold InRange minI64 maxI64 at hr
        intro h0
        have hy : InRange (I64.sub (I64.add d D) 1) := wrap_inRange _
        generalize hyy : I64.sub (I64.add d D) 1 = y at h0 hy
        have hbig : D ≤ y ∨ y ≤ -D := by
          rw [← hyy]; unfold I64.sub I64.add wrap; omega
        unfold I64.div at h0
        have hq := tdiv_abs_le y D 9223372036854775808 hD
          (by unfold InRange minI64 at hy; omega) (by unfold InRange maxI64 at hy; omega)
        have hq0 : Int.tdiv y D = 0 := by
          unfold wrap at h0; omega
        rcases tdiv_bounds y D hD with ⟨a0, a1, a2, a3⟩ | ⟨a0, a1, a2, a3⟩
        · rw [hq0, Int.mul_zero] at a1 a2; omega
        · rw [hq0, Int.mul_zero] at a1 a2; omega
      simp [hne]
    · simp [hd]
  · simp [hD]

end KV.ValSet
