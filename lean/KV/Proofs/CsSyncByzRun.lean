import KV.Proofs.CsSyncByzVotes
import KV.Proofs.CsSyncRun
/-! One node runs through a synchronous round with Byzantine inputs interleaved anywhere (C04,
`KV/Props/C04Net.lean`).  Core Lean only. -/
namespace KV.Cs.Sync

/-- `xs` with the inputs `J k` before its k-th element and `J (k + xs.length)` after the last one -/
def weave {α : Type} : List α → (Nat → List α) → Nat → List α
  | [], J, k => J k
  | x :: xs, J, k => J k ++ x :: weave xs J (k + 1)

/-- a list of adversarial inputs -/
def JunkL (F : Nat → Bool) (p h r b : Nat) (l : List (Option Nat × Input)) : Prop :=
  ∀ x ∈ l, Junk F p h r b x.2

/-- the slots of the correct validators stay empty unless a vote of a correct validator for that
very vote set arrives -/
theorem corrEmpty_step (cfg : Config) (F : Nat → Bool) (σ : State) (nb : Option Nat) (inp : Input) (t : VType)
    (h r : Nat) (hc : CorrEmpty F (slotsV σ.votes t h r))
    (hin : ∀ idx tgt, voteOf inp = some (idx, t, h, r, tgt) → F idx = true) :
    CorrEmpty F (slotsV (step cfg σ nb inp).votes t h r) := by
  intro j v hF hs
  cases v with
  | none => rfl
  | some tgt =>
    rcases (step_frame cfg σ nb inp).votes t h r j tgt hs with h1 | ⟨h1, _⟩
    · have := hc j _ hF h1; cases this
    · have := hin j tgt h1; rw [hF] at this; cases this

/-- an invariant indexed by the set of delivered votes, along a weave -/
theorem run_weave (cfg : Config) (I : List Nat → State → Prop) (mk : Nat → Option Nat × Input)
    (JP : Input → Prop) (ok : Nat → Prop)
    (hj : ∀ D σ nb x, JP x → I D σ → I D (step cfg σ nb x))
    (hd : ∀ D σ j, ok j → I D σ → I (j :: D) (step cfg σ (mk j).1 (mk j).2)) :
    ∀ (js : List Nat) (J : Nat → List (Option Nat × Input)) (k : Nat) (D : List Nat) (σ : State),
      (∀ j ∈ js, ok j) → (∀ k, ∀ x ∈ J k, JP x.2) → I D σ →
      I (js.reverse ++ D) (run cfg σ (weave (js.map mk) J k)) := by
  have junk : ∀ (l : List (Option Nat × Input)) (D : List Nat) (σ : State), (∀ x ∈ l, JP x.2) → I D σ →
      I D (run cfg σ l) := by
    intro l
    induction l with
    | nil => intro D σ _ hI; exact hI
    | cons x l ih =>
      intro D σ hl hI
      obtain ⟨nb, i⟩ := x
      exact ih D _ (fun y hy => hl y (List.mem_cons_of_mem _ hy)) (hj D σ nb i (hl _ (List.mem_cons_self ..)) hI)
  intro js
  induction js with
  | nil => intro J k D σ _ hJ hI; exact junk _ D σ (hJ k) hI
  | cons j js ih =>
    intro J k D σ hok hJ hI
    show I ((j :: js).reverse ++ D) (run cfg σ (J k ++ mk j :: weave (js.map mk) J (k + 1)))
    rw [run_append]
    have h1 := junk _ D σ (hJ k) hI
    have h2 := hd D _ j (hok j (List.mem_cons_self ..)) h1
    have h3 := ih J (k + 1) (j :: D) _ (fun x hx => hok x (List.mem_cons_of_mem _ hx)) hJ h2
    have e : (j :: js).reverse ++ D = js.reverse ++ (j :: D) := by simp
    rw [e]
    exact h3

section
variable (cfg : Config) (F : Nat → Bool) (h r pol b : Nat)

theorem run_junk_RX {pr : Option Proposal} {pa : Option (Nat × Bool)} (fm : FaultyMinority cfg.powers F)
    (hpr : ∀ p, pr = some p → p.pol < r) (hpa : pa = none ∨ ∃ d, pa = some (b, d)) (p : Nat)
    (hp : cfg.proposer h r = p) : ∀ (l : List (Option Nat × Input)) (σ : State), JunkL F p h r b l →
      RX cfg F h r pol b pr pa σ → RX cfg F h r pol b pr pa (run cfg σ l)
  | [], _, _, S => S
  | (nb, i) :: l, σ, hl, S =>
    run_junk_RX fm hpr hpa p hp l _ (fun y hy => hl y (List.mem_cons_of_mem _ hy))
      (S.junk cfg F h r pol b fm hpr hpa p hp nb i (hl _ (List.mem_cons_self ..)))

/-- prevote phase: the node has prevoted `b`; if it has precommitted, no precommit of a correct
validator has arrived yet -/
def MidB (σ : State) : Prop :=
  B1 cfg F h r pol b σ ∨ (B2 cfg F h r pol b σ ∧ CorrEmpty F (slotsV σ.votes .precommit h r))

/-- the slot of validator `j` holds a vote for `b` -/
def HasV (t : VType) (j : Nat) (σ : State) : Prop := (slotsV σ.votes t h r)[j]? = some (some (some b))

theorem polLe {σ : State} (B : BBase cfg F h r pol σ) : pol ≤ r := by
  rcases B.pol with h0 | ⟨h1, _⟩ <;> omega

theorem midB_junk {σ : State} (M : MidB cfg F h r pol b σ) (fm : FaultyMinority cfg.powers F)
    (hv : isVal cfg = true) (p : Nat) (hp : cfg.proposer h r = p) (nb : Option Nat) (inp : Input)
    (hj : Junk F p h r b inp) :
    MidB cfg F h r pol b (step cfg σ nb inp) ∧ Grow h r σ (step cfg σ nb inp) := by
  rcases M with S | ⟨S, hE⟩
  · rcases junk_cases cfg F h r pol b S.base fm
      (fun q hq => by rw [S.prop] at hq; cases hq; exact polLe cfg F h r pol S.base)
      (Or.inr ⟨true, S.parts⟩) p hp nb inp hj with v | ⟨peer, idx, t, tgt, sigok, hF, e⟩
    · exact ⟨Or.inl (S.vext cfg F h r pol b v), v.grow⟩
    · subst e
      obtain ⟨h1, h2, _⟩ := S.vote cfg F h r pol b fm hv nb peer idx t tgt sigok
        (fun hF' => by rw [hF] at hF'; cases hF')
      exact ⟨h1, h2⟩
  · rcases junk_cases cfg F h r pol b S.base fm
      (fun q hq => by rw [S.prop] at hq; cases hq; exact polLe cfg F h r pol S.base)
      (Or.inr ⟨true, S.parts⟩) p hp nb inp hj with v | ⟨peer, idx, t, tgt, sigok, hF, e⟩
    · exact ⟨Or.inr ⟨S.vext cfg F h r pol b v, by rw [v.pc]; exact hE⟩, v.grow⟩
    · subst e
      rcases S.vote cfg F h r pol b fm nb peer idx t tgt sigok (fun hF' => by rw [hF] at hF'; cases hF') with
        ⟨S', g, _⟩ | ⟨_, hm, _⟩
      · refine ⟨Or.inr ⟨S', corrEmpty_step cfg F σ nb _ .precommit h r hE ?_⟩, g⟩
        intro idx' tgt' hvo
        have hvo' : (if sigok = true then some (idx, t, h, r, tgt) else none) =
            some (idx', VType.precommit, h, r, tgt') := hvo
        split at hvo'
        · simp only [Option.some.injEq, Prod.mk.injEq] at hvo'
          rw [← hvo'.1]; exact hF
        · cases hvo'
      · rw [isMaj_corrEmpty (hE.set idx _ hF) fm] at hm; cases hm

theorem midB_prevote {σ : State} (M : MidB cfg F h r pol b σ) (fm : FaultyMinority cfg.powers F)
    (hv : isVal cfg = true) (j : Nat) (hF : F j = false) (hj : j < n cfg) :
    MidB cfg F h r pol b (step cfg σ (pvIn h r b j).1 (pvIn h r b j).2) ∧
    Grow h r σ (step cfg σ (pvIn h r b j).1 (pvIn h r b j).2) ∧
    HasV h r b .prevote j (step cfg σ (pvIn h r b j).1 (pvIn h r b j).2) := by
  show MidB cfg F h r pol b (step cfg σ none (.vote j j .prevote h r (some b) true)) ∧
    Grow h r σ (step cfg σ none (.vote j j .prevote h r (some b) true)) ∧
    HasV h r b .prevote j (step cfg σ none (.vote j j .prevote h r (some b) true))
  rcases M with S | ⟨S, hE⟩
  · obtain ⟨h1, h2, h3⟩ := S.vote cfg F h r pol b fm hv none j j .prevote (some b) true (fun _ => ⟨rfl, rfl⟩)
    exact ⟨h1, h2, h3 hF rfl hj⟩
  · rcases S.vote cfg F h r pol b fm none j j .prevote (some b) true (fun _ => rfl) with
      ⟨S', g, hf⟩ | ⟨ht, _, _⟩
    · refine ⟨Or.inr ⟨S', corrEmpty_step cfg F σ none _ .precommit h r hE ?_⟩, g, hf hF rfl hj⟩
      intro idx' tgt' hvo
      unfold voteOf at hvo
      simp at hvo
    · cases ht

/-- the invariant of the prevote phase; `D` = the correct validators whose prevote was delivered -/
def IB (D : List Nat) (σ : State) : Prop :=
  MidB cfg F h r pol b σ ∧ ∀ j ∈ D, HasV h r b .prevote j σ

/-- the invariant of the precommit phase -/
def IC (D : List Nat) (σ : State) : Prop :=
  Action.commit h b ∈ σ.log ∨ (B2 cfg F h r pol b σ ∧ ∀ j ∈ D, HasV h r b .precommit j σ)

theorem ic_junk {D : List Nat} {σ : State} (M : IC cfg F h r pol b D σ) (fm : FaultyMinority cfg.powers F)
    (p : Nat) (hp : cfg.proposer h r = p) (nb : Option Nat) (inp : Input) (hj : Junk F p h r b inp) :
    IC cfg F h r pol b D (step cfg σ nb inp) := by
  rcases M with hd | ⟨S, hD⟩
  · exact Or.inl (step_log_mem cfg σ nb inp _ hd)
  · rcases junk_cases cfg F h r pol b S.base fm
      (fun q hq => by rw [S.prop] at hq; cases hq; exact polLe cfg F h r pol S.base)
      (Or.inr ⟨true, S.parts⟩) p hp nb inp hj with v | ⟨peer, idx, t, tgt, sigok, hF, e⟩
    · exact Or.inr ⟨S.vext cfg F h r pol b v, fun j hj => v.grow F h r .precommit j _ (hD j hj)⟩
    · subst e
      rcases S.vote cfg F h r pol b fm nb peer idx t tgt sigok (fun hF' => by rw [hF] at hF'; cases hF') with
        ⟨S', g, _⟩ | ⟨_, _, hc⟩
      · exact Or.inr ⟨S', fun j hj => g .precommit j _ (hD j hj)⟩
      · exact Or.inl hc

theorem ic_precommit {D : List Nat} {σ : State} (M : IC cfg F h r pol b D σ) (fm : FaultyMinority cfg.powers F)
    (j : Nat) (hF : F j = false) (hj : j < n cfg) :
    IC cfg F h r pol b (j :: D) (step cfg σ (pcIn h r b j).1 (pcIn h r b j).2) := by
  show IC cfg F h r pol b (j :: D) (step cfg σ none (.vote j j .precommit h r (some b) true))
  rcases M with hd | ⟨S, hD⟩
  · exact Or.inl (step_log_mem cfg σ _ _ _ hd)
  · rcases S.vote cfg F h r pol b fm none j j .precommit (some b) true (fun _ => rfl) with
      ⟨S', g, hf⟩ | ⟨_, _, hc⟩
    · refine Or.inr ⟨S', fun k hk => ?_⟩
      rcases List.mem_cons.mp hk with e | hk
      · subst e; exact hf hF rfl hj
      · exact g .precommit k _ (hD k hk)
    · exact Or.inl hc

/-- **phase 1**: (junk) proposal (junk) block (junk): the node has prevoted `b` -/
theorem node_byz_phase1 {σ : State} (R : R0 cfg F h r pol b σ) (fm : FaultyMinority cfg.powers F)
    (hv : isVal cfg = true) (hr0 : 0 < r) (p : Nat) (hp : cfg.proposer h r = p)
    (JA : Nat → List (Option Nat × Input)) (hJA : ∀ k, JunkL F p h r b (JA k)) :
    IB cfg F h r pol b [] (run cfg σ (weave (propIn p h r pol b) JA 0)) ∧
    Action.signVote .prevote h r (some b) ∈ (run cfg σ (weave (propIn p h r pol b) JA 0)).log := by
  have hpol : pol < r := by
    have := R.base.pol
    rcases this with h0 | ⟨h1, _⟩ <;> omega
  show IB cfg F h r pol b [] (run cfg σ (JA 0 ++ (none, .proposal p true h r pol b) ::
      (JA 1 ++ (none, .block h b true true) :: JA 2))) ∧
    _ ∈ (run cfg σ (JA 0 ++ (none, .proposal p true h r pol b) ::
      (JA 1 ++ (none, .block h b true true) :: JA 2))).log
  rw [run_append]
  have S0 := run_junk_RX cfg F h r pol b fm (fun _ hq => by cases hq) (Or.inl rfl) p hp (JA 0) σ (hJA 0) R
  show IB cfg F h r pol b [] (run cfg (step cfg _ none (.proposal p true h r pol b))
      (JA 1 ++ (none, .block h b true true) :: JA 2)) ∧
    _ ∈ (run cfg (step cfg _ none (.proposal p true h r pol b)) (JA 1 ++ (none, .block h b true true) :: JA 2)).log
  have S1 := R0.proposal cfg F h r pol b S0 p hp none
  rw [run_append]
  have S2 := run_junk_RX cfg F h r pol b fm (fun q hq => by cases hq; exact hpol) (Or.inr ⟨false, rfl⟩) p hp
    (JA 1) _ (hJA 1) S1
  show IB cfg F h r pol b [] (run cfg (step cfg _ none (.block h b true true)) (JA 2)) ∧
    _ ∈ (run cfg (step cfg _ none (.block h b true true)) (JA 2)).log
  have S3 := R1.block cfg F h r pol b S2 fm hv none
  refine ⟨?_, run_log_mem cfg _ _ _ S3.sgv⟩
  have key : ∀ (l : List (Option Nat × Input)) (τ : State), JunkL F p h r b l → MidB cfg F h r pol b τ →
      MidB cfg F h r pol b (run cfg τ l) := by
    intro l
    induction l with
    | nil => intro τ _ hM; exact hM
    | cons x l ih =>
      intro τ hl hM
      obtain ⟨nb, i⟩ := x
      exact ih _ (fun y hy => hl y (List.mem_cons_of_mem _ hy))
        (midB_junk cfg F h r pol b hM fm hv p hp nb i (hl _ (List.mem_cons_self ..))).1
  exact ⟨key _ _ (hJA 2) (Or.inl S3), fun _ hj => by cases hj⟩

/-- **phase 2**: the prevotes of the correct validators `js` (+2/3), junk anywhere: the node has
precommitted `b` -/
theorem node_byz_phase2 {σ : State} (M : IB cfg F h r pol b [] σ) (fm : FaultyMinority cfg.powers F)
    (hv : isVal cfg = true) (p : Nat) (hp : cfg.proposer h r = p) (js : List Nat)
    (hlt : ∀ j ∈ js, j < n cfg) (hF : ∀ j ∈ js, F j = false) (hq : Quorate cfg b js)
    (JB : Nat → List (Option Nat × Input)) (hJB : ∀ k, JunkL F p h r b (JB k)) :
    B2 cfg F h r pol b (run cfg σ (weave (js.map (pvIn h r b)) JB 0)) := by
  have := run_weave cfg (IB cfg F h r pol b) (pvIn h r b) (Junk F p h r b) (fun j => F j = false ∧ j < n cfg)
    (fun D τ nb x hx hI => by
      obtain ⟨h1, h2⟩ := midB_junk cfg F h r pol b hI.1 fm hv p hp nb x hx
      exact ⟨h1, fun j hj => h2 .prevote j _ (hI.2 j hj)⟩)
    (fun D τ j hok hI => by
      obtain ⟨h1, h2, h3⟩ := midB_prevote cfg F h r pol b hI.1 fm hv j hok.1 hok.2
      refine ⟨h1, fun k hk => ?_⟩
      rcases List.mem_cons.mp hk with e | hk
      · subst e; exact h3
      · exact h2 .prevote k _ (hI.2 k hk))
    js JB 0 [] σ (fun j hj => ⟨hF j hj, hlt j hj⟩) hJB M
  obtain ⟨hM, hD⟩ := this
  have hmaj := hq _ (fun j hj => hD j (by simp [hj]))
  rcases hM with S | ⟨S, _⟩
  · rw [S.pvNo] at hmaj; cases hmaj
  · exact S

/-- **phase 3**: the precommits of the correct validators `js` (+2/3), junk anywhere: the node
has committed `b` -/
theorem node_byz_phase3 {σ : State} (S : B2 cfg F h r pol b σ) (fm : FaultyMinority cfg.powers F)
    (p : Nat) (hp : cfg.proposer h r = p) (js : List Nat)
    (hlt : ∀ j ∈ js, j < n cfg) (hF : ∀ j ∈ js, F j = false) (hq : Quorate cfg b js)
    (JC : Nat → List (Option Nat × Input)) (hJC : ∀ k, JunkL F p h r b (JC k)) :
    Action.commit h b ∈ (run cfg σ (weave (js.map (pcIn h r b)) JC 0)).log := by
  have := run_weave cfg (IC cfg F h r pol b) (pcIn h r b) (Junk F p h r b) (fun j => F j = false ∧ j < n cfg)
    (fun D τ nb x hx hI => ic_junk cfg F h r pol b hI fm p hp nb x hx)
    (fun D τ j hok hI => ic_precommit cfg F h r pol b hI fm j hok.1 hok.2)
    js JC 0 [] σ (fun j hj => ⟨hF j hj, hlt j hj⟩) hJC (Or.inr ⟨S, fun _ hj => by cases hj⟩)
  rcases this with hd | ⟨S', hD⟩
  · exact hd
  · have hmaj := hq _ (fun j hj => hD j (by simp [hj]))
    rw [S'.pcNo] at hmaj; cases hmaj

end
end KV.Cs.Sync
