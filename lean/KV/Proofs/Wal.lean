import KV.Model.Wal
/-! Lemmas for property C15 (write-ahead log). Core only. -/
namespace KV.Wal

/-! ## big-endian words, padding -/

theorem be32_length (n : Nat) : (be32 n).length = 4 := rfl

theorem be32Val_be32 (n : Nat) (h : n < 4294967296) : be32Val (be32 n) = n := by
  simp only [be32, be32Val, UInt8.toNat_ofNat']
  omega

theorem be32_be32Val (b : Bytes) (h : b.length = 4) : be32 (be32Val b) = b := by
  match b, h with
  | [x, y, z, w], _ =>
    have hx := x.toNat_lt; have hy := y.toNat_lt; have hz := z.toNat_lt; have hw := w.toNat_lt
    simp only [be32, be32Val]
    have e1 : (x.toNat * 16777216 + y.toNat * 65536 + z.toNat * 256 + w.toNat) / 16777216 % 256 = x.toNat := by omega
    have e2 : (x.toNat * 16777216 + y.toNat * 65536 + z.toNat * 256 + w.toNat) / 65536 % 256 = y.toNat := by omega
    have e3 : (x.toNat * 16777216 + y.toNat * 65536 + z.toNat * 256 + w.toNat) / 256 % 256 = z.toNat := by omega
    have e4 : (x.toNat * 16777216 + y.toNat * 65536 + z.toNat * 256 + w.toNat) % 256 = w.toNat := by omega
    rw [e1, e2, e3, e4]
    simp

theorem be32Val_lt (b : Bytes) : be32Val b < 4294967296 := by
  unfold be32Val
  split
  · rename_i x y z w
    have hx := x.toNat_lt; have hy := y.toNat_lt; have hz := z.toNat_lt; have hw := w.toNat_lt
    omega
  · omega

theorem pad_of_le (n : Nat) (bs : Bytes) (h : n ≤ bs.length) : pad n bs = bs := by
  unfold pad
  rw [show n - bs.length = 0 by omega]
  simp

theorem pad_length (n : Nat) (bs : Bytes) (h : bs.length ≤ n) : (pad n bs).length = n := by
  unfold pad
  simp only [List.length_append, List.length_replicate]
  omega

theorem crc_toNat_lt (c : Cfg) (d : Bytes) : (c.crc d).toNat < 4294967296 := (c.crc d).toNat_lt

/-! ## single reads -/

/-- a successful read delivers a prefix and leaves the rest, whatever the reader -/
theorem read_ok (k : RKind) (n : Nat) (s b s' : Bytes) (h : read k n s = (b, .ok, s')) :
    b = s.take n ∧ s' = s.drop n := by
  cases k
  · simp only [read] at h
    split at h
    · cases h
    · split at h
      · injection h with h1 h2; injection h2 with _ h3; exact ⟨h1.symm, h3.symm⟩
      · cases h
  · simp only [read] at h
    split at h
    · rename_i h0
      injection h with h1 h2; injection h2 with _ h3
      subst h0; simp [← h1, ← h3]
    · split at h
      · cases h
      · injection h with h1 h2; injection h2 with _ h3; exact ⟨h1.symm, h3.symm⟩
  · simp only [read] at h
    split at h
    · cases h
    · injection h with h1 h2; injection h2 with _ h3; exact ⟨h1.symm, h3.symm⟩

/-- a successful read of a non-empty buffer means the stream was not empty -/
theorem read_ok_pos (k : RKind) (n : Nat) (s b s' : Bytes) (hn : 0 < n)
    (h : read k n s = (b, .ok, s')) : 0 < s.length := by
  have hn0 : ¬ n = 0 := by omega
  cases k
  · simp only [read, hn0, if_false] at h
    split at h
    · omega
    · cases h
  · simp only [read, hn0, if_false] at h
    split at h
    · cases h
    · omega
  · simp only [read] at h
    split at h
    · cases h
    · omega

/-- reading exactly the bytes that are there -/
theorem read_exact (k : RKind) (x rest : Bytes) (hx : x ≠ []) :
    read k x.length (x ++ rest) = (x, .ok, rest) := by
  have hpos : 0 < x.length := List.length_pos_iff.mpr hx
  have hn0 : ¬ x.length = 0 := by omega
  have h2 : ¬ (x ++ rest).length = 0 := by rw [List.length_append]; omega
  have h3 : x.length ≤ (x ++ rest).length := by rw [List.length_append]; omega
  cases k <;> simp [read, hn0, h2, h3]

/-! ## inversion of a successful decode (any stream) -/

/-- everything a returned message tells about the stream it was read from: the payload is the
(zero-padded) bytes after the header, its length is the length field, its checksum is the checksum
field, it is within the limit and parses -/
theorem decode_msg_inv (c : Cfg) (k : RKind) (s x rest : Bytes) (h : decode c k s = .msg x rest) :
    4 < s.length ∧ (c.crc x).toNat = be32Val (s.take 4) ∧
    x.length = be32Val (pad 4 ((s.drop 4).take 4)) ∧ x.length ≤ c.max ∧
    x = pad x.length ((s.drop 8).take x.length) ∧ rest = s.drop (8 + x.length) ∧
    c.parse x ≠ none := by
  have h' : decodeWith c (read k) s = ((decodeA c k s).1, .msg x rest) := by
    rw [← h]; rfl
  obtain ⟨b1, s1, b2, s2, b3, h1, h2, hmax, h3, hx, hcrc, hp, _⟩ := decodeWith_msg_inv c (read k) s h'
  obtain ⟨e1, e1'⟩ := read_ok k 4 s b1 s1 h1
  obtain ⟨e2, e2'⟩ := read_ok k 4 s1 b2 s2 h2
  obtain ⟨e3, e3'⟩ := read_ok k _ s2 b3 rest h3
  have p1 := read_ok_pos k 4 s1 b2 s2 (by omega) h2
  have hlen : 4 < s.length := by
    rw [e1', List.length_drop] at p1; omega
  have hb1 : pad 4 b1 = s.take 4 := by
    rw [e1]; apply pad_of_le; rw [List.length_take]; omega
  have hs2 : s2 = s.drop 8 := by rw [e2', e1', List.drop_drop]
  have hb3len : b3.length ≤ be32Val (pad 4 b2) := by
    rw [e3, List.length_take]; omega
  have hxlen : x.length = be32Val (pad 4 b2) := by
    rw [hx]; exact pad_length _ _ hb3len
  refine ⟨hlen, ?_, ?_, ?_, ?_, ?_, hp⟩
  · rw [hcrc, hb1]
  · rw [hxlen, e2, e1']
  · rw [hxlen]; exact hmax
  · rw [hxlen, ← hs2, ← e3]; exact hx
  · rw [hxlen, e3', hs2, List.drop_drop]

/-! ## decoding a written record -/

/-- what may be written and read back: non-empty (a `GroupReader` refuses an empty buffer; real
payloads always contain the time field), within the limit, accepted by the payload parser -/
def Valid (c : Cfg) (d : Bytes) : Prop := d ≠ [] ∧ d.length ≤ c.max ∧ c.parse d ≠ none

theorem decodeA_frame (c : Cfg) (k : RKind) (d rest : Bytes) (hmax : c.max < 4294967296)
    (hv : Valid c d) : decodeA c k (frame c d ++ rest) = (d.length, .msg d rest) := by
  obtain ⟨hne, hlen, hp⟩ := hv
  have hb : ∀ n, be32 n ≠ [] := by intro n; simp [be32]
  have r1 : read k 4 (be32 (c.crc d).toNat ++ (be32 d.length ++ (d ++ rest))) =
      (be32 (c.crc d).toNat, .ok, be32 d.length ++ (d ++ rest)) := read_exact k (be32 _) _ (hb _)
  have r2 : read k 4 (be32 d.length ++ (d ++ rest)) = (be32 d.length, .ok, d ++ rest) :=
    read_exact k (be32 _) _ (hb _)
  have r3 : read k d.length (d ++ rest) = (d, .ok, rest) := read_exact k d rest hne
  have v2 : be32Val (pad 4 (be32 d.length)) = d.length := by
    rw [pad_of_le 4 _ (by simp [be32_length]), be32Val_be32 _ (by omega)]
  have v1 : be32Val (pad 4 (be32 (c.crc d).toNat)) = (c.crc d).toNat := by
    rw [pad_of_le 4 _ (by simp [be32_length]), be32Val_be32 _ (crc_toNat_lt c d)]
  unfold decodeA decodeWith frame
  simp only [List.append_assoc, r1, r2, v2, v1, r3, pad_of_le d.length d (Nat.le_refl _)]
  rw [if_neg (by omega)]
  simp only [ne_eq, not_true_eq_false, if_false]
  cases hpd : c.parse d with
  | none => exact absurd hpd hp
  | some _ => rfl

theorem decode_frame (c : Cfg) (k : RKind) (d rest : Bytes) (hmax : c.max < 4294967296)
    (hv : Valid c d) : decode c k (frame c d ++ rest) = .msg d rest := by
  unfold decode; rw [decodeA_frame c k d rest hmax hv]

theorem encode_eq_frame (c : Cfg) (d : Bytes) (hmax : c.max < 4294967296) (hlen : d.length ≤ c.max) :
    encode c d = some (frame c d) := by
  unfold encode frame
  have : d.length % 4294967296 = d.length := Nat.mod_eq_of_lt (by omega)
  simp only [this, List.take_length]
  rw [if_neg (by omega)]

/-! ## whole logs -/

theorem decodeAll_eof (c : Cfg) (k : RKind) (s : Bytes) (h : decode c k s = .eof) :
    decodeAll c k s = ([], .eof) := by
  rw [decodeAll]; split <;> simp_all

theorem decodeAll_corrupt (c : Cfg) (k : RKind) (s r : Bytes) (h : decode c k s = .corrupt r) :
    decodeAll c k s = ([], .corrupt) := by
  rw [decodeAll]; split <;> simp_all

theorem decodeAll_msg (c : Cfg) (k : RKind) (s d rest : Bytes) (h : decode c k s = .msg d rest) :
    decodeAll c k s = (d :: (decodeAll c k rest).1, (decodeAll c k rest).2) := by
  rw [decodeAll]
  split
  · simp_all
  · simp_all
  · rename_i d' rest' h'
    rw [h] at h'
    injection h' with e1 e2
    subst e1; subst e2; rfl

theorem decode_nil (c : Cfg) (k : RKind) : decode c k [] = .eof := by
  cases k <;> simp [decode, decodeA, decodeWith, read]

theorem decodeAll_nil (c : Cfg) (k : RKind) : decodeAll c k [] = ([], .eof) :=
  decodeAll_eof c k [] (decode_nil c k)

theorem frames_append (c : Cfg) (a b : List Bytes) : frames c (a ++ b) = frames c a ++ frames c b := by
  induction a with
  | nil => rfl
  | cons d ds ih => simp [frames, ih]

/-- the written records come back first, in order; what follows depends on the rest only -/
theorem decodeAll_frames (c : Cfg) (k : RKind) (ds : List Bytes) (rest : Bytes)
    (hmax : c.max < 4294967296) (hv : ∀ d ∈ ds, Valid c d) :
    decodeAll c k (frames c ds ++ rest) =
      (ds ++ (decodeAll c k rest).1, (decodeAll c k rest).2) := by
  induction ds with
  | nil => simp [frames]
  | cons d ds ih =>
    have hd := hv d (by simp)
    have hds : ∀ x ∈ ds, Valid c x := fun x hx => hv x (by simp [hx])
    simp only [frames, List.append_assoc]
    rw [decodeAll_msg c k _ d _ (decode_frame c k d _ hmax hd), ih hds]
    simp

/-! ## group readers -/

theorem decodeAllG_flat (c : Cfg) (g : GReader) : decodeAllG c g = decodeAll c .group g.flat := by
  generalize hn : g.flat.length = n
  induction n using Nat.strongRecOn generalizing g with
  | _ n ih =>
    have hf := decodeG_flat c g
    rw [decodeAllG]
    split
    · rename_i h; rw [h] at hf
      rw [decodeAll_eof c .group _ hf]
    · rename_i r h; rw [h] at hf
      rw [decodeAll_corrupt c .group _ _ hf]
    · rename_i d r h
      have hlt := decodeG_lt c g r (Or.inl h)
      rw [h] at hf
      rw [decodeAll_msg c .group _ d _ hf]
      rw [ih r.flat.length (by omega) r rfl]

theorem openAt_flat (files : List Bytes) (i : Nat) : (openAt files i).flat = (files.drop i).flatten := by
  unfold openAt
  split
  · rename_i h; rw [h]; rfl
  · rename_i f fs h; rw [h]; rfl

theorem flatten_map_frames (c : Cfg) (chunks : List (List Bytes)) :
    (chunks.map (frames c)).flatten = frames c chunks.flatten := by
  induction chunks with
  | nil => rfl
  | cons a as ih => simp [frames_append, ih]

/-! ## allocation -/

theorem decodeWith_alloc_le {σ : Type} (c : Cfg) (rd : Nat → σ → Bytes × RErr × σ) (s : σ) :
    (decodeWith c rd s).1 ≤ c.max := by
  unfold decodeWith
  split
  · split <;> simp
  · simp
  · split
    · simp
    · simp
    · split
      · simp
      · rename_i hmax
        split
        · simp only; omega
        · simp only; omega
        · split
          · simp only; omega
          · split <;> (simp only; omega)

/-! ## end of log, torn records -/

theorem decodeWith_eof_inv {σ : Type} (c : Cfg) (rd : Nat → σ → Bytes × RErr × σ) (s : σ) {a : Nat}
    (h : decodeWith c rd s = (a, .eof)) : (rd 4 s).2.1 = .eof ∧ (rd 4 s).1 = [] := by
  unfold decodeWith at h
  split at h
  · rename_i h1
    split at h
    · rename_i hb; rw [h1]; exact ⟨rfl, hb⟩
    · cases h
  · cases h
  · split at h
    · cases h
    · cases h
    · split at h
      · cases h
      · split at h
        · cases h
        · cases h
        · split at h
          · cases h
          · split at h <;> cases h

/-- **end of log is reported only when nothing is left**, whatever the reader (F38: before the fix
the group reader reported it for 1-3 left-over bytes too) -/
theorem decode_eof_nil (c : Cfg) (k : RKind) (s : Bytes) (h : decode c k s = .eof) : s = [] := by
  have h' : decodeWith c (read k) s = ((decodeA c k s).1, .eof) := by rw [← h]; rfl
  obtain ⟨e, eb⟩ := decodeWith_eof_inv c (read k) s h'
  cases k
  · simp only [read] at e eb
    split at e
    · cases e
    · split at e
      · cases e
      · rename_i h0 h1
        simp only [h0, h1, if_false] at eb
        exact eb
  · simp only [read] at e
    split at e
    · cases e
    · split at e
      · exact List.eq_nil_of_length_eq_zero (by assumption)
      · cases e
  · simp only [read] at e
    split at e
    · exact List.eq_nil_of_length_eq_zero (by assumption)
    · cases e

theorem decode_eof_inv (c : Cfg) (k : RKind) (s : Bytes) (h : decode c k s = .eof) : s.length < 4 := by
  rw [decode_eof_nil c k s h]; simp

/-- through a group reader nothing is zero-filled: the whole record was there -/
theorem decode_group_len (c : Cfg) (s x rest : Bytes) (h : decode c .group s = .msg x rest) :
    8 + x.length ≤ s.length := by
  have h' : decodeWith c (read .group) s = ((decodeA c .group s).1, .msg x rest) := by
    rw [← h]; rfl
  obtain ⟨b1, s1, b2, s2, b3, h1, h2, _, h3, hx, _⟩ := decodeWith_msg_inv c (read .group) s h'
  obtain ⟨_, e1'⟩ := read_ok .group 4 s b1 s1 h1
  obtain ⟨_, e2'⟩ := read_ok .group 4 s1 b2 s2 h2
  obtain ⟨e3, _⟩ := read_ok .group _ s2 b3 rest h3
  have g : ∀ (n : Nat) (t b t' : Bytes), read .group n t = (b, .ok, t') → n ≤ t.length := by
    intro n t b t' hr
    simp only [read] at hr
    split at hr
    · cases hr
    · split at hr
      · assumption
      · cases hr
  have l1 := g _ _ _ _ h1
  have l2 := g _ _ _ _ h2
  have l3 := g _ _ _ _ h3
  have hxl : x.length = be32Val (pad 4 b2) := by
    rw [hx]; apply pad_length; rw [e3, List.length_take]; omega
  rw [e1', List.length_drop] at l2
  rw [e2', e1', List.length_drop, List.length_drop] at l3
  omega

def Collision (c : Cfg) : Prop := ∃ a b : Bytes, a ≠ b ∧ c.crc a = c.crc b

theorem frame_take4 (c : Cfg) (d : Bytes) : (frame c d).take 4 = be32 (c.crc d).toNat := by
  simp [frame, be32]

theorem frame_len_field (c : Cfg) (d : Bytes) : ((frame c d).drop 4).take 4 = be32 d.length := by
  simp [frame, be32]

theorem frame_length (c : Cfg) (d : Bytes) : (frame c d).length = 8 + d.length := by
  simp [frame, be32]; omega

/-- a message decoded from a stream that starts with the checksum field of `d` is `d`, or the
checksum collides -/
theorem crc_field_binds (c : Cfg) (k : RKind) (s x rest d : Bytes)
    (h : decode c k s = .msg x rest) (h4 : s.take 4 = be32 (c.crc d).toNat) :
    x = d ∨ Collision c := by
  obtain ⟨_, hcrc, _⟩ := decode_msg_inv c k s x rest h
  rw [h4, be32Val_be32 _ (crc_toNat_lt c d)] at hcrc
  by_cases hxd : x = d
  · exact Or.inl hxd
  · exact Or.inr ⟨x, d, hxd, UInt32.toNat_inj.mp hcrc⟩

/-- a torn record (proper prefix `p` of a record): nothing, or — through a plain reader whose
zero-filled buffer happens to restore the lost tail — the record itself; anything else is a
checksum collision -/
theorem decodeAll_torn (c : Cfg) (k : RKind) (d p q : Bytes) (hpq : p ++ q = frame c d) (hq : q ≠ []) :
    (decodeAll c k p).1 = [] ∨ decodeAll c k p = ([d], .eof) ∨ Collision c := by
  cases hdec : decode c k p with
  | eof => left; rw [decodeAll_eof c k p hdec]
  | corrupt r => left; rw [decodeAll_corrupt c k p r hdec]
  | msg x rest =>
    obtain ⟨hlen, _, _, _, _, hrest, _⟩ := decode_msg_inv c k p x rest hdec
    have h4 : p.take 4 = be32 (c.crc d).toNat := by
      rw [← frame_take4, ← hpq, List.take_append_of_le_length (by omega)]
    rcases crc_field_binds c k p x rest d hdec h4 with hx | hcol
    · subst hx
      have hp : p.length < 8 + x.length := by
        have := congrArg List.length hpq
        rw [List.length_append, frame_length] at this
        have : 0 < q.length := List.length_pos_iff.mpr hq
        omega
      have hr : rest = [] := by
        rw [hrest]; apply List.drop_of_length_le; omega
      right; left
      rw [decodeAll_msg c k p x rest hdec, hr, decodeAll_nil]
    · exact Or.inr (Or.inr hcol)

/-- the same through a group reader: never the record -/
theorem decodeAll_torn_group (c : Cfg) (d p q : Bytes) (hd : d.length < 4294967296)
    (hpq : p ++ q = frame c d) (hq : q ≠ []) :
    (decodeAll c .group p).1 = [] := by
  cases hdec : decode c .group p with
  | eof => rw [decodeAll_eof c _ p hdec]
  | corrupt r => rw [decodeAll_corrupt c _ p r hdec]
  | msg x rest =>
    exfalso
    obtain ⟨_, _, hxl, _⟩ := decode_msg_inv c .group p x rest hdec
    have hg := decode_group_len c p x rest hdec
    have hlen := congrArg List.length hpq
    rw [List.length_append, frame_length] at hlen
    have : 0 < q.length := List.length_pos_iff.mpr hq
    have h8 : (p.drop 4).take 4 = be32 d.length := by
      rw [← frame_len_field c d, ← hpq, List.drop_append_of_le_length (by omega),
        List.take_append_of_le_length (by rw [List.length_drop]; omega)]
    rw [h8, pad_of_le 4 _ (by simp [be32_length]), be32Val_be32 _ hd] at hxl
    omega

/-- cutting a log at an arbitrary offset: whole records, then a torn one (or nothing) -/
theorem take_frames (c : Cfg) (ds : List Bytes) (t : Nat) :
    ∃ j p, (frames c ds).take t = frames c (ds.take j) ++ p ∧
      (p = [] ∨ ∃ d q, ds[j]? = some d ∧ p ++ q = frame c d ∧ q ≠ []) := by
  induction ds generalizing t with
  | nil => exact ⟨0, [], by simp [frames], Or.inl rfl⟩
  | cons d ds ih =>
    by_cases ht : t < (frame c d).length
    · refine ⟨0, (frame c d).take t, ?_, Or.inr ⟨d, (frame c d).drop t, rfl, List.take_append_drop _ _, ?_⟩⟩
      · simp only [frames, List.take_zero, List.nil_append]
        rw [List.take_append_of_le_length (by omega)]
      · intro h
        have := congrArg List.length h
        rw [List.length_drop] at this
        simp at this; omega
    · obtain ⟨j, p, h1, h2⟩ := ih (t - (frame c d).length)
      refine ⟨j + 1, p, ?_, ?_⟩
      · simp only [frames, List.take_succ_cons, List.append_assoc]
        rw [List.take_append, List.take_of_length_le (by omega), h1]
      · simpa using h2

theorem split3 (s : Bytes) (n : Nat) :
    s = s.take 4 ++ ((s.drop 4).take 4 ++ ((s.drop 8).take n ++ s.drop (8 + n))) := by
  have a : s.drop 8 = (s.drop 8).take n ++ s.drop (8 + n) := by
    have := (List.take_append_drop n (s.drop 8)).symm
    rwa [List.drop_drop] at this
  have b : s.drop 4 = (s.drop 4).take 4 ++ s.drop 8 := by
    have := (List.take_append_drop 4 (s.drop 4)).symm
    rwa [List.drop_drop] at this
  rw [← a, ← b, List.take_append_drop]

theorem frames_take_succ (c : Cfg) (ds : List Bytes) (j : Nat) (d : Bytes) (h : ds[j]? = some d) :
    frames c (ds.take (j + 1)) = frames c (ds.take j) ++ frame c d := by
  rw [List.take_add_one, h]
  simp [frames_append, frames]

theorem frames_take_le (c : Cfg) (ds : List Bytes) (j : Nat) :
    (frames c (ds.take j)).length ≤ (frames c ds).length := by
  have h : frames c ds = frames c (ds.take j) ++ frames c (ds.drop j) := by
    rw [← frames_append, List.take_append_drop]
  rw [h, List.length_append]; omega

/-! ## the writer -/

/-- the payloads a sequence of writer operations records (those `Encode` accepts) -/
def written (c : Cfg) (ops : List WOp) : List Bytes :=
  ops.filterMap fun op => match op with
    | .write d => if d.length ≤ c.max then some d else none
    | _ => none

theorem writer_files_gen (c : Cfg) (hmax : c.max < 4294967296) :
    ∀ (ops : List WOp) (old : List (List Bytes)) (hd : List Bytes),
      (∀ op ∈ ops, (∀ bs, op ≠ .append bs) ∧ ∀ d, op = .write d → d.length < 4294967296) →
      ∃ chunks : List (List Bytes),
        (Group.run c ⟨old.map (frames c), frames c hd⟩ ops).files = chunks.map (frames c) ∧
        chunks.flatten = old.flatten ++ hd ++ written c ops := by
  intro ops
  induction ops with
  | nil =>
    intro old hd _
    exact ⟨old ++ [hd], by simp [Group.run, Group.files], by simp [written]⟩
  | cons op ops ih =>
    intro old hd hops
    have hrest : ∀ op' ∈ ops, (∀ bs, op' ≠ .append bs) ∧ ∀ d, op' = .write d → d.length < 4294967296 :=
      fun o ho => hops o (by simp [ho])
    have hrun : ∀ g, Group.run c g (op :: ops) = Group.run c (Group.step c g op) ops := by
      intro g; rfl
    rw [hrun]
    have rot : ∃ chunks : List (List Bytes),
        (Group.run c ⟨old.map (frames c) ++ [frames c hd], []⟩ ops).files = chunks.map (frames c) ∧
        chunks.flatten = old.flatten ++ hd ++ written c ops := by
      obtain ⟨chunks, h1, h2⟩ := ih (old ++ [hd]) [] hrest
      refine ⟨chunks, ?_, ?_⟩
      · simpa [frames] using h1
      · simpa using h2
    cases op with
    | append bs => exact absurd rfl ((hops (.append bs) (by simp)).1 bs)
    | write d =>
      have h32 := (hops (.write d) (by simp)).2 d rfl
      by_cases hd' : d.length ≤ c.max
      · have hstep : Group.step c ⟨old.map (frames c), frames c hd⟩ (.write d) =
            ⟨old.map (frames c), frames c (hd ++ [d])⟩ := by
          simp [Group.step, encode_eq_frame c d hmax hd', frames_append, frames]
        obtain ⟨chunks, h1, h2⟩ := ih old (hd ++ [d]) hrest
        refine ⟨chunks, by rw [hstep]; exact h1, ?_⟩
        rw [h2]; simp [written, hd']
      · have henc : encode c d = none := by
          unfold encode
          rw [Nat.mod_eq_of_lt h32]
          simp; omega
        have hstep : Group.step c ⟨old.map (frames c), frames c hd⟩ (.write d) =
            ⟨old.map (frames c), frames c hd⟩ := by
          simp [Group.step, henc]
        obtain ⟨chunks, h1, h2⟩ := ih old hd hrest
        refine ⟨chunks, by rw [hstep]; exact h1, ?_⟩
        rw [h2]; simp [written, hd']
    | check limit =>
      have hw : written c (WOp.check limit :: ops) = written c ops := by simp [written]
      rw [hw]
      simp only [Group.step]
      by_cases h0 : limit = 0
      · simp only [h0, if_true]; exact ih old hd hrest
      · simp only [h0, if_false]
        by_cases hl : (frames c hd).length ≥ limit
        · simp only [hl, if_true]; exact rot
        · simp only [hl, if_false]; exact ih old hd hrest
    | rotate =>
      have hw : written c (WOp.rotate :: ops) = written c ops := by simp [written]
      rw [hw]
      exact rot

end KV.Wal
