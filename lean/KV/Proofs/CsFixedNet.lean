import KV.Props.C01Cs
import KV.Proofs.CsFixed
/-! The network composition (`KV/Props/C01Cs.lean`) for the repaired node model `stepFixed`
(`KV/Model/CsFixed.lean`): `gstepFixed` / `grunFixed` / `GOkFixed` / `GOkSFixed` are `gstep` / `grun` /
`GOk` / `GOkS` with `stepFixed`; the invariant `GInv` (a predicate on global states, unchanged) is
preserved (`gstepFixed_inv`: the proof of `gstep_inv` with `stepFixed_inv`, `stepFixed_lock`,
`stepFixed_frame`), and agreement follows from `GInv` alone (`agreement_of_ginv`).  Core Lean only. -/
namespace KV.Props.C01Cs
open KV.Cs KV.Agree KV.Props.C03

def gstepFixed (N : Net) (g : GState) (s : GStep) : GState :=
  let σ := g.st s.1
  let σ' := stepFixed (N.cfg s.1) σ s.2.1 s.2.2
  { st := fun j => if j = s.1 then σ' else g.st j,
    tr := g.tr ++ delivered N.F s.2.2 ++ (emitted σ σ').filterMap (evOf s.1) }

def grunFixed (N : Net) (g : GState) : List GStep → GState
  | [] => g
  | s :: rest => grunFixed N (gstepFixed N g s) rest

/-- the hypotheses on an execution of the repaired network (as `GOk`) -/
def GOkFixed (N : Net) : GState → List GStep → Prop
  | _, [] => True
  | g, s :: rest => StepOk N g s ∧ GOkFixed N (gstepFixed N g s) rest

/-- as `GOkS`: timeouts are scheduled ones -/
def GOkSFixed (N : Net) : GState → List GStep → Prop
  | _, [] => True
  | g, s :: rest =>
    (N.F s.1 = false ∧ SchedOk (g.st s.1) s.2.2 ∧ Auth N g.tr s.2.2) ∧ GOkSFixed N (gstepFixed N g s) rest

instance decGOkSFixed (N : Net) : (g : GState) → (steps : List GStep) → Decidable (GOkSFixed N g steps)
  | _, [] => isTrue trivial
  | g, s :: rest =>
    have := decGOkSFixed N (gstepFixed N g s) rest
    by unfold GOkSFixed; exact inferInstance

theorem gstepFixed_inv {N : Net} (wf : N.WF) {g : GState} (G : GInv N g) (s : GStep) (ok : StepOk N g s) :
    GInv N (gstepFixed N g s) := by
  obtain ⟨i, nb, inp⟩ := s
  obtain ⟨hFi, hin, hauth⟩ := ok
  simp only at hFi hin hauth
  have I' : Inv (N.cfg i) (stepFixed (N.cfg i) (g.st i) nb inp) := stepFixed_inv (G.inv i) nb inp hin
  have L' : Lock (N.cfg i) (stepFixed (N.cfg i) (g.st i) nb inp) := stepFixed_lock (G.inv i) (G.lock i) nb inp hin
  have Fr := stepFixed_frame (N.cfg i) (g.st i) nb inp
  obtain ⟨new, hnew⟩ := Fr.log
  have hem : emitted (g.st i) (stepFixed (N.cfg i) (g.st i) nb inp) = new.reverse := emitted_eq hnew
  have hst : ∀ j, (gstepFixed N g (i, nb, inp)).st j =
      if j = i then stepFixed (N.cfg i) (g.st i) nb inp else g.st j := fun j => rfl
  have htr : (gstepFixed N g (i, nb, inp)).tr =
      g.tr ++ delivered N.F inp ++ new.reverse.filterMap (evOf i) := by
    show g.tr ++ delivered N.F inp ++ (emitted _ _).filterMap (evOf i) = _
    rw [hem]
  have hn : n (N.cfg i) = N.powers.length := by unfold n; rw [wf.powers_eq]
  -- every vote in the vote sets of node `i` after the step is in the trace before its emissions
  have hrecv1 : ∀ t h r idx tgt, idx < N.powers.length →
      (slotsV (stepFixed (N.cfg i) (g.st i) nb inp).votes t h r)[idx]? = some (some tgt) →
      (h, mkEv idx t r tgt) ∈ g.tr ++ delivered N.F inp := by
    intro t h r idx tgt hidx hs
    rcases Fr.votes t h r idx tgt hs with h1 | ⟨h1, _⟩
    · exact List.mem_append_left _ (G.recv i t h r idx tgt hidx h1)
    · cases inp with
      | vote peer idx' t' h' r' tgt' sigok =>
        simp only [voteOf] at h1
        split at h1
        · rename_i hsig
          simp only [Option.some.injEq, Prod.mk.injEq] at h1
          obtain ⟨rfl, rfl, rfl, rfl, rfl⟩ := h1
          by_cases hF : N.F idx' = true
          · apply List.mem_append_right
            simp [delivered, hsig, hF]
          · have hF' : N.F idx' = false := by simpa using hF
            exact List.mem_append_left _ (hauth hsig hidx hF')
        · cases h1
      | _ => simp [voteOf] at h1
  refine ⟨?_, ?_, ?_, ?_, ?_, ?_⟩
  · intro j
    rw [hst]
    split
    · rename_i hj; subst hj; exact I'
    · exact G.inv j
  · intro j
    rw [hst]
    split
    · rename_i hj; subst hj; exact L'
    · exact G.lock j
  · -- sent
    intro j h t r tgt hFj hm
    rw [htr] at hm
    rw [hst]
    rcases List.mem_append.mp hm with hm | hm
    · rcases List.mem_append.mp hm with hm | hm
      · have := G.sent j h t r tgt hFj hm
        split
        · rename_i hj; subst hj; rw [hnew]; exact List.mem_append_right _ this
        · exact this
      · have := delivered_faulty N.F inp _ hm
        simp only [mkEv] at this
        rw [hFj] at this
        cases this
    · obtain ⟨a, ha, hev⟩ := List.mem_filterMap.mp hm
      cases a with
      | signVote t' h' r' tgt' =>
        simp only [evOf, Option.some.injEq, Prod.mk.injEq] at hev
        obtain ⟨rfl, he⟩ := hev
        obtain ⟨rfl, rfl, rfl, rfl⟩ := mkEv_inj he
        simp only [if_true]
        rw [hnew]
        exact List.mem_append_left _ (List.mem_reverse.mp ha)
      | _ => simp [evOf] at hev
  · -- compl
    intro j h t r tgt hFj hm
    rw [htr]
    rw [hst] at hm
    split at hm
    · rename_i hj
      subst hj
      rw [hnew] at hm
      rcases List.mem_append.mp hm with hm | hm
      · apply List.mem_append_right
        exact List.mem_filterMap.mpr ⟨_, List.mem_reverse.mpr hm, rfl⟩
      · exact List.mem_append_left _ (List.mem_append_left _ (G.compl _ h t r tgt hFj hm))
    · exact List.mem_append_left _ (List.mem_append_left _ (G.compl j h t r tgt hFj hm))
  · -- recv
    intro j t h r idx tgt hidx hs
    rw [htr]
    rw [hst] at hs
    split at hs
    · exact List.mem_append_left _ (hrecv1 t h r idx tgt hidx hs)
    · exact List.mem_append_left _ (List.mem_append_left _ (G.recv j t h r idx tgt hidx hs))
  · -- good
    intro h
    rw [htr, atH_append, atH_append, atH_evOf]
    have hg1 : KV.Agree.Good (valsOf N.powers) (pwOf N.powers) N.F (atH h g.tr ++ atH h (delivered N.F inp)) := by
      apply good_append_faulty (G.good h)
      intro e he
      exact delivered_faulty N.F inp (h, e) (mem_atH.mp he)
    have hmemT : ∀ e, (h, e) ∈ g.tr ++ delivered N.F inp → e ∈ atH h g.tr ++ atH h (delivered N.F inp) := by
      intro e he
      rw [← atH_append]; exact mem_atH.mpr he
    have hq : ∀ t r x, quorum (N.cfg i).powers (stepFixed (N.cfg i) (g.st i) nb inp).votes t h r x →
        3 * power (valsOf N.powers) (pwOf N.powers)
          (fun v => sentB (atH h g.tr ++ atH h (delivered N.F inp)) v ⟨ty t, r, x⟩) >
        2 * power (valsOf N.powers) (pwOf N.powers) (fun _ => true) := by
      intro t r x hq
      rw [wf.powers_eq] at hq
      exact quorum_power N.powers _ _ t h r x
        (fun idx hidx hs => hmemT _ (hrecv1 t h r idx x hidx hs)) hq
    refine (emit_good h i (stepFixed (N.cfg i) (g.st i) nb inp).log _ (g.st i).log ?_ ?_ ?_ hg1 new ?_ ?_).1
    · intro r b hm
      have := I'.ag _ hm
      exact hq .prevote r (some b) this.1
    · intro r r' b x h1 h2 h3 h4
      obtain ⟨r'', x'', e1, e2, e3, e4⟩ := L'.hist h r r' b x h1 h2 h3 h4
      exact ⟨r'', x'', e1, e2, e3, hq .prevote r'' x'' e4⟩
    · intro vt hm
      rcases List.mem_append.mp hm with hm | hm
      · have hm' := mem_atH.mp hm
        have := G.sent i h (vty vt.ty) vt.round vt.val hFi (by rw [show mkEv i (vty vt.ty) vt.round vt.val = ⟨i, vt⟩ from mkEv_eta ⟨i, vt⟩]; exact hm')
        exact this
      · have := delivered_faulty N.F inp (h, _) (mem_atH.mp hm)
        simp only at this
        rw [hFi] at this
        cases this
    · rw [← hnew]; exact I'.si.1
    · intro a ha; rw [hnew]; exact ha

theorem grunFixed_inv {N : Net} (wf : N.WF) : ∀ (steps : List GStep) (g : GState), GInv N g → GOkFixed N g steps →
    GInv N (grunFixed N g steps)
  | [], _, G, _ => G
  | s :: rest, _, G, hok => grunFixed_inv wf rest _ (gstepFixed_inv wf G s hok.1) hok.2

theorem gokFixed_of_scheduled {N : Net} (wf : N.WF) : ∀ (steps : List GStep) (g : GState), GInv N g →
    GOkSFixed N g steps → GOkFixed N g steps
  | [], _, _, _ => trivial
  | s :: rest, g, G, hok => by
    have hs : StepOk N g s := ⟨hok.1.1, schedOk_inputOk (G.inv s.1) _ hok.1.2.1, hok.1.2.2⟩
    exact ⟨hs, gokFixed_of_scheduled wf rest _ (gstepFixed_inv wf G s hs) hok.2⟩

/-- agreement is a consequence of the invariant of global states alone -/
theorem agreement_of_ginv (N : Net) (wf : N.WF)
    (hF : 3 * power (valsOf N.powers) (pwOf N.powers) N.F <
      power (valsOf N.powers) (pwOf N.powers) (fun _ => true))
    (g : GState) (G : GInv N g) (i i' h b b' : Nat)
    (hc : Action.commit h b ∈ (g.st i).log) (hc' : Action.commit h b' ∈ (g.st i').log) : b = b' := by
  have hq : ∀ j c, Action.commit h c ∈ (g.st j).log →
      ∃ r, commitQ (valsOf N.powers) (pwOf N.powers) (atH h g.tr) r c := by
    intro j c hm
    obtain ⟨⟨r, hq⟩, _⟩ := (G.inv j).ag _ hm
    rw [wf.powers_eq] at hq
    exact ⟨r, quorum_power N.powers _ _ .precommit h r (some c)
      (fun idx hidx hs => mem_atH.mpr (G.recv j .precommit h r idx (some c) hidx hs)) hq⟩
  obtain ⟨r, h1⟩ := hq i b hc
  obtain ⟨r', h2⟩ := hq i' b' hc'
  exact C01_agreement _ _ N.F _ hF (G.good h) r r' b b' h1 h2

/-- **network_agreement for the repaired model**: with less than one third of the power faulty, in
every execution of a network of repaired nodes from `gstart` (timeouts are scheduled ones, votes of
correct validators authentic, everything else arbitrary) two commits of the same height are for
the same block -/
theorem network_agreement_fixed (N : Net) (wf : N.WF)
    (hF : 3 * power (valsOf N.powers) (pwOf N.powers) N.F <
      power (valsOf N.powers) (pwOf N.powers) (fun _ => true))
    (steps : List GStep) (hok : GOkSFixed N (gstart N) steps) (i i' h b b' : Nat)
    (hc : Action.commit h b ∈ ((grunFixed N (gstart N) steps).st i).log)
    (hc' : Action.commit h b' ∈ ((grunFixed N (gstart N) steps).st i').log) : b = b' :=
  agreement_of_ginv N wf hF _
    (grunFixed_inv wf steps _ (gstart_inv N) (gokFixed_of_scheduled wf steps _ (gstart_inv N) hok)) i i' h b b' hc hc'

end KV.Props.C01Cs
