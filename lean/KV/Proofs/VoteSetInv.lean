import KV.Proofs.VoteSetBase
/-! The tally invariant of the VoteSet model and its preservation by every operation (C02). -/
namespace KV.VoteSet
open KV

/-- hypotheses on the validator set: powers are not negative, the total respects the cap
(`ValidatorSet.updateTotalVotingPower` panics above it) -/
structure GoodVals (vals : Vals) : Prop where
  nonneg : NonNeg vals
  cap : totalPower vals ≤ maxTotalVotingPower

/-- a vote the property counts: from validator `i` of this set (index and address), signature
verified for that address over exactly its fields, height/round/type of the set -/
def Valid (sv : SigCheck) (s : VoteSet) (i : Nat) (v : Vote) : Prop :=
  v.idx = i ∧ (∃ val, s.vals[i]? = some val ∧ v.addr = val.addr) ∧ sv v.addr v.msg v.sig = true ∧
  v.height = s.height ∧ v.round = s.round ∧ v.type = s.type

structure BVInv (sv : SigCheck) (s : VoteSet) (k : Key) (bv : BlockVotes) : Prop where
  len : bv.votes.length = s.vals.length
  sum : bv.sum = tally s.vals bv.votes
  valid : ∀ i v, slot bv.votes i = some v → Valid sv s i v ∧ v.bid.key = k ∧ voted s.votes i = true

/-- everything but "a block at quorum implies a recorded majority" (which is re-established by the
crossing test at the end of `addVerifiedVote`) -/
structure Core (sv : SigCheck) (s : VoteSet) : Prop where
  len : s.votes.length = s.vals.length
  bits : s.bits = s.votes.map Option.isSome
  valid : ∀ i v, slot s.votes i = some v → Valid sv s i v
  sum : s.sum = tally s.vals s.votes
  blk : ∀ k bv, lookup k s.byBlock = some bv → BVInv sv s k bv
  majS : ∀ b, s.maj23 = some b →
    ∃ bv, lookup b.key s.byBlock = some bv ∧ quorum (totalPower s.vals) ≤ bv.sum
  majP : ∀ b bv, s.maj23 = some b → lookup b.key s.byBlock = some bv →
    ∀ i, voted bv.votes i = true → ∃ v', slot s.votes i = some v' ∧ v'.bid = b

structure Inv (sv : SigCheck) (s : VoteSet) : Prop extends Core sv s where
  majC : ∀ k bv, lookup k s.byBlock = some bv → quorum (totalPower s.vals) ≤ bv.sum → s.maj23.isSome = true

/-- the immutable part of a vote set -/
def Same (s s' : VoteSet) : Prop :=
  s'.vals = s.vals ∧ s'.height = s.height ∧ s'.round = s.round ∧ s'.type = s.type

theorem Same.refl (s : VoteSet) : Same s s := ⟨rfl, rfl, rfl, rfl⟩
theorem Same.trans {a b c : VoteSet} (h1 : Same a b) (h2 : Same b c) : Same a c := by
  unfold Same at *; grind

theorem add_exact_of_bounds (a b : Int) (ha : 0 ≤ a) (hb : 0 ≤ b) (h : a + b ≤ maxTotalVotingPower) :
    I64.add a b = a + b := by
  rw [maxTotal_val] at h
  exact I64.add_exact a b (by unfold I64.InRange I64.minI64 I64.maxI64; omega)

theorem voted_set (l : Slots) (i j : Nat) (v : Vote) :
    voted (l.set i (some v)) j = if j = i ∧ i < l.length then true else voted l j := by
  unfold voted; rw [slot_set]; split <;> simp

theorem tally_set_fresh (vals : Vals) (l : Slots) (i : Nat) (v : Vote) (val : Val)
    (hv : vals[i]? = some val) (hl : l.length = vals.length) (hs : slot l i = none) :
    tally vals (l.set i (some v)) = tally vals l + val.power := by
  unfold tally
  have hi : i < vals.length := by
    rcases Nat.lt_or_ge i vals.length with h | h
    · exact h
    · rw [List.getElem?_eq_none h] at hv; cases hv
  rw [← psum_update vals (voted l) i val hv (by simp [voted, hs])]
  apply psum_congr
  intro j _
  rw [voted_set]; simp [hl, hi]

theorem tally_set_voted (vals : Vals) (l : Slots) (i : Nat) (v : Vote) (hs : voted l i = true) :
    tally vals (l.set i (some v)) = tally vals l := by
  unfold tally
  apply psum_congr
  intro j _
  rw [voted_set]; split
  · next h => rw [h.1, hs]
  · rfl

theorem tally_le_total (vals : Vals) (hg : GoodVals vals) (l : Slots) : tally vals l ≤ totalPower vals :=
  psum_le_total vals hg.nonneg _

theorem tally_nonneg (vals : Vals) (hg : GoodVals vals) (l : Slots) : 0 ≤ tally vals l :=
  psum_nonneg vals hg.nonneg _

theorem val_power_nonneg (vals : Vals) (hg : GoodVals vals) (i : Nat) (val : Val)
    (hv : vals[i]? = some val) : 0 ≤ val.power :=
  hg.nonneg val (List.mem_of_getElem? hv)

theorem idx_lt_of_get (vals : Vals) (i : Nat) (val : Val) (hv : vals[i]? = some val) : i < vals.length := by
  rcases Nat.lt_or_ge i vals.length with h | h
  · exact h
  · rw [List.getElem?_eq_none h] at hv; cases hv

/-! ### the fresh state -/

theorem tally_replicate (vals : Vals) (n : Nat) : tally vals (List.replicate n none) = 0 :=
  psum_false vals _ (fun i _ => by simp [voted, slot_replicate])

theorem inv_new (sv : SigCheck) (h r t : Nat) (vals : Vals) : Inv sv (new h r t vals) where
  len := by simp [new]
  bits := by simp [new]
  valid := by intro i v hs; simp [new, slot_replicate] at hs
  sum := by simp [new, tally_replicate]
  blk := by intro k bv hl; simp [new, lookup] at hl
  majS := by intro b hb; simp [new] at hb
  majC := by intro k bv hl; simp [new, lookup] at hl
  majP := by intro b bv hb; simp [new] at hb

theorem bvinv_new (sv : SigCheck) (s : VoteSet) (k : Key) (p : Bool) :
    BVInv sv s k (newBlockVotes p s.vals.length) where
  len := by simp [newBlockVotes]
  sum := by simp [newBlockVotes, tally_replicate]
  valid := by intro i v hs; simp [newBlockVotes, slot_replicate] at hs

/-! ### first part of `addVerifiedVote` -/

/-- the validator had no vote yet: the vote becomes its primary vote and its power is added -/
theorem inv_fresh (sv : SigCheck) (s : VoteSet) (hg : GoodVals s.vals) (hI : Inv sv s) (v : Vote)
    (val : Val) (hval : s.vals[v.idx]? = some val) (hv : Valid sv s v.idx v)
    (hnone : slot s.votes v.idx = none) :
    Inv sv { s with votes := s.votes.set v.idx (some v), bits := s.bits.set v.idx true,
                    sum := I64.add s.sum val.power } := by
  have hi := idx_lt_of_get _ _ _ hval
  have hil : v.idx < s.votes.length := by rw [hI.len]; exact hi
  have htal := tally_set_fresh s.vals s.votes v.idx v val hval hI.len hnone
  refine ⟨⟨?_, ?_, ?_, ?_, ?_, ?_, ?_⟩, ?_⟩
  · simp [hI.len]
  · simp [hI.bits, List.map_set]
  · intro i w hs
    simp only [slot_set] at hs
    split at hs
    · next h => cases hs; rw [h.1]; exact hv
    · exact hI.valid i w hs
  · simp only
    rw [htal, hI.sum]
    apply add_exact_of_bounds
    · exact tally_nonneg _ hg _
    · exact val_power_nonneg _ hg _ _ hval
    · rw [← htal]; exact Int.le_trans (tally_le_total _ hg _) hg.cap
  · intro k bv hl
    have := hI.blk k bv hl
    refine ⟨this.len, this.sum, ?_⟩
    intro i w hs
    obtain ⟨h1, h2, h3⟩ := this.valid i w hs
    refine ⟨h1, h2, ?_⟩
    simp only [voted_set]; split <;> simp [h3]
  · exact hI.majS
  · intro b bv hb hl i hvi
    obtain ⟨v', h1, h2⟩ := hI.majP b bv hb hl i hvi
    refine ⟨v', ?_, h2⟩
    simp only [slot_set]
    split
    · next h => rw [h.1, hnone] at h1; cases h1
    · exact h1
  · exact hI.majC

/-- the validator has a primary vote for another block and the new vote is for the block that
already has the majority: the primary vote is replaced, nothing is added to the sum -/
theorem inv_replace (sv : SigCheck) (s : VoteSet) (hI : Inv sv s) (v : Vote)
    (hv : Valid sv s v.idx v) (hsome : voted s.votes v.idx = true)
    (hm : ∀ b, s.maj23 = some b → b = v.bid) :
    Inv sv { s with votes := s.votes.set v.idx (some v), bits := s.bits.set v.idx true } := by
  refine ⟨⟨?_, ?_, ?_, ?_, ?_, ?_, ?_⟩, ?_⟩
  · simp [hI.len]
  · simp [hI.bits, List.map_set]
  · intro i w hs
    simp only [slot_set] at hs
    split at hs
    · next h => cases hs; rw [h.1]; exact hv
    · exact hI.valid i w hs
  · simp only
    rw [tally_set_voted _ _ _ _ hsome]; exact hI.sum
  · intro k bv hl
    have := hI.blk k bv hl
    refine ⟨this.len, this.sum, ?_⟩
    intro i w hs
    obtain ⟨h1, h2, h3⟩ := this.valid i w hs
    refine ⟨h1, h2, ?_⟩
    simp only [voted_set]; split <;> simp [h3]
  · exact hI.majS
  · intro b bv hb hl i hvi
    obtain ⟨v', h1, h2⟩ := hI.majP b bv hb hl i hvi
    simp only [slot_set]
    split
    · exact ⟨v, rfl, (hm b hb).symm⟩
    · exact ⟨v', h1, h2⟩
  · exact hI.majC

/-! ### last part of `addVerifiedVote`: the block's own votes and the quorum crossing -/

theorem bvadd_fresh (bv : BlockVotes) (v : Vote) (pw : Int) (h : slot bv.votes v.idx = none) :
    bv.add v pw = { bv with votes := bv.votes.set v.idx (some v), sum := I64.add bv.sum pw } := by
  simp [BlockVotes.add, h]

/-- frame rule for a block entry: it only looks at the immutable part and at who has voted -/
theorem BVInv.frame {sv : SigCheck} {s s' : VoteSet} {k : Key} {bv : BlockVotes} (h : BVInv sv s k bv)
    (hs : Same s s') (hvo : ∀ i, voted s.votes i = true → voted s'.votes i = true) : BVInv sv s' k bv := by
  obtain ⟨e1, e2, e3, e4⟩ := hs
  refine ⟨by rw [e1]; exact h.len, by rw [e1]; exact h.sum, ?_⟩
  intro i w hw
  obtain ⟨h1, h2, h3⟩ := h.valid i w hw
  refine ⟨?_, h2, hvo i h3⟩
  unfold Valid at *; rw [e1, e2, e3, e4]; exact h1

/-- `votesByBlock[k] = bv'` keeps the core invariant when the new entry is itself consistent -/
theorem core_insert (sv : SigCheck) (s : VoteSet) (hI : Core sv s) (k : Key) (bv' : BlockVotes)
    (hB' : BVInv sv s k bv')
    (hS : ∀ b, s.maj23 = some b → b.key = k → quorum (totalPower s.vals) ≤ bv'.sum)
    (hp : ∀ b, s.maj23 = some b → b.key = k → ∀ i, voted bv'.votes i = true →
      ∃ v', slot s.votes i = some v' ∧ v'.bid = b) :
    Core sv { s with byBlock := insert k bv' s.byBlock } := by
  refine ⟨hI.len, hI.bits, hI.valid, hI.sum, ?_, ?_, ?_⟩
  · intro k' bv0 hl
    by_cases hkk : k' = k
    · subst hkk; simp only [lookup_insert_self] at hl; cases hl
      exact hB'.frame ⟨rfl, rfl, rfl, rfl⟩ (fun _ h => h)
    · simp only [lookup_insert_ne _ _ _ _ hkk] at hl
      exact (hI.blk k' bv0 hl).frame ⟨rfl, rfl, rfl, rfl⟩ (fun _ h => h)
  · intro b hb
    by_cases hkk : b.key = k
    · exact ⟨bv', by simp only [hkk, lookup_insert_self], hS b hb hkk⟩
    · obtain ⟨bv0, h1, h2⟩ := hI.majS b hb
      exact ⟨bv0, by simp only [lookup_insert_ne _ _ _ _ hkk]; exact h1, h2⟩
  · intro b bv0 hb hl i hvi
    by_cases hkk : b.key = k
    · simp only [hkk, lookup_insert_self] at hl; cases hl
      exact hp b hb hkk i hvi
    · simp only [lookup_insert_ne _ _ _ _ hkk] at hl; exact hI.majP b bv0 hb hl i hvi

theorem majC_insert (s : VoteSet) (k : Key) (bv' : BlockVotes)
    (hC : ∀ k bv, lookup k s.byBlock = some bv → quorum (totalPower s.vals) ≤ bv.sum → s.maj23.isSome = true)
    (hq : quorum (totalPower s.vals) ≤ bv'.sum → s.maj23.isSome = true) :
    ∀ k' bv, lookup k' (insert k bv' s.byBlock) = some bv → quorum (totalPower s.vals) ≤ bv.sum →
      s.maj23.isSome = true := by
  intro k' bv0 hl hq'
  by_cases hkk : k' = k
  · subst hkk; simp only [lookup_insert_self] at hl; cases hl; exact hq hq'
  · simp only [lookup_insert_ne _ _ _ _ hkk] at hl; exact hC k' bv0 hl hq'

/-- the quorum crossing: the block becomes the recorded majority and its votes the primary votes -/
theorem inv_cross (sv : SigCheck) (s : VoteSet) (hI : Core sv s) (b : BlockId) (bv : BlockVotes)
    (_hnone : s.maj23 = none) (hl : lookup b.key s.byBlock = some bv)
    (hq : quorum (totalPower s.vals) ≤ bv.sum) :
    Inv sv { s with maj23 := some b, votes := copyOver s.votes bv.votes } := by
  have hB := hI.blk _ _ hl
  have hlen : s.votes.length = bv.votes.length := by rw [hI.len, hB.len]
  have hvoted : ∀ i, voted (copyOver s.votes bv.votes) i = voted s.votes i := by
    intro i
    simp only [voted, slot_copyOver _ _ hlen]
    cases hs : slot bv.votes i with
    | none => simp
    | some w =>
      have := (hB.valid i w hs).2.2
      simp [voted] at this ⊢; exact this
  refine ⟨⟨?_, ?_, ?_, ?_, ?_, ?_, ?_⟩, ?_⟩
  · simp [copyOver_length, hI.len]
  · simp only
    rw [hI.bits]
    exact (map_isSome_eq _ _ (by simp [copyOver_length]) hvoted).symm
  · intro i w hs
    simp only [slot_copyOver _ _ hlen] at hs
    cases hb : slot bv.votes i with
    | none => rw [hb] at hs; simp at hs; exact hI.valid i w hs
    | some w' => rw [hb] at hs; simp at hs; subst hs; exact (hB.valid i w' hb).1
  · simp only
    rw [hI.sum]; unfold tally
    exact psum_congr _ _ _ (fun i _ => (hvoted i).symm)
  · intro k bv0 hl0
    exact (hI.blk k bv0 hl0).frame ⟨rfl, rfl, rfl, rfl⟩ (fun i h => by simp only [hvoted]; exact h)
  · intro b' hb'
    simp only [Option.some.injEq] at hb'; subst hb'
    exact ⟨bv, hl, hq⟩
  · intro b' bv0 hb' hl0 i hvi
    simp only [Option.some.injEq] at hb'; subst hb'
    simp only at hl0; rw [hl] at hl0; cases hl0
    simp only [slot_copyOver _ _ hlen]
    simp only [voted] at hvi
    cases hs : slot bv.votes i with
    | none => rw [hs] at hvi; simp at hvi
    | some w =>
      refine ⟨w, by simp, ?_⟩
      exact BlockId.key_inj.mp (hB.valid i w hs).2.1
  · intro _ _ _ _; rfl

theorem inv_addToBlock (sv : SigCheck) (s : VoteSet) (hg : GoodVals s.vals) (hI : Inv sv s) (v : Vote)
    (k : Key) (hk : k = v.bid.key) (bv : BlockVotes) (val : Val)
    (hval : s.vals[v.idx]? = some val) (hv : Valid sv s v.idx v)
    (hB : BVInv sv s k bv) (hnone : slot bv.votes v.idx = none)
    (hS : ∀ b, s.maj23 = some b → b.key = k → quorum (totalPower s.vals) ≤ bv.sum)
    (hq : quorum (totalPower s.vals) ≤ bv.sum → s.maj23.isSome = true)
    (hp : ∀ b, s.maj23 = some b → b.key = k → ∀ i, voted bv.votes i = true →
      ∃ v', slot s.votes i = some v' ∧ v'.bid = b)
    (hprim : ∃ v', slot s.votes v.idx = some v' ∧ ∀ b, s.maj23 = some b → b.key = k → v'.bid = b) :
    Inv sv (addToBlock s v k val.power bv) := by
  have hpw := val_power_nonneg _ hg _ _ hval
  have htal := tally_set_fresh s.vals bv.votes v.idx v val hval hB.len hnone
  have hsum : I64.add bv.sum val.power = bv.sum + val.power := by
    rw [hB.sum]
    apply add_exact_of_bounds _ _ (tally_nonneg _ hg _) hpw
    rw [← htal]; exact Int.le_trans (tally_le_total _ hg _) hg.cap
  obtain ⟨vp, hvp, hvpb⟩ := hprim
  have hsum' : (bv.add v val.power).sum = bv.sum + val.power := by
    rw [bvadd_fresh _ _ _ hnone]; exact hsum
  have hvotes' : (bv.add v val.power).votes = bv.votes.set v.idx (some v) := by
    rw [bvadd_fresh _ _ _ hnone]
  have hB' : BVInv sv s k (bv.add v val.power) := by
    refine ⟨by rw [hvotes']; simp [hB.len], ?_, ?_⟩
    · rw [hsum', hvotes', htal, hB.sum]
    · intro i w hs
      rw [hvotes'] at hs
      simp only [slot_set] at hs
      split at hs
      · next h => cases hs; rw [h.1]; exact ⟨hv, hk.symm, by simp [voted, hvp]⟩
      · exact hB.valid i w hs
  have hcore := core_insert sv s hI.toCore k (bv.add v val.power) hB'
    (by intro b hb hkk; have := hS b hb hkk; rw [hsum']; omega)
    (by
      intro b hb hkk i hvi
      rw [hvotes', voted_set] at hvi
      split at hvi
      · next h => rw [h.1]; exact ⟨vp, hvp, hvpb b hb hkk⟩
      · exact hp b hb hkk i hvi)
  unfold addToBlock
  simp only
  split
  · next hc =>
    split
    · next hm =>

      exact inv_cross sv _ hcore v.bid (bv.add v val.power) hm
        (by simp only [← hk, lookup_insert_self]) hc.2
    · next m hm =>

      exact ⟨hcore, majC_insert s k _ hI.majC (fun _ => by simp [hm])⟩
  · next hc =>
    refine ⟨hcore, majC_insert s k _ hI.majC ?_⟩
    intro hq'
    apply hq
    by_cases h : bv.sum < quorum (totalPower s.vals)
    · exact absurd ⟨h, hq'⟩ hc
    · omega

/-! ### `addVerifiedVote`, `addVote`, `SetPeerMaj23`, op sequences -/

theorem newBlockVotes_sum (p : Bool) (n : Nat) : (newBlockVotes p n).sum = 0 := rfl

theorem inv_addTracked (sv : SigCheck) (s : VoteSet) (hg : GoodVals s.vals) (hI : Inv sv s) (v : Vote)
    (k : Key) (hk : k = v.bid.key) (val : Val) (c : Option Vote)
    (hval : s.vals[v.idx]? = some val) (hv : Valid sv s v.idx v)
    (hnone : ∀ bv, lookup k s.byBlock = some bv → slot bv.votes v.idx = none)
    (hprim : ∃ v', slot s.votes v.idx = some v' ∧ ∀ b, s.maj23 = some b → b.key = k → v'.bid = b) :
    Inv sv (addTracked s v k val.power c).1 := by
  unfold addTracked
  cases hl : lookup k s.byBlock with
  | some bv =>
    simp only
    split
    · exact hI
    · apply inv_addToBlock sv s hg hI v k hk bv val hval hv (hI.blk k bv hl) (hnone bv hl)
      · intro b hb hkk
        obtain ⟨bv0, h1, h2⟩ := hI.majS b hb
        rw [hkk, hl] at h1; cases h1; exact h2
      · exact hI.majC k bv hl
      · intro b hb hkk
        exact hI.majP b bv hb (by rw [hkk]; exact hl)
      · exact hprim
  | none =>
    simp only
    split
    · exact hI
    · apply inv_addToBlock sv s hg hI v k hk _ val hval hv (bvinv_new sv s k false)
        (by simp [newBlockVotes, slot_replicate])
      · intro b hb hkk
        obtain ⟨bv0, h1, _⟩ := hI.majS b hb
        rw [hkk, hl] at h1; cases h1
      · intro hq
        have := quorum_pos _ (totalPower_nonneg _ hg.nonneg) hg.cap
        rw [newBlockVotes_sum] at hq; omega
      · intro b _ _ i hvi
        simp [newBlockVotes, voted, slot_replicate] at hvi
      · exact hprim

theorem getVote_none (s : VoteSet) (i : Nat) (k : Key) (h : getVote s i k = none) :
    (∀ ex, slot s.votes i = some ex → ex.bid.key ≠ k) ∧
    (∀ bv, lookup k s.byBlock = some bv → slot bv.votes i = none) := by
  unfold getVote at h
  constructor
  · intro ex hex hk
    rw [hex] at h; simp [hk] at h
  · intro bv hl
    rw [hl] at h
    cases hs : slot s.votes i with
    | none => rw [hs] at h; exact h
    | some ex =>
      rw [hs] at h; simp only at h
      split at h
      · cases h
      · exact h

theorem maj23Is_iff (s : VoteSet) (k : Key) : maj23Is s k = true ↔ ∃ m, s.maj23 = some m ∧ m.key = k := by
  unfold maj23Is
  cases s.maj23 <;> simp

theorem addTracked_same (s : VoteSet) (v : Vote) (k : Key) (pw : Int) (c : Option Vote) :
    Same s (addTracked s v k pw c).1 := by
  unfold addTracked addToBlock
  dsimp only
  repeat' split
  all_goals exact ⟨rfl, rfl, rfl, rfl⟩

theorem inv_addVerified (sv : SigCheck) (s : VoteSet) (hg : GoodVals s.vals) (hI : Inv sv s) (v : Vote)
    (val : Val) (hval : s.vals[v.idx]? = some val) (hv : Valid sv s v.idx v)
    (hget : getVote s v.idx v.bid.key = none) :
    ∃ r, addVerified s v v.bid.key val.power = some r ∧ Inv sv r.1 ∧ Same s r.1 := by
  obtain ⟨hg1, hg2⟩ := getVote_none s v.idx _ hget
  have hi := idx_lt_of_get _ _ _ hval
  unfold addVerified
  cases hs : slot s.votes v.idx with
  | some ex =>
    have hne : ex.bid.equal v.bid = false := by
      cases h : ex.bid.equal v.bid with
      | false => rfl
      | true => exact absurd (congrArg BlockId.key (BlockId.equal_iff.mp h)) (hg1 ex hs)
    simp only [hne]
    refine ⟨_, rfl, ?_, ?_⟩
    · by_cases hm : maj23Is s v.bid.key = true
      · simp only [hm, if_true]
        obtain ⟨m, hm1, hm2⟩ := (maj23Is_iff _ _).mp hm
        have hI1 := inv_replace sv s hI v hv (by simp [voted, hs])
          (by intro b hb; rw [hm1] at hb; cases hb; exact BlockId.key_inj.mp hm2)
        apply inv_addTracked sv _ (by exact hg) hI1 v _ rfl val _ hval hv hg2
        refine ⟨v, ?_, ?_⟩
        · simp only [slot_set]; simp [hI.len, hi]
        · intro b _ hkk; exact (BlockId.key_inj.mp hkk).symm
      · simp only [hm]
        apply inv_addTracked sv _ hg hI v _ rfl val _ hval hv hg2
        refine ⟨ex, hs, ?_⟩
        intro b hb hkk
        exact absurd ((maj23Is_iff _ _).mpr ⟨b, hb, hkk⟩) hm
    · by_cases hm : maj23Is s v.bid.key = true
      · simp only [hm, if_true]
        exact Same.trans ⟨rfl, rfl, rfl, rfl⟩ (addTracked_same _ _ _ _ _)
      · simp only [hm]
        exact addTracked_same _ _ _ _ _
  | none =>
    simp only
    refine ⟨_, rfl, ?_, ?_⟩
    · have hI1 := inv_fresh sv s hg hI v val hval hv hs
      apply inv_addTracked sv _ (by exact hg) hI1 v _ rfl val _ hval hv hg2
      refine ⟨v, ?_, ?_⟩
      · simp only [slot_set]; simp [hI.len, hi]
      · intro b _ hkk; exact (BlockId.key_inj.mp hkk).symm
    · exact Same.trans ⟨rfl, rfl, rfl, rfl⟩ (addTracked_same _ _ _ _ _)

/-- `addVote` never reaches the `PanicSanity` of `addVerifiedVote`, keeps the invariant and the
immutable part -/
theorem inv_addVote (sv : SigCheck) (s : VoteSet) (hg : GoodVals s.vals) (hI : Inv sv s) (ov : Option Vote) :
    Inv sv (addVote sv s ov).1 ∧ Same s (addVote sv s ov).1 ∧ (addVote sv s ov).2.err ≠ some .panic := by
  unfold addVote
  cases ov with
  | none => exact ⟨hI, Same.refl s, by simp⟩
  | some v =>
    simp only
    split
    · exact ⟨hI, Same.refl s, by simp⟩
    split
    · exact ⟨hI, Same.refl s, by simp⟩
    next hstep =>
    split
    · exact ⟨hI, Same.refl s, by simp⟩
    next val hval =>
    split
    · exact ⟨hI, Same.refl s, by simp⟩
    next haddr =>
    split
    · split <;> exact ⟨hI, Same.refl s, by simp⟩
    next hget =>
    split
    · exact ⟨hI, Same.refl s, by simp⟩
    next hsv =>
    have haddr' : v.addr = val.addr := by
      cases Nat.decEq v.addr val.addr with
      | isTrue h => exact h
      | isFalse h => exact absurd h haddr
    have hv : Valid sv s v.idx v := by
      refine ⟨rfl, ⟨val, hval, haddr'⟩, ?_, ?_⟩
      · rw [haddr']; simpa using hsv
      · omega
    obtain ⟨r, hr, hI', hS'⟩ := inv_addVerified sv s hg hI v val hval hv hget
    rw [hr]
    obtain ⟨s', added, conflicting⟩ := r
    simp only
    split <;> exact ⟨hI', hS', by simp⟩

theorem inv_setPeerMaj23 (sv : SigCheck) (s : VoteSet) (hg : GoodVals s.vals) (hI : Inv sv s) (p : Nat)
    (b : BlockId) : Inv sv (setPeerMaj23 s p b).1 ∧ Same s (setPeerMaj23 s p b).1 := by
  unfold setPeerMaj23
  simp only
  split
  · split <;> exact ⟨hI, Same.refl s⟩
  · have hI1 : Inv sv { s with peerMaj := s.peerMaj ++ [(p, b)] } :=
      ⟨⟨hI.len, hI.bits, hI.valid, hI.sum,
        fun k bv hl => (hI.blk k bv hl).frame ⟨rfl, rfl, rfl, rfl⟩ (fun _ h => h), hI.majS, hI.majP⟩, hI.majC⟩
    split
    · next bv hl =>
      split
      · exact ⟨hI1, ⟨rfl, rfl, rfl, rfl⟩⟩
      · refine ⟨⟨?_, ?_⟩, ⟨rfl, rfl, rfl, rfl⟩⟩
        · have hB := hI.blk _ _ hl
          apply core_insert sv _ hI1.toCore b.key { bv with peerMaj23 := true }
            ⟨hB.len, hB.sum, hB.valid⟩
          · intro m hm hkk
            obtain ⟨bv0, h1, h2⟩ := hI.majS m hm
            rw [hkk, hl] at h1; cases h1; exact h2
          · intro m hm hkk
            exact hI.majP m bv hm (by rw [hkk]; exact hl)
        · exact majC_insert _ b.key _ hI1.majC (fun hq => hI.majC _ bv hl hq)
    · next hl =>
      refine ⟨⟨?_, ?_⟩, ⟨rfl, rfl, rfl, rfl⟩⟩
      · apply core_insert sv _ hI1.toCore b.key _ (bvinv_new sv _ b.key true)
        · intro m hm hkk
          obtain ⟨bv0, h1, _⟩ := hI.majS m hm
          rw [hkk, hl] at h1; cases h1
        · intro m _ _ i hvi
          simp [newBlockVotes, voted, slot_replicate] at hvi
      · apply majC_insert _ b.key _ hI1.majC
        intro hq
        have := quorum_pos _ (totalPower_nonneg _ hg.nonneg) hg.cap
        simp only [newBlockVotes_sum] at hq; omega

theorem inv_apply (sv : SigCheck) (s : VoteSet) (hg : GoodVals s.vals) (hI : Inv sv s) (op : Op) :
    Inv sv (apply sv s op) ∧ Same s (apply sv s op) := by
  cases op with
  | vote v => exact ⟨(inv_addVote sv s hg hI v).1, (inv_addVote sv s hg hI v).2.1⟩
  | peer p b => exact inv_setPeerMaj23 sv s hg hI p b

theorem inv_run (sv : SigCheck) (s : VoteSet) (hg : GoodVals s.vals) (hI : Inv sv s) (ops : List Op) :
    Inv sv (run sv s ops) ∧ Same s (run sv s ops) := by
  induction ops generalizing s with
  | nil => exact ⟨hI, Same.refl s⟩
  | cons op ops ih =>
    obtain ⟨h1, h2⟩ := inv_apply sv s hg hI op
    have hg' : GoodVals (apply sv s op).vals := by rw [h2.1]; exact hg
    obtain ⟨h3, h4⟩ := ih (apply sv s op) hg' h1
    exact ⟨h3, Same.trans h2 h4⟩

/-- every state reachable from `NewVoteSet` by any sequence of votes and peer claims -/
theorem inv_reachable (sv : SigCheck) (h r t : Nat) (vals : Vals) (hg : GoodVals vals) (ops : List Op) :
    Inv sv (run sv (new h r t vals) ops) ∧ Same (new h r t vals) (run sv (new h r t vals) ops) :=
  inv_run sv _ hg (inv_new sv h r t vals) ops

end KV.VoteSet
