import KV.Proofs.TrieProofSound
/-! Completeness of proofs (property C07, part 4): what the model's `prove` emits verifies to what
`get` returns (unless the emitted blobs themselves contain a hash collision). -/
namespace KV.Trie
open KV KV.Rlp

/-- the verdict `VerifyProof` should reach for a `get` result -/
def verdictOf : Option (Option Bytes) → VRes
  | some (some v) => .val v
  | some none => .absent
  | none => .err

theorem proofBlobs_cons_false (H : Bytes → Bytes) (n : Node) (ns : List Node) :
    proofBlobs H (n :: ns) false =
      (if (enc (item H n)).length < 32 then [] else [enc (item H n)]) ++ proofBlobs H ns false := by
  simp only [proofBlobs]
  by_cases h : (enc (item H n)).length < 32
  · have : ¬ ((enc (item H n)).length ≥ 32 ∨ false = true) := by simp; omega
    simp [h, this]
  · have : (enc (item H n)).length ≥ 32 ∨ false = true := Or.inl (by omega)
    simp [h, this]

/-- the node list collected by `Prove` starts with the node itself; the blobs of the rest are
`belowBlobs` -/
theorem pathBlobs (H : Bytes → Bytes) : ∀ c, Canon c → ∀ key, VKey key →
    ∃ ps, provePath c key = some (c :: ps) ∧ proofBlobs H ps false = belowBlobs H c key := by
  intro c
  induction c with
  | nil => intro h; exact absurd h (by simp [Canon])
  | value v => intro h; exact absurd h (by simp [Canon])
  | hash h => intro h; exact absurd h (by simp [Canon])
  | short sk c ih =>
    intro hcan key hk
    have hkne := vkey_ne_nil hk
    by_cases hp : sk.isPrefixOf key = true
    · obtain ⟨r, rfl⟩ := isPrefixOf_split hp
      rw [belowBlobs_short]
      rcases hcan with ⟨hv, v, rfl⟩ | ⟨_, hn, ⟨cs, rfl⟩, hcc⟩
      · have := vkey_prefix_free sk r hk hv
        subst this
        refine ⟨[], ?_, ?_⟩
        · simp [provePath, vkey_ne_nil hv, isPrefixOf_refl]
        · simp [proofBlobs, selfBlobs, belowBlobs]
      · have hrne : r ≠ [] := by
          intro e; subst e
          rw [List.append_nil] at hk
          exact nibbles_not16 hn (vkey_mem16 _ hk)
        have hvr := (vkey_append sk r hk hrne).2
        obtain ⟨ps, h1, h2⟩ := ih hcc r hvr
        refine ⟨.full cs :: ps, ?_, ?_⟩
        · simp [provePath, hkne, hp, drop_len_append, h1]
        · rw [proofBlobs_cons_false, h2, selfBlobs_canon H hcc]
    · refine ⟨[], ?_, ?_⟩
      · simp [provePath, hkne, hp]
      · simp [proofBlobs, belowBlobs, hp]
  | full cs ih =>
    intro hcan key hk
    cases key with
    | nil => exact absurd hk (by simp [VKey])
    | cons x r =>
      have hx := vkey_head_le hk
      have hxg : ¬ x > 16 := by omega
      rw [belowBlobs_full]
      by_cases h16 : x = 16
      · subst h16
        have := vkey_16 hk
        subst this
        rcases hcan.2.1 with e | ⟨v, e⟩
        · exact ⟨[], by simp [provePath, e], by simp [proofBlobs, selfBlobs, belowBlobs, e]⟩
        · exact ⟨[], by simp [provePath, e], by simp [proofBlobs, selfBlobs, belowBlobs, e]⟩
      · have hx' : x < 16 := by omega
        have hvr := vkey_lt_tail hk hx'
        rcases hcan.1 x hx' with e | hcc
        · exact ⟨[], by simp [provePath, hxg, e], by simp [proofBlobs, selfBlobs, belowBlobs, e]⟩
        · obtain ⟨ps, h1, h2⟩ := ih x hcc r hvr
          refine ⟨cs x :: ps, ?_, ?_⟩
          · simp [provePath, hxg, h1]
          · rw [proofBlobs_cons_false, h2, selfBlobs_canon H hcc]

/-- `prove` = the blob of the root followed by the blobs of the large nodes on the path -/
theorem prove_eq (H : Bytes → Bytes) (t : Node) (hc : Canon t) (key : Key) (hk : VKey key) :
    prove H t key = some (enc (item H t) :: belowBlobs H t key) := by
  obtain ⟨ps, h1, h2⟩ := pathBlobs H t hc key hk
  simp [prove, h1, proofBlobs, h2]

theorem lookup_some_of_mem {H : Bytes → Bytes} {proof : List Bytes} {b : Bytes} (hb : b ∈ proof) :
    ∃ buf, lookup H proof (H b) = some buf := by
  unfold lookup
  have : (proof.reverse.find? (fun x => H x == H b)).isSome = true := by
    rw [List.find?_isSome]
    exact ⟨b, by simp [hb], by simp⟩
  exact Option.isSome_iff_exists.1 this

/-- LOOP COMPLETENESS: if the blob of `m` and the blobs of all large nodes below it on the path are
among the given blobs, the loop started at the hash of `m` reaches the verdict of `get` (or the
given blobs contain a collision) -/
theorem verifyLoop_complete (H : Bytes → Bytes) (hlen : ∀ x, (H x).length = 32)
    (proof : List Bytes) : ∀ (fuel : Nat) (m : Node) (key : Key), Canon m → NoEmpty m → EncOK H m →
      VKey key → enc (item H m) ∈ proof → (∀ b ∈ belowBlobs H m key, b ∈ proof) →
      (belowBlobs H m key).length < fuel →
      verifyLoop H proof fuel (H (enc (item H m))) key = verdictOf (get m key) ∨ Collision H := by
  intro fuel
  induction fuel with
  | zero => intro m key _ _ _ _ _ _ h; omega
  | succ f ih =>
    intro m key hcan hne hok hk hmem hall hfuel
    obtain ⟨buf, hl⟩ := lookup_some_of_mem (H := H) hmem
    obtain ⟨hh, _⟩ := lookup_hash hl
    by_cases hb : buf = enc (item H m)
    · subst hb
      have hdec := decodeNode_enc H hlen m hcan hok (2 * (enc (item H m)).length + 2) [] (by omega)
      rw [List.append_nil] at hdec
      simp only [verifyLoop, hl, hdec]
      have hw := walk H m hcan hne hok key hk
      cases hp : pget (coll H m) key with
      | none => rw [hp] at hw; exact absurd hw (by simp [WalkOK])
      | some p =>
        rcases p with ⟨kr, n⟩
        rw [hp] at hw
        cases n with
        | nil => simp only [WalkOK] at hw; left; rw [hw]; rfl
        | value v' => simp only [WalkOK] at hw; left; rw [hw]; rfl
        | hash h' =>
          simp only [WalkOK] at hw
          obtain ⟨m', c1, c2, c3, c4, c5, _, c7, c8⟩ := hw
          subst c5
          rw [c7]
          have hmem' : enc (item H m') ∈ proof := hall _ (by rw [c8]; simp)
          have hall' : ∀ b ∈ belowBlobs H m' kr, b ∈ proof :=
            fun b hb' => hall b (by rw [c8]; simp [hb'])
          have hfuel' : (belowBlobs H m' kr).length < f := by
            rw [c8] at hfuel; simp at hfuel; omega
          exact ih m' kr c1 c2 c3 c4 hmem' hall' hfuel'
        | short _ _ => exact absurd hw (by simp [WalkOK])
        | full _ => exact absurd hw (by simp [WalkOK])
    · exact Or.inr ⟨buf, enc (item H m), hb, hh⟩

end KV.Trie
