import KV.Model.BitArray
/-! Lemmas about the BitArray model: word level, list level (closed forms of the loops), bit level. -/
namespace KV.BitArr

/-! ## words -/
theorem wbit_or (a b : Word) (j : Nat) : wbit (a ||| b) j = (wbit a j || wbit b j) := by simp [wbit]
theorem wbit_and (a b : Word) (j : Nat) : wbit (a &&& b) j = (wbit a j && wbit b j) := by simp [wbit]
theorem wbit_not (a : Word) (j : Nat) : wbit (~~~a) j = (decide (j < 64) && !wbit a j) := by simp [wbit]
theorem wbit_zero (j : Nat) : wbit 0 j = false := by simp [wbit]
theorem wbit_ge (a : Word) (j : Nat) (h : 64 ≤ j) : wbit a j = false := by
  simp [wbit]; exact BitVec.getLsbD_of_ge _ _ h
theorem wbit_one_shl (k j : Nat) (hk : k < 64) : wbit (goShl 1 k) j = decide (j = k) := by
  have : ¬ 64 ≤ k := by omega
  simp [wbit, goShl, this, UInt64.toBitVec_shiftLeft]
  rw [Nat.mod_eq_of_lt hk, Bool.eq_iff_iff]
  simp
  omega
theorem word_ext (a b : Word) (h : ∀ j, j < 64 → wbit a j = wbit b j) : a = b := by
  apply UInt64.eq_of_toBitVec_eq
  apply BitVec.eq_of_getLsbD_eq
  intro i hi
  exact h i hi
theorem ne_zero_iff (a : Word) : (a != 0) = true ↔ ∃ j, j < 64 ∧ wbit a j = true := by
  constructor
  · intro h
    apply Classical.byContradiction
    intro hn
    have : a = 0 := by
      apply word_ext
      intro i hi
      have := fun hh => hn ⟨i, hi, hh⟩
      simp at this
      simp [this, wbit_zero]
    simp [this] at h
  · rintro ⟨j, hj, hb⟩
    simp
    intro h0
    simp [h0, wbit_zero] at hb

/-- `w & (1<<k) != 0` is bit `k` -/
theorem and_mask_ne_zero (w : Word) (k : Nat) (hk : k < 64) : ((w &&& goShl 1 k) != 0) = wbit w k := by
  rw [Bool.eq_iff_iff, ne_zero_iff]
  constructor
  · rintro ⟨j, _, hb⟩
    rw [wbit_and, wbit_one_shl k j hk] at hb
    simp at hb
    rw [← hb.2]; exact hb.1
  · intro h
    exact ⟨k, hk, by rw [wbit_and, wbit_one_shl k k hk]; simp [h]⟩

/-! ## loops in closed form -/
theorem orLoop_eq (c o : List Word) : orLoop c o = List.zipWith (· ||| ·) c o ++ c.drop o.length := by
  induction c generalizing o with
  | nil => cases o <;> simp [orLoop]
  | cons x xs ih => cases o with
    | nil => simp [orLoop]
    | cons y ys => simp [orLoop, ih]

theorem orLoopOld_eq (c o : List Word) (h : c.length ≤ o.length) :
    orLoopOld c o = some (List.zipWith (· ||| ·) c o) := by
  induction c generalizing o with
  | nil => simp [orLoopOld]
  | cons x xs ih => cases o with
    | nil => simp at h
    | cons y ys => simp at h; simp [orLoopOld, ih ys h]

theorem orLoopOld_none (c o : List Word) (h : o.length < c.length) : orLoopOld c o = none := by
  induction c generalizing o with
  | nil => simp at h
  | cons x xs ih => cases o with
    | nil => simp [orLoopOld]
    | cons y ys => simp at h; simp [orLoopOld, ih ys h]

theorem andLoop_eq (c o : List Word) (h : c.length ≤ o.length) :
    andLoop c o = some (List.zipWith (· &&& ·) c o) := by
  induction c generalizing o with
  | nil => simp [andLoop]
  | cons x xs ih => cases o with
    | nil => simp at h
    | cons y ys => simp at h; simp [andLoop, ih ys h]

theorem andLoop_none (c o : List Word) (h : o.length < c.length) : andLoop c o = none := by
  induction c generalizing o with
  | nil => simp at h
  | cons x xs ih => cases o with
    | nil => simp [andLoop]
    | cons y ys => simp at h; simp [andLoop, ih ys h]

theorem subLoop_eq (c o : List Word) (h : o.length ≤ c.length) :
    subLoop c o = some (List.zipWith (fun x y => x &&& ~~~ y) c o ++ c.drop o.length) := by
  induction c generalizing o with
  | nil => cases o with
    | nil => simp [subLoop]
    | cons y ys => simp at h
  | cons x xs ih => cases o with
    | nil => simp [subLoop]
    | cons y ys => simp at h; simp [subLoop, ih ys h]

/-! ## sizes -/
theorem nwords_mono {a b : Nat} (h : a ≤ b) : nwords a ≤ nwords b := by unfold nwords; omega
theorem lt_nwords {i bits : Nat} (h : i < bits) : i / 64 < nwords bits := by unfold nwords; omega
theorem nwords_pos_pred {bits : Nat} (h : 0 < nwords bits) : (nwords bits - 1) * 64 < bits := by
  unfold nwords at *; omega

theorem wf_new (n : Int) : ∀ a, new n = some a → WF a ∧ (a.bits : Int) = n := by
  intro a h
  unfold new at h
  split at h
  · cases h
  · cases h; simp [WF]; omega

theorem wf_copy {a : BitArray} (h : WF a) : WF (copy a) := h
theorem wf_copyBits (a : BitArray) (n : Nat) : WF (copyBits a n) := by
  simp [WF, copyBits]; omega
theorem wf_not {a : BitArray} (h : WF a) : WF (not a) := by simpa [WF, not] using h
theorem wf_update {a : BitArray} (o : BitArray) (h : WF a) : WF (update a o) := by
  simp [WF, update] at *; omega

/-! ## raw bits -/
theorem rawBit_of_le_words (a : BitArray) (i : Nat) (h : a.elems.length ≤ i / 64) : rawBit a i = false := by
  simp [rawBit, List.getElem?_eq_none h]

theorem rawBit_copy (a : BitArray) (i : Nat) : rawBit (copy a) i = rawBit a i := rfl

theorem rawBit_copyBits (a : BitArray) (n i : Nat) :
    rawBit (copyBits a n) i = (decide (i / 64 < nwords n) && rawBit a i) := by
  simp only [rawBit, copyBits, List.getElem?_append, List.getElem?_take, List.length_take,
    List.getElem?_replicate]
  by_cases h1 : i / 64 < nwords n
  · by_cases h2 : i / 64 < a.elems.length
    · have : i / 64 < min (nwords n) a.elems.length := by omega
      simp [h1, this]
    · have h3 : ¬ i / 64 < min (nwords n) a.elems.length := by omega
      have h4 : a.elems[i / 64]? = none := List.getElem?_eq_none (by omega)
      simp only [h1, h3, h4, if_false, decide_true, Bool.true_and]
      split
      · rename_i w hw
        split at hw
        · cases hw; exact wbit_zero _
        · cases hw
      · rfl
  · have h3 : ¬ i / 64 < min (nwords n) a.elems.length := by omega
    simp [h1, h3]
    split
    · rename_i w hw
      split at hw
      · omega
      · cases hw
    · rfl

theorem rawBit_not (a : BitArray) (i : Nat) :
    rawBit (not a) i = (decide (i / 64 < a.elems.length) && !rawBit a i) := by
  simp only [rawBit, not, List.getElem?_map]
  by_cases h : i / 64 < a.elems.length
  · have : a.elems[i / 64]? = some a.elems[i / 64] := List.getElem?_eq_getElem h
    simp [h, wbit_not]; omega
  · have : a.elems[i / 64]? = none := List.getElem?_eq_none (by omega)
    simp [this, h]

theorem rawBit_update (a o : BitArray) (i : Nat) :
    rawBit (update a o) i =
      if i / 64 < min a.elems.length o.elems.length then rawBit o i else rawBit a i := by
  simp only [rawBit, update, List.getElem?_append, List.getElem?_take, List.length_take, List.getElem?_drop]
  by_cases h : i / 64 < min a.elems.length o.elems.length
  · have : i / 64 < a.elems.length := by omega
    simp [h, this]
  · simp only [h, if_false]
    by_cases h2 : o.elems.length ≤ a.elems.length
    · have : min a.elems.length o.elems.length = o.elems.length := by omega
      rw [this] at h ⊢
      have : o.elems.length + (i / 64 - o.elems.length) = i / 64 := by omega
      rw [this]
    · have h3 : min a.elems.length o.elems.length = a.elems.length := by omega
      rw [h3] at h ⊢
      have h4 : a.elems[i / 64]? = none := List.getElem?_eq_none (by omega)
      have h5 : a.elems[o.elems.length + (i / 64 - a.elems.length)]? = none :=
        List.getElem?_eq_none (by omega)
      rw [h4, h5]

/-! ## GetIndex / SetIndex -/
theorem wordIdx_nat (i : Nat) : wordIdx (i : Int) = some (i / 64) := by
  simp [wordIdx]
theorem mask_nat (i : Nat) : mask (i : Int) = goShl 1 (i % 64) := by
  simp [mask]

theorem getIndex_nat (a : BitArray) (i : Nat) (h : WF a) : getIndex a (i : Int) = some (bitAt a i) := by
  unfold getIndex bitAt
  by_cases hb : (a.bits : Int) ≤ (i : Int)
  · have : ¬ i < a.bits := by omega
    simp [hb, this]
  · have hlt : i < a.bits := by omega
    have hk : i / 64 < a.elems.length := by rw [h]; exact lt_nwords hlt
    have hg : a.elems[i / 64]? = some a.elems[i / 64] := List.getElem?_eq_getElem hk
    simp only [hb, if_false, wordIdx_nat, hg, mask_nat, rawBit, hlt, decide_true, Bool.true_and]
    rw [and_mask_ne_zero _ _ (Nat.mod_lt _ (by decide))]

theorem setIndex_nat (a : BitArray) (i : Nat) (v : Bool) (h : WF a) :
    ∃ a', setIndex a (i : Int) v = some (a', decide (i < a.bits)) ∧ a'.bits = a.bits ∧
      a'.elems.length = a.elems.length ∧
      ∀ j, rawBit a' j = if j = i ∧ i < a.bits then v else rawBit a j := by
  unfold setIndex
  by_cases hb : (a.bits : Int) ≤ (i : Int)
  · have : ¬ i < a.bits := by omega
    exact ⟨a, by simp [hb, this], rfl, rfl, by simp [this]⟩
  · have hlt : i < a.bits := by omega
    have hk : i / 64 < a.elems.length := by rw [h]; exact lt_nwords hlt
    obtain ⟨w, hg⟩ : ∃ w, a.elems[i / 64]? = some w := ⟨_, List.getElem?_eq_getElem hk⟩
    simp only [hb, if_false, wordIdx_nat, hg, mask_nat, hlt, decide_true]
    refine ⟨_, rfl, rfl, by simp, ?_⟩
    intro j
    simp only [rawBit, List.getElem?_set, and_true]
    have hm : i % 64 < 64 := Nat.mod_lt _ (by decide)
    by_cases hj : i / 64 = j / 64
    · simp only [hj, if_true]
      rw [hj] at hk hg
      simp only [hk, if_true, hg]
      cases v
      · simp only [wbit_and, wbit_not, wbit_one_shl _ _ hm, Bool.false_eq_true, if_false]
        by_cases hji : j = i
        · subst hji; simp
        · have : ¬ j % 64 = i % 64 := by omega
          have h64 : j % 64 < 64 := Nat.mod_lt _ (by decide)
          simp [hji, this, h64]
      · simp only [wbit_or, wbit_one_shl _ _ hm, if_true]
        by_cases hji : j = i
        · subst hji; simp
        · have : ¬ j % 64 = i % 64 := by omega
          simp [hji, this]
    · have : ¬ j = i := by intro e; subst e; exact hj rfl
      simp [hj, this]

/-- a negative index at or below -64 panics (Go: `Elems[i/64]` with a negative index) -/
theorem getIndex_neg_oob (a : BitArray) (i : Int) (h : i ≤ -64) : getIndex a i = none := by
  have h1 : ¬ (a.bits : Int) ≤ i := by omega
  have h2 : ¬ 0 ≤ i := by omega
  have h3 : ¬ -64 < i := by omega
  simp [getIndex, wordIdx, h1, h2, h3]

/-! ## word-wise loops, bit level -/
def wordBit (ow : Option Word) (j : Nat) : Bool :=
  match ow with
  | some w => wbit w j
  | none => false

theorem rawBit_eq (a : BitArray) (i : Nat) : rawBit a i = wordBit a.elems[i / 64]? (i % 64) := rfl

theorem orLoop_length (c o : List Word) : (orLoop c o).length = c.length := by
  induction c generalizing o with
  | nil => cases o <;> simp [orLoop]
  | cons x xs ih => cases o with
    | nil => simp [orLoop]
    | cons y ys => simp [orLoop, ih]

theorem wordBit_orLoop (c o : List Word) (k j : Nat) :
    wordBit (orLoop c o)[k]? j = (wordBit c[k]? j || (decide (k < c.length) && wordBit o[k]? j)) := by
  induction c generalizing o k with
  | nil => cases o <;> simp [orLoop, wordBit]
  | cons x xs ih => cases o with
    | nil => simp [orLoop, wordBit]
    | cons y ys =>
      cases k with
      | zero => simp [orLoop, wordBit, wbit_or]
      | succ k => simp [orLoop, ih]

theorem wordBit_zipAnd (c o : List Word) (k j : Nat) :
    wordBit (List.zipWith (· &&& ·) c o)[k]? j = (wordBit c[k]? j && wordBit o[k]? j) := by
  rw [List.getElem?_zipWith]
  cases hc : c[k]? <;> cases ho : o[k]? <;> simp [wordBit, wbit_and]

theorem subLoop_length (c o e : List Word) (h : subLoop c o = some e) : e.length = c.length := by
  induction c generalizing o e with
  | nil => cases o <;> simp [subLoop] at h; subst h; rfl
  | cons x xs ih => cases o with
    | nil => simp [subLoop] at h; subst h; rfl
    | cons y ys =>
      simp [subLoop] at h
      obtain ⟨e', he', rfl⟩ := h
      simp [ih ys e' he']

theorem wordBit_subLoop (c o e : List Word) (h : subLoop c o = some e) (k j : Nat) :
    wordBit e[k]? j = (wordBit c[k]? j && !wordBit o[k]? j) := by
  induction c generalizing o e k with
  | nil => cases o <;> simp [subLoop] at h; subst h; simp [wordBit]
  | cons x xs ih => cases o with
    | nil => simp [subLoop] at h; subst h; simp [wordBit]
    | cons y ys =>
      simp [subLoop] at h
      obtain ⟨e', he', rfl⟩ := h
      cases k with
      | zero =>
        simp only [wordBit, wbit_and, wbit_not, List.getElem?_cons_zero]
        by_cases h64 : j < 64
        · simp [h64]
        · simp [wbit_ge x j (by omega)]
      | succ k => simp [ih ys e' he']

/-! ## Or / And / Not / Sub / Update : defined, well-formed, set-theoretic -/
theorem or_spec (a o : BitArray) (ha : WF a) (ho : WF o) :
    ∃ c, or (some a) (some o) = some (some c) ∧ c.bits = max a.bits o.bits ∧ WF c ∧
      ∀ i, rawBit c i = (rawBit a i || rawBit o i) := by
  refine ⟨_, rfl, rfl, ?_, ?_⟩
  · simp only [WF, orLoop_length]; exact wf_copyBits a _
  · intro i
    have hlen : (copyBits a (max a.bits o.bits)).elems.length = nwords (max a.bits o.bits) := wf_copyBits a _
    have h1 := rawBit_copyBits a (max a.bits o.bits) i
    rw [rawBit_eq] at h1
    show wordBit (orLoop _ _)[i / 64]? (i % 64) = _
    rw [wordBit_orLoop, h1, hlen]
    by_cases hk : i / 64 < nwords (max a.bits o.bits)
    · simp [hk, rawBit_eq]
    · have h2 : rawBit a i = false :=
        rawBit_of_le_words a i (by rw [ha]; have := @nwords_mono a.bits (max a.bits o.bits) (by omega); omega)
      have h3 : rawBit o i = false :=
        rawBit_of_le_words o i (by rw [ho]; have := @nwords_mono o.bits (max a.bits o.bits) (by omega); omega)
      simp [hk, h2, h3]

theorem and_spec (a o : BitArray) (_ha : WF a) (ho : WF o) :
    ∃ c, and a o = some c ∧ c.bits = min a.bits o.bits ∧ WF c ∧
      ∀ i, rawBit c i = (decide (i / 64 < nwords (min a.bits o.bits)) && rawBit a i && rawBit o i) := by
  have hlen : (copyBits a (min a.bits o.bits)).elems.length = nwords (min a.bits o.bits) := wf_copyBits a _
  have hle : (copyBits a (min a.bits o.bits)).elems.length ≤ o.elems.length := by
    rw [hlen, ho]; exact nwords_mono (by omega)
  refine ⟨⟨min a.bits o.bits, List.zipWith (· &&& ·) (copyBits a (min a.bits o.bits)).elems o.elems⟩, ?_, rfl, ?_, ?_⟩
  · simp only [and, andLoop_eq _ _ hle, Option.map_some]; rfl
  · simp only [WF, List.length_zipWith, hlen]; rw [hlen] at hle; omega
  · intro i
    show wordBit (List.zipWith _ _ _)[i / 64]? (i % 64) = _
    rw [wordBit_zipAnd, ← rawBit_eq, ← rawBit_eq, rawBit_copyBits]

theorem not_spec (a : BitArray) (ha : WF a) :
    (not a).bits = a.bits ∧ WF (not a) ∧ ∀ i, i < a.bits → bitAt (not a) i = !bitAt a i := by
  refine ⟨rfl, wf_not ha, ?_⟩
  intro i hi
  have : i / 64 < a.elems.length := by rw [ha]; exact lt_nwords hi
  have hb : (not a).bits = a.bits := rfl
  simp [bitAt, rawBit_not, hi, this, hb]

theorem subBits_spec (o : BitArray) (ho : WF o) : ∀ (n : Nat) (c : BitArray) (idx : Nat), WF c →
    idx + n ≤ o.bits → o.bits ≤ c.bits →
    ∃ c', subBits c o idx n = some c' ∧ c'.bits = c.bits ∧ c'.elems.length = c.elems.length ∧
      ∀ j, rawBit c' j = if idx ≤ j ∧ j < idx + n then (rawBit c j && !rawBit o j) else rawBit c j := by
  intro n
  induction n with
  | zero =>
    intro c idx _ _ _
    refine ⟨c, rfl, rfl, rfl, ?_⟩
    intro j
    have : ¬ (idx ≤ j ∧ j < idx + 0) := by omega
    rw [if_neg this]
  | succ n ih =>
    intro c idx hc hle hbits
    have hio : idx < o.bits := by omega
    have hic : idx < c.bits := by omega
    have hgc : getIndex c (idx : Int) = some (rawBit c idx) := by
      rw [getIndex_nat c idx hc]; simp [bitAt, hic]
    have hgo : getIndex o (idx : Int) = some (rawBit o idx) := by
      rw [getIndex_nat o idx ho]; simp [bitAt, hio]
    obtain ⟨c1, hs, hb1, hl1, hr1⟩ := setIndex_nat c idx (rawBit c idx && !rawBit o idx) hc
    have hc1 : WF c1 := by simp only [WF] at *; rw [hl1, hb1]; exact hc
    obtain ⟨c', hs', hb', hl', hr'⟩ := ih c1 (idx + 1) hc1 (by omega) (by omega)
    refine ⟨c', ?_, by omega, by omega, ?_⟩
    · simp only [subBits, hgc, hgo, Option.map_some]
      have : (if rawBit c idx = true then some (!rawBit o idx) else some false)
          = some (rawBit c idx && !rawBit o idx) := by
        cases rawBit c idx <;> simp
      rw [this]
      simp only [hs]
      exact hs'
    · intro j
      rw [hr' j, hr1 j]
      by_cases hj : j = idx
      · subst hj
        have : ¬ (j + 1 ≤ j ∧ j < j + 1 + n) := by omega
        have h2 : (j ≤ j ∧ j < j + (n + 1)) := by omega
        simp [this, h2, hic]
      · by_cases hr : idx + 1 ≤ j ∧ j < idx + 1 + n
        · have h2 : idx ≤ j ∧ j < idx + (n + 1) := by omega
          simp [hr, h2, hj, hr1 j]
        · have h2 : ¬ (idx ≤ j ∧ j < idx + (n + 1)) := by omega
          simp [hr, h2, hj]

theorem sub_spec (a o : BitArray) (ha : WF a) (ho : WF o) :
    ∃ c, sub a o = some c ∧ c.bits = a.bits ∧ WF c ∧
      ∀ i, i < a.bits → bitAt c i = (bitAt a i && !bitAt o i) := by
  unfold sub subWith
  by_cases hlt : o.bits < a.bits
  · simp only [hlt, if_true, copy]
    have hlo : o.elems.length ≤ a.elems.length := by rw [ha, ho]; exact nwords_mono (by omega)
    have hdl : o.elems.dropLast.length ≤ a.elems.length := by rw [List.length_dropLast]; omega
    have hsl := subLoop_eq a.elems o.elems.dropLast hdl
    obtain ⟨e, he⟩ : ∃ e, subLoop a.elems o.elems.dropLast = some e := ⟨_, hsl⟩
    have hel := subLoop_length _ _ _ he
    have hwb := wordBit_subLoop _ _ _ he
    simp only [he]
    have hc1 : WF (⟨a.bits, e⟩ : BitArray) := by simp only [WF] at *; rw [hel]; exact ha
    by_cases hz : o.elems.length = 0
    · simp only [hz, if_true]
      refine ⟨_, rfl, rfl, hc1, ?_⟩
      intro i hi
      have hob : o.bits = 0 := by
        have := ho; simp only [WF, nwords] at this; omega
      have h1 : bitAt o i = false := by simp [bitAt, hob]
      have h2 : o.elems.dropLast[i / 64]? = none := List.getElem?_eq_none (by rw [List.length_dropLast]; omega)
      rw [h1]
      simp only [bitAt, rawBit_eq, hwb, h2]
      simp [wordBit]
    · simp only [hz, if_false]
      have hpos : 0 < nwords o.bits := by rw [← ho]; omega
      have hlast := nwords_pos_pred hpos
      rw [← ho] at hlast
      obtain ⟨c', hs, hb, hl, hr⟩ := subBits_spec o ho (o.bits - (o.elems.length - 1) * 64) ⟨a.bits, e⟩
        ((o.elems.length - 1) * 64) hc1 (by omega) (by simp; omega)
      refine ⟨c', hs, hb, ?_, ?_⟩
      · simp only [WF] at *; rw [hl, hb]; exact hc1
      · intro i hi
        have hbi : c'.bits = a.bits := hb
        simp only [bitAt, hbi, hi, decide_true, Bool.true_and]
        rw [hr i]
        have hraw : rawBit (⟨a.bits, e⟩ : BitArray) i
            = (rawBit a i && !wordBit o.elems.dropLast[i / 64]? (i % 64)) := by
          rw [rawBit_eq]; exact hwb _ _
        rw [hraw, List.getElem?_dropLast]
        by_cases hk : i / 64 < o.elems.length - 1
        · have hio : i < o.bits := by omega
          have hnr : ¬ ((o.elems.length - 1) * 64 ≤ i ∧
              i < (o.elems.length - 1) * 64 + (o.bits - (o.elems.length - 1) * 64)) := by omega
          simp [hk, hnr, hio, rawBit_eq]
        · simp only [hk, if_false]
          by_cases hio : i < o.bits
          · have hin : ((o.elems.length - 1) * 64 ≤ i ∧
                i < (o.elems.length - 1) * 64 + (o.bits - (o.elems.length - 1) * 64)) := by omega
            simp [hin, hio, wordBit]
          · have hnr : ¬ ((o.elems.length - 1) * 64 ≤ i ∧
                i < (o.elems.length - 1) * 64 + (o.bits - (o.elems.length - 1) * 64)) := by omega
            simp [hnr, hio, wordBit]
  · simp only [hlt, if_false]
    obtain ⟨c, hc, hb, hw, hr⟩ := and_spec a (not o) ha (wf_not ho)
    have hmin : min a.bits (not o).bits = a.bits := by
      show min a.bits o.bits = a.bits; omega
    refine ⟨c, hc, by rw [hb, hmin], hw, ?_⟩
    intro i hi
    have hio : i < o.bits := by omega
    have hk1 : i / 64 < nwords a.bits := lt_nwords hi
    have hk2 : i / 64 < o.elems.length := by rw [ho]; exact lt_nwords hio
    rw [hmin] at hb hr
    simp [bitAt, hb, hi, hio, hr i, hk1, rawBit_not, hk2]

theorem update_spec (a o : BitArray) (ha : WF a) :
    (update a o).bits = a.bits ∧ WF (update a o) ∧
      ∀ i, rawBit (update a o) i =
        if i / 64 < min a.elems.length o.elems.length then rawBit o i else rawBit a i :=
  ⟨rfl, wf_update o ha, rawBit_update a o⟩

/-! ## PickRandom -/
theorem scanBits_some (w : Word) (n start : Nat) (hn : 0 < n) (hn64 : n ≤ 64) :
    ∀ fuel j b, scanBits w n start j fuel = some b → b < n ∧ wbit w b = true := by
  intro fuel
  induction fuel with
  | zero => intro j b h; simp [scanBits] at h
  | succ fuel ih =>
    intro j b h
    have hlt : (j + start) % n < n := Nat.mod_lt _ hn
    simp only [scanBits, and_mask_ne_zero w _ (by omega : (j + start) % n < 64)] at h
    split at h
    · rename_i hb
      cases h
      exact ⟨hlt, hb⟩
    · exact ih _ _ h

theorem scanBits_none (w : Word) (n start : Nat) (hn : 0 < n) (hn64 : n ≤ 64) :
    ∀ fuel j, scanBits w n start j fuel = none →
      ∀ t, j ≤ t → t < j + fuel → wbit w ((t + start) % n) = false := by
  intro fuel
  induction fuel with
  | zero => intro j _ t h1 h2; omega
  | succ fuel ih =>
    intro j h t h1 h2
    have hlt : (j + start) % n < n := Nat.mod_lt _ hn
    simp only [scanBits, and_mask_ne_zero w _ (by omega : (j + start) % n < 64)] at h
    split at h
    · cases h
    · rename_i hb
      by_cases ht : t = j
      · subst ht; simpa using hb
      · exact ih _ h t (by omega) (by omega)

/-- a full scan that finds nothing means no bit below `n` is set -/
theorem scanBits_none_all (w : Word) (n start : Nat) (hn : 0 < n) (hn64 : n ≤ 64) (hs : start < n)
    (h : scanBits w n start 0 n = none) : ∀ b, b < n → wbit w b = false := by
  intro b hb
  have := scanBits_none w n start hn hn64 n 0 h ((b + n - start) % n) (by omega)
    (by have := Nat.mod_lt (b + n - start) hn; omega)
  rw [Nat.mod_add_mod] at this
  have e : b + n - start + start = b + n := by omega
  rw [e, Nat.add_mod_right, Nat.mod_eq_of_lt hb] at this
  exact this

/-- `PanicSanity("should not happen")` is unreachable: a non-zero word has a set bit among 64 -/
theorem scanBits_nonzero (w : Word) (start : Nat) (hs : start < 64) (hw : (w != 0) = true) :
    ∃ b, scanBits w 64 start 0 64 = some b := by
  cases h : scanBits w 64 start 0 64 with
  | some b => exact ⟨b, rfl⟩
  | none =>
    obtain ⟨j, hj, hb⟩ := (ne_zero_iff w).1 hw
    have := scanBits_none_all w 64 start (by decide) (by decide) hs h j hj
    rw [this] at hb; cases hb

theorem pickLoop_spec (a : BitArray) (ha : WF a) (hl : 0 < a.elems.length) (start : Nat) (rb : Nat → Nat) :
    ∀ fuel i, ∃ r, pickLoop a start rb i fuel = some r ∧
      (r.2 = true → r.1 < a.bits ∧ rawBit a r.1 = true) ∧ (r.2 = false → r.1 = 0) := by
  intro fuel
  induction fuel with
  | zero => intro i; exact ⟨(0, false), rfl, by simp, by simp⟩
  | succ fuel ih =>
    intro i
    have hk : (i + start) % a.elems.length < a.elems.length := Nat.mod_lt _ hl
    obtain ⟨w, hw⟩ : ∃ w, a.elems[(i + start) % a.elems.length]? = some w := ⟨_, List.getElem?_eq_getElem hk⟩
    simp only [pickLoop, hw]
    have hlen : a.elems.length = (a.bits + 63) / 64 := ha
    generalize hkk : (i + start) % a.elems.length = k at *
    by_cases hlast : k < a.elems.length - 1
    · simp only [hlast, if_true]
      by_cases hz : (w != 0) = true
      · simp only [hz, if_true]
        obtain ⟨b, hb⟩ := scanBits_nonzero w (rb k % 64) (Nat.mod_lt _ (by decide)) hz
        rw [hb]
        have ⟨hb64, hbit⟩ := scanBits_some w 64 (rb k % 64) (by decide) (by decide) _ _ _ hb
        refine ⟨_, rfl, ?_, by simp⟩
        intro _
        refine ⟨by simp only; omega, ?_⟩
        have e1 : (64 * k + b) / 64 = k := by omega
        have e2 : (64 * k + b) % 64 = b := by omega
        simp [rawBit, e1, e2, hw, hbit]
      · simp only [hz]
        exact ih (i + 1)
    · simp only [hlast, if_false]
      have heb : 0 < (if a.bits % 64 = 0 then 64 else a.bits % 64) := by split <;> omega
      have heb64 : (if a.bits % 64 = 0 then 64 else a.bits % 64) ≤ 64 := by split <;> omega
      cases hsc : scanBits w (if a.bits % 64 = 0 then 64 else a.bits % 64)
          (rb k % (if a.bits % 64 = 0 then 64 else a.bits % 64)) 0
          (if a.bits % 64 = 0 then 64 else a.bits % 64) with
      | none => exact ih (i + 1)
      | some b =>
        have ⟨hbn, hbit⟩ := scanBits_some w _ _ heb heb64 _ _ _ hsc
        refine ⟨_, rfl, ?_, by simp⟩
        intro _
        have hb64 : b < 64 := by omega
        refine ⟨?_, ?_⟩
        · simp only
          split at hbn <;> omega
        · have e1 : (64 * k + b) / 64 = k := by omega
          have e2 : (64 * k + b) % 64 = b := by omega
          simp [rawBit, e1, e2, hw, hbit]

theorem pickRandom_spec (a : BitArray) (ha : WF a) (start : Nat) (rb : Nat → Nat) :
    ∃ r, pickRandom a start rb = some r ∧
      (r.2 = true → r.1 < a.bits ∧ rawBit a r.1 = true) ∧ (r.2 = false → r.1 = 0) := by
  unfold pickRandom
  by_cases hl : a.elems.length = 0
  · simp [hl]
  · simp only [hl, if_false]
    exact pickLoop_spec a ha (by omega) _ rb _ _

end KV.BitArr
